import SaModel.Lemmas.C01ObsDefs
/-
C01 "hidden rows" — algebra of `Refines`, and the relation of the observable rows `decH` to `dec`:
  decH_length   the observable rows are as many as the rows
  decH_sound    a DETERMINED observable row is the row `dec` reads
  decH_of_WFB   under the strict invariant `WFB` every row is determined
  WFH_of_WFB    the strict invariant implies the weak one
-/
namespace SaModel.Build
open SaModel SaModel.Spec

theorem Refines.refl (a : H) : Refines a a := ⟨rfl, fun _ _ h => h⟩

theorem Refines.trans {a b c : H} (h1 : Refines a b) (h2 : Refines b c) : Refines a c :=
  ⟨h1.1.trans h2.1, fun i x h => h1.2 i x (h2.2 i x h)⟩

theorem Refines.length {a b : H} (h : Refines a b) : a.length = b.length := h.1

/-- a `some (some _)` entry is inside the list -/
theorem lt_of_getElem?_some {α} {l : List α} {i : Nat} {x : α} (h : l[i]? = some x) : i < l.length := by
  rcases Nat.lt_or_ge i l.length with h' | h'
  · exact h'
  · rw [List.getElem?_eq_none h'] at h; cases h

theorem Refines.nil : Refines [] [] := Refines.refl []

/-- `Refines` on a `cons`: head determined ⇒ unchanged, tails refine -/
theorem Refines.cons_iff {x y : Option LVal} {a b : H} :
    Refines (x :: a) (y :: b) ↔ (∀ z, y = some z → x = some z) ∧ Refines a b := by
  constructor
  · intro h
    refine ⟨?_, ?_, ?_⟩
    · intro z hz
      have := h.2 0 z (by simp [hz])
      simpa using this
    · have := h.1; simpa using this
    · intro i z hz
      have := h.2 (i + 1) z (by simpa using hz)
      simpa using this
  · intro ⟨h1, h2⟩
    refine ⟨by simp [h2.1], ?_⟩
    intro i z hz
    cases i with
    | zero => simp at hz ⊢; exact h1 z hz
    | succ i => simp at hz ⊢; exact h2.2 i z hz

theorem Refines.nil_left {b : H} (h : Refines [] b) : b = [] := by
  have := h.1; simp at this; exact List.eq_nil_of_length_eq_zero this.symm

theorem Refines.nil_right {a : H} (h : Refines a []) : a = [] := by
  have := h.1; simp at this; exact this

theorem Refines.append {a a' b b' : H} (h1 : Refines a a') (h2 : Refines b b') : Refines (a ++ b) (a' ++ b') := by
  refine ⟨by simp [h1.1, h2.1], ?_⟩
  intro i x h
  rw [List.getElem?_append] at h ⊢
  rw [h1.1]
  split at h
  · rename_i hc; rw [if_pos hc]; exact h1.2 i x h
  · rename_i hc; rw [if_neg hc]; exact h2.2 _ x h

/-- a refinement of a concatenation splits at the same place -/
theorem Refines.split {a b c : H} (h : Refines a (b ++ c)) :
    Refines (a.take b.length) b ∧ Refines (a.drop b.length) c := by
  have hl : a.length = b.length + c.length := by simpa using h.1
  refine ⟨⟨by simp [List.length_take]; omega, ?_⟩, ⟨by simp [List.length_drop]; omega, ?_⟩⟩
  · intro i x hi
    have hlt : i < b.length := lt_of_getElem?_some hi
    rw [List.getElem?_take, if_pos hlt]
    apply h.2
    rw [List.getElem?_append_left hlt]; exact hi
  · intro i x hi
    rw [List.getElem?_drop]
    apply h.2
    rw [List.getElem?_append_right (by omega)]
    have : b.length + i - b.length = i := by omega
    rw [this]; exact hi

/-- nothing refines a fully determined list but itself -/
theorem Refines.of_map_some {a : H} {xs : List LVal} (h : Refines a (xs.map some)) : a = xs.map some := by
  apply List.ext_getElem?
  intro i
  rcases Nat.lt_or_ge i xs.length with hi | hi
  · have e : (xs.map some)[i]? = some (some xs[i]) := by simp [hi]
    rw [e]; exact h.2 i _ e
  · rw [List.getElem?_eq_none (by rw [h.1]; simpa using hi), List.getElem?_eq_none (by simpa using hi)]

/-- undetermined rows may become anything -/
theorem Refines.of_none {a : H} {k : Nat} (h : a.length = k) : Refines a (List.replicate k none) := by
  refine ⟨by simp [h], ?_⟩
  intro i x hx
  rw [List.getElem?_replicate] at hx
  split at hx <;> cases hx

/-- two extensions in a row -/
theorem Refines.extend {c0 c c' a t : H} (h1 : Refines c (c0 ++ a)) (h2 : Refines c' (c ++ t)) :
    Refines c' (c0 ++ (a ++ t)) := by
  rw [← List.append_assoc]
  exact h2.trans (h1.append (Refines.refl t))

/-- the appended determined row is unique -/
theorem Refines.snoc_inj {a b : H} {x y : LVal} (h1 : Refines a (b ++ [some x])) (h2 : Refines a (b ++ [some y])) :
    x = y := by
  have e1 := h1.2 b.length x (by simp)
  have e2 := h2.2 b.length y (by simp)
  rw [e1] at e2
  cases e2; rfl

theorem Refines.getElem?_some {a b : H} (h : Refines a b) {i : Nat} {x : LVal} (hb : b[i]? = some (some x)) :
    a[i]? = some (some x) := h.2 i x hb

theorem Refines.take {a b : H} (h : Refines a b) (n : Nat) : Refines (a.take n) (b.take n) := by
  refine ⟨by simp [h.1], ?_⟩
  intro i x hx
  rw [List.getElem?_take] at hx ⊢
  split at hx
  · rename_i hc; rw [if_pos hc]; exact h.2 i x hx
  · cases hx

theorem Refines.drop {a b : H} (h : Refines a b) (n : Nat) : Refines (a.drop n) (b.drop n) := by
  refine ⟨by simp [h.1], ?_⟩
  intro i x hx
  rw [List.getElem?_drop] at hx ⊢
  exact h.2 _ x hx

theorem Refines.slice {a b : H} (h : Refines a b) (s e : Int) : Refines (sliceL a s e) (sliceL b s e) := by
  unfold sliceL
  exact (h.drop _).take _

theorem allSome_map_some {α} (xs : List α) : allSome (xs.map some) = some xs := by
  induction xs with
  | nil => rfl
  | cons x xs ih => simp [allSome, ih]

/-- `allSome` succeeds exactly on the fully determined lists -/
theorem allSome_eq_some_iff {α} : ∀ {b : List (Option α)} {xs : List α}, allSome b = some xs ↔ b = xs.map some
  | [], xs => by
    cases xs <;> simp [allSome]
  | none :: r, xs => by
    cases xs <;> simp [allSome]
  | some x :: r, xs => by
    cases xs with
    | nil => simp [allSome]
    | cons y ys =>
      simp only [allSome, Option.map_eq_some_iff, List.map_cons, List.cons.injEq, Option.some.injEq]
      constructor
      · rintro ⟨zs, hz, rfl, rfl⟩
        exact ⟨rfl, allSome_eq_some_iff.1 hz⟩
      · rintro ⟨rfl, hr⟩
        exact ⟨ys, allSome_eq_some_iff.2 hr, rfl, rfl⟩

/-- `allSome` is monotone -/
theorem allSome_refines {a b : H} (h : Refines a b) {xs : List LVal} (hb : allSome b = some xs) : allSome a = some xs := by
  rw [allSome_eq_some_iff] at hb ⊢
  subst hb
  exact h.of_map_some

theorem allSome_append {α} (a b : List (Option α)) :
    allSome (a ++ b) = (match allSome a, allSome b with | some x, some y => some (x ++ y) | _, _ => none) := by
  induction a with
  | nil => simp only [List.nil_append, allSome]; cases allSome b <;> rfl
  | cons x a ih =>
    cases x with
    | none => simp [allSome]
    | some x =>
      simp only [List.cons_append, allSome, ih]
      cases allSome a <;> cases allSome b <;> rfl

theorem maskNullH_length {v : Validity} {xs : H} (hv : VLen v xs.length) : (maskNullH v xs).length = xs.length := by
  cases v with
  | none => rfl
  | some bits => simp [maskNullH, hv bits rfl]

theorem maskNullH_map_some (v : Validity) (xs : List LVal) : maskNullH v (xs.map some) = (maskNull v xs).map some := by
  cases v with
  | none => rfl
  | some bits =>
    simp only [maskNullH, maskNull, List.zipWith_map_right, List.map_zipWith]
    congr 1
    funext b x
    cases b <;> rfl

theorem maskNullH_refines (v : Validity) {a b : H} (h : Refines a b) : Refines (maskNullH v a) (maskNullH v b) := by
  cases v with
  | none => exact h
  | some bits =>
    refine ⟨by simp [maskNullH, h.1], ?_⟩
    intro i x hx
    simp only [maskNullH, List.getElem?_zipWith] at hx ⊢
    cases hbi : bits[i]? with
    | none => rw [hbi] at hx; cases hx
    | some bt =>
      cases hb : b[i]? with
      | none => rw [hbi, hb] at hx; cases hx
      | some y =>
        rw [hbi, hb] at hx
        have hlt : i < a.length := by rw [h.1]; exact lt_of_getElem?_some hb
        obtain ⟨w, hw⟩ : ∃ w, a[i]? = some w := ⟨a[i], by simp [hlt]⟩
        rw [hw]
        cases bt with
        | false => exact hx
        | true =>
          simp only [if_true, Option.some.injEq] at hx ⊢
          subst hx
          have := h.2 i x hb
          rw [hw] at this
          cases this; rfl

theorem maskNullH_append {v : Validity} {xs : H} (hv : VLen v xs.length) (bs : List Bool) (ys : H) :
    maskNullH (v.map (· ++ bs)) (xs ++ ys) = maskNullH v xs ++ maskNullH (v.map fun _ => bs) ys := by
  cases v with
  | none => simp [maskNullH]
  | some bits =>
    have hl : bits.length = xs.length := hv bits rfl
    simp only [maskNullH, Option.map_some]
    rw [List.zipWith_append hl]

/-- the observable form of `rowOf` -/
theorem maskNullH_const_one (v : Validity) (b : Bool) (y : LVal) :
    maskNullH (v.map fun _ => [b]) [some y] = [some (rowOf v b y)] := by
  cases v with
  | none => simp [maskNullH]
  | some bits => cases b <;> simp [maskNullH, rowOf]

/-- a row whose bit is clear is a determined null whatever the payload -/
theorem maskNullH_const_false (v : Validity) (k : Nat) (ys : H) (hy : ys.length = k) :
    maskNullH (v.map fun _ => List.replicate k false) ys = if v.isSome then List.replicate k (some LVal.null) else ys := by
  cases v with
  | none => simp [maskNullH]
  | some bits =>
    simp only [maskNullH, Option.map_some, Option.isSome_some, if_true]
    subst hy
    induction ys with
    | nil => rfl
    | cons y ys ih => simp [List.replicate_succ, ih]

theorem maskNullH_length_eq (v : Validity) {xs : H} {ys : List LVal} (h : xs.length = ys.length) :
    (maskNullH v xs).length = (maskNull v ys).length := by
  cases v <;> simp [maskNullH, maskNull, h]

mutual
theorem decH_length : ∀ (b : B), (decH b).length = (dec b).length
  | .null _ _ => by simp [decH]
  | .unknownVariant _ => by simp [decH]
  | .leaf _ _ _ _ => by simp [decH]
  | .bytes _ _ _ _ _ => by simp [decH]
  | .bytesView _ _ _ _ _ => by simp [decH]
  | .fixedSizeBinary _ _ _ _ _ _ => by simp [decH]
  | .list _ _ _ v offs el => by
    simp only [decH, dec]; exact maskNullH_length_eq v (by simp [listRowsH])
  | .fixedSizeList _ _ n len v _ el => by
    simp only [decH, dec]; exact maskNullH_length_eq v (by simp [fslRowsH])
  | .map _ _ v offs ks vs => by
    simp only [decH, dec]; exact maskNullH_length_eq v (by simp [mapRowsH])
  | .struct _ len v fs _ _ _ => by
    simp only [decH, dec]; exact maskNullH_length_eq v (by simp [structRowsH])
  | .dictionary _ idx vals _ => by
    simp only [decH, dec, List.length_map]; exact decH_length idx
  | .union _ fs types offs _ => by simp [decH, dec]
theorem decHCols_length : ∀ (fs : BL), (decHCols fs).map (fun c => (c.1, c.2.length)) = (decCols fs).map (fun c => (c.1, c.2.length))
  | .nil => rfl
  | .cons b m r => by simp only [decHCols, decCols, List.map_cons, decH_length b, decHCols_length r]
end

/-- the observable column of child `j` -/
def colAtH (fs : BL) (j : Nat) : H := ((decHCols fs).getD j ("", [])).2

theorem colAtH_get : ∀ (fs : BL) (j : Nat) (x : B × FieldMeta), fs.get? j = some x → colAtH fs j = decH x.1
  | .nil, _, _, h => by simp [BL.get?] at h
  | .cons b m r, 0, x, h => by simp [BL.get?] at h; subst h; simp [colAtH, decHCols]
  | .cons b m r, j + 1, x, h => by
    simp only [BL.get?] at h
    have := colAtH_get r j x h
    simpa [colAtH, decHCols] using this

theorem colAtH_set_ne : ∀ (fs : BL) (i j : Nat) (c : B), i ≠ j → colAtH (fs.set i c) j = colAtH fs j
  | .nil, _, _, _, _ => rfl
  | .cons _ _ r, 0, 0, _, h => absurd rfl h
  | .cons _ _ r, 0, j + 1, _, _ => by simp [colAtH, decHCols, BL.set]
  | .cons _ _ r, i + 1, 0, _, _ => by simp [colAtH, decHCols, BL.set]
  | .cons _ _ r, i + 1, j + 1, c, h => by
    have := colAtH_set_ne r i j c (by omega)
    simpa [colAtH, decHCols, BL.set] using this

theorem decHCols_names : ∀ (fs : BL), (decHCols fs).map (·.1) = fs.names
  | .nil => rfl
  | .cons b m r => by simp [decHCols, BL.names, decHCols_names r]

/-! ### the pure row functions: monotone w.r.t. `Refines`, and on determined children the rows `dec` reads -/

theorem sliceL_map {α β} (f : α → β) (xs : List α) (s e : Int) : sliceL (xs.map f) s e = (sliceL xs s e).map f := by
  simp [sliceL, List.map_drop, List.map_take]

/-- two maps over the same list, the second pointwise less determined -/
theorem Refines.map_congr {α} {l : List α} {f g : α → Option LVal}
    (h : ∀ x ∈ l, ∀ z, g x = some z → f x = some z) : Refines (l.map f) (l.map g) := by
  refine ⟨by simp, ?_⟩
  intro i z hz
  rw [List.getElem?_map] at hz ⊢
  cases hl : l[i]? with
  | none => rw [hl] at hz; cases hz
  | some x =>
    rw [hl] at hz
    simp only [Option.map_some, Option.some.injEq] at hz ⊢
    exact h x (List.mem_of_getElem? hl) z hz

theorem Refines.map_some_congr {α} {l : List α} {f : α → LVal} {g : α → Option LVal}
    (h : ∀ x ∈ l, ∀ z, g x = some z → f x = z) : Refines ((l.map f).map some) (l.map g) := by
  rw [List.map_map]
  exact Refines.map_congr fun x hx z hz => by simp [h x hx z hz]

theorem Refines.zipWith_some {α β} {l1 : List α} {l2 : List β} {f : α → β → LVal} {g : α → β → Option LVal}
    (h : ∀ a b z, g a b = some z → f a b = z) : Refines ((List.zipWith f l1 l2).map some) (List.zipWith g l1 l2) := by
  refine ⟨by simp, ?_⟩
  intro i z hz
  rw [List.getElem?_map, List.getElem?_zipWith]
  rw [List.getElem?_zipWith] at hz
  cases h1 : l1[i]? with
  | none => simp [h1] at hz
  | some a =>
    cases h2 : l2[i]? with
    | none => simp [h1, h2] at hz
    | some b =>
      simp only [h1, h2, Option.some.injEq] at hz
      simp [h a b z hz]

theorem allSome_map_mono {a b : H} (h : Refines a b) {β} (F : List LVal → β) {z : β}
    (hz : (allSome b).map F = some z) : (allSome a).map F = some z := by
  obtain ⟨xs, hx, rfl⟩ := Option.map_eq_some_iff.1 hz
  rw [allSome_refines h hx]; rfl

theorem listRowsH_mono (offs : List Int) {a b : H} (h : Refines a b) : Refines (listRowsH offs a) (listRowsH offs b) :=
  Refines.map_congr fun se _ _ hz => allSome_map_mono (h.slice se.1 se.2) _ hz

theorem listRowsH_map_some (offs : List Int) (xs : List LVal) :
    listRowsH offs (xs.map some) = ((pairs offs).map fun se => LVal.list (LVals.ofList (sliceL xs se.1 se.2))).map some := by
  simp only [listRowsH, List.map_map]
  apply List.map_congr_left
  intro se _
  simp [sliceL_map, allSome_map_some]

theorem fslRowsH_mono (n len : Nat) {a b : H} (h : Refines a b) : Refines (fslRowsH n len a) (fslRowsH n len b) :=
  Refines.map_congr fun i _ _ hz => allSome_map_mono ((h.drop (i * n)).take n) _ hz

theorem fslRowsH_map_some (n len : Nat) (xs : List LVal) :
    fslRowsH n len (xs.map some) = ((List.range len).map fun i => LVal.list (LVals.ofList ((xs.drop (i * n)).take n))).map some := by
  simp only [fslRowsH, List.map_map]
  apply List.map_congr_left
  intro i _
  have : ((xs.map some).drop (i * n)).take n = ((xs.drop (i * n)).take n).map some := by
    rw [← List.map_drop, ← List.map_take]
  rw [this, allSome_map_some]; rfl

theorem mapRowsH_mono (offs : List Int) {ka kb va vb : H} (hk : Refines ka kb) (hv : Refines va vb) :
    Refines (mapRowsH offs ka va) (mapRowsH offs kb vb) := by
  apply Refines.map_congr
  intro se _ z hz
  cases h1 : allSome (sliceL kb se.1 se.2) with
  | none => rw [h1] at hz; simp [mapRowH] at hz
  | some k =>
    cases h2 : allSome (sliceL vb se.1 se.2) with
    | none => rw [h1, h2] at hz; simp [mapRowH] at hz
    | some w =>
      rw [h1, h2] at hz
      rw [allSome_refines (hk.slice _ _) h1, allSome_refines (hv.slice _ _) h2]; exact hz

theorem mapRowsH_map_some (offs : List Int) (ks vs : List LVal) :
    mapRowsH offs (ks.map some) (vs.map some) =
      ((pairs offs).map fun se => LVal.map (LEntries.ofList ((sliceL ks se.1 se.2).zip (sliceL vs se.1 se.2)))).map some := by
  simp only [mapRowsH, List.map_map]
  apply List.map_congr_left
  intro se _
  simp [sliceL_map, allSome_map_some, mapRowH]

theorem getD_map_some (xs : List LVal) (i : Nat) (d : LVal) : (xs.map some).getD i (some d) = some (xs.getD i d) := by
  simp only [List.getD_eq_getElem?_getD, List.getElem?_map]
  cases xs[i]? <;> rfl

theorem rowAtH_map_some (cols : List (String × List LVal)) (i : Nat) :
    rowAtH (cols.map fun c => (c.1, c.2.map some)) i = some (rowAt cols i) := by
  simp only [rowAtH, rowAt, List.map_map]
  have : (cols.map ((fun c : String × H => (c.2.getD i (some LVal.null)).map fun x => (c.1, x)) ∘ fun c => (c.1, c.2.map some)))
      = (cols.map fun c => (c.1, c.2.getD i LVal.null)).map some := by
    rw [List.map_map]; apply List.map_congr_left; intro c _
    simp only [Function.comp, getD_map_some, Option.map_some]
  rw [this, allSome_map_some]; rfl

theorem structRowsH_map_some (len : Nat) (cols : List (String × List LVal)) :
    structRowsH len (cols.map fun c => (c.1, c.2.map some)) = ((List.range len).map (rowAt cols)).map some := by
  simp only [structRowsH, List.map_map]
  apply List.map_congr_left
  intro i _
  simp [rowAtH_map_some]

theorem dictRowH_map_some (vs : List LVal) (k : LVal) (hk : ∀ j : Int, k = .int j → j.toNat < vs.length) :
    dictRowH (vs.map some) (some k) = some (dictRow vs k) := by
  cases k with
  | int j =>
    have := hk j rfl
    simp only [dictRowH, dictRow, List.getD_eq_getElem?_getD, List.getElem?_map]
    rw [List.getElem?_eq_getElem this]; rfl
  | _ => rfl

theorem unionRowH_eq (fs : BL) (t o : Int) :
    unionRowH (decHCols fs) t o = ((colAtH fs t.toNat).getD o.toNat (some .null)).map (LVal.union t) := rfl

theorem colAtH_of_cols {fs : BL} (h : decHCols fs = (decCols fs).map fun c => (c.1, c.2.map some)) (j : Nat) :
    colAtH fs j = (colAt fs j).map some := by
  simp only [colAtH, colAt, h, List.getD_eq_getElem?_getD, List.getElem?_map]
  cases (decCols fs)[j]? <;> rfl

/-- a determined entry of an observable column (or the `null` read past its end) is the entry of the column -/
theorem getD_sound {a : List LVal} {b : H} (h : Refines (a.map some) b) {i : Nat} {x : LVal}
    (hx : b.getD i (some .null) = some x) : a.getD i .null = x := by
  have hl : a.length = b.length := by simpa using h.1
  simp only [List.getD_eq_getElem?_getD] at hx ⊢
  rcases Nat.lt_or_ge i b.length with hi | hi
  · rw [List.getElem?_eq_getElem hi] at hx
    simp only [Option.getD_some] at hx
    have := h.2 i x (by rw [List.getElem?_eq_getElem hi, hx])
    rw [List.getElem?_map] at this
    cases ha : a[i]? with
    | none => rw [ha] at this; cases this
    | some y => rw [ha] at this; simp at this; simp [this]
  · rw [List.getElem?_eq_none hi] at hx
    rw [List.getElem?_eq_none (by omega)]
    simpa using hx

theorem dictRow_sound {vs : List LVal} {vh : H} (h : Refines (vs.map some) vh) {k x : LVal}
    (hx : dictRowH vh (some k) = some x) : dictRow vs k = x := by
  cases k with
  | int j =>
    simp only [dictRowH, List.getD_eq_getElem?_getD] at hx
    simp only [dictRow, List.getD_eq_getElem?_getD]
    cases hv : vh[j.toNat]? with
    | none => rw [hv] at hx; cases hx
    | some y =>
      rw [hv] at hx; simp only [Option.getD_some] at hx; subst hx
      have := h.2 _ x hv
      rw [List.getElem?_map] at this
      cases ha : vs[j.toNat]? with
      | none => rw [ha] at this; cases this
      | some w => rw [ha] at this; simp at this; simp [this]
  | _ => simp only [dictRowH, Option.some.injEq] at hx; simpa [dictRow] using hx

mutual
/-- **a determined observable row is the row `dec` reads** (no hypothesis) -/
theorem decH_sound : ∀ (b : B), Refines ((dec b).map some) (decH b)
  | .null _ _ => by simp only [decH]; exact Refines.refl _
  | .unknownVariant _ => by simp only [decH]; exact Refines.refl _
  | .leaf _ _ _ _ => by simp only [decH]; exact Refines.refl _
  | .bytes _ _ _ _ _ => by simp only [decH]; exact Refines.refl _
  | .bytesView _ _ _ _ _ => by simp only [decH]; exact Refines.refl _
  | .fixedSizeBinary _ _ _ _ _ _ => by simp only [decH]; exact Refines.refl _
  | .list _ _ _ v offs el => by
    simp only [decH, dec]
    rw [← maskNullH_map_some, ← listRowsH_map_some]
    exact maskNullH_refines v (listRowsH_mono offs (decH_sound el))
  | .fixedSizeList _ _ n len v _ el => by
    simp only [decH, dec]
    rw [← maskNullH_map_some, ← fslRowsH_map_some]
    exact maskNullH_refines v (fslRowsH_mono n len (decH_sound el))
  | .map _ _ v offs ks vs => by
    simp only [decH, dec]
    rw [← maskNullH_map_some, ← mapRowsH_map_some]
    exact maskNullH_refines v (mapRowsH_mono offs (decH_sound ks) (decH_sound vs))
  | .struct p len v fs c n s => by
    rw [dec_struct]; simp only [decH]
    rw [← maskNullH_map_some]
    apply maskNullH_refines
    exact Refines.map_some_congr fun i _ z hz => by
      obtain ⟨fl, hfl, rfl⟩ := Option.map_eq_some_iff.1 hz
      rw [decHCols_row_sound fs i fl hfl]; rfl
  | .dictionary p idx vals index => by
    rw [dec_dictionary]; simp only [decH]
    have hi := decH_sound idx
    have hv := decH_sound vals
    refine ⟨by simp [decH_length], ?_⟩
    intro i x hx
    rw [List.getElem?_map] at hx
    cases hk : (decH idx)[i]? with
    | none => rw [hk] at hx; cases hx
    | some ko =>
      rw [hk] at hx; simp only [Option.map_some, Option.some.injEq] at hx
      cases ko with
      | none => simp [dictRowH] at hx
      | some k =>
        have hk' := hi.2 i k hk
        rw [List.getElem?_map] at hk'
        have hk'' : (dec idx)[i]? = some k := by
          cases h : (dec idx)[i]? with
          | none => rw [h] at hk'; cases hk'
          | some w => rw [h] at hk'; simp at hk'; rw [hk']
        simp only [List.getElem?_map, hk'', Option.map_some]
        rw [dictRow_sound hv hx]
  | .union p fs types offs cur => by
    rw [dec_union]; simp only [decH]
    exact Refines.zipWith_some fun t o z hz => by
      rw [unionRowH_eq] at hz
      obtain ⟨y, hy, rfl⟩ := Option.map_eq_some_iff.1 hz
      rw [getD_sound (decHCols_sound fs t.toNat) hy]
theorem decHCols_sound : ∀ (fs : BL) (j : Nat), Refines ((colAt fs j).map some) (colAtH fs j)
  | .nil, _ => by simp [colAt, colAtH, decCols, decHCols]; exact Refines.refl _
  | .cons b m r, 0 => by
    have := decH_sound b
    simpa [colAt, colAtH, decCols, decHCols] using this
  | .cons b m r, j + 1 => by
    have := decHCols_sound r j
    simpa [colAt, colAtH, decCols, decHCols] using this
/-- a determined struct row reads the fields `dec` reads -/
theorem decHCols_row_sound : ∀ (fs : BL) (i : Nat) (fl : List (String × LVal)),
    allSome ((decHCols fs).map fun c => (c.2.getD i (some LVal.null)).map fun x => (c.1, x)) = some fl →
    fl = (decCols fs).map fun c => (c.1, c.2.getD i LVal.null)
  | .nil, _, fl, h => by simp [decHCols, allSome] at h; simp [decCols, h]
  | .cons b m r, i, fl, h => by
    simp only [decHCols, List.map_cons] at h
    cases hb : (decH b).getD i (some LVal.null) with
    | none => rw [hb] at h; simp [allSome] at h
    | some x =>
      rw [hb] at h
      simp only [Option.map_some, allSome] at h
      obtain ⟨fl', hfl', rfl⟩ := Option.map_eq_some_iff.1 h
      rw [decHCols_row_sound r i fl' hfl']
      simp only [decCols, List.map_cons]
      rw [getD_sound (decH_sound b) hb]
end

mutual
/-- under the strict state invariant every row is determined -/
theorem decH_of_WFB : ∀ (b : B), WFB b → decH b = (dec b).map some
  | .null _ _, _ => by simp only [decH]
  | .unknownVariant _, _ => by simp only [decH]
  | .leaf _ _ _ _, _ => by simp only [decH]
  | .bytes _ _ _ _ _, _ => by simp only [decH]
  | .bytesView _ _ _ _ _, _ => by simp only [decH]
  | .fixedSizeBinary _ _ _ _ _ _, _ => by simp only [decH]
  | .list _ _ _ v offs el, h => by
    simp only [WFB] at h
    simp only [decH, dec]
    rw [decH_of_WFB el h.2.2, listRowsH_map_some, maskNullH_map_some]
  | .fixedSizeList _ _ n len v _ el, h => by
    simp only [WFB] at h
    simp only [decH, dec]
    rw [decH_of_WFB el h.2.2, fslRowsH_map_some, maskNullH_map_some]
  | .map _ _ v offs ks vs, h => by
    simp only [WFB] at h
    simp only [decH, dec]
    rw [decH_of_WFB ks h.2.2.2.1, decH_of_WFB vs h.2.2.2.2, mapRowsH_map_some, maskNullH_map_some]
  | .struct p len v fs c n s, h => by
    simp only [WFB] at h
    rw [dec_struct]; simp only [decH]
    rw [decHCols_of_WFL fs len h.2.1, structRowsH_map_some, maskNullH_map_some]
  | .dictionary p idx vals index, h => by
    simp only [WFB] at h
    rw [dec_dictionary]; simp only [decH]
    rw [decH_of_WFB idx h.1, decH_of_WFB vals h.2.1, List.map_map, List.map_map]
    apply List.map_congr_left
    intro k hk
    simp only [Function.comp]
    exact dictRowH_map_some _ k (by
      intro j hj
      have := (h.2.2.2.2.1 k hk j hj).2
      rw [h.2.2.2.1]; exact this)
  | .union p fs types offs cur, h => by
    simp only [WFB] at h
    have hc := decHCols_of_WFU fs cur h.2.2.1
    rw [dec_union]; simp only [decH]
    rw [List.map_zipWith]
    congr 1
    funext t o
    rw [unionRowH_eq, colAtH_of_cols hc, getD_map_some]; rfl
theorem decHCols_of_WFL : ∀ (fs : BL) (len : Nat), WFL fs len → decHCols fs = (decCols fs).map (fun c => (c.1, c.2.map some))
  | .nil, _, _ => rfl
  | .cons b m r, len, h => by
    simp only [WFL] at h
    simp only [decHCols, decCols, List.map_cons, decH_of_WFB b h.1, decHCols_of_WFL r len h.2.2]
theorem decHCols_of_WFU : ∀ (fs : BL) (cur : List Int), WFU fs cur → decHCols fs = (decCols fs).map (fun c => (c.1, c.2.map some))
  | .nil, _, _ => rfl
  | .cons b m r, cur, h => by
    simp only [WFU] at h
    simp only [decHCols, decCols, List.map_cons, decH_of_WFB b h.1, decHCols_of_WFU r cur.tail h.2.2]
end

mutual
theorem WFH_of_WFB : ∀ (b : B), WFB b → WFH b
  | .null _ _, _ => by simp [WFH]
  | .unknownVariant _, _ => by simp [WFH]
  | .leaf _ _ _ _, h => by simpa [WFH, WFB] using h
  | .bytes _ _ _ _ _, h => by simpa [WFH, WFB] using h
  | .bytesView _ _ _ _ _, h => by simp only [WFB] at h; simp only [WFH]; exact h
  | .fixedSizeBinary _ _ _ _ _ _, h => by simpa [WFH, WFB] using h
  | .list _ _ _ _ _ el, h => by
    simp only [WFB] at h; simp only [WFH]; exact ⟨h.1, h.2.1, WFH_of_WFB el h.2.2⟩
  | .fixedSizeList _ _ _ _ _ _ el, h => by
    simp only [WFB] at h; simp only [WFH]; exact ⟨h.1, h.2.1, WFH_of_WFB el h.2.2⟩
  | .map _ _ _ _ ks vs, h => by
    simp only [WFB] at h; simp only [WFH]
    exact ⟨h.1, h.2.1, h.2.2.1, WFH_of_WFB ks h.2.2.2.1, WFH_of_WFB vs h.2.2.2.2⟩
  | .struct _ len _ fs _ _ _, h => by
    simp only [WFB] at h; simp only [WFH]
    exact ⟨h.1, WFHL_of_WFL fs len h.2.1, h.2.2⟩
  | .dictionary _ idx vals index, h => by
    simp only [WFB] at h; simp only [WFH]
    refine ⟨WFH_of_WFB idx h.1, WFH_of_WFB vals h.2.1, h.2.2.1, h.2.2.2.1, ?_, h.2.2.2.2.2, ?_⟩
    · intro k hk j hj
      have := h.2.2.2.2.1 k hk j hj
      exact ⟨this.1, Or.inl this.2⟩
    · intro r hr
      rw [decH_of_WFB vals h.2.1] at hr
      obtain ⟨x, _, rfl⟩ := List.mem_map.1 hr
      rfl
  | .union _ fs _ _ cur, h => by
    simp only [WFB] at h; simp only [WFH]
    exact ⟨h.1, h.2.1, WFHU_of_WFU fs cur h.2.2.1, h.2.2.2⟩
theorem WFHL_of_WFL : ∀ (fs : BL) (len : Nat), WFL fs len → WFHL fs len
  | .nil, _, _ => by simp [WFHL]
  | .cons b _ r, len, h => by
    simp only [WFL] at h; simp only [WFHL]
    exact ⟨WFH_of_WFB b h.1, h.2.1, WFHL_of_WFL r len h.2.2⟩
theorem WFHU_of_WFU : ∀ (fs : BL) (cur : List Int), WFU fs cur → WFHU fs cur
  | .nil, _, _ => by simp [WFHU]
  | .cons b _ r, cur, h => by
    simp only [WFU] at h; simp only [WFHU]
    exact ⟨WFH_of_WFB b h.1, h.2.1, WFHU_of_WFU r cur.tail h.2.2⟩
end

/-- the builder families without children: no row of theirs can be undetermined, `WFH` is `WFB`, `Safe` holds -/
def B.isFlat : B → Bool
  | .null _ _ | .unknownVariant _ | .leaf _ _ _ _ | .bytes _ _ _ _ _ | .bytesView _ _ _ _ _
  | .fixedSizeBinary _ _ _ _ _ _ => true
  | _ => false

theorem flat_WFB {b : B} (hf : b.isFlat = true) (h : WFH b) : WFB b := by
  cases b <;> simp [B.isFlat] at hf <;> simp only [WFH] at h <;> simp only [WFB] <;> exact h
theorem flat_Safe {b : B} (hf : b.isFlat = true) : Safe b := by
  cases b <;> simp [B.isFlat] at hf <;> simp [Safe]
theorem flat_DefSafe {b : B} (hf : b.isFlat = true) : DefSafe b := by
  cases b <;> simp [B.isFlat] at hf <;> simp [DefSafe]
theorem flat_decH {b : B} (hf : b.isFlat = true) : decH b = (dec b).map some := by
  cases b <;> simp [B.isFlat] at hf <;> simp only [decH]
theorem flat_of_takeRest {b b' : B} (h : takeRest b' = takeRest b) (hf : b.isFlat = true) : b'.isFlat = true := by
  cases b <;> simp [B.isFlat] at hf <;> cases b' <;> simp [takeRest] at h <;> rfl

theorem mem_maskNull {v : Validity} {xs : List LVal} {k : LVal} (h : k ∈ maskNull v xs) : k = .null ∨ k ∈ xs := by
  cases v with
  | none => exact Or.inr h
  | some bits =>
    simp only [maskNull] at h
    induction bits generalizing xs with
    | nil => simp at h
    | cons b bits ih =>
      cases xs with
      | nil => simp at h
      | cons x xs =>
        simp only [List.zipWith_cons_cons, List.mem_cons] at h
        rcases h with h | h
        · cases b
          · left; simpa using h
          · right; simp at h; simp [h]
        · rcases ih h with h | h
          · exact Or.inl h
          · exact Or.inr (List.mem_cons_of_mem _ h)

/-- rows of a container builder (everything that is neither flat nor a dictionary) are never integers -/
theorem dec_container_not_int {b : B} (hf : b.isFlat = false) (hd : b.isDict = false) :
    ∀ k ∈ dec b, ∀ j : Int, k ≠ .int j := by
  intro k hk j hj
  subst hj
  cases b with
  | list _ _ _ v offs el =>
    simp only [dec] at hk
    rcases mem_maskNull hk with h | h
    · cases h
    · simp at h
  | fixedSizeList _ _ n len v _ el =>
    simp only [dec] at hk
    rcases mem_maskNull hk with h | h
    · cases h
    · simp at h
  | map _ _ v offs ks vs =>
    simp only [dec] at hk
    rcases mem_maskNull hk with h | h
    · cases h
    · simp at h
  | struct _ len v fs _ _ _ =>
    simp only [dec] at hk
    rcases mem_maskNull hk with h | h
    · cases h
    · simp at h
  | union _ fs types offs _ =>
    simp only [dec] at hk
    rw [← List.map_uncurry_zip_eq_zipWith] at hk
    obtain ⟨p, _, hp⟩ := List.mem_map.1 hk
    simp [Function.uncurry] at hp
  | dictionary _ _ _ _ => simp [B.isDict] at hd
  | _ => simp [B.isFlat] at hf

mutual
theorem NoDictKey_takeRest : ∀ (b : B), NoDictKey (takeRest b) ↔ NoDictKey b
  | .null _ _ => by simp [takeRest, NoDictKey]
  | .unknownVariant _ => by simp [takeRest, NoDictKey]
  | .leaf _ _ _ _ => by simp [takeRest, NoDictKey]
  | .bytes _ _ _ _ _ => by simp [takeRest, NoDictKey]
  | .bytesView _ _ _ _ _ => by simp [takeRest, NoDictKey]
  | .fixedSizeBinary _ _ _ _ _ _ => by simp [takeRest, NoDictKey]
  | .list _ _ _ _ _ el => by simp only [takeRest, NoDictKey]; exact NoDictKey_takeRest el
  | .fixedSizeList _ _ _ _ _ _ el => by simp only [takeRest, NoDictKey]; exact NoDictKey_takeRest el
  | .map _ _ _ _ ks vs => by simp only [takeRest, NoDictKey]; rw [NoDictKey_takeRest ks, NoDictKey_takeRest vs]
  | .struct _ _ _ fs _ _ _ => by simp only [takeRest, NoDictKey]; exact NoDictKeyL_takeRest fs
  | .dictionary _ idx vals _ => by
    simp only [takeRest, NoDictKey]; rw [NoDictKey_takeRest idx, NoDictKey_takeRest vals, isDict_takeRest idx]
  | .union _ fs _ _ _ => by simp only [takeRest, NoDictKey]; exact NoDictKeyL_takeRest fs
theorem NoDictKeyL_takeRest : ∀ (fs : BL), NoDictKeyL (takeRestAll fs) ↔ NoDictKeyL fs
  | .nil => by simp [takeRestAll, NoDictKeyL]
  | .cons b _ r => by simp only [takeRestAll, NoDictKeyL]; rw [NoDictKey_takeRest b, NoDictKeyL_takeRest r]
end

theorem NoDictKey.of_takeRest {b b' : B} (h : takeRest b' = takeRest b) (hs : NoDictKey b) : NoDictKey b' :=
  (NoDictKey_takeRest b').1 (h ▸ (NoDictKey_takeRest b).2 hs)

mutual
theorem NoDictKey_of_Safe : ∀ (b : B), Safe b → NoDictKey b
  | .null _ _, _ => by simp [NoDictKey]
  | .unknownVariant _, _ => by simp [NoDictKey]
  | .leaf _ _ _ _, _ => by simp [NoDictKey]
  | .bytes _ _ _ _ _, _ => by simp [NoDictKey]
  | .bytesView _ _ _ _ _, _ => by simp [NoDictKey]
  | .fixedSizeBinary _ _ _ _ _ _, _ => by simp [NoDictKey]
  | .list _ _ _ _ _ el, h => by simp only [Safe] at h; simp only [NoDictKey]; exact NoDictKey_of_Safe el h
  | .fixedSizeList _ _ _ _ _ _ el, h => by simp only [Safe] at h; simp only [NoDictKey]; exact NoDictKey_of_Safe el h.1
  | .map _ _ _ _ ks vs, h => by
    simp only [Safe] at h; simp only [NoDictKey]; exact ⟨NoDictKey_of_Safe ks h.1, NoDictKey_of_Safe vs h.2⟩
  | .struct _ _ _ fs _ _ _, h => by simp only [Safe] at h; simp only [NoDictKey]; exact NoDictKeyL_of_SafeL fs h.1
  | .dictionary _ idx vals _, h => by
    simp only [Safe] at h; simp only [NoDictKey]
    exact ⟨h.1, NoDictKey_of_Safe idx h.2.1, NoDictKey_of_Safe vals h.2.2⟩
  | .union _ fs _ _ _, h => by simp only [Safe] at h; simp only [NoDictKey]; exact NoDictKeyL_of_SafeL fs h
theorem NoDictKeyL_of_SafeL : ∀ (fs : BL), SafeL fs → NoDictKeyL fs
  | .nil, _ => by simp [NoDictKeyL]
  | .cons b _ r, h => by
    simp only [SafeL] at h; simp only [NoDictKeyL]; exact ⟨NoDictKey_of_Safe b h.1, NoDictKeyL_of_SafeL r h.2⟩
end

theorem NoDictKeyL.get : ∀ (fs : BL) (i : Nat) (x : B × FieldMeta), NoDictKeyL fs → fs.get? i = some x → NoDictKey x.1
  | .nil, _, _, _, h => by simp [BL.get?] at h
  | .cons b m r, 0, x, hs, h => by simp [BL.get?] at h; subst h; simp only [NoDictKeyL] at hs; exact hs.1
  | .cons b m r, i + 1, x, hs, h => by
    simp only [BL.get?] at h; simp only [NoDictKeyL] at hs; exact NoDictKeyL.get r i x hs.2 h
theorem NoDictKeyL.set : ∀ (fs : BL) (i : Nat) (c : B), NoDictKeyL fs → NoDictKey c → NoDictKeyL (fs.set i c)
  | .nil, _, _, _, _ => by simp [BL.set, NoDictKeyL]
  | .cons b m r, 0, c, hs, hc => by simp only [NoDictKeyL] at hs; simp only [BL.set, NoDictKeyL]; exact ⟨hc, hs.2⟩
  | .cons b m r, i + 1, c, hs, hc => by
    simp only [NoDictKeyL] at hs; simp only [BL.set, NoDictKeyL]; exact ⟨hs.1, NoDictKeyL.set r i c hs.2 hc⟩

end SaModel.Build
