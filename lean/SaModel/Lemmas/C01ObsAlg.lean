import SaModel.Lemmas.C01ObsDefs
/-
C01 "hidden rows" — algebra of `Refines`, and the relation of the observable rows `decH` to `dec`:
  decH_length   the observable rows are as many as the rows
  decH_sound    a DETERMINED observable row is the row `dec` reads
  decH_of_WFB   under the strict invariant `WFB` every row is determined
  WFH_of_WFB    the strict invariant implies the weak one
-/
namespace SaModel.Build
open SaModel SaModel.Spec

theorem Refines.refl (a : H) : Refines a a := sorry

theorem Refines.trans {a b c : H} (h1 : Refines a b) (h2 : Refines b c) : Refines a c := sorry

theorem Refines.length {a b : H} (h : Refines a b) : a.length = b.length := h.1

theorem Refines.append {a a' b b' : H} (h1 : Refines a a') (h2 : Refines b b') : Refines (a ++ b) (a' ++ b') := sorry

/-- a refinement of a concatenation splits at the same place -/
theorem Refines.split {a b c : H} (h : Refines a (b ++ c)) :
    Refines (a.take b.length) b ∧ Refines (a.drop b.length) c := sorry

/-- nothing refines a fully determined list but itself -/
theorem Refines.of_map_some {a : H} {xs : List LVal} (h : Refines a (xs.map some)) : a = xs.map some := sorry

/-- undetermined rows may become anything -/
theorem Refines.of_none {a : H} {k : Nat} (h : a.length = k) : Refines a (List.replicate k none) := sorry

/-- two extensions in a row -/
theorem Refines.extend {c0 c c' a t : H} (h1 : Refines c (c0 ++ a)) (h2 : Refines c' (c ++ t)) :
    Refines c' (c0 ++ (a ++ t)) := sorry

/-- the appended determined row is unique -/
theorem Refines.snoc_inj {a b : H} {x y : LVal} (h1 : Refines a (b ++ [some x])) (h2 : Refines a (b ++ [some y])) :
    x = y := sorry

theorem Refines.getElem?_some {a b : H} (h : Refines a b) {i : Nat} {x : LVal} (hb : b[i]? = some (some x)) :
    a[i]? = some (some x) := h.2 i x hb

theorem Refines.take {a b : H} (h : Refines a b) (n : Nat) : Refines (a.take n) (b.take n) := sorry
theorem Refines.drop {a b : H} (h : Refines a b) (n : Nat) : Refines (a.drop n) (b.drop n) := sorry
theorem Refines.slice {a b : H} (h : Refines a b) (s e : Int) : Refines (sliceL a s e) (sliceL b s e) := sorry

/-- `allSome` is monotone -/
theorem allSome_refines {a b : H} (h : Refines a b) {xs : List LVal} (hb : allSome b = some xs) : allSome a = some xs := sorry

theorem allSome_map_some {α} (xs : List α) : allSome (xs.map some) = some xs := sorry

theorem allSome_append {α} (a b : List (Option α)) :
    allSome (a ++ b) = (match allSome a, allSome b with | some x, some y => some (x ++ y) | _, _ => none) := sorry

theorem maskNullH_length {v : Validity} {xs : H} (hv : VLen v xs.length) : (maskNullH v xs).length = xs.length := sorry

theorem maskNullH_map_some (v : Validity) (xs : List LVal) : maskNullH v (xs.map some) = (maskNull v xs).map some := sorry

theorem maskNullH_refines (v : Validity) {a b : H} (h : Refines a b) : Refines (maskNullH v a) (maskNullH v b) := sorry

theorem maskNullH_append {v : Validity} {xs : H} (hv : VLen v xs.length) (bs : List Bool) (ys : H) :
    maskNullH (v.map (· ++ bs)) (xs ++ ys) = maskNullH v xs ++ maskNullH (v.map fun _ => bs) ys := sorry

/-- the observable form of `rowOf` -/
theorem maskNullH_const_one (v : Validity) (b : Bool) (y : LVal) :
    maskNullH (v.map fun _ => [b]) [some y] = [some (rowOf v b y)] := sorry

/-- a row whose bit is clear is a determined null whatever the payload -/
theorem maskNullH_const_false (v : Validity) (k : Nat) (ys : H) (hy : ys.length = k) :
    maskNullH (v.map fun _ => List.replicate k false) ys = if v.isSome then List.replicate k (some LVal.null) else ys := sorry

mutual
theorem decH_length : ∀ (b : B), (decH b).length = (dec b).length := sorry
theorem decHCols_length : ∀ (fs : BL), (decHCols fs).map (fun c => (c.1, c.2.length)) = (decCols fs).map (fun c => (c.1, c.2.length)) := sorry
end

/-- the observable column of child `j` -/
def colAtH (fs : BL) (j : Nat) : H := ((decHCols fs).getD j ("", [])).2

theorem colAtH_get : ∀ (fs : BL) (j : Nat) (x : B × FieldMeta), fs.get? j = some x → colAtH fs j = decH x.1 := sorry

theorem colAtH_set_ne : ∀ (fs : BL) (i j : Nat) (c : B), i ≠ j → colAtH (fs.set i c) j = colAtH fs j := sorry

theorem decHCols_names : ∀ (fs : BL), (decHCols fs).map (·.1) = fs.names := sorry

mutual
/-- **a determined observable row is the row `dec` reads** (no hypothesis) -/
theorem decH_sound : ∀ (b : B), Refines ((dec b).map some) (decH b) := sorry
theorem decHCols_sound : ∀ (fs : BL) (j : Nat), Refines ((colAt fs j).map some) (colAtH fs j) := sorry
end

mutual
/-- under the strict state invariant every row is determined -/
theorem decH_of_WFB : ∀ (b : B), WFB b → decH b = (dec b).map some := sorry
theorem decHCols_of_WFL : ∀ (fs : BL) (len : Nat), WFL fs len → decHCols fs = (decCols fs).map (fun c => (c.1, c.2.map some)) := sorry
theorem decHCols_of_WFU : ∀ (fs : BL) (cur : List Int), WFU fs cur → decHCols fs = (decCols fs).map (fun c => (c.1, c.2.map some)) := sorry
end

mutual
theorem WFH_of_WFB : ∀ (b : B), WFB b → WFH b := sorry
theorem WFHL_of_WFL : ∀ (fs : BL) (len : Nat), WFL fs len → WFHL fs len := sorry
theorem WFHU_of_WFU : ∀ (fs : BL) (cur : List Int), WFU fs cur → WFHU fs cur := sorry
end

/-- the builder families without children: no row of theirs can be undetermined, `WFH` is `WFB`, `Safe` holds -/
def B.isFlat : B → Bool
  | .null _ _ | .unknownVariant _ | .leaf _ _ _ _ | .bytes _ _ _ _ _ | .bytesView _ _ _ _ _
  | .fixedSizeBinary _ _ _ _ _ _ => true
  | _ => false

theorem flat_WFB {b : B} (hf : b.isFlat = true) (h : WFH b) : WFB b := sorry
theorem flat_Safe {b : B} (hf : b.isFlat = true) : Safe b := sorry
theorem flat_DefSafe {b : B} (hf : b.isFlat = true) : DefSafe b := sorry
theorem flat_decH {b : B} (hf : b.isFlat = true) : decH b = (dec b).map some := sorry
theorem flat_of_takeRest {b b' : B} (h : takeRest b' = takeRest b) (hf : b.isFlat = true) : b'.isFlat = true := sorry

/-- rows of a container builder (everything that is neither flat nor a dictionary) are never integers -/
theorem dec_container_not_int {b : B} (hf : b.isFlat = false) (hd : b.isDict = false) :
    ∀ k ∈ dec b, ∀ j : Int, k ≠ .int j := sorry

mutual
theorem NoDictKey_takeRest : ∀ (b : B), NoDictKey (takeRest b) ↔ NoDictKey b := sorry
theorem NoDictKeyL_takeRest : ∀ (fs : BL), NoDictKeyL (takeRestAll fs) ↔ NoDictKeyL fs := sorry
end

theorem NoDictKey.of_takeRest {b b' : B} (h : takeRest b' = takeRest b) (hs : NoDictKey b) : NoDictKey b' :=
  (NoDictKey_takeRest b').1 (h ▸ (NoDictKey_takeRest b).2 hs)

mutual
theorem NoDictKey_of_Safe : ∀ (b : B), Safe b → NoDictKey b := sorry
theorem NoDictKeyL_of_SafeL : ∀ (fs : BL), SafeL fs → NoDictKeyL fs := sorry
end

theorem NoDictKeyL.get : ∀ (fs : BL) (i : Nat) (x : B × FieldMeta), NoDictKeyL fs → fs.get? i = some x → NoDictKey x.1 := sorry
theorem NoDictKeyL.set : ∀ (fs : BL) (i : Nat) (c : B), NoDictKeyL fs → NoDictKey c → NoDictKeyL (fs.set i c) := sorry

end SaModel.Build
