import SaModel.Lemmas.C01ObsOps
/-
C01 "hidden rows" — R1' for the non-recursive combinators of the push block (`seqLikeWith`, `recordWith`,
`SS.start/element/finishRow`, `endFields`, the union row, `pushByteElems`), with the recursive parts abstracted as
hypotheses: the observable-rows counterpart of Lemmas/C01Comb.lean (`WFB` → `WFH`, `Safe` → `NoDictKey`,
`dec b' = dec b ++ [lv]` → `Refines (decH b') (decH b ++ [some lv])`).
-/
namespace SaModel.Build
open SaModel SaModel.Spec

/-- what every recursive sub-call is assumed (induction hypothesis) to do to a child builder -/
def StepOKH (pc : B → R B) : Prop :=
  ∀ c c', WFH c → NoDictKey c → pc c = .ok c' → WFH c' ∧ NoDictKey c' ∧ ∃ lv, Refines (decH c') (decH c ++ [some lv])

/-- a record is being written: started from the children `fs0`, child `j` holds the additional (determined) rows
`adds[j]`, exactly one iff `seen[j]` -/
structure MidH (fs0 : BL) (s : SS) (adds : List (List LVal)) : Prop where
  ext : ExtLH fs0 s.fields (adds.map (·.map some))
  flags : Flags s.seen adds
  cache : CacheInv s.fields.names s.cached
  safe : NoDictKeyL s.fields
  nodup : s.fields.names.Nodup

/-- the effect of a field loop on a mid-record state -/
def FieldsOKH (pf : SS → R SS) : Prop :=
  ∀ fs0 s adds s', MidH fs0 s adds → pf s = .ok s' → (∃ adds', MidH fs0 s' adds') ∧ Same s' s

/-- list elements: the child grows by the determined rows `ls`, the open offset by `|ls|` -/
def ElemsOKH (pe : Bool → B → List Int → R (B × List Int)) : Prop :=
  ∀ large el base l r, WFH el → NoDictKey el → pe large el (base ++ [l]) = .ok r →
    WFH r.1 ∧ ∃ ls : List LVal, Refines (decH r.1) (decH el ++ ls.map some) ∧ r.2 = base ++ [l + (ls.length : Int)]

def CountOKH (pc : B → Nat → R (B × Nat)) : Prop :=
  ∀ el c r, WFH el → NoDictKey el → pc el c = .ok r →
    WFH r.1 ∧ ∃ ls : List LVal, Refines (decH r.1) (decH el ++ ls.map some) ∧ r.2 = c + ls.length

theorem MidH.next {fs0 : BL} {s : SS} {adds : List (List LVal)} (h : MidH fs0 s adds) (n : Nat) :
    MidH fs0 { s with next := n } adds := ⟨h.ext, h.flags, h.cache, h.safe, h.nodup⟩

theorem MidH.cached {fs0 : BL} {s : SS} {adds : List (List LVal)} (h : MidH fs0 s adds)
    (cached' : List (Option (String × Nat))) (hc : CacheInv s.fields.names cached') :
    MidH fs0 { s with cached := cached' } adds := ⟨h.ext, h.flags, hc, h.safe, h.nodup⟩

/-! ### list plumbing: determined additional rows -/

theorem map_some_set_getD (adds : List (List LVal)) (idx : Nat) (ls : List LVal) :
    (adds.set idx (adds.getD idx [] ++ ls)).map (·.map some) =
      (adds.map (·.map some)).set idx ((adds.map (·.map some)).getD idx [] ++ ls.map some) := by
  rw [List.map_set]
  congr 1
  simp only [List.getD_eq_getElem?_getD, List.getElem?_map, List.map_append]
  cases adds[idx]? <;> simp

/-- one more determined row after `ls` determined rows -/
theorem Refines.cons_some {c0 c c' : H} {lv : LVal} {ls : List LVal} (h1 : Refines c (c0 ++ [some lv]))
    (h2 : Refines c' (c ++ ls.map some)) : Refines c' (c0 ++ (lv :: ls).map some) := by
  simpa using Refines.extend h1 h2

theorem SS.element_midH {fs0 : BL} {s s' : SS} {adds : List (List LVal)} {idx : Nat} {pc : B → R B}
    (hm : MidH fs0 s adds) (hpc : StepOKH pc) (h : s.element idx pc = .ok s') :
    (∃ adds', MidH fs0 s' adds') ∧ Same s' s := by
  unfold SS.element at h
  split at h
  · simp [panic] at h
  · simp [ctx_ok, fail] at h
  · rename_i hseen
    split at h
    · simp [panic] at h
    · rename_i c m hget
      obtain ⟨c', h1, h2⟩ := (bind_ok _ _ _).1 h
      cases h2
      obtain ⟨hc', hs', lv, hdec⟩ := hpc c c' (ExtLH.get _ _ _ _ _ hm.ext hget) (NoDictKeyL.get _ _ _ hm.safe hget) h1
      refine ⟨⟨adds.set idx (adds.getD idx [] ++ [lv]), ?_, ?_, ?_, ?_, ?_⟩, rfl, rfl, rfl⟩
      · show ExtLH fs0 (s.fields.set idx c') ((adds.set idx (adds.getD idx [] ++ [lv])).map (·.map some))
        rw [map_some_set_getD]
        exact ExtLH.set _ _ _ _ c c' m [some lv] hm.ext hget hc' hdec
      · exact Flags.set _ _ _ lv hm.flags hseen
      · simp only [BL.names_set]; exact hm.cache
      · exact NoDictKeyL.set _ _ _ hm.safe hs'
      · simp only [BL.names_set]; exact hm.nodup

theorem endFields_refines : ∀ (fs0 fs : BL) (seen : List Bool) (adds : List (List LVal)) (fs' : BL),
    ExtLH fs0 fs (adds.map (·.map some)) → Flags seen adds → NoDictKeyL fs → endFields fs seen = .ok fs' →
    ∃ adds' : List (List LVal), ExtLH fs0 fs' (adds'.map (·.map some)) ∧ (∀ a ∈ adds', a.length = 1) ∧ NoDictKeyL fs'
  | .nil, .nil, _, [], fs', _, _, _, h => by
    simp [endFields] at h; subst h
    exact ⟨[], by simp [ExtLH], by simp, by simp [NoDictKeyL]⟩
  | .cons b0 m0 r0, .cons b m r, [], a :: as, fs', _, hf, _, _ => by simp [Flags] at hf
  | .cons b0 m0 r0, .cons b m r, s :: ss, a :: as, fs', hext, hf, hsafe, h => by
    simp only [List.map_cons, ExtLH] at hext
    simp only [Flags] at hf
    simp only [NoDictKeyL] at hsafe
    simp only [endFields] at h
    split at h
    · rename_i hs
      obtain ⟨r', h1, h2⟩ := (bind_ok _ _ _).1 h
      cases h2
      obtain ⟨adds', he, hk, hsf⟩ := endFields_refines r0 r ss as r' hext.2.2.2 hf.2 hsafe.2 h1
      refine ⟨a :: adds', by simp only [List.map_cons, ExtLH]; exact ⟨hext.1, hext.2.1, hext.2.2.1, he⟩, ?_,
        by simp only [NoDictKeyL]; exact ⟨hsafe.1, hsf⟩⟩
      intro a' ha'
      rcases List.mem_cons.1 ha' with rfl | ha'
      · simpa [hs] using hf.1
      · exact hk a' ha'
    · rename_i hs
      split at h
      · simp [fail] at h
      · obtain ⟨b', h0, h'⟩ := (bind_ok _ _ _).1 h
        obtain ⟨r', h1, h2⟩ := (bind_ok _ _ _).1 h'
        cases h2
        obtain ⟨adds', he, hk, hsf⟩ := endFields_refines r0 r ss as r' hext.2.2.2 hf.2 hsafe.2 h1
        obtain ⟨hb', hdec⟩ := pushNone_refines b b' hext.2.1 hsafe.1 h0
        have ha : a = [] := by simpa [hs] using hf.1
        subst ha
        refine ⟨[.null] :: adds', ?_, ?_,
          by simp only [NoDictKeyL]; exact ⟨NoDictKey.of_takeRest (pushNone_takeRest b b' h0) hsafe.1, hsf⟩⟩
        · simp only [List.map_cons, ExtLH]
          exact ⟨hext.1, hb', by simpa using Refines.extend hext.2.2.1 hdec, he⟩
        · intro a' ha'
          rcases List.mem_cons.1 ha' with rfl | ha'
          · rfl
          · exact hk a' ha'
  | .nil, .cons _ _ _, _, _, _, h, _, _, _ => by cases ‹List (List LVal)› <;> simp [ExtLH] at h
  | .cons _ _ _, .nil, _, _, _, h, _, _, _ => by cases ‹List (List LVal)› <;> simp [ExtLH] at h
  | .nil, .nil, _, _ :: _, _, h, _, _, _ => by simp [ExtLH] at h
  | .cons _ _ _, .cons _ _ _, _, [], _, h, _, _, _ => by simp [ExtLH] at h

/-- a whole record (`start`, fields, `end`) appends exactly one determined row to a struct builder -/
theorem record_refines {p len v fs cached next seen} {pf : SS → R SS} {b' : B}
    (hwf : WFH (.struct p len v fs cached next seen)) (hsafe : NoDictKey (.struct p len v fs cached next seen))
    (hpf : FieldsOKH pf)
    (h : (do
      let s ← SS.start ⟨p, len, v, fs, cached, next, seen⟩
      let s ← pf s
      let s ← s.finishRow
      pure s.toB : R B) = .ok b') :
    WFH b' ∧ ∃ lv, Refines (decH b') (decH (.struct p len v fs cached next seen) ++ [some lv]) := by
  obtain ⟨s1, h1, h⟩ := (bind_ok _ _ _).1 h
  obtain ⟨s2, h2, h⟩ := (bind_ok _ _ _).1 h
  obtain ⟨s3, h3, h⟩ := (bind_ok _ _ _).1 h
  cases h
  have hw' := hwf
  simp only [WFH] at hw'
  obtain ⟨hv, hwfl, hseen, hnd, hcache⟩ := hw'
  simp only [NoDictKey] at hsafe
  -- start
  simp only [SS.start] at h1
  obtain ⟨v', hv1, h1⟩ := (bind_ok _ _ _).1 h1
  cases h1
  obtain ⟨rfl, _⟩ := setValidity_ok hv hv1
  have hmid : MidH fs ⟨p, len + 1, v.map (· ++ [true]), fs, cached, 0, List.replicate seen.length false⟩
      (List.replicate fs.length []) :=
    ⟨by simpa using ExtLH.refl fs len hwfl, by rw [hseen]; exact Flags.fresh _, hcache, hsafe, hnd⟩
  -- fields
  obtain ⟨⟨adds2, hm2⟩, hsame⟩ := hpf _ _ _ _ hmid h2
  -- end
  simp only [SS.finishRow] at h3
  obtain ⟨fs3, h3', h4⟩ := (bind_ok _ _ _).1 h3
  cases h4
  obtain ⟨adds3, hext3, hk3, _⟩ := endFields_refines _ _ _ _ _ hm2.ext hm2.flags hm2.safe h3'
  obtain ⟨hp, hl, hvv⟩ := hsame
  simp only at hp hl hvv
  have hnames : fs3.names = fs.names := ExtLH.names _ _ _ hext3
  have hl2 : adds2.length = fs.length := by simpa using (ExtLH.length _ _ _ hm2.ext).2
  have := struct_appendH (cached' := s2.cached) (next' := s2.next) (seen' := s2.seen) hwf
    (adds3.map (·.map some)) [true] hext3
    (by
      intro a ha
      obtain ⟨a', ha', rfl⟩ := List.mem_map.1 ha
      simp [hk3 a' ha'])
    (by rw [hnames, ← ExtLH.names _ _ _ hm2.ext]; exact hm2.cache)
    (by rw [(ExtLH.length _ _ _ hext3).1, ← Flags.length _ _ hm2.flags, hl2])
  have e : structRowsH [true].length (fs.names.zip (adds3.map (·.map some))) =
      [some (rowAt (fs.names.zip adds3) 0)] := by
    simp only [structRowsH, List.length_singleton, List.range_one, List.map_cons, List.map_nil, rowAtH_some]
  rw [e, maskNullH_const_one, rowOf_true] at this
  simp only [List.length_singleton] at this
  simp only [SS.toB, hp, hl, hvv]
  exact ⟨this.1, _, this.2⟩

theorem recordWith_refines {pf : SS → R SS} (hpf : FieldsOKH pf) (b b' : B) (hwf : WFH b) (hsafe : NoDictKey b)
    (h : recordWith pf b = .ok b') : WFH b' ∧ ∃ lv, Refines (decH b') (decH b ++ [some lv]) := by
  cases b with
  | struct p len v fs cached next seen => exact record_refines hwf hsafe hpf h
  | _ => simp [recordWith, notSupported, fail] at h

/-- the childless arms of `seqLikeWith` do not call the element loops: they go through the old theorem -/
theorem seqLikeWith_flat {pe : Bool → B → List Int → R (B × List Int)} {pc : B → Nat → R (B × Nat)}
    {pt : SS → R SS} {bytes : R Bytes} (b : B) (k : SeqKind) (b' : B) (hf : b.isFlat = true) (hw : WFH b)
    (h : seqLikeWith pe pc pt bytes b k = .ok b') : WFH b' ∧ ∃ lv, Refines (decH b') (decH b ++ [some lv]) := by
  have h' : seqLikeWith (fun _ _ _ => (fail "" : R (B × List Int))) (fun _ _ => (fail "" : R (B × Nat)))
      (fun _ => (fail "" : R SS)) bytes b k = .ok b' := by
    cases b <;> first | (cases hf; done) | exact h
  have hpe : ElemsOK (fun _ _ _ => (fail "" : R (B × List Int))) := by
    intro _ _ _ _ _ _ _ h; simp [fail] at h
  have hpc : CountOK (fun _ _ => (fail "" : R (B × Nat))) := by
    intro _ _ _ _ _ h; simp [fail] at h
  have hpt : FieldsOK (fun _ => (fail "" : R SS)) := by
    intro _ _ _ _ _ h; simp [fail] at h
  obtain ⟨hw', lv, hdec⟩ := seqLikeWith_appends hpe hpc hpt b k b' (flat_WFB hf hw) (flat_Safe hf) h'
  have htr := seqLikeWith_takeRest (pe := fun _ _ _ => (fail "" : R (B × List Int)))
    (pc := fun _ _ => (fail "" : R (B × Nat))) (pt := fun _ => (fail "" : R SS)) (bytes := bytes)
    (by intro _ _ _ _ h; simp [fail] at h) (by intro _ _ _ h; simp [fail] at h) (by intro _ _ h; simp [fail] at h)
    b k b' h'
  have hf' := flat_of_takeRest htr hf
  refine ⟨WFH_of_WFB _ hw', lv, ?_⟩
  rw [flat_decH hf', flat_decH hf, hdec, List.map_append]
  exact Refines.refl _

theorem seqLikeWith_refines {pe : Bool → B → List Int → R (B × List Int)} {pc : B → Nat → R (B × Nat)}
    {pt : SS → R SS} {bytes : R Bytes} (hpe : ElemsOKH pe) (hpc : CountOKH pc) (hpt : FieldsOKH pt)
    (b : B) (k : SeqKind) (b' : B) (hwf : WFH b) (hsafe : NoDictKey b) (h : seqLikeWith pe pc pt bytes b k = .ok b') :
    WFH b' ∧ ∃ lv, Refines (decH b') (decH b ++ [some lv]) := by
  cases b with
  | list p large fm v offs el =>
    simp only [seqLikeWith] at h
    obtain ⟨v', h1, h⟩ := (bind_ok _ _ _).1 h
    obtain ⟨o1, h2, h⟩ := (bind_ok _ _ _).1 h
    obtain ⟨⟨el', o2⟩, h3, h⟩ := (bind_ok _ _ _).1 h
    cases h
    have hw' := hwf
    simp only [WFH] at hw'
    simp only [NoDictKey] at hsafe
    obtain ⟨rfl, _⟩ := setValidity_ok hw'.2.1 h1
    obtain ⟨l, hl, rfl⟩ := duplicateLast_ok h2
    rw [hw'.1.2.1] at hl; cases hl
    obtain ⟨hel, ls, hdec, ho⟩ := hpe _ _ _ _ _ hw'.2.2 hsafe h3
    simp only at hel hdec ho
    subst ho
    have := list_stepH hwf true ls hel hdec
    rw [rowOf_true] at this
    exact ⟨this.1, _, this.2⟩
  | fixedSizeList p fm n len v cur el =>
    simp only [seqLikeWith] at h
    obtain ⟨v', h1, h⟩ := (bind_ok _ _ _).1 h
    obtain ⟨⟨el', cnt⟩, h3, h⟩ := (bind_ok _ _ _).1 h
    simp only at h
    split at h
    · simp [fail] at h
    · rename_i hcnt
      cases h
      have hw' := hwf
      simp only [WFH] at hw'
      simp only [NoDictKey] at hsafe
      obtain ⟨rfl, _⟩ := setValidity_ok hw'.1 h1
      obtain ⟨hel, ls, hdec, hc⟩ := hpc _ _ _ hw'.2.2 hsafe h3
      simp only at hel hdec hc
      have hn : ls.length = n := by simp at hcnt; omega
      have := fsl_stepH hwf true ls cnt hel hdec hn
      rw [rowOf_true] at this
      exact ⟨this.1, _, this.2⟩
  | bytes p ty v offs data => exact seqLikeWith_flat _ k b' rfl hwf h
  | bytesView p ty v views buf => exact seqLikeWith_flat _ k b' rfl hwf h
  | fixedSizeBinary p n len v buf cur => exact seqLikeWith_flat _ k b' rfl hwf h
  | struct p len v fs cached next seen =>
    cases k with
    | seq => simp [seqLikeWith, notSupported, fail] at h
    | tuple => simp only [seqLikeWith] at h; exact record_refines hwf hsafe hpt h
    | tupleStruct => simp only [seqLikeWith] at h; exact record_refines hwf hsafe hpt h
  | unknownVariant p => simp [seqLikeWith, fail] at h
  | null p len => simp [seqLikeWith, notSupported, fail] at h
  | leaf p kind v vals => simp [seqLikeWith, notSupported, fail] at h
  | map p mm v offs ks vs => simp [seqLikeWith, notSupported, fail] at h
  | dictionary p idx vals index => simp [seqLikeWith, notSupported, fail] at h
  | union p fs types offs cur => simp [seqLikeWith, notSupported, fail] at h

/-- one row of a union -/
theorem union_row_refines {p fs types offs cur} {i : Nat} {pc : B → R B} {b' : B}
    (hwf : WFH (.union p fs types offs cur)) (hsafe : NoDictKey (.union p fs types offs cur)) (hpc : StepOKH pc)
    (h : (do
      let (c, types', offs', cur') ← serializeVariant fs types offs cur i
      let c' ← pc c
      pure (.union p (fs.set i c') types' offs' cur') : R B) = .ok b') :
    WFH b' ∧ ∃ lv, Refines (decH b') (decH (.union p fs types offs cur) ++ [some lv]) := by
  obtain ⟨⟨c, t', o', cur'⟩, h1, h⟩ := (bind_ok _ _ _).1 h
  obtain ⟨c', h2, h⟩ := (bind_ok _ _ _).1 h
  cases h
  obtain ⟨m, co, hget, hco, _, ht, ho, hcur⟩ := serializeVariant_ok h1
  simp only at hget hco ht ho hcur
  subst ht ho hcur
  have hw' := hwf
  simp only [WFH] at hw'
  simp only [NoDictKey] at hsafe
  obtain ⟨hco', hc⟩ := WFHU_get fs cur i _ hw'.2.2.1 hget
  simp only at hco' hc
  rw [hco] at hco'; cases hco'
  obtain ⟨hc', _, lv, hdec⟩ := hpc c c' hc (NoDictKeyL.get _ _ _ hsafe hget) h2
  have := union_appendH hwf i c c' m hget [some lv] hc' hdec
  simp only [List.length_singleton, List.replicate_one, List.range_one, List.map_cons, List.map_nil,
    Int.natCast_zero, Int.add_zero, Int.natCast_one, Option.map_some] at this
  exact ⟨this.1, _, this.2⟩

theorem pushByteElems_refines (ext : Ext) (large : Bool) : ∀ (bs : Bytes) (el : B) (base : List Int) (l : Int) (r : B × List Int),
    WFH el → NoDictKey el → pushByteElems ext large el (base ++ [l]) bs = .ok r →
    WFH r.1 ∧ ∃ ls : List LVal, Refines (decH r.1) (decH el ++ ls.map some) ∧ r.2 = base ++ [l + (ls.length : Int)]
  | [], el, base, l, r, hwf, _, h => by
    simp [pushByteElems] at h; subst h
    exact ⟨hwf, [], by simpa using Refines.refl _, by simp⟩
  | x :: rest, el, base, l, r, hwf, hs, h => by
    simp only [pushByteElems] at h
    obtain ⟨o', h1, h⟩ := (bind_ok _ _ _).1 h
    obtain ⟨el', h2, h⟩ := (bind_ok _ _ _).1 h
    have := incrementLast_snoc h1
    subst this
    obtain ⟨hel', lv, hdec⟩ := pushScalar_refines ext el _ el' hwf hs ((ctx_ok _ _ _).1 h2)
    have hs' := NoDictKey.of_takeRest (pushScalar_takeRest ext el _ el' ((ctx_ok _ _ _).1 h2)) hs
    obtain ⟨hr, ls, hd, ho⟩ := pushByteElems_refines ext large rest el' base (l + 1) r hel' hs' h
    refine ⟨hr, lv :: ls, Refines.cons_some hdec hd, ?_⟩
    rw [ho]; simp; omega

end SaModel.Build
