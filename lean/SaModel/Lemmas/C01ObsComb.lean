import SaModel.Lemmas.C01ObsOps
/-
C01 "hidden rows" — R1' for the non-recursive combinators of the push block (`seqLikeWith`, `recordWith`,
`SS.start/element/finishRow`, `endFields`, the union row), with the recursive parts abstracted as hypotheses: the
observable-rows counterpart of Lemmas/C01Comb.lean (no `Safe` clause 1).
-/
namespace SaModel.Build
open SaModel SaModel.Spec

/-- what every recursive sub-call is assumed (induction hypothesis) to do to a child builder -/
def StepOKH (pc : B → R B) : Prop :=
  ∀ c c', WFH c → NoDictKey c → pc c = .ok c' → WFH c' ∧ NoDictKey c' ∧ ∃ lv, Refines (decH c') (decH c ++ [some lv])

/-- a record is being written: started from the children `fs0`, child `j` holds the additional DETERMINED rows
`adds[j]`, exactly one iff `seen[j]` -/
structure MidH (fs0 : BL) (s : SS) (adds : List (List LVal)) : Prop where
  ext : ExtLH fs0 s.fields (adds.map (·.map some))
  flags : Flags s.seen adds
  cache : CacheInv s.fields.names s.cached
  safe : NoDictKeyL s.fields
  nodup : s.fields.names.Nodup

/-- the effect of a field loop on a mid-record state -/
def FieldsOKH (pf : SS → R SS) : Prop :=
  ∀ fs0 s adds s', MidH fs0 s adds → pf s = .ok s' → (∃ adds', MidH fs0 s' adds') ∧ Same s' s

theorem MidH.next {fs0 : BL} {s : SS} {adds : List (List LVal)} (h : MidH fs0 s adds) (n : Nat) :
    MidH fs0 { s with next := n } adds := ⟨h.ext, h.flags, h.cache, h.safe, h.nodup⟩

theorem MidH.cached {fs0 : BL} {s : SS} {adds : List (List LVal)} (h : MidH fs0 s adds)
    (cached' : List (Option (String × Nat))) (hc : CacheInv s.fields.names cached') :
    MidH fs0 { s with cached := cached' } adds := ⟨h.ext, h.flags, hc, h.safe, h.nodup⟩

theorem SS.element_midH {fs0 : BL} {s s' : SS} {adds : List (List LVal)} {idx : Nat} {pc : B → R B}
    (hm : MidH fs0 s adds) (hpc : StepOKH pc) (h : s.element idx pc = .ok s') :
    (∃ adds', MidH fs0 s' adds') ∧ Same s' s := sorry

theorem endFields_refines : ∀ (fs0 fs : BL) (seen : List Bool) (adds : List (List LVal)) (fs' : BL),
    ExtLH fs0 fs (adds.map (·.map some)) → Flags seen adds → NoDictKeyL fs → endFields fs seen = .ok fs' →
    ∃ adds' : List (List LVal), ExtLH fs0 fs' (adds'.map (·.map some)) ∧ (∀ a ∈ adds', a.length = 1) ∧ NoDictKeyL fs' := sorry

/-- a whole record (`start`, fields, `end`) appends exactly one determined row to a struct builder -/
theorem record_refines {p len v fs cached next seen} {pf : SS → R SS} {b' : B}
    (hwf : WFH (.struct p len v fs cached next seen)) (hsafe : NoDictKey (.struct p len v fs cached next seen))
    (hpf : FieldsOKH pf)
    (h : (do
      let s ← SS.start ⟨p, len, v, fs, cached, next, seen⟩
      let s ← pf s
      let s ← s.finishRow
      pure s.toB : R B) = .ok b') :
    WFH b' ∧ ∃ lv, Refines (decH b') (decH (.struct p len v fs cached next seen) ++ [some lv]) := sorry

theorem recordWith_refines {pf : SS → R SS} (hpf : FieldsOKH pf) (b b' : B) (hwf : WFH b) (hsafe : NoDictKey b)
    (h : recordWith pf b = .ok b') : WFH b' ∧ ∃ lv, Refines (decH b') (decH b ++ [some lv]) := sorry

/-- list elements: the child grows by the determined rows `ls`, the open offset by `|ls|` -/
def ElemsOKH (pe : Bool → B → List Int → R (B × List Int)) : Prop :=
  ∀ large el base l r, WFH el → NoDictKey el → pe large el (base ++ [l]) = .ok r →
    WFH r.1 ∧ ∃ ls : List LVal, Refines (decH r.1) (decH el ++ ls.map some) ∧ r.2 = base ++ [l + (ls.length : Int)]

def CountOKH (pc : B → Nat → R (B × Nat)) : Prop :=
  ∀ el c r, WFH el → NoDictKey el → pc el c = .ok r →
    WFH r.1 ∧ ∃ ls : List LVal, Refines (decH r.1) (decH el ++ ls.map some) ∧ r.2 = c + ls.length

theorem seqLikeWith_refines {pe : Bool → B → List Int → R (B × List Int)} {pc : B → Nat → R (B × Nat)}
    {pt : SS → R SS} {bytes : R Bytes} (hpe : ElemsOKH pe) (hpc : CountOKH pc) (hpt : FieldsOKH pt)
    (b : B) (k : SeqKind) (b' : B) (hwf : WFH b) (hsafe : NoDictKey b) (h : seqLikeWith pe pc pt bytes b k = .ok b') :
    WFH b' ∧ ∃ lv, Refines (decH b') (decH b ++ [some lv]) := sorry

/-- one row of a union -/
theorem union_row_refines {p fs types offs cur} {i : Nat} {pc : B → R B} {b' : B}
    (hwf : WFH (.union p fs types offs cur)) (hsafe : NoDictKey (.union p fs types offs cur)) (hpc : StepOKH pc)
    (h : (do
      let (c, types', offs', cur') ← serializeVariant fs types offs cur i
      let c' ← pc c
      pure (.union p (fs.set i c') types' offs' cur') : R B) = .ok b') :
    WFH b' ∧ ∃ lv, Refines (decH b') (decH (.union p fs types offs cur) ++ [some lv]) := sorry

theorem pushByteElems_refines (ext : Ext) (large : Bool) : ∀ (bs : Bytes) (el : B) (base : List Int) (l : Int) (r : B × List Int),
    WFH el → NoDictKey el → pushByteElems ext large el (base ++ [l]) bs = .ok r →
    WFH r.1 ∧ ∃ ls : List LVal, Refines (decH r.1) (decH el ++ ls.map some) ∧ r.2 = base ++ [l + (ls.length : Int)] := sorry

end SaModel.Build
