import SaModel.Lemmas.C01ObsCompScalar
import SaModel.Lemmas.C01CompComb
/-
C01 "hidden rows" — completeness, the non-recursive combinators of the push block (records, `endFields`, bytes into
lists) under the weak invariant `WFH` / `NoDictKey` (counterpart of Lemmas/C01CompComb.lean; its state-free lemmas
`roomL_get`, `roomL_set`, `totalFs_get`, `structOf_inv`, `EndOK`, `SS.element_total`, … are reused).
-/
namespace SaModel.Build
open SaModel SaModel.Spec

/-- everything the completeness recursion knows about a builder: state invariant, schema, exclusions -/
structure GoodH (b : B) (dt : DataType) (n : Bool) (md : Metadata) : Prop where
  wf : WFH b
  nd : NoDictKey b
  shape : Shape b dt n md
  tot : total dt n md = true

theorem GoodH.push {ext : Ext} {x : SVal} {b b' : B} {dt n md} (hg : GoodH b dt n md) (_hraw : noRaw x = true)
    (h : push ext b x = .ok b') : GoodH b' dt n md :=
  have ht := push_takeRest ext x b b' h
  ⟨(push_refines ext x b b' hg.wf hg.nd h).1, NoDictKey.of_takeRest ht hg.nd,
    Shape.of_takeRest ht hg.shape, hg.tot⟩

theorem GoodH.pushScalar {ext : Ext} {x : SVal} {b b' : B} {dt n md} (hg : GoodH b dt n md)
    (h : pushScalar ext b x = .ok b') : GoodH b' dt n md :=
  have ht := pushScalar_takeRest ext b x b' h
  ⟨(pushScalar_refines ext b x b' hg.wf hg.nd h).1, NoDictKey.of_takeRest ht hg.nd,
    Shape.of_takeRest ht hg.shape, hg.tot⟩

theorem pushByteElems_completeH (ext : Ext) (large : Bool) : ∀ (bs : Bytes) (el : B) (offs : List Int) (l : Int)
    (cdt : DataType) (cn : Bool) (cmd : Metadata) (ls : List LVal), GoodH el cdt cn cmd →
    (bs.map fun x => strLen ext (.int .u8 x.toNat) + 1).sum ≤ room el →
    offs.getLast? = some l → 0 ≤ l → l + bs.length ≤ 2147483647 →
    bs.mapM (fun x => interpScalar ext cdt (.int .u8 x.toNat)) = .ok ls →
    ∃ r, pushByteElems ext large el offs bs = .ok r ∧
      room el ≤ room r.1 + (bs.map fun x => strLen ext (.int .u8 x.toNat) + 1).sum ∧
      r.2.getLast? = some (l + bs.length)
  | [], el, offs, l, _, _, _, _, _, _, hl, _, _, _ => ⟨(el, offs), rfl, by simp, by simpa using hl⟩
  | x :: rest, el, offs, l, cdt, cn, cmd, ls, hg, hr, hl, h0, hle, hi => by
    rw [List.mapM_cons] at hi
    obtain ⟨lv0, hi0, hi⟩ := (bind_ok _ _ _).1 hi
    obtain ⟨ls', hi', _⟩ := (bind_ok _ _ _).1 hi
    simp only [List.map_cons, List.sum_cons, List.length_cons] at hr hle
    have hinc := incrementLast_total (large := large) (inc := 1) hl (by omega) h0
    obtain ⟨el', hp, hroom⟩ := pushScalar_completeH ext el (.int .u8 x.toNat) cdt cn cmd lv0 hg.wf hg.shape
      (interpScalar_int_known cmd hi0) (by simp only [vsize]; omega) hi0
    simp only [vsize] at hroom
    obtain ⟨r, hrest, hr2, hl2⟩ := pushByteElems_completeH ext large rest el' (offs.dropLast ++ [l + (1 : Nat)]) (l + (1 : Nat))
      cdt cn cmd ls' (hg.pushScalar hp) (by omega) (by simp) (by omega) (by omega) hi'
    refine ⟨r, ?_, ?_, ?_⟩
    · simp only [pushByteElems]
      exact (bind_ok _ _ _).2 ⟨_, hinc, (bind_ok _ _ _).2 ⟨el', (ctx_ok _ _ _).2 hp, hrest⟩⟩
    · simp only [List.map_cons, List.sum_cons]; omega
    · rw [hl2]; simp only [List.length_cons]; congr 1; omega

theorem endFields_completeH : ∀ (fs : BL) (seen : List Bool) (sfs : Fields),
    (∀ j c m, fs.get? j = some (c, m) → WFH c) → ShapeL fs sfs → totalFs sfs = true → seen.length = fs.length →
    EndOK seen sfs → 1 ≤ roomL fs → ∃ fs', endFields fs seen = .ok fs' ∧ roomL fs ≤ roomL fs' + 1
  | .nil, _, _, _, _, _, _, _, _ => ⟨.nil, by simp [endFields], Nat.le_add_right _ _⟩
  | .cons b m r, [], _, _, _, _, hl, _, _ => by simp [BL.length] at hl
  | .cons b m r, s :: ss, .nil, _, hs, _, _, _, _ => by simp [ShapeL] at hs
  | .cons b m r, s :: ss, .cons (.mk fname fdt fn fmd) rest, hw, hs, ht, hl, he, hk => by
    simp only [roomL] at hk
    simp only [ShapeL] at hs
    simp only [totalFs, totalF, Bool.and_eq_true] at ht
    obtain ⟨r', hr', hroom⟩ := endFields_completeH r ss rest (fun j c m' h => hw (j + 1) c m' (by simpa [BL.get?] using h))
      hs.2.2.2 ht.2 (by simpa [BL.length] using hl) (fun j f hj => by simpa [Fields.toList] using he (j + 1) f (by simpa [Fields.toList] using hj)) (by omega)
    cases s with
    | true =>
      refine ⟨.cons b m r', ?_, by simp only [roomL]; omega⟩
      simp only [endFields, if_true]
      exact (bind_ok _ _ _).2 ⟨_, hr', rfl⟩
    | false =>
      have h0 := he 0 (.mk fname fdt fn fmd) (by simp [Fields.toList])
      simp only [List.getD_cons_zero, Bool.false_eq_true, false_or, Field.nullable, Field.dataType, Field.metadata] at h0
      obtain ⟨hn, lv, hlv⟩ := h0
      obtain ⟨b', hb', hrb⟩ := pushNone_completeH b fdt fn fmd lv (hw 0 b m rfl) hs.2.2.1 ht.1 hlv (by omega)
      have hmn : (!m.nullable) = false := by rw [hs.2.1, hn]; rfl
      refine ⟨.cons b' m r', ?_, by simp only [roomL]; omega⟩
      simp only [endFields, Bool.false_eq_true, if_false, hmn]
      exact (bind_ok _ _ _).2 ⟨_, hb', (bind_ok _ _ _).2 ⟨_, hr', rfl⟩⟩

/-- what the completeness induction hypothesis provides for a field loop `pf` collecting candidates by `collect` -/
def FieldsCompH (sfs : Fields) (collect : Field → R (List LVal)) (cost : Nat) (pf : SS → R SS) : Prop :=
  ∀ fs0 s adds, MidH fs0 s adds → ShapeL s.fields sfs → s.next = 0 → s.seen = List.replicate s.fields.length false →
    cost ≤ roomL s.fields →
    (∀ (j : Nat) f, sfs.toList[j]? = some f → ∃ found lv, collect f = .ok found ∧
      pickOne f.name f.nullable f.dataType f.metadata found = .ok lv) →
    ∃ s', pf s = .ok s' ∧ EndOK s'.seen sfs ∧ roomL s.fields ≤ roomL s'.fields + cost

theorem record_completeH {p len v fs cached next seen} {pf : SS → R SS} {sfs : Fields} {n : Bool}
    {md : Metadata} {collect : Field → R (List LVal)} {cost : Nat} {lv : LVal}
    (hg : GoodH (.struct p len v fs cached next seen) (.struct sfs) n md)
    (hpf1 : FieldsOKH pf) (hskel : ∀ s1 s2, pf s1 = .ok s2 → SSkel s2 s1)
    (hpf : FieldsCompH sfs collect cost pf) (hr : cost + 1 ≤ roomL fs)
    (hi : structOf sfs.toList collect = .ok lv) :
    ∃ b', (do
      let s ← SS.start ⟨p, len, v, fs, cached, next, seen⟩
      let s ← pf s
      let s ← s.finishRow
      pure s.toB : R B) = .ok b' ∧ roomL fs ≤ room b' + (cost + 1) := by
  have hw := hg.wf
  simp only [WFH] at hw
  obtain ⟨hv, hwfl, hseen, hnd, hcache⟩ := hw
  have hsafe := hg.nd
  simp only [NoDictKey] at hsafe
  have hsh := hg.shape
  simp only [Shape] at hsh
  obtain ⟨_, sfs', he, hsl⟩ := hsh
  cases he
  have ht := hg.tot
  simp only [total, Bool.and_eq_true] at ht
  obtain ⟨v', hv'⟩ := setValidity_true_total v len
  have hmid : MidH fs ⟨p, len + 1, v', fs, cached, 0, List.replicate seen.length false⟩ (List.replicate fs.length []) :=
    ⟨by simpa using ExtLH.refl fs len hwfl, by rw [hseen]; exact Flags.fresh _, hcache, hsafe, hnd⟩
  obtain ⟨s2, h2, hend, hroom⟩ := hpf fs _ _ hmid hsl rfl (by simp [hseen]) (show cost ≤ roomL fs by omega) (fun j f hj => structOf_inv hi j f hj)
  obtain ⟨⟨adds2, hm2⟩, _⟩ := hpf1 _ _ _ _ hmid h2
  have hsl2 : ShapeL s2.fields sfs := ShapeL.of_takeRest (hskel _ s2 h2).2.2.1 hsl
  obtain ⟨fs3, h3, hr3⟩ := endFields_completeH s2.fields s2.seen sfs
    (fun j c m h => ExtLH.get _ _ _ j (c, m) hm2.ext h) hsl2 ht.1 hm2.adds_length.2.1 hend (by simp only at hroom; omega)
  refine ⟨SS.toB { s2 with fields := fs3 }, ?_, ?_⟩
  · refine (bind_ok _ _ _).2 ⟨_, ?_, (bind_ok _ _ _).2 ⟨s2, h2, (bind_ok _ _ _).2 ⟨{ s2 with fields := fs3 }, ?_, rfl⟩⟩⟩
    · simp only [SS.start]
      exact (bind_ok _ _ _).2 ⟨v', hv', rfl⟩
    · simp only [SS.finishRow]
      exact (bind_ok _ _ _).2 ⟨fs3, h3, rfl⟩
  · simp only [SS.toB, room]
    simp only at hroom
    omega

end SaModel.Build
