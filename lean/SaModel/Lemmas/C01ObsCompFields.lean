import SaModel.Lemmas.C01ObsCompSeq
import SaModel.Lemmas.C01CompFields
/-
C01 "hidden rows" — completeness, one step of a field loop under the weak invariant (counterpart of
Lemmas/C01CompFields.lean; the `PendN` / `PendT` invariants and the `interpByName` / `interpByKey` lemmas there are
state-free and reused).
-/
namespace SaModel.Build
open SaModel SaModel.Spec

/-- the child a key designates: it exists, is the builder of the schema field of that name, and is `GoodH` -/
theorem field_childH {fs0 : BL} {s : SS} {adds : List (List LVal)} {sfs : Fields} {idx : Nat}
    (hm : MidH fs0 s adds) (hsl : ShapeL s.fields sfs) (ht : totalFs sfs = true) (hlt : idx < s.fields.length) :
    ∃ c m f, s.fields.get? idx = some (c, m) ∧ sfs.toList[idx]? = some f ∧ s.fields.names[idx]? = some f.name ∧
      GoodH c f.dataType f.nullable f.metadata ∧ roomL s.fields ≤ room c ∧ idx < s.seen.length := by
  obtain ⟨⟨c, m⟩, hget⟩ := BL.get?_of_lt s.fields idx hlt
  obtain ⟨f, hj, hsh, _, _⟩ := ShapeL.get _ _ _ _ _ hsl hget
  refine ⟨c, m, f, hget, hj, names_at hsl hj, ⟨ExtLH.get _ _ _ _ _ hm.ext hget, NoDictKeyL.get _ _ _ hm.safe hget, hsh,
    totalFs_get sfs idx f ht hj⟩, roomL_get _ _ _ _ hget, by rw [hm.adds_length.2.1]; exact hlt⟩

/-- after the child push: the struct state moves on -/
theorem field_afterH {ext : Ext} {x : SVal} {fs0 : BL} {s : SS} {adds : List (List LVal)} {sfs : Fields} {idx : Nat}
    {c c' : B} {m : FieldMeta} (_hraw : noRaw x = true)
    (hm : MidH fs0 s adds) (hsl : ShapeL s.fields sfs) (hget : s.fields.get? idx = some (c, m))
    (hseen : s.seen[idx]? = some false) (hpc : push ext c x = .ok c') :
    ∃ s' adds', s.element idx (fun c => push ext c x) = .ok s' ∧ MidH fs0 s' adds' ∧ ShapeL s'.fields sfs ∧
      s'.seen = s.seen.set idx true ∧ s'.next = idx + 1 ∧ s'.fields = s.fields.set idx c' ∧ s'.cached = s.cached := by
  have h := SS.element_total (pc := fun c => push ext c x) hget hseen hpc
  obtain ⟨⟨adds', hm'⟩, _⟩ := SS.element_midH hm
    (StepOKH.of_push (fun c c' => push_refines ext x c c')) h
  exact ⟨_, adds', h, hm', ShapeL.set_push hsl hget (push_takeRest ext x c c' hpc), rfl, rfl, rfl, rfl⟩

end SaModel.Build
