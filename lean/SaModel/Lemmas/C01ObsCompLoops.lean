import SaModel.Lemmas.C01ObsCompFields
import SaModel.Lemmas.C01CompLoops
/-
C01 "hidden rows" — completeness under the weak invariant: what the mutual recursion proves for each element / field
loop (`…LoopH`), and the value-level consequences that do not need the recursion any more (counterpart of
Lemmas/C01CompLoops.lean; the `Shape_*_form` and `interpDT_*` lemmas there are state-free and reused).
-/
namespace SaModel.Build
open SaModel SaModel.Spec

/-- the statement of completeness for one value -/
def CompH (ext : Ext) (x : SVal) : Prop :=
  ∀ b dt n md lv, GoodH b dt n md → vsize ext x ≤ room b → interpDT ext dt n md x = .ok lv →
    ∃ b', push ext b x = .ok b' ∧ room b ≤ room b' + vsize ext x

def TupleLoopH (ext : Ext) (xs : SVals) : Prop :=
  ∀ fs0 s adds sfs, MidH fs0 s adds → ShapeL s.fields sfs → totalFs sfs = true → vsizes ext xs ≤ roomL s.fields →
    PendT ext xs s.next s.seen sfs →
    ∃ s', pushTupleElems ext s xs = .ok s' ∧ EndOK s'.seen sfs ∧ roomL s.fields ≤ roomL s'.fields + vsizes ext xs

def FieldsLoopH (ext : Ext) (fields : SFields) : Prop :=
  ∀ fs0 s adds sfs, MidH fs0 s adds → ShapeL s.fields sfs → totalFs sfs = true → vsizef ext fields ≤ roomL s.fields →
    PendN (fun f => interpByName ext f.name f.dataType f.nullable f.metadata fields) s.seen sfs →
    ∃ s', pushFields ext s fields = .ok s' ∧ EndOK s'.seen sfs ∧ roomL s.fields ≤ roomL s'.fields + vsizef ext fields

def EntriesLoopH (ext : Ext) (es : SEntries) : Prop :=
  ∀ fs0 s adds sfs, MidH fs0 s adds → ShapeL s.fields sfs → totalFs sfs = true → vsizee ext es ≤ roomL s.fields →
    keysAreStrings es = .ok () →
    PendN (fun f => interpByKey ext f.name f.dataType f.nullable f.metadata es) s.seen sfs →
    ∃ s', pushStructEntries ext s es = .ok s' ∧ EndOK s'.seen sfs ∧ roomL s.fields ≤ roomL s'.fields + vsizee ext es

theorem TupleLoopH.comp {ext : Ext} {xs : SVals} (h : TupleLoopH ext xs) : ∀ sfs, totalFs sfs = true →
    FieldsCompH sfs (fun f => interpNth ext f.dataType f.nullable f.metadata
      (indexOfName (sfs.toList.map Field.name) f.name |>.getD 0) xs) (vsizes ext xs) (fun s => pushTupleElems ext s xs) := by
  intro sfs ht fs0 s adds hm hsl hn0 hseen hcost hcol
  have hnd : (sfs.toList.map Field.name).Nodup := by rw [← ShapeL.names _ _ hsl]; exact hm.nodup
  exact h fs0 s adds sfs hm hsl ht hcost (by rw [hn0, hseen]; exact PendT.fresh hnd hcol)

theorem FieldsLoopH.comp {ext : Ext} {fields : SFields} (h : FieldsLoopH ext fields) : ∀ sfs, totalFs sfs = true →
    FieldsCompH sfs (fun f => interpByName ext f.name f.dataType f.nullable f.metadata fields) (vsizef ext fields)
      (fun s => pushFields ext s fields) := by
  intro sfs ht fs0 s adds hm hsl _ hseen hcost hcol
  exact h fs0 s adds sfs hm hsl ht hcost (by rw [hseen]; exact PendN.fresh hcol)

theorem EntriesLoopH.comp {ext : Ext} {es : SEntries} (h : EntriesLoopH ext es) (hk : keysAreStrings es = .ok ()) :
    ∀ sfs, totalFs sfs = true →
    FieldsCompH sfs (fun f => interpByKey ext f.name f.dataType f.nullable f.metadata es) (vsizee ext es)
      (fun s => pushStructEntries ext { s with next := UNKNOWN_KEY } es) := by
  intro sfs ht fs0 s adds hm hsl _ hseen hcost hcol
  exact h fs0 _ adds sfs (hm.next UNKNOWN_KEY) hsl ht hcost hk (by simp only; rw [hseen]; exact PendN.fresh hcol)

theorem scalarValue_completeH {ext : Ext} {x : SVal} {b : B} {dt : DataType} {n : Bool} {md : Metadata} {lv : LVal}
    (hg : GoodH b dt n md) (hr : vsize ext x ≤ room b)
    (hi : (if isUnknownVariant dt md then fail "unknown variant" else interpScalar ext dt x) = .ok lv) :
    ∃ b', ctx b.ann (pushScalar ext b x) = .ok b' ∧ room b ≤ room b' + vsize ext x := by
  by_cases hu : isUnknownVariant dt md = true
  · simp [hu, fail] at hi
  · simp only [hu, Bool.false_eq_true, if_false] at hi
    obtain ⟨b', h1, h2⟩ := pushScalar_completeH ext b x dt n md lv hg.wf hg.shape (by simpa using hu) hr hi
    exact ⟨b', (ctx_ok _ _ _).2 h1, h2⟩

/-! ### sequences and records as values -/

theorem seqValue_completeH {ext : Ext} {xs : SVals} (_hraw : noRaws xs = true)
    (hpe : ElemsCompH ext xs (fun large el offs => pushElems ext large el offs xs))
    (hpc : CountCompH ext xs (fun el c => pushCountElems ext el c xs)) (hpt : TupleLoopH ext xs)
    (b : B) (k : SeqKind) (dt : DataType) (n : Bool) (md : Metadata) (lv : LVal)
    (hg : GoodH b dt n md) (hr : vsizes ext xs + 1 ≤ room b) (hi : seqSpec ext (k != .seq) dt md xs = .ok lv) :
    ∃ b', seqLikeWith (fun large el offs => pushElems ext large el offs xs) (fun el c => pushCountElems ext el c xs)
      (fun s => pushTupleElems ext s xs) (u8All xs) b k = .ok b' ∧ room b ≤ room b' + (vsizes ext xs + 1) :=
  seqLike_completeH hpe hpc (pushTupleElems_refines ext xs)
    (fun s1 s2 hp => pushTupleElems_takeRest ext xs s1 s2 hp) hpt.comp b k dt n md lv hg hr hi

theorem recordValue_completeH {ext : Ext} {fields : SFields} (_hraw : noRawf fields = true) (hpf : FieldsLoopH ext fields)
    {b : B} {sfs : Fields} {n : Bool} {md : Metadata} {lv : LVal}
    (hg : GoodH b (.struct sfs) n md) (hr : vsizef ext fields + 1 ≤ room b)
    (hi : structOf sfs.toList (fun f => interpByName ext f.name f.dataType f.nullable f.metadata fields) = .ok lv) :
    ∃ b', recordWith (fun s => pushFields ext s fields) b = .ok b' ∧ room b ≤ room b' + (vsizef ext fields + 1) := by
  obtain ⟨p, len, v, fs, cached, next, seen, rfl⟩ := Shape_struct_form hg.shape
  have ht := hg.tot
  simp only [total, Bool.and_eq_true] at ht
  simp only [room] at hr
  obtain ⟨b', hb', hroom⟩ := record_completeH hg (pushFields_refines ext fields)
    (fun s1 s2 hp => pushFields_takeRest ext fields s1 s2 hp) (hpf.comp sfs ht.1) (by omega) hi
  exact ⟨b', by simpa only [recordWith] using hb', by simp only [room]; omega⟩

end SaModel.Build
