import SaModel.Lemmas.C01ObsCompLeaf
import SaModel.Lemmas.C01CompScalar
/-
C01 "hidden rows" — completeness, scalar calls, under the weak state invariant `WFH` (counterpart of
Lemmas/C01CompScalar.lean): whenever `Spec.interpScalar` accepts a scalar at the builder's field and the value fits into
the head room, `pushScalar` succeeds, and the head room shrinks by at most `vsize`.
-/
namespace SaModel.Build
open SaModel SaModel.Spec

theorem pushScalar_completeH (ext : Ext) : ∀ (b : B) (x : SVal) (dt : DataType) (n : Bool) (md : Metadata) (lv : LVal),
    WFH b → Shape b dt n md → isUnknownVariant dt md = false → vsize ext x ≤ room b →
    interpScalar ext dt x = .ok lv → ∃ b', pushScalar ext b x = .ok b' ∧ room b ≤ room b' + vsize ext x
  | .null p len, x, dt, n, md, lv, _, hs, _, _, hi => by
    simp only [Shape] at hs
    obtain ⟨rfl, _⟩ := hs
    cases x <;> simp [interpScalar_eq_old, normErr_ok_iff, interpScalarOld, fail] at hi
    exact ⟨_, rfl, by simp [room]⟩
  | .unknownVariant p, x, dt, n, md, lv, _, hs, hu, _, _ => by
    simp only [Shape] at hs
    obtain ⟨rfl, hu'⟩ := hs
    rw [hu] at hu'; cases hu'
  | .leaf p k v vals, x, dt, n, md, lv, _, hs, _, _, hi => by
    simp only [Shape] at hs
    rw [interpScalar_kind hs.1, normErr_ok_iff] at hi
    obtain ⟨val, hc, _⟩ := (bind_ok _ _ _).1 hi
    obtain ⟨v', hv⟩ := setValidity_true_total v vals.length
    refine ⟨.leaf p k v' (vals ++ [val]), ?_, by simp [room]⟩
    simp only [pushScalar]
    exact (bind_ok _ _ _).2 ⟨_, hc, (bind_ok _ _ _).2 ⟨_, hv, rfl⟩⟩
  | .bytes p ty v offs data, x, dt, n, md, lv, hwf, hs, _, hr, hi => by
    simp only [Shape] at hs
    obtain ⟨rfl, _⟩ := hs
    simp only [room] at hr
    have : ∃ bs, (if isUtf8Ty ty then
        match scalarToString ext x with
        | some s => .ok (strBytes s)
        | none => notSupported s!"serialize_{x.kind}"
      else match x with
        | .bytes bs => .ok bs
        | _ => notSupported s!"serialize_{x.kind}" : R Bytes) = .ok bs ∧ bs.length + 1 ≤ vsize ext x := by
      cases ty <;> simp only [bytesDT, interpScalar_eq_old, normErr_ok_iff, interpScalarOld, isUtf8Ty, if_true, Bool.false_eq_true, if_false] at hi ⊢
      · cases hs : scalarToString ext x with
        | none => simp [hs, fail] at hi
        | some s => exact ⟨_, rfl, vsize_strLen hs⟩
      · cases hs : scalarToString ext x with
        | none => simp [hs, fail] at hi
        | some s => exact ⟨_, rfl, vsize_strLen hs⟩
      · cases x <;> simp [fail] at hi
        exact ⟨_, rfl, vsize_bytes ext _⟩
      · cases x <;> simp [fail] at hi
        exact ⟨_, rfl, vsize_bytes ext _⟩
    obtain ⟨bs, hval, hlen⟩ := this
    obtain ⟨v', offs', hp, hl⟩ := pushScalar_bytes_total ext x bs (flat_WFB rfl hwf) hval (by omega)
    refine ⟨_, hp, ?_⟩
    simp only [room, hl]; omega
  | .bytesView p ty v views buf, x, dt, n, md, lv, _, hs, _, hr, hi => by
    simp only [Shape] at hs
    obtain ⟨rfl, _⟩ := hs
    simp only [room] at hr
    have : ∃ bs, (if ty == .utf8View then
        match scalarToString ext x with
        | some s => .ok (strBytes s)
        | none => notSupported s!"serialize_{x.kind}"
      else match x with
        | .bytes bs => .ok bs
        | _ => notSupported s!"serialize_{x.kind}" : R Bytes) = .ok bs ∧ bs.length + 1 ≤ vsize ext x := by
      cases ty <;> simp only [viewDT, interpScalar_eq_old, normErr_ok_iff, interpScalarOld] at hi ⊢
      · cases hs : scalarToString ext x with
        | none => simp [hs, fail] at hi
        | some s => exact ⟨strBytes s, by rw [if_pos (by decide)], vsize_strLen hs⟩
      · cases x <;> simp [fail] at hi
        exact ⟨_, by rw [if_neg (by decide)], vsize_bytes ext _⟩
    obtain ⟨bs, hval, hlen⟩ := this
    obtain ⟨v', hv⟩ := setValidity_true_total v views.length
    have hvp : ∃ r, viewPushValue views buf bs = .ok r ∧ r.2.length ≤ buf.length + bs.length := by
      unfold viewPushValue
      split
      · exact ⟨_, rfl, by simp⟩
      · rw [if_neg (by simp only [I32_MAX]; simp only [LIM] at hr; omega)]
        exact ⟨_, rfl, by simp⟩
    obtain ⟨⟨views', buf'⟩, hvp, hbl⟩ := hvp
    refine ⟨.bytesView p ty v' views' buf', ?_, ?_⟩
    · simp only [pushScalar]
      exact (bind_ok _ _ _).2 ⟨bs, hval, (bind_ok _ _ _).2 ⟨_, hvp, (bind_ok _ _ _).2 ⟨_, hv, rfl⟩⟩⟩
    · simp only [room]; simp only at hbl; omega
  | .fixedSizeBinary p m len v buf cur, x, dt, n, md, lv, _, hs, _, _, hi => by
    simp only [Shape] at hs
    obtain ⟨rfl, _⟩ := hs
    obtain ⟨v', hv⟩ := setValidity_true_total v len
    cases x with
    | bytes bs =>
      simp [interpScalar_eq_old, normErr_ok_iff, interpScalarOld, fail] at hi
      refine ⟨.fixedSizeBinary p m (len + 1) v' (buf ++ bs) cur, ?_, by simp [room]⟩
      have : (bs.length != m) = false := by
        by_cases hm : (bs.length : Int) = (m : Int)
        · simp; omega
        · simp [hm] at hi
      simp only [pushScalar, this, Bool.false_eq_true, if_false]
      exact (bind_ok _ _ _).2 ⟨_, hv, rfl⟩
    | _ => simp [interpScalar_eq_old, normErr_ok_iff, interpScalarOld, fail] at hi
  | .dictionary p idx vals index, x, dt, n, md, lv, hwf, hs, _, hr, hi => by
    simp only [Shape] at hs
    obtain ⟨⟨kdt, vdt, rfl, hsv⟩, hil, _, hu8⟩ := hs
    obtain ⟨p', t, v, ivals, rfl⟩ := isIntLeaf_form hil
    have hu8 := dict_interp_utf8 hsv hu8 hi
    rw [interpScalar_dict_utf8 hsv hu8] at hi
    obtain ⟨p'', ty, v2, offs, data, rfl, hty⟩ := isUtf8B_form hu8
    simp only [room] at hr
    cases hs : scalarToString ext x with
    | none => simp [hs, fail] at hi
    | some s =>
      have hlen := vsize_strLen hs
      have hkr : 1 ≤ keyRoom (.leaf p' (.int t) v ivals) index.length := by have := vsize_pos ext x; omega
      cases hix : indexOfName index s with
      | some i =>
        obtain ⟨v', hp⟩ := intLeaf_push_total ext p' t v ivals i (keyRoom_le hkr (Nat.le_of_lt (indexOfName_lt hix)))
        refine ⟨.dictionary p (.leaf p' (.int t) v' (ivals ++ [(i : Int)])) (.bytes p'' ty v2 offs data) index, ?_, ?_⟩
        · rw [pushScalar]
          simp only [hs, hix]
          exact (bind_ok _ _ _).2 ⟨_, (ctx_eq_ok _ _ _).2 hp, rfl⟩
        · simp only [room, keyRoom]; omega
      | none =>
        have hwv : WFB (.bytes p'' ty v2 offs data) := by simp only [WFH] at hwf; exact flat_WFB rfl hwf.2.1
        obtain ⟨v2', offs', hpv, hl⟩ := pushScalar_bytes_total ext (ty := ty) (.str s) (strBytes s) hwv
          (by simp [hty, scalarToString]) (by omega)
        obtain ⟨v', hp⟩ := intLeaf_push_total ext p' t v ivals index.length (keyRoom_le hkr (Nat.le_refl _))
        refine ⟨.dictionary p (.leaf p' (.int t) v' (ivals ++ [(index.length : Int)])) (.bytes p'' ty v2' offs' (data ++ strBytes s)) (index ++ [s]), ?_, ?_⟩
        · rw [pushScalar]
          simp only [hs, hix]
          exact (bind_ok _ _ _).2 ⟨_, (ctx_eq_ok _ _ _).2 hpv, (bind_ok _ _ _).2 ⟨_, (ctx_eq_ok _ _ _).2 hp, rfl⟩⟩
        · simp only [room, keyRoom, hl, List.length_append, List.length_singleton] at hkr ⊢; omega
  | .list p large fm v offs el, x, dt, n, md, lv, _, hs, _, _, hi => by
    simp only [Shape] at hs
    obtain ⟨_, cname, cdt, cn, cmd, rfl, _⟩ := hs
    cases large <;> simp [interpScalar_eq_old, normErr_ok_iff, interpScalarOld, fail] at hi
  | .fixedSizeList p fm m len v cur el, x, dt, n, md, lv, _, hs, _, _, hi => by
    simp only [Shape] at hs
    obtain ⟨_, cname, cdt, cn, cmd, rfl, _⟩ := hs
    simp [interpScalar_eq_old, normErr_ok_iff, interpScalarOld, fail] at hi
  | .map p mm v offs ks vs, x, dt, n, md, lv, _, hs, _, _, hi => by
    simp only [Shape] at hs
    obtain ⟨_, ename, kn, kdt, knl, kmd, vn, vdt, vnl, vmd, rest, en, emd, sorted, rfl, _, _⟩ := hs
    simp [interpScalar_eq_old, normErr_ok_iff, interpScalarOld, fail] at hi
  | .struct p len v fs cached next seen, x, dt, n, md, lv, _, hs, _, _, hi => by
    simp only [Shape] at hs
    obtain ⟨_, sfs, rfl, _⟩ := hs
    simp [interpScalar_eq_old, normErr_ok_iff, interpScalarOld, fail] at hi
  | .union p fs types offs cur, x, dt, n, md, lv, _, hs, _, _, hi => by
    simp only [Shape] at hs
    obtain ⟨ufs, mode, rfl, _⟩ := hs
    simp [interpScalar_eq_old, normErr_ok_iff, interpScalarOld, fail] at hi

end SaModel.Build
