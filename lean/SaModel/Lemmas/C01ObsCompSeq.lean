import SaModel.Lemmas.C01ObsCompComb
import SaModel.Lemmas.C01CompSeq
/-
C01 "hidden rows" — completeness of `seqLikeWith` and of union rows under the weak invariant `WFH` / `NoDictKey`, with the
recursive parts as hypotheses (counterpart of Lemmas/C01CompSeq.lean; `u8All_length`, `interpAll_length`,
`iter_incrementLast_total` are reused).
-/
namespace SaModel.Build
open SaModel SaModel.Spec

def ElemsCompH (ext : Ext) (xs : SVals) (pe : Bool → B → List Int → R (B × List Int)) : Prop :=
  ∀ large el offs (l : Int) cdt cn cmd ls, GoodH el cdt cn cmd → vsizes ext xs ≤ room el → offs.getLast? = some l →
    0 ≤ l → l + xs.length ≤ 2147483647 → interpAll ext cdt cn cmd xs = .ok ls →
    ∃ r, pe large el offs = .ok r ∧ room el ≤ room r.1 + vsizes ext xs ∧ r.2.getLast? = some (l + xs.length)

def CountCompH (ext : Ext) (xs : SVals) (pc : B → Nat → R (B × Nat)) : Prop :=
  ∀ el c cdt cn cmd ls, GoodH el cdt cn cmd → vsizes ext xs ≤ room el → interpAll ext cdt cn cmd xs = .ok ls →
    ∃ el', pc el c = .ok (el', c + xs.length) ∧ room el ≤ room el' + vsizes ext xs

theorem seqLike_completeH {ext : Ext} {xs : SVals} {pe : Bool → B → List Int → R (B × List Int)}
    {pc : B → Nat → R (B × Nat)} {pt : SS → R SS}
    (hpe : ElemsCompH ext xs pe) (hpc : CountCompH ext xs pc)
    (hpt1 : FieldsOKH pt) (hptskel : ∀ s1 s2, pt s1 = .ok s2 → SSkel s2 s1)
    (hpt : ∀ sfs, totalFs sfs = true → FieldsCompH sfs (fun f => interpNth ext f.dataType f.nullable f.metadata
      (indexOfName (sfs.toList.map Field.name) f.name |>.getD 0) xs) (vsizes ext xs) pt)
    (b : B) (k : SeqKind) (dt : DataType) (n : Bool) (md : Metadata) (lv : LVal)
    (hg : GoodH b dt n md) (hr : vsizes ext xs + 1 ≤ room b) (hi : seqSpec ext (k != .seq) dt md xs = .ok lv) :
    ∃ b', seqLikeWith pe pc pt (u8All xs) b k = .ok b' ∧ room b ≤ room b' + (vsizes ext xs + 1) := by
  have hlen := vsizes_length ext xs
  cases b with
  | list p large fm v offs el =>
    have hw := hg.wf
    simp only [WFH] at hw
    have hsafe := hg.nd
    simp only [NoDictKey] at hsafe
    have hsh := hg.shape
    simp only [Shape] at hsh
    obtain ⟨_, cname, cdt, cn, cmd, rfl, hsel⟩ := hsh
    have ht := hg.tot
    have hlast := hw.1.2.1
    have hln : lastNat offs = (dec el).length := by simp [lastNat_of_getLast hlast]
    simp only [room, hln] at hr
    simp only [LIM] at hr
    have hgel : GoodH el cdt cn cmd := ⟨hw.2.2, hsafe, hsel, by cases large <;> simpa [total, totalF] using ht⟩
    have hia : ∃ ls, interpAll ext cdt cn cmd xs = .ok ls := by
      cases large <;> simp only [seqSpec, isUnknownVariant, Bool.false_eq_true, if_false] at hi <;>
        (cases hh : interpAll ext cdt cn cmd xs with
          | ok ls => exact ⟨ls, rfl⟩
          | error e => simp [specBytes_eq, hh, bind, Except.bind] at hi)
    obtain ⟨ls, hia⟩ := hia
    obtain ⟨v', hv'⟩ := setValidity_true_total v (offs.length - 1)
    obtain ⟨r, hpr, hroom, hl2⟩ := hpe large el (offs ++ [((dec el).length : Int)]) ((dec el).length : Int) cdt cn cmd ls hgel (by omega) (by simp)
      (by omega) (by omega) hia
    refine ⟨.list p large fm v' r.2 r.1, ?_, ?_⟩
    · simp only [seqLikeWith]
      exact (bind_ok _ _ _).2 ⟨_, hv', (bind_ok _ _ _).2 ⟨_, duplicateLast_total hlast, (bind_ok _ _ _).2 ⟨r, hpr, rfl⟩⟩⟩
    · simp only [room, hln, lastNat_of_getLast hl2, LIM]; omega
  | fixedSizeList p fm m len v cur el =>
    have hw := hg.wf
    simp only [WFH] at hw
    have hsafe := hg.nd
    simp only [NoDictKey] at hsafe
    have hsh := hg.shape
    simp only [Shape] at hsh
    obtain ⟨_, cname, cdt, cn, cmd, rfl, hsel⟩ := hsh
    have ht := hg.tot
    simp only [total, totalF, Bool.and_eq_true] at ht
    simp only [room] at hr
    have hgel : GoodH el cdt cn cmd := ⟨hw.2.2, hsafe, hsel, ht.1⟩
    simp only [seqSpec, isUnknownVariant, Bool.false_eq_true, if_false] at hi
    obtain ⟨ls, hia, hi⟩ := (bind_ok _ _ _).1 hi
    have hcnt : xs.length = m := by
      have := interpAll_length ext cdt cn cmd xs ls hia
      by_cases hm : (ls.length : Int) = (m : Int)
      · omega
      · simp [hm, fail] at hi
    obtain ⟨v', hv'⟩ := setValidity_true_total v len
    obtain ⟨el', hpr, hroom⟩ := hpc el 0 cdt cn cmd ls hgel (by omega) hia
    refine ⟨.fixedSizeList p fm m (len + 1) v' (0 + xs.length) el', ?_, by simp only [room]; omega⟩
    simp only [seqLikeWith]
    refine (bind_ok _ _ _).2 ⟨_, hv', (bind_ok _ _ _).2 ⟨_, hpr, ?_⟩⟩
    have : ((0 + xs.length) != m) = false := by simp; omega
    simp only [this, Bool.false_eq_true, if_false]
    rfl
  | bytes p ty v offs data =>
    have hw := hg.wf
    simp only [WFH] at hw
    have hsh := hg.shape
    simp only [Shape] at hsh
    obtain ⟨rfl, _⟩ := hsh
    have hlast := hw.1.2.1
    have hln : lastNat offs = data.length := by simp [lastNat_of_getLast hlast]
    simp only [room, hln, LIM] at hr
    have hbs : ∃ bs, u8All xs = .ok bs ∧ isBinaryTy ty = true := by
      cases ty <;> simp only [bytesDT, seqSpec, isUnknownVariant, Bool.false_eq_true, if_false, fail] at hi <;>
        first
        | cases hi
        | (cases hh : u8All xs with
            | ok bs => exact ⟨bs, rfl, rfl⟩
            | error e => simp [specBytes_eq, hh, bind, Except.bind] at hi)
    obtain ⟨bs, hbs, hbin⟩ := hbs
    have hbl := u8All_length xs bs hbs
    obtain ⟨v', hv'⟩ := setValidity_true_total v (offs.length - 1)
    obtain ⟨offs', hit, hl2⟩ := iter_incrementLast_total (isLargeTy ty) bs.length (offs ++ [(data.length : Int)]) (data.length : Int) (by simp)
      (by omega) (by omega)
    refine ⟨.bytes p ty v' offs' (data ++ bs), ?_, ?_⟩
    · simp only [seqLikeWith, hbin, if_true]
      exact (bind_ok _ _ _).2 ⟨_, hv', (bind_ok _ _ _).2 ⟨_, duplicateLast_total hlast, (bind_ok _ _ _).2 ⟨bs, hbs,
        (bind_ok _ _ _).2 ⟨_, hit, rfl⟩⟩⟩⟩
    · simp only [room, hln, lastNat_of_getLast hl2, LIM]; omega
  | bytesView p ty v views buf =>
    have hsh := hg.shape
    simp only [Shape] at hsh
    obtain ⟨rfl, _⟩ := hsh
    simp only [room, LIM] at hr
    have hbs : ∃ bs, u8All xs = .ok bs ∧ (ty == .binaryView) = true := by
      cases ty <;> simp only [viewDT, seqSpec, isUnknownVariant, Bool.false_eq_true, if_false, fail] at hi <;>
        first
        | cases hi
        | (cases hh : u8All xs with
            | ok bs => exact ⟨bs, rfl, rfl⟩
            | error e => simp [specBytes_eq, hh, bind, Except.bind] at hi)
    obtain ⟨bs, hbs, hbin⟩ := hbs
    have hbl := u8All_length xs bs hbs
    obtain ⟨v', hv'⟩ := setValidity_true_total v views.length
    have hvs : ∃ r, viewSeq views buf bs = .ok r ∧ r.2.length ≤ buf.length + bs.length := by
      unfold viewSeq
      rw [if_neg (by simp only [I32_MAX]; omega)]
      split
      · exact ⟨_, rfl, by simp⟩
      · rw [if_neg (by simp only [I32_MAX]; omega)]
        exact ⟨_, rfl, by simp⟩
    obtain ⟨⟨views', buf'⟩, hvs, hbl2⟩ := hvs
    refine ⟨.bytesView p ty v' views' buf', ?_, ?_⟩
    · simp only [seqLikeWith, hbin, if_true]
      exact (bind_ok _ _ _).2 ⟨_, hv', (bind_ok _ _ _).2 ⟨bs, hbs, (bind_ok _ _ _).2 ⟨_, hvs, rfl⟩⟩⟩
    · simp only [room, LIM]; simp only at hbl2; omega
  | fixedSizeBinary p m len v buf cur =>
    have hsh := hg.shape
    simp only [Shape] at hsh
    obtain ⟨rfl, _⟩ := hsh
    simp only [seqSpec, isUnknownVariant, Bool.false_eq_true, if_false] at hi
    obtain ⟨bs, hbs, hi⟩ := (bind_ok _ _ _).1 hi
    have hbs := (specBytes_ok_iff _ _).1 hbs
    have hcnt : (bs.length != m) = false := by
      by_cases hm : (bs.length : Int) = (m : Int)
      · simp; omega
      · simp [hm, fail] at hi
    obtain ⟨v', hv'⟩ := setValidity_true_total v len
    refine ⟨.fixedSizeBinary p m (len + 1) v' (buf ++ bs) bs.length, ?_, by simp [room]⟩
    simp only [seqLikeWith]
    refine (bind_ok _ _ _).2 ⟨_, hv', (bind_ok _ _ _).2 ⟨bs, hbs, ?_⟩⟩
    simp only [hcnt, Bool.false_eq_true, if_false]
    rfl
  | struct p len v fs cached next seen =>
    have hsh := hg.shape
    simp only [Shape] at hsh
    obtain ⟨_, sfs, rfl, hsl⟩ := hsh
    have ht := hg.tot
    simp only [total, Bool.and_eq_true] at ht
    simp only [room] at hr
    have e1 : (SeqKind.seq != SeqKind.seq) = false := by decide
    have e2 : (SeqKind.tuple != SeqKind.seq) = true := by decide
    have e3 : (SeqKind.tupleStruct != SeqKind.seq) = true := by decide
    cases k with
    | seq => simp [seqSpec, isUnknownVariant, fail, e1] at hi
    | tuple =>
      simp only [seqSpec, isUnknownVariant, Bool.false_eq_true, if_false, e2, if_true] at hi
      obtain ⟨b', hb', hroom⟩ := record_completeH hg hpt1 hptskel (hpt sfs ht.1) (by omega) (by simpa using hi)
      exact ⟨b', by simpa only [seqLikeWith] using hb', by simp only [room]; omega⟩
    | tupleStruct =>
      simp only [seqSpec, isUnknownVariant, Bool.false_eq_true, if_false, e3, if_true] at hi
      obtain ⟨b', hb', hroom⟩ := record_completeH hg hpt1 hptskel (hpt sfs ht.1) (by omega) (by simpa using hi)
      exact ⟨b', by simpa only [seqLikeWith] using hb', by simp only [room]; omega⟩
  | null p len =>
    have hsh := hg.shape
    simp only [Shape] at hsh
    obtain ⟨rfl, hu⟩ := hsh
    simp [seqSpec, hu, fail] at hi
  | unknownVariant p =>
    have hsh := hg.shape
    simp only [Shape] at hsh
    obtain ⟨rfl, hu⟩ := hsh
    simp [seqSpec, hu, fail] at hi
  | leaf p kd v vals =>
    have hsh := hg.shape
    simp only [Shape] at hsh
    have hk := hsh.1
    cases dt <;> simp [kindOf] at hk <;> simp [seqSpec, isUnknownVariant, fail] at hi
  | map p mm v offs ks vs =>
    have hsh := hg.shape
    simp only [Shape] at hsh
    obtain ⟨_, ename, kn, kdt, knl, kmd, vn, vdt, vnl, vmd, rest, en, emd, sorted, rfl, _, _⟩ := hsh
    simp [seqSpec, isUnknownVariant, fail] at hi
  | dictionary p idx vals index =>
    have hsh := hg.shape
    simp only [Shape] at hsh
    obtain ⟨⟨kdt, vdt, rfl, hsv⟩, _⟩ := hsh
    simp [seqSpec, isUnknownVariant, fail] at hi
  | union p fs types offs cur =>
    have hsh := hg.shape
    simp only [Shape] at hsh
    obtain ⟨ufs, mode, rfl, _⟩ := hsh
    simp [seqSpec, isUnknownVariant, fail] at hi

/-! ### union rows -/

theorem union_row_completeH {p fs types offs cur} {i : Nat} {pc : B → R B} {ufs : UFields} {mode : UnionMode} {n : Bool}
    {md : Metadata} {cost : Nat} {tid : Int} {nm : String} {cdt : DataType} {cn : Bool} {cmd : Metadata}
    (hg : GoodH (.union p fs types offs cur) (.union ufs mode) n md)
    (hufs : ufs.toList[i]? = some (tid, .mk nm cdt cn cmd))
    (hcap : 1 ≤ curRoom cur)
    (hpc : ∀ c, GoodH c cdt cn cmd → roomL fs ≤ room c → ∃ c', pc c = .ok c' ∧ room c ≤ room c' + cost) :
    ∃ b', (do
      let (c, types', offs', cur') ← serializeVariant fs types offs cur i
      let c' ← pc c
      pure (.union p (fs.set i c') types' offs' cur') : R B) = .ok b' ∧
        min (curRoom cur) (roomL fs) ≤ room b' + max cost 1 := by
  have hw := hg.wf
  simp only [WFH] at hw
  have hsafe := hg.nd
  simp only [NoDictKey] at hsafe
  have hsh := hg.shape
  simp only [Shape] at hsh
  obtain ⟨ufs', mode', he, hsu⟩ := hsh
  cases he
  have ht := hg.tot
  simp only [total, Bool.and_eq_true, decide_eq_true_eq] at ht
  obtain ⟨c, m, hget, hshc⟩ := ShapeU.get' fs ufs 0 i tid nm cdt cn cmd hsu hufs
  obtain ⟨hcur, hwc⟩ := WFHU_get fs cur i _ hw.2.2.1 hget
  have hi127 : ¬ (i > 127) := by
    have : i < ufs.toList.length := by
      rcases Nat.lt_or_ge i ufs.toList.length with h | h
      · exact h
      · rw [List.getElem?_eq_none_iff.mpr h] at hufs; cases hufs
    rw [UFields.length_toList] at this
    omega
  have hgc : GoodH c cdt cn cmd := ⟨hwc, NoDictKeyL.get _ _ _ hsafe hget, hshc, totalUs_get ufs i tid _ ht.2 hufs⟩
  obtain ⟨c', hpc', hroom⟩ := hpc c hgc (roomL_get fs i c m hget)
  refine ⟨.union p (fs.set i c') (types ++ [(i : Int)]) (offs ++ [((dec c).length : Int)]) (cur.set i (((dec c).length : Int) + 1)), ?_, ?_⟩
  · refine (bind_ok _ _ _).2 ⟨(c, types ++ [(i : Int)], offs ++ [((dec c).length : Int)], cur.set i (((dec c).length : Int) + 1)), ?_,
      (bind_ok _ _ _).2 ⟨c', hpc', rfl⟩⟩
    simp only [serializeVariant, hget, hcur, hi127, curRoom_pos_get hcur hcap, if_false]
  · simp only [room]
    have h1 := roomL_set fs i c c' m cost hget hroom
    have h2 := curRoom_set cur i _ hcur
    exact min_le_min_max h1 h2

end SaModel.Build
