import SaModel.Lemmas.C01ObsContA
/-
C01 "hidden rows" — step lemmas of the container families with the children abstract (the observable counterparts of
Lemmas/C01Cont.lean and Lemmas/C01Struct.lean): the child moved from `el` to `el'` with
`Refines (decH el') (decH el ++ t)`, the container's own bookkeeping moved accordingly — then the container satisfies
`WFH` again and its observable rows refine the old ones plus exactly the expected additional rows.
-/
namespace SaModel.Build
open SaModel SaModel.Spec

/-! ### list / large list -/

theorem list_stepH {p : String} {large : Bool} {fm : FieldMeta} {v : Validity} {offs : List Int} {el el' : B}
    (hwf : WFH (.list p large fm v offs el)) (b : Bool) (ls : List LVal) (hel : WFH el')
    (hdec : Refines (decH el') (decH el ++ ls.map some)) :
    WFH (.list p large fm (v.map (· ++ [b])) (offs ++ [((dec el).length : Int) + ls.length]) el') ∧
    Refines (decH (.list p large fm (v.map (· ++ [b])) (offs ++ [((dec el).length : Int) + ls.length]) el'))
      (decH (.list p large fm v offs el) ++ [some (rowOf v b (.list (LVals.ofList ls)))]) := by
  simp only [WFH] at hwf
  obtain ⟨hoffs, hv, _⟩ := hwf
  have hpos := hoffs.length_pos
  have e : ((dec el).length : Int) + ls.length = (((dec el).length + ls.length : Nat) : Int) := by simp
  have hlen : (dec el').length = (dec el).length + ls.length := by
    rw [← decH_length, hdec.length, List.length_append, decH_length, List.length_map]
  refine ⟨?_, ?_⟩
  · simp only [WFH, List.length_append, List.length_singleton, hlen]
    refine ⟨?_, ?_, hel⟩
    · rw [e]; exact hoffs.snoc ls.length
    · have := hv.snoc b
      have e2 : offs.length + 1 - 1 = offs.length - 1 + 1 := by omega
      rw [e2]; exact this
  · simp only [decH]
    refine Refines.trans (maskNullH_refines _ (listRowsH_refines _ hdec)) (Refines.of_eq ?_)
    unfold listRowsH
    rw [pairs_snoc hoffs.2.1, List.map_append, List.map_cons, List.map_nil]
    rw [map_pairs_stable hoffs (decH el) (ls.map some) (decH_length el)
      (fun l => (allSome l).map fun xs => LVal.list (LVals.ofList xs))]
    rw [e, sliceL_append_right (decH el) (ls.map some) _ _ (decH_length el) (by simp)]
    rw [allSome_map_some, Option.map_some]
    rw [maskNullH_append (by simpa [pairs_length] using hv), maskNullH_const_one]

/-! ### fixed-size list -/

theorem fsl_appendH {p : String} {fm : FieldMeta} {n len : Nat} {v : Validity} {cur : Nat} {el el' : B}
    (hwf : WFH (.fixedSizeList p fm n len v cur el)) (bs : List Bool) (t : H) (cur' : Nat)
    (hel : WFH el') (hdec : Refines (decH el') (decH el ++ t)) (hls : t.length = bs.length * n) :
    WFH (.fixedSizeList p fm n (len + bs.length) (v.map (· ++ bs)) cur' el') ∧
    Refines (decH (.fixedSizeList p fm n (len + bs.length) (v.map (· ++ bs)) cur' el'))
      (decH (.fixedSizeList p fm n len v cur el) ++ maskNullH (v.map fun _ => bs) (fslRowsH n bs.length t)) := by
  simp only [WFH] at hwf
  obtain ⟨hv, hlen, _⟩ := hwf
  have hlen' : (dec el').length = (dec el).length + t.length := by
    rw [← decH_length, hdec.length, List.length_append, decH_length]
  have hl : (decH el).length = len * n := by rw [decH_length]; exact hlen
  refine ⟨?_, ?_⟩
  · simp only [WFH, hlen']
    exact ⟨hv.map_append bs, by rw [hlen, hls, Nat.add_mul], hel⟩
  · simp only [decH]
    refine Refines.trans (maskNullH_refines _ (fslRowsH_refines _ _ hdec)) (Refines.of_eq ?_)
    have : fslRowsH n (len + bs.length) (decH el ++ t) = fslRowsH n len (decH el) ++ fslRowsH n bs.length t := by
      unfold fslRowsH
      rw [List.range_add, List.map_append, List.map_map]
      rw [range_map_stable (decH el) t n len hl (fun l => (allSome l).map fun xs => LVal.list (LVals.ofList xs))]
      congr 1
      apply List.map_congr_left
      intro i _
      simp only [Function.comp]
      have : (len + i) * n = (decH el).length + i * n := by rw [Nat.add_mul, hl]
      rw [this, List.drop_append, List.drop_eq_nil_of_le (by omega)]
      simp
    rw [this, maskNullH_append (by simpa [fslRowsH] using hv)]

theorem fsl_stepH {p : String} {fm : FieldMeta} {n len : Nat} {v : Validity} {cur : Nat} {el el' : B}
    (hwf : WFH (.fixedSizeList p fm n len v cur el)) (b : Bool) (ls : List LVal) (cur' : Nat)
    (hel : WFH el') (hdec : Refines (decH el') (decH el ++ ls.map some)) (hls : ls.length = n) :
    WFH (.fixedSizeList p fm n (len + 1) (v.map (· ++ [b])) cur' el') ∧
    Refines (decH (.fixedSizeList p fm n (len + 1) (v.map (· ++ [b])) cur' el'))
      (decH (.fixedSizeList p fm n len v cur el) ++ [some (rowOf v b (.list (LVals.ofList ls)))]) := by
  subst hls
  have := fsl_appendH hwf [b] (ls.map some) cur' hel hdec (by simp)
  have e : fslRowsH ls.length [b].length (ls.map some) = [some (.list (LVals.ofList ls))] := by
    simp only [fslRowsH, List.length_singleton, List.range_one, List.map_cons, List.map_nil, Nat.zero_mul, List.drop_zero]
    rw [← List.length_map (f := some) (as := ls), List.take_length, allSome_map_some]; rfl
  rw [e, maskNullH_const_one] at this
  exact this

/-! ### map -/

theorem map_stepH {p : String} {mm : MapMeta} {v : Validity} {offs : List Int} {ks vs ks' vs' : B}
    (hwf : WFH (.map p mm v offs ks vs)) (b : Bool) (lk lw : List LVal) (hks : WFH ks') (hvs : WFH vs')
    (hdk : Refines (decH ks') (decH ks ++ lk.map some)) (hdv : Refines (decH vs') (decH vs ++ lw.map some))
    (hl : lw.length = lk.length) :
    WFH (.map p mm (v.map (· ++ [b])) (offs ++ [((dec ks).length : Int) + lk.length]) ks' vs') ∧
    Refines (decH (.map p mm (v.map (· ++ [b])) (offs ++ [((dec ks).length : Int) + lk.length]) ks' vs'))
      (decH (.map p mm v offs ks vs) ++ [some (rowOf v b (.map (LEntries.ofList (lk.zip lw))))]) := by
  simp only [WFH] at hwf
  obtain ⟨hoffs, hvk, hv, _, _⟩ := hwf
  have hpos := hoffs.length_pos
  have e : ((dec ks).length : Int) + lk.length = (((dec ks).length + lk.length : Nat) : Int) := by simp
  have hlk : (dec ks').length = (dec ks).length + lk.length := by
    rw [← decH_length, hdk.length, List.length_append, decH_length, List.length_map]
  have hlv : (dec vs').length = (dec vs).length + lw.length := by
    rw [← decH_length, hdv.length, List.length_append, decH_length, List.length_map]
  have hvk' : (decH vs).length = (dec ks).length := by rw [decH_length]; exact hvk
  refine ⟨?_, ?_⟩
  · simp only [WFH, List.length_append, List.length_singleton, hlk, hlv]
    refine ⟨?_, by omega, ?_, hks, hvs⟩
    · rw [e]; exact hoffs.snoc lk.length
    · have := hv.snoc b
      have e2 : offs.length + 1 - 1 = offs.length - 1 + 1 := by omega
      rw [e2]; exact this
  · simp only [decH]
    refine Refines.trans (maskNullH_refines _ (mapRowsH_refines _ hdk hdv)) (Refines.of_eq ?_)
    unfold mapRowsH
    rw [pairs_snoc hoffs.2.1, List.map_append, List.map_cons, List.map_nil]
    have hst : (pairs offs).map (fun se => mapRowH (allSome (sliceL (decH ks ++ lk.map some) se.1 se.2))
          (allSome (sliceL (decH vs ++ lw.map some) se.1 se.2))) =
        (pairs offs).map (fun se => mapRowH (allSome (sliceL (decH ks) se.1 se.2)) (allSome (sliceL (decH vs) se.1 se.2))) := by
      apply List.map_congr_left
      intro se hse
      have := hoffs.le se.2 (mem_pairs hse).2
      have hkl := decH_length ks
      rw [sliceL_append_left _ _ _ _ (by omega), sliceL_append_left _ _ _ _ (by omega)]
    rw [hst]
    rw [e, sliceL_append_right (decH ks) (lk.map some) _ _ (decH_length ks) (by simp)]
    have : sliceL (decH vs ++ lw.map some) ((dec ks).length : Int) (((dec ks).length + lk.length : Nat) : Int) = lw.map some :=
      sliceL_append_right (decH vs) (lw.map some) _ _ hvk' (by simp [hl])
    rw [this, allSome_map_some, allSome_map_some]
    simp only [mapRowH]
    rw [maskNullH_append (by simpa [pairs_length] using hv), maskNullH_const_one]

/-! ### dictionary -/

theorem decH_dictionary (p : String) (idx vals : B) (index : List String) :
    decH (.dictionary p idx vals index) = (decH idx).map (dictRowH (decH vals)) := by
  simp only [decH]

/-- a dictionary: the keys grew by the observable rows `lk`, the values by the determined rows `lw`, the index by as
many entries as the values; the caller shows the key clause `KeysH` of the new state -/
theorem dict_appendH {p : String} {idx vals idx' vals' : B} {index : List String}
    (hwf : WFH (.dictionary p idx vals index)) (lk : H) (lw : List LVal) (index' : List String)
    (hi : WFH idx') (hv : WFH vals')
    (hdi : Refines (decH idx') (decH idx ++ lk)) (hdv : Refines (decH vals') (decH vals ++ lw.map some))
    (hnd : (index ++ index').Nodup) (hlen : index'.length = lw.length)
    (hkeys : KeysH idx' (index ++ index'))
    (hvals : DictVals vals' (index ++ index')) :
    WFH (.dictionary p idx' vals' (index ++ index')) ∧
    Refines (decH (.dictionary p idx' vals' (index ++ index')))
      (decH (.dictionary p idx vals index) ++ lk.map (dictRowH (decH vals ++ lw.map some))) := by
  simp only [WFH] at hwf
  obtain ⟨_, _, _, hvl, _, _, hall⟩ := hwf
  have hlv : (dec vals').length = (dec vals).length + lw.length := by
    rw [← decH_length, hdv.length, List.length_append, decH_length, List.length_map]
  refine ⟨?_, ?_⟩
  · simp only [WFH, List.length_append]
    refine ⟨hi, hv, hnd, by omega, hkeys, hvals, hdv.all_some ?_⟩
    intro r hr
    rcases List.mem_append.1 hr with h | h
    · exact hall r h
    · obtain ⟨x, _, rfl⟩ := List.mem_map.1 h; rfl
  · rw [decH_dictionary, decH_dictionary]
    refine Refines.trans (dictRowsH_refines hdi hdv) ?_
    rw [List.map_append]
    exact Refines.append (dictRowH_append_refines _ _ _) (Refines.refl _)

theorem DictVals.of_wfh {p : String} {idx vals : B} {index : List String} (h : WFH (.dictionary p idx vals index)) :
    DictVals vals index := by
  simp only [WFH] at h; exact h.2.2.2.2.2.1

/-! ### struct -/

theorem decH_struct (p : String) (len : Nat) (v : Validity) (fs : BL) (cached next seen) :
    decH (.struct p len v fs cached next seen) = maskNullH v (structRowsH len (decHCols fs)) := by
  simp only [decH]

theorem ExtLH.refl : ∀ (fs : BL) (len : Nat), WFHL fs len → ExtLH fs fs (List.replicate fs.length [])
  | .nil, _, _ => by simp [ExtLH, BL.length]
  | .cons b m r, len, h => by
    simp only [WFHL] at h
    simp only [BL.length, List.replicate_succ, ExtLH, List.append_nil, true_and]
    exact ⟨h.1, Refines.refl _, ExtLH.refl r len h.2.2⟩

theorem ExtLH.names : ∀ (fs0 fs : BL) (adds : List H), ExtLH fs0 fs adds → fs.names = fs0.names
  | .nil, .nil, [], _ => rfl
  | .cons b0 m0 r0, .cons b m r, a :: as, h => by
    simp only [ExtLH] at h
    simp [BL.names, h.1, ExtLH.names r0 r as h.2.2.2]
  | .nil, .cons _ _ _, _, h => by simp [ExtLH] at h
  | .cons _ _ _, .nil, _, h => by simp [ExtLH] at h
  | .nil, .nil, _ :: _, h => by simp [ExtLH] at h
  | .cons _ _ _, .cons _ _ _, [], h => by simp [ExtLH] at h

theorem ExtLH.length : ∀ (fs0 fs : BL) (adds : List H), ExtLH fs0 fs adds →
    fs.length = fs0.length ∧ adds.length = fs0.length
  | .nil, .nil, [], _ => ⟨rfl, rfl⟩
  | .cons b0 m0 r0, .cons b m r, a :: as, h => by
    simp only [ExtLH] at h
    have := ExtLH.length r0 r as h.2.2.2
    simp [BL.length, this.1, this.2]
  | .nil, .cons _ _ _, _, h => by simp [ExtLH] at h
  | .cons _ _ _, .nil, _, h => by simp [ExtLH] at h
  | .nil, .nil, _ :: _, h => by simp [ExtLH] at h
  | .cons _ _ _, .cons _ _ _, [], h => by simp [ExtLH] at h

theorem ExtLH.get : ∀ (fs0 fs : BL) (adds : List H) (i : Nat) (x : B × FieldMeta), ExtLH fs0 fs adds →
    fs.get? i = some x → WFH x.1
  | .cons b0 m0 r0, .cons b m r, a :: as, 0, x, h, hg => by
    simp only [ExtLH] at h
    simp [BL.get?] at hg; subst hg; exact h.2.1
  | .cons b0 m0 r0, .cons b m r, a :: as, i + 1, x, h, hg => by
    simp only [ExtLH] at h
    simp only [BL.get?] at hg
    exact ExtLH.get r0 r as i x h.2.2.2 hg
  | .nil, .nil, [], _, _, _, hg => by simp [BL.get?] at hg
  | .nil, .cons _ _ _, _, _, _, h, _ => by simp [ExtLH] at h
  | .cons _ _ _, .nil, _, _, _, h, _ => by simp [ExtLH] at h
  | .nil, .nil, _ :: _, _, _, h, _ => by simp [ExtLH] at h
  | .cons _ _ _, .cons _ _ _, [], _, _, h, _ => by simp [ExtLH] at h

/-- one child moves on -/
theorem ExtLH.set : ∀ (fs0 fs : BL) (adds : List H) (i : Nat) (c c' : B) (m : FieldMeta) (t : H),
    ExtLH fs0 fs adds → fs.get? i = some (c, m) → WFH c' → Refines (decH c') (decH c ++ t) →
    ExtLH fs0 (fs.set i c') (adds.set i (adds.getD i [] ++ t))
  | .cons b0 m0 r0, .cons b m r, a :: as, 0, c, c', m', t, h, hg, hc, hd => by
    simp only [ExtLH] at h
    simp [BL.get?] at hg; obtain ⟨rfl, rfl⟩ := hg
    simp only [BL.set, List.set_cons_zero, ExtLH, List.getD_cons_zero]
    exact ⟨h.1, hc, Refines.extend h.2.2.1 hd, h.2.2.2⟩
  | .cons b0 m0 r0, .cons b m r, a :: as, i + 1, c, c', m', t, h, hg, hc, hd => by
    simp only [ExtLH] at h
    simp only [BL.get?] at hg
    simp only [BL.set, List.set_cons_succ, ExtLH, List.getD_cons_succ]
    exact ⟨h.1, h.2.1, h.2.2.1, ExtLH.set r0 r as i c c' m' t h.2.2.2 hg hc hd⟩
  | .nil, .nil, [], _, _, _, _, _, _, hg, _, _ => by simp [BL.get?] at hg
  | .nil, .cons _ _ _, _, _, _, _, _, _, h, _, _, _ => by simp [ExtLH] at h
  | .cons _ _ _, .nil, _, _, _, _, _, _, h, _, _, _ => by simp [ExtLH] at h
  | .nil, .nil, _ :: _, _, _, _, _, _, h, _, _, _ => by simp [ExtLH] at h
  | .cons _ _ _, .cons _ _ _, [], _, _, _, _, _, h, _, _, _ => by simp [ExtLH] at h

theorem ExtLH.wfl : ∀ (fs0 fs : BL) (adds : List H) (len k : Nat), WFHL fs0 len → ExtLH fs0 fs adds →
    (∀ a ∈ adds, a.length = k) → WFHL fs (len + k)
  | .nil, .nil, [], _, _, _, _, _ => by simp [WFHL]
  | .cons b0 m0 r0, .cons b m r, a :: as, len, k, hw, h, hk => by
    simp only [ExtLH] at h
    simp only [WFHL] at hw ⊢
    refine ⟨h.2.1, ?_, ExtLH.wfl r0 r as len k hw.2.2 h.2.2.2 (fun a' ha' => hk a' (by simp [ha']))⟩
    rw [← decH_length, h.2.2.1.length, List.length_append, decH_length, hw.2.1, hk a (by simp)]
  | .nil, .cons _ _ _, _, _, _, _, h, _ => by simp [ExtLH] at h
  | .cons _ _ _, .nil, _, _, _, _, h, _ => by simp [ExtLH] at h
  | .nil, .nil, _ :: _, _, _, _, h, _ => by simp [ExtLH] at h
  | .cons _ _ _, .cons _ _ _, [], _, _, _, h, _ => by simp [ExtLH] at h

/-- the fields of row `i`, each determined or not -/
def fieldsAtH (cols : List (String × H)) (i : Nat) : List (Option (String × LVal)) :=
  cols.map fun c => (c.2.getD i (some .null)).map fun x => (c.1, x)

theorem rowAtH_eq (cols : List (String × H)) (i : Nat) :
    rowAtH cols i = (allSome (fieldsAtH cols i)).map fun fl => LVal.struct (LFields.ofList fl) := rfl

/-- a determined old row of the struct stays -/
theorem ExtLH.row_old : ∀ (fs0 fs : BL) (adds : List H) (len i : Nat), WFHL fs0 len → ExtLH fs0 fs adds → i < len →
    ∀ fl, allSome (fieldsAtH (decHCols fs0) i) = some fl → allSome (fieldsAtH (decHCols fs) i) = some fl
  | .nil, .nil, [], _, _, _, _, _, _, h => h
  | .cons b0 m0 r0, .cons b m r, a :: as, len, i, hw, h, hi, fl, hfl => by
    simp only [ExtLH] at h
    simp only [WFHL] at hw
    simp only [decHCols, fieldsAtH, List.map_cons] at hfl ⊢
    rw [allSome_cons_eq_some] at hfl ⊢
    obtain ⟨x, fl', hx, hr, rfl⟩ := hfl
    refine ⟨x, fl', ?_, ExtLH.row_old r0 r as len i hw.2.2 h.2.2.2 hi fl' hr, rfl⟩
    obtain ⟨z, hz, rfl⟩ := Option.map_eq_some_iff.1 hx
    have hlt : i < (decH b0).length := by rw [decH_length, hw.2.1]; exact hi
    have h1 := getElem?_of_getD_some hlt hz
    have h2 := h.2.2.1.2 i z (by rw [List.getElem?_append_left hlt]; exact h1)
    rw [getDH_of_getElem? _ h2, h.1]; rfl
  | .nil, .cons _ _ _, _, _, _, _, h, _, _, _ => by simp [ExtLH] at h
  | .cons _ _ _, .nil, _, _, _, _, h, _, _, _ => by simp [ExtLH] at h
  | .nil, .nil, _ :: _, _, _, _, h, _, _, _ => by simp [ExtLH] at h
  | .cons _ _ _, .cons _ _ _, [], _, _, _, h, _, _, _ => by simp [ExtLH] at h

/-- a determined additional row shows in the struct -/
theorem ExtLH.row_new : ∀ (fs0 fs : BL) (adds : List H) (len i : Nat), WFHL fs0 len → ExtLH fs0 fs adds →
    (∀ a ∈ adds, i < a.length) →
    ∀ fl, allSome (fieldsAtH (fs0.names.zip adds) i) = some fl → allSome (fieldsAtH (decHCols fs) (len + i)) = some fl
  | .nil, .nil, [], _, _, _, _, _, _, h => h
  | .cons b0 m0 r0, .cons b m r, a :: as, len, i, hw, h, hi, fl, hfl => by
    simp only [ExtLH] at h
    simp only [WFHL] at hw
    simp only [decHCols, fieldsAtH, List.map_cons, BL.names, List.zip_cons_cons] at hfl ⊢
    rw [allSome_cons_eq_some] at hfl ⊢
    obtain ⟨x, fl', hx, hr, rfl⟩ := hfl
    refine ⟨x, fl', ?_,
      ExtLH.row_new r0 r as len i hw.2.2 h.2.2.2 (fun a' ha' => hi a' (by simp [ha'])) fl' hr, rfl⟩
    obtain ⟨z, hz, rfl⟩ := Option.map_eq_some_iff.1 hx
    have hlt : i < a.length := hi a (by simp)
    have hl0 : (decH b0).length = len := by rw [decH_length, hw.2.1]
    have h1 := getElem?_of_getD_some hlt hz
    have h2 := h.2.2.1.2 (len + i) z (by
      rw [List.getElem?_append_right (by omega), hl0, Nat.add_sub_cancel_left]; exact h1)
    rw [getDH_of_getElem? _ h2, h.1]; rfl
  | .nil, .cons _ _ _, _, _, _, _, h, _, _, _ => by simp [ExtLH] at h
  | .cons _ _ _, .nil, _, _, _, _, h, _, _, _ => by simp [ExtLH] at h
  | .nil, .nil, _ :: _, _, _, _, h, _, _, _ => by simp [ExtLH] at h
  | .cons _ _ _, .cons _ _ _, [], _, _, _, h, _, _, _ => by simp [ExtLH] at h

/-- `k` more rows in a struct all of whose children grew by `k` observable rows -/
theorem struct_appendH {p : String} {len : Nat} {v : Validity} {fs0 fs : BL} {cached cached' : List (Option (String × Nat))}
    {next next' : Nat} {seen seen' : List Bool} (hwf : WFH (.struct p len v fs0 cached next seen))
    (adds : List H) (bs : List Bool) (hext : ExtLH fs0 fs adds) (hk : ∀ a ∈ adds, a.length = bs.length)
    (hc : CacheInv fs.names cached') (hs : seen'.length = fs.length) :
    WFH (.struct p (len + bs.length) (v.map (· ++ bs)) fs cached' next' seen') ∧
    Refines (decH (.struct p (len + bs.length) (v.map (· ++ bs)) fs cached' next' seen'))
      (decH (.struct p len v fs0 cached next seen) ++
        maskNullH (v.map fun _ => bs) (structRowsH bs.length (fs0.names.zip adds))) := by
  simp only [WFH] at hwf
  obtain ⟨hv, hwfl, _, hnd, _⟩ := hwf
  refine ⟨?_, ?_⟩
  · simp only [WFH]
    exact ⟨hv.map_append bs, ExtLH.wfl fs0 fs adds len _ hwfl hext hk, hs,
      by rw [ExtLH.names fs0 fs adds hext]; exact hnd, hc⟩
  · rw [decH_struct, decH_struct]
    rw [← maskNullH_append (by simpa [structRowsH] using hv)]
    apply maskNullH_refines
    unfold structRowsH
    rw [List.range_add, List.map_append, List.map_map]
    apply Refines.append
    · apply refines_map
      intro i hi y hy
      rw [rowAtH_eq] at hy ⊢
      obtain ⟨fl, hfl, rfl⟩ := Option.map_eq_some_iff.1 hy
      rw [ExtLH.row_old fs0 fs adds len i hwfl hext (List.mem_range.1 hi) fl hfl]; rfl
    · apply refines_map
      intro i hi y hy
      simp only [Function.comp]
      rw [rowAtH_eq] at hy ⊢
      obtain ⟨fl, hfl, rfl⟩ := Option.map_eq_some_iff.1 hy
      rw [ExtLH.row_new fs0 fs adds len i hwfl hext
        (fun a ha => by rw [hk a ha]; exact List.mem_range.1 hi) fl hfl]; rfl

/-- a row all of whose fields are determined -/
theorem rowAtH_some (names : List String) (adds : List (List LVal)) (i : Nat) :
    rowAtH (names.zip (adds.map (·.map some))) i = some (rowAt (names.zip adds) i) := by
  have : ∀ (names : List String) (adds : List (List LVal)),
      fieldsAtH (names.zip (adds.map (·.map some))) i =
        ((names.zip adds).map fun c => (c.1, c.2.getD i LVal.null)).map some := by
    intro names
    induction names with
    | nil => intro adds; simp [fieldsAtH]
    | cons nm names ih =>
      intro adds
      cases adds with
      | nil => simp [fieldsAtH]
      | cons a as =>
        have := ih as
        simp only [fieldsAtH, List.map_cons, List.zip_cons_cons] at this ⊢
        rw [this]
        congr 1
        simp only [List.getD_eq_getElem?_getD, List.getElem?_map]
        cases a[i]? <;> rfl
  rw [rowAtH_eq, this, allSome_map_some]; rfl

/-! ### union -/

theorem decH_union (p : String) (fs : BL) (types offs cur : List Int) :
    decH (.union p fs types offs cur) = List.zipWith (unionRowH (decHCols fs)) types offs := by
  simp only [decH]

theorem WFHU_get : ∀ (fs : BL) (cur : List Int) (i : Nat) (x : B × FieldMeta), WFHU fs cur → fs.get? i = some x →
    cur[i]? = some ((dec x.1).length : Int) ∧ WFH x.1
  | .nil, _, _, _, _, h => by simp [BL.get?] at h
  | .cons b m r, cur, 0, x, hw, h => by
    simp [BL.get?] at h; subst h
    simp only [WFHU] at hw
    cases cur with
    | nil => simp at hw
    | cons a t => simp at hw ⊢; exact ⟨hw.2.1, hw.1⟩
  | .cons b m r, cur, i + 1, x, hw, h => by
    simp only [BL.get?] at h
    simp only [WFHU] at hw
    cases cur with
    | nil => simp at hw
    | cons a t => simpa using WFHU_get r t i x hw.2.2 h

theorem WFHU_set : ∀ (fs : BL) (cur : List Int) (i : Nat) (c' : B), WFHU fs cur → WFH c' → i < fs.length →
    WFHU (fs.set i c') (cur.set i ((dec c').length : Int))
  | .nil, _, _, _, _, _, h => by simp [BL.length] at h
  | .cons b m r, cur, 0, c', hw, hc, _ => by
    simp only [WFHU] at hw
    cases cur with
    | nil => simp at hw
    | cons a t => simp only [BL.set, WFHU, List.set_cons_zero, List.head?_cons, List.tail_cons]; exact ⟨hc, trivial, hw.2.2⟩
  | .cons b m r, cur, i + 1, c', hw, hc, h => by
    simp only [WFHU] at hw
    cases cur with
    | nil => simp at hw
    | cons a t =>
      simp only [BL.set, WFHU, List.set_cons_succ, List.head?_cons, List.tail_cons] at hw ⊢
      exact ⟨hw.1, hw.2.1, WFHU_set r t i c' hw.2.2 hc (by simp [BL.length] at h; omega)⟩

/-- `k` rows of variant `i`: the variant's child grew by the observable rows `t`, type ids / dense offsets / counter
accordingly -/
theorem union_appendH {p : String} {fs : BL} {types offs cur : List Int} (hwf : WFH (.union p fs types offs cur))
    (i : Nat) (c c' : B) (m : FieldMeta) (hget : fs.get? i = some (c, m)) (t : H)
    (hc : WFH c') (hdec : Refines (decH c') (decH c ++ t)) :
    WFH (.union p (fs.set i c') (types ++ List.replicate t.length (i : Int))
      (offs ++ (List.range t.length).map (fun (r : Nat) => ((dec c).length : Int) + (r : Int)))
      (cur.set i (((dec c).length : Int) + t.length))) ∧
    Refines (decH (.union p (fs.set i c') (types ++ List.replicate t.length (i : Int))
      (offs ++ (List.range t.length).map (fun (r : Nat) => ((dec c).length : Int) + (r : Int)))
      (cur.set i (((dec c).length : Int) + t.length))))
      (decH (.union p fs types offs cur) ++ t.map (fun r => r.map (LVal.union (i : Int)))) := by
  simp only [WFH] at hwf
  obtain ⟨htl, hcl, hwu, hz⟩ := hwf
  have hilt := BL.get?_lt fs i _ hget
  have hget' : (fs.set i c').get? i = some (c', m) := BL.get?_set_eq fs i c' _ hget
  have hcol' : colAtH (fs.set i c') i = decH c' := colAtH_get _ _ _ hget'
  have hlen' : (dec c').length = (dec c).length + t.length := by
    rw [← decH_length, hdec.length, List.length_append, decH_length]
  have hzl : (List.replicate t.length (i : Int)).length =
      ((List.range t.length).map (fun (r : Nat) => ((dec c).length : Int) + (r : Int))).length := by simp
  refine ⟨?_, ?_⟩
  · simp only [WFH]
    refine ⟨by simp [htl], by simp [hcl, BL.length_set], ?_, ?_⟩
    · have := WFHU_set fs cur i c' hwu hc hilt
      rw [hlen'] at this
      simpa using this
    · intro to hto
      rw [List.zip_append htl] at hto
      rcases List.mem_append.1 hto with h | h
      · obtain ⟨h1, h2, x, hx, hlt⟩ := hz to h
        refine ⟨h1, h2, ?_⟩
        by_cases hi : i = to.1.toNat
        · subst hi
          rw [hx] at hget; cases hget
          refine ⟨(c', m), hget', ?_⟩
          have hlt' : to.2.toNat < (dec c).length := hlt
          simp [hlen']; omega
        · exact ⟨x, by rw [BL.get?_set_ne _ _ _ _ hi]; exact hx, hlt⟩
      · obtain ⟨ty, o⟩ := to
        have hm := List.of_mem_zip h
        have ht : ty = (i : Int) := by simpa using (List.mem_replicate.1 hm.1).2
        obtain ⟨r, hr, ho⟩ := List.mem_map.1 hm.2
        have hr := List.mem_range.1 hr
        subst ht ho
        refine ⟨Int.natCast_nonneg _, by show (0 : Int) ≤ ((dec c).length : Int) + (r : Int); omega,
          (c', m), by simpa using hget', ?_⟩
        show (((dec c).length : Int) + (r : Int)).toNat < (dec c').length
        simp [hlen']; omega
  · rw [decH_union, decH_union, List.zipWith_append htl]
    apply Refines.append
    · -- old rows keep their meaning when they were determined
      apply refines_zipWith
      intro to hto y hy
      obtain ⟨_, _, x, hx, hlt⟩ := hz to hto
      rw [unionRowH_eq] at hy ⊢
      by_cases hi : i = to.1.toNat
      · subst hi
        rw [hx] at hget; cases hget
        rw [colAtH_get _ _ _ hx] at hy
        rw [hcol']
        obtain ⟨z, hz', rfl⟩ := Option.map_eq_some_iff.1 hy
        have hlt' : to.2.toNat < (decH c).length := by rw [decH_length]; exact hlt
        have h1 := getElem?_of_getD_some hlt' hz'
        have h2 := hdec.2 to.2.toNat z (by rw [List.getElem?_append_left hlt']; exact h1)
        rw [getDH_of_getElem? _ h2]; rfl
      · rw [colAtH_set_ne _ _ _ _ hi]; exact hy
    · -- the new rows
      have e : (List.replicate t.length (i : Int)) =
          List.replicate ((List.range t.length).map (fun (r : Nat) => ((dec c).length : Int) + (r : Int))).length (i : Int) := by
        simp
      rw [e, zipWith_replicate_left, List.map_map,
        ← map_range_getD (fun (r : Option LVal) => r.map (LVal.union (i : Int))) none t]
      apply refines_map
      intro r hr y hy
      have hr := List.mem_range.1 hr
      simp only [Function.comp]
      rw [unionRowH_eq, Int.toNat_natCast, hcol']
      obtain ⟨z, hz', rfl⟩ := Option.map_eq_some_iff.1 hy
      have h1 : t[r]? = some (some z) := by
        rw [List.getD_eq_getElem?_getD, List.getElem?_eq_getElem hr] at hz'
        rw [List.getElem?_eq_getElem hr]
        simpa using hz'
      have e2 : (((dec c).length : Int) + (r : Int)).toNat = (decH c).length + r := by rw [decH_length]; omega
      have h2 := hdec.2 ((decH c).length + r) z (by
        rw [List.getElem?_append_right (by omega), Nat.add_sub_cancel_left]; exact h1)
      rw [e2, getDH_of_getElem? _ h2]; rfl

end SaModel.Build
