import SaModel.Lemmas.C01ObsAlg
/-
C01 "hidden rows" — step lemmas of the container families with the children abstract (the observable counterparts of
Lemmas/C01Cont.lean and Lemmas/C01Struct.lean): the child moved from `el` to `el'` with
`Refines (decH el') (decH el ++ t)`, the container's own bookkeeping moved accordingly — then the container satisfies
`WFH` again and its observable rows refine the old ones plus exactly the expected additional rows.
-/
namespace SaModel.Build
open SaModel SaModel.Spec

/-! ### list / large list -/

theorem list_stepH {p : String} {large : Bool} {fm : FieldMeta} {v : Validity} {offs : List Int} {el el' : B}
    (hwf : WFH (.list p large fm v offs el)) (b : Bool) (ls : List LVal) (hel : WFH el')
    (hdec : Refines (decH el') (decH el ++ ls.map some)) :
    WFH (.list p large fm (v.map (· ++ [b])) (offs ++ [((dec el).length : Int) + ls.length]) el') ∧
    Refines (decH (.list p large fm (v.map (· ++ [b])) (offs ++ [((dec el).length : Int) + ls.length]) el'))
      (decH (.list p large fm v offs el) ++ [some (rowOf v b (.list (LVals.ofList ls)))]) := sorry

/-! ### fixed-size list -/

theorem fsl_appendH {p : String} {fm : FieldMeta} {n len : Nat} {v : Validity} {cur : Nat} {el el' : B}
    (hwf : WFH (.fixedSizeList p fm n len v cur el)) (bs : List Bool) (t : H) (cur' : Nat)
    (hel : WFH el') (hdec : Refines (decH el') (decH el ++ t)) (hls : t.length = bs.length * n) :
    WFH (.fixedSizeList p fm n (len + bs.length) (v.map (· ++ bs)) cur' el') ∧
    Refines (decH (.fixedSizeList p fm n (len + bs.length) (v.map (· ++ bs)) cur' el'))
      (decH (.fixedSizeList p fm n len v cur el) ++ maskNullH (v.map fun _ => bs) (fslRowsH n bs.length t)) := sorry

theorem fsl_stepH {p : String} {fm : FieldMeta} {n len : Nat} {v : Validity} {cur : Nat} {el el' : B}
    (hwf : WFH (.fixedSizeList p fm n len v cur el)) (b : Bool) (ls : List LVal) (cur' : Nat)
    (hel : WFH el') (hdec : Refines (decH el') (decH el ++ ls.map some)) (hls : ls.length = n) :
    WFH (.fixedSizeList p fm n (len + 1) (v.map (· ++ [b])) cur' el') ∧
    Refines (decH (.fixedSizeList p fm n (len + 1) (v.map (· ++ [b])) cur' el'))
      (decH (.fixedSizeList p fm n len v cur el) ++ [some (rowOf v b (.list (LVals.ofList ls)))]) := sorry

/-! ### map -/

theorem map_stepH {p : String} {mm : MapMeta} {v : Validity} {offs : List Int} {ks vs ks' vs' : B}
    (hwf : WFH (.map p mm v offs ks vs)) (b : Bool) (lk lw : List LVal) (hks : WFH ks') (hvs : WFH vs')
    (hdk : Refines (decH ks') (decH ks ++ lk.map some)) (hdv : Refines (decH vs') (decH vs ++ lw.map some))
    (hl : lw.length = lk.length) :
    WFH (.map p mm (v.map (· ++ [b])) (offs ++ [((dec ks).length : Int) + lk.length]) ks' vs') ∧
    Refines (decH (.map p mm (v.map (· ++ [b])) (offs ++ [((dec ks).length : Int) + lk.length]) ks' vs'))
      (decH (.map p mm v offs ks vs) ++ [some (rowOf v b (.map (LEntries.ofList (lk.zip lw))))]) := sorry

/-! ### dictionary -/

theorem decH_dictionary (p : String) (idx vals : B) (index : List String) :
    decH (.dictionary p idx vals index) = (decH idx).map (dictRowH (decH vals)) := by
  simp only [decH]

/-- a dictionary: the keys grew by the observable rows `lk`, the values by the determined rows `lw`, the index by as
many entries as the values; the caller shows the key clause `KeysH` of the new state -/
theorem dict_appendH {p : String} {idx vals idx' vals' : B} {index : List String}
    (hwf : WFH (.dictionary p idx vals index)) (lk : H) (lw : List LVal) (index' : List String)
    (hi : WFH idx') (hv : WFH vals')
    (hdi : Refines (decH idx') (decH idx ++ lk)) (hdv : Refines (decH vals') (decH vals ++ lw.map some))
    (hnd : (index ++ index').Nodup) (hlen : index'.length = lw.length)
    (hkeys : KeysH idx' (index ++ index'))
    (hvals : DictVals vals' (index ++ index')) :
    WFH (.dictionary p idx' vals' (index ++ index')) ∧
    Refines (decH (.dictionary p idx' vals' (index ++ index')))
      (decH (.dictionary p idx vals index) ++ lk.map (dictRowH (decH vals ++ lw.map some))) := sorry

theorem DictVals.of_wfh {p : String} {idx vals : B} {index : List String} (h : WFH (.dictionary p idx vals index)) :
    DictVals vals index := by
  simp only [WFH] at h; exact h.2.2.2.2.2.1

/-! ### struct -/

theorem decH_struct (p : String) (len : Nat) (v : Validity) (fs : BL) (cached next seen) :
    decH (.struct p len v fs cached next seen) = maskNullH v (structRowsH len (decHCols fs)) := by
  simp only [decH]

theorem ExtLH.refl : ∀ (fs : BL) (len : Nat), WFHL fs len → ExtLH fs fs (List.replicate fs.length []) := sorry

theorem ExtLH.names : ∀ (fs0 fs : BL) (adds : List H), ExtLH fs0 fs adds → fs.names = fs0.names := sorry

theorem ExtLH.length : ∀ (fs0 fs : BL) (adds : List H), ExtLH fs0 fs adds →
    fs.length = fs0.length ∧ adds.length = fs0.length := sorry

theorem ExtLH.get : ∀ (fs0 fs : BL) (adds : List H) (i : Nat) (x : B × FieldMeta), ExtLH fs0 fs adds →
    fs.get? i = some x → WFH x.1 := sorry

/-- one child moves on -/
theorem ExtLH.set : ∀ (fs0 fs : BL) (adds : List H) (i : Nat) (c c' : B) (m : FieldMeta) (t : H),
    ExtLH fs0 fs adds → fs.get? i = some (c, m) → WFH c' → Refines (decH c') (decH c ++ t) →
    ExtLH fs0 (fs.set i c') (adds.set i (adds.getD i [] ++ t)) := sorry

theorem ExtLH.wfl : ∀ (fs0 fs : BL) (adds : List H) (len k : Nat), WFHL fs0 len → ExtLH fs0 fs adds →
    (∀ a ∈ adds, a.length = k) → WFHL fs (len + k) := sorry

/-- `k` more rows in a struct all of whose children grew by `k` observable rows -/
theorem struct_appendH {p : String} {len : Nat} {v : Validity} {fs0 fs : BL} {cached cached' : List (Option (String × Nat))}
    {next next' : Nat} {seen seen' : List Bool} (hwf : WFH (.struct p len v fs0 cached next seen))
    (adds : List H) (bs : List Bool) (hext : ExtLH fs0 fs adds) (hk : ∀ a ∈ adds, a.length = bs.length)
    (hc : CacheInv fs.names cached') (hs : seen'.length = fs.length) :
    WFH (.struct p (len + bs.length) (v.map (· ++ bs)) fs cached' next' seen') ∧
    Refines (decH (.struct p (len + bs.length) (v.map (· ++ bs)) fs cached' next' seen'))
      (decH (.struct p len v fs0 cached next seen) ++
        maskNullH (v.map fun _ => bs) (structRowsH bs.length (fs0.names.zip adds))) := sorry

/-- a row all of whose fields are determined -/
theorem rowAtH_some (names : List String) (adds : List (List LVal)) (i : Nat) :
    rowAtH (names.zip (adds.map (·.map some))) i = some (rowAt (names.zip adds) i) := sorry

/-! ### union -/

theorem decH_union (p : String) (fs : BL) (types offs cur : List Int) :
    decH (.union p fs types offs cur) = List.zipWith (unionRowH (decHCols fs)) types offs := by
  simp only [decH]

theorem WFHU_get : ∀ (fs : BL) (cur : List Int) (i : Nat) (x : B × FieldMeta), WFHU fs cur → fs.get? i = some x →
    cur[i]? = some ((dec x.1).length : Int) ∧ WFH x.1 := sorry

theorem WFHU_set : ∀ (fs : BL) (cur : List Int) (i : Nat) (c' : B), WFHU fs cur → WFH c' → i < fs.length →
    WFHU (fs.set i c') (cur.set i ((dec c').length : Int)) := sorry

/-- `k` rows of variant `i`: the variant's child grew by the observable rows `t`, type ids / dense offsets / counter
accordingly -/
theorem union_appendH {p : String} {fs : BL} {types offs cur : List Int} (hwf : WFH (.union p fs types offs cur))
    (i : Nat) (c c' : B) (m : FieldMeta) (hget : fs.get? i = some (c, m)) (t : H)
    (hc : WFH c') (hdec : Refines (decH c') (decH c ++ t)) :
    WFH (.union p (fs.set i c') (types ++ List.replicate t.length (i : Int))
      (offs ++ (List.range t.length).map (fun (r : Nat) => ((dec c).length : Int) + (r : Int)))
      (cur.set i (((dec c).length : Int) + t.length))) ∧
    Refines (decH (.union p (fs.set i c') (types ++ List.replicate t.length (i : Int))
      (offs ++ (List.range t.length).map (fun (r : Nat) => ((dec c).length : Int) + (r : Int)))
      (cur.set i (((dec c).length : Int) + t.length))))
      (decH (.union p fs types offs cur) ++ t.map (fun r => r.map (LVal.union (i : Int)))) := sorry

end SaModel.Build
