import SaModel.Lemmas.C01ObsAlg
/-
C01 "hidden rows" — generic helpers of the container step lemmas (Lemmas/C01ObsCont.lean): monotonicity of the pure
row functions `listRowsH` / `fslRowsH` / `mapRowsH` / `dictRowH` in the child rows, pointwise `Refines` of mapped lists.
-/
namespace SaModel.Build
open SaModel SaModel.Spec

/-- two maps of the same list: every determined row of the old map is the row of the new one -/
theorem refines_map {α} (l : List α) (f g : α → Option LVal)
    (h : ∀ a ∈ l, ∀ y, g a = some y → f a = some y) : Refines (l.map f) (l.map g) := by
  refine ⟨by simp, ?_⟩
  intro i x hi
  rw [List.getElem?_map] at hi ⊢
  cases hl : l[i]? with
  | none => simp [hl] at hi
  | some a =>
    rw [hl] at hi
    simp only [Option.map_some] at hi ⊢
    have := h a (List.mem_of_getElem? hl) x (Option.some.inj hi)
    rw [this]

theorem refines_zipWith {α β} (f g : α → β → Option LVal) (l1 : List α) (l2 : List β)
    (h : ∀ p ∈ l1.zip l2, ∀ y, g p.1 p.2 = some y → f p.1 p.2 = some y) :
    Refines (List.zipWith f l1 l2) (List.zipWith g l1 l2) := by
  rw [← List.map_uncurry_zip_eq_zipWith, ← List.map_uncurry_zip_eq_zipWith]
  exact refines_map _ _ _ (fun p hp y hy => h p hp y hy)

theorem Refines.of_eq {a b : H} (h : a = b) : Refines a b := h ▸ Refines.refl a

theorem allSome_cons_eq_some {α} (a : Option α) (r : List (Option α)) (fl : List α) :
    allSome (a :: r) = some fl ↔ ∃ x fl', a = some x ∧ allSome r = some fl' ∧ fl = x :: fl' := by
  cases a with
  | none => simp [allSome]
  | some x =>
    simp only [allSome, Option.map_eq_some_iff]
    constructor
    · rintro ⟨fl', h1, h2⟩; exact ⟨x, fl', rfl, h1, h2.symm⟩
    · rintro ⟨x', fl', h0, h1, h2⟩; cases h0; exact ⟨fl', h1, h2.symm⟩

theorem getElem?_of_getD_some {l : H} {i : Nat} {z : LVal} (hi : i < l.length) (h : l.getD i (some .null) = some z) :
    l[i]? = some (some z) := by
  rw [List.getD_eq_getElem?_getD, List.getElem?_eq_getElem hi] at h
  rw [List.getElem?_eq_getElem hi]
  simpa using h

theorem getDH_of_getElem? {l : H} {i : Nat} {z : LVal} (d : Option LVal) (h : l[i]? = some (some z)) :
    l.getD i d = some z := by
  rw [List.getD_eq_getElem?_getD, h]; rfl

/-- a refinement of fully determined rows is fully determined -/
theorem Refines.all_some {a b : H} (h : Refines a b) (hb : ∀ r ∈ b, r.isSome = true) : ∀ r ∈ a, r.isSome = true := by
  intro r hr
  obtain ⟨i, hi, rfl⟩ := List.getElem_of_mem hr
  have hib : i < b.length := h.1 ▸ hi
  have := hb b[i] (List.getElem_mem hib)
  cases hx : b[i] with
  | none => rw [hx] at this; simp at this
  | some x =>
    have h2 := h.2 i x (by rw [List.getElem?_eq_getElem hib, hx])
    rw [List.getElem?_eq_getElem hi] at h2
    rw [Option.some.inj h2]; rfl

/-! ### monotonicity of the row functions -/

theorem listRowsH_refines (offs : List Int) {a b : H} (h : Refines a b) :
    Refines (listRowsH offs a) (listRowsH offs b) := by
  unfold listRowsH
  apply refines_map
  intro se _ y hy
  cases hb : allSome (sliceL b se.1 se.2) with
  | none => simp [hb] at hy
  | some xs =>
    rw [allSome_refines (h.slice se.1 se.2) hb]
    rw [hb] at hy; exact hy

theorem fslRowsH_refines (n len : Nat) {a b : H} (h : Refines a b) :
    Refines (fslRowsH n len a) (fslRowsH n len b) := by
  unfold fslRowsH
  apply refines_map
  intro i _ y hy
  cases hb : allSome ((b.drop (i * n)).take n) with
  | none => simp [hb] at hy
  | some xs =>
    rw [allSome_refines ((h.drop (i * n)).take n) hb]
    rw [hb] at hy; exact hy

theorem mapRowsH_refines (offs : List Int) {a b c d : H} (h1 : Refines a b) (h2 : Refines c d) :
    Refines (mapRowsH offs a c) (mapRowsH offs b d) := by
  unfold mapRowsH
  apply refines_map
  intro se _ y hy
  cases hb : allSome (sliceL b se.1 se.2) with
  | none => simp [hb, mapRowH] at hy
  | some xs =>
    cases hd : allSome (sliceL d se.1 se.2) with
    | none => simp [hb, hd, mapRowH] at hy
    | some ys =>
      rw [allSome_refines (h1.slice se.1 se.2) hb, allSome_refines (h2.slice se.1 se.2) hd]
      rw [hb, hd] at hy; exact hy

/-- a dictionary row is monotone in keys and values -/
theorem dictRowsH_refines {a b v w : H} (h1 : Refines a b) (h2 : Refines v w) :
    Refines (a.map (dictRowH v)) (b.map (dictRowH w)) := by
  refine ⟨by simp [h1.length], ?_⟩
  intro i x hi
  rw [List.getElem?_map] at hi ⊢
  cases hb : b[i]? with
  | none => simp [hb] at hi
  | some k =>
    rw [hb] at hi
    simp only [Option.map_some] at hi
    have hi := Option.some.inj hi
    cases k with
    | none => simp [dictRowH] at hi
    | some k =>
      rw [h1.2 i k hb]
      simp only [Option.map_some]
      congr 1
      cases k with
      | int j =>
        simp only [dictRowH, List.getD_eq_getElem?_getD] at hi ⊢
        cases hw : w[j.toNat]? with
        | none => simp [hw] at hi
        | some o =>
          rw [hw] at hi
          simp only [Option.getD_some] at hi
          subst hi
          rw [h2.2 _ x hw]; rfl
      | _ => exact hi

/-- old dictionary rows do not see values appended -/
theorem dictRowH_append_refines (ks vs ws : H) :
    Refines (ks.map (dictRowH (vs ++ ws))) (ks.map (dictRowH vs)) := by
  apply refines_map
  intro k _ y hy
  cases k with
  | none => simp [dictRowH] at hy
  | some k =>
    cases k with
    | int j =>
      simp only [dictRowH, List.getD_eq_getElem?_getD] at hy ⊢
      by_cases hj : j.toNat < vs.length
      · rw [List.getElem?_append_left hj]; exact hy
      · rw [List.getElem?_eq_none (by omega)] at hy
        simp at hy
    | _ => exact hy

end SaModel.Build
