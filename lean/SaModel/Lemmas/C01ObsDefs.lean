import SaModel.Lemmas.C01Push
/-
C01 "hidden rows" — vocabulary of the refinement that speaks about OBSERVABLE rows only.

`dec b` (Build/Dec.lean) reads every slot of a builder, also the slots hidden below a null ancestor.  For one builder
family that reading is not stable: a dictionary with NON-nullable keys that receives `serialize_default` (its parent row
is null) stores the placeholder key 0, which designates nothing while the dictionary is empty and the FIRST real value
later (`Props.C01.dict_placeholder_unstable`).  The property says such slots "may hold anything".

`decH b : List (Option LVal)` is `dec b` with every row that is NOT DETERMINED by the state replaced by `none`:
  * a dictionary row whose key designates no value (yet) is `none`;
  * a struct / list / fixed-size list / map / union row is `none` when a child row it READS is `none` — a row whose own
    validity bit is clear reads no child and is the determined value `null`.
So the slots below a null parent never reach the parent's rows, whatever they hold — the Arrow reading rule
(`Spec.decodeAll` stops at a null parent), no mask has to be threaded through the builder tree.

`Refines new old`: same length, and every row that was determined is unchanged ("`none` may become anything").
The refinement theorem R1' reads   push ext b x = ok b' → Refines (decH b') (decH b ++ [some lv]).

`WFH` is the state invariant `WFB` with the dictionary key clause weakened to what the builders really maintain: a key
is in range OR it is the placeholder 0 of a non-nullable key builder; and every row of the VALUE builder of a dictionary
is determined (values never receive `serialize_default`).  `NoDictKey` is the second clause of `Safe` (the
key builder of a dictionary is not itself a dictionary) — `build_builder` only constructs such builders.
-/
namespace SaModel.Build
open SaModel SaModel.Spec

/-- observable rows: `none` = not determined by the state (only possible below a null ancestor) -/
abbrev H := List (Option LVal)

/-- same length, determined rows unchanged -/
def Refines (new old : H) : Prop :=
  new.length = old.length ∧ ∀ (i : Nat) (x : LVal), old[i]? = some (some x) → new[i]? = some (some x)

/-- rows whose validity bit is clear are (determined) nulls, whatever the slot holds -/
def maskNullH (v : Validity) (xs : H) : H :=
  match v with
  | none => xs
  | some bits => List.zipWith (fun b x => if b then x else some LVal.null) bits xs

/-- all rows determined? -/
def allSome {α} : List (Option α) → Option (List α)
  | [] => some []
  | none :: _ => none
  | some x :: r => (allSome r).map (x :: ·)

/-! pure row functions of the container families (children as lists of observable rows) -/

def listRowsH (offs : List Int) (elems : H) : H :=
  (pairs offs).map fun se => (allSome (sliceL elems se.1 se.2)).map fun xs => LVal.list (LVals.ofList xs)

def fslRowsH (n len : Nat) (elems : H) : H :=
  (List.range len).map fun i => (allSome ((elems.drop (i * n)).take n)).map fun xs => LVal.list (LVals.ofList xs)

def mapRowH (k w : Option (List LVal)) : Option LVal :=
  match k, w with
  | some k, some w => some (.map (LEntries.ofList (k.zip w)))
  | _, _ => none

def mapRowsH (offs : List Int) (ks vs : H) : H :=
  (pairs offs).map fun se => mapRowH (allSome (sliceL ks se.1 se.2)) (allSome (sliceL vs se.1 se.2))

/-- row `i` of a struct with the given observable columns -/
def rowAtH (cols : List (String × H)) (i : Nat) : Option LVal :=
  (allSome (cols.map fun c => (c.2.getD i (some .null)).map fun x => (c.1, x))).map fun fl => LVal.struct (LFields.ofList fl)

def structRowsH (len : Nat) (cols : List (String × H)) : H := (List.range len).map (rowAtH cols)

/-- a dictionary row: a key that designates no value is NOT determined -/
def dictRowH (vs : H) (k : Option LVal) : Option LVal :=
  match k with
  | some (.int j) => vs.getD j.toNat none
  | some _ => some .null
  | none => none

def unionRowH (cols : List (String × H)) (t o : Int) : Option LVal :=
  ((cols.getD t.toNat ("", [])).2.getD o.toNat (some .null)).map (LVal.union t)

mutual
/-- the observable rows of a builder state -/
def decH : B → H
  | .null p len => (dec (.null p len)).map some
  | .unknownVariant p => (dec (.unknownVariant p)).map some
  | .leaf p k v vals => (dec (.leaf p k v vals)).map some
  | .bytes p ty v offs data => (dec (.bytes p ty v offs data)).map some
  | .bytesView p ty v views buf => (dec (.bytesView p ty v views buf)).map some
  | .fixedSizeBinary p n len v buf c => (dec (.fixedSizeBinary p n len v buf c)).map some
  | .list _ _ _ v offs el => maskNullH v (listRowsH offs (decH el))
  | .fixedSizeList _ _ n len v _ el => maskNullH v (fslRowsH n len (decH el))
  | .map _ _ v offs ks vs => maskNullH v (mapRowsH offs (decH ks) (decH vs))
  | .struct _ len v fs _ _ _ => maskNullH v (structRowsH len (decHCols fs))
  | .dictionary _ idx vals _ => (decH idx).map (dictRowH (decH vals))
  | .union _ fs types offs _ => List.zipWith (unionRowH (decHCols fs)) types offs
def decHCols : BL → List (String × H)
  | .nil => []
  | .cons b m r => (m.name, decH b) :: decHCols r
end

/-- the key clause the dictionary builders really maintain: in range, or the placeholder `0` of a non-nullable key
builder (pushed by `serialize_default` below a null ancestor) -/
def KeysH (idx : B) (index : List String) : Prop :=
  ∀ k ∈ dec idx, ∀ j : Int, k = .int j → 0 ≤ j ∧ (j.toNat < index.length ∨ (j = 0 ∧ idx.isNullable = false))

mutual
/-- the state invariant without `Safe`: `WFB` with the dictionary key clause weakened to `KeysH` -/
def WFH : B → Prop
  | .null _ _ => True
  | .unknownVariant _ => True
  | .leaf _ _ v vals => VLen v vals.length
  | .bytes _ _ v offs data => OffsOK offs data.length ∧ VLen v (offs.length - 1)
  | .bytesView _ _ v views buf =>
    VLen v views.length ∧ (∀ d ∈ views, (decodeView [buf] d).isOk = true) ∧ buf.length < 2 ^ 32
  | .fixedSizeBinary _ n len v buf _ => VLen v len ∧ buf.length = len * n
  | .list _ _ _ v offs el => OffsOK offs (dec el).length ∧ VLen v (offs.length - 1) ∧ WFH el
  | .fixedSizeList _ _ n len v _ el => VLen v len ∧ (dec el).length = len * n ∧ WFH el
  | .map _ _ v offs ks vs =>
    OffsOK offs (dec ks).length ∧ (dec vs).length = (dec ks).length ∧ VLen v (offs.length - 1) ∧ WFH ks ∧ WFH vs
  | .struct _ len v fs cached _ seen =>
    VLen v len ∧ WFHL fs len ∧ seen.length = fs.length ∧ fs.names.Nodup ∧ CacheInv fs.names cached
  | .dictionary _ idx vals index =>
    WFH idx ∧ WFH vals ∧ index.Nodup ∧
    (dec vals).length = index.length ∧
    KeysH idx index ∧
    DictVals vals index ∧
    (∀ r ∈ decH vals, r.isSome = true)
  | .union _ fs types offs cur =>
    types.length = offs.length ∧ cur.length = fs.length ∧ WFHU fs cur ∧
    (∀ to ∈ types.zip offs,
      0 ≤ to.1 ∧ 0 ≤ to.2 ∧ ∃ c, fs.get? to.1.toNat = some c ∧ to.2.toNat < (dec c.1).length)
def WFHL : BL → Nat → Prop
  | .nil, _ => True
  | .cons b _ r, len => WFH b ∧ (dec b).length = len ∧ WFHL r len
def WFHU : BL → List Int → Prop
  | .nil, _ => True
  | .cons b _ r, cur => WFH b ∧ cur.head? = some ((dec b).length : Int) ∧ WFHU r cur.tail
end

mutual
/-- the second clause of `Safe`: the KEY builder of a dictionary is not itself a dictionary.  A property of the schema
(invariant under `takeRest`); every builder `build_builder` constructs has it (`isIntDT k` is checked). -/
def NoDictKey : B → Prop
  | .list _ _ _ _ _ el => NoDictKey el
  | .fixedSizeList _ _ _ _ _ _ el => NoDictKey el
  | .map _ _ _ _ ks vs => NoDictKey ks ∧ NoDictKey vs
  | .struct _ _ _ fs _ _ _ => NoDictKeyL fs
  | .dictionary _ idx vals _ => idx.isDict = false ∧ NoDictKey idx ∧ NoDictKey vals
  | .union _ fs _ _ _ => NoDictKeyL fs
  | _ => True
def NoDictKeyL : BL → Prop
  | .nil => True
  | .cons b _ r => NoDictKey b ∧ NoDictKeyL r
end

/-- `fs` = `fs0` with the observable rows `adds[j]` appended to child `j` (rows of `fs0` that were not determined may
have changed) -/
def ExtLH : BL → BL → List H → Prop
  | .nil, .nil, [] => True
  | .cons b0 m0 r0, .cons b m r, a :: as =>
    m = m0 ∧ WFH b ∧ Refines (decH b) (decH b0 ++ a) ∧ ExtLH r0 r as
  | _, _, _ => False

end SaModel.Build
