import SaModel.Lemmas.C01Push
import SaModel.Build.Obs
/-
C01 "hidden rows" — vocabulary of the refinement that speaks about OBSERVABLE rows only.

`dec b` (Build/Dec.lean) reads every slot of a builder, also the slots hidden below a null ancestor.  For one builder
family that reading is not stable: a dictionary with NON-nullable keys that receives `serialize_default` (its parent row
is null) stores the placeholder key 0, which designates nothing while the dictionary is empty and the FIRST real value
later (`Props.C01.dict_placeholder_unstable`).  The property says such slots "may hold anything".

`decH b : List (Option LVal)` (MODEL file Build/Obs.lean, executable) is `dec b` with every row that is NOT DETERMINED by the state replaced by `none`:
  * a dictionary row whose key designates no value (yet) is `none`;
  * a struct / list / fixed-size list / map / union row is `none` when a child row it READS is `none` — a row whose own
    validity bit is clear reads no child and is the determined value `null`.
So the slots below a null parent never reach the parent's rows, whatever they hold — the Arrow reading rule
(`Spec.decodeAll` stops at a null parent), no mask has to be threaded through the builder tree.

`Refines new old`: same length, and every row that was determined is unchanged ("`none` may become anything").
The refinement theorem R1' reads   push ext b x = ok b' → Refines (decH b') (decH b ++ [some lv]).

`WFH` is the state invariant `WFB` with the dictionary key clause weakened to what the builders really maintain: a key
is in range OR it is the placeholder 0 of a non-nullable key builder; and every row of the VALUE builder of a dictionary
is determined (values never receive `serialize_default`).  `NoDictKey` is the second clause of `Safe` (the
key builder of a dictionary is not itself a dictionary) — `build_builder` only constructs such builders.
-/
namespace SaModel.Build
open SaModel SaModel.Spec

/-- same length, determined rows unchanged -/
def Refines (new old : H) : Prop :=
  new.length = old.length ∧ ∀ (i : Nat) (x : LVal), old[i]? = some (some x) → new[i]? = some (some x)

/-- the key clause the dictionary builders really maintain: in range, or the placeholder `0` of a non-nullable key
builder (pushed by `serialize_default` below a null ancestor) -/
def KeysH (idx : B) (index : List String) : Prop :=
  ∀ k ∈ dec idx, ∀ j : Int, k = .int j → 0 ≤ j ∧ (j.toNat < index.length ∨ (j = 0 ∧ idx.isNullable = false))

mutual
/-- the state invariant without `Safe`: `WFB` with the dictionary key clause weakened to `KeysH` -/
def WFH : B → Prop
  | .null _ _ => True
  | .unknownVariant _ => True
  | .leaf _ _ v vals => VLen v vals.length
  | .bytes _ _ v offs data => OffsOK offs data.length ∧ VLen v (offs.length - 1)
  | .bytesView _ _ v views buf =>
    VLen v views.length ∧ (∀ d ∈ views, (decodeView [buf] d).isOk = true) ∧ buf.length < 2 ^ 32
  | .fixedSizeBinary _ n len v buf _ => VLen v len ∧ buf.length = len * n
  | .list _ _ _ v offs el => OffsOK offs (dec el).length ∧ VLen v (offs.length - 1) ∧ WFH el
  | .fixedSizeList _ _ n len v _ el => VLen v len ∧ (dec el).length = len * n ∧ WFH el
  | .map _ _ v offs ks vs =>
    OffsOK offs (dec ks).length ∧ (dec vs).length = (dec ks).length ∧ VLen v (offs.length - 1) ∧ WFH ks ∧ WFH vs
  | .struct _ len v fs cached _ seen =>
    VLen v len ∧ WFHL fs len ∧ seen.length = fs.length ∧ fs.names.Nodup ∧ CacheInv fs.names cached
  | .dictionary _ idx vals index =>
    WFH idx ∧ WFH vals ∧ index.Nodup ∧
    (dec vals).length = index.length ∧
    KeysH idx index ∧
    DictVals vals index ∧
    (∀ r ∈ decH vals, r.isSome = true)
  | .union _ fs types offs cur =>
    types.length = offs.length ∧ cur.length = fs.length ∧ WFHU fs cur ∧
    (∀ to ∈ types.zip offs,
      0 ≤ to.1 ∧ 0 ≤ to.2 ∧ ∃ c, fs.get? to.1.toNat = some c ∧ to.2.toNat < (dec c.1).length)
def WFHL : BL → Nat → Prop
  | .nil, _ => True
  | .cons b _ r, len => WFH b ∧ (dec b).length = len ∧ WFHL r len
def WFHU : BL → List Int → Prop
  | .nil, _ => True
  | .cons b _ r, cur => WFH b ∧ cur.head? = some ((dec b).length : Int) ∧ WFHU r cur.tail
end

mutual
/-- the second clause of `Safe`: the KEY builder of a dictionary is not itself a dictionary.  A property of the schema
(invariant under `takeRest`); every builder `build_builder` constructs has it (`isIntDT k` is checked). -/
def NoDictKey : B → Prop
  | .list _ _ _ _ _ el => NoDictKey el
  | .fixedSizeList _ _ _ _ _ _ el => NoDictKey el
  | .map _ _ _ _ ks vs => NoDictKey ks ∧ NoDictKey vs
  | .struct _ _ _ fs _ _ _ => NoDictKeyL fs
  | .dictionary _ idx vals _ => idx.isDict = false ∧ NoDictKey idx ∧ NoDictKey vals
  | .union _ fs _ _ _ => NoDictKeyL fs
  | _ => True
def NoDictKeyL : BL → Prop
  | .nil => True
  | .cons b _ r => NoDictKey b ∧ NoDictKeyL r
end

/-- `fs` = `fs0` with the observable rows `adds[j]` appended to child `j` (rows of `fs0` that were not determined may
have changed) -/
def ExtLH : BL → BL → List H → Prop
  | .nil, .nil, [] => True
  | .cons b0 m0 r0, .cons b m r, a :: as =>
    m = m0 ∧ WFH b ∧ Refines (decH b) (decH b0 ++ a) ∧ ExtLH r0 r as
  | _, _, _ => False

end SaModel.Build
