import SaModel.Lemmas.C01ObsInterp
import SaModel.Lemmas.C03ObsRoot
/-
C01 — the dictionary step lemma for value types OUTSIDE `coveredW` (wave 10, package `dict`): the part of R2' that holds
without a new state invariant.

A scalar pushed into a `Dictionary(integer, V)` builder goes through `to_string` and then either HITS the index (the row is
`values[index s]`) or is NEW (the string is pushed into the value builder, the row is the row that push appended).  For a NEW
string and a childless value builder (`isFlat`: every leaf builder — the parsing ones — and the Utf8View builder) the appended
row is what the specification says, `Spec.interpDictStr ext V s`, for EVERY such `V` (Utf8View, Date32, Date64, Time32, Time64,
Timestamp, Duration, Decimal128): it is the row R2' of the VALUE builder identifies (`pushScalar_interpH`), and
`Spec.dictValue ext V s = Spec.specLeaf ext V (.str s)` for these `V` (`dictValue_eq_specLeaf_str`).

  dict_push_new_interp_partial    … MISSING for the full R2' at these value types: the index-HIT case, where the row is
                                  `dec vals[i]` for the position `i` of an EARLIER push of the same string — the state fact
                                  "values decoded = index entries interpreted at V" (`dec vals = index.map (interpDictStr ext V)`)
                                  is not part of `WFB` / `WFH` (for the parsed kinds it depends on `ext`); and a nested
                                  dictionary as value type (not `isFlat`)
-/
namespace SaModel.Build
open SaModel SaModel.Spec
open SaModel.Lemmas.C03 (ViewSmall ViewSmallL)

/-- the value types whose builder takes `serialize_str` without being a Utf8 / LargeUtf8 builder or a nested dictionary -/
def dictValFlatOpen : DataType → Bool
  | .utf8View | .date32 | .date64 | .time32 _ | .time64 _ | .timestamp _ _ | .duration _ | .decimal128 _ _ => true
  | _ => false

/-- at these value types a string means in the dictionary what it means in a plain column of that type -/
theorem dictValue_eq_specLeaf_str (ext : Ext) (v : DataType) (s : String) (hv : dictValFlatOpen v = true) :
    dictValue ext v s = specLeaf ext v (.str s) := by
  cases v <;> simp [dictValFlatOpen] at hv <;>
    simp [dictValue, specLeaf, i32Stored, i64Stored, timestampCell, durationCell, decimalCell, textOf]

/-- **R2' at a dictionary with an arbitrary flat value builder, NEW strings only** (see the file header for what is missing) -/
theorem dict_push_new_interp_partial (ext : Ext) {p : String} {idx vals : B} {index : List String} {x : SVal} {b' : B}
    {lv : LVal} {vdt : DataType} {s : String}
    (hwf : WFH (.dictionary p idx vals index)) (hil : idx.isIntLeaf = true)
    (hsv : Shape vals vdt false []) (hfv : vals.isFlat = true) (hv : dictValFlatOpen vdt = true)
    (hs : scalarToString ext x = some s) (hnew : indexOfName index s = none)
    (h : pushScalar ext (.dictionary p idx vals index) x = .ok b')
    (hd : Refines (decH b') (decH (.dictionary p idx vals index) ++ [some lv])) :
    interpDictStr ext vdt s = .ok lv := by
  unfold pushScalar at h
  simp only [hs, hnew] at h
  have hw' := hwf
  simp only [WFH] at hw'
  obtain ⟨vals', h1, h2⟩ := (bind_ok _ _ _).1 h
  obtain ⟨idx', h3, h4⟩ := (bind_ok _ _ _).1 h2
  cases h4
  rw [ctx_eq_ok] at h1 h3
  have hk := intLeaf_pushH ext hil hw'.1 h3
  obtain ⟨hwv', lv', hdv⟩ := pushScalar_flat ext hfv hw'.2.1 h1
  have hfv' := flat_of_takeRest (pushScalar_takeRest ext vals _ vals' h1) hfv
  have hvd : dec vals' = dec vals ++ [lv'] := flat_dec_of_refines hfv hfv' (ls := [lv']) hdv
  obtain ⟨hi, _⟩ := pushScalar_interpH ext vals (.str s) vals' vdt false [] lv' hw'.2.1 hsv h1 hdv
    (SaModel.Lemmas.C03.WFH_small vals' hwv')
  rw [decH_dictionary, decH_dictionary, hk, List.map_append] at hd
  have := last_of_refines (by simp) hd
  have hl : (dec vals).length = index.length := hw'.2.2.2.1
  simp only [dictRowH, Int.toNat_natCast, flat_decH hfv', hvd, List.getD_eq_getElem?_getD, List.getElem?_map, ← hl,
    List.getElem?_append_right (Nat.le_refl _), Nat.sub_self, List.getElem?_cons_zero, List.map_append, List.map_cons,
    List.map_nil, List.length_map,
    Option.map_some, Option.getD_some, Option.some.injEq] at this
  have e : (List.map some (dec vals) ++ [some lv'])[(dec vals).length]? = some (some lv') := by
    rw [List.getElem?_append_right (by simp)]; simp
  rw [e] at this
  simp only [Option.getD_some, Option.some.injEq] at this
  subst this
  simp only [interpScalar] at hi
  simp only [interpDictStr, dictValue_eq_specLeaf_str ext vdt s hv]
  exact hi

end SaModel.Build
