import SaModel.Lemmas.C01ObsPush
import SaModel.Lemmas.C01Interp
/-
C01 "hidden rows" — R2' for the scalar calls: the DETERMINED row a scalar call appends is the specified one, without the
first clause of `Safe` (observable-rows counterpart of Lemmas/C01Interp.lean; `pushNone_interp` there needs no change:
it has no state hypothesis).
-/
namespace SaModel.Build
open SaModel SaModel.Spec
open SaModel.Lemmas.C03 (ViewSmall ViewSmallL)

theorem row_uniqueH {xs ys : H} {a b : LVal} (h1 : Refines ys (xs ++ [some a])) (h2 : Refines ys (xs ++ [some b])) : a = b :=
  Refines.snoc_inj h1 h2

theorem map_some_inj {α} {as bs : List α} (h : as.map some = bs.map some) : as = bs := by
  have := congrArg allSome h
  rw [allSome_map_some, allSome_map_some] at this
  exact Option.some.inj this

theorem rows_uniqueH {xs ys : H} {as bs : List LVal} (h1 : Refines ys (xs ++ as.map some))
    (h2 : Refines ys (xs ++ bs.map some)) : as = bs := by
  have e1 := h1.split.2.of_map_some
  have e2 := h2.split.2.of_map_some
  rw [e1] at e2
  exact map_some_inj e2

/-- for the childless families a refinement by determined rows is the old equation on `dec` -/
theorem flat_dec_of_refines {b b' : B} (hf : b.isFlat = true) (hf' : b'.isFlat = true) {ls : List LVal}
    (h : Refines (decH b') (decH b ++ ls.map some)) : dec b' = dec b ++ ls := by
  rw [flat_decH hf, flat_decH hf', ← List.map_append] at h
  exact map_some_inj h.of_map_some

/-- the last row of a refinement by one determined row -/
theorem last_of_refines {A A' : H} {r : Option LVal} {lv : LVal} (hl : A.length = A'.length)
    (h : Refines (A ++ [r]) (A' ++ [some lv])) : r = some lv := by
  have := h.2 A'.length lv (by simp)
  rw [← hl] at this
  simpa using this

theorem isFlat_of_isIntLeaf {b : B} (h : b.isIntLeaf = true) : b.isFlat = true := by
  cases b <;> simp [B.isIntLeaf] at h <;> rfl

theorem isFlat_of_isUtf8B {b : B} (h : b.isUtf8B = true) : b.isFlat = true := by
  cases b <;> simp [B.isUtf8B] at h <;> rfl

/-- the `u64` index a dictionary pushes into its (integer leaf) key builder shows up as exactly that key -/
theorem intLeaf_pushH (ext : Ext) {idx idx' : B} {i : Nat} (hil : idx.isIntLeaf = true) (hw : WFH idx)
    (h : pushScalar ext idx (.int .u64 i) = .ok idx') : decH idx' = decH idx ++ [some (.int i)] := by
  have hf := isFlat_of_isIntLeaf hil
  have hf' := flat_of_takeRest (pushScalar_takeRest ext idx _ idx' h) hf
  rw [flat_decH hf', flat_decH hf, intLeaf_push ext hil (flat_WFB hf hw) h, List.map_append]
  rfl

/-- the row a string-like scalar appends to a `Dictionary(integer, Utf8/LargeUtf8)` builder is that string -/
theorem dict_push_rowH (ext : Ext) {p : String} {idx vals : B} {index : List String} {x : SVal} {b' : B} {lv : LVal}
    (hwf : WFH (.dictionary p idx vals index)) (hil : idx.isIntLeaf = true) (hu : vals.isUtf8B = true)
    (h : pushScalar ext (.dictionary p idx vals index) x = .ok b')
    (hd : Refines (decH b') (decH (.dictionary p idx vals index) ++ [some lv])) :
    ∃ s, scalarToString ext x = some s ∧ lv = .str (strBytes s) := by
  unfold pushScalar at h
  simp only at h
  have hw' := hwf
  simp only [WFH] at hw'
  have hdv := hw'.2.2.2.2.2.1.1 hu
  have hfv := isFlat_of_isUtf8B hu
  split at h
  · rename_i s hs'
    refine ⟨s, hs', ?_⟩
    split at h
    · rename_i i hi
      obtain ⟨idx', h1, h2⟩ := (bind_ok _ _ _).1 h
      cases h2
      rw [ctx_eq_ok] at h1
      have hk := intLeaf_pushH ext hil hw'.1 h1
      rw [decH_dictionary, decH_dictionary, hk, List.map_append] at hd
      have := last_of_refines rfl hd
      have hget := SaModel.Props.C11Front.indexOfName_some index s i hi
      simp only [dictRowH, Int.toNat_natCast, flat_decH hfv, hdv, List.getD_eq_getElem?_getD, List.getElem?_map, hget,
        Option.map_some, Option.getD_some, Option.some.injEq] at this
      exact this.symm
    · obtain ⟨vals', h1, h2⟩ := (bind_ok _ _ _).1 h
      obtain ⟨idx', h3, h4⟩ := (bind_ok _ _ _).1 h2
      cases h4
      rw [ctx_eq_ok] at h1 h3
      have hk := intLeaf_pushH ext hil hw'.1 h3
      have hv := pushScalar_utf8_str ext (flat_WFB hfv hw'.2.1) hu h1
      have hfv' := flat_of_takeRest (pushScalar_takeRest ext vals _ vals' h1) hfv
      rw [decH_dictionary, decH_dictionary, hk, List.map_append] at hd
      have := last_of_refines (by simp) hd
      have hl : (dec vals).length = index.length := hw'.2.2.2.1
      simp only [dictRowH, Int.toNat_natCast, flat_decH hfv', hv, List.getD_eq_getElem?_getD, List.getElem?_map, ← hl,
        List.getElem?_append_right (Nat.le_refl _), Nat.sub_self, List.getElem?_cons_zero,
        Option.map_some, Option.getD_some, Option.some.injEq] at this
      exact this.symm
  · simp [notSupported, fail] at h

/-- the childless arms of `pushScalar_interpH`: through the old theorem -/
theorem pushScalar_interp_flat (ext : Ext) {b : B} {x : SVal} {b' : B} {dt : DataType} {n : Bool} {md : Metadata} {lv : LVal}
    (hf : b.isFlat = true) (hw : WFH b) (hs : Shape b dt n md) (h : pushScalar ext b x = .ok b')
    (hd : Refines (decH b') (decH b ++ [some lv])) (hsm : ViewSmall b') :
    interpScalar ext dt x = .ok lv ∧ isUnknownVariant dt md = false := by
  have hf' := flat_of_takeRest (pushScalar_takeRest ext b x b' h) hf
  have hd' : dec b' = dec b ++ [lv] := flat_dec_of_refines hf hf' (ls := [lv]) hd
  exact pushScalar_interp ext b x b' dt n md lv (flat_WFB hf hw) hs h hd' hsm

/-- the row a scalar call appends is the specified one (`ViewSmall b'`: only looked at by bytes-view builders) -/
theorem pushScalar_interpH (ext : Ext) : ∀ (b : B) (x : SVal) (b' : B) (dt : DataType) (n : Bool) (md : Metadata) (lv : LVal),
    WFH b → Shape b dt n md → pushScalar ext b x = .ok b' → Refines (decH b') (decH b ++ [some lv]) → ViewSmall b' →
    interpScalar ext dt x = .ok lv ∧ isUnknownVariant dt md = false
  | .null _ _, _, _, _, _, _, _, hw, hs, h, hd, hsm => pushScalar_interp_flat ext rfl hw hs h hd hsm
  | .unknownVariant _, _, _, _, _, _, _, hw, hs, h, hd, hsm => pushScalar_interp_flat ext rfl hw hs h hd hsm
  | .leaf _ _ _ _, _, _, _, _, _, _, hw, hs, h, hd, hsm => pushScalar_interp_flat ext rfl hw hs h hd hsm
  | .bytes _ _ _ _ _, _, _, _, _, _, _, hw, hs, h, hd, hsm => pushScalar_interp_flat ext rfl hw hs h hd hsm
  | .bytesView _ _ _ _ _, _, _, _, _, _, _, hw, hs, h, hd, hsm => pushScalar_interp_flat ext rfl hw hs h hd hsm
  | .fixedSizeBinary _ _ _ _ _ _, _, _, _, _, _, _, hw, hs, h, hd, hsm => pushScalar_interp_flat ext rfl hw hs h hd hsm
  | .dictionary p idx vals index, x, b', dt, n, md, lv, hwf, hs, h, hd, _ => by
    simp only [Shape] at hs
    obtain ⟨⟨kdt, vdt, rfl, hsv⟩, hil, _, hu⟩ := hs
    rcases hu with hu | hr
    · obtain ⟨s, hs', rfl⟩ := dict_push_rowH ext hwf hil hu h hd
      exact ⟨by simp only [interpScalar_eq_old, normErr_ok_iff, interpScalarOld, hs', interpDictStr_utf8 ext s hsv hu], rfl⟩
    · exact (dict_push_refused ext (DictVals.of_wfh hwf).2 hr h).elim
  | .list _ _ _ _ _ _, x, b', _, _, _, _, _, _, h, _, _ => by simp [pushScalar, notSupported, fail] at h
  | .fixedSizeList _ _ _ _ _ _ _, x, b', _, _, _, _, _, _, h, _, _ => by simp [pushScalar, notSupported, fail] at h
  | .map _ _ _ _ _ _, x, b', _, _, _, _, _, _, h, _, _ => by simp [pushScalar, notSupported, fail] at h
  | .struct _ _ _ _ _ _ _, x, b', _, _, _, _, _, _, h, _, _ => by simp [pushScalar, notSupported, fail] at h
  | .union _ _ _ _ _, x, b', _, _, _, _, _, _, h, _, _ => by simp [pushScalar, notSupported, fail] at h

end SaModel.Build
