import SaModel.Lemmas.C01ObsPush
import SaModel.Lemmas.C01Interp
/-
C01 "hidden rows" — R2' for the scalar calls: the DETERMINED row a scalar call appends is the specified one, without the
first clause of `Safe` (observable-rows counterpart of Lemmas/C01Interp.lean; `pushNone_interp` there needs no change:
it has no state hypothesis).
-/
namespace SaModel.Build
open SaModel SaModel.Spec
open SaModel.Lemmas.C03 (ViewSmall ViewSmallL)

theorem row_uniqueH {xs ys : H} {a b : LVal} (h1 : Refines ys (xs ++ [some a])) (h2 : Refines ys (xs ++ [some b])) : a = b :=
  Refines.snoc_inj h1 h2

theorem rows_uniqueH {xs ys : H} {as bs : List LVal} (h1 : Refines ys (xs ++ as.map some))
    (h2 : Refines ys (xs ++ bs.map some)) : as = bs := sorry

/-- the `u64` index a dictionary pushes into its (integer leaf) key builder shows up as exactly that key -/
theorem intLeaf_pushH (ext : Ext) {idx idx' : B} {i : Nat} (hil : idx.isIntLeaf = true) (hw : WFH idx)
    (h : pushScalar ext idx (.int .u64 i) = .ok idx') : decH idx' = decH idx ++ [some (.int i)] := sorry

/-- the row a string-like scalar appends to a `Dictionary(integer, Utf8/LargeUtf8)` builder is that string -/
theorem dict_push_rowH (ext : Ext) {p : String} {idx vals : B} {index : List String} {x : SVal} {b' : B} {lv : LVal}
    (hwf : WFH (.dictionary p idx vals index)) (hil : idx.isIntLeaf = true) (hu : vals.isUtf8B = true)
    (h : pushScalar ext (.dictionary p idx vals index) x = .ok b')
    (hd : Refines (decH b') (decH (.dictionary p idx vals index) ++ [some lv])) :
    ∃ s, scalarToString ext x = some s ∧ lv = .str (strBytes s) := sorry

/-- the row a scalar call appends is the specified one (`ViewSmall b'`: only looked at by bytes-view builders) -/
theorem pushScalar_interpH (ext : Ext) : ∀ (b : B) (x : SVal) (b' : B) (dt : DataType) (n : Bool) (md : Metadata) (lv : LVal),
    WFH b → Shape b dt n md → pushScalar ext b x = .ok b' → Refines (decH b') (decH b ++ [some lv]) → ViewSmall b' →
    interpScalar ext dt x = .ok lv ∧ isUnknownVariant dt md = false := sorry

end SaModel.Build
