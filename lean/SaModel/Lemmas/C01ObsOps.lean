import SaModel.Lemmas.C01ObsCont
/-
C01 "hidden rows" — R1' for the non-recursive operations `serialize_default` × k, `serialize_none` and the scalar
calls, WITHOUT the first clause of `Safe`:
  pushDefaultK_refines   k placeholders: `WFH` kept, k more rows, every DETERMINED row unchanged (what the placeholders
                         read is left open: `none`)
  pushNone_refines       a null appends the determined row `null`
  pushScalar_refines     a scalar call appends one determined row
The childless families go through the theorems of Lemmas/C01Ops.lean (for them `WFH` is `WFB` and `Safe` holds).
-/
namespace SaModel.Build
open SaModel SaModel.Spec

theorem Refines.weaken_tail {x y ls : H} {k : Nat} (h : Refines x (y ++ ls)) (hl : ls.length = k) :
    Refines x (y ++ List.replicate k none) :=
  h.trans (Refines.append (Refines.refl _) (Refines.of_none hl))

/-! ### the key clause `KeysH` under the operations a key builder sees -/

theorem KeysH.append {b b' : B} {index : List String} {ls : List LVal} (hd : dec b' = dec b ++ ls)
    (hn : b'.isNullable = b.isNullable) (hk : KeysH b index)
    (hl : ∀ l ∈ ls, ∀ j : Int, l = .int j → 0 ≤ j ∧ (j.toNat < index.length ∨ (j = 0 ∧ b.isNullable = false))) :
    KeysH b' index := by
  intro k hk' j hj
  rw [hd] at hk'
  rcases List.mem_append.1 hk' with h | h
  · rw [hn]; exact hk k h j hj
  · rw [hn]; exact hl k h j hj

theorem KeysH.mono {b : B} {index index' : List String} (hk : KeysH b index) (hl : index.length ≤ index'.length) :
    KeysH b index' := by
  intro k hk' j hj
  obtain ⟨h0, h1⟩ := hk k hk' j hj
  exact ⟨h0, h1.imp (fun h => by omega) id⟩

theorem mem_maskNull' (v : Validity) (xs : List LVal) (x : LVal) (h : x ∈ maskNull v xs) : x = .null ∨ x ∈ xs := by
  cases v with
  | none => exact Or.inr h
  | some bits =>
    simp only [maskNull] at h
    obtain ⟨i, hi, rfl⟩ := List.getElem_of_mem h
    simp only [List.getElem_zipWith]
    split
    · exact Or.inr (List.getElem_mem _)
    · exact Or.inl rfl

/-- only leaf builders (and dictionaries) have integer rows -/
theorem dec_not_int_of_not_leaf : ∀ (b : B), (∀ p k v vals, b ≠ .leaf p k v vals) → b.isDict = false →
    ∀ r ∈ dec b, ∀ j : Int, r ≠ .int j
  | .null _ _, _, _ => by
    intro r hr j
    simp only [dec, List.mem_replicate] at hr
    rw [hr.2]; intro h; cases h
  | .unknownVariant _, _, _ => by simp [dec]
  | .leaf p k v vals, h, _ => absurd rfl (h p k v vals)
  | .bytes _ ty v offs data, _, _ => by
    intro r hr j
    simp only [dec] at hr
    rcases mem_maskNull' _ _ _ hr with h | h
    · rw [h]; intro h; cases h
    · obtain ⟨se, _, rfl⟩ := List.mem_map.1 h
      simp only [bytesVal]; split <;> (intro h; cases h)
  | .bytesView _ ty v views buf, _, _ => by
    intro r hr j
    simp only [dec] at hr
    rcases mem_maskNull' _ _ _ hr with h | h
    · rw [h]; intro h; cases h
    · obtain ⟨se, _, rfl⟩ := List.mem_map.1 h
      simp only [bytesVal]; split <;> (intro h; cases h)
  | .fixedSizeBinary _ n len v buf _, _, _ => by
    intro r hr j
    simp only [dec] at hr
    rcases mem_maskNull' _ _ _ hr with h | h
    · rw [h]; intro h; cases h
    · obtain ⟨se, _, rfl⟩ := List.mem_map.1 h
      intro h; cases h
  | .list p l fm v offs el, _, _ => dec_container_not_int rfl rfl
  | .fixedSizeList p fm n len v c el, _, _ => dec_container_not_int rfl rfl
  | .map p mm v offs ks vs, _, _ => dec_container_not_int rfl rfl
  | .struct p len v fs c n s, _, _ => dec_container_not_int rfl rfl
  | .dictionary _ _ _ _, _, h => by simp [B.isDict] at h
  | .union p fs t o c, _, _ => dec_container_not_int rfl rfl

theorem KeysH.of_not_leaf {b : B} (h : ∀ p k v vals, b ≠ .leaf p k v vals) (hd : b.isDict = false) (index : List String) :
    KeysH b index := by
  intro k hk j hj
  exact absurd hj (dec_not_int_of_not_leaf b h hd k hk j)

theorem leafVal_zero_int {kind : LeafKind} {j : Int} (h : leafVal kind 0 = .int j) : j = 0 := by
  cases kind <;> simp [leafVal] at h <;> omega

theorem iter_default_none : ∀ (k : Nat) (vals : List Int),
    iter k (fun (s : Validity × List Int) => (.ok (setValidityDefault s.1 s.2.length, s.2 ++ [0]) : R (Validity × List Int)))
      (none, vals) = .ok (none, vals ++ List.replicate k 0)
  | 0, vals => by simp [iter]
  | k + 1, vals => by
    simp only [iter, bind, Except.bind]
    have e : setValidityDefault (none : Validity) vals.length = none := rfl
    simp only [e]
    rw [iter_default_none k (vals ++ [0])]
    simp [List.replicate_succ]

/-- the placeholders of a key builder keep the key clause: a nullable builder appends nulls, a non-nullable leaf the
value `0` -/
theorem pushDefaultK_keys {b b' : B} {k : Nat} {index : List String} (hd : b.isDict = false) (hw : WFH b)
    (h : pushDefaultK b k = .ok b') (hk : KeysH b index) : KeysH b' index := by
  have htr := pushDefaultK_takeRest b k b' h
  cases b with
  | leaf p kind v vals =>
    have hwb : WFB (.leaf p kind v vals) := flat_WFB rfl hw
    obtain ⟨_, ls, hls, hdec, hnull⟩ := pushDefaultK_appends _ k b' hwb (flat_DefSafe rfl) h
    refine KeysH.append hdec (isNullable_of_takeRest htr) hk ?_
    intro l hl j hj
    cases v with
    | some bits =>
      rw [hnull rfl] at hl
      rw [(List.mem_replicate.1 hl).2] at hj; cases hj
    | none =>
      simp only [pushDefaultK] at h
      rw [iter_default_none] at h
      simp only [bind, Except.bind, pure, Except.pure] at h
      cases h
      simp only [dec, maskNull, List.map_append, List.append_cancel_left_eq] at hdec
      rw [← hdec] at hl
      simp only [List.map_replicate, List.mem_replicate] at hl
      rw [hl.2] at hj
      have := leafVal_zero_int hj
      subst this
      exact ⟨by omega, Or.inr ⟨rfl, rfl⟩⟩
  | dictionary _ _ _ _ => simp [B.isDict] at hd
  | _ =>
    cases b' <;> simp only [takeRest, reduceCtorEq] at htr
    all_goals exact KeysH.of_not_leaf (by intro p k v vals h; cases h) rfl index

theorem pushNone_keys {b b' : B} {index : List String} (hd : b.isDict = false) (hw : WFH b)
    (h : pushNone b = .ok b') (hk : KeysH b index) : KeysH b' index := by
  have htr := pushNone_takeRest b b' h
  cases b with
  | leaf p kind v vals =>
    have hwb : WFB (.leaf p kind v vals) := flat_WFB rfl hw
    obtain ⟨_, hdec⟩ := pushNone_appends _ b' hwb (flat_Safe rfl) h
    refine KeysH.append hdec (isNullable_of_takeRest htr) hk ?_
    intro l hl j hj
    simp only [List.mem_singleton] at hl
    rw [hl] at hj; cases hj
  | dictionary _ _ _ _ => simp [B.isDict] at hd
  | _ =>
    cases b' <;> simp only [takeRest, reduceCtorEq] at htr
    all_goals exact KeysH.of_not_leaf (by intro p k v vals h; cases h) rfl index

/-- an integer call into a key builder: the new key is that integer -/
theorem pushScalar_keys (ext : Ext) {b b' : B} {t : IntTy} {i : Int} {index : List String} (hd : b.isDict = false)
    (hw : WFH b) (h : pushScalar ext b (.int t i) = .ok b') (hi : 0 ≤ i ∧ i.toNat < index.length) (hk : KeysH b index) :
    KeysH b' index := by
  have htr := pushScalar_takeRest ext b _ b' h
  cases b with
  | leaf p kind v vals =>
    have hwb : WFB (.leaf p kind v vals) := flat_WFB rfl hw
    obtain ⟨_, lv, hdec, hint⟩ := pushScalar_appends ext _ _ b' hwb (flat_Safe rfl) h
    refine KeysH.append hdec (isNullable_of_takeRest htr) hk ?_
    intro l hl j hj
    simp only [List.mem_singleton] at hl
    subst hl
    have := hint t i j rfl rfl hj
    subst this
    exact ⟨hi.1, Or.inl hi.2⟩
  | dictionary _ _ _ _ => simp [B.isDict] at hd
  | _ =>
    cases b' <;> simp only [takeRest, reduceCtorEq] at htr
    all_goals exact KeysH.of_not_leaf (by intro p k v vals h; cases h) rfl index

/-! ### the childless families, through Lemmas/C01Ops.lean -/

theorem pushDefaultK_flat {b b' : B} {k : Nat} (hf : b.isFlat = true) (hw : WFH b) (h : pushDefaultK b k = .ok b') :
    WFH b' ∧ Refines (decH b') (decH b ++ List.replicate k none) := by
  have hwb := flat_WFB hf hw
  obtain ⟨hw', ls, hls, hdec, _⟩ := pushDefaultK_appends b k b' hwb (flat_DefSafe hf) h
  have hf' := flat_of_takeRest (pushDefaultK_takeRest b k b' h) hf
  refine ⟨WFH_of_WFB _ hw', ?_⟩
  rw [flat_decH hf', flat_decH hf, hdec, List.map_append]
  exact Refines.append (Refines.refl _) (Refines.of_none (by simp [hls]))

theorem pushNone_flat {b b' : B} (hf : b.isFlat = true) (hw : WFH b) (h : pushNone b = .ok b') :
    WFH b' ∧ Refines (decH b') (decH b ++ [some .null]) := by
  have hwb := flat_WFB hf hw
  obtain ⟨hw', hdec⟩ := pushNone_appends b b' hwb (flat_Safe hf) h
  have hf' := flat_of_takeRest (pushNone_takeRest b b' h) hf
  refine ⟨WFH_of_WFB _ hw', ?_⟩
  rw [flat_decH hf', flat_decH hf, hdec, List.map_append]
  exact Refines.refl _

theorem pushScalar_flat (ext : Ext) {b b' : B} {x : SVal} (hf : b.isFlat = true) (hw : WFH b)
    (h : pushScalar ext b x = .ok b') : WFH b' ∧ ∃ lv, Refines (decH b') (decH b ++ [some lv]) := by
  have hwb := flat_WFB hf hw
  obtain ⟨hw', lv, hdec, _⟩ := pushScalar_appends ext b x b' hwb (flat_Safe hf) h
  have hf' := flat_of_takeRest (pushScalar_takeRest ext b x b' h) hf
  refine ⟨WFH_of_WFB _ hw', lv, ?_⟩
  rw [flat_decH hf', flat_decH hf, hdec, List.map_append]
  exact Refines.refl _

/-! ### `serialize_default` × k -/

/-- a builder whose `serialize_default` is a step on its own state only -/
theorem iter_rowsH {α} (mk : α → B) (f : α → R α)
    (hstep : ∀ a a', WFH (mk a) → f a = .ok a' → WFH (mk a') ∧ ∃ l : Option LVal, Refines (decH (mk a')) (decH (mk a) ++ [l]))
    (k : Nat) (a a' : α) (hwf : WFH (mk a)) (h : iter k f a = .ok a') :
    WFH (mk a') ∧ ∃ ls : H, ls.length = k ∧ Refines (decH (mk a')) (decH (mk a) ++ ls) := by
  have := iter_inv (fun i x => WFH (mk x) ∧ ∃ ls : H, ls.length = i ∧ Refines (decH (mk x)) (decH (mk a) ++ ls)) f (by
    intro i x x' ⟨hw, ls, hl, hd⟩ hf
    obtain ⟨hw', l, hd'⟩ := hstep x x' hw hf
    refine ⟨hw', ls ++ [l], by simp [hl], ?_⟩
    exact Refines.extend hd hd') k 0 a a' ⟨hwf, [], rfl, by simpa using Refines.refl _⟩ h
  simpa only [Nat.zero_add] using this

theorem maskNullH_const_false_length (v : Validity) (k : Nat) (ys : H) (hy : ys.length = k) :
    (maskNullH (v.map fun _ => List.replicate k false) ys).length = k := by
  rw [maskNullH_const_false v k ys hy]
  split <;> simp [hy]

theorem fslRowsH_length (n len : Nat) (t : H) : (fslRowsH n len t).length = len := by simp [fslRowsH]
theorem structRowsH_length (len : Nat) (cols : List (String × H)) : (structRowsH len cols).length = len := by
  simp [structRowsH]

mutual
theorem pushDefaultK_refines : ∀ (b : B) (k : Nat) (b' : B), WFH b → NoDictKey b → pushDefaultK b k = .ok b' →
    WFH b' ∧ Refines (decH b') (decH b ++ List.replicate k none)
  | .null p len, k, b', hw, _, h => pushDefaultK_flat rfl hw h
  | .unknownVariant p, k, b', hw, _, h => pushDefaultK_flat rfl hw h
  | .leaf p kind v vals, k, b', hw, _, h => pushDefaultK_flat rfl hw h
  | .bytes p ty v offs data, k, b', hw, _, h => pushDefaultK_flat rfl hw h
  | .bytesView p ty v views buf, k, b', hw, _, h => pushDefaultK_flat rfl hw h
  | .fixedSizeBinary p n len v buf cur, k, b', hw, _, h => pushDefaultK_flat rfl hw h
  | .list p large fm v offs el, k, b', hwf, _, h => by
    simp only [pushDefaultK, ctx_ok] at h
    obtain ⟨⟨v', offs'⟩, h1, h2⟩ := (bind_ok _ _ _).1 h
    cases h2
    have hstep : ∀ (a a' : Validity × List Int), WFH (B.list p large fm a.1 a.2 el) →
        (do let o ← duplicateLast a.2; pure (setValidityDefault a.1 (a.2.length - 1), o) : R (Validity × List Int)) = .ok a' →
        WFH (B.list p large fm a'.1 a'.2 el) ∧
          ∃ l : Option LVal, Refines (decH (B.list p large fm a'.1 a'.2 el)) (decH (B.list p large fm a.1 a.2 el) ++ [l]) := by
      intro a a' hw ha
      obtain ⟨o, ho, ha⟩ := (bind_ok _ _ _).1 ha
      cases ha
      obtain ⟨l, hl, rfl⟩ := duplicateLast_ok ho
      have hw' := hw
      simp only [WFH] at hw'
      rw [hw'.1.2.1] at hl; cases hl
      rw [setValidityDefault_eq hw'.2.1]
      obtain ⟨g1, g2⟩ := list_stepH hw false [] hw'.2.2 (by simpa using Refines.refl _)
      simp only [List.length_nil, Int.natCast_zero, Int.add_zero] at g1 g2
      exact ⟨g1, _, g2⟩
    obtain ⟨g1, ls, hls, g2⟩ := iter_rowsH (fun (s : Validity × List Int) => B.list p large fm s.1 s.2 el) _ hstep k
      (v, offs) (v', offs') hwf h1
    exact ⟨g1, g2.weaken_tail hls⟩
  | .fixedSizeList p fm n len v cur el, k, b', hwf, hnd, h => by
    simp only [pushDefaultK, ctx_ok] at h
    obtain ⟨⟨len', v'⟩, h1, h2⟩ := (bind_ok _ _ _).1 h
    obtain ⟨el', h3, h4⟩ := (bind_ok _ _ _).1 h2
    cases h4
    have hw' := hwf
    simp only [WFH] at hw'
    rw [iter_lenv k len v hw'.1] at h1
    cases h1
    simp only [NoDictKey] at hnd
    obtain ⟨hel, hdec⟩ := pushDefaultK_refines el (k * n) el' hw'.2.2 hnd h3
    obtain ⟨g1, g2⟩ := fsl_appendH hwf (List.replicate k false) (List.replicate (k * n) none) cur hel hdec (by simp)
    simp only [List.length_replicate] at g1 g2
    exact ⟨g1, g2.weaken_tail (maskNullH_const_false_length _ _ _ (fslRowsH_length _ _ _))⟩
  | .map p mm v offs ks vs, k, b', hwf, _, h => by
    simp only [pushDefaultK, ctx_ok] at h
    obtain ⟨⟨v', offs'⟩, h1, h2⟩ := (bind_ok _ _ _).1 h
    cases h2
    have hstep : ∀ (a a' : Validity × List Int), WFH (B.map p mm a.1 a.2 ks vs) →
        (do let o ← duplicateLast a.2; pure (setValidityDefault a.1 (a.2.length - 1), o) : R (Validity × List Int)) = .ok a' →
        WFH (B.map p mm a'.1 a'.2 ks vs) ∧
          ∃ l : Option LVal, Refines (decH (B.map p mm a'.1 a'.2 ks vs)) (decH (B.map p mm a.1 a.2 ks vs) ++ [l]) := by
      intro a a' hw ha
      obtain ⟨o, ho, ha⟩ := (bind_ok _ _ _).1 ha
      cases ha
      obtain ⟨l, hl, rfl⟩ := duplicateLast_ok ho
      have hw' := hw
      simp only [WFH] at hw'
      rw [hw'.1.2.1] at hl; cases hl
      rw [setValidityDefault_eq hw'.2.2.1]
      obtain ⟨g1, g2⟩ := map_stepH hw false [] [] hw'.2.2.2.1 hw'.2.2.2.2 (by simpa using Refines.refl _)
        (by simpa using Refines.refl _) rfl
      simp only [List.length_nil, Int.natCast_zero, Int.add_zero] at g1 g2
      exact ⟨g1, _, g2⟩
    obtain ⟨g1, ls, hls, g2⟩ := iter_rowsH (fun (s : Validity × List Int) => B.map p mm s.1 s.2 ks vs) _ hstep k
      (v, offs) (v', offs') hwf h1
    exact ⟨g1, g2.weaken_tail hls⟩
  | .struct p len v fs cached next seen, k, b', hwf, hnd, h => by
    simp only [pushDefaultK, ctx_ok] at h
    obtain ⟨⟨len', v'⟩, h1, h2⟩ := (bind_ok _ _ _).1 h
    obtain ⟨fs', h3, h4⟩ := (bind_ok _ _ _).1 h2
    cases h4
    have hw' := hwf
    simp only [WFH] at hw'
    rw [iter_lenv k len v hw'.1] at h1
    cases h1
    simp only [NoDictKey] at hnd
    obtain ⟨adds, hext, hk⟩ := pushDefaultKAll_refines fs k fs' len hw'.2.1 hnd h3
    obtain ⟨g1, g2⟩ := struct_appendH (cached' := cached) (next' := next) (seen' := seen) hwf adds
      (List.replicate k false) hext (by simpa using hk)
      (by rw [ExtLH.names fs fs' adds hext]; exact hw'.2.2.2.2)
      (by rw [(ExtLH.length fs fs' adds hext).1]; exact hw'.2.2.1)
    simp only [List.length_replicate] at g1 g2
    exact ⟨g1, g2.weaken_tail (maskNullH_const_false_length _ _ _ (structRowsH_length _ _))⟩
  | .dictionary p idx vals index, k, b', hwf, hnd, h => by
    simp only [pushDefaultK, ctx_ok] at h
    obtain ⟨idx', h1, h2⟩ := (bind_ok _ _ _).1 h
    cases h2
    have hw' := hwf
    simp only [WFH] at hw'
    simp only [NoDictKey] at hnd
    obtain ⟨hidx, hdec⟩ := pushDefaultK_refines idx k idx' hw'.1 hnd.2.1 h1
    obtain ⟨g1, g2⟩ := dict_appendH hwf (List.replicate k none) [] [] hidx hw'.2.1 hdec (by simpa using Refines.refl _)
      (by simpa using hw'.2.2.1) rfl
      (by rw [List.append_nil]; exact pushDefaultK_keys hnd.1 hw'.1 h1 hw'.2.2.2.2.1)
      (by rw [List.append_nil]; exact DictVals.of_wfh hwf)
    simp only [List.append_nil] at g1 g2
    refine ⟨g1, ?_⟩
    simpa [dictRowH] using g2
  | .union p .nil types offs cur, k, b', hwf, _, h => by
    simp only [pushDefaultK, ctx_ok] at h
    split at h
    · rename_i hk; cases h; subst hk; exact ⟨hwf, by simpa using Refines.refl _⟩
    · simp [fail] at h
  | .union p (.cons c m rest) types offs cur, k, b', hwf, hnd, h => by
    simp only [pushDefaultK, ctx_ok] at h
    split at h
    · simp [fail] at h
    split at h
    · simp [fail] at h
    · obtain ⟨fs', h1, h2⟩ := (bind_ok _ _ _).1 h
      split at h2
      · simp [fail] at h2
      cases h2
      obtain ⟨cj, mj, hg⟩ := firstReal_get c m rest
      rw [pushDefaultKAt_eq _ _ k cj mj hg] at h1
      obtain ⟨c', h3, h4⟩ := (bind_ok _ _ _).1 h1
      cases h4
      have hw' := hwf
      simp only [WFH] at hw'
      simp only [NoDictKey] at hnd
      obtain ⟨hcur, hwc⟩ := WFHU_get _ cur _ (cj, mj) hw'.2.2.1 hg
      obtain ⟨hc, hdec⟩ := pushDefaultK_refines_at _ _ cj mj hg k c' hwc (NoDictKeyL.get _ _ _ hnd hg) h3
      obtain ⟨g1, g2⟩ := union_appendH hwf _ cj c' mj hg (List.replicate k none) hc hdec
      have hc0 : cur.getD (firstReal (.cons c m rest)) 0 = ((dec cj).length : Int) := by
        simp only [List.getD_eq_getElem?_getD, hcur, Option.getD_some]
      simp only [List.length_replicate] at g1 g2
      rw [hc0]
      refine ⟨g1, ?_⟩
      simpa using g2
theorem pushDefaultKAll_refines : ∀ (fs : BL) (k : Nat) (fs' : BL) (len : Nat), WFHL fs len → NoDictKeyL fs →
    pushDefaultKAll fs k = .ok fs' → ∃ adds : List H, ExtLH fs fs' adds ∧ ∀ a ∈ adds, a.length = k
  | .nil, k, fs', len, _, _, h => by
    simp [pushDefaultKAll] at h; subst h
    exact ⟨[], by simp [ExtLH], by simp⟩
  | .cons b m rest, k, fs', len, hw, hs, h => by
    simp only [pushDefaultKAll] at h
    obtain ⟨b', h1, h2⟩ := (bind_ok _ _ _).1 h
    obtain ⟨r', h3, h4⟩ := (bind_ok _ _ _).1 h2
    cases h4
    simp only [WFHL] at hw
    simp only [NoDictKeyL] at hs
    obtain ⟨hb, hdec⟩ := pushDefaultK_refines b k b' hw.1 hs.1 h1
    obtain ⟨adds, hext, hk⟩ := pushDefaultKAll_refines rest k r' len hw.2.2 hs.2 h3
    refine ⟨List.replicate k none :: adds, by simp only [ExtLH]; exact ⟨trivial, hb, hdec, hext⟩, ?_⟩
    intro a ha
    rcases List.mem_cons.1 ha with rfl | ha
    · simp
    · exact hk a ha
theorem pushDefaultK_refines_at : ∀ (fs : BL) (j : Nat) (c : B) (m : FieldMeta), fs.get? j = some (c, m) →
    ∀ (k : Nat) (c' : B), WFH c → NoDictKey c → pushDefaultK c k = .ok c' →
    WFH c' ∧ Refines (decH c') (decH c ++ List.replicate k none)
  | .nil, _, _, _, h => by simp [BL.get?] at h
  | .cons b _ _, 0, c, m, h => by
    simp only [BL.get?, Option.some.injEq, Prod.mk.injEq] at h
    rw [← h.1]
    exact fun k c' => pushDefaultK_refines b k c'
  | .cons _ _ rest, j + 1, c, m, h => pushDefaultK_refines_at rest j c m (by simpa [BL.get?] using h)
end

/-! ### `serialize_none` -/

theorem pushNone_refines : ∀ (b b' : B), WFH b → NoDictKey b → pushNone b = .ok b' →
    WFH b' ∧ Refines (decH b') (decH b ++ [some .null])
  | .null p len, b', hw, _, h => pushNone_flat rfl hw h
  | .unknownVariant p, b', hw, _, h => pushNone_flat rfl hw h
  | .leaf p k v vals, b', hw, _, h => pushNone_flat rfl hw h
  | .bytes p ty v offs data, b', hw, _, h => pushNone_flat rfl hw h
  | .bytesView p ty v views buf, b', hw, _, h => pushNone_flat rfl hw h
  | .fixedSizeBinary p n len v buf cur, b', hw, _, h => pushNone_flat rfl hw h
  | .list p large fm v offs el, b', hwf, _, h => by
    simp only [pushNone, ctx_ok] at h
    obtain ⟨v', h1, h2⟩ := (bind_ok _ _ _).1 h
    obtain ⟨o', h3, h4⟩ := (bind_ok _ _ _).1 h2
    cases h4
    have hw' := hwf
    simp only [WFH] at hw'
    obtain ⟨rfl, hs⟩ := isSome_of_setValidity_false hw'.2.1 h1
    obtain ⟨l, hl, rfl⟩ := duplicateLast_ok h3
    rw [hw'.1.2.1] at hl; cases hl
    have := list_stepH hwf false [] hw'.2.2 (by simpa using Refines.refl _)
    simp only [List.length_nil, Int.natCast_zero, Int.add_zero] at this
    rwa [rowOf_false_of_isSome hs] at this
  | .fixedSizeList p fm n len v cur el, b', hwf, hnd, h => by
    simp only [pushNone, ctx_ok] at h
    obtain ⟨v', h1, h2⟩ := (bind_ok _ _ _).1 h
    obtain ⟨el', h3, h4⟩ := (bind_ok _ _ _).1 h2
    cases h4
    have hw' := hwf
    simp only [WFH] at hw'
    obtain ⟨rfl, hs⟩ := isSome_of_setValidity_false hw'.1 h1
    simp only [NoDictKey] at hnd
    obtain ⟨hel, hdec⟩ := pushDefaultK_refines el n el' hw'.2.2 hnd h3
    have := fsl_appendH hwf [false] (List.replicate n none) cur hel hdec (by simp)
    simp only [List.length_singleton] at this
    have e := maskNullH_const_false v 1 (fslRowsH n 1 (List.replicate n none)) (fslRowsH_length _ _ _)
    simp only [List.replicate_one, hs, if_true] at e
    rwa [e] at this
  | .map p mm v offs ks vs, b', hwf, _, h => by
    simp only [pushNone, ctx_ok] at h
    obtain ⟨v', h1, h2⟩ := (bind_ok _ _ _).1 h
    obtain ⟨o', h3, h4⟩ := (bind_ok _ _ _).1 h2
    cases h4
    have hw' := hwf
    simp only [WFH] at hw'
    obtain ⟨rfl, hs⟩ := isSome_of_setValidity_false hw'.2.2.1 h1
    obtain ⟨l, hl, rfl⟩ := duplicateLast_ok h3
    rw [hw'.1.2.1] at hl; cases hl
    have := map_stepH hwf false [] [] hw'.2.2.2.1 hw'.2.2.2.2 (by simpa using Refines.refl _)
      (by simpa using Refines.refl _) rfl
    simp only [List.length_nil, Int.natCast_zero, Int.add_zero] at this
    rwa [rowOf_false_of_isSome hs] at this
  | .struct p len v fs cached next seen, b', hwf, hnd, h => by
    simp only [pushNone, ctx_ok] at h
    obtain ⟨v', h1, h2⟩ := (bind_ok _ _ _).1 h
    obtain ⟨fs', h3, h4⟩ := (bind_ok _ _ _).1 h2
    cases h4
    have hw' := hwf
    simp only [WFH] at hw'
    obtain ⟨rfl, hs⟩ := isSome_of_setValidity_false hw'.1 h1
    simp only [NoDictKey] at hnd
    obtain ⟨adds, hext, hk⟩ := pushDefaultKAll_refines fs 1 fs' len hw'.2.1 hnd h3
    have := struct_appendH (cached' := cached) (next' := next) (seen' := seen) hwf adds [false] hext (by simpa using hk)
      (by rw [ExtLH.names fs fs' adds hext]; exact hw'.2.2.2.2)
      (by rw [(ExtLH.length fs fs' adds hext).1]; exact hw'.2.2.1)
    simp only [List.length_singleton] at this
    have e := maskNullH_const_false v 1 (structRowsH 1 (fs.names.zip adds)) (structRowsH_length _ _)
    simp only [List.replicate_one, hs, if_true] at e
    rwa [e] at this
  | .dictionary p idx vals index, b', hwf, hnd, h => by
    simp only [pushNone, ctx_ok] at h
    split at h
    · simp [fail] at h
    obtain ⟨idx', h1, h2⟩ := (bind_ok _ _ _).1 h
    cases h2
    have hw' := hwf
    simp only [WFH] at hw'
    simp only [NoDictKey] at hnd
    have h1' := (ctx_ok _ _ _).1 h1
    obtain ⟨hidx, hdec⟩ := pushNone_refines idx idx' hw'.1 hnd.2.1 h1'
    have := dict_appendH hwf [some .null] [] [] hidx hw'.2.1 hdec (by simpa using Refines.refl _)
      (by simpa using hw'.2.2.1) rfl
      (by rw [List.append_nil]; exact pushNone_keys hnd.1 hw'.1 h1' hw'.2.2.2.2.1)
      (by rw [List.append_nil]; exact DictVals.of_wfh hwf)
    simpa [dictRowH] using this
  | .union p fs types offs cur, b', _, _, h => by simp [pushNone, ctx_ok, fail] at h

/-! ### scalar calls -/

/-- the dictionary invariant "values decoded = index entries" survives a new entry (`WFH` suffices: a Utf8 value
builder has no children) -/
theorem DictVals_pushH (ext : Ext) {vals vals' : B} {index : List String} {s : String} (hw : WFH vals)
    (hd : DictVals vals index) (h : pushScalar ext vals (.str s) = .ok vals') : DictVals vals' (index ++ [s]) := by
  refine ⟨fun hu => ?_, fun hr => ?_⟩
  · have hu0 : vals.isUtf8B = true := by
      rw [← isUtf8B_takeRest, ← pushScalar_takeRest ext vals _ vals' h, isUtf8B_takeRest]; exact hu
    have hf : vals.isFlat = true := by
      cases vals <;> simp [B.isUtf8B] at hu0 <;> rfl
    rw [pushScalar_utf8_str ext (flat_WFB hf hw) hu0 h, hd.1 hu0]
    simp
  · have hr0 : vals.refusesStr = true := by
      rw [← refusesStr_takeRest, ← pushScalar_takeRest ext vals _ vals' h, refusesStr_takeRest]; exact hr
    exact (pushScalar_refusesStr ext hr0 h).elim

/-- an integer call into a key builder (necessarily childless): one determined key row; if it is an integer, it is
that integer -/
theorem pushScalar_key (ext : Ext) {b b' : B} {t : IntTy} {i : Int} (hd : b.isDict = false) (hw : WFH b)
    (h : pushScalar ext b (.int t i) = .ok b') :
    WFH b' ∧ ∃ lv, Refines (decH b') (decH b ++ [some lv]) ∧ (∀ j : Int, lv = .int j → j = i) := by
  by_cases hf : b.isFlat = true
  · have hwb := flat_WFB hf hw
    obtain ⟨hw', lv, hdec, hint⟩ := pushScalar_appends ext b _ b' hwb (flat_Safe hf) h
    have hf' := flat_of_takeRest (pushScalar_takeRest ext b _ b' h) hf
    refine ⟨WFH_of_WFB _ hw', lv, ?_, fun j hj => hint t i j hd rfl hj⟩
    rw [flat_decH hf', flat_decH hf, hdec, List.map_append]
    exact Refines.refl _
  · cases b <;> first
      | (exfalso; exact hf rfl)
      | (simp [B.isDict] at hd; done)
      | (simp [pushScalar, notSupported, fail] at h; done)

theorem dictRowH_det {vs : H} (hv : ∀ r ∈ vs, r.isSome = true) (lv : LVal)
    (hk : ∀ j : Int, lv = .int j → j.toNat < vs.length) : ∃ x, dictRowH vs (some lv) = some x := by
  cases lv with
  | int j =>
    have hlt := hk j rfl
    have hm := hv vs[j.toNat] (List.getElem_mem _)
    simp only [dictRowH, List.getD_eq_getElem?_getD, List.getElem?_eq_getElem hlt, Option.getD_some]
    cases hr : vs[j.toNat] with
    | none => rw [hr] at hm; cases hm
    | some x => exact ⟨x, rfl⟩
  | _ => exact ⟨.null, rfl⟩

theorem pushScalar_refines (ext : Ext) : ∀ (b : B) (x : SVal) (b' : B), WFH b → NoDictKey b → pushScalar ext b x = .ok b' →
    WFH b' ∧ ∃ lv, Refines (decH b') (decH b ++ [some lv])
  | .null p len, x, b', hw, _, h => pushScalar_flat ext rfl hw h
  | .unknownVariant p, x, b', hw, _, h => pushScalar_flat ext rfl hw h
  | .leaf p k v vals, x, b', hw, _, h => pushScalar_flat ext rfl hw h
  | .bytes p ty v offs data, x, b', hw, _, h => pushScalar_flat ext rfl hw h
  | .bytesView p ty v views buf, x, b', hw, _, h => pushScalar_flat ext rfl hw h
  | .fixedSizeBinary p n len v buf cur, x, b', hw, _, h => pushScalar_flat ext rfl hw h
  | .dictionary p idx vals index, x, b', hwf, hnd, h => by
    unfold pushScalar at h
    simp only at h
    have hw' := hwf
    simp only [WFH] at hw'
    simp only [NoDictKey] at hnd
    have hvl : (decH vals).length = index.length := by rw [decH_length]; exact hw'.2.2.2.1
    split at h
    · rename_i s _
      split at h
      · rename_i i hi
        obtain ⟨idx', h1, h2⟩ := (bind_ok _ _ _).1 h
        cases h2
        rw [ctx_eq_ok] at h1
        obtain ⟨hidx, lv, hdec, hint⟩ := pushScalar_key ext hnd.1 hw'.1 h1
        have hlt : i < index.length := by
          have := SaModel.Props.C11Front.indexOfName_some index s i hi
          rcases Nat.lt_or_ge i index.length with h | h
          · exact h
          · rw [List.getElem?_eq_none_iff.mpr h] at this; cases this
        obtain ⟨g1, g2⟩ := dict_appendH hwf [some lv] [] [] hidx hw'.2.1 hdec (by simpa using Refines.refl _)
          (by simpa using hw'.2.2.1) rfl
          (by rw [List.append_nil]
              exact pushScalar_keys ext hnd.1 hw'.1 h1 ⟨by omega, by simpa using hlt⟩ hw'.2.2.2.2.1)
          (by rw [List.append_nil]; exact hw'.2.2.2.2.2.1)
        simp only [List.append_nil, List.map_cons, List.map_nil] at g1 g2
        obtain ⟨x, hx⟩ := dictRowH_det hw'.2.2.2.2.2.2 lv (by
          intro j hj
          have := hint j hj
          subst this
          rw [hvl]; simpa using hlt)
        rw [hx] at g2
        exact ⟨g1, x, g2⟩
      · rename_i hi
        obtain ⟨vals', h1, h2⟩ := (bind_ok _ _ _).1 h
        obtain ⟨idx', h3, h4⟩ := (bind_ok _ _ _).1 h2
        cases h4
        rw [ctx_eq_ok] at h1 h3
        obtain ⟨hvals, lw, hdecv⟩ := pushScalar_refines ext vals _ vals' hw'.2.1 hnd.2.2 h1
        obtain ⟨hidx, lv, hdec, hint⟩ := pushScalar_key ext hnd.1 hw'.1 h3
        have hnotin : s ∉ index := by
          intro hmem
          obtain ⟨i, hi', he⟩ := List.getElem_of_mem hmem
          have := SaModel.Props.C11Front.indexOfName_go_none s index 0 hi i
          apply this
          simp [hi', he]
        obtain ⟨g1, g2⟩ := dict_appendH hwf [some lv] [lw] [s] hidx hvals hdec (by simpa using hdecv)
          (by
            rw [List.nodup_append]
            exact ⟨hw'.2.2.1, by simp, by intro a ha b hb; simp at hb; subst hb; intro he; subst he; exact hnotin ha⟩)
          rfl
          (pushScalar_keys ext hnd.1 hw'.1 h3 ⟨by omega, by simp⟩ (hw'.2.2.2.2.1.mono (by simp)))
          (DictVals_pushH ext hw'.2.1 hw'.2.2.2.2.2.1 h1)
        simp only [List.map_cons, List.map_nil] at g1 g2
        obtain ⟨x, hx⟩ := dictRowH_det (vs := decH vals ++ [some lw]) (by
            intro r hr
            rcases List.mem_append.1 hr with h | h
            · exact hw'.2.2.2.2.2.2 r h
            · simp only [List.mem_singleton] at h; subst h; rfl) lv (by
          intro j hj
          have := hint j hj
          subst this
          simp [hvl])
        rw [hx] at g2
        exact ⟨g1, x, g2⟩
    · simp [notSupported, fail] at h
  | .list _ _ _ _ _ _, x, b', _, _, h => by simp [pushScalar, notSupported, fail] at h
  | .fixedSizeList _ _ _ _ _ _ _, x, b', _, _, h => by simp [pushScalar, notSupported, fail] at h
  | .map _ _ _ _ _ _, x, b', _, _, h => by simp [pushScalar, notSupported, fail] at h
  | .struct _ _ _ _ _ _ _, x, b', _, _, h => by simp [pushScalar, notSupported, fail] at h
  | .union _ _ _ _ _, x, b', _, _, h => by simp [pushScalar, notSupported, fail] at h

end SaModel.Build
