import SaModel.Lemmas.C01ObsComb
/-
C01 "hidden rows" — R1', the work-horse WITHOUT the first clause of `Safe`: every successful `push` keeps the weak state
invariant `WFH` and appends exactly ONE DETERMINED observable row; every row that was determined is unchanged.  One mutual
structural recursion over the serde value, all builder families (the observable-rows counterpart of Lemmas/C01Push.lean).
-/
namespace SaModel.Build
open SaModel SaModel.Spec

/-- map entries: keys and values grow in step, the open offset by the number of keys -/
def MapOKH (pm : List Int → B → B → R (List Int × B × B)) : Prop :=
  ∀ base l ks vs r, WFH ks → WFH vs → NoDictKey ks → NoDictKey vs → pm (base ++ [l]) ks vs = .ok r →
    WFH r.2.1 ∧ WFH r.2.2 ∧ ∃ lk lw : List LVal, lw.length = lk.length ∧
      Refines (decH r.2.1) (decH ks ++ lk.map some) ∧ Refines (decH r.2.2) (decH vs ++ lw.map some) ∧
      r.1 = base ++ [l + (lk.length : Int)]

theorem map_row_refines {p mm v offs ks vs} {pm : List Int → B → B → R (List Int × B × B)} {b' : B}
    (hwf : WFH (.map p mm v offs ks vs)) (hsafe : NoDictKey (.map p mm v offs ks vs)) (hpm : MapOKH pm)
    (h : (do
      let v' ← setValidity v (offs.length - 1) true
      let offs' ← duplicateLast offs
      let (offs'', ks', vs') ← pm offs' ks vs
      pure (.map p mm v' offs'' ks' vs') : R B) = .ok b') :
    WFH b' ∧ ∃ lv, Refines (decH b') (decH (.map p mm v offs ks vs) ++ [some lv]) := sorry

theorem StepOKH.of_push {ext : Ext} {x : SVal}
    (h : ∀ (b b' : B), WFH b → NoDictKey b → push ext b x = .ok b' → WFH b' ∧ ∃ lv, Refines (decH b') (decH b ++ [some lv])) :
    StepOKH (fun c => push ext c x) := sorry

theorem FieldsOKH.next {pf : SS → R SS} (h : FieldsOKH pf) (n : Nat) : FieldsOKH (fun s => pf { s with next := n }) := sorry

mutual
theorem push_refines (ext : Ext) : ∀ (x : SVal) (b b' : B), WFH b → NoDictKey b → push ext b x = .ok b' →
    WFH b' ∧ ∃ lv, Refines (decH b') (decH b ++ [some lv]) := sorry
theorem pushElems_refines (ext : Ext) : ∀ (xs : SVals), ElemsOKH (fun large el offs => pushElems ext large el offs xs) := sorry
theorem pushCountElems_refines (ext : Ext) : ∀ (xs : SVals), CountOKH (fun el c => pushCountElems ext el c xs) := sorry
theorem pushTupleElems_refines (ext : Ext) : ∀ (xs : SVals), FieldsOKH (fun s => pushTupleElems ext s xs) := sorry
theorem pushFields_refines (ext : Ext) : ∀ (fs : SFields), FieldsOKH (fun s => pushFields ext s fs) := sorry
theorem pushStructEntries_refines (ext : Ext) : ∀ (es : SEntries), FieldsOKH (fun s => pushStructEntries ext s es) := sorry
theorem pushStructOps_refines (ext : Ext) : ∀ (ops : SMapOps), FieldsOKH (fun s => pushStructOps ext s ops) := sorry
theorem pushMapEntries_refines (ext : Ext) : ∀ (es : SEntries), MapOKH (fun offs ks vs => pushMapEntries ext offs ks vs es) := sorry
theorem pushMapOps_refines_gen (ext : Ext) : ∀ (ops : SMapOps) (pd : Bool) (base : List Int) (l : Int) (ks vs : B)
    (r : List Int × B × B), WFH ks → WFH vs → NoDictKey ks → NoDictKey vs → pushMapOps ext pd (base ++ [l]) ks vs ops = .ok r →
    WFH r.2.1 ∧ WFH r.2.2 ∧ ∃ lk lw : List LVal, lw.length = lk.length + (if pd then 1 else 0) ∧
      Refines (decH r.2.1) (decH ks ++ lk.map some) ∧ Refines (decH r.2.2) (decH vs ++ lw.map some) ∧
      r.1 = base ++ [l + (lk.length : Int)] := sorry
end

/-- one map value (`serialize_map_start` resets the flag): an ACCEPTED raw stream has kept keys and values in step -/
theorem pushMapOps_refines (ext : Ext) (ops : SMapOps) : MapOKH (fun offs ks vs => pushMapOps ext false offs ks vs ops) := sorry

end SaModel.Build
