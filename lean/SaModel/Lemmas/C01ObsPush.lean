import SaModel.Lemmas.C01ObsComb
/-
C01 "hidden rows" — R1', the work-horse WITHOUT the first clause of `Safe`: every successful `push` keeps the weak state
invariant `WFH` and appends exactly ONE DETERMINED observable row; every row that was determined is unchanged.  One mutual
structural recursion over the serde value, all builder families (the observable-rows counterpart of Lemmas/C01Push.lean).
-/
namespace SaModel.Build
open SaModel SaModel.Spec

/-- map entries: keys and values grow in step, the open offset by the number of keys -/
def MapOKH (pm : List Int → B → B → R (List Int × B × B)) : Prop :=
  ∀ base l ks vs r, WFH ks → WFH vs → NoDictKey ks → NoDictKey vs → pm (base ++ [l]) ks vs = .ok r →
    WFH r.2.1 ∧ WFH r.2.2 ∧ ∃ lk lw : List LVal, lw.length = lk.length ∧
      Refines (decH r.2.1) (decH ks ++ lk.map some) ∧ Refines (decH r.2.2) (decH vs ++ lw.map some) ∧
      r.1 = base ++ [l + (lk.length : Int)]

theorem map_row_refines {p mm v offs ks vs} {pm : List Int → B → B → R (List Int × B × B)} {b' : B}
    (hwf : WFH (.map p mm v offs ks vs)) (hsafe : NoDictKey (.map p mm v offs ks vs)) (hpm : MapOKH pm)
    (h : (do
      let v' ← setValidity v (offs.length - 1) true
      let offs' ← duplicateLast offs
      let (offs'', ks', vs') ← pm offs' ks vs
      pure (.map p mm v' offs'' ks' vs') : R B) = .ok b') :
    WFH b' ∧ ∃ lv, Refines (decH b') (decH (.map p mm v offs ks vs) ++ [some lv]) := by
  obtain ⟨v', h1, h⟩ := (bind_ok _ _ _).1 h
  obtain ⟨o1, h2, h⟩ := (bind_ok _ _ _).1 h
  obtain ⟨⟨o2, ks', vs'⟩, h3, h⟩ := (bind_ok _ _ _).1 h
  cases h
  have hw' := hwf
  simp only [WFH] at hw'
  simp only [NoDictKey] at hsafe
  obtain ⟨rfl, _⟩ := setValidity_ok hw'.2.2.1 h1
  obtain ⟨l, hl, rfl⟩ := duplicateLast_ok h2
  rw [hw'.1.2.1] at hl; cases hl
  obtain ⟨hks, hvs, lk, lw, hlen, hdk, hdv, ho⟩ := hpm _ _ _ _ _ hw'.2.2.2.1 hw'.2.2.2.2 hsafe.1 hsafe.2 h3
  simp only at hks hvs hdk hdv ho
  subst ho
  have := map_stepH hwf true lk lw hks hvs hdk hdv hlen
  rw [rowOf_true] at this
  exact ⟨this.1, _, this.2⟩

theorem StepOKH.of_push {ext : Ext} {x : SVal}
    (h : ∀ (b b' : B), WFH b → NoDictKey b → push ext b x = .ok b' → WFH b' ∧ ∃ lv, Refines (decH b') (decH b ++ [some lv])) :
    StepOKH (fun c => push ext c x) := by
  intro c c' hw hs hp
  obtain ⟨a, b⟩ := h c c' hw hs hp
  exact ⟨a, NoDictKey.of_takeRest (push_takeRest ext x c c' hp) hs, b⟩

theorem FieldsOKH.next {pf : SS → R SS} (h : FieldsOKH pf) (n : Nat) : FieldsOKH (fun s => pf { s with next := n }) := by
  intro fs0 s adds s' hm hp
  obtain ⟨a, b⟩ := h fs0 _ adds s' (hm.next n) hp
  exact ⟨a, b⟩

mutual
theorem push_refines (ext : Ext) : ∀ (x : SVal) (b b' : B), WFH b → NoDictKey b → push ext b x = .ok b' →
    WFH b' ∧ ∃ lv, Refines (decH b') (decH b ++ [some lv])
  | .some v, b, b', hwf, hs, h => by
    rw [push] at h; exact push_refines ext v b b' hwf hs h
  | .newtypeStruct _ v, b, b', hwf, hs, h => by
    rw [push] at h; exact push_refines ext v b b' hwf hs h
  | .none, b, b', hwf, hs, h => by
    rw [push] at h
    obtain ⟨a, d⟩ := pushNone_refines b b' hwf hs h
    exact ⟨a, _, d⟩
  | .unit, b, b', hwf, hs, h => by
    cases b with
    | unknownVariant p => simp [push, ctx_ok, fail] at h
    | _ =>
      simp only [push] at h
      obtain ⟨a, d⟩ := pushNone_refines _ b' hwf hs h
      exact ⟨a, _, d⟩
  | .seq xs, b, b', hwf, hs, h => by
    rw [push, ctx_ok] at h
    exact seqLikeWith_refines (pushElems_refines ext xs) (pushCountElems_refines ext xs)
      (pushTupleElems_refines ext xs) b _ b' hwf hs h
  | .tuple xs, b, b', hwf, hs, h => by
    rw [push, ctx_ok] at h
    exact seqLikeWith_refines (pushElems_refines ext xs) (pushCountElems_refines ext xs)
      (pushTupleElems_refines ext xs) b _ b' hwf hs h
  | .tupleStruct _ xs, b, b', hwf, hs, h => by
    rw [push, ctx_ok] at h
    exact seqLikeWith_refines (pushElems_refines ext xs) (pushCountElems_refines ext xs)
      (pushTupleElems_refines ext xs) b _ b' hwf hs h
  | .record _ fs, b, b', hwf, hs, h => by
    rw [push, ctx_ok] at h
    exact recordWith_refines (pushFields_refines ext fs) b b' hwf hs h
  | .map es, b, b', hwf, hs, h => by
    cases b with
    | struct p len v fs cached next seen =>
      simp only [push, ctx_ok] at h
      exact record_refines (pf := fun s => pushStructEntries ext { s with next := UNKNOWN_KEY } es) hwf hs
        ((pushStructEntries_refines ext es).next _) h
    | map p mm v offs ks vs =>
      simp only [push, ctx_ok] at h
      exact map_row_refines (pm := fun offs ks vs => pushMapEntries ext offs ks vs es) hwf hs
        (pushMapEntries_refines ext es) h
    | _ => simp [push, ctx_ok, notSupported, fail] at h
  | .mapRaw ops, b, b', hwf, hs, h => by
    cases b with
    | struct p len v fs cached next seen =>
      simp only [push, ctx_ok] at h
      exact record_refines (pf := fun s => pushStructOps ext { s with next := UNKNOWN_KEY } ops) hwf hs
        ((pushStructOps_refines ext ops).next _) h
    | map p mm v offs ks vs =>
      simp only [push, ctx_ok] at h
      refine map_row_refines (pm := fun offs ks vs => pushMapOps ext false offs ks vs ops) hwf hs ?_ h
      intro base l ks vs r hk hv hsk hsv h
      obtain ⟨g1, g2, lk, lw, hlen, rest⟩ := pushMapOps_refines_gen ext ops false base l ks vs r hk hv hsk hsv h
      exact ⟨g1, g2, lk, lw, by simpa using hlen, rest⟩
    | _ => simp [push, ctx_ok, notSupported, fail] at h
  | .unitVariant n i vn, b, b', hwf, hs, h => by
    cases b with
    | union p fs types offs cur =>
      simp only [push, ctx_ok] at h
      refine union_row_refines (pc := fun c => match c with
          | .unknownVariant _ => ctx c.ann (fail "Unknown variant does not support serialize_unit")
          | _ => pushNone c) hwf hs ?_ h
      intro c c' hw hsc hc
      simp only at hc
      split at hc
      · simp [ctx_ok, fail] at hc
      · obtain ⟨a, d⟩ := pushNone_refines c c' hw hsc hc
        exact ⟨a, NoDictKey.of_takeRest (pushNone_takeRest c c' hc) hsc, _, d⟩
    | _ =>
      simp only [push, ctx_ok] at h
      obtain ⟨a, lv, d⟩ := pushScalar_refines ext _ _ b' hwf hs h
      exact ⟨a, lv, d⟩
  | .newtypeVariant _ i _ v, b, b', hwf, hs, h => by
    cases b with
    | union p fs types offs cur =>
      simp only [push, ctx_ok] at h
      exact union_row_refines (pc := fun c => push ext c v) hwf hs
        (StepOKH.of_push (fun c c' => push_refines ext v c c')) h
    | bytes _ ty _ _ _ => simp only [push, ctx_ok] at h; split at h <;> simp [notSupported, fail] at h
    | bytesView _ ty _ _ _ => simp only [push, ctx_ok] at h; split at h <;> simp [notSupported, fail] at h
    | _ => simp [push, ctx_ok, notSupported, fail] at h
  | .tupleVariant _ i _ xs, b, b', hwf, hs, h => by
    cases b with
    | union p fs types offs cur =>
      simp only [push, ctx_ok] at h
      refine union_row_refines (pc := fun c => ctx c.ann (seqLikeWith (fun large el offs => pushElems ext large el offs xs)
        (fun el c => pushCountElems ext el c xs) (fun s => pushTupleElems ext s xs) (u8All xs) c .tupleStruct)) hwf hs ?_ h
      intro c c' hw hsc hc
      rw [ctx_ok] at hc
      obtain ⟨a, d⟩ := seqLikeWith_refines (pushElems_refines ext xs) (pushCountElems_refines ext xs)
        (pushTupleElems_refines ext xs) c _ c' hw hsc hc
      refine ⟨a, NoDictKey.of_takeRest ?_ hsc, d⟩
      exact seqLikeWith_takeRest (fun large el offs r hr => pushElems_takeRest ext xs large el offs r hr)
        (fun el c r hr => pushCountElems_takeRest ext xs el c r hr)
        (fun s s' hs => pushTupleElems_takeRest ext xs s s' hs) c _ c' hc
    | bytes _ ty _ _ _ => simp only [push, ctx_ok] at h; split at h <;> simp [notSupported, fail] at h
    | bytesView _ ty _ _ _ => simp only [push, ctx_ok] at h; split at h <;> simp [notSupported, fail] at h
    | _ => simp [push, ctx_ok, notSupported, fail] at h
  | .structVariant _ i _ fields, b, b', hwf, hs, h => by
    cases b with
    | union p fs types offs cur =>
      simp only [push, ctx_ok] at h
      refine union_row_refines (pc := fun c => ctx c.ann (recordWith (fun s => pushFields ext s fields) c)) hwf hs ?_ h
      intro c c' hw hsc hc
      rw [ctx_ok] at hc
      obtain ⟨a, d⟩ := recordWith_refines (pushFields_refines ext fields) c c' hw hsc hc
      refine ⟨a, NoDictKey.of_takeRest ?_ hsc, d⟩
      exact recordWith_takeRest (fun s s' hs => pushFields_takeRest ext fields s s' hs) c c' hc
    | bytes _ ty _ _ _ => simp only [push, ctx_ok] at h; split at h <;> simp [notSupported, fail] at h
    | bytesView _ ty _ _ _ => simp only [push, ctx_ok] at h; split at h <;> simp [notSupported, fail] at h
    | _ => simp [push, ctx_ok, notSupported, fail] at h
  | .bytes bs, b, b', hwf, hs, h => by
    cases b with
    | list p large fm v offs el =>
      simp only [push, ctx_ok] at h
      obtain ⟨v', h1, h⟩ := (bind_ok _ _ _).1 h
      obtain ⟨o1, h2, h⟩ := (bind_ok _ _ _).1 h
      obtain ⟨⟨el', o2⟩, h3, h⟩ := (bind_ok _ _ _).1 h
      cases h
      have hw' := hwf
      simp only [WFH] at hw'
      obtain ⟨rfl, _⟩ := setValidity_ok hw'.2.1 h1
      obtain ⟨l, hl, rfl⟩ := duplicateLast_ok h2
      rw [hw'.1.2.1] at hl; cases hl
      obtain ⟨hel, ls, hdec, ho⟩ := pushByteElems_refines ext large bs el _ _ _ hw'.2.2 (by simpa only [NoDictKey] using hs) h3
      simp only at hel hdec ho
      subst ho
      have := list_stepH hwf true ls hel hdec
      rw [rowOf_true] at this
      exact ⟨this.1, _, this.2⟩
    | _ =>
      simp only [push, ctx_ok] at h
      obtain ⟨a, lv, d⟩ := pushScalar_refines ext _ _ b' hwf hs h
      exact ⟨a, lv, d⟩
  | .bool x, b, b', hwf, hs, h => by
    rw [push, ctx_ok] at h
    obtain ⟨a, lv, d⟩ := pushScalar_refines ext _ _ b' hwf hs h
    exact ⟨a, lv, d⟩
  | .int t x, b, b', hwf, hs, h => by
    rw [push, ctx_ok] at h
    obtain ⟨a, lv, d⟩ := pushScalar_refines ext _ _ b' hwf hs h
    exact ⟨a, lv, d⟩
  | .f32 x, b, b', hwf, hs, h => by
    rw [push, ctx_ok] at h
    obtain ⟨a, lv, d⟩ := pushScalar_refines ext _ _ b' hwf hs h
    exact ⟨a, lv, d⟩
  | .f64 x, b, b', hwf, hs, h => by
    rw [push, ctx_ok] at h
    obtain ⟨a, lv, d⟩ := pushScalar_refines ext _ _ b' hwf hs h
    exact ⟨a, lv, d⟩
  | .char x, b, b', hwf, hs, h => by
    rw [push, ctx_ok] at h
    obtain ⟨a, lv, d⟩ := pushScalar_refines ext _ _ b' hwf hs h
    exact ⟨a, lv, d⟩
  | .str x, b, b', hwf, hs, h => by
    rw [push, ctx_ok] at h
    obtain ⟨a, lv, d⟩ := pushScalar_refines ext _ _ b' hwf hs h
    exact ⟨a, lv, d⟩
  | .unitStruct x, b, b', hwf, hs, h => by
    cases b with
    | unknownVariant p => simp [push, ctx_ok, fail] at h
    | _ =>
      simp only [push] at h
      obtain ⟨a, d⟩ := pushNone_refines _ b' hwf hs h
      exact ⟨a, _, d⟩

theorem pushElems_refines (ext : Ext) : ∀ (xs : SVals),
    ElemsOKH (fun large el offs => pushElems ext large el offs xs)
  | .nil => by
    intro large el base l r hwf _ h
    simp only [pushElems] at h; cases h
    exact ⟨hwf, [], by simpa using Refines.refl _, by simp⟩
  | .cons x rest => by
    intro large el base l r hwf hs h
    simp only [pushElems] at h
    obtain ⟨o', h1, h⟩ := (bind_ok _ _ _).1 h
    obtain ⟨el', h2, h⟩ := (bind_ok _ _ _).1 h
    have := incrementLast_snoc h1
    subst this
    obtain ⟨hel', lv, hdec⟩ := push_refines ext x el el' hwf hs h2
    have hs' := NoDictKey.of_takeRest (push_takeRest ext x el el' h2) hs
    obtain ⟨hr, ls, hd, ho⟩ := pushElems_refines ext rest large el' base (l + 1) r hel' hs' h
    refine ⟨hr, lv :: ls, Refines.cons_some hdec hd, ?_⟩
    rw [ho]; simp; omega

theorem pushCountElems_refines (ext : Ext) : ∀ (xs : SVals),
    CountOKH (fun el c => pushCountElems ext el c xs)
  | .nil => by
    intro el c r hwf _ h
    simp only [pushCountElems] at h; cases h
    exact ⟨hwf, [], by simpa using Refines.refl _, by simp⟩
  | .cons x rest => by
    intro el c r hwf hs h
    simp only [pushCountElems] at h
    obtain ⟨el', h2, h⟩ := (bind_ok _ _ _).1 h
    obtain ⟨hel', lv, hdec⟩ := push_refines ext x el el' hwf hs h2
    have hs' := NoDictKey.of_takeRest (push_takeRest ext x el el' h2) hs
    obtain ⟨hr, ls, hd, ho⟩ := pushCountElems_refines ext rest el' (c + 1) r hel' hs' h
    refine ⟨hr, lv :: ls, Refines.cons_some hdec hd, ?_⟩
    rw [ho]; simp; omega

theorem pushTupleElems_refines (ext : Ext) : ∀ (xs : SVals),
    FieldsOKH (fun s => pushTupleElems ext s xs)
  | .nil => by
    intro fs0 s adds s' hm h
    simp only [pushTupleElems] at h; cases h
    exact ⟨⟨adds, hm⟩, Same.refl _⟩
  | .cons x rest => by
    intro fs0 s adds s' hm h
    simp only [pushTupleElems] at h
    split at h
    · obtain ⟨s1, h1, h⟩ := (bind_ok _ _ _).1 h
      obtain ⟨⟨adds1, hm1⟩, hsame1⟩ := SS.element_midH hm
        (StepOKH.of_push (fun c c' => push_refines ext x c c')) h1
      obtain ⟨a, hsame⟩ := pushTupleElems_refines ext rest fs0 s1 adds1 s' hm1 h
      exact ⟨a, hsame.trans hsame1⟩
    · exact pushTupleElems_refines ext rest fs0 s adds s' hm h

theorem pushFields_refines (ext : Ext) : ∀ (fs : SFields),
    FieldsOKH (fun s => pushFields ext s fs)
  | .nil => by
    intro fs0 s adds s' hm h
    simp only [pushFields] at h; cases h
    exact ⟨⟨adds, hm⟩, Same.refl _⟩
  | .cons key al x rest => by
    intro fs0 s adds s' hm h
    simp only [pushFields] at h
    have hl := (SaModel.Props.C11Front.lookup_sound s.fields.names s.cached s.next (key, al) hm.nodup hm.cache).2
    split at h
    · rename_i cached' heq
      rw [heq] at hl
      obtain ⟨a, hsame⟩ := pushFields_refines ext rest fs0 _ adds s' (hm.cached cached' hl) h
      exact ⟨a, hsame⟩
    · rename_i idx cached' heq
      rw [heq] at hl
      obtain ⟨s1, h1, h⟩ := (bind_ok _ _ _).1 h
      obtain ⟨⟨adds1, hm1⟩, hsame1⟩ := SS.element_midH (hm.cached cached' hl)
        (StepOKH.of_push (fun c c' => push_refines ext x c c')) h1
      obtain ⟨a, hsame⟩ := pushFields_refines ext rest fs0 s1 adds1 s' hm1 h
      exact ⟨a, hsame.trans hsame1⟩

theorem pushStructEntries_refines (ext : Ext) : ∀ (es : SEntries),
    FieldsOKH (fun s => pushStructEntries ext s es)
  | .nil => by
    intro fs0 s adds s' hm h
    simp only [pushStructEntries] at h; cases h
    exact ⟨⟨adds, hm⟩, Same.refl _⟩
  | .cons k x rest => by
    intro fs0 s adds s' hm h
    simp only [pushStructEntries] at h
    obtain ⟨key, _, h⟩ := (bind_ok _ _ _).1 h
    split at h
    · obtain ⟨a, hsame⟩ := pushStructEntries_refines ext rest fs0 _ adds s' (hm.next _) h
      exact ⟨a, hsame⟩
    · obtain ⟨s1, h1, h⟩ := (bind_ok _ _ _).1 h
      obtain ⟨⟨adds1, hm1⟩, hsame1⟩ := SS.element_midH hm
        (StepOKH.of_push (fun c c' => push_refines ext x c c')) h1
      obtain ⟨a, hsame⟩ := pushStructEntries_refines ext rest fs0 _ adds1 s' (hm1.next _) h
      exact ⟨a, hsame.trans hsame1⟩

theorem pushStructOps_refines (ext : Ext) : ∀ (ops : SMapOps),
    FieldsOKH (fun s => pushStructOps ext s ops)
  | .nil => by
    intro fs0 s adds s' hm h
    simp only [pushStructOps] at h; cases h
    exact ⟨⟨adds, hm⟩, Same.refl _⟩
  | .key k rest => by
    intro fs0 s adds s' hm h
    simp only [pushStructOps] at h
    obtain ⟨key, _, h⟩ := (bind_ok _ _ _).1 h
    obtain ⟨a, hsame⟩ := pushStructOps_refines ext rest fs0 _ adds s' (hm.next _) h
    exact ⟨a, hsame⟩
  | .value x rest => by
    intro fs0 s adds s' hm h
    simp only [pushStructOps] at h
    split at h
    · obtain ⟨s1, h1, h⟩ := (bind_ok _ _ _).1 h
      obtain ⟨⟨adds1, hm1⟩, hsame1⟩ := SS.element_midH hm
        (StepOKH.of_push (fun c c' => push_refines ext x c c')) h1
      obtain ⟨a, hsame⟩ := pushStructOps_refines ext rest fs0 _ adds1 s' (hm1.next _) h
      exact ⟨a, hsame.trans hsame1⟩
    · obtain ⟨a, hsame⟩ := pushStructOps_refines ext rest fs0 _ adds s' (hm.next _) h
      exact ⟨a, hsame⟩

theorem pushMapEntries_refines (ext : Ext) : ∀ (es : SEntries),
    MapOKH (fun offs ks vs => pushMapEntries ext offs ks vs es)
  | .nil => by
    intro base l ks vs r hk hv _ _ h
    simp only [pushMapEntries] at h; cases h
    exact ⟨hk, hv, [], [], rfl, by simpa using Refines.refl _, by simpa using Refines.refl _, by simp⟩
  | .cons k x rest => by
    intro base l ks vs r hk hv hsk hsv h
    simp only [pushMapEntries] at h
    obtain ⟨o', h1, h⟩ := (bind_ok _ _ _).1 h
    obtain ⟨ks', h2, h⟩ := (bind_ok _ _ _).1 h
    obtain ⟨vs', h3, h⟩ := (bind_ok _ _ _).1 h
    have := incrementLast_snoc h1
    subst this
    obtain ⟨hk', lk0, hdk⟩ := push_refines ext k ks ks' hk hsk h2
    obtain ⟨hv', lv0, hdv⟩ := push_refines ext x vs vs' hv hsv h3
    have hsk' := NoDictKey.of_takeRest (push_takeRest ext k ks ks' h2) hsk
    have hsv' := NoDictKey.of_takeRest (push_takeRest ext x vs vs' h3) hsv
    obtain ⟨g1, g2, lk, lw, hlen, gk, gv, go⟩ :=
      pushMapEntries_refines ext rest base (l + 1) ks' vs' r hk' hv' hsk' hsv' h
    refine ⟨g1, g2, lk0 :: lk, lv0 :: lw, by simp [hlen], Refines.cons_some hdk gk, Refines.cons_some hdv gv, ?_⟩
    rw [go]; simp; omega

/-- a raw key/value stream into a map builder, from any state of the `key_pending` flag: when it is accepted, the
values received are one more than the keys exactly if a key was pending at the start -/
theorem pushMapOps_refines_gen (ext : Ext) : ∀ (ops : SMapOps) (pd : Bool) (base : List Int) (l : Int) (ks vs : B)
    (r : List Int × B × B), WFH ks → WFH vs → NoDictKey ks → NoDictKey vs → pushMapOps ext pd (base ++ [l]) ks vs ops = .ok r →
    WFH r.2.1 ∧ WFH r.2.2 ∧ ∃ lk lw : List LVal, lw.length = lk.length + (if pd then 1 else 0) ∧
      Refines (decH r.2.1) (decH ks ++ lk.map some) ∧ Refines (decH r.2.2) (decH vs ++ lw.map some) ∧
      r.1 = base ++ [l + (lk.length : Int)]
  | .nil, pd, base, l, ks, vs, r, hk, hv, _, _, h => by
    obtain ⟨rfl, rfl⟩ := pushMapOps_nil_ok h
    exact ⟨hk, hv, [], [], rfl, by simpa using Refines.refl _, by simpa using Refines.refl _, by simp⟩
  | .key k rest, pd, base, l, ks, vs, r, hk, hv, hsk, hsv, h => by
    obtain ⟨rfl, o', ks', h1, h2, h⟩ := pushMapOps_key_ok h
    have := incrementLast_snoc h1
    subst this
    obtain ⟨hk', lk0, hdk⟩ := push_refines ext k ks ks' hk hsk h2
    have hsk' := NoDictKey.of_takeRest (push_takeRest ext k ks ks' h2) hsk
    obtain ⟨g1, g2, lk, lw, hlen, gk, gv, go⟩ :=
      pushMapOps_refines_gen ext rest true base (l + 1) ks' vs r hk' hv hsk' hsv h
    refine ⟨g1, g2, lk0 :: lk, lw, by simpa using hlen, Refines.cons_some hdk gk, gv, ?_⟩
    rw [go]; simp; omega
  | .value x rest, pd, base, l, ks, vs, r, hk, hv, hsk, hsv, h => by
    obtain ⟨rfl, vs', h3, h⟩ := pushMapOps_value_ok h
    obtain ⟨hv', lv0, hdv⟩ := push_refines ext x vs vs' hv hsv h3
    have hsv' := NoDictKey.of_takeRest (push_takeRest ext x vs vs' h3) hsv
    obtain ⟨g1, g2, lk, lw, hlen, gk, gv, go⟩ :=
      pushMapOps_refines_gen ext rest false base l ks vs' r hk hv' hsk hsv' h
    refine ⟨g1, g2, lk, lv0 :: lw, by simpa using hlen, gk, Refines.cons_some hdv gv, go⟩
end

/-- one map value (`serialize_map_start` resets the flag): an ACCEPTED raw stream has kept keys and values in step -/
theorem pushMapOps_refines (ext : Ext) (ops : SMapOps) : MapOKH (fun offs ks vs => pushMapOps ext false offs ks vs ops) := by
  intro base l ks vs r hk hv hsk hsv h
  obtain ⟨g1, g2, lk, lw, hlen, rest⟩ := pushMapOps_refines_gen ext ops false base l ks vs r hk hv hsk hsv h
  exact ⟨g1, g2, lk, lw, by simpa using hlen, rest⟩

end SaModel.Build
