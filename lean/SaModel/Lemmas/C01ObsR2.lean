import SaModel.Lemmas.C01ObsSeq
import SaModel.Lemmas.C01R2
/-
C01 "hidden rows" — R2': the DETERMINED row a push appends is the documented one: `push ext b x = ok b'` with
`Refines (decH b') (decH b ++ [some lv])` implies `Spec.interpDT ext dt nullable md x = ok lv` whenever `b` is the builder
of the field `(dt, nullable, md)` — WITHOUT the first clause of `Safe` (`WFH` / `NoDictKey` instead of `WFB` / `Safe`).
The observable-rows counterpart of Lemmas/C01R2.lean (one mutual structural recursion over the serde value); the
state-free helpers of that file (`key_at`, `names_at`, `pushScalar_scalarDT`, `interpDT_*`, …) are reused as they are.
-/
namespace SaModel.Build
open SaModel SaModel.Spec
open SaModel.Lemmas.C03 (ViewSmall ViewSmallL)

/-- no determined row was appended -/
theorem Refines.nil_of_self {xs : H} {ls : List LVal} (h : Refines xs (xs ++ ls.map some)) : ls = [] :=
  rows_uniqueH h (by simpa using Refines.refl xs)

theorem pushByteElems_interpH (ext : Ext) (large : Bool) : ∀ (bs : Bytes) (el : B) (offs : List Int) (r : B × List Int)
    (cdt : DataType) (cn : Bool) (cmd : Metadata) (ls : List LVal), WFH el → NoDictKey el → Shape el cdt cn cmd →
    pushByteElems ext large el offs bs = .ok r → Refines (decH r.1) (decH el ++ ls.map some) → ViewSmall r.1 →
    bs.mapM (fun x => interpScalar ext cdt (.int .u8 x.toNat)) = .ok ls
  | [], el, offs, r, cdt, cn, cmd, ls, _, _, _, h, hd, _ => by
    simp [pushByteElems] at h; subst h
    have : ls = [] := Refines.nil_of_self hd
    subst this; rfl
  | x :: rest, el, offs, r, cdt, cn, cmd, ls, hwf, hsf, hs, h, hd, hsm => by
    simp only [pushByteElems] at h
    obtain ⟨o', h1, h⟩ := (bind_ok _ _ _).1 h
    obtain ⟨el', h2, h⟩ := (bind_ok _ _ _).1 h
    rw [ctx_ok] at h2
    obtain ⟨base, l, rfl⟩ := incrementLast_form h1
    have := incrementLast_snoc h1
    subst this
    obtain ⟨hel', lv, hdec⟩ := pushScalar_refines ext el _ el' hwf hsf h2
    have hsf' := NoDictKey.of_takeRest (pushScalar_takeRest ext el _ el' h2) hsf
    obtain ⟨hi, _⟩ := pushScalar_interpH ext el _ el' cdt cn cmd lv hwf hs h2 hdec
      (pushByteElems_small ext large rest el' _ r h hsm)
    obtain ⟨_, ls', hd', _⟩ := pushByteElems_refines ext large rest el' base (l + 1) r hel' hsf' h
    have hs' := Shape.of_takeRest (pushScalar_takeRest ext el _ el' h2) hs
    have ih := pushByteElems_interpH ext large rest el' _ r cdt cn cmd ls' hel' hsf' hs' h hd' hsm
    have : ls = lv :: ls' := rows_uniqueH hd (Refines.cons_some hdec hd')
    subst this
    rw [List.mapM_cons, hi]
    simp only [bind, Except.bind]
    simp only [pure, Except.pure] at ih ⊢
    rw [ih]

theorem TupleSpecH.of {ext : Ext} {nar : Bool} {xs : SVals} {pt : SS → R SS} (hraw : rawOKs nar xs = true)
    (h : ∀ (fs0 : BL) (s s' : SS) (adds adds' : List (List LVal)) (sfs : Fields), rawOKs nar xs = true → (nar = true → narrowFs sfs = true) → MidH fs0 s adds →
      MidH fs0 s' adds' → ShapeL s.fields sfs → pt s = .ok s' → ViewSmallL s'.fields →
      ∀ j f, sfs.toList[j]? = some f → (j < s.next → adds'.getD j [] = adds.getD j []) ∧
        (s.next ≤ j → ∃ found, interpNth ext f.dataType f.nullable f.metadata (j - s.next) xs = .ok found ∧
          adds'.getD j [] = adds.getD j [] ++ found)) : TupleSpecH ext (nar = true) xs pt := by
  intro fs0 s s' adds adds' sfs hnf hm hm' hsl hn0 hp hsm j f hj
  obtain ⟨_, h2⟩ := h fs0 s s' adds adds' sfs hraw hnf hm hm' hsl hp hsm j f hj
  rw [hn0] at h2
  simpa using h2 (Nat.zero_le _)

mutual
theorem push_interpH (ext : Ext) (nar : Bool) : ∀ (x : SVal) (b b' : B) (dt : DataType) (n : Bool) (md : Metadata) (lv : LVal),
    rawOK nar x = true → (nar = true → narrowDT dt = true) → WFH b → NoDictKey b → Shape b dt n md → push ext b x = .ok b' →
    Refines (decH b') (decH b ++ [some lv]) →
    ViewSmall b' → interpDT ext dt n md x = .ok lv
  | .some v, b, b', dt, n, md, lv, hraw, hnar, hwf, hs, hsh, h, hd, hsm => by
    rw [push] at h; rw [interpDT]
    exact push_interpH ext nar v b b' dt n md lv (by simpa only [rawOK_some, rawOK_newtypeStruct, rawOK_newtypeVariant, rawOK_seq, rawOK_tuple, rawOK_tupleStruct, rawOK_tupleVariant, rawOK_record, rawOK_structVariant, rawOK_map, rawOK_mapRaw, rawOKs_cons, rawOKf_cons, rawOKe_cons, Bool.and_eq_true] using hraw) hnar hwf hs hsh h hd hsm
  | .newtypeStruct _ v, b, b', dt, n, md, lv, hraw, hnar, hwf, hs, hsh, h, hd, hsm => by
    rw [push] at h; rw [interpDT]
    exact push_interpH ext nar v b b' dt n md lv (by simpa only [rawOK_some, rawOK_newtypeStruct, rawOK_newtypeVariant, rawOK_seq, rawOK_tuple, rawOK_tupleStruct, rawOK_tupleVariant, rawOK_record, rawOK_structVariant, rawOK_map, rawOK_mapRaw, rawOKs_cons, rawOKf_cons, rawOKe_cons, Bool.and_eq_true] using hraw) hnar hwf hs hsh h hd hsm
  | .none, b, b', dt, n, md, lv, _, hnar, hwf, hs, hsh, h, hd, _ => by
    rw [push] at h; rw [interpDT]
    have := row_uniqueH hd (pushNone_refines b b' hwf hs h).2
    subst this
    exact pushNone_interp b b' dt n md hsh h
  | .unit, b, b', dt, n, md, lv, _, hnar, hwf, hs, hsh, h, hd, _ => by
    rw [interpDT]
    cases b with
    | unknownVariant p => simp [push, ctx_ok, fail] at h
    | _ =>
      simp only [push] at h
      have := row_uniqueH hd (pushNone_refines _ b' hwf hs h).2
      subst this
      exact pushNone_interp _ b' dt n md hsh h
  | .seq xs, b, b', dt, n, md, lv, hraw, hnar, hwf, hs, hsh, h, hd, hsm => by
    rw [push, ctx_ok] at h; rw [interpDT_seq]
    have hraw' : rawOKs nar xs = true := by simpa only [rawOK_some, rawOK_newtypeStruct, rawOK_newtypeVariant, rawOK_seq, rawOK_tuple, rawOK_tupleStruct, rawOK_tupleVariant, rawOK_record, rawOK_structVariant, rawOK_map, rawOK_mapRaw, rawOKs_cons, rawOKf_cons, rawOKe_cons, Bool.and_eq_true] using hraw
    exact seqLike_interpH (pushElems_refines ext xs) (pushCountElems_refines ext xs)
      (pushTupleElems_refines ext xs) (fun s1 s2 hp => pushTupleElems_takeRest ext xs s1 s2 hp)
      (pushElems_interpH ext nar xs hraw') (pushCountElems_interpH ext nar xs hraw') (TupleSpecH.of hraw' (pushTupleElems_interpH ext nar xs))
      b _ b' dt n md lv hnar hwf hs hsh h hd hsm
  | .tuple xs, b, b', dt, n, md, lv, hraw, hnar, hwf, hs, hsh, h, hd, hsm => by
    rw [push, ctx_ok] at h; rw [interpDT_tuple]
    have hraw' : rawOKs nar xs = true := by simpa only [rawOK_some, rawOK_newtypeStruct, rawOK_newtypeVariant, rawOK_seq, rawOK_tuple, rawOK_tupleStruct, rawOK_tupleVariant, rawOK_record, rawOK_structVariant, rawOK_map, rawOK_mapRaw, rawOKs_cons, rawOKf_cons, rawOKe_cons, Bool.and_eq_true] using hraw
    exact seqLike_interpH (pushElems_refines ext xs) (pushCountElems_refines ext xs)
      (pushTupleElems_refines ext xs) (fun s1 s2 hp => pushTupleElems_takeRest ext xs s1 s2 hp)
      (pushElems_interpH ext nar xs hraw') (pushCountElems_interpH ext nar xs hraw') (TupleSpecH.of hraw' (pushTupleElems_interpH ext nar xs))
      b _ b' dt n md lv hnar hwf hs hsh h hd hsm
  | .tupleStruct _ xs, b, b', dt, n, md, lv, hraw, hnar, hwf, hs, hsh, h, hd, hsm => by
    rw [push, ctx_ok] at h; rw [interpDT_tupleStruct]
    have hraw' : rawOKs nar xs = true := by simpa only [rawOK_some, rawOK_newtypeStruct, rawOK_newtypeVariant, rawOK_seq, rawOK_tuple, rawOK_tupleStruct, rawOK_tupleVariant, rawOK_record, rawOK_structVariant, rawOK_map, rawOK_mapRaw, rawOKs_cons, rawOKf_cons, rawOKe_cons, Bool.and_eq_true] using hraw
    exact seqLike_interpH (pushElems_refines ext xs) (pushCountElems_refines ext xs)
      (pushTupleElems_refines ext xs) (fun s1 s2 hp => pushTupleElems_takeRest ext xs s1 s2 hp)
      (pushElems_interpH ext nar xs hraw') (pushCountElems_interpH ext nar xs hraw') (TupleSpecH.of hraw' (pushTupleElems_interpH ext nar xs))
      b _ b' dt n md lv hnar hwf hs hsh h hd hsm
  | .record _ fields, b, b', dt, n, md, lv, hraw, hnar, hwf, hs, hsh, h, hd, hsm => by
    have hraw' : rawOKf nar fields = true := by simpa only [rawOK_some, rawOK_newtypeStruct, rawOK_newtypeVariant, rawOK_seq, rawOK_tuple, rawOK_tupleStruct, rawOK_tupleVariant, rawOK_record, rawOK_structVariant, rawOK_map, rawOK_mapRaw, rawOKs_cons, rawOKf_cons, rawOKe_cons, Bool.and_eq_true] using hraw
    cases b with
    | struct p len v fs cached next seen =>
      simp only [push, ctx_ok, recordWith] at h
      simp only [Shape] at hsh
      obtain ⟨_, sfs, rfl, hsl⟩ := hsh
      simp only [interpDT, isUnknownVariant, Bool.false_eq_true, if_false]
      refine struct_interpH _ hwf hs hsl (pushFields_refines ext fields)
        (fun s1 s2 hp => pushFields_takeRest ext fields s1 s2 hp) ?_ h hd hsm
      intro s1 s2 adds2 _ hf1 hm1 hm2 hp hsm2 j f hj
      obtain ⟨found, hf, ha⟩ := pushFields_interpH ext nar fields fs s1 s2 _ adds2 sfs hraw'
        (fun hn => by have hnar := hnar hn; simp only [narrowDT, Bool.and_eq_true] at hnar; exact hnar.2) hm1 hm2 (by rw [hf1]; exact hsl) hp hsm2 j f hj
      rw [getD_replicate_nil, List.nil_append] at ha
      exact ⟨found, hf, ha⟩
    | _ => simp [push, ctx_ok, recordWith, notSupported, fail] at h
  | .map es, b, b', dt, n, md, lv, hraw, hnar, hwf, hs, hsh, h, hd, hsm => by
    have hraw' : rawOKe nar es = true := by simpa only [rawOK_some, rawOK_newtypeStruct, rawOK_newtypeVariant, rawOK_seq, rawOK_tuple, rawOK_tupleStruct, rawOK_tupleVariant, rawOK_record, rawOK_structVariant, rawOK_map, rawOK_mapRaw, rawOKs_cons, rawOKf_cons, rawOKe_cons, Bool.and_eq_true] using hraw
    cases b with
    | struct p len v fs cached next seen =>
      simp only [push, ctx_ok] at h
      simp only [Shape] at hsh
      obtain ⟨_, sfs, rfl, hsl⟩ := hsh
      simp only [interpDT, isUnknownVariant, Bool.false_eq_true, if_false]
      have hkeys : keysAreStrings es = .ok () := by
        obtain ⟨s1, _, h'⟩ := (bind_ok _ _ _).1 h
        obtain ⟨s2, h2, _⟩ := (bind_ok _ _ _).1 h'
        exact pushStructEntries_keys ext es _ s2 h2
      rw [hkeys]
      simp only [bind, Except.bind]
      refine struct_interpH (pf := fun s => pushStructEntries ext { s with next := UNKNOWN_KEY } es) _ hwf hs hsl
        ((pushStructEntries_refines ext es).next _)
        (FieldsSkel.next (fun s1 s2 hp => pushStructEntries_takeRest ext es s1 s2 hp) _) ?_ h hd hsm
      intro s1 s2 adds2 _ hf1 hm1 hm2 hp hsm2 j f hj
      obtain ⟨found, hf, ha⟩ := pushStructEntries_interpH ext nar es fs _ s2 _ adds2 sfs hraw'
        (fun hn => by have hnar := hnar hn; simp only [narrowDT, Bool.and_eq_true] at hnar; exact hnar.2) (hm1.next UNKNOWN_KEY) hm2
        (by simp only; rw [hf1]; exact hsl) hp hsm2 j f hj
      rw [getD_replicate_nil, List.nil_append] at ha
      exact ⟨found, hf, ha⟩
    | map p mm v offs ks vs =>
      simp only [push, ctx_ok] at h
      simp only [Shape] at hsh
      obtain ⟨_, ename, kn, kdt, knl, kmd, vn, vdt, vnl, vmd, rest, en, emd, sorted, rfl, hsk, hsv⟩ := hsh
      obtain ⟨offs', r, lk, lw, hpm, hdk, hdv, hrow, hsmr⟩ := map_row_rowsH (pm := fun offs ks vs => pushMapEntries ext offs ks vs es)
        hwf hs (pushMapEntries_refines ext es) h
      have := row_uniqueH hd hrow
      subst this
      have hw' := hwf
      simp only [WFH] at hw'
      simp only [NoDictKey] at hs
      have hnkv : nar = true → narrowDT kdt = true ∧ narrowDT vdt = true := by
        intro hn; have hnar := hnar hn
        simp only [narrowDT, narrowF, narrowFs, Bool.and_eq_true] at hnar; exact ⟨hnar.2.1, hnar.2.2.1⟩
      have hi := pushMapEntries_interpH ext nar es offs' ks vs r kdt knl kmd vdt vnl vmd lk lw hraw' (fun hn => (hnkv hn).1) (fun hn => (hnkv hn).2) hw'.2.2.2.1 hw'.2.2.2.2
        hs.1 hs.2 hsk hsv hpm hdk hdv (hsmr hsm)
      simp only [interpDT, isUnknownVariant, Bool.false_eq_true, if_false, hi]
      rfl
    | _ => simp [push, ctx_ok, notSupported, fail] at h
  | .mapRaw ops, b, b', dt, n, md, lv, hraw, hnar, hwf, hs, hsh, h, hd, hsm => by
    have hraw2 : nar = true ∧ ssaO ops = true := by simpa only [rawOK_mapRaw, Bool.and_eq_true] using hraw
    obtain ⟨hn, hraw'⟩ := hraw2
    have hnar := hnar hn
    have halt := ssaO_alternating ops hraw'
    cases b with
    | struct p len v fs cached next seen =>
      simp only [push, ctx_ok] at h
      simp only [Shape] at hsh
      obtain ⟨_, sfs, rfl, hsl⟩ := hsh
      simp only [interpDT, isUnknownVariant, Bool.false_eq_true, if_false, halt, Bool.not_true]
      have hkeys : opsKeysAreStrings ops = .ok () := by
        obtain ⟨s1, _, h'⟩ := (bind_ok _ _ _).1 h
        obtain ⟨s2, h2, _⟩ := (bind_ok _ _ _).1 h'
        exact pushStructOps_keys ext ops _ s2 h2
      rw [hkeys]
      simp only [bind, Except.bind]
      simp only [narrowDT, Bool.and_eq_true, decide_eq_true_eq] at hnar
      refine struct_interpH (pf := fun s => pushStructOps ext { s with next := UNKNOWN_KEY } ops) _ hwf hs hsl
        ((pushStructOps_refines ext ops).next _)
        (FieldsSkel.next (fun s1 s2 hp => pushStructOps_takeRest ext ops s1 s2 hp) _) ?_ h hd hsm
      intro s1 s2 adds2 _ hf1 hm1 hm2 hp hsm2 j f hj
      obtain ⟨found, hf, ha⟩ := pushStructOps_interpH ext nar ops fs _ s2 _ adds2 sfs hn hraw' hnar.2
        (by simp only; rw [hf1, ← hsl.length]; exact hnar.1) (hm1.next UNKNOWN_KEY) hm2
        (by simp only; rw [hf1]; exact hsl) hp hsm2 j f hj
      rw [getD_replicate_nil, List.nil_append] at ha
      exact ⟨found, hf, ha⟩
    | map p mm v offs ks vs =>
      simp only [push, ctx_ok] at h
      simp only [Shape] at hsh
      obtain ⟨_, ename, kn, kdt, knl, kmd, vn, vdt, vnl, vmd, rest, en, emd, sorted, rfl, hsk, hsv⟩ := hsh
      obtain ⟨offs', r, lk, lw, hpm, hdk, hdv, hrow, hsmr⟩ := map_row_rowsH (pm := fun offs ks vs => pushMapOps ext false offs ks vs ops)
        hwf hs (pushMapOps_refines ext ops) h
      have := row_uniqueH hd hrow
      subst this
      have hw' := hwf
      simp only [WFH] at hw'
      simp only [NoDictKey] at hs
      have hnkv : narrowDT kdt = true ∧ narrowDT vdt = true := by
        simp only [narrowDT, narrowF, narrowFs, Bool.and_eq_true] at hnar; exact ⟨hnar.2.1, hnar.2.2.1⟩
      have hi := pushMapOps_interpH ext nar ops offs' ks vs r kdt knl kmd vdt vnl vmd lk lw hn hraw' hnkv.1 hnkv.2 hw'.2.2.2.1 hw'.2.2.2.2
        hs.1 hs.2 hsk hsv hpm hdk hdv (hsmr hsm)
      simp only [interpDT, isUnknownVariant, Bool.false_eq_true, if_false, halt, Bool.not_true, hi]
      rfl
    | _ => simp [push, ctx_ok, notSupported, fail] at h
  | .unitVariant a i vn, b, b', dt, n, md, lv, _, hnar, hwf, hs, hsh, h, hd, hsm => by
    cases b with
    | union p fs types offs cur =>
      simp only [push, ctx_ok] at h
      obtain ⟨c, m, c', lvc, hget, hwc, hsc, hpc, hdc, hrow, hsmc⟩ := union_row_rowsH (pc := fun c => match c with
          | .unknownVariant _ => ctx c.ann (fail "Unknown variant does not support serialize_unit")
          | _ => pushNone c) hwf hs (by
        intro c c' hw hsc hc
        simp only at hc
        split at hc
        · simp [ctx_ok, fail] at hc
        · obtain ⟨a, d⟩ := pushNone_refines c c' hw hsc hc
          exact ⟨a, NoDictKey.of_takeRest (pushNone_takeRest c c' hc) hsc, _, d⟩) h
      have := row_uniqueH hd hrow
      subst this
      simp only [Shape] at hsh
      obtain ⟨ufs, mode, rfl, hsu⟩ := hsh
      obtain ⟨fname, fdt, fn, fmd, hufs, hshc⟩ := ShapeU.get fs ufs 0 i c m hsu hget
      try simp only [Nat.zero_add] at hufs
      try simp only at hpc
      split at hpc
      · simp [ctx_ok, fail] at hpc
      · have := row_uniqueH hdc (pushNone_refines c c' hwc hsc hpc).2
        subst this
        have := pushNone_interp c c' fdt fn fmd hshc hpc
        simp only [interpDT, hufs, this]
        rfl
    | _ =>
      simp only [push, ctx_ok] at h
      rw [interpDT_unitVariant_scalar ext dt n md a i vn (pushScalar_scalarDT ext _ _ b' dt n md hsh h)]
      exact (pushScalar_interpH ext _ _ b' dt n md lv hwf hsh h hd hsm).1
  | .newtypeVariant _ i _ v, b, b', dt, n, md, lv, hraw, hnar, hwf, hs, hsh, h, hd, hsm => by
    have hraw' : rawOK nar v = true := by simpa only [rawOK_some, rawOK_newtypeStruct, rawOK_newtypeVariant, rawOK_seq, rawOK_tuple, rawOK_tupleStruct, rawOK_tupleVariant, rawOK_record, rawOK_structVariant, rawOK_map, rawOK_mapRaw, rawOKs_cons, rawOKf_cons, rawOKe_cons, Bool.and_eq_true] using hraw
    cases b with
    | union p fs types offs cur =>
      simp only [push, ctx_ok] at h
      obtain ⟨c, m, c', lvc, hget, hwc, hsc, hpc, hdc, hrow, hsmc⟩ := union_row_rowsH (pc := fun c => push ext c v) hwf hs
        (StepOKH.of_push (fun c c' => push_refines ext v c c')) h
      have := row_uniqueH hd hrow
      subst this
      simp only [Shape] at hsh
      obtain ⟨ufs, mode, rfl, hsu⟩ := hsh
      obtain ⟨fname, fdt, fn, fmd, hufs, hshc⟩ := ShapeU.get fs ufs 0 i c m hsu hget
      try simp only [Nat.zero_add] at hufs
      have := push_interpH ext nar v c c' fdt fn fmd lvc hraw' (fun hn => narrowU_get ufs i _ _ _ _ _ (by simpa [narrowDT] using hnar hn) hufs)
        hwc hsc hshc hpc hdc (hsmc hsm)
      simp only [interpDT, hufs, this]
      rfl
    | bytes _ ty _ _ _ => simp only [push, ctx_ok] at h; split at h <;> simp [notSupported, fail] at h
    | bytesView _ ty _ _ _ => simp only [push, ctx_ok] at h; split at h <;> simp [notSupported, fail] at h
    | _ => simp [push, ctx_ok, notSupported, fail] at h
  | .tupleVariant _ i _ xs, b, b', dt, n, md, lv, hraw, hnar, hwf, hs, hsh, h, hd, hsm => by
    have hraw' : rawOKs nar xs = true := by simpa only [rawOK_some, rawOK_newtypeStruct, rawOK_newtypeVariant, rawOK_seq, rawOK_tuple, rawOK_tupleStruct, rawOK_tupleVariant, rawOK_record, rawOK_structVariant, rawOK_map, rawOK_mapRaw, rawOKs_cons, rawOKf_cons, rawOKe_cons, Bool.and_eq_true] using hraw
    cases b with
    | union p fs types offs cur =>
      simp only [push, ctx_ok] at h
      obtain ⟨c, m, c', lvc, hget, hwc, hsc, hpc, hdc, hrow, hsmc⟩ := union_row_rowsH
        (pc := fun c => ctx c.ann (seqLikeWith (fun large el offs => pushElems ext large el offs xs)
          (fun el c => pushCountElems ext el c xs) (fun s => pushTupleElems ext s xs) (u8All xs) c .tupleStruct)) hwf hs (by
        intro c c' hw hsc hc
        rw [ctx_ok] at hc
        obtain ⟨a, d⟩ := seqLikeWith_refines (pushElems_refines ext xs) (pushCountElems_refines ext xs)
          (pushTupleElems_refines ext xs) c _ c' hw hsc hc
        refine ⟨a, NoDictKey.of_takeRest ?_ hsc, d⟩
        exact seqLikeWith_takeRest (fun large el offs r hr => pushElems_takeRest ext xs large el offs r hr)
          (fun el c r hr => pushCountElems_takeRest ext xs el c r hr)
          (fun s s' hs => pushTupleElems_takeRest ext xs s s' hs) c _ c' hc) h
      have := row_uniqueH hd hrow
      subst this
      simp only [Shape] at hsh
      obtain ⟨ufs, mode, rfl, hsu⟩ := hsh
      obtain ⟨fname, fdt, fn, fmd, hufs, hshc⟩ := ShapeU.get fs ufs 0 i c m hsu hget
      try simp only [Nat.zero_add] at hufs
      simp only [ctx_ok] at hpc
      have := seqLike_interpH (pushElems_refines ext xs) (pushCountElems_refines ext xs)
        (pushTupleElems_refines ext xs) (fun s1 s2 hp => pushTupleElems_takeRest ext xs s1 s2 hp)
        (pushElems_interpH ext nar xs hraw') (pushCountElems_interpH ext nar xs hraw') (TupleSpecH.of hraw' (pushTupleElems_interpH ext nar xs))
        c _ c' fdt fn fmd lvc (fun hn => narrowU_get ufs i _ _ _ _ _ (by simpa [narrowDT] using hnar hn) hufs) hwc hsc hshc hpc hdc (hsmc hsm)
      exact interpDT_tupleVariant ext ufs mode n md _ i _ xs _ fname fdt fn fmd lvc hufs this
    | bytes _ ty _ _ _ => simp only [push, ctx_ok] at h; split at h <;> simp [notSupported, fail] at h
    | bytesView _ ty _ _ _ => simp only [push, ctx_ok] at h; split at h <;> simp [notSupported, fail] at h
    | _ => simp [push, ctx_ok, notSupported, fail] at h
  | .structVariant _ i _ fields, b, b', dt, n, md, lv, hraw, hnar, hwf, hs, hsh, h, hd, hsm => by
    have hraw' : rawOKf nar fields = true := by simpa only [rawOK_some, rawOK_newtypeStruct, rawOK_newtypeVariant, rawOK_seq, rawOK_tuple, rawOK_tupleStruct, rawOK_tupleVariant, rawOK_record, rawOK_structVariant, rawOK_map, rawOK_mapRaw, rawOKs_cons, rawOKf_cons, rawOKe_cons, Bool.and_eq_true] using hraw
    cases b with
    | union p fs types offs cur =>
      simp only [push, ctx_ok] at h
      obtain ⟨c, m, c', lvc, hget, hwc, hsc, hpc, hdc, hrow, hsmc⟩ := union_row_rowsH
        (pc := fun c => ctx c.ann (recordWith (fun s => pushFields ext s fields) c)) hwf hs (by
        intro c c' hw hsc hc
        rw [ctx_ok] at hc
        obtain ⟨a, d⟩ := recordWith_refines (pushFields_refines ext fields) c c' hw hsc hc
        refine ⟨a, NoDictKey.of_takeRest ?_ hsc, d⟩
        exact recordWith_takeRest (fun s s' hs => pushFields_takeRest ext fields s s' hs) c c' hc) h
      have := row_uniqueH hd hrow
      subst this
      simp only [Shape] at hsh
      obtain ⟨ufs, mode, rfl, hsu⟩ := hsh
      obtain ⟨fname, fdt, fn, fmd, hufs, hshc⟩ := ShapeU.get fs ufs 0 i c m hsu hget
      try simp only [Nat.zero_add] at hufs
      simp only [ctx_ok] at hpc
      cases c with
      | struct p' len' v' fs' cached' next' seen' =>
        simp only [recordWith] at hpc
        simp only [Shape] at hshc
        obtain ⟨_, sfs, rfl, hsl⟩ := hshc
        have : structOf sfs.toList (fun f => interpByName ext f.name f.dataType f.nullable f.metadata fields) = .ok lvc := by
          refine struct_interpH _ hwc hsc hsl (pushFields_refines ext fields)
            (fun s1 s2 hp => pushFields_takeRest ext fields s1 s2 hp) ?_ hpc hdc (hsmc hsm)
          intro s1 s2 adds2 _ hf1 hm1 hm2 hp hsm2 j f hj
          have hnc := fun hn => narrowU_get ufs i _ _ _ _ _ (by simpa [narrowDT] using hnar hn) hufs
          obtain ⟨found, hf, ha⟩ := pushFields_interpH ext nar fields fs' s1 s2 _ adds2 sfs hraw'
            (fun hn => by have hnc := hnc hn; simp only [narrowDT, Bool.and_eq_true] at hnc; exact hnc.2) hm1 hm2 (by rw [hf1]; exact hsl) hp hsm2 j f hj
          rw [getD_replicate_nil, List.nil_append] at ha
          exact ⟨found, hf, ha⟩
        simp only [interpDT, hufs, isUnknownVariant, Bool.false_eq_true, if_false, this]
        rfl
      | _ => simp [recordWith, notSupported, fail] at hpc
    | bytes _ ty _ _ _ => simp only [push, ctx_ok] at h; split at h <;> simp [notSupported, fail] at h
    | bytesView _ ty _ _ _ => simp only [push, ctx_ok] at h; split at h <;> simp [notSupported, fail] at h
    | _ => simp [push, ctx_ok, notSupported, fail] at h
  | .bytes bs, b, b', dt, n, md, lv, _, hnar, hwf, hs, hsh, h, hd, hsm => by
    cases b with
    | list p large fm v offs el =>
      simp only [push, ctx_ok] at h
      obtain ⟨v', h1, h⟩ := (bind_ok _ _ _).1 h
      obtain ⟨o1, h2, h⟩ := (bind_ok _ _ _).1 h
      obtain ⟨⟨el', o2⟩, h3, h⟩ := (bind_ok _ _ _).1 h
      cases h
      have hw' := hwf
      simp only [WFH] at hw'
      obtain ⟨rfl, _⟩ := setValidity_ok hw'.2.1 h1
      obtain ⟨l, hl, rfl⟩ := duplicateLast_ok h2
      rw [hw'.1.2.1] at hl; cases hl
      obtain ⟨hel, ls, hdec, ho⟩ := pushByteElems_refines ext large bs el _ _ _ hw'.2.2 (by simpa only [NoDictKey] using hs) h3
      simp only at hel hdec ho
      subst ho
      have := list_stepH hwf true ls hel hdec
      rw [rowOf_true] at this
      have hlv := row_uniqueH hd this.2
      subst hlv
      simp only [Shape] at hsh
      obtain ⟨_, cname, cdt, cn, cmd, rfl, hsel⟩ := hsh
      have hi := pushByteElems_interpH ext large bs el _ _ cdt cn cmd ls hw'.2.2 (by simpa only [NoDictKey] using hs) hsel h3 hdec
        (by simpa only [ViewSmall] using hsm)
      cases large <;> simp [interpDT, isUnknownVariant, hi, bind, Except.bind, pure, Except.pure]
    | _ =>
      simp only [push, ctx_ok] at h
      obtain ⟨hi, hu⟩ := pushScalar_interpH ext _ _ b' dt n md lv hwf hsh h hd hsm
      rw [interpDT_bytes_scalar ext dt n md bs (pushScalar_scalarDT ext _ _ b' dt n md hsh h), hu]
      exact hi
  | .bool x, b, b', dt, n, md, lv, _, hnar, hwf, _, hsh, h, hd, hsm => by
    rw [push, ctx_ok] at h
    obtain ⟨hi, hu⟩ := pushScalar_interpH ext _ _ b' dt n md lv hwf hsh h hd hsm
    rw [interpDT, hu]; exact hi
  | .int t x, b, b', dt, n, md, lv, _, hnar, hwf, _, hsh, h, hd, hsm => by
    rw [push, ctx_ok] at h
    obtain ⟨hi, hu⟩ := pushScalar_interpH ext _ _ b' dt n md lv hwf hsh h hd hsm
    rw [interpDT, hu]; exact hi
  | .f32 x, b, b', dt, n, md, lv, _, hnar, hwf, _, hsh, h, hd, hsm => by
    rw [push, ctx_ok] at h
    obtain ⟨hi, hu⟩ := pushScalar_interpH ext _ _ b' dt n md lv hwf hsh h hd hsm
    rw [interpDT, hu]; exact hi
  | .f64 x, b, b', dt, n, md, lv, _, hnar, hwf, _, hsh, h, hd, hsm => by
    rw [push, ctx_ok] at h
    obtain ⟨hi, hu⟩ := pushScalar_interpH ext _ _ b' dt n md lv hwf hsh h hd hsm
    rw [interpDT, hu]; exact hi
  | .char x, b, b', dt, n, md, lv, _, hnar, hwf, _, hsh, h, hd, hsm => by
    rw [push, ctx_ok] at h
    obtain ⟨hi, hu⟩ := pushScalar_interpH ext _ _ b' dt n md lv hwf hsh h hd hsm
    rw [interpDT, hu]; exact hi
  | .str x, b, b', dt, n, md, lv, _, hnar, hwf, _, hsh, h, hd, hsm => by
    rw [push, ctx_ok] at h
    obtain ⟨hi, hu⟩ := pushScalar_interpH ext _ _ b' dt n md lv hwf hsh h hd hsm
    rw [interpDT, hu]; exact hi
  | .unitStruct x, b, b', dt, n, md, lv, _, hnar, hwf, hs, hsh, h, hd, _ => by
    rw [interpDT]
    cases b with
    | unknownVariant p => simp [push, ctx_ok, fail] at h
    | _ =>
      simp only [push] at h
      have := row_uniqueH hd (pushNone_refines _ b' hwf hs h).2
      subst this
      exact pushNone_interp _ b' dt n md hsh h

theorem pushElems_interpH (ext : Ext) (nar : Bool) : ∀ (xs : SVals), rawOKs nar xs = true →
    ElemsSpecH ext (nar = true) xs (fun large el offs => pushElems ext large el offs xs)
  | .nil, _ => by
    intro large el offs r cdt cn cmd ls _ _ _ _ h hd _
    simp only [pushElems] at h; cases h
    have : ls = [] := Refines.nil_of_self hd
    subst this; simp [interpAll]
  | .cons x rest, hraw => by
    intro large el offs r cdt cn cmd ls hnc hwf hs hsh h hd hsm
    have hraw' : rawOK nar x = true ∧ rawOKs nar rest = true := by simpa only [rawOK_some, rawOK_newtypeStruct, rawOK_newtypeVariant, rawOK_seq, rawOK_tuple, rawOK_tupleStruct, rawOK_tupleVariant, rawOK_record, rawOK_structVariant, rawOK_map, rawOK_mapRaw, rawOKs_cons, rawOKf_cons, rawOKe_cons, Bool.and_eq_true] using hraw
    simp only [pushElems] at h
    obtain ⟨o', h1, h⟩ := (bind_ok _ _ _).1 h
    obtain ⟨el', h2, h⟩ := (bind_ok _ _ _).1 h
    obtain ⟨base, l, rfl⟩ := incrementLast_form h1
    have := incrementLast_snoc h1
    subst this
    obtain ⟨hel', lv, hdec⟩ := push_refines ext x el el' hwf hs h2
    have ht := push_takeRest ext x el el' h2
    have hs' := NoDictKey.of_takeRest ht hs
    have hsh' := Shape.of_takeRest ht hsh
    obtain ⟨_, ls', hd', _⟩ := pushElems_refines ext rest large el' base (l + 1) r hel' hs' h
    have hi := push_interpH ext nar x el el' cdt cn cmd lv hraw'.1 hnc hwf hs hsh h2 hdec
      (pushElems_small ext rest large el' _ r h hsm)
    have ih := pushElems_interpH ext nar rest hraw'.2 large el' _ r cdt cn cmd ls' hnc hel' hs' hsh' h hd' hsm
    have : ls = lv :: ls' := rows_uniqueH hd (Refines.cons_some hdec hd')
    subst this
    simp only [interpAll, hi, ih, bind, Except.bind]; rfl

theorem pushCountElems_interpH (ext : Ext) (nar : Bool) : ∀ (xs : SVals), rawOKs nar xs = true →
    CountSpecH ext (nar = true) xs (fun el c => pushCountElems ext el c xs)
  | .nil, _ => by
    intro el c r cdt cn cmd ls _ _ _ _ h hd _
    simp only [pushCountElems] at h; cases h
    have : ls = [] := Refines.nil_of_self hd
    subst this; simp [interpAll]
  | .cons x rest, hraw => by
    intro el c r cdt cn cmd ls hnc hwf hs hsh h hd hsm
    have hraw' : rawOK nar x = true ∧ rawOKs nar rest = true := by simpa only [rawOK_some, rawOK_newtypeStruct, rawOK_newtypeVariant, rawOK_seq, rawOK_tuple, rawOK_tupleStruct, rawOK_tupleVariant, rawOK_record, rawOK_structVariant, rawOK_map, rawOK_mapRaw, rawOKs_cons, rawOKf_cons, rawOKe_cons, Bool.and_eq_true] using hraw
    simp only [pushCountElems] at h
    obtain ⟨el', h2, h⟩ := (bind_ok _ _ _).1 h
    obtain ⟨hel', lv, hdec⟩ := push_refines ext x el el' hwf hs h2
    have ht := push_takeRest ext x el el' h2
    have hs' := NoDictKey.of_takeRest ht hs
    have hsh' := Shape.of_takeRest ht hsh
    obtain ⟨_, ls', hd', _⟩ := pushCountElems_refines ext rest el' (c + 1) r hel' hs' h
    have hi := push_interpH ext nar x el el' cdt cn cmd lv hraw'.1 hnc hwf hs hsh h2 hdec
      (pushCountElems_small ext rest el' _ r h hsm)
    have ih := pushCountElems_interpH ext nar rest hraw'.2 el' _ r cdt cn cmd ls' hnc hel' hs' hsh' h hd' hsm
    have : ls = lv :: ls' := rows_uniqueH hd (Refines.cons_some hdec hd')
    subst this
    simp only [interpAll, hi, ih, bind, Except.bind]; rfl

/-- positional records: field `j ≥ next` receives element `j - next`, fields before `next` are not touched -/
theorem pushTupleElems_interpH (ext : Ext) (nar : Bool) : ∀ (xs : SVals) (fs0 : BL) (s s' : SS) (adds adds' : List (List LVal))
    (sfs : Fields), rawOKs nar xs = true → (nar = true → narrowFs sfs = true) → MidH fs0 s adds → MidH fs0 s' adds' → ShapeL s.fields sfs →
    pushTupleElems ext s xs = .ok s' → ViewSmallL s'.fields →
    ∀ j f, sfs.toList[j]? = some f → (j < s.next → adds'.getD j [] = adds.getD j []) ∧
      (s.next ≤ j → ∃ found, interpNth ext f.dataType f.nullable f.metadata (j - s.next) xs = .ok found ∧
        adds'.getD j [] = adds.getD j [] ++ found)
  | .nil, fs0, s, s', adds, adds', sfs, _, _, hm, hm', _, h, _ => by
    simp only [pushTupleElems] at h; cases h
    have := hm.unique hm'; subst this
    intro j f _
    exact ⟨fun _ => rfl, fun _ => ⟨[], by simp [interpNth], by simp⟩⟩
  | .cons x rest, fs0, s, s', adds, adds', sfs, hraw, hnf, hm, hm', hsl, h, hsm => by
    have hraw' : rawOK nar x = true ∧ rawOKs nar rest = true := by simpa only [rawOK_some, rawOK_newtypeStruct, rawOK_newtypeVariant, rawOK_seq, rawOK_tuple, rawOK_tupleStruct, rawOK_tupleVariant, rawOK_record, rawOK_structVariant, rawOK_map, rawOK_mapRaw, rawOKs_cons, rawOKf_cons, rawOKe_cons, Bool.and_eq_true] using hraw
    simp only [pushTupleElems] at h
    split at h
    · rename_i hlt
      obtain ⟨s1, h1, h⟩ := (bind_ok _ _ _).1 h
      obtain ⟨c, m, c', lv, hget, _, hpc, hwc, hsc, hdec, hm1, hun, hnext, hlta, hfs1, _⟩ := SS.element_rowsH hm
        (StepOKH.of_push (fun c c' => push_refines ext x c c')) h1
      obtain ⟨fi, hji, hshc, _, _⟩ := ShapeL.get _ _ _ _ _ hsl hget
      have hsm1 : ViewSmall c' := by
        have := pushTupleElems_small ext rest s1 s' h hsm
        rw [hfs1] at this
        exact ViewSmallL_set_get _ _ c c' m hget this
      have hlv := push_interpH ext nar x c c' _ _ _ lv hraw'.1 (fun hn => narrowFs_get sfs _ fi (hnf hn) hji) hwc hsc hshc hpc hdec hsm1
      have hsl1 : ShapeL s1.fields sfs := by
        rw [hfs1]; exact ShapeL.set_push hsl hget (push_takeRest ext x c c' hpc)
      have ih := pushTupleElems_interpH ext nar rest fs0 s1 s' _ adds' sfs hraw'.2 hnf hm1 hm' hsl1 h hsm
      intro j f hj
      obtain ⟨ih1, ih2⟩ := ih j f hj
      rw [hnext] at ih1 ih2
      rw [getD_set _ _ _ _ _ hlta] at ih1 ih2
      refine ⟨?_, ?_⟩
      · intro hjn
        have := ih1 (by omega)
        rwa [if_neg (by omega)] at this
      · intro hjn
        by_cases hij : s.next = j
        · have := ih1 (by omega)
          rw [if_pos hij] at this
          rw [← hij] at hj
          rw [hji] at hj; cases hj
          refine ⟨[lv], ?_, by rw [this, ← hij, hun]; rfl⟩
          have : j - s.next = 0 := by omega
          rw [this]
          simp only [interpNth, hlv, bind, Except.bind]; rfl
        · obtain ⟨found, hf, ha⟩ := ih2 (by omega)
          rw [if_neg hij] at ha
          refine ⟨found, ?_, ha⟩
          have : j - s.next = (j - (s.next + 1)) + 1 := by omega
          rw [this]
          simp only [interpNth]; exact hf
    · rename_i hge
      have ih := pushTupleElems_interpH ext nar rest fs0 s s' adds adds' sfs hraw'.2 hnf hm hm' hsl h hsm
      intro j f hj
      obtain ⟨ih1, _⟩ := ih j f hj
      have hjlt : j < s.fields.length := by
        rw [← hsl.length]
        rcases Nat.lt_or_ge j sfs.toList.length with h | h
        · exact h
        · rw [List.getElem?_eq_none_iff.mpr h] at hj; cases hj
      exact ⟨ih1, fun hle => absurd hjlt (by omega)⟩

theorem pushFields_interpH (ext : Ext) (nar : Bool) : ∀ (fields : SFields) (fs0 : BL) (s s' : SS) (adds adds' : List (List LVal))
    (sfs : Fields), rawOKf nar fields = true → (nar = true → narrowFs sfs = true) → MidH fs0 s adds → MidH fs0 s' adds' → ShapeL s.fields sfs →
    pushFields ext s fields = .ok s' → ViewSmallL s'.fields →
    ∀ j f, sfs.toList[j]? = some f → ∃ found,
      interpByName ext f.name f.dataType f.nullable f.metadata fields = .ok found ∧
      adds'.getD j [] = adds.getD j [] ++ found
  | .nil, fs0, s, s', adds, adds', sfs, _, _, hm, hm', _, h, _ => by
    simp only [pushFields] at h; cases h
    have := hm.unique hm'; subst this
    intro j f _
    exact ⟨[], by simp [interpByName], by simp⟩
  | .cons key al x rest, fs0, s, s', adds, adds', sfs, hraw, hnf, hm, hm', hsl, h, hsm => by
    have hraw' : rawOK nar x = true ∧ rawOKf nar rest = true := by simpa only [rawOK_some, rawOK_newtypeStruct, rawOK_newtypeVariant, rawOK_seq, rawOK_tuple, rawOK_tupleStruct, rawOK_tupleVariant, rawOK_record, rawOK_structVariant, rawOK_map, rawOK_mapRaw, rawOKs_cons, rawOKf_cons, rawOKe_cons, Bool.and_eq_true] using hraw
    simp only [pushFields] at h
    have hls := SaModel.Props.C11Front.lookup_sound s.fields.names s.cached s.next (key, al) hm.nodup hm.cache
    split at h
    · rename_i cached' heq
      rw [heq] at hls
      have hnone : indexOfName s.fields.names key = none := hls.1.symm
      have ih := pushFields_interpH ext nar rest fs0 _ s' adds adds' sfs hraw'.2 hnf (hm.cached cached' hls.2) hm' hsl h hsm
      intro j f hj
      obtain ⟨found, hf, ha⟩ := ih j f hj
      refine ⟨found, ?_, ha⟩
      have hne := key_none hm.nodup hnone (names_at hsl hj)
      simp only [interpByName, hf, bind, Except.bind, hne]; rfl
    · rename_i idx cached' heq
      rw [heq] at hls
      have hidx : indexOfName s.fields.names key = some idx := hls.1.symm
      obtain ⟨s1, h1, h⟩ := (bind_ok _ _ _).1 h
      obtain ⟨c, m, c', lv, hget, _, hpc, hwc, hsc, hdec, hm1, hun, _, hlta, hfs1, _⟩ :=
        SS.element_rowsH (hm.cached cached' hls.2)
          (StepOKH.of_push (fun c c' => push_refines ext x c c')) h1
      simp only at hget hfs1
      obtain ⟨fi, hji, hshc, _, _⟩ := ShapeL.get _ _ _ _ _ hsl hget
      have hsm1 : ViewSmall c' := by
        have := pushFields_small ext rest s1 s' h hsm
        rw [hfs1] at this
        exact ViewSmallL_set_get _ _ c c' m hget this
      have hlv := push_interpH ext nar x c c' _ _ _ lv hraw'.1 (fun hn => narrowFs_get sfs _ fi (hnf hn) hji) hwc hsc hshc hpc hdec hsm1
      have hsl1 : ShapeL s1.fields sfs := by
        rw [hfs1]; exact ShapeL.set_push hsl hget (push_takeRest ext x c c' hpc)
      have ih := pushFields_interpH ext nar rest fs0 s1 s' _ adds' sfs hraw'.2 hnf hm1 hm' hsl1 h hsm
      intro j f hj
      obtain ⟨found, hf, ha⟩ := ih j f hj
      rw [getD_set _ _ _ _ _ hlta] at ha
      have hk := key_at hm.nodup hidx (names_at hsl hj)
      by_cases hij : idx = j
      · subst hij
        rw [hji] at hj; cases hj
        rw [if_pos rfl] at ha
        refine ⟨lv :: found, ?_, by rw [ha, hun]; rfl⟩
        simp only [decide_true] at hk
        simp only [interpByName, hf, bind, Except.bind, hk, if_true, hlv]; rfl
      · rw [if_neg hij] at ha
        refine ⟨found, ?_, ha⟩
        simp only [hij, decide_false] at hk
        simp only [interpByName, hf, bind, Except.bind, hk]; rfl

theorem pushStructEntries_interpH (ext : Ext) (nar : Bool) : ∀ (es : SEntries) (fs0 : BL) (s s' : SS) (adds adds' : List (List LVal))
    (sfs : Fields), rawOKe nar es = true → (nar = true → narrowFs sfs = true) → MidH fs0 s adds → MidH fs0 s' adds' → ShapeL s.fields sfs →
    pushStructEntries ext s es = .ok s' → ViewSmallL s'.fields →
    ∀ j f, sfs.toList[j]? = some f → ∃ found,
      interpByKey ext f.name f.dataType f.nullable f.metadata es = .ok found ∧
      adds'.getD j [] = adds.getD j [] ++ found
  | .nil, fs0, s, s', adds, adds', sfs, _, _, hm, hm', _, h, _ => by
    simp only [pushStructEntries] at h; cases h
    have := hm.unique hm'; subst this
    intro j f _
    exact ⟨[], by simp [interpByKey, keyOf_eq], by simp⟩
  | .cons k x rest, fs0, s, s', adds, adds', sfs, hraw, hnf, hm, hm', hsl, h, hsm => by
    have hraw' : (rawOK nar k = true ∧ rawOK nar x = true) ∧ rawOKe nar rest = true := by simpa only [rawOK_some, rawOK_newtypeStruct, rawOK_newtypeVariant, rawOK_seq, rawOK_tuple, rawOK_tupleStruct, rawOK_tupleVariant, rawOK_record, rawOK_structVariant, rawOK_map, rawOK_mapRaw, rawOKs_cons, rawOKf_cons, rawOKe_cons, Bool.and_eq_true] using hraw
    simp only [pushStructEntries] at h
    obtain ⟨key, hkey, h⟩ := (bind_ok _ _ _).1 h
    have hopt : ∀ fname : String, ((keyStr k).toOption == some fname) = (key == fname) := by
      intro fname; rw [hkey]; simp [Except.toOption]
    split at h
    · rename_i hnone
      have ih := pushStructEntries_interpH ext nar rest fs0 _ s' adds adds' sfs hraw'.2 hnf (hm.next UNKNOWN_KEY) hm' hsl h hsm
      intro j f hj
      obtain ⟨found, hf, ha⟩ := ih j f hj
      refine ⟨found, ?_, ha⟩
      have hne := key_none hm.nodup hnone (names_at hsl hj)
      simp only [interpByKey, keyOf_eq, hf, bind, Except.bind, hopt, hne]; rfl
    · rename_i idx hidx
      obtain ⟨s1, h1, h⟩ := (bind_ok _ _ _).1 h
      obtain ⟨c, m, c', lv, hget, _, hpc, hwc, hsc, hdec, hm1, hun, _, hlta, hfs1, _⟩ :=
        SS.element_rowsH hm (StepOKH.of_push (fun c c' => push_refines ext x c c')) h1
      obtain ⟨fi, hji, hshc, _, _⟩ := ShapeL.get _ _ _ _ _ hsl hget
      have hsm1 : ViewSmall c' := by
        have := pushStructEntries_small ext rest _ s' h hsm
        simp only at this
        rw [hfs1] at this
        exact ViewSmallL_set_get _ _ c c' m hget this
      have hlv := push_interpH ext nar x c c' _ _ _ lv hraw'.1.2 (fun hn => narrowFs_get sfs _ fi (hnf hn) hji) hwc hsc hshc hpc hdec hsm1
      have hsl1 : ShapeL s1.fields sfs := by
        rw [hfs1]; exact ShapeL.set_push hsl hget (push_takeRest ext x c c' hpc)
      have ih := pushStructEntries_interpH ext nar rest fs0 _ s' _ adds' sfs hraw'.2 hnf (hm1.next UNKNOWN_KEY) hm' hsl1 h hsm
      intro j f hj
      obtain ⟨found, hf, ha⟩ := ih j f hj
      rw [getD_set _ _ _ _ _ hlta] at ha
      have hk := key_at hm.nodup hidx (names_at hsl hj)
      by_cases hij : idx = j
      · subst hij
        rw [hji] at hj; cases hj
        rw [if_pos rfl] at ha
        refine ⟨lv :: found, ?_, by rw [ha, hun]; rfl⟩
        simp only [decide_true] at hk
        simp only [interpByKey, keyOf_eq, hf, bind, Except.bind, hopt, hk, if_true, hlv]; rfl
      · rw [if_neg hij] at ha
        refine ⟨found, ?_, ha⟩
        simp only [hij, decide_false] at hk
        simp only [interpByKey, keyOf_eq, hf, bind, Except.bind, hopt, hk]; rfl

/-- a struct builder receiving a raw key/value call stream that alternates: the fields gather what the pairs give
them by key (`fields.length < UNKNOWN_KEY`: no field index is the sentinel) -/
theorem pushStructOps_interpH (ext : Ext) (nar : Bool) : ∀ (ops : SMapOps) (fs0 : BL) (s s' : SS) (adds adds' : List (List LVal))
    (sfs : Fields), nar = true → ssaO ops = true → narrowFs sfs = true → s.fields.length < UNKNOWN_KEY → MidH fs0 s adds →
    MidH fs0 s' adds' → ShapeL s.fields sfs → pushStructOps ext s ops = .ok s' → ViewSmallL s'.fields →
    ∀ j f, sfs.toList[j]? = some f → ∃ found,
      interpByKeyOps ext f.name f.dataType f.nullable f.metadata ops = .ok found ∧
      adds'.getD j [] = adds.getD j [] ++ found
  | .nil, fs0, s, s', adds, adds', sfs, _, _, _, _, hm, hm', _, h, _ => by
    simp only [pushStructOps] at h; cases h
    have := hm.unique hm'; subst this
    intro j f _
    exact ⟨[], by simp [interpByKeyOps, keyOf_eq], by simp⟩
  | .key _ .nil, _, _, _, _, _, _, _, hraw, _, _, _, _, _, _, _ => by simp [ssaO] at hraw
  | .key _ (.key _ _), _, _, _, _, _, _, _, hraw, _, _, _, _, _, _, _ => by simp [ssaO] at hraw
  | .value _ _, _, _, _, _, _, _, _, hraw, _, _, _, _, _, _, _ => by simp [ssaO] at hraw
  | .key k (.value x rest), fs0, s, s', adds, adds', sfs, hn, hraw, hnf, hlen, hm, hm', hsl, h, hsm => by
    have hraw' : (rawOK nar k = true ∧ rawOK nar x = true) ∧ ssaO rest = true := by
      subst hn; simpa [ssaO, rawOK] using hraw
    rw [pushStructOps] at h
    obtain ⟨key, hkey, h⟩ := (bind_ok _ _ _).1 h
    have hopt : ∀ fname : String, ((keyStr k).toOption == some fname) = (key == fname) := by
      intro fname; rw [hkey]; simp [Except.toOption]
    rw [pushStructOps] at h
    cases hidx : indexOfName s.fields.names key with
    | none =>
      simp only [hidx, Option.getD_none, bne_self_eq_false, Bool.false_eq_true, if_false] at h
      have ih := pushStructOps_interpH ext nar rest fs0 { s with next := UNKNOWN_KEY } s' adds adds' sfs hn hraw'.2 hnf hlen
        (hm.next UNKNOWN_KEY) hm' hsl h hsm
      intro j f hj
      obtain ⟨found, hf, ha⟩ := ih j f hj
      refine ⟨found, ?_, ha⟩
      have hne := key_none hm.nodup hidx (names_at hsl hj)
      simp only [interpByKeyOps, keyOf_eq, hf, bind, Except.bind, hopt, hne]; rfl
    | some idx =>
      have hlt : idx < s.fields.length := by rw [← BL.names_length]; exact indexOfName_lt' hidx
      have hneq : (idx != UNKNOWN_KEY) = true := by simp; omega
      simp only [hidx, Option.getD_some, hneq, if_true] at h
      obtain ⟨s1, h1, h⟩ := (bind_ok _ _ _).1 h
      obtain ⟨c, m, c', lv, hget, _, hpc, hwc, hsc, hdec, hm1, hun, _, hlta, hfs1, _⟩ :=
        SS.element_rowsH (hm.next idx) (StepOKH.of_push (fun c c' => push_refines ext x c c')) h1
      simp only at hget hfs1
      obtain ⟨fi, hji, hshc, _, _⟩ := ShapeL.get _ _ _ _ _ hsl hget
      have hsm1 : ViewSmall c' := by
        have := pushStructOps_small ext rest _ s' h hsm
        simp only at this
        rw [hfs1] at this
        exact ViewSmallL_set_get _ _ c c' m hget this
      have hlv := push_interpH ext nar x c c' _ _ _ lv hraw'.1.2 (fun _ => narrowFs_get sfs _ fi hnf hji) hwc hsc hshc hpc hdec hsm1
      have hsl1 : ShapeL s1.fields sfs := by
        rw [hfs1]; exact ShapeL.set_push hsl hget (push_takeRest ext x c c' hpc)
      have hlen1 : s1.fields.length < UNKNOWN_KEY := by rw [hfs1, BL.length_set]; exact hlen
      have ih := pushStructOps_interpH ext nar rest fs0 { s1 with next := UNKNOWN_KEY } s' _ adds' sfs hn hraw'.2 hnf hlen1
        (hm1.next UNKNOWN_KEY) hm' hsl1 h hsm
      intro j f hj
      obtain ⟨found, hf, ha⟩ := ih j f hj
      rw [getD_set _ _ _ _ _ hlta] at ha
      have hk := key_at hm.nodup hidx (names_at hsl hj)
      by_cases hij : idx = j
      · subst hij
        rw [hji] at hj; cases hj
        rw [if_pos rfl] at ha
        refine ⟨lv :: found, ?_, by rw [ha, hun]; rfl⟩
        simp only [decide_true] at hk
        simp only [interpByKeyOps, keyOf_eq, hf, bind, Except.bind, hopt, hk, if_true, hlv]; rfl
      · rw [if_neg hij] at ha
        refine ⟨found, ?_, ha⟩
        simp only [hij, decide_false] at hk
        simp only [interpByKeyOps, keyOf_eq, hf, bind, Except.bind, hopt, hk]; rfl

/-- a Map builder receiving a raw key/value call stream (accepted ⇒ alternating): entry by entry -/
theorem pushMapOps_interpH (ext : Ext) (nar : Bool) : ∀ (ops : SMapOps) (offs : List Int) (ks vs : B) (r : List Int × B × B)
    (kdt : DataType) (kn : Bool) (kmd : Metadata) (vdt : DataType) (vn : Bool) (vmd : Metadata) (lk lw : List LVal),
    nar = true → ssaO ops = true → narrowDT kdt = true → narrowDT vdt = true → WFH ks → WFH vs → NoDictKey ks → NoDictKey vs →
    Shape ks kdt kn kmd → Shape vs vdt vn vmd →
    pushMapOps ext false offs ks vs ops = .ok r → Refines (decH r.2.1) (decH ks ++ lk.map some) → Refines (decH r.2.2) (decH vs ++ lw.map some) →
    ViewSmall r.2.1 ∧ ViewSmall r.2.2 → interpOps ext kdt kn kmd vdt vn vmd ops = .ok (lk.zip lw)
  | .nil, offs, ks, vs, r, kdt, kn, kmd, vdt, vn, vmd, lk, lw, _, _, _, _, _, _, _, _, _, _, h, hdk, hdv, _ => by
    obtain ⟨_, rfl⟩ := pushMapOps_nil_ok h
    have : lk = [] := Refines.nil_of_self hdk
    subst this
    simp [interpOps]
  | .key _ .nil, _, _, _, _, _, _, _, _, _, _, _, _, _, hraw, _, _, _, _, _, _, _, _, _, _, _, _ => by simp [ssaO] at hraw
  | .key _ (.key _ _), _, _, _, _, _, _, _, _, _, _, _, _, _, hraw, _, _, _, _, _, _, _, _, _, _, _, _ => by simp [ssaO] at hraw
  | .value _ _, _, _, _, _, _, _, _, _, _, _, _, _, _, hraw, _, _, _, _, _, _, _, _, _, _, _, _ => by simp [ssaO] at hraw
  | .key k (.value x rest), offs, ks, vs, r, kdt, kn, kmd, vdt, vn, vmd, lk, lw, hn, hraw, hnk, hnv, hk, hv, hsk, hsv, hshk, hshv, h, hdk, hdv, hsm => by
    have hraw' : (rawOK nar k = true ∧ rawOK nar x = true) ∧ ssaO rest = true := by
      subst hn; simpa [ssaO, rawOK] using hraw
    obtain ⟨_, o', ks', h1, h2, h⟩ := pushMapOps_key_ok h
    obtain ⟨_, vs', h3, h⟩ := pushMapOps_value_ok h
    obtain ⟨base, l, rfl⟩ := incrementLast_form h1
    have := incrementLast_snoc h1
    subst this
    obtain ⟨hk', lk0, hdk0⟩ := push_refines ext k ks ks' hk hsk h2
    obtain ⟨hv', lv0, hdv0⟩ := push_refines ext x vs vs' hv hsv h3
    have htk := push_takeRest ext k ks ks' h2
    have htv := push_takeRest ext x vs vs' h3
    obtain ⟨_, _, lk', lw', _, gk, gv, _⟩ := pushMapOps_refines_gen ext rest false base (l + 1) ks' vs' r
      hk' hv' (NoDictKey.of_takeRest htk hsk) (NoDictKey.of_takeRest htv hsv) h
    have hsm1 := pushMapOps_small ext rest false _ ks' vs' r h hsm
    have hik := push_interpH ext nar k ks ks' kdt kn kmd lk0 hraw'.1.1 (fun _ => hnk) hk hsk hshk h2 hdk0 hsm1.1
    have hiv := push_interpH ext nar x vs vs' vdt vn vmd lv0 hraw'.1.2 (fun _ => hnv) hv hsv hshv h3 hdv0 hsm1.2
    have ih := pushMapOps_interpH ext nar rest _ ks' vs' r kdt kn kmd vdt vn vmd lk' lw' hn hraw'.2 hnk hnv hk' hv'
      (NoDictKey.of_takeRest htk hsk) (NoDictKey.of_takeRest htv hsv) (Shape.of_takeRest htk hshk) (Shape.of_takeRest htv hshv) h gk gv hsm
    have e1 : lk = lk0 :: lk' := rows_uniqueH hdk (Refines.cons_some hdk0 gk)
    have e2 : lw = lv0 :: lw' := rows_uniqueH hdv (Refines.cons_some hdv0 gv)
    subst e1 e2
    simp only [interpOps, hik, hiv, ih, bind, Except.bind]; rfl

theorem pushMapEntries_interpH (ext : Ext) (nar : Bool) : ∀ (es : SEntries) (offs : List Int) (ks vs : B) (r : List Int × B × B)
    (kdt : DataType) (kn : Bool) (kmd : Metadata) (vdt : DataType) (vn : Bool) (vmd : Metadata) (lk lw : List LVal),
    rawOKe nar es = true → (nar = true → narrowDT kdt = true) → (nar = true → narrowDT vdt = true) → WFH ks → WFH vs → NoDictKey ks → NoDictKey vs →
    Shape ks kdt kn kmd → Shape vs vdt vn vmd →
    pushMapEntries ext offs ks vs es = .ok r → Refines (decH r.2.1) (decH ks ++ lk.map some) → Refines (decH r.2.2) (decH vs ++ lw.map some) →
    ViewSmall r.2.1 ∧ ViewSmall r.2.2 → interpEntries ext kdt kn kmd vdt vn vmd es = .ok (lk.zip lw)
  | .nil, offs, ks, vs, r, kdt, kn, kmd, vdt, vn, vmd, lk, lw, _, _, _, _, _, _, _, _, _, h, hdk, hdv, _ => by
    simp only [pushMapEntries] at h; cases h
    have : lk = [] := Refines.nil_of_self hdk
    subst this
    simp [interpEntries]
  | .cons k x rest, offs, ks, vs, r, kdt, kn, kmd, vdt, vn, vmd, lk, lw, hraw, hnk, hnv, hk, hv, hsk, hsv, hshk, hshv, h, hdk, hdv, hsm => by
    have hraw' : (rawOK nar k = true ∧ rawOK nar x = true) ∧ rawOKe nar rest = true := by simpa only [rawOK_some, rawOK_newtypeStruct, rawOK_newtypeVariant, rawOK_seq, rawOK_tuple, rawOK_tupleStruct, rawOK_tupleVariant, rawOK_record, rawOK_structVariant, rawOK_map, rawOK_mapRaw, rawOKs_cons, rawOKf_cons, rawOKe_cons, Bool.and_eq_true] using hraw
    simp only [pushMapEntries] at h
    obtain ⟨o', h1, h⟩ := (bind_ok _ _ _).1 h
    obtain ⟨ks', h2, h⟩ := (bind_ok _ _ _).1 h
    obtain ⟨vs', h3, h⟩ := (bind_ok _ _ _).1 h
    obtain ⟨base, l, rfl⟩ := incrementLast_form h1
    have := incrementLast_snoc h1
    subst this
    obtain ⟨hk', lk0, hdk0⟩ := push_refines ext k ks ks' hk hsk h2
    obtain ⟨hv', lv0, hdv0⟩ := push_refines ext x vs vs' hv hsv h3
    have htk := push_takeRest ext k ks ks' h2
    have htv := push_takeRest ext x vs vs' h3
    obtain ⟨_, _, lk', lw', _, gk, gv, _⟩ := pushMapEntries_refines ext rest base (l + 1) ks' vs' r
      hk' hv' (NoDictKey.of_takeRest htk hsk) (NoDictKey.of_takeRest htv hsv) h
    have hsm1 := pushMapEntries_small ext rest _ ks' vs' r h hsm
    have hik := push_interpH ext nar k ks ks' kdt kn kmd lk0 hraw'.1.1 hnk hk hsk hshk h2 hdk0 hsm1.1
    have hiv := push_interpH ext nar x vs vs' vdt vn vmd lv0 hraw'.1.2 hnv hv hsv hshv h3 hdv0 hsm1.2
    have ih := pushMapEntries_interpH ext nar rest _ ks' vs' r kdt kn kmd vdt vn vmd lk' lw' hraw'.2 hnk hnv hk' hv'
      (NoDictKey.of_takeRest htk hsk) (NoDictKey.of_takeRest htv hsv) (Shape.of_takeRest htk hshk) (Shape.of_takeRest htv hshv) h gk gv hsm
    have e1 : lk = lk0 :: lk' := rows_uniqueH hdk (Refines.cons_some hdk0 gk)
    have e2 : lw = lv0 :: lw' := rows_uniqueH hdv (Refines.cons_some hdv0 gv)
    subst e1 e2
    simp only [interpEntries, hik, hiv, ih, bind, Except.bind]; rfl
end

end SaModel.Build
