import SaModel.Lemmas.C01ObsPush
import SaModel.Lemmas.C03ObsRoot
import SaModel.Lemmas.C01New
/-
C01 "hidden rows" — from the per-builder refinement R1' (`push_refines`: determined rows are stable) to the statements
about `dec` of a DETERMINED state (`Det b`: no row of `b` is undetermined).  Every strictly well-formed state is
determined (`Det_of_WFB`), every push of a determined state leads to a determined state and appends exactly one row to
`dec` (`push_appends_det`) — in particular the root builder of `to_marrow` (a non-nullable struct all of whose rows
were pushed) is determined after every record, although its descendants below a null need not be.
Also: `NoDictKey` of every builder `build_builder` constructs (`BuiltFor_NoDictKey`), the fold over the records
(`foldl_push_rowsH`, `runRows_rowsH`) and "the columns of a determined root are determined" (`det_root_cols`).
-/
namespace SaModel.Build
open SaModel SaModel.Spec
open SaModel.Lemmas.C03 (BuiltFor BuiltForL BuiltForU)

/-- no row of the builder is undetermined -/
def Det (b : B) : Prop := ∀ r ∈ decH b, r.isSome = true

theorem Det.eq {b : B} (h : Det b) : decH b = (dec b).map some := Lemmas.C03.decH_eq_of_det b h

theorem Det_of_WFB {b : B} (h : WFB b) : Det b := by
  intro r hr
  rw [decH_of_WFB b h] at hr
  obtain ⟨x, _, rfl⟩ := List.mem_map.1 hr
  rfl

theorem Det_of_eq {b : B} {xs : List LVal} (h : decH b = xs.map some) : Det b := by
  intro r hr
  rw [h] at hr
  obtain ⟨x, _, rfl⟩ := List.mem_map.1 hr
  rfl

/-- **R1 for determined states, without the first clause of `Safe`**: a successful push keeps the (weak) state invariant,
leads to a determined state again and appends exactly one row to `dec` -/
theorem push_appends_det (ext : Ext) (x : SVal) (b b' : B) (hw : WFH b) (hn : NoDictKey b) (hd : Det b)
    (h : push ext b x = .ok b') :
    WFH b' ∧ NoDictKey b' ∧ Det b' ∧ ∃ lv, dec b' = dec b ++ [lv] ∧ Refines (decH b') (decH b ++ [some lv]) := by
  obtain ⟨hw', lv, hr⟩ := push_refines ext x b b' hw hn h
  have hr' := hr
  rw [hd.eq] at hr'
  have e : decH b' = (dec b ++ [lv]).map some := Refines.of_map_some (by simpa [List.map_append] using hr')
  have hd' : Det b' := Det_of_eq e
  refine ⟨hw', NoDictKey.of_takeRest (push_takeRest ext x b b' h) hn, hd', lv, ?_, hr⟩
  have := hd'.eq
  rw [e] at this
  exact (Lemmas.C03.map_some_inj _ _ this).symm

/-! ### every builder `build_builder` constructs has integer-leaf dictionary keys -/

mutual
theorem BuiltFor_NoDictKey : ∀ (b : B) (dt : DataType) (nl : Bool), BuiltFor dt nl b → NoDictKey b
  | .null _ _, _, _, _ => by simp [NoDictKey]
  | .unknownVariant _, _, _, _ => by simp [NoDictKey]
  | .leaf _ _ _ _, _, _, _ => by simp [NoDictKey]
  | .bytes _ _ _ _ _, _, _, _ => by simp [NoDictKey]
  | .bytesView _ _ _ _ _, _, _, _ => by simp [NoDictKey]
  | .fixedSizeBinary _ _ _ _ _ _, _, _, _ => by simp [NoDictKey]
  | .list _ _ _ _ _ el, dt, nl, h => by
    simp only [BuiltFor] at h
    obtain ⟨f, _, _, _, hel⟩ := h
    simp only [NoDictKey]
    exact BuiltFor_NoDictKey el _ _ hel
  | .fixedSizeList _ _ _ _ _ _ el, dt, nl, h => by
    simp only [BuiltFor] at h
    obtain ⟨f, _, _, _, hel⟩ := h
    simp only [NoDictKey]
    exact BuiltFor_NoDictKey el _ _ hel
  | .map _ _ _ _ ks vs, dt, nl, h => by
    simp only [BuiltFor] at h
    obtain ⟨_, kf, vf, _, _, _, _, _, _, hk, hv⟩ := h
    simp only [NoDictKey]
    exact ⟨BuiltFor_NoDictKey ks _ _ hk, BuiltFor_NoDictKey vs _ _ hv⟩
  | .struct _ _ _ fs _ _ _, dt, nl, h => by
    simp only [BuiltFor] at h
    obtain ⟨fields, _, _, hl⟩ := h
    simp only [NoDictKey]
    exact BuiltForL_NoDictKeyL fs fields hl
  | .dictionary _ idx vals _, dt, nl, h => by
    simp only [BuiltFor] at h
    obtain ⟨k, vdt, _, hk, hi, hv⟩ := h
    simp only [NoDictKey]
    refine ⟨?_, BuiltFor_NoDictKey idx _ _ hi, BuiltFor_NoDictKey vals _ _ hv⟩
    have := Lemmas.C03.isIntLeaf_of_builtFor idx k nl hk hi
    cases idx <;> simp [Lemmas.C03.isIntLeaf] at this <;> rfl
  | .union _ fs _ _ _, dt, nl, h => by
    simp only [BuiltFor] at h
    obtain ⟨ufs, _, _, hu⟩ := h
    simp only [NoDictKey]
    exact BuiltForU_NoDictKeyL fs ufs 0 hu
theorem BuiltForL_NoDictKeyL : ∀ (fs : BL) (fields : Fields), BuiltForL fields fs → NoDictKeyL fs
  | .nil, _, _ => by simp [NoDictKeyL]
  | .cons b m r, .nil, h => by simp [BuiltForL] at h
  | .cons b m r, .cons f fr, h => by
    simp only [BuiltForL] at h
    simp only [NoDictKeyL]
    exact ⟨BuiltFor_NoDictKey b _ _ h.2.1, BuiltForL_NoDictKeyL r fr h.2.2⟩
theorem BuiltForU_NoDictKeyL : ∀ (fs : BL) (ufs : UFields) (k : Nat), BuiltForU ufs fs k → NoDictKeyL fs
  | .nil, _, _, _ => by simp [NoDictKeyL]
  | .cons b m r, .nil, _, h => by simp [BuiltForU] at h
  | .cons b m r, .cons tid f fr, k, h => by
    simp only [BuiltForU] at h
    simp only [NoDictKeyL]
    exact ⟨BuiltFor_NoDictKey b _ _ h.2.2.1, BuiltForU_NoDictKeyL r fr (k + 1) h.2.2.2⟩
end

/-- the fresh root `to_marrow` starts from: no dictionary-keyed dictionary (whatever the schema) -/
theorem newRoot_NoDictKey {fields : List Field} {root0 : B} (h : newRoot fields = .ok root0) : NoDictKey root0 :=
  BuiltFor_NoDictKey root0 _ _ (Lemmas.C03.newRoot_builtFor fields root0 h)

/-! ### folding over the records -/

theorem foldl_push_rowsH (ext : Ext) : ∀ (rows : List SVal) (b b' : B), WFH b → NoDictKey b → Det b →
    rows.foldlM (push ext) b = .ok b' →
    WFH b' ∧ NoDictKey b' ∧ Det b' ∧ takeRest b' = takeRest b ∧ ∃ ls, ls.length = rows.length ∧ dec b' = dec b ++ ls
  | [], b, b', hwf, hs, hd, h => by
    simp [List.foldlM, pure, Except.pure] at h; subst h
    exact ⟨hwf, hs, hd, rfl, [], rfl, by simp⟩
  | x :: rest, b, b', hwf, hs, hd, h => by
    simp only [List.foldlM] at h
    obtain ⟨b1, h1, h⟩ := (bind_ok _ _ _).1 h
    obtain ⟨hw1, hs1, hd1, lv, he1, _⟩ := push_appends_det ext x b b1 hwf hs hd h1
    obtain ⟨hw', hs', hd', ht', ls, hl, he⟩ := foldl_push_rowsH ext rest b1 b' hw1 hs1 hd1 h
    exact ⟨hw', hs', hd', by rw [ht', push_takeRest ext x b b1 h1], lv :: ls, by simp [hl], by rw [he, he1]; simp⟩

theorem WFHL_cols : ∀ (fs : BL) (len : Nat), WFHL fs len → ∀ c ∈ decCols fs, c.2.length = len :=
  Lemmas.C03.WFHL_len

theorem WFHL_colsH : ∀ (fs : BL) (len : Nat), WFHL fs len → ∀ c ∈ decHCols fs, c.2.length = len
  | .nil, _, _ => by simp [decHCols]
  | .cons b m r, len, h => by
    simp only [WFHL] at h
    intro c hc
    simp only [decHCols, List.mem_cons] at hc
    rcases hc with rfl | hc
    · simp only [decH_length]; exact h.2.1
    · exact WFHL_colsH r len h.2.2 c hc

theorem allSome_isSome_mem {α} : ∀ (l : List (Option α)), (allSome l).isSome = true → ∀ e ∈ l, e.isSome = true
  | [], _ => by simp
  | none :: _, h => by simp [allSome] at h
  | some x :: r, h => by
    intro e he
    simp only [allSome, Option.isSome_map] at h
    rcases List.mem_cons.1 he with rfl | he
    · rfl
    · exact allSome_isSome_mem r h e he

/-- the columns of a determined struct WITHOUT validity are determined (every row of the struct reads every child) -/
theorem det_root_cols {p : String} {len : Nat} {fs : BL} {cached next seen}
    (hw : WFH (.struct p len none fs cached next seen)) (hd : Det (.struct p len none fs cached next seen)) :
    ∀ c ∈ decHCols fs, ∀ r ∈ c.2, r.isSome = true := by
  simp only [WFH] at hw
  intro c hc r hr
  obtain ⟨i, hi, rfl⟩ := List.getElem_of_mem hr
  have hlen := WFHL_colsH fs len hw.2.1 c hc
  have hrow : (rowAtH (decHCols fs) i).isSome = true := by
    apply hd
    simp only [decH, maskNullH, structRowsH]
    exact List.mem_map.2 ⟨i, List.mem_range.2 (by omega), rfl⟩
  simp only [rowAtH, Option.isSome_map] at hrow
  have := allSome_isSome_mem _ hrow ((c.2.getD i (some .null)).map fun x => (c.1, x))
    (List.mem_map.2 ⟨c, hc, rfl⟩)
  simp only [Option.isSome_map, List.getD_eq_getElem?_getD, List.getElem?_eq_getElem hi, Option.getD_some] at this
  exact this

/-- **R3' (row count), no `Safe`.** After all rows have been pushed — ANY serde values — the root satisfies the weak
invariant, is determined, holds exactly `rows.length` rows and every column has that length. -/
theorem runRows_rowsH (ext : Ext) (fields : List Field) (rows : List SVal) (root0 root : B)
    (h0 : newRoot fields = .ok root0) (h : runRows ext fields rows = .ok root) :
    WFH root ∧ NoDictKey root ∧ Det root ∧ (dec root).length = rows.length ∧ takeRest root = root0 ∧
      ∀ col ∈ decRoot root, col.length = rows.length := by
  simp only [runRows, h0] at h
  have h : rows.foldlM (push ext) root0 = .ok root := h
  obtain ⟨hw0, hd0, ht0⟩ := newRoot_fresh h0
  obtain ⟨hw, hn, hdet, ht, ls, hl, hd⟩ := foldl_push_rowsH ext rows root0 root (WFH_of_WFB _ hw0)
    (newRoot_NoDictKey h0) (Det_of_WFB hw0) h
  refine ⟨hw, hn, hdet, by rw [hd, hd0]; simpa using hl, by rw [ht, ht0], ?_⟩
  have hroot : ∃ p len fs cached next seen, root = .struct p len none fs cached next seen := by
    have : takeRest root = root0 := by rw [ht, ht0]
    simp only [newRoot] at h0
    obtain ⟨bl, _, h0⟩ := (bind_ok _ _ _).1 h0
    unfold mkStruct at h0
    split at h0
    · simp [fail] at h0
    · cases h0
      exact SaModel.Props.C01.runRows_rows.struct_of_takeRest root this
  obtain ⟨p, len, fs, cached, next, seen, rfl⟩ := hroot
  have hlen : len = rows.length := by
    have : (dec (B.struct p len none fs cached next seen)).length = rows.length := by rw [hd, hd0]; simpa using hl
    simpa [dec_struct, maskNull] using this
  simp only [WFH] at hw
  intro col hcol
  simp only [decRoot, List.mem_map] at hcol
  obtain ⟨c, hc, rfl⟩ := hcol
  rw [← hlen]
  exact (WFHL_cols fs len hw.2.1) c hc

end SaModel.Build
