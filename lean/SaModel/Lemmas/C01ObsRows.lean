import SaModel.Lemmas.C01ObsInterp
import SaModel.Lemmas.C01Rows
/-
C01 "hidden rows" — the explicit row of a record and the struct case of R2' (observable-rows counterpart of
Lemmas/C01Rows.lean): a record row is the specified struct value, for any collection discipline.
-/
namespace SaModel.Build
open SaModel SaModel.Spec
open SaModel.Lemmas.C03 (ViewSmall ViewSmallL)

theorem ExtLH.unique : ∀ (fs0 fs : BL) (a1 a2 : List (List LVal)),
    ExtLH fs0 fs (a1.map (·.map some)) → ExtLH fs0 fs (a2.map (·.map some)) → a1 = a2 := sorry

theorem MidH.unique {fs0 : BL} {s : SS} {a1 a2 : List (List LVal)} (h1 : MidH fs0 s a1) (h2 : MidH fs0 s a2) : a1 = a2 :=
  ExtLH.unique _ _ _ _ h1.ext h2.ext

theorem MidH.adds_length {fs0 : BL} {s : SS} {adds : List (List LVal)} (h : MidH fs0 s adds) :
    adds.length = s.fields.length ∧ s.seen.length = s.fields.length ∧ s.fields.length = fs0.length := sorry

/-- `element`: exactly child `idx` moves on, by the determined row its push appends -/
theorem SS.element_rowsH {fs0 : BL} {s s' : SS} {adds : List (List LVal)} {idx : Nat} {pc : B → R B}
    (hm : MidH fs0 s adds) (hpc : StepOKH pc) (h : s.element idx pc = .ok s') :
    ∃ c m c' lv, s.fields.get? idx = some (c, m) ∧ s.seen[idx]? = some false ∧ pc c = .ok c' ∧ WFH c ∧ NoDictKey c ∧
      Refines (decH c') (decH c ++ [some lv]) ∧ MidH fs0 s' (adds.set idx [lv]) ∧ adds.getD idx [] = [] ∧ s'.next = idx + 1 ∧
      idx < adds.length ∧ s'.fields = s.fields.set idx c' ∧ Same s' s := sorry

/-- `end`: seen children keep their row, unseen (nullable) children receive a null -/
theorem endFields_rowsH : ∀ (fs0 fs : BL) (seen : List Bool) (adds : List (List LVal)) (fs' : BL),
    ExtLH fs0 fs (adds.map (·.map some)) → Flags seen adds → NoDictKeyL fs → endFields fs seen = .ok fs' →
    ∃ adds' : List (List LVal), ExtLH fs0 fs' (adds'.map (·.map some)) ∧ (∀ a ∈ adds', a.length = 1) ∧
      ∀ j, (seen[j]? = some true → adds'.getD j [] = adds.getD j []) ∧
        (seen[j]? = some false → adds'.getD j [] = [.null] ∧
          ∃ c m c', fs.get? j = some (c, m) ∧ m.nullable = true ∧ pushNone c = .ok c') := sorry

/-- the explicit row of a record -/
theorem record_rowsH {p len v fs cached next seen} {pf : SS → R SS} {b' : B}
    (hwf : WFH (.struct p len v fs cached next seen)) (hsafe : NoDictKey (.struct p len v fs cached next seen))
    (hpf : FieldsOKH pf)
    (h : (do
      let s ← SS.start ⟨p, len, v, fs, cached, next, seen⟩
      let s ← pf s
      let s ← s.finishRow
      pure s.toB : R B) = .ok b') :
    ∃ s1 s2 adds2 adds3, s1.next = 0 ∧ s1.fields = fs ∧ pf s1 = .ok s2 ∧
      MidH fs s1 (List.replicate fs.length []) ∧ MidH fs s2 adds2 ∧ adds3.length = fs.length ∧
      (∀ j, (s2.seen[j]? = some true → adds3.getD j [] = adds2.getD j []) ∧
        (s2.seen[j]? = some false → adds3.getD j [] = [.null] ∧
          ∃ c m c', s2.fields.get? j = some (c, m) ∧ m.nullable = true ∧ pushNone c = .ok c')) ∧
      Refines (decH b') (decH (.struct p len v fs cached next seen) ++ [some (rowAt (fs.names.zip adds3) 0)]) ∧
      (ViewSmall b' → ViewSmallL s2.fields) := sorry

/-- **A record row is the specified struct value**, for any way `collect` of gathering the candidates of a field
that the field loop `pf` implements. -/
theorem struct_interpH {p len v fs cached next seen} {pf : SS → R SS} {b' : B} {sfs : Fields} {lv : LVal}
    (collect : Field → R (List LVal))
    (hwf : WFH (.struct p len v fs cached next seen)) (hsafe : NoDictKey (.struct p len v fs cached next seen))
    (hshape : ShapeL fs sfs) (hpf : FieldsOKH pf) (hskel : ∀ s1 s2, pf s1 = .ok s2 → SSkel s2 s1)
    (hcol : ∀ s1 s2 adds2, s1.next = 0 → s1.fields = fs → MidH fs s1 (List.replicate fs.length []) → MidH fs s2 adds2 →
      pf s1 = .ok s2 → ViewSmallL s2.fields →
      ∀ j f, sfs.toList[j]? = some f → ∃ found, collect f = .ok found ∧ adds2.getD j [] = found)
    (h : (do
      let s ← SS.start ⟨p, len, v, fs, cached, next, seen⟩
      let s ← pf s
      let s ← s.finishRow
      pure s.toB : R B) = .ok b')
    (hd : Refines (decH b') (decH (.struct p len v fs cached next seen) ++ [some lv])) (hsm : ViewSmall b') :
    structOf sfs.toList collect = .ok lv := sorry

end SaModel.Build
