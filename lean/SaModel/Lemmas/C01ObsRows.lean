import SaModel.Lemmas.C01ObsInterp
import SaModel.Lemmas.C01Rows
/-
C01 "hidden rows" — the explicit row of a record and the struct case of R2' (observable-rows counterpart of
Lemmas/C01Rows.lean): a record row is the specified struct value, for any collection discipline.
-/
namespace SaModel.Build
open SaModel SaModel.Spec
open SaModel.Lemmas.C03 (ViewSmall ViewSmallL)

theorem ExtLH.unique : ∀ (fs0 fs : BL) (a1 a2 : List (List LVal)),
    ExtLH fs0 fs (a1.map (·.map some)) → ExtLH fs0 fs (a2.map (·.map some)) → a1 = a2
  | .nil, .nil, [], [], _, _ => rfl
  | .cons b0 m0 r0, .cons b m r, a :: as, a' :: as', h1, h2 => by
    simp only [List.map_cons, ExtLH] at h1 h2
    have := rows_uniqueH h1.2.2.1 h2.2.2.1
    rw [this, ExtLH.unique r0 r as as' h1.2.2.2 h2.2.2.2]
  | .nil, .nil, [], _ :: _, _, h => by simp [ExtLH] at h
  | .nil, .nil, _ :: _, _, h, _ => by simp [ExtLH] at h
  | .cons _ _ _, .cons _ _ _, [], _, h, _ => by simp [ExtLH] at h
  | .cons _ _ _, .cons _ _ _, _ :: _, [], _, h => by simp [ExtLH] at h
  | .nil, .cons _ _ _, a1, _, h, _ => by cases a1 <;> simp [ExtLH] at h
  | .cons _ _ _, .nil, a1, _, h, _ => by cases a1 <;> simp [ExtLH] at h

theorem MidH.unique {fs0 : BL} {s : SS} {a1 a2 : List (List LVal)} (h1 : MidH fs0 s a1) (h2 : MidH fs0 s a2) : a1 = a2 :=
  ExtLH.unique _ _ _ _ h1.ext h2.ext

theorem MidH.adds_length {fs0 : BL} {s : SS} {adds : List (List LVal)} (h : MidH fs0 s adds) :
    adds.length = s.fields.length ∧ s.seen.length = s.fields.length ∧ s.fields.length = fs0.length := by
  have h1 := ExtLH.length _ _ _ h.ext
  have h2 := Flags.length _ _ h.flags
  simp only [List.length_map] at h1
  omega

/-- `element`: exactly child `idx` moves on, by the determined row its push appends -/
theorem SS.element_rowsH {fs0 : BL} {s s' : SS} {adds : List (List LVal)} {idx : Nat} {pc : B → R B}
    (hm : MidH fs0 s adds) (hpc : StepOKH pc) (h : s.element idx pc = .ok s') :
    ∃ c m c' lv, s.fields.get? idx = some (c, m) ∧ s.seen[idx]? = some false ∧ pc c = .ok c' ∧ WFH c ∧ NoDictKey c ∧
      Refines (decH c') (decH c ++ [some lv]) ∧ MidH fs0 s' (adds.set idx [lv]) ∧ adds.getD idx [] = [] ∧ s'.next = idx + 1 ∧
      idx < adds.length ∧ s'.fields = s.fields.set idx c' ∧ Same s' s := by
  unfold SS.element at h
  split at h
  · simp [panic] at h
  · simp [ctx_ok, fail] at h
  · rename_i hseen
    split at h
    · simp [panic] at h
    · rename_i c m hget
      obtain ⟨c', h1, h2⟩ := (bind_ok _ _ _).1 h
      cases h2
      have hwc := ExtLH.get _ _ _ _ _ hm.ext hget
      have hsc := NoDictKeyL.get _ _ _ hm.safe hget
      obtain ⟨hc', hs', lv, hdec⟩ := hpc c c' hwc hsc h1
      have hun := Flags.unseen _ _ _ hm.flags hseen
      have hlt : idx < adds.length := by rw [hm.adds_length.1]; exact BL.get?_lt _ _ _ hget
      refine ⟨c, m, c', lv, hget, hseen, h1, hwc, hsc, hdec, ⟨?_, ?_, ?_, ?_, ?_⟩, hun, rfl, hlt, rfl, rfl, rfl, rfl⟩
      · show ExtLH fs0 (s.fields.set idx c') ((adds.set idx [lv]).map (·.map some))
        have e := map_some_set_getD adds idx [lv]
        rw [hun, List.nil_append] at e
        rw [e]
        exact ExtLH.set _ _ _ _ c c' m [some lv] hm.ext hget hc' hdec
      · have := Flags.set _ _ _ lv hm.flags hseen
        rwa [hun, List.nil_append] at this
      · simp only [BL.names_set]; exact hm.cache
      · exact NoDictKeyL.set _ _ _ hm.safe hs'
      · simp only [BL.names_set]; exact hm.nodup

/-- `end`: seen children keep their row, unseen (nullable) children receive a null -/
theorem endFields_rowsH : ∀ (fs0 fs : BL) (seen : List Bool) (adds : List (List LVal)) (fs' : BL),
    ExtLH fs0 fs (adds.map (·.map some)) → Flags seen adds → NoDictKeyL fs → endFields fs seen = .ok fs' →
    ∃ adds' : List (List LVal), ExtLH fs0 fs' (adds'.map (·.map some)) ∧ (∀ a ∈ adds', a.length = 1) ∧
      ∀ j, (seen[j]? = some true → adds'.getD j [] = adds.getD j []) ∧
        (seen[j]? = some false → adds'.getD j [] = [.null] ∧
          ∃ c m c', fs.get? j = some (c, m) ∧ m.nullable = true ∧ pushNone c = .ok c')
  | .nil, .nil, _, [], fs', _, _, _, h => by
    simp [endFields] at h; subst h
    refine ⟨[], by simp [ExtLH], by simp, ?_⟩
    intro j
    cases ‹List Bool› <;> simp [Flags] at *
  | .cons b0 m0 r0, .cons b m r, [], a :: as, fs', _, hf, _, _ => by simp [Flags] at hf
  | .cons b0 m0 r0, .cons b m r, s :: ss, a :: as, fs', hext, hf, hsafe, h => by
    simp only [List.map_cons, ExtLH] at hext
    simp only [Flags] at hf
    simp only [NoDictKeyL] at hsafe
    simp only [endFields] at h
    split at h
    · rename_i hs
      obtain ⟨r', h1, h2⟩ := (bind_ok _ _ _).1 h
      cases h2
      obtain ⟨adds', he, hk, hrel⟩ := endFields_rowsH r0 r ss as r' hext.2.2.2 hf.2 hsafe.2 h1
      refine ⟨a :: adds', by simp only [List.map_cons, ExtLH]; exact ⟨hext.1, hext.2.1, hext.2.2.1, he⟩, ?_, ?_⟩
      · intro a' ha'
        rcases List.mem_cons.1 ha' with rfl | ha'
        · simpa [hs] using hf.1
        · exact hk a' ha'
      · intro j
        cases j with
        | zero => simp [hs]
        | succ j => simpa [BL.get?] using hrel j
    · rename_i hs
      split at h
      · simp [fail] at h
      · rename_i hnull
        obtain ⟨b', h0, h'⟩ := (bind_ok _ _ _).1 h
        obtain ⟨r', h1, h2⟩ := (bind_ok _ _ _).1 h'
        cases h2
        obtain ⟨adds', he, hk, hrel⟩ := endFields_rowsH r0 r ss as r' hext.2.2.2 hf.2 hsafe.2 h1
        obtain ⟨hb', hdec⟩ := pushNone_refines b b' hext.2.1 hsafe.1 h0
        have ha : a = [] := by simpa [hs] using hf.1
        subst ha
        refine ⟨[.null] :: adds', ?_, ?_, ?_⟩
        · simp only [List.map_cons, ExtLH]
          exact ⟨hext.1, hb', by simpa using Refines.extend hext.2.2.1 hdec, he⟩
        · intro a' ha'
          rcases List.mem_cons.1 ha' with rfl | ha'
          · rfl
          · exact hk a' ha'
        · intro j
          cases j with
          | zero =>
            simp only [List.getElem?_cons_zero, List.getD_cons_zero]
            refine ⟨by intro h; simp at h; exact absurd h hs, fun _ => ⟨trivial, b, m, b', rfl, by simpa using hnull, h0⟩⟩
          | succ j => simpa [BL.get?] using hrel j
  | .nil, .cons _ _ _, _, _, _, h, _, _, _ => by cases ‹List (List LVal)› <;> simp [ExtLH] at h
  | .cons _ _ _, .nil, _, _, _, h, _, _, _ => by cases ‹List (List LVal)› <;> simp [ExtLH] at h
  | .nil, .nil, _, _ :: _, _, h, _, _, _ => by simp [ExtLH] at h
  | .cons _ _ _, .cons _ _ _, _, [], _, h, _, _, _ => by simp [ExtLH] at h

/-- the explicit row of a record -/
theorem record_rowsH {p len v fs cached next seen} {pf : SS → R SS} {b' : B}
    (hwf : WFH (.struct p len v fs cached next seen)) (hsafe : NoDictKey (.struct p len v fs cached next seen))
    (hpf : FieldsOKH pf)
    (h : (do
      let s ← SS.start ⟨p, len, v, fs, cached, next, seen⟩
      let s ← pf s
      let s ← s.finishRow
      pure s.toB : R B) = .ok b') :
    ∃ s1 s2 adds2 adds3, s1.next = 0 ∧ s1.fields = fs ∧ pf s1 = .ok s2 ∧
      MidH fs s1 (List.replicate fs.length []) ∧ MidH fs s2 adds2 ∧ adds3.length = fs.length ∧
      (∀ j, (s2.seen[j]? = some true → adds3.getD j [] = adds2.getD j []) ∧
        (s2.seen[j]? = some false → adds3.getD j [] = [.null] ∧
          ∃ c m c', s2.fields.get? j = some (c, m) ∧ m.nullable = true ∧ pushNone c = .ok c')) ∧
      Refines (decH b') (decH (.struct p len v fs cached next seen) ++ [some (rowAt (fs.names.zip adds3) 0)]) ∧
      (ViewSmall b' → ViewSmallL s2.fields) := by
  obtain ⟨s1, h1, h⟩ := (bind_ok _ _ _).1 h
  obtain ⟨s2, h2, h⟩ := (bind_ok _ _ _).1 h
  obtain ⟨s3, h3, h⟩ := (bind_ok _ _ _).1 h
  cases h
  have hw' := hwf
  simp only [WFH] at hw'
  obtain ⟨hv, hwfl, hseen, hnd, hcache⟩ := hw'
  simp only [NoDictKey] at hsafe
  simp only [SS.start] at h1
  obtain ⟨v', hv1, h1⟩ := (bind_ok _ _ _).1 h1
  cases h1
  obtain ⟨rfl, _⟩ := setValidity_ok hv hv1
  have hmid : MidH fs ⟨p, len + 1, v.map (· ++ [true]), fs, cached, 0, List.replicate seen.length false⟩
      (List.replicate fs.length []) :=
    ⟨by simpa using ExtLH.refl fs len hwfl, by rw [hseen]; exact Flags.fresh _, hcache, hsafe, hnd⟩
  obtain ⟨⟨adds2, hm2⟩, hsame⟩ := hpf _ _ _ _ hmid h2
  simp only [SS.finishRow] at h3
  obtain ⟨fs3, h3', h4⟩ := (bind_ok _ _ _).1 h3
  cases h4
  obtain ⟨adds3, hext3, hk3, hrel⟩ := endFields_rowsH _ _ _ _ _ hm2.ext hm2.flags hm2.safe h3'
  obtain ⟨hp, hl, hvv⟩ := hsame
  simp only at hp hl hvv
  have hnames : fs3.names = fs.names := ExtLH.names _ _ _ hext3
  have hl2 : adds2.length = fs.length := by simpa using (ExtLH.length _ _ _ hm2.ext).2
  have hl3 : adds3.length = fs.length := by simpa using (ExtLH.length _ _ _ hext3).2
  have := struct_appendH (cached' := s2.cached) (next' := s2.next) (seen' := s2.seen) hwf
    (adds3.map (·.map some)) [true] hext3
    (by
      intro a ha
      obtain ⟨a', ha', rfl⟩ := List.mem_map.1 ha
      simp [hk3 a' ha'])
    (by rw [hnames, ← ExtLH.names _ _ _ hm2.ext]; exact hm2.cache)
    (by rw [(ExtLH.length _ _ _ hext3).1, ← Flags.length _ _ hm2.flags, hl2])
  have e : structRowsH [true].length (fs.names.zip (adds3.map (·.map some))) =
      [some (rowAt (fs.names.zip adds3) 0)] := by
    simp only [structRowsH, List.length_singleton, List.range_one, List.map_cons, List.map_nil, rowAtH_some]
  rw [e, maskNullH_const_one, rowOf_true] at this
  simp only [List.length_singleton] at this
  refine ⟨_, s2, adds2, adds3, rfl, rfl, h2, hmid, hm2, hl3, hrel, ?_, ?_⟩
  · simp only [SS.toB, hp, hl, hvv]
    exact this.2
  · simp only [SS.toB, ViewSmall]
    exact endFields_small _ _ _ h3'

/-- **A record row is the specified struct value**, for any way `collect` of gathering the candidates of a field
that the field loop `pf` implements. -/
theorem struct_interpH {p len v fs cached next seen} {pf : SS → R SS} {b' : B} {sfs : Fields} {lv : LVal}
    (collect : Field → R (List LVal))
    (hwf : WFH (.struct p len v fs cached next seen)) (hsafe : NoDictKey (.struct p len v fs cached next seen))
    (hshape : ShapeL fs sfs) (hpf : FieldsOKH pf) (hskel : ∀ s1 s2, pf s1 = .ok s2 → SSkel s2 s1)
    (hcol : ∀ s1 s2 adds2, s1.next = 0 → s1.fields = fs → MidH fs s1 (List.replicate fs.length []) → MidH fs s2 adds2 →
      pf s1 = .ok s2 → ViewSmallL s2.fields →
      ∀ j f, sfs.toList[j]? = some f → ∃ found, collect f = .ok found ∧ adds2.getD j [] = found)
    (h : (do
      let s ← SS.start ⟨p, len, v, fs, cached, next, seen⟩
      let s ← pf s
      let s ← s.finishRow
      pure s.toB : R B) = .ok b')
    (hd : Refines (decH b') (decH (.struct p len v fs cached next seen) ++ [some lv])) (hsm : ViewSmall b') :
    structOf sfs.toList collect = .ok lv := by
  obtain ⟨s1, s2, adds2, adds3, hn0, hf1, hp, hm1, hm2, hl3, hrel, hrow, hsm2⟩ := record_rowsH hwf hsafe hpf h
  have := row_uniqueH hd hrow
  subst this
  have hshape2 : ShapeL s2.fields sfs := by
    have := (hskel s1 s2 hp).2.2.1
    rw [hf1] at this
    exact ShapeL.of_takeRest this hshape
  refine structOf_ok collect sfs.toList fs.names adds3 (ShapeL.names fs sfs hshape) (by rw [hl3, hshape.length]) ?_
  intro j f hj
  obtain ⟨found, hc, ha2⟩ := hcol s1 s2 adds2 hn0 hf1 hm1 hm2 hp (hsm2 hsm) j f hj
  refine ⟨found, hc, ?_⟩
  have hjlt : j < s2.seen.length := by
    have := hm2.adds_length
    have hj' : j < sfs.toList.length := by
      rcases Nat.lt_or_ge j sfs.toList.length with h | h
      · exact h
      · rw [List.getElem?_eq_none_iff.mpr h] at hj; cases hj
    rw [hshape.length] at hj'
    omega
  have hflag := struct_interp.flags_at _ _ hm2.flags j hjlt
  cases hs : s2.seen[j]'hjlt with
  | true =>
    have hs' : s2.seen[j]? = some true := by rw [List.getElem?_eq_getElem hjlt, hs]
    rw [(hrel j).1 hs', ha2]
    rw [hs] at hflag
    simp only [if_true] at hflag
    rw [ha2] at hflag
    match found, hflag with
    | [a], _ => simp [pickOne]
  | false =>
    have hs' : s2.seen[j]? = some false := by rw [List.getElem?_eq_getElem hjlt, hs]
    obtain ⟨h3, c, m, c', hget, hnl, hpn⟩ := (hrel j).2 hs'
    rw [h3]
    rw [hs] at hflag
    simp only [Bool.false_eq_true, if_false] at hflag
    rw [ha2] at hflag
    have hfound : found = [] := List.eq_nil_of_length_eq_zero hflag
    subst hfound
    obtain ⟨f', hj', hsh, _, hnl'⟩ := ShapeL.get _ _ _ _ _ hshape2 hget
    rw [hj] at hj'; cases hj'
    have hfn : f.nullable = true := by rw [← hnl']; exact hnl
    simp only [pickOne, hfn, Bool.not_true, Bool.false_eq_true, if_false, List.getD_cons_zero]
    have := pushNone_interp c c' _ _ _ hsh hpn
    rwa [hfn] at this

end SaModel.Build
