import SaModel.Lemmas.C01ObsRows
import SaModel.Lemmas.C01Seq
/-
SKELETON (statements only) of Lemmas/C01ObsSeq.lean — the observable-rows counterpart of Lemmas/C01Seq.lean.
-/
namespace SaModel.Build
open SaModel SaModel.Spec
open SaModel.Lemmas.C03 (ViewSmall ViewSmallL)

/-- positional field loop: what the induction hypothesis for `pushTupleElems` provides -/
def TupleSpecH (ext : Ext) (N : Prop) (xs : SVals) (pt : SS → R SS) : Prop :=
  ∀ fs0 s s' adds adds' sfs, (N → narrowFs sfs = true) → MidH fs0 s adds → MidH fs0 s' adds' → ShapeL s.fields sfs → s.next = 0 → pt s = .ok s' →
    ViewSmallL s'.fields → ∀ j f, sfs.toList[j]? = some f →
      ∃ found, interpNth ext f.dataType f.nullable f.metadata j xs = .ok found ∧ adds'.getD j [] = adds.getD j [] ++ found

def ElemsSpecH (ext : Ext) (N : Prop) (xs : SVals) (pe : Bool → B → List Int → R (B × List Int)) : Prop :=
  ∀ large el offs r cdt cn cmd ls, (N → narrowDT cdt = true) → WFH el → NoDictKey el → Shape el cdt cn cmd → pe large el offs = .ok r →
    Refines (decH r.1) (decH el ++ ls.map some) → ViewSmall r.1 → interpAll ext cdt cn cmd xs = .ok ls

def CountSpecH (ext : Ext) (N : Prop) (xs : SVals) (pc : B → Nat → R (B × Nat)) : Prop :=
  ∀ el c r cdt cn cmd ls, (N → narrowDT cdt = true) → WFH el → NoDictKey el → Shape el cdt cn cmd → pc el c = .ok r →
    Refines (decH r.1) (decH el ++ ls.map some) → ViewSmall r.1 → interpAll ext cdt cn cmd xs = .ok ls

theorem seqLike_interpH {ext : Ext} {N : Prop} {xs : SVals} {pe : Bool → B → List Int → R (B × List Int)}
    {pc : B → Nat → R (B × Nat)} {pt : SS → R SS}
    (hpe1 : ElemsOKH pe) (hpc1 : CountOKH pc) (hpt1 : FieldsOKH pt) (hptskel : ∀ s1 s2, pt s1 = .ok s2 → SSkel s2 s1)
    (hpe : ElemsSpecH ext N xs pe) (hpc : CountSpecH ext N xs pc) (hpt : TupleSpecH ext N xs pt)
    (b : B) (k : SeqKind) (b' : B) (dt : DataType) (n : Bool) (md : Metadata) (lv : LVal)
    (hnar : N → narrowDT dt = true) (hwf : WFH b) (hsafe : NoDictKey b) (hshape : Shape b dt n md)
    (h : seqLikeWith pe pc pt (u8All xs) b k = .ok b') (hd : Refines (decH b') (decH b ++ [some lv])) (hsm : ViewSmall b') :
    seqSpec ext (k != .seq) dt md xs = .ok lv := sorry

/-- the explicit row of a union push -/
theorem union_row_rowsH {p fs types offs cur} {i : Nat} {pc : B → R B} {b' : B}
    (hwf : WFH (.union p fs types offs cur)) (hsafe : NoDictKey (.union p fs types offs cur)) (hpc : StepOKH pc)
    (h : (do
      let (c, types', offs', cur') ← serializeVariant fs types offs cur i
      let c' ← pc c
      pure (.union p (fs.set i c') types' offs' cur') : R B) = .ok b') :
    ∃ c m c' lvc, fs.get? i = some (c, m) ∧ WFH c ∧ NoDictKey c ∧ pc c = .ok c' ∧ Refines (decH c') (decH c ++ [some lvc]) ∧
      Refines (decH b') (decH (.union p fs types offs cur) ++ [some (.union (i : Int) lvc)]) ∧ (ViewSmall b' → ViewSmall c') := sorry

theorem map_row_rowsH {p mm v offs ks vs} {pm : List Int → B → B → R (List Int × B × B)} {b' : B}
    (hwf : WFH (.map p mm v offs ks vs)) (hsafe : NoDictKey (.map p mm v offs ks vs)) (hpm : MapOKH pm)
    (h : (do
      let v' ← setValidity v (offs.length - 1) true
      let offs' ← duplicateLast offs
      let (offs'', ks', vs') ← pm offs' ks vs
      pure (.map p mm v' offs'' ks' vs') : R B) = .ok b') :
    ∃ (offs' : List Int) (r : List Int × B × B) (lk lw : List LVal), pm offs' ks vs = .ok r ∧ Refines (decH r.2.1) (decH ks ++ lk.map some) ∧
      Refines (decH r.2.2) (decH vs ++ lw.map some) ∧
      Refines (decH b') (decH (.map p mm v offs ks vs) ++ [some (.map (LEntries.ofList (lk.zip lw)))]) ∧
      (ViewSmall b' → ViewSmall r.2.1 ∧ ViewSmall r.2.2) := sorry

end SaModel.Build
