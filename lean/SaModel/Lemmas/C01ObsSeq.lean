import SaModel.Lemmas.C01ObsRows
import SaModel.Lemmas.C01Seq
/-
C01 "hidden rows" — R2' for the non-recursive combinators (observable-rows counterpart of Lemmas/C01Seq.lean): sequences /
tuples into list, fixed-size list, binary, fixed-size binary and struct builders (`seqLike_interpH`), union rows, map
rows.  The recursive parts are hypotheses.  `seqSpec`, `interpDT_seq/tuple/tupleStruct`, `getD_replicate_nil`,
`ShapeU.get` are those of Lemmas/C01Seq.lean.
-/
namespace SaModel.Build
open SaModel SaModel.Spec
open SaModel.Lemmas.C03 (ViewSmall ViewSmallL)

/-- positional field loop: what the induction hypothesis for `pushTupleElems` provides -/
def TupleSpecH (ext : Ext) (N : Prop) (xs : SVals) (pt : SS → R SS) : Prop :=
  ∀ fs0 s s' adds adds' sfs, (N → narrowFs sfs = true) → MidH fs0 s adds → MidH fs0 s' adds' → ShapeL s.fields sfs → s.next = 0 → pt s = .ok s' →
    ViewSmallL s'.fields → ∀ j f, sfs.toList[j]? = some f →
      ∃ found, interpNth ext f.dataType f.nullable f.metadata j xs = .ok found ∧ adds'.getD j [] = adds.getD j [] ++ found

def ElemsSpecH (ext : Ext) (N : Prop) (xs : SVals) (pe : Bool → B → List Int → R (B × List Int)) : Prop :=
  ∀ large el offs r cdt cn cmd ls, (N → narrowDT cdt = true) → WFH el → NoDictKey el → Shape el cdt cn cmd → pe large el offs = .ok r →
    Refines (decH r.1) (decH el ++ ls.map some) → ViewSmall r.1 → interpAll ext cdt cn cmd xs = .ok ls

def CountSpecH (ext : Ext) (N : Prop) (xs : SVals) (pc : B → Nat → R (B × Nat)) : Prop :=
  ∀ el c r cdt cn cmd ls, (N → narrowDT cdt = true) → WFH el → NoDictKey el → Shape el cdt cn cmd → pc el c = .ok r →
    Refines (decH r.1) (decH el ++ ls.map some) → ViewSmall r.1 → interpAll ext cdt cn cmd xs = .ok ls

/-- the childless arms of `seqLikeWith` (bytes, bytes view, fixed-size binary) do not call the element loops and every
row of a flat builder is determined: they go through the old theorem `seqLike_interp` -/
theorem seqLike_interpH_flat {ext : Ext} {N : Prop} {xs : SVals} {pe : Bool → B → List Int → R (B × List Int)}
    {pc : B → Nat → R (B × Nat)} {pt : SS → R SS}
    (b : B) (k : SeqKind) (b' : B) (dt : DataType) (n : Bool) (md : Metadata) (lv : LVal) (hf : b.isFlat = true)
    (hnar : N → narrowDT dt = true) (hwf : WFH b) (hshape : Shape b dt n md)
    (h : seqLikeWith pe pc pt (u8All xs) b k = .ok b') (hd : Refines (decH b') (decH b ++ [some lv])) (hsm : ViewSmall b') :
    seqSpec ext (k != .seq) dt md xs = .ok lv := by
  have h' : seqLikeWith (fun _ _ _ => (fail "" : R (B × List Int))) (fun _ _ => (fail "" : R (B × Nat)))
      (fun _ => (fail "" : R SS)) (u8All xs) b k = .ok b' := by
    cases b <;> first | (cases hf; done) | exact h
  have hpe1 : ElemsOK (fun _ _ _ => (fail "" : R (B × List Int))) := by
    intro _ _ _ _ _ _ _ h; simp [fail] at h
  have hpc1 : CountOK (fun _ _ => (fail "" : R (B × Nat))) := by
    intro _ _ _ _ _ h; simp [fail] at h
  have hpt1 : FieldsOK (fun _ => (fail "" : R SS)) := by
    intro _ _ _ _ _ h; simp [fail] at h
  have hskel : ∀ s1 s2, (fun _ => (fail "" : R SS)) s1 = .ok s2 → SSkel s2 s1 := by
    intro _ _ h; simp [fail] at h
  have hpe : ElemsSpec ext N xs (fun _ _ _ => (fail "" : R (B × List Int))) := by
    intro _ _ _ _ _ _ _ _ _ _ _ _ h; simp [fail] at h
  have hpc : CountSpec ext N xs (fun _ _ => (fail "" : R (B × Nat))) := by
    intro _ _ _ _ _ _ _ _ _ _ _ h; simp [fail] at h
  have hpt : TupleSpec ext N xs (fun _ => (fail "" : R SS)) := by
    intro _ _ _ _ _ _ _ _ _ _ _ h; simp [fail] at h
  have htr := seqLikeWith_takeRest (pe := fun _ _ _ => (fail "" : R (B × List Int)))
    (pc := fun _ _ => (fail "" : R (B × Nat))) (pt := fun _ => (fail "" : R SS)) (bytes := u8All xs)
    (by intro _ _ _ _ h; simp [fail] at h) (by intro _ _ _ h; simp [fail] at h) (by intro _ _ h; simp [fail] at h)
    b k b' h'
  have hf' := flat_of_takeRest htr hf
  have hd' : dec b' = dec b ++ [lv] := by
    rw [flat_decH hf', flat_decH hf] at hd
    have e : (dec b).map some ++ [some lv] = (dec b ++ [lv]).map some := by simp
    rw [e] at hd
    have := Refines.of_map_some hd
    exact (List.map_inj_right (fun _ _ hxy => Option.some.inj hxy)).1 this
  exact seqLike_interp hpe1 hpc1 hpt1 hskel hpe hpc hpt b k b' dt n md lv hnar (flat_WFB hf hwf) (flat_Safe hf) hshape
    h' hd' hsm

theorem seqLike_interpH {ext : Ext} {N : Prop} {xs : SVals} {pe : Bool → B → List Int → R (B × List Int)}
    {pc : B → Nat → R (B × Nat)} {pt : SS → R SS}
    (hpe1 : ElemsOKH pe) (hpc1 : CountOKH pc) (hpt1 : FieldsOKH pt) (hptskel : ∀ s1 s2, pt s1 = .ok s2 → SSkel s2 s1)
    (hpe : ElemsSpecH ext N xs pe) (hpc : CountSpecH ext N xs pc) (hpt : TupleSpecH ext N xs pt)
    (b : B) (k : SeqKind) (b' : B) (dt : DataType) (n : Bool) (md : Metadata) (lv : LVal)
    (hnar : N → narrowDT dt = true) (hwf : WFH b) (hsafe : NoDictKey b) (hshape : Shape b dt n md)
    (h : seqLikeWith pe pc pt (u8All xs) b k = .ok b') (hd : Refines (decH b') (decH b ++ [some lv])) (hsm : ViewSmall b') :
    seqSpec ext (k != .seq) dt md xs = .ok lv := by
  cases b with
  | list p large fm v offs el =>
    simp only [seqLikeWith] at h
    obtain ⟨v', h1, h⟩ := (bind_ok _ _ _).1 h
    obtain ⟨o1, h2, h⟩ := (bind_ok _ _ _).1 h
    obtain ⟨⟨el', o2⟩, h3, h⟩ := (bind_ok _ _ _).1 h
    cases h
    have hw' := hwf
    simp only [WFH] at hw'
    simp only [NoDictKey] at hsafe
    obtain ⟨rfl, _⟩ := setValidity_ok hw'.2.1 h1
    obtain ⟨l, hl, rfl⟩ := duplicateLast_ok h2
    rw [hw'.1.2.1] at hl; cases hl
    obtain ⟨hel, ls, hdec, ho⟩ := hpe1 _ _ _ _ _ hw'.2.2 hsafe h3
    simp only at hel hdec ho
    subst ho
    have := list_stepH hwf true ls hel hdec
    rw [rowOf_true] at this
    have hlv := row_uniqueH hd this.2
    subst hlv
    simp only [Shape] at hshape
    obtain ⟨_, cname, cdt, cn, cmd, rfl, hsel⟩ := hshape
    have hi := hpe _ _ _ _ _ _ _ _ (fun hn => by have hnar := hnar hn; cases large <;> simpa [narrowDT, narrowF] using hnar) hw'.2.2 hsafe hsel h3 hdec
      (by simpa only [ViewSmall] using hsm)
    cases large <;> simp [seqSpec, isUnknownVariant, hi] <;> rfl
  | fixedSizeList p fm kk len v cur el =>
    simp only [seqLikeWith] at h
    obtain ⟨v', h1, h⟩ := (bind_ok _ _ _).1 h
    obtain ⟨⟨el', cnt⟩, h3, h⟩ := (bind_ok _ _ _).1 h
    simp only at h
    split at h
    · simp [fail] at h
    · rename_i hcnt
      cases h
      have hw' := hwf
      simp only [WFH] at hw'
      simp only [NoDictKey] at hsafe
      obtain ⟨rfl, _⟩ := setValidity_ok hw'.1 h1
      obtain ⟨hel, ls, hdec, hc⟩ := hpc1 _ _ _ hw'.2.2 hsafe h3
      simp only at hel hdec hc
      have hn : ls.length = kk := by simp at hcnt; omega
      have := fsl_stepH hwf true ls cnt hel hdec hn
      rw [rowOf_true] at this
      have hlv := row_uniqueH hd this.2
      subst hlv
      simp only [Shape] at hshape
      obtain ⟨_, cname, cdt, cn, cmd, rfl, hsel⟩ := hshape
      have hi := hpc _ _ _ _ _ _ _ (fun hn => by simpa [narrowDT, narrowF] using hnar hn) hw'.2.2 hsafe hsel h3 hdec
        (by simpa only [ViewSmall] using hsm)
      simp [seqSpec, isUnknownVariant, hi, hn, bind, Except.bind, pure, Except.pure]
  | bytes p ty v offs data => exact seqLike_interpH_flat _ k b' dt n md lv rfl hnar hwf hshape h hd hsm
  | bytesView p ty v views buf => exact seqLike_interpH_flat _ k b' dt n md lv rfl hnar hwf hshape h hd hsm
  | fixedSizeBinary p kk len v buf cur => exact seqLike_interpH_flat _ k b' dt n md lv rfl hnar hwf hshape h hd hsm
  | struct p len v fs cached next seen =>
    have hw' := hwf
    simp only [WFH] at hw'
    simp only [Shape] at hshape
    obtain ⟨_, sfs, rfl, hsl⟩ := hshape
    have hrec : ∀ (hh : (do
        let s ← SS.start ⟨p, len, v, fs, cached, next, seen⟩
        let s ← pt s
        let s ← s.finishRow
        pure s.toB : R B) = .ok b'), seqSpec ext true (.struct sfs) md xs = .ok lv := by
      intro hh
      simp only [seqSpec, isUnknownVariant, Bool.false_eq_true, if_false, if_true]
      refine struct_interpH _ hwf hsafe hsl hpt1 hptskel ?_ hh hd hsm
      intro s1 s2 adds2 hn0 hf1 hm1 hm2 hp hsm2 j f hj
      obtain ⟨found, hf, ha⟩ := hpt fs s1 s2 _ adds2 sfs (fun hn => by have hnar := hnar hn; simp only [narrowDT, Bool.and_eq_true] at hnar; exact hnar.2)
        hm1 hm2 (by rw [hf1]; exact hsl) hn0 hp hsm2 j f hj
      rw [getD_replicate_nil, List.nil_append] at ha
      refine ⟨found, ?_, ha⟩
      have hnames : (sfs.toList.map Field.name)[j]? = some f.name := by simp [hj]
      have hnd : (sfs.toList.map Field.name).Nodup := by rw [← ShapeL.names fs sfs hsl]; exact hw'.2.2.2.1
      rw [SaModel.Props.C11Front.indexOfName_of_get _ hnd f.name j hnames]
      exact hf
    cases k with
    | seq => simp [seqLikeWith, notSupported, fail] at h
    | tuple => simp only [seqLikeWith] at h; exact hrec h
    | tupleStruct => simp only [seqLikeWith] at h; exact hrec h
  | unknownVariant p => simp [seqLikeWith, fail] at h
  | null p len => simp [seqLikeWith, notSupported, fail] at h
  | leaf p kind v vals => simp [seqLikeWith, notSupported, fail] at h
  | map p mm v offs ks vs => simp [seqLikeWith, notSupported, fail] at h
  | dictionary p idx vals index => simp [seqLikeWith, notSupported, fail] at h
  | union p fs types offs cur => simp [seqLikeWith, notSupported, fail] at h

/-- the explicit row of a union push -/
theorem union_row_rowsH {p fs types offs cur} {i : Nat} {pc : B → R B} {b' : B}
    (hwf : WFH (.union p fs types offs cur)) (hsafe : NoDictKey (.union p fs types offs cur)) (hpc : StepOKH pc)
    (h : (do
      let (c, types', offs', cur') ← serializeVariant fs types offs cur i
      let c' ← pc c
      pure (.union p (fs.set i c') types' offs' cur') : R B) = .ok b') :
    ∃ c m c' lvc, fs.get? i = some (c, m) ∧ WFH c ∧ NoDictKey c ∧ pc c = .ok c' ∧ Refines (decH c') (decH c ++ [some lvc]) ∧
      Refines (decH b') (decH (.union p fs types offs cur) ++ [some (.union (i : Int) lvc)]) ∧ (ViewSmall b' → ViewSmall c') := by
  obtain ⟨⟨c, t', o', cur'⟩, h1, h⟩ := (bind_ok _ _ _).1 h
  obtain ⟨c', h2, h⟩ := (bind_ok _ _ _).1 h
  cases h
  obtain ⟨m, co, hget, hco, _, ht, ho, hcur⟩ := serializeVariant_ok h1
  simp only at hget hco ht ho hcur
  subst ht ho hcur
  have hw' := hwf
  simp only [WFH] at hw'
  simp only [NoDictKey] at hsafe
  obtain ⟨hco', hc⟩ := WFHU_get fs cur i _ hw'.2.2.1 hget
  simp only at hco' hc
  rw [hco] at hco'; cases hco'
  have hsc := NoDictKeyL.get _ _ _ hsafe hget
  obtain ⟨hc', _, lv, hdec⟩ := hpc c c' hc hsc h2
  have := union_appendH hwf i c c' m hget [some lv] hc' hdec
  simp only [List.length_singleton, List.replicate_one, List.range_one, List.map_cons, List.map_nil,
    Int.natCast_zero, Int.add_zero, Int.natCast_one, Option.map_some] at this
  refine ⟨c, m, c', lv, hget, hc, hsc, h2, hdec, this.2, ?_⟩
  simp only [ViewSmall]
  exact ViewSmallL_set_get _ _ c c' m hget

theorem map_row_rowsH {p mm v offs ks vs} {pm : List Int → B → B → R (List Int × B × B)} {b' : B}
    (hwf : WFH (.map p mm v offs ks vs)) (hsafe : NoDictKey (.map p mm v offs ks vs)) (hpm : MapOKH pm)
    (h : (do
      let v' ← setValidity v (offs.length - 1) true
      let offs' ← duplicateLast offs
      let (offs'', ks', vs') ← pm offs' ks vs
      pure (.map p mm v' offs'' ks' vs') : R B) = .ok b') :
    ∃ (offs' : List Int) (r : List Int × B × B) (lk lw : List LVal), pm offs' ks vs = .ok r ∧ Refines (decH r.2.1) (decH ks ++ lk.map some) ∧
      Refines (decH r.2.2) (decH vs ++ lw.map some) ∧
      Refines (decH b') (decH (.map p mm v offs ks vs) ++ [some (.map (LEntries.ofList (lk.zip lw)))]) ∧
      (ViewSmall b' → ViewSmall r.2.1 ∧ ViewSmall r.2.2) := by
  obtain ⟨v', h1, h⟩ := (bind_ok _ _ _).1 h
  obtain ⟨o1, h2, h⟩ := (bind_ok _ _ _).1 h
  obtain ⟨⟨o2, ks', vs'⟩, h3, h⟩ := (bind_ok _ _ _).1 h
  cases h
  have hw' := hwf
  simp only [WFH] at hw'
  simp only [NoDictKey] at hsafe
  obtain ⟨rfl, _⟩ := setValidity_ok hw'.2.2.1 h1
  obtain ⟨l, hl, rfl⟩ := duplicateLast_ok h2
  rw [hw'.1.2.1] at hl; cases hl
  obtain ⟨hks, hvs, lk, lw, hlen, hdk, hdv, ho⟩ := hpm _ _ _ _ _ hw'.2.2.2.1 hw'.2.2.2.2 hsafe.1 hsafe.2 h3
  simp only at hks hvs hdk hdv ho
  subst ho
  have := map_stepH hwf true lk lw hks hvs hdk hdv hlen
  rw [rowOf_true] at this
  exact ⟨_, _, lk, lw, h3, hdk, hdv, this.2, by simp only [ViewSmall]; exact id⟩

end SaModel.Build
