import SaModel.Lemmas.C01Struct
import SaModel.Lemmas.C10TakePush
import SaModel.Lemmas.C01DefaultAt
/-
R1 for the operations that do not recurse over a serde value: `serialize_default` (k placeholders),
`serialize_none`, and the scalar calls (`pushScalar`), for every builder family.
-/
namespace SaModel.Build
open SaModel SaModel.Spec

/-! ### `Safe` / `DefSafe` are properties of what `take` leaves behind (the schema) -/

theorem isNullable_takeRest : ∀ (b : B), (takeRest b).isNullable = b.isNullable
  | .null _ _ => rfl
  | .unknownVariant _ => rfl
  | .leaf _ _ v _ => by cases v <;> rfl
  | .bytes _ _ v _ _ => by cases v <;> rfl
  | .bytesView _ _ v _ _ => by cases v <;> rfl
  | .fixedSizeBinary _ _ _ v _ _ => by cases v <;> rfl
  | .list _ _ _ v _ _ => by cases v <;> rfl
  | .fixedSizeList _ _ _ _ v _ _ => by cases v <;> rfl
  | .map _ _ v _ _ _ => by cases v <;> rfl
  | .struct _ _ v _ _ _ _ => by cases v <;> rfl
  | .dictionary _ idx _ _ => by simp only [takeRest, B.isNullable]; exact isNullable_takeRest idx
  | .union _ _ _ _ _ => rfl

theorem isPlaceholder_takeRest (b : B) : (takeRest b).isPlaceholder = b.isPlaceholder := by cases b <;> rfl

mutual
theorem DefSafe_takeRest : ∀ (b : B), DefSafe (takeRest b) ↔ DefSafe b
  | .null _ _ => by simp [takeRest, DefSafe]
  | .unknownVariant _ => by simp [takeRest, DefSafe]
  | .leaf _ _ _ _ => by simp [takeRest, DefSafe]
  | .bytes _ _ _ _ _ => by simp [takeRest, DefSafe]
  | .bytesView _ _ _ _ _ => by simp [takeRest, DefSafe]
  | .fixedSizeBinary _ _ _ _ _ _ => by simp [takeRest, DefSafe]
  | .list _ _ _ _ _ _ => by simp [takeRest, DefSafe]
  | .fixedSizeList _ _ _ _ _ _ el => by simp only [takeRest, DefSafe]; exact DefSafe_takeRest el
  | .map _ _ _ _ _ _ => by simp [takeRest, DefSafe]
  | .struct _ _ _ fs _ _ _ => by simp only [takeRest, DefSafe]; exact DefSafeL_takeRest fs
  | .dictionary _ idx _ _ => by
    simp only [takeRest, DefSafe, isNullable_takeRest]; rw [DefSafe_takeRest idx]
  | .union _ fs _ _ _ => by simp only [takeRest, DefSafe]; exact DefSafeFirst_takeRest fs
theorem DefSafeL_takeRest : ∀ (fs : BL), DefSafeL (takeRestAll fs) ↔ DefSafeL fs
  | .nil => by simp [takeRestAll, DefSafeL]
  | .cons b _ r => by simp only [takeRestAll, DefSafeL]; rw [DefSafe_takeRest b, DefSafeL_takeRest r]
theorem DefSafeFirst_takeRest : ∀ (fs : BL), DefSafeFirst (takeRestAll fs) ↔ DefSafeFirst fs
  | .nil => by simp [takeRestAll, DefSafeFirst]
  | .cons b _ r => by
    simp only [takeRestAll, DefSafeFirst, isPlaceholder_takeRest]
    rw [DefSafe_takeRest b, DefSafeFirst_takeRest r]
end

theorem isDict_takeRest (b : B) : (takeRest b).isDict = b.isDict := by cases b <;> rfl

mutual
theorem Safe_takeRest : ∀ (b : B), Safe (takeRest b) ↔ Safe b
  | .null _ _ => by simp [takeRest, Safe]
  | .unknownVariant _ => by simp [takeRest, Safe]
  | .leaf _ _ _ _ => by simp [takeRest, Safe]
  | .bytes _ _ _ _ _ => by simp [takeRest, Safe]
  | .bytesView _ _ _ _ _ => by simp [takeRest, Safe]
  | .fixedSizeBinary _ _ _ _ _ _ => by simp [takeRest, Safe]
  | .list _ _ _ _ _ el => by simp only [takeRest, Safe]; exact Safe_takeRest el
  | .fixedSizeList _ _ _ _ v _ el => by
    simp only [takeRest, Safe, Option.isSome_map]; rw [Safe_takeRest el, DefSafe_takeRest el]
  | .map _ _ _ _ ks vs => by simp only [takeRest, Safe]; rw [Safe_takeRest ks, Safe_takeRest vs]
  | .struct _ _ v fs _ _ _ => by
    simp only [takeRest, Safe, Option.isSome_map]; rw [SafeL_takeRest fs, DefSafeL_takeRest fs]
  | .dictionary _ idx vals _ => by
    simp only [takeRest, Safe]; rw [Safe_takeRest idx, Safe_takeRest vals, isDict_takeRest idx]
  | .union _ fs _ _ _ => by simp only [takeRest, Safe]; exact SafeL_takeRest fs
theorem SafeL_takeRest : ∀ (fs : BL), SafeL (takeRestAll fs) ↔ SafeL fs
  | .nil => by simp [takeRestAll, SafeL]
  | .cons b _ r => by simp only [takeRestAll, SafeL]; rw [Safe_takeRest b, SafeL_takeRest r]
end

theorem Safe.of_takeRest {b b' : B} (h : takeRest b' = takeRest b) (hs : Safe b) : Safe b' :=
  (Safe_takeRest b').1 (h ▸ (Safe_takeRest b).2 hs)

theorem DefSafe.of_takeRest {b b' : B} (h : takeRest b' = takeRest b) (hs : DefSafe b) : DefSafe b' :=
  (DefSafe_takeRest b').1 (h ▸ (DefSafe_takeRest b).2 hs)

theorem isNullable_of_takeRest {b b' : B} (h : takeRest b' = takeRest b) : b'.isNullable = b.isNullable := by
  rw [← isNullable_takeRest b', h, isNullable_takeRest]

/-! ### `serialize_default` × k -/

theorem iter_lenv : ∀ (k len : Nat) (v : Validity), VLen v len →
    iter k (fun (s : Nat × Validity) => (.ok (s.1 + 1, setValidityDefault s.2 s.1) : R (Nat × Validity))) (len, v) =
      .ok (len + k, v.map (· ++ List.replicate k false))
  | 0, len, v, _ => by cases v <;> simp [iter]
  | k + 1, len, v, hv => by
    simp only [iter, bind, Except.bind]
    rw [setValidityDefault_eq hv, iter_lenv k (len + 1) _ (hv.snoc false)]
    have e : len + 1 + k = len + (k + 1) := by omega
    rw [e]
    cases v <;> simp [List.replicate_succ]

/-- a builder whose `serialize_default` is a step on its own state only -/
theorem iter_rows {α} (mk : α → B) (f : α → R α) (nl : Bool)
    (hstep : ∀ a a', WFB (mk a) → (mk a).isNullable = nl → f a = .ok a' →
      WFB (mk a') ∧ (mk a').isNullable = nl ∧ ∃ l, dec (mk a') = dec (mk a) ++ [l] ∧ (nl = true → l = .null))
    (k : Nat) (a a' : α) (hwf : WFB (mk a)) (hn : (mk a).isNullable = nl) (h : iter k f a = .ok a') :
    WFB (mk a') ∧ ∃ ls, ls.length = k ∧ dec (mk a') = dec (mk a) ++ ls ∧ (nl = true → ls = List.replicate k .null) := by
  have := iter_inv (fun i x => WFB (mk x) ∧ (mk x).isNullable = nl ∧
      ∃ ls, ls.length = i ∧ dec (mk x) = dec (mk a) ++ ls ∧ (nl = true → ls = List.replicate i .null)) f (by
    intro i x x' ⟨hw, hnl, ls, hl, hd, hnull⟩ hf
    obtain ⟨hw', hnl', l, hd', hl'⟩ := hstep x x' hw hnl hf
    refine ⟨hw', hnl', ls ++ [l], by simp [hl], by rw [hd', hd, List.append_assoc], ?_⟩
    intro hn
    rw [hnull hn, hl' hn, List.replicate_succ']) k 0 a a' ⟨hwf, hn, [], rfl, by simp, by intro; rfl⟩ h
  simp only [Nat.zero_add] at this
  exact ⟨this.1, this.2.2⟩

mutual
theorem pushDefaultK_appends : ∀ (b : B) (k : Nat) (b' : B), WFB b → DefSafe b → pushDefaultK b k = .ok b' →
    WFB b' ∧ ∃ ls, ls.length = k ∧ dec b' = dec b ++ ls ∧ (b.isNullable = true → ls = List.replicate k .null)
  | .null p len, k, b', _, _, h => by
    simp [pushDefaultK] at h; subst h
    exact ⟨by simp [WFB], List.replicate k .null, by simp, null_step p len k, fun _ => rfl⟩
  | .unknownVariant p, k, b', hwf, _, h => by
    simp only [pushDefaultK] at h
    split at h
    · rename_i hk; cases h; subst hk; exact ⟨hwf, [], rfl, by simp, by intro h; cases h⟩
    · simp [ctx_ok, fail] at h
  | .leaf p kind v vals, k, b', hwf, _, h => by
    simp only [pushDefaultK] at h
    obtain ⟨⟨v', vals'⟩, h1, h2⟩ := (bind_ok _ _ _).1 h
    cases h2
    refine iter_rows (fun (s : Validity × List Int) => B.leaf p kind s.1 s.2) _ v.isSome ?_ k (v, vals) (v', vals') hwf rfl h1
    intro a a' hw hn ha
    cases ha
    have hv : VLen a.1 a.2.length := by simpa [WFB] using hw
    rw [setValidityDefault_eq hv]
    obtain ⟨h1, h2⟩ := leaf_step hw false 0
    refine ⟨h1, by simpa [B.isNullable] using hn, _, h2, ?_⟩
    intro hs; exact rowOf_false_of_isSome (hn.trans hs) _
  | .bytes p ty v offs data, k, b', hwf, _, h => by
    simp only [pushDefaultK, ctx_ok] at h
    obtain ⟨⟨v', offs'⟩, h1, h2⟩ := (bind_ok _ _ _).1 h
    cases h2
    refine iter_rows (fun (s : Validity × List Int) => B.bytes p ty s.1 s.2 data) _ v.isSome ?_ k (v, offs) (v', offs') hwf rfl h1
    intro a a' hw hn ha
    obtain ⟨o, ho, ha⟩ := (bind_ok _ _ _).1 ha
    cases ha
    obtain ⟨l, hl, rfl⟩ := duplicateLast_ok ho
    have hl' := bytes_last hw
    rw [hl'] at hl; cases hl
    have hv : VLen a.1 (a.2.length - 1) := by simp only [WFB] at hw; exact hw.2
    rw [setValidityDefault_eq hv]
    obtain ⟨h1, h2⟩ := bytes_step hw false []
    simp only [List.length_nil, Int.natCast_zero, Int.add_zero, List.append_nil] at h1 h2
    refine ⟨h1, by simpa [B.isNullable] using hn, _, h2, ?_⟩
    intro hs; exact rowOf_false_of_isSome (hn.trans hs) _
  | .bytesView p ty v views buf, k, b', hwf, _, h => by
    simp only [pushDefaultK] at h
    obtain ⟨⟨v', views'⟩, h1, h2⟩ := (bind_ok _ _ _).1 h
    cases h2
    refine iter_rows (fun (s : Validity × List Nat) => B.bytesView p ty s.1 s.2 buf) _ v.isSome ?_ k (v, views) (v', views') hwf rfl h1
    intro a a' hw hn ha
    cases ha
    have hv : VLen a.1 a.2.length := by simp only [WFB] at hw; exact hw.1
    rw [setValidityDefault_eq hv]
    obtain ⟨h1, h2⟩ := view_step hw false (packInline []) [] (decodeView_inline_isOk _ _ (by simp))
      (by simpa using view_buf_lt hw)
    simp only [List.append_nil] at h1 h2
    refine ⟨h1, by simpa [B.isNullable] using hn, _, h2, ?_⟩
    intro hs; exact rowOf_false_of_isSome (hn.trans hs) _
  | .fixedSizeBinary p n len v buf cur, k, b', hwf, _, h => by
    simp only [pushDefaultK] at h
    obtain ⟨⟨len', v', buf'⟩, h1, h2⟩ := (bind_ok _ _ _).1 h
    cases h2
    refine iter_rows (fun (s : Nat × Validity × Bytes) => B.fixedSizeBinary p n s.1 s.2.1 s.2.2 cur) _ v.isSome ?_ k
      (len, v, buf) (len', v', buf') hwf rfl h1
    intro a a' hw hn ha
    cases ha
    have hv : VLen a.2.1 a.1 := by simp only [WFB] at hw; exact hw.1
    rw [setValidityDefault_eq hv]
    obtain ⟨h1, h2⟩ := fsb_step hw false (List.replicate n 0) (by simp) cur
    refine ⟨h1, by simpa [B.isNullable] using hn, _, h2, ?_⟩
    intro hs; exact rowOf_false_of_isSome (hn.trans hs) _
  | .list p large fm v offs el, k, b', hwf, _, h => by
    simp only [pushDefaultK, ctx_ok] at h
    obtain ⟨⟨v', offs'⟩, h1, h2⟩ := (bind_ok _ _ _).1 h
    cases h2
    refine iter_rows (fun (s : Validity × List Int) => B.list p large fm s.1 s.2 el) _ v.isSome ?_ k (v, offs) (v', offs') hwf rfl h1
    intro a a' hw hn ha
    obtain ⟨o, ho, ha⟩ := (bind_ok _ _ _).1 ha
    cases ha
    obtain ⟨l, hl, rfl⟩ := duplicateLast_ok ho
    have hw' := hw
    simp only [WFB] at hw'
    rw [hw'.1.2.1] at hl; cases hl
    rw [setValidityDefault_eq hw'.2.1]
    obtain ⟨h1, h2⟩ := list_step hw false [] hw'.2.2 (by simp)
    simp only [List.length_nil, Int.natCast_zero, Int.add_zero] at h1 h2
    refine ⟨h1, by simpa [B.isNullable] using hn, _, h2, ?_⟩
    intro hs; exact rowOf_false_of_isSome (hn.trans hs) _
  | .fixedSizeList p fm n len v cur el, k, b', hwf, hsafe, h => by
    simp only [pushDefaultK, ctx_ok] at h
    obtain ⟨⟨len', v'⟩, h1, h2⟩ := (bind_ok _ _ _).1 h
    obtain ⟨el', h3, h4⟩ := (bind_ok _ _ _).1 h2
    cases h4
    have hw' := hwf
    simp only [WFB] at hw'
    rw [iter_lenv k len v hw'.1] at h1
    cases h1
    simp only [DefSafe] at hsafe
    obtain ⟨hel, ls, hls, hdec, _⟩ := pushDefaultK_appends el (k * n) el' hw'.2.2 hsafe h3
    obtain ⟨g1, g2⟩ := fsl_append hwf (List.replicate k false) ls cur hel hdec (by simpa using hls)
    simp only [List.length_replicate] at g1 g2
    refine ⟨g1, _, ?_, g2, ?_⟩
    · rw [maskNull_const_length _ _ _ (by simp)]; simp
    · intro hn
      rw [maskNull_const_false _ _ _ (by simp)]
      simp only [B.isNullable] at hn
      simp [hn]
  | .map p mm v offs ks vs, k, b', hwf, _, h => by
    simp only [pushDefaultK, ctx_ok] at h
    obtain ⟨⟨v', offs'⟩, h1, h2⟩ := (bind_ok _ _ _).1 h
    cases h2
    refine iter_rows (fun (s : Validity × List Int) => B.map p mm s.1 s.2 ks vs) _ v.isSome ?_ k (v, offs) (v', offs') hwf rfl h1
    intro a a' hw hn ha
    obtain ⟨o, ho, ha⟩ := (bind_ok _ _ _).1 ha
    cases ha
    obtain ⟨l, hl, rfl⟩ := duplicateLast_ok ho
    have hw' := hw
    simp only [WFB] at hw'
    rw [hw'.1.2.1] at hl; cases hl
    rw [setValidityDefault_eq hw'.2.2.1]
    obtain ⟨h1, h2⟩ := map_step hw false [] [] hw'.2.2.2.1 hw'.2.2.2.2 (by simp) (by simp) rfl
    simp only [List.length_nil, Int.natCast_zero, Int.add_zero] at h1 h2
    refine ⟨h1, by simpa [B.isNullable] using hn, _, h2, ?_⟩
    intro hs; exact rowOf_false_of_isSome (hn.trans hs) _
  | .struct p len v fs cached next seen, k, b', hwf, hsafe, h => by
    simp only [pushDefaultK, ctx_ok] at h
    obtain ⟨⟨len', v'⟩, h1, h2⟩ := (bind_ok _ _ _).1 h
    obtain ⟨fs', h3, h4⟩ := (bind_ok _ _ _).1 h2
    cases h4
    have hw' := hwf
    simp only [WFB] at hw'
    rw [iter_lenv k len v hw'.1] at h1
    cases h1
    simp only [DefSafe] at hsafe
    obtain ⟨adds, hext, hk⟩ := pushDefaultKAll_appends fs k fs' len hw'.2.1 hsafe h3
    obtain ⟨g1, g2⟩ := struct_append (cached' := cached) (next' := next) (seen' := seen) hwf adds
      (List.replicate k false) hext (by simpa using hk)
      (by rw [ExtL.names fs fs' adds hext]; exact hw'.2.2.2.2)
      (by rw [(ExtL.length fs fs' adds hext).1]; exact hw'.2.2.1)
    simp only [List.length_replicate] at g1 g2
    refine ⟨g1, _, ?_, g2, ?_⟩
    · rw [maskNull_const_length _ _ _ (by simp)]; simp
    · intro hn
      rw [maskNull_const_false _ _ _ (by simp)]
      simp only [B.isNullable] at hn
      simp [hn]
  | .dictionary p idx vals index, k, b', hwf, hsafe, h => by
    simp only [pushDefaultK, ctx_ok] at h
    obtain ⟨idx', h1, h2⟩ := (bind_ok _ _ _).1 h
    cases h2
    have hw' := hwf
    simp only [WFB] at hw'
    simp only [DefSafe] at hsafe
    obtain ⟨hidx, ls, hls, hdec, hnull⟩ := pushDefaultK_appends idx k idx' hw'.1 hsafe.2 h1
    have hls' := hnull hsafe.1
    subst hls'
    obtain ⟨g1, g2⟩ := dict_append hwf (List.replicate k .null) [] [] hidx hw'.2.1 hdec (by simp)
      (by simpa using hw'.2.2.1) rfl (by
        intro k' hk' j hj
        rw [(List.mem_replicate.1 hk').2] at hj; cases hj) (by rw [List.append_nil]; exact DictVals.of_wf hwf)
    simp only [List.append_nil] at g1 g2
    refine ⟨g1, _, by simp, g2, ?_⟩
    intro _
    simp [dictRow]
  | .union p .nil types offs cur, k, b', hwf, _, h => by
    simp only [pushDefaultK, ctx_ok] at h
    split at h
    · rename_i hk; cases h; subst hk; exact ⟨hwf, [], rfl, by simp, by intro h; cases h⟩
    · simp [fail] at h
  | .union p (.cons c m rest) types offs cur, k, b', hwf, hsafe, h => by
    simp only [pushDefaultK, ctx_ok] at h
    split at h
    · simp [fail] at h
    split at h
    · simp [fail] at h
    · obtain ⟨fs', h1, h2⟩ := (bind_ok _ _ _).1 h
      split at h2
      · simp [fail] at h2
      cases h2
      obtain ⟨cj, mj, hg⟩ := firstReal_get c m rest
      rw [pushDefaultKAt_eq _ _ k cj mj hg] at h1
      obtain ⟨c', h3, h4⟩ := (bind_ok _ _ _).1 h1
      cases h4
      have hw' := hwf
      simp only [WFB] at hw'
      simp only [DefSafe] at hsafe
      obtain ⟨hcur, hwc⟩ := WFU_get _ cur _ (cj, mj) hw'.2.2.1 hg
      obtain ⟨hc, ls, hls, hdec, _⟩ := pushDefaultK_appends_at _ _ cj mj hg k c' hwc
        (DefSafeFirst_get _ cj mj hsafe hg) h3
      obtain ⟨g1, g2⟩ := union_append hwf _ cj c' mj hg ls hc hdec
      have hc0 : cur.getD (firstReal (.cons c m rest)) 0 = ((dec cj).length : Int) := by
        simp only [List.getD_eq_getElem?_getD, hcur, Option.getD_some]
      subst hls
      rw [hc0]
      exact ⟨g1, ls.map (LVal.union _), by simp, g2, by intro h; cases h⟩
theorem pushDefaultKAll_appends : ∀ (fs : BL) (k : Nat) (fs' : BL) (len : Nat), WFL fs len → DefSafeL fs →
    pushDefaultKAll fs k = .ok fs' → ∃ adds, ExtL fs fs' adds ∧ ∀ a ∈ adds, a.length = k
  | .nil, k, fs', len, _, _, h => by
    simp [pushDefaultKAll] at h; subst h
    exact ⟨[], by simp [ExtL], by simp⟩
  | .cons b m rest, k, fs', len, hw, hs, h => by
    simp only [pushDefaultKAll] at h
    obtain ⟨b', h1, h2⟩ := (bind_ok _ _ _).1 h
    obtain ⟨r', h3, h4⟩ := (bind_ok _ _ _).1 h2
    cases h4
    simp only [WFL] at hw
    simp only [DefSafeL] at hs
    obtain ⟨hb, ls, hls, hdec, _⟩ := pushDefaultK_appends b k b' hw.1 hs.1 h1
    obtain ⟨adds, hext, hk⟩ := pushDefaultKAll_appends rest k r' len hw.2.2 hs.2 h3
    refine ⟨ls :: adds, by simp only [ExtL]; exact ⟨trivial, hb, hdec, hext⟩, ?_⟩
    intro a ha
    rcases List.mem_cons.1 ha with rfl | ha
    · exact hls
    · exact hk a ha
theorem pushDefaultK_appends_at : ∀ (fs : BL) (j : Nat) (c : B) (m : FieldMeta), fs.get? j = some (c, m) →
    ∀ (k : Nat) (c' : B), WFB c → DefSafe c → pushDefaultK c k = .ok c' →
    WFB c' ∧ ∃ ls, ls.length = k ∧ dec c' = dec c ++ ls ∧ (c.isNullable = true → ls = List.replicate k .null)
  | .nil, _, _, _, h => by simp [BL.get?] at h
  | .cons b _ _, 0, c, m, h => by
    simp only [BL.get?, Option.some.injEq, Prod.mk.injEq] at h
    rw [← h.1]
    exact fun k c' => pushDefaultK_appends b k c'
  | .cons _ _ rest, j + 1, c, m, h => pushDefaultK_appends_at rest j c m (by simpa [BL.get?] using h)
end

/-! ### `serialize_none` -/

theorem isSome_of_setValidity_false {v v' : Validity} {n : Nat} (hv : VLen v n) (h : setValidity v n false = .ok v') :
    v' = v.map (· ++ [false]) ∧ v.isSome = true := by
  obtain ⟨h1, h2⟩ := setValidity_ok hv h
  refine ⟨h1, ?_⟩
  cases v with
  | none => simp at h2
  | some _ => rfl

theorem pushNone_appends : ∀ (b b' : B), WFB b → Safe b → pushNone b = .ok b' → WFB b' ∧ dec b' = dec b ++ [.null]
  | .null p len, b', _, _, h => by
    simp [pushNone] at h; subst h
    exact ⟨by simp [WFB], null_step p len 1⟩
  | .unknownVariant p, b', _, _, h => by simp [pushNone, ctx_ok, fail] at h
  | .leaf p k v vals, b', hwf, _, h => by
    simp only [pushNone, ctx_ok] at h
    obtain ⟨v', h1, h2⟩ := (bind_ok _ _ _).1 h
    cases h2
    have hv : VLen v vals.length := by simpa [WFB] using hwf
    obtain ⟨rfl, hs⟩ := isSome_of_setValidity_false hv h1
    have := leaf_step hwf false 0
    rwa [rowOf_false_of_isSome hs] at this
  | .bytes p ty v offs data, b', hwf, _, h => by
    simp only [pushNone, ctx_ok] at h
    obtain ⟨v', h1, h2⟩ := (bind_ok _ _ _).1 h
    obtain ⟨o', h3, h4⟩ := (bind_ok _ _ _).1 h2
    cases h4
    have hv : VLen v (offs.length - 1) := by simp only [WFB] at hwf; exact hwf.2
    obtain ⟨rfl, hs⟩ := isSome_of_setValidity_false hv h1
    obtain ⟨l, hl, rfl⟩ := duplicateLast_ok h3
    rw [bytes_last hwf] at hl; cases hl
    have := bytes_step hwf false []
    simp only [List.length_nil, Int.natCast_zero, Int.add_zero, List.append_nil] at this
    rwa [rowOf_false_of_isSome hs] at this
  | .bytesView p ty v views buf, b', hwf, _, h => by
    simp only [pushNone, ctx_ok] at h
    obtain ⟨v', h1, h2⟩ := (bind_ok _ _ _).1 h
    cases h2
    have hv : VLen v views.length := by simp only [WFB] at hwf; exact hwf.1
    obtain ⟨rfl, hs⟩ := isSome_of_setValidity_false hv h1
    have := view_step hwf false (packInline []) [] (decodeView_inline_isOk _ _ (by simp))
      (by simpa using view_buf_lt hwf)
    simp only [List.append_nil] at this
    rwa [rowOf_false_of_isSome hs] at this
  | .fixedSizeBinary p n len v buf cur, b', hwf, _, h => by
    simp only [pushNone, ctx_ok] at h
    obtain ⟨v', h1, h2⟩ := (bind_ok _ _ _).1 h
    cases h2
    have hv : VLen v len := by simp only [WFB] at hwf; exact hwf.1
    obtain ⟨rfl, hs⟩ := isSome_of_setValidity_false hv h1
    have := fsb_step hwf false (List.replicate n 0) (by simp) cur
    rwa [rowOf_false_of_isSome hs] at this
  | .list p large fm v offs el, b', hwf, _, h => by
    simp only [pushNone, ctx_ok] at h
    obtain ⟨v', h1, h2⟩ := (bind_ok _ _ _).1 h
    obtain ⟨o', h3, h4⟩ := (bind_ok _ _ _).1 h2
    cases h4
    have hw' := hwf
    simp only [WFB] at hw'
    obtain ⟨rfl, hs⟩ := isSome_of_setValidity_false hw'.2.1 h1
    obtain ⟨l, hl, rfl⟩ := duplicateLast_ok h3
    rw [hw'.1.2.1] at hl; cases hl
    have := list_step hwf false [] hw'.2.2 (by simp)
    simp only [List.length_nil, Int.natCast_zero, Int.add_zero] at this
    rwa [rowOf_false_of_isSome hs] at this
  | .fixedSizeList p fm n len v cur el, b', hwf, hsafe, h => by
    simp only [pushNone, ctx_ok] at h
    obtain ⟨v', h1, h2⟩ := (bind_ok _ _ _).1 h
    obtain ⟨el', h3, h4⟩ := (bind_ok _ _ _).1 h2
    cases h4
    have hw' := hwf
    simp only [WFB] at hw'
    obtain ⟨rfl, hs⟩ := isSome_of_setValidity_false hw'.1 h1
    simp only [Safe] at hsafe
    obtain ⟨hel, ls, hls, hdec, _⟩ := pushDefaultK_appends el n el' hw'.2.2 (hsafe.2 hs) h3
    have := fsl_step hwf false ls cur hel hdec hls
    rwa [rowOf_false_of_isSome hs] at this
  | .map p mm v offs ks vs, b', hwf, _, h => by
    simp only [pushNone, ctx_ok] at h
    obtain ⟨v', h1, h2⟩ := (bind_ok _ _ _).1 h
    obtain ⟨o', h3, h4⟩ := (bind_ok _ _ _).1 h2
    cases h4
    have hw' := hwf
    simp only [WFB] at hw'
    obtain ⟨rfl, hs⟩ := isSome_of_setValidity_false hw'.2.2.1 h1
    obtain ⟨l, hl, rfl⟩ := duplicateLast_ok h3
    rw [hw'.1.2.1] at hl; cases hl
    have := map_step hwf false [] [] hw'.2.2.2.1 hw'.2.2.2.2 (by simp) (by simp) rfl
    simp only [List.length_nil, Int.natCast_zero, Int.add_zero] at this
    rwa [rowOf_false_of_isSome hs] at this
  | .struct p len v fs cached next seen, b', hwf, hsafe, h => by
    simp only [pushNone, ctx_ok] at h
    obtain ⟨v', h1, h2⟩ := (bind_ok _ _ _).1 h
    obtain ⟨fs', h3, h4⟩ := (bind_ok _ _ _).1 h2
    cases h4
    have hw' := hwf
    simp only [WFB] at hw'
    obtain ⟨rfl, hs⟩ := isSome_of_setValidity_false hw'.1 h1
    simp only [Safe] at hsafe
    obtain ⟨adds, hext, hk⟩ := pushDefaultKAll_appends fs 1 fs' len hw'.2.1 (hsafe.2 hs) h3
    have := struct_append (cached' := cached) (next' := next) (seen' := seen) hwf adds [false] hext (by simpa using hk)
      (by rw [ExtL.names fs fs' adds hext]; exact hw'.2.2.2.2)
      (by rw [(ExtL.length fs fs' adds hext).1]; exact hw'.2.2.1)
    simp only [List.length_singleton, List.range_one, List.map_cons, List.map_nil, maskNull_const_one] at this
    rwa [rowOf_false_of_isSome hs] at this
  | .dictionary p idx vals index, b', hwf, hsafe, h => by
    simp only [pushNone, ctx_ok] at h
    split at h
    · simp [fail] at h
    obtain ⟨idx', h1, h2⟩ := (bind_ok _ _ _).1 h
    cases h2
    have hw' := hwf
    simp only [WFB] at hw'
    simp only [Safe] at hsafe
    obtain ⟨hidx, hdec⟩ := pushNone_appends idx idx' hw'.1 hsafe.2.1 ((ctx_ok _ _ _).1 h1)
    have := dict_append hwf [.null] [] [] hidx hw'.2.1 hdec (by simp) (by simpa using hw'.2.2.1) rfl (by
      intro k' hk' j hj
      simp at hk'; subst hk'; cases hj) (by rw [List.append_nil]; exact DictVals.of_wf hwf)
    simpa [dictRow] using this
  | .union p fs types offs cur, b', _, _, h => by simp [pushNone, ctx_ok, fail] at h

/-! ### scalar calls -/

theorem tryInto_ok {t : IntTy} {v w : Int} (h : tryInto t v = .ok w) : w = v := by
  unfold tryInto at h
  split at h
  · cases h; rfl
  · simp [fail] at h

theorem convLeaf_int {ext : Ext} {k : LeafKind} {t : IntTy} {v val j : Int}
    (h : convLeaf ext k (.int t v) = .ok val) (hj : leafVal k val = .int j) : j = v := by
  have e1 : ∀ {a b : Int}, (Except.ok a : R Int) = .ok b → b = a := by intro a b h; cases h; rfl
  cases k <;> cases t <;> simp only [convLeaf, notSupported, fail, leafVal] at h hj <;>
    first
    | (cases h; done)
    | (cases hj; done)
    | (cases hj; exact tryInto_ok h)
    | (cases hj; exact e1 h)
    | (cases hj; split at h <;> first | exact e1 h | exact tryInto_ok h | cases h)

theorem isUtf8B_takeRest (b : B) : (takeRest b).isUtf8B = b.isUtf8B := by cases b <;> rfl

theorem refusesStr_takeRest (b : B) : (takeRest b).refusesStr = b.refusesStr := by cases b <;> rfl

/-- a value builder that refuses strings refuses every string -/
theorem pushScalar_refusesStr (ext : Ext) {vals vals' : B} {s : String} (hr : vals.refusesStr = true)
    (h : pushScalar ext vals (.str s) = .ok vals') : False := by
  cases vals with
  | leaf p k v xs =>
    cases k <;> simp [B.refusesStr] at hr <;>
      simp [pushScalar, convLeaf, notSupported, fail, bind, Except.bind] at h
  | bytes p ty v offs data =>
    simp only [B.refusesStr, Bool.not_eq_true'] at hr
    simp [pushScalar, hr, notSupported, fail, bind, Except.bind] at h
  | bytesView p ty v views buf =>
    simp only [B.refusesStr, Bool.not_eq_true'] at hr
    simp [pushScalar, hr, notSupported, fail, bind, Except.bind] at h
  | dictionary _ _ _ _ => simp [B.refusesStr] at hr
  | _ => simp [pushScalar, notSupported, fail] at h

theorem isIntLeaf_takeRest (b : B) : (takeRest b).isIntLeaf = b.isIntLeaf := by
  cases b with
  | leaf p k v vals => cases k <;> rfl
  | _ => rfl

/-- a string pushed into a Utf8 / LargeUtf8 builder appends exactly that string -/
theorem pushScalar_utf8_str (ext : Ext) {vals vals' : B} {s : String} (hw : WFB vals) (hu : vals.isUtf8B = true)
    (h : pushScalar ext vals (.str s) = .ok vals') : dec vals' = dec vals ++ [.str (strBytes s)] := by
  cases vals with
  | bytes p ty v offs data =>
    have hty : isUtf8Ty ty = true := hu
    simp only [pushScalar] at h
    obtain ⟨bs, hval, h2⟩ := (bind_ok _ _ _).1 h
    obtain ⟨v', h3, h4⟩ := (bind_ok _ _ _).1 h2
    obtain ⟨o1, h5, h6⟩ := (bind_ok _ _ _).1 h4
    obtain ⟨o2, h7, h8⟩ := (bind_ok _ _ _).1 h6
    cases h8
    have hv : VLen v (offs.length - 1) := by simp only [WFB] at hw; exact hw.2
    obtain ⟨rfl, _⟩ := setValidity_ok hv h3
    obtain ⟨l, hl, rfl⟩ := duplicateLast_ok h5
    rw [bytes_last hw] at hl; cases hl
    have := incrementLast_snoc h7
    subst this
    obtain ⟨_, g2⟩ := bytes_step hw true bs
    rw [rowOf_true] at g2
    simp only [hty, if_true, scalarToString] at hval
    cases hval
    rw [g2]
    simp [bytesVal, hty]
  | _ => simp [B.isUtf8B] at hu

/-- the dictionary invariant "values decoded = index entries" survives a new entry -/
theorem DictVals_push (ext : Ext) {vals vals' : B} {index : List String} {s : String} (hw : WFB vals)
    (hd : DictVals vals index) (h : pushScalar ext vals (.str s) = .ok vals') : DictVals vals' (index ++ [s]) := by
  refine ⟨fun hu => ?_, fun hr => ?_⟩
  · have hu0 : vals.isUtf8B = true := by
      rw [← isUtf8B_takeRest, ← pushScalar_takeRest ext vals _ vals' h, isUtf8B_takeRest]; exact hu
    rw [pushScalar_utf8_str ext hw hu0 h, hd.1 hu0]
    simp
  · have hr0 : vals.refusesStr = true := by
      rw [← refusesStr_takeRest, ← pushScalar_takeRest ext vals _ vals' h, refusesStr_takeRest]; exact hr
    exact (pushScalar_refusesStr ext hr0 h).elim

/-- the row a scalar call appends (and, for an integer call, that an integer row shows exactly that integer) -/
theorem pushScalar_appends (ext : Ext) : ∀ (b : B) (x : SVal) (b' : B), WFB b → Safe b → pushScalar ext b x = .ok b' →
    WFB b' ∧ ∃ lv, dec b' = dec b ++ [lv] ∧ (∀ t v j, b.isDict = false → x = .int t v → lv = .int j → j = v)
  | .null p len, x, b', _, _, h => by
    unfold pushScalar at h
    split at h
    · cases h
      exact ⟨by simp [WFB], .null, null_step p len 1, by intro t v j _ hx; cases hx⟩
    · simp [notSupported, fail] at h
  | .unknownVariant p, x, b', _, _, h => by simp [pushScalar, fail] at h
  | .leaf p k v vals, x, b', hwf, _, h => by
    simp only [pushScalar] at h
    obtain ⟨val, hc, h2⟩ := (bind_ok _ _ _).1 h
    obtain ⟨v', h3, h4⟩ := (bind_ok _ _ _).1 h2
    cases h4
    have hv : VLen v vals.length := by simpa [WFB] using hwf
    obtain ⟨rfl, _⟩ := setValidity_ok hv h3
    obtain ⟨g1, g2⟩ := leaf_step hwf true val
    rw [rowOf_true] at g2
    refine ⟨g1, _, g2, ?_⟩
    intro t w j _ hx hj
    subst hx
    exact convLeaf_int hc hj
  | .bytes p ty v offs data, x, b', hwf, _, h => by
    simp only [pushScalar] at h
    obtain ⟨bs, _, h2⟩ := (bind_ok _ _ _).1 h
    obtain ⟨v', h3, h4⟩ := (bind_ok _ _ _).1 h2
    obtain ⟨o1, h5, h6⟩ := (bind_ok _ _ _).1 h4
    obtain ⟨o2, h7, h8⟩ := (bind_ok _ _ _).1 h6
    cases h8
    have hv : VLen v (offs.length - 1) := by simp only [WFB] at hwf; exact hwf.2
    obtain ⟨rfl, _⟩ := setValidity_ok hv h3
    obtain ⟨l, hl, rfl⟩ := duplicateLast_ok h5
    rw [bytes_last hwf] at hl; cases hl
    have := incrementLast_snoc h7
    subst this
    obtain ⟨g1, g2⟩ := bytes_step hwf true bs
    rw [rowOf_true] at g2
    refine ⟨g1, _, g2, ?_⟩
    intro t w j _ _ hj
    simp only [bytesVal] at hj
    split at hj <;> cases hj
  | .bytesView p ty v views buf, x, b', hwf, _, h => by
    simp only [pushScalar] at h
    obtain ⟨bs, _, h2⟩ := (bind_ok _ _ _).1 h
    obtain ⟨vp, hp, h2⟩ := (bind_ok _ _ _).1 h2
    obtain ⟨v', h3, h4⟩ := (bind_ok _ _ _).1 h2
    have hv : VLen v views.length := by simp only [WFB] at hwf; exact hwf.1
    obtain ⟨rfl, _⟩ := setValidity_ok hv h3
    obtain ⟨d, extra, rfl, hd, hlen, _⟩ := viewPushValue_ok hp
    cases h4
    obtain ⟨g1, g2⟩ := view_step hwf true d extra hd (hlen (view_buf_lt hwf))
    rw [rowOf_true] at g2
    refine ⟨g1, _, g2, ?_⟩
    intro t w j _ _ hj
    simp only [bytesVal] at hj
    split at hj <;> cases hj
  | .fixedSizeBinary p n len v buf cur, x, b', hwf, _, h => by
    unfold pushScalar at h
    split at h
    · split at h
      · simp [fail] at h
      · rename_i bs hn
        obtain ⟨v', h3, h4⟩ := (bind_ok _ _ _).1 h
        cases h4
        have hv : VLen v len := by simp only [WFB] at hwf; exact hwf.1
        obtain ⟨rfl, _⟩ := setValidity_ok hv h3
        obtain ⟨g1, g2⟩ := fsb_step hwf true bs (by simpa using hn) cur
        rw [rowOf_true] at g2
        exact ⟨g1, _, g2, by intro t w j _ hx; cases hx⟩
    · simp [notSupported, fail] at h
  | .dictionary p idx vals index, x, b', hwf, hsafe, h => by
    unfold pushScalar at h
    simp only at h
    have hw' := hwf
    simp only [WFB] at hw'
    simp only [Safe] at hsafe
    split at h
    · rename_i s _
      split at h
      · rename_i i hi
        obtain ⟨idx', h1, h2⟩ := (bind_ok _ _ _).1 h
        cases h2
        rw [ctx_eq_ok] at h1
        obtain ⟨hidx, lv, hdec, hint⟩ := pushScalar_appends ext idx _ idx' hw'.1 hsafe.2.1 h1
        have hlt : i < index.length := by
          have := SaModel.Props.C11Front.indexOfName_some index s i hi
          rcases Nat.lt_or_ge i index.length with h | h
          · exact h
          · rw [List.getElem?_eq_none_iff.mpr h] at this; cases this
        obtain ⟨g1, g2⟩ := dict_append hwf [lv] [] [] hidx hw'.2.1 hdec (by simp) (by simpa using hw'.2.2.1) rfl (by
          intro k' hk' j hj
          simp at hk'; subst hk'
          have := hint _ _ j hsafe.1 rfl hj
          subst this
          simp; omega) (by rw [List.append_nil]; exact DictVals.of_wf hwf)
        simp only [List.append_nil] at g1 g2
        refine ⟨g1, _, g2, ?_⟩
        intro t w j hd
        simp [B.isDict] at hd
      · rename_i hi
        obtain ⟨vals', h1, h2⟩ := (bind_ok _ _ _).1 h
        obtain ⟨idx', h3, h4⟩ := (bind_ok _ _ _).1 h2
        cases h4
        rw [ctx_eq_ok] at h1 h3
        obtain ⟨hvals, lw, hdecv, _⟩ := pushScalar_appends ext vals _ vals' hw'.2.1 hsafe.2.2 h1
        obtain ⟨hidx, lv, hdec, hint⟩ := pushScalar_appends ext idx _ idx' hw'.1 hsafe.2.1 h3
        have hnotin : s ∉ index := by
          intro hmem
          obtain ⟨i, hi', he⟩ := List.getElem_of_mem hmem
          have := SaModel.Props.C11Front.indexOfName_go_none s index 0 hi i
          apply this
          simp [hi', he]
        obtain ⟨g1, g2⟩ := dict_append hwf [lv] [lw] [s] hidx hvals hdec hdecv
          (by
            rw [List.nodup_append]
            exact ⟨hw'.2.2.1, by simp, by intro a ha b hb; simp at hb; subst hb; intro he; subst he; exact hnotin ha⟩)
          rfl (by
          intro k' hk' j hj
          simp at hk'; subst hk'
          have := hint _ _ j hsafe.1 rfl hj
          subst this
          simp) (DictVals_push ext hw'.2.1 (DictVals.of_wf hwf) h1)
        refine ⟨g1, _, g2, ?_⟩
        intro t w j hd
        simp [B.isDict] at hd
    · simp [notSupported, fail] at h
  | .list _ _ _ _ _ _, x, b', _, _, h => by simp [pushScalar, notSupported, fail] at h
  | .fixedSizeList _ _ _ _ _ _ _, x, b', _, _, h => by simp [pushScalar, notSupported, fail] at h
  | .map _ _ _ _ _ _, x, b', _, _, h => by simp [pushScalar, notSupported, fail] at h
  | .struct _ _ _ _ _ _ _, x, b', _, _, h => by simp [pushScalar, notSupported, fail] at h
  | .union _ _ _ _ _, x, b', _, _, h => by simp [pushScalar, notSupported, fail] at h

end SaModel.Build
