import SaModel.Lemmas.C01Comb
import SaModel.Lemmas.C01MapOps
import SaModel.Spec.Interp
import SaModel.Lemmas.C01LeafBridge
/-
R1 — the work-horse: every successful `push` keeps the builder state well formed and appends exactly ONE
logical row.  One mutual structural recursion over the serde value, all builder families.

Hypotheses, beside the state invariant `WFB`:
* `Safe b` (schema property, see Build/Inv.lean): no dictionary with non-nullable keys can receive
  `serialize_default` — for such schemas the statement is false as it stands (placeholder key 0, see
  `Props/C01.lean: dict_placeholder_unstable`).
No hypothesis on the value: a MAP builder refuses every raw key/value call stream (`SVal.mapRaw`, a malformed
`SerializeMap` user) that does not alternate key, value, key, value … (repo fix eafdf15: the `key_pending` flag,
`pushMapOps`), so a SUCCESSFUL push has kept keys and values in step.
-/
namespace SaModel.Build
open SaModel SaModel.Spec

/-- map entries: keys and values grow in step, the open offset by the number of keys -/
def MapOK (pm : List Int → B → B → R (List Int × B × B)) : Prop :=
  ∀ base l ks vs r, WFB ks → WFB vs → Safe ks → Safe vs → pm (base ++ [l]) ks vs = .ok r →
    WFB r.2.1 ∧ WFB r.2.2 ∧ ∃ lk lw : List LVal, lw.length = lk.length ∧ dec r.2.1 = dec ks ++ lk ∧
      dec r.2.2 = dec vs ++ lw ∧ r.1 = base ++ [l + (lk.length : Int)]

theorem map_row_appends {p mm v offs ks vs} {pm : List Int → B → B → R (List Int × B × B)} {b' : B}
    (hwf : WFB (.map p mm v offs ks vs)) (hsafe : Safe (.map p mm v offs ks vs)) (hpm : MapOK pm)
    (h : (do
      let v' ← setValidity v (offs.length - 1) true
      let offs' ← duplicateLast offs
      let (offs'', ks', vs') ← pm offs' ks vs
      pure (.map p mm v' offs'' ks' vs') : R B) = .ok b') :
    WFB b' ∧ ∃ lv, dec b' = dec (.map p mm v offs ks vs) ++ [lv] := by
  obtain ⟨v', h1, h⟩ := (bind_ok _ _ _).1 h
  obtain ⟨o1, h2, h⟩ := (bind_ok _ _ _).1 h
  obtain ⟨⟨o2, ks', vs'⟩, h3, h⟩ := (bind_ok _ _ _).1 h
  cases h
  have hw' := hwf
  simp only [WFB] at hw'
  simp only [Safe] at hsafe
  obtain ⟨rfl, _⟩ := setValidity_ok hw'.2.2.1 h1
  obtain ⟨l, hl, rfl⟩ := duplicateLast_ok h2
  rw [hw'.1.2.1] at hl; cases hl
  obtain ⟨hks, hvs, lk, lw, hlen, hdk, hdv, ho⟩ := hpm _ _ _ _ _ hw'.2.2.2.1 hw'.2.2.2.2 hsafe.1 hsafe.2 h3
  simp only at hks hvs hdk hdv ho
  subst ho
  have := map_step hwf true lk lw hks hvs hdk hdv hlen
  rw [rowOf_true] at this
  exact ⟨this.1, _, this.2⟩

theorem StepOK.of_push {ext : Ext} {x : SVal}
    (h : ∀ (b b' : B), WFB b → Safe b → push ext b x = .ok b' → WFB b' ∧ ∃ lv, dec b' = dec b ++ [lv]) :
    StepOK (fun c => push ext c x) := by
  intro c c' hw hs hp
  obtain ⟨a, b⟩ := h c c' hw hs hp
  exact ⟨a, Safe.of_takeRest (push_takeRest ext x c c' hp) hs, b⟩

theorem FieldsOK.next {pf : SS → R SS} (h : FieldsOK pf) (n : Nat) : FieldsOK (fun s => pf { s with next := n }) := by
  intro fs0 s adds s' hm hp
  obtain ⟨a, b⟩ := h fs0 _ adds s' (hm.next n) hp
  exact ⟨a, b⟩

mutual
theorem push_appends (ext : Ext) : ∀ (x : SVal) (b b' : B), WFB b → Safe b → push ext b x = .ok b' →
    WFB b' ∧ ∃ lv, dec b' = dec b ++ [lv]
  | .some v, b, b', hwf, hs, h => by
    rw [push] at h; exact push_appends ext v b b' hwf hs h
  | .newtypeStruct _ v, b, b', hwf, hs, h => by
    rw [push] at h; exact push_appends ext v b b' hwf hs h
  | .none, b, b', hwf, hs, h => by
    rw [push] at h
    obtain ⟨a, d⟩ := pushNone_appends b b' hwf hs h
    exact ⟨a, _, d⟩
  | .unit, b, b', hwf, hs, h => by
    cases b with
    | unknownVariant p => simp [push, ctx_ok, fail] at h
    | _ =>
      simp only [push] at h
      obtain ⟨a, d⟩ := pushNone_appends _ b' hwf hs h
      exact ⟨a, _, d⟩
  | .seq xs, b, b', hwf, hs, h => by
    rw [push, ctx_ok] at h
    exact seqLikeWith_appends (pushElems_appends ext xs) (pushCountElems_appends ext xs)
      (pushTupleElems_appends ext xs) b _ b' hwf hs h
  | .tuple xs, b, b', hwf, hs, h => by
    rw [push, ctx_ok] at h
    exact seqLikeWith_appends (pushElems_appends ext xs) (pushCountElems_appends ext xs)
      (pushTupleElems_appends ext xs) b _ b' hwf hs h
  | .tupleStruct _ xs, b, b', hwf, hs, h => by
    rw [push, ctx_ok] at h
    exact seqLikeWith_appends (pushElems_appends ext xs) (pushCountElems_appends ext xs)
      (pushTupleElems_appends ext xs) b _ b' hwf hs h
  | .record _ fs, b, b', hwf, hs, h => by
    rw [push, ctx_ok] at h
    exact recordWith_appends (pushFields_appends ext fs) b b' hwf hs h
  | .map es, b, b', hwf, hs, h => by
    cases b with
    | struct p len v fs cached next seen =>
      simp only [push, ctx_ok] at h
      exact record_appends (pf := fun s => pushStructEntries ext { s with next := UNKNOWN_KEY } es) hwf hs
        ((pushStructEntries_appends ext es).next _) h
    | map p mm v offs ks vs =>
      simp only [push, ctx_ok] at h
      exact map_row_appends (pm := fun offs ks vs => pushMapEntries ext offs ks vs es) hwf hs
        (pushMapEntries_appends ext es) h
    | _ => simp [push, ctx_ok, notSupported, fail] at h
  | .mapRaw ops, b, b', hwf, hs, h => by
    cases b with
    | struct p len v fs cached next seen =>
      simp only [push, ctx_ok] at h
      exact record_appends (pf := fun s => pushStructOps ext { s with next := UNKNOWN_KEY } ops) hwf hs
        ((pushStructOps_appends ext ops).next _) h
    | map p mm v offs ks vs =>
      simp only [push, ctx_ok] at h
      refine map_row_appends (pm := fun offs ks vs => pushMapOps ext false offs ks vs ops) hwf hs ?_ h
      intro base l ks vs r hk hv hsk hsv h
      obtain ⟨g1, g2, lk, lw, hlen, rest⟩ := pushMapOps_appends_gen ext ops false base l ks vs r hk hv hsk hsv h
      exact ⟨g1, g2, lk, lw, by simpa using hlen, rest⟩
    | _ => simp [push, ctx_ok, notSupported, fail] at h
  | .unitVariant n i vn, b, b', hwf, hs, h => by
    cases b with
    | union p fs types offs cur =>
      simp only [push, ctx_ok] at h
      refine union_row_appends (pc := fun c => match c with
          | .unknownVariant _ => ctx c.ann (fail "Unknown variant does not support serialize_unit")
          | _ => pushNone c) hwf hs ?_ h
      intro c c' hw hsc hc
      simp only at hc
      split at hc
      · simp [ctx_ok, fail] at hc
      · obtain ⟨a, d⟩ := pushNone_appends c c' hw hsc hc
        exact ⟨a, Safe.of_takeRest (pushNone_takeRest c c' hc) hsc, _, d⟩
    | _ =>
      simp only [push, ctx_ok] at h
      obtain ⟨a, lv, d, _⟩ := pushScalar_appends ext _ _ b' hwf hs h
      exact ⟨a, lv, d⟩
  | .newtypeVariant _ i _ v, b, b', hwf, hs, h => by
    cases b with
    | union p fs types offs cur =>
      simp only [push, ctx_ok] at h
      exact union_row_appends (pc := fun c => push ext c v) hwf hs
        (StepOK.of_push (fun c c' => push_appends ext v c c')) h
    | bytes _ ty _ _ _ => simp only [push, ctx_ok] at h; split at h <;> simp [notSupported, fail] at h
    | bytesView _ ty _ _ _ => simp only [push, ctx_ok] at h; split at h <;> simp [notSupported, fail] at h
    | _ => simp [push, ctx_ok, notSupported, fail] at h
  | .tupleVariant _ i _ xs, b, b', hwf, hs, h => by
    cases b with
    | union p fs types offs cur =>
      simp only [push, ctx_ok] at h
      refine union_row_appends (pc := fun c => ctx c.ann (seqLikeWith (fun large el offs => pushElems ext large el offs xs)
        (fun el c => pushCountElems ext el c xs) (fun s => pushTupleElems ext s xs) (u8All xs) c .tupleStruct)) hwf hs ?_ h
      intro c c' hw hsc hc
      rw [ctx_ok] at hc
      obtain ⟨a, d⟩ := seqLikeWith_appends (pushElems_appends ext xs) (pushCountElems_appends ext xs)
        (pushTupleElems_appends ext xs) c _ c' hw hsc hc
      refine ⟨a, Safe.of_takeRest ?_ hsc, d⟩
      exact seqLikeWith_takeRest (fun large el offs r hr => pushElems_takeRest ext xs large el offs r hr)
        (fun el c r hr => pushCountElems_takeRest ext xs el c r hr)
        (fun s s' hs => pushTupleElems_takeRest ext xs s s' hs) c _ c' hc
    | bytes _ ty _ _ _ => simp only [push, ctx_ok] at h; split at h <;> simp [notSupported, fail] at h
    | bytesView _ ty _ _ _ => simp only [push, ctx_ok] at h; split at h <;> simp [notSupported, fail] at h
    | _ => simp [push, ctx_ok, notSupported, fail] at h
  | .structVariant _ i _ fields, b, b', hwf, hs, h => by
    cases b with
    | union p fs types offs cur =>
      simp only [push, ctx_ok] at h
      refine union_row_appends (pc := fun c => ctx c.ann (recordWith (fun s => pushFields ext s fields) c)) hwf hs ?_ h
      intro c c' hw hsc hc
      rw [ctx_ok] at hc
      obtain ⟨a, d⟩ := recordWith_appends (pushFields_appends ext fields) c c' hw hsc hc
      refine ⟨a, Safe.of_takeRest ?_ hsc, d⟩
      exact recordWith_takeRest (fun s s' hs => pushFields_takeRest ext fields s s' hs) c c' hc
    | bytes _ ty _ _ _ => simp only [push, ctx_ok] at h; split at h <;> simp [notSupported, fail] at h
    | bytesView _ ty _ _ _ => simp only [push, ctx_ok] at h; split at h <;> simp [notSupported, fail] at h
    | _ => simp [push, ctx_ok, notSupported, fail] at h
  | .bytes bs, b, b', hwf, hs, h => by
    cases b with
    | list p large fm v offs el =>
      simp only [push, ctx_ok] at h
      obtain ⟨v', h1, h⟩ := (bind_ok _ _ _).1 h
      obtain ⟨o1, h2, h⟩ := (bind_ok _ _ _).1 h
      obtain ⟨⟨el', o2⟩, h3, h⟩ := (bind_ok _ _ _).1 h
      cases h
      have hw' := hwf
      simp only [WFB] at hw'
      obtain ⟨rfl, _⟩ := setValidity_ok hw'.2.1 h1
      obtain ⟨l, hl, rfl⟩ := duplicateLast_ok h2
      rw [hw'.1.2.1] at hl; cases hl
      obtain ⟨hel, ls, hdec, ho⟩ := pushByteElems_appends ext large bs el _ _ _ hw'.2.2 (by simpa [Safe] using hs) h3
      simp only at hel hdec ho
      subst ho
      have := list_step hwf true ls hel hdec
      rw [rowOf_true] at this
      exact ⟨this.1, _, this.2⟩
    | _ =>
      simp only [push, ctx_ok] at h
      obtain ⟨a, lv, d, _⟩ := pushScalar_appends ext _ _ b' hwf hs h
      exact ⟨a, lv, d⟩
  | .bool x, b, b', hwf, hs, h => by
    rw [push, ctx_ok] at h
    obtain ⟨a, lv, d, _⟩ := pushScalar_appends ext _ _ b' hwf hs h
    exact ⟨a, lv, d⟩
  | .int t x, b, b', hwf, hs, h => by
    rw [push, ctx_ok] at h
    obtain ⟨a, lv, d, _⟩ := pushScalar_appends ext _ _ b' hwf hs h
    exact ⟨a, lv, d⟩
  | .f32 x, b, b', hwf, hs, h => by
    rw [push, ctx_ok] at h
    obtain ⟨a, lv, d, _⟩ := pushScalar_appends ext _ _ b' hwf hs h
    exact ⟨a, lv, d⟩
  | .f64 x, b, b', hwf, hs, h => by
    rw [push, ctx_ok] at h
    obtain ⟨a, lv, d, _⟩ := pushScalar_appends ext _ _ b' hwf hs h
    exact ⟨a, lv, d⟩
  | .char x, b, b', hwf, hs, h => by
    rw [push, ctx_ok] at h
    obtain ⟨a, lv, d, _⟩ := pushScalar_appends ext _ _ b' hwf hs h
    exact ⟨a, lv, d⟩
  | .str x, b, b', hwf, hs, h => by
    rw [push, ctx_ok] at h
    obtain ⟨a, lv, d, _⟩ := pushScalar_appends ext _ _ b' hwf hs h
    exact ⟨a, lv, d⟩
  | .unitStruct x, b, b', hwf, hs, h => by
    cases b with
    | unknownVariant p => simp [push, ctx_ok, fail] at h
    | _ =>
      simp only [push] at h
      obtain ⟨a, d⟩ := pushNone_appends _ b' hwf hs h
      exact ⟨a, _, d⟩

theorem pushElems_appends (ext : Ext) : ∀ (xs : SVals),
    ElemsOK (fun large el offs => pushElems ext large el offs xs)
  | .nil => by
    intro large el base l r hwf _ h
    simp only [pushElems] at h; cases h
    exact ⟨hwf, [], by simp, by simp⟩
  | .cons x rest => by
    intro large el base l r hwf hs h
    simp only [pushElems] at h
    obtain ⟨o', h1, h⟩ := (bind_ok _ _ _).1 h
    obtain ⟨el', h2, h⟩ := (bind_ok _ _ _).1 h
    have := incrementLast_snoc h1
    subst this
    obtain ⟨hel', lv, hdec⟩ := push_appends ext x el el' hwf hs h2
    have hs' := Safe.of_takeRest (push_takeRest ext x el el' h2) hs
    obtain ⟨hr, ls, hd, ho⟩ := pushElems_appends ext rest large el' base (l + 1) r hel' hs' h
    refine ⟨hr, lv :: ls, by rw [hd, hdec]; simp, ?_⟩
    rw [ho]; simp; omega

theorem pushCountElems_appends (ext : Ext) : ∀ (xs : SVals),
    CountOK (fun el c => pushCountElems ext el c xs)
  | .nil => by
    intro el c r hwf _ h
    simp only [pushCountElems] at h; cases h
    exact ⟨hwf, [], by simp, by simp⟩
  | .cons x rest => by
    intro el c r hwf hs h
    simp only [pushCountElems] at h
    obtain ⟨el', h2, h⟩ := (bind_ok _ _ _).1 h
    obtain ⟨hel', lv, hdec⟩ := push_appends ext x el el' hwf hs h2
    have hs' := Safe.of_takeRest (push_takeRest ext x el el' h2) hs
    obtain ⟨hr, ls, hd, ho⟩ := pushCountElems_appends ext rest el' (c + 1) r hel' hs' h
    refine ⟨hr, lv :: ls, by rw [hd, hdec]; simp, ?_⟩
    rw [ho]; simp; omega

theorem pushTupleElems_appends (ext : Ext) : ∀ (xs : SVals),
    FieldsOK (fun s => pushTupleElems ext s xs)
  | .nil => by
    intro fs0 s adds s' hm h
    simp only [pushTupleElems] at h; cases h
    exact ⟨⟨adds, hm⟩, Same.refl _⟩
  | .cons x rest => by
    intro fs0 s adds s' hm h
    simp only [pushTupleElems] at h
    split at h
    · obtain ⟨s1, h1, h⟩ := (bind_ok _ _ _).1 h
      obtain ⟨⟨adds1, hm1⟩, hsame1⟩ := SS.element_mid hm
        (StepOK.of_push (fun c c' => push_appends ext x c c')) h1
      obtain ⟨a, hsame⟩ := pushTupleElems_appends ext rest fs0 s1 adds1 s' hm1 h
      exact ⟨a, hsame.trans hsame1⟩
    · exact pushTupleElems_appends ext rest fs0 s adds s' hm h

theorem pushFields_appends (ext : Ext) : ∀ (fs : SFields),
    FieldsOK (fun s => pushFields ext s fs)
  | .nil => by
    intro fs0 s adds s' hm h
    simp only [pushFields] at h; cases h
    exact ⟨⟨adds, hm⟩, Same.refl _⟩
  | .cons key al x rest => by
    intro fs0 s adds s' hm h
    simp only [pushFields] at h
    have hl := (SaModel.Props.C11Front.lookup_sound s.fields.names s.cached s.next (key, al) hm.nodup hm.cache).2
    split at h
    · rename_i cached' heq
      rw [heq] at hl
      obtain ⟨a, hsame⟩ := pushFields_appends ext rest fs0 _ adds s' (hm.cached cached' hl) h
      exact ⟨a, hsame⟩
    · rename_i idx cached' heq
      rw [heq] at hl
      obtain ⟨s1, h1, h⟩ := (bind_ok _ _ _).1 h
      obtain ⟨⟨adds1, hm1⟩, hsame1⟩ := SS.element_mid (hm.cached cached' hl)
        (StepOK.of_push (fun c c' => push_appends ext x c c')) h1
      obtain ⟨a, hsame⟩ := pushFields_appends ext rest fs0 s1 adds1 s' hm1 h
      exact ⟨a, hsame.trans hsame1⟩

theorem pushStructEntries_appends (ext : Ext) : ∀ (es : SEntries),
    FieldsOK (fun s => pushStructEntries ext s es)
  | .nil => by
    intro fs0 s adds s' hm h
    simp only [pushStructEntries] at h; cases h
    exact ⟨⟨adds, hm⟩, Same.refl _⟩
  | .cons k x rest => by
    intro fs0 s adds s' hm h
    simp only [pushStructEntries] at h
    obtain ⟨key, _, h⟩ := (bind_ok _ _ _).1 h
    split at h
    · obtain ⟨a, hsame⟩ := pushStructEntries_appends ext rest fs0 _ adds s' (hm.next _) h
      exact ⟨a, hsame⟩
    · obtain ⟨s1, h1, h⟩ := (bind_ok _ _ _).1 h
      obtain ⟨⟨adds1, hm1⟩, hsame1⟩ := SS.element_mid hm
        (StepOK.of_push (fun c c' => push_appends ext x c c')) h1
      obtain ⟨a, hsame⟩ := pushStructEntries_appends ext rest fs0 _ adds1 s' (hm1.next _) h
      exact ⟨a, hsame.trans hsame1⟩

theorem pushStructOps_appends (ext : Ext) : ∀ (ops : SMapOps),
    FieldsOK (fun s => pushStructOps ext s ops)
  | .nil => by
    intro fs0 s adds s' hm h
    simp only [pushStructOps] at h; cases h
    exact ⟨⟨adds, hm⟩, Same.refl _⟩
  | .key k rest => by
    intro fs0 s adds s' hm h
    simp only [pushStructOps] at h
    obtain ⟨key, _, h⟩ := (bind_ok _ _ _).1 h
    obtain ⟨a, hsame⟩ := pushStructOps_appends ext rest fs0 _ adds s' (hm.next _) h
    exact ⟨a, hsame⟩
  | .value x rest => by
    intro fs0 s adds s' hm h
    simp only [pushStructOps] at h
    split at h
    · obtain ⟨s1, h1, h⟩ := (bind_ok _ _ _).1 h
      obtain ⟨⟨adds1, hm1⟩, hsame1⟩ := SS.element_mid hm
        (StepOK.of_push (fun c c' => push_appends ext x c c')) h1
      obtain ⟨a, hsame⟩ := pushStructOps_appends ext rest fs0 _ adds1 s' (hm1.next _) h
      exact ⟨a, hsame.trans hsame1⟩
    · obtain ⟨a, hsame⟩ := pushStructOps_appends ext rest fs0 _ adds s' (hm.next _) h
      exact ⟨a, hsame⟩

theorem pushMapEntries_appends (ext : Ext) : ∀ (es : SEntries),
    MapOK (fun offs ks vs => pushMapEntries ext offs ks vs es)
  | .nil => by
    intro base l ks vs r hk hv _ _ h
    simp only [pushMapEntries] at h; cases h
    exact ⟨hk, hv, [], [], rfl, by simp, by simp, by simp⟩
  | .cons k x rest => by
    intro base l ks vs r hk hv hsk hsv h
    simp only [pushMapEntries] at h
    obtain ⟨o', h1, h⟩ := (bind_ok _ _ _).1 h
    obtain ⟨ks', h2, h⟩ := (bind_ok _ _ _).1 h
    obtain ⟨vs', h3, h⟩ := (bind_ok _ _ _).1 h
    have := incrementLast_snoc h1
    subst this
    obtain ⟨hk', lk0, hdk⟩ := push_appends ext k ks ks' hk hsk h2
    obtain ⟨hv', lv0, hdv⟩ := push_appends ext x vs vs' hv hsv h3
    have hsk' := Safe.of_takeRest (push_takeRest ext k ks ks' h2) hsk
    have hsv' := Safe.of_takeRest (push_takeRest ext x vs vs' h3) hsv
    obtain ⟨g1, g2, lk, lw, hlen, gk, gv, go⟩ :=
      pushMapEntries_appends ext rest base (l + 1) ks' vs' r hk' hv' hsk' hsv' h
    refine ⟨g1, g2, lk0 :: lk, lv0 :: lw, by simp [hlen], by rw [gk, hdk]; simp, by rw [gv, hdv]; simp, ?_⟩
    rw [go]; simp; omega

/-- a raw key/value stream into a map builder, from any state of the `key_pending` flag: when it is accepted, the
values received are one more than the keys exactly if a key was pending at the start -/
theorem pushMapOps_appends_gen (ext : Ext) : ∀ (ops : SMapOps) (pd : Bool) (base : List Int) (l : Int) (ks vs : B)
    (r : List Int × B × B), WFB ks → WFB vs → Safe ks → Safe vs → pushMapOps ext pd (base ++ [l]) ks vs ops = .ok r →
    WFB r.2.1 ∧ WFB r.2.2 ∧ ∃ lk lw : List LVal, lw.length = lk.length + (if pd then 1 else 0) ∧
      dec r.2.1 = dec ks ++ lk ∧ dec r.2.2 = dec vs ++ lw ∧ r.1 = base ++ [l + (lk.length : Int)]
  | .nil, pd, base, l, ks, vs, r, hk, hv, _, _, h => by
    obtain ⟨rfl, rfl⟩ := pushMapOps_nil_ok h
    exact ⟨hk, hv, [], [], rfl, by simp, by simp, by simp⟩
  | .key k rest, pd, base, l, ks, vs, r, hk, hv, hsk, hsv, h => by
    obtain ⟨rfl, o', ks', h1, h2, h⟩ := pushMapOps_key_ok h
    have := incrementLast_snoc h1
    subst this
    obtain ⟨hk', lk0, hdk⟩ := push_appends ext k ks ks' hk hsk h2
    have hsk' := Safe.of_takeRest (push_takeRest ext k ks ks' h2) hsk
    obtain ⟨g1, g2, lk, lw, hlen, gk, gv, go⟩ :=
      pushMapOps_appends_gen ext rest true base (l + 1) ks' vs r hk' hv hsk' hsv h
    refine ⟨g1, g2, lk0 :: lk, lw, by simpa using hlen, by rw [gk, hdk]; simp, gv, ?_⟩
    rw [go]; simp; omega
  | .value x rest, pd, base, l, ks, vs, r, hk, hv, hsk, hsv, h => by
    obtain ⟨rfl, vs', h3, h⟩ := pushMapOps_value_ok h
    obtain ⟨hv', lv0, hdv⟩ := push_appends ext x vs vs' hv hsv h3
    have hsv' := Safe.of_takeRest (push_takeRest ext x vs vs' h3) hsv
    obtain ⟨g1, g2, lk, lw, hlen, gk, gv, go⟩ :=
      pushMapOps_appends_gen ext rest false base l ks vs' r hk hv' hsk hsv' h
    refine ⟨g1, g2, lk, lv0 :: lw, by simpa using hlen, gk, by rw [gv, hdv]; simp, go⟩
end

/-- one map value (`serialize_map_start` resets the flag): an ACCEPTED raw stream has kept keys and values in step -/
theorem pushMapOps_appends (ext : Ext) (ops : SMapOps) : MapOK (fun offs ks vs => pushMapOps ext false offs ks vs ops) := by
  intro base l ks vs r hk hv hsk hsv h
  obtain ⟨g1, g2, lk, lw, hlen, rest⟩ := pushMapOps_appends_gen ext ops false base l ks vs r hk hv hsk hsv h
  exact ⟨g1, g2, lk, lw, by simpa using hlen, rest⟩

end SaModel.Build
