import SaModel.Lemmas.C01Rows
/-
Raw `serialize_key` / `serialize_value` call streams (`SVal.mapRaw`) in R2: the vocabulary.

* `structStreamsAlternate x` — the decidable hypothesis of R2 / R3 / `C01_build_decode` on the value (weaker than `noRaw`, `noRaw_ssa`):
  every raw stream inside `x` alternates key, value, key, value …  (= `!Spec.containsMalformed x`, theorem
  `structStreamsAlternate_eq`).  At a MAP position it excludes nothing that matters: a Map builder refuses every other
  stream (`map_refuses_non_alternating`), so no successful push is lost.  At a STRUCT position it is needed: a struct
  builder ACCEPTS arbitrary streams (a value without a key is dropped, a key without a value leaves the field unseen —
  `normOps`, `pushStructOps_norm` in Lemmas/C01R2.lean) whereas `Spec.interpDT` calls them `malformed`: there is no
  documented row for them (witness `struct_stream_needed` in Props/C01Refine.lean).
* `narrowDT dt` — the sentinel bound: every struct type has fewer than `usize::MAX = 2^64 - 1` fields.  The struct
  builder marks "the last key was not a field" by `next = UNKNOWN_KEY = usize::MAX`; a field with exactly that index
  would be taken for an unknown key.  No Rust `Vec` has that many elements; the model's lists are unbounded, so the
  bound is a hypothesis on the schema (a typing invariant, like `typedDT`).
-/
namespace SaModel.Build
open SaModel SaModel.Spec

mutual
/-- every raw key/value call stream inside the value alternates key, value, key, value … -/
def structStreamsAlternate : SVal → Bool
  | .some v => structStreamsAlternate v
  | .newtypeStruct _ v => structStreamsAlternate v
  | .seq xs => ssaS xs
  | .tuple xs => ssaS xs
  | .tupleStruct _ xs => ssaS xs
  | .record _ fs => ssaF fs
  | .map es => ssaE es
  | .mapRaw ops => ssaO ops
  | .newtypeVariant _ _ _ v => structStreamsAlternate v
  | .tupleVariant _ _ _ xs => ssaS xs
  | .structVariant _ _ _ fs => ssaF fs
  | _ => true
def ssaS : SVals → Bool
  | .nil => true
  | .cons v r => structStreamsAlternate v && ssaS r
def ssaF : SFields → Bool
  | .nil => true
  | .cons _ _ v r => structStreamsAlternate v && ssaF r
def ssaE : SEntries → Bool
  | .nil => true
  | .cons k v r => structStreamsAlternate k && structStreamsAlternate v && ssaE r
/-- the stream itself alternates, and so does every stream inside its keys and values -/
def ssaO : SMapOps → Bool
  | .nil => true
  | .key k (.value x rest) => structStreamsAlternate k && structStreamsAlternate x && ssaO rest
  | _ => false
end

mutual
/-- the value contains no raw `serialize_key`/`serialize_value` call stream -/
def noRaw : SVal → Bool
  | .some v => noRaw v
  | .newtypeStruct _ v => noRaw v
  | .seq xs => noRaws xs
  | .tuple xs => noRaws xs
  | .tupleStruct _ xs => noRaws xs
  | .record _ fs => noRawf fs
  | .map es => noRawe es
  | .mapRaw _ => false
  | .newtypeVariant _ _ _ v => noRaw v
  | .tupleVariant _ _ _ xs => noRaws xs
  | .structVariant _ _ _ fs => noRawf fs
  | _ => true
def noRaws : SVals → Bool
  | .nil => true
  | .cons v r => noRaw v && noRaws r
def noRawf : SFields → Bool
  | .nil => true
  | .cons _ _ v r => noRaw v && noRawf r
def noRawe : SEntries → Bool
  | .nil => true
  | .cons k v r => noRaw k && noRaw v && noRawe r
end


mutual
theorem noRaw_ssa : ∀ (x : SVal), noRaw x = true → structStreamsAlternate x = true
  | .some v, h => by simp only [noRaw] at h; simp only [structStreamsAlternate]; exact noRaw_ssa v h
  | .newtypeStruct _ v, h => by simp only [noRaw] at h; simp only [structStreamsAlternate]; exact noRaw_ssa v h
  | .newtypeVariant _ _ _ v, h => by simp only [noRaw] at h; simp only [structStreamsAlternate]; exact noRaw_ssa v h
  | .seq xs, h => by simp only [noRaw] at h; simp only [structStreamsAlternate]; exact noRaws_ssa xs h
  | .tuple xs, h => by simp only [noRaw] at h; simp only [structStreamsAlternate]; exact noRaws_ssa xs h
  | .tupleStruct _ xs, h => by simp only [noRaw] at h; simp only [structStreamsAlternate]; exact noRaws_ssa xs h
  | .tupleVariant _ _ _ xs, h => by simp only [noRaw] at h; simp only [structStreamsAlternate]; exact noRaws_ssa xs h
  | .record _ fs, h => by simp only [noRaw] at h; simp only [structStreamsAlternate]; exact noRawf_ssa fs h
  | .structVariant _ _ _ fs, h => by simp only [noRaw] at h; simp only [structStreamsAlternate]; exact noRawf_ssa fs h
  | .map es, h => by simp only [noRaw] at h; simp only [structStreamsAlternate]; exact noRawe_ssa es h
  | .mapRaw _, h => by simp [noRaw] at h
  | .none, _ | .unit, _ | .bool _, _ | .int _ _, _ | .f32 _, _ | .f64 _, _ | .char _, _ | .str _, _ | .bytes _, _
  | .unitStruct _, _ | .unitVariant _ _ _, _ => by simp [structStreamsAlternate]
theorem noRaws_ssa : ∀ (xs : SVals), noRaws xs = true → ssaS xs = true
  | .nil, _ => rfl
  | .cons x r, h => by
    simp only [noRaws, Bool.and_eq_true] at h
    simp [ssaS, noRaw_ssa x h.1, noRaws_ssa r h.2]
theorem noRawf_ssa : ∀ (fs : SFields), noRawf fs = true → ssaF fs = true
  | .nil, _ => rfl
  | .cons _ _ x r, h => by
    simp only [noRawf, Bool.and_eq_true] at h
    simp [ssaF, noRaw_ssa x h.1, noRawf_ssa r h.2]
theorem noRawe_ssa : ∀ (es : SEntries), noRawe es = true → ssaE es = true
  | .nil, _ => rfl
  | .cons k x r, h => by
    simp only [noRawe, Bool.and_eq_true] at h
    simp [ssaE, noRaw_ssa k h.1.1, noRaw_ssa x h.1.2, noRawe_ssa r h.2]
end

/-! ### one hypothesis for both regimes of R2

`rawOK nar x`: with `nar = false` the value has no raw stream at all (then R2 needs no bound on the number of struct
fields); with `nar = true` raw streams are allowed as long as they alternate (then the sentinel bound `narrowDT` is
needed).  The mutual recursion of R2 is written once, for a fixed `nar`. -/
def rawOK (nar : Bool) (x : SVal) : Bool := if nar then structStreamsAlternate x else noRaw x
def rawOKs (nar : Bool) (xs : SVals) : Bool := if nar then ssaS xs else noRaws xs
def rawOKf (nar : Bool) (fs : SFields) : Bool := if nar then ssaF fs else noRawf fs
def rawOKe (nar : Bool) (es : SEntries) : Bool := if nar then ssaE es else noRawe es

theorem rawOK_some (nar : Bool) (v : SVal) : rawOK nar (.some v) = rawOK nar v := by
  cases nar <;> simp [rawOK, structStreamsAlternate, noRaw]
theorem rawOK_newtypeStruct (nar : Bool) (a : String) (v : SVal) : rawOK nar (.newtypeStruct a v) = rawOK nar v := by
  cases nar <;> simp [rawOK, structStreamsAlternate, noRaw]
theorem rawOK_newtypeVariant (nar : Bool) (a : String) (i : Nat) (c : String) (v : SVal) :
    rawOK nar (.newtypeVariant a i c v) = rawOK nar v := by
  cases nar <;> simp [rawOK, structStreamsAlternate, noRaw]
theorem rawOK_seq (nar : Bool) (xs : SVals) : rawOK nar (.seq xs) = rawOKs nar xs := by
  cases nar <;> simp [rawOK, rawOKs, structStreamsAlternate, noRaw]
theorem rawOK_tuple (nar : Bool) (xs : SVals) : rawOK nar (.tuple xs) = rawOKs nar xs := by
  cases nar <;> simp [rawOK, rawOKs, structStreamsAlternate, noRaw]
theorem rawOK_tupleStruct (nar : Bool) (a : String) (xs : SVals) : rawOK nar (.tupleStruct a xs) = rawOKs nar xs := by
  cases nar <;> simp [rawOK, rawOKs, structStreamsAlternate, noRaw]
theorem rawOK_tupleVariant (nar : Bool) (a : String) (i : Nat) (c : String) (xs : SVals) :
    rawOK nar (.tupleVariant a i c xs) = rawOKs nar xs := by
  cases nar <;> simp [rawOK, rawOKs, structStreamsAlternate, noRaw]
theorem rawOK_record (nar : Bool) (a : String) (fs : SFields) : rawOK nar (.record a fs) = rawOKf nar fs := by
  cases nar <;> simp [rawOK, rawOKf, structStreamsAlternate, noRaw]
theorem rawOK_structVariant (nar : Bool) (a : String) (i : Nat) (c : String) (fs : SFields) :
    rawOK nar (.structVariant a i c fs) = rawOKf nar fs := by
  cases nar <;> simp [rawOK, rawOKf, structStreamsAlternate, noRaw]
theorem rawOK_map (nar : Bool) (es : SEntries) : rawOK nar (.map es) = rawOKe nar es := by
  cases nar <;> simp [rawOK, rawOKe, structStreamsAlternate, noRaw]
theorem rawOK_mapRaw (nar : Bool) (ops : SMapOps) : rawOK nar (.mapRaw ops) = (nar && ssaO ops) := by
  cases nar <;> simp [rawOK, structStreamsAlternate, noRaw]
theorem rawOKs_cons (nar : Bool) (x : SVal) (r : SVals) : rawOKs nar (.cons x r) = (rawOK nar x && rawOKs nar r) := by
  cases nar <;> simp [rawOK, rawOKs, ssaS, noRaws]
theorem rawOKf_cons (nar : Bool) (k : String) (al : Nat) (x : SVal) (r : SFields) :
    rawOKf nar (.cons k al x r) = (rawOK nar x && rawOKf nar r) := by
  cases nar <;> simp [rawOK, rawOKf, ssaF, noRawf]
theorem rawOKe_cons (nar : Bool) (k x : SVal) (r : SEntries) :
    rawOKe nar (.cons k x r) = (rawOK nar k && rawOK nar x && rawOKe nar r) := by
  cases nar <;> simp [rawOK, rawOKe, ssaE, noRawe]
theorem rawOK_true (x : SVal) : rawOK true x = structStreamsAlternate x := rfl
theorem rawOK_false (x : SVal) : rawOK false x = noRaw x := rfl

theorem ssaO_alternating : ∀ (ops : SMapOps), ssaO ops = true → isAlternating ops = true
  | .nil, _ => rfl
  | .key _ (.value _ rest), h => by
    simp only [ssaO, Bool.and_eq_true] at h
    simpa [isAlternating] using ssaO_alternating rest h.2
  | .key _ .nil, h => by simp [ssaO] at h
  | .key _ (.key _ _), h => by simp [ssaO] at h
  | .value _ _, h => by simp [ssaO] at h

mutual
/-- the exclusion is exactly "contains no malformed stream" of the specification -/
theorem structStreamsAlternate_eq : ∀ (x : SVal), structStreamsAlternate x = !containsMalformed x
  | .some v => by simp only [structStreamsAlternate, containsMalformed]; exact structStreamsAlternate_eq v
  | .newtypeStruct _ v => by simp only [structStreamsAlternate, containsMalformed]; exact structStreamsAlternate_eq v
  | .newtypeVariant _ _ _ v => by simp only [structStreamsAlternate, containsMalformed]; exact structStreamsAlternate_eq v
  | .seq xs => by simp only [structStreamsAlternate, containsMalformed]; exact ssaS_eq xs
  | .tuple xs => by simp only [structStreamsAlternate, containsMalformed]; exact ssaS_eq xs
  | .tupleStruct _ xs => by simp only [structStreamsAlternate, containsMalformed]; exact ssaS_eq xs
  | .tupleVariant _ _ _ xs => by simp only [structStreamsAlternate, containsMalformed]; exact ssaS_eq xs
  | .record _ fs => by simp only [structStreamsAlternate, containsMalformed]; exact ssaF_eq fs
  | .structVariant _ _ _ fs => by simp only [structStreamsAlternate, containsMalformed]; exact ssaF_eq fs
  | .map es => by simp only [structStreamsAlternate, containsMalformed]; exact ssaE_eq es
  | .mapRaw ops => by
    simp only [structStreamsAlternate, containsMalformed]
    rw [ssaO_eq ops]; simp
  | .none | .unit | .bool _ | .int _ _ | .f32 _ | .f64 _ | .char _ | .str _ | .bytes _ | .unitStruct _
  | .unitVariant _ _ _ => by simp [structStreamsAlternate, containsMalformed]
theorem ssaS_eq : ∀ (xs : SVals), ssaS xs = !anyMalformed xs
  | .nil => rfl
  | .cons x r => by simp [ssaS, anyMalformed, structStreamsAlternate_eq x, ssaS_eq r]
theorem ssaF_eq : ∀ (fs : SFields), ssaF fs = !anyMalformedF fs
  | .nil => rfl
  | .cons _ _ x r => by simp [ssaF, anyMalformedF, structStreamsAlternate_eq x, ssaF_eq r]
theorem ssaE_eq : ∀ (es : SEntries), ssaE es = !anyMalformedE es
  | .nil => rfl
  | .cons k x r => by
    simp [ssaE, anyMalformedE, structStreamsAlternate_eq k, structStreamsAlternate_eq x, ssaE_eq r, Bool.and_assoc]
theorem ssaO_eq : ∀ (ops : SMapOps), ssaO ops = (isAlternating ops && !anyMalformedO ops)
  | .nil => rfl
  | .key k (.value x rest) => by
    simp [ssaO, isAlternating, anyMalformedO, structStreamsAlternate_eq k, structStreamsAlternate_eq x, ssaO_eq rest]
    cases isAlternating rest <;> simp [Bool.and_assoc]
  | .key _ .nil => by simp [ssaO, isAlternating]
  | .key _ (.key _ _) => by simp [ssaO, isAlternating]
  | .value _ _ => by simp [ssaO, isAlternating]
end

/-! ### the sentinel bound on the schema -/

mutual
/-- every struct type inside `dt` has fewer than `UNKNOWN_KEY = usize::MAX` fields -/
def narrowDT : DataType → Bool
  | .list f | .largeList f => narrowF f
  | .fixedSizeList f _ => narrowF f
  | .map f _ => narrowF f
  | .struct fs => decide (fs.toList.length < UNKNOWN_KEY) && narrowFs fs
  | .union ufs _ => narrowU ufs
  | _ => true
def narrowF : Field → Bool
  | .mk _ dt _ _ => narrowDT dt
def narrowFs : Fields → Bool
  | .nil => true
  | .cons f r => narrowF f && narrowFs r
def narrowU : UFields → Bool
  | .nil => true
  | .cons _ f r => narrowF f && narrowU r
end

theorem narrowFs_get : ∀ (sfs : Fields) (j : Nat) (f : Field), narrowFs sfs = true → sfs.toList[j]? = some f →
    narrowDT f.dataType = true
  | .nil, _, _, _, h => by simp [Fields.toList] at h
  | .cons (.mk _ _ _ _) r, 0, f, hn, h => by
    simp only [narrowFs, Bool.and_eq_true, narrowF] at hn
    simp [Fields.toList] at h; subst h; exact hn.1
  | .cons _ r, j + 1, f, hn, h => by
    simp only [narrowFs, Bool.and_eq_true] at hn
    exact narrowFs_get r j f hn.2 (by simpa [Fields.toList] using h)

theorem narrowU_get : ∀ (ufs : UFields) (i : Nat) (tid : Int) (nm : String) (dt : DataType) (n : Bool) (md : Metadata),
    narrowU ufs = true → ufs.toList[i]? = some (tid, .mk nm dt n md) → narrowDT dt = true
  | .nil, _, _, _, _, _, _, _, h => by simp [UFields.toList] at h
  | .cons _ (.mk _ _ _ _) r, 0, tid, nm, dt, n, md, hn, h => by
    simp only [narrowU, Bool.and_eq_true, narrowF] at hn
    simp [UFields.toList] at h; obtain ⟨_, _, rfl, _, _⟩ := h; exact hn.1
  | .cons _ _ r, i + 1, tid, nm, dt, n, md, hn, h => by
    simp only [narrowU, Bool.and_eq_true] at hn
    exact narrowU_get r i tid nm dt n md hn.2 (by simpa [UFields.toList] using h)

/-- the root schema: fewer than `usize::MAX` columns, and so at every struct level below -/
def narrowRoot (fields : List Field) : Bool := narrowDT (.struct (Fields.ofList fields))

theorem narrowFs_ofList : ∀ (fields : List Field), narrowFs (Fields.ofList fields) = fields.all narrowF
  | [] => rfl
  | f :: r => by simp [Fields.ofList, narrowFs, narrowFs_ofList r]

theorem narrowRoot_eq (fields : List Field) :
    narrowRoot fields = (decide (fields.length < UNKNOWN_KEY) && fields.all narrowF) := by
  simp [narrowRoot, narrowDT, narrowFs_ofList]

/-- the hypothesis of R3 / `C01_build_decode` on a batch of records: every raw key/value call stream alternates, and —
unless no record contains a raw stream at all — the schema meets the sentinel bound -/
def RawRows (fields : List Field) (rows : List SVal) : Prop :=
  (∀ x ∈ rows, structStreamsAlternate x = true) ∧ ((∀ x ∈ rows, noRaw x = true) ∨ narrowRoot fields = true)

theorem RawRows.of_noRaw {fields : List Field} {rows : List SVal} (h : ∀ x ∈ rows, noRaw x = true) :
    RawRows fields rows := ⟨fun x hx => noRaw_ssa x (h x hx), Or.inl h⟩

/-! ### a struct builder and a raw stream: what survives

`normOps ops` keeps exactly the (key, value) pairs in which the value directly follows its key: a value without a key
is dropped (`next = UNKNOWN_KEY` at that point: `serialize_map_value` does nothing), a key that is followed by another
key or by the end designates a field that is then never written (it stays unseen; `end` gives it a null if nullable). -/
def normOps : SMapOps → SMapOps
  | .nil => .nil
  | .key k (.value x rest) => .key k (.value x (normOps rest))
  | .key _ rest => normOps rest
  | .value _ rest => normOps rest

theorem normOps_alternating : ∀ (ops : SMapOps), isAlternating (normOps ops) = true
  | .nil => rfl
  | .key _ (.value _ rest) => by simpa [normOps, isAlternating] using normOps_alternating rest
  | .key _ .nil => by simp [normOps, isAlternating]
  | .key _ (.key k r) => by simpa [normOps] using normOps_alternating (.key k r)
  | .value _ rest => by simpa [normOps] using normOps_alternating rest

theorem normOps_id : ∀ (ops : SMapOps), isAlternating ops = true → normOps ops = ops
  | .nil, _ => rfl
  | .key _ (.value _ rest), h => by
    simp only [isAlternating] at h
    simp [normOps, normOps_id rest h]
  | .key _ .nil, h => by simp [isAlternating] at h
  | .key _ (.key _ _), h => by simp [isAlternating] at h
  | .value _ _, h => by simp [isAlternating] at h

end SaModel.Build
