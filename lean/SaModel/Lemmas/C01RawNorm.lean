import SaModel.Lemmas.C01R2
/-
What a STRUCT builder does with an arbitrary `serialize_key` / `serialize_value` call stream (it accepts every one):
exactly what it does with `normOps ops` — the pairs in which the value directly follows its key.  A value without a key
is dropped, a key without a value leaves its field unseen.  (Up to `StructBuilder::next`, the lookup hint, which
`start` resets.)
-/
namespace SaModel.Build
open SaModel SaModel.Spec

theorem pushStructOps_key_next (ext : Ext) (s : SS) (n : Nat) (k : SVal) (rest : SMapOps) :
    pushStructOps ext { s with next := n } (.key k rest) = pushStructOps ext s (.key k rest) := by
  rw [pushStructOps, pushStructOps]

theorem pushStructOps_norm (ext : Ext) : ∀ (ops : SMapOps) (s s' : SS),
    pushStructOps ext { s with next := UNKNOWN_KEY } ops = .ok s' →
    ∃ n, pushStructOps ext { s with next := UNKNOWN_KEY } (normOps ops) = .ok { s' with next := n }
  | .nil, s, s', h => by
    rw [pushStructOps] at h; cases h
    exact ⟨UNKNOWN_KEY, by simp [normOps, pushStructOps]⟩
  | .key k .nil, s, s', h => by
    rw [pushStructOps] at h
    obtain ⟨key, hk, h⟩ := (bind_ok _ _ _).1 h
    rw [pushStructOps] at h; cases h
    exact ⟨UNKNOWN_KEY, by simp [normOps, pushStructOps]⟩
  | .key k (.key k2 r), s, s', h => by
    rw [pushStructOps] at h
    obtain ⟨key, hk, h⟩ := (bind_ok _ _ _).1 h
    rw [pushStructOps_key_next ext { s with next := UNKNOWN_KEY }] at h
    simpa [normOps] using pushStructOps_norm ext (.key k2 r) s s' h
  | .key k (.value x rest), s, s', h => by
    rw [pushStructOps] at h
    obtain ⟨key, hk, h⟩ := (bind_ok _ _ _).1 h
    rw [pushStructOps] at h
    simp only [normOps]
    rw [pushStructOps]
    simp only [hk, bind, Except.bind]
    rw [pushStructOps]
    split at h
    · rename_i hc
      obtain ⟨s1, h1, h⟩ := (bind_ok _ _ _).1 h
      obtain ⟨n, ih⟩ := pushStructOps_norm ext rest s1 s' h
      refine ⟨n, ?_⟩
      rw [if_pos hc]
      simp only [bind, Except.bind, h1]
      exact ih
    · rename_i hc
      obtain ⟨n, ih⟩ := pushStructOps_norm ext rest s s' h
      refine ⟨n, ?_⟩
      rw [if_neg hc]
      exact ih
  | .value x rest, s, s', h => by
    rw [pushStructOps] at h
    simp only [bne_self_eq_false, Bool.false_eq_true, if_false] at h
    simpa [normOps] using pushStructOps_norm ext rest s s' h

end SaModel.Build
