import SaModel.Lemmas.C01Interp
/-
R2, struct family: the explicit row a record appends, and its agreement with `Spec.structOf` for any way of
collecting the candidate values of a field (by name, by position, by map key).
-/
namespace SaModel.Build
open SaModel SaModel.Spec
open SaModel.Lemmas.C03 (ViewSmall ViewSmallL)

theorem getD_set {α} (l : List α) (i j : Nat) (a d : α) (hi : i < l.length) :
    (l.set i a).getD j d = if i = j then a else l.getD j d := by
  simp only [List.getD_eq_getElem?_getD, List.getElem?_set]
  by_cases h : i = j
  · subst h; simp only [if_true, hi]; rfl
  · simp only [h, if_false]

theorem ExtL.unique : ∀ (fs0 fs : BL) (a1 a2 : List (List LVal)), ExtL fs0 fs a1 → ExtL fs0 fs a2 → a1 = a2
  | .nil, .nil, [], [], _, _ => rfl
  | .cons b0 m0 r0, .cons b m r, a :: as, a' :: as', h1, h2 => by
    simp only [ExtL] at h1 h2
    have := rows_unique h1.2.2.1 h2.2.2.1
    rw [this, ExtL.unique r0 r as as' h1.2.2.2 h2.2.2.2]
  | .nil, .nil, [], _ :: _, _, h => by simp [ExtL] at h
  | .nil, .nil, _ :: _, _, h, _ => by simp [ExtL] at h
  | .cons _ _ _, .cons _ _ _, [], _, h, _ => by simp [ExtL] at h
  | .cons _ _ _, .cons _ _ _, _ :: _, [], _, h => by simp [ExtL] at h
  | .nil, .cons _ _ _, _, _, h, _ => by simp [ExtL] at h
  | .cons _ _ _, .nil, _, _, h, _ => by simp [ExtL] at h

theorem Mid.unique {fs0 : BL} {s : SS} {a1 a2 : List (List LVal)} (h1 : Mid fs0 s a1) (h2 : Mid fs0 s a2) : a1 = a2 :=
  ExtL.unique _ _ _ _ h1.ext h2.ext

theorem Mid.adds_length {fs0 : BL} {s : SS} {adds : List (List LVal)} (h : Mid fs0 s adds) :
    adds.length = s.fields.length ∧ s.seen.length = s.fields.length ∧ s.fields.length = fs0.length := by
  have h1 := ExtL.length _ _ _ h.ext
  have h2 := Flags.length _ _ h.flags
  omega

/-- `element`: exactly child `idx` moves on, by the row its push appends -/
theorem SS.element_rows {fs0 : BL} {s s' : SS} {adds : List (List LVal)} {idx : Nat} {pc : B → R B}
    (hm : Mid fs0 s adds) (hpc : StepOK pc) (h : s.element idx pc = .ok s') :
    ∃ c m c' lv, s.fields.get? idx = some (c, m) ∧ s.seen[idx]? = some false ∧ pc c = .ok c' ∧ WFB c ∧ Safe c ∧
      dec c' = dec c ++ [lv] ∧ Mid fs0 s' (adds.set idx [lv]) ∧ adds.getD idx [] = [] ∧ s'.next = idx + 1 ∧
      idx < adds.length ∧ s'.fields = s.fields.set idx c' ∧ Same s' s := by
  unfold SS.element at h
  split at h
  · simp [panic] at h
  · simp [ctx_ok, fail] at h
  · rename_i hseen
    split at h
    · simp [panic] at h
    · rename_i c m hget
      obtain ⟨c', h1, h2⟩ := (bind_ok _ _ _).1 h
      cases h2
      have hwc := ExtL.get _ _ _ _ _ hm.ext hget
      have hsc := SafeL.get _ _ _ hm.safe hget
      obtain ⟨hc', hs', lv, hdec⟩ := hpc c c' hwc hsc h1
      have hun := Flags.unseen _ _ _ hm.flags hseen
      have hlt : idx < adds.length := by rw [hm.adds_length.1]; exact BL.get?_lt _ _ _ hget
      refine ⟨c, m, c', lv, hget, hseen, h1, hwc, hsc, hdec, ⟨?_, ?_, ?_, ?_, ?_⟩, hun, rfl, hlt, rfl, rfl, rfl, rfl⟩
      · have := ExtL.set _ _ _ _ c c' m [lv] hm.ext hget hc' hdec
        rwa [hun, List.nil_append] at this
      · have := Flags.set _ _ _ lv hm.flags hseen
        rwa [hun, List.nil_append] at this
      · simp only [BL.names_set]; exact hm.cache
      · exact SafeL.set _ _ _ hm.safe hs'
      · simp only [BL.names_set]; exact hm.nodup

/-- `end`: seen children keep their row, unseen (nullable) children receive a null -/
theorem endFields_rows : ∀ (fs0 fs : BL) (seen : List Bool) (adds : List (List LVal)) (fs' : BL),
    ExtL fs0 fs adds → Flags seen adds → SafeL fs → endFields fs seen = .ok fs' →
    ∃ adds', ExtL fs0 fs' adds' ∧ (∀ a ∈ adds', a.length = 1) ∧
      ∀ j, (seen[j]? = some true → adds'.getD j [] = adds.getD j []) ∧
        (seen[j]? = some false → adds'.getD j [] = [.null] ∧
          ∃ c m c', fs.get? j = some (c, m) ∧ m.nullable = true ∧ pushNone c = .ok c')
  | .nil, .nil, _, [], fs', _, _, _, h => by
    simp [endFields] at h; subst h
    refine ⟨[], by simp [ExtL], by simp, ?_⟩
    intro j
    cases ‹List Bool› <;> simp [Flags] at *
  | .cons b0 m0 r0, .cons b m r, [], a :: as, fs', _, hf, _, _ => by simp [Flags] at hf
  | .cons b0 m0 r0, .cons b m r, s :: ss, a :: as, fs', hext, hf, hsafe, h => by
    simp only [ExtL] at hext
    simp only [Flags] at hf
    simp only [SafeL] at hsafe
    simp only [endFields] at h
    split at h
    · rename_i hs
      obtain ⟨r', h1, h2⟩ := (bind_ok _ _ _).1 h
      cases h2
      obtain ⟨adds', he, hk, hrel⟩ := endFields_rows r0 r ss as r' hext.2.2.2 hf.2 hsafe.2 h1
      refine ⟨a :: adds', by simp only [ExtL]; exact ⟨hext.1, hext.2.1, hext.2.2.1, he⟩, ?_, ?_⟩
      · intro a' ha'
        rcases List.mem_cons.1 ha' with rfl | ha'
        · simpa [hs] using hf.1
        · exact hk a' ha'
      · intro j
        cases j with
        | zero => simp [hs]
        | succ j => simpa [BL.get?] using hrel j
    · rename_i hs
      split at h
      · simp [fail] at h
      · rename_i hnull
        obtain ⟨b', h0, h'⟩ := (bind_ok _ _ _).1 h
        obtain ⟨r', h1, h2⟩ := (bind_ok _ _ _).1 h'
        cases h2
        obtain ⟨adds', he, hk, hrel⟩ := endFields_rows r0 r ss as r' hext.2.2.2 hf.2 hsafe.2 h1
        obtain ⟨hb', hdec⟩ := pushNone_appends b b' hext.2.1 hsafe.1 h0
        have ha : a = [] := by simpa [hs] using hf.1
        subst ha
        refine ⟨[.null] :: adds', by simp only [ExtL]; exact ⟨hext.1, hb', by rw [hdec, hext.2.2.1]; simp, he⟩, ?_, ?_⟩
        · intro a' ha'
          rcases List.mem_cons.1 ha' with rfl | ha'
          · rfl
          · exact hk a' ha'
        · intro j
          cases j with
          | zero =>
            simp only [List.getElem?_cons_zero, List.getD_cons_zero]
            refine ⟨by intro h; simp at h; exact absurd h hs, fun _ => ⟨trivial, b, m, b', rfl, by simpa using hnull, h0⟩⟩
          | succ j => simpa [BL.get?] using hrel j
  | .nil, .cons _ _ _, _, _, _, h, _, _, _ => by simp [ExtL] at h
  | .cons _ _ _, .nil, _, _, _, h, _, _, _ => by simp [ExtL] at h
  | .nil, .nil, _, _ :: _, _, h, _, _, _ => by simp [ExtL] at h
  | .cons _ _ _, .cons _ _ _, _, [], _, h, _, _, _ => by simp [ExtL] at h

/-- the explicit row of a record -/
theorem record_rows {p len v fs cached next seen} {pf : SS → R SS} {b' : B}
    (hwf : WFB (.struct p len v fs cached next seen)) (hsafe : Safe (.struct p len v fs cached next seen))
    (hpf : FieldsOK pf)
    (h : (do
      let s ← SS.start ⟨p, len, v, fs, cached, next, seen⟩
      let s ← pf s
      let s ← s.finishRow
      pure s.toB : R B) = .ok b') :
    ∃ s1 s2 adds2 adds3, s1.next = 0 ∧ s1.fields = fs ∧ pf s1 = .ok s2 ∧
      Mid fs s1 (List.replicate fs.length []) ∧ Mid fs s2 adds2 ∧ adds3.length = fs.length ∧
      (∀ j, (s2.seen[j]? = some true → adds3.getD j [] = adds2.getD j []) ∧
        (s2.seen[j]? = some false → adds3.getD j [] = [.null] ∧
          ∃ c m c', s2.fields.get? j = some (c, m) ∧ m.nullable = true ∧ pushNone c = .ok c')) ∧
      dec b' = dec (.struct p len v fs cached next seen) ++ [rowAt (fs.names.zip adds3) 0] ∧
      (ViewSmall b' → ViewSmallL s2.fields) := by
  obtain ⟨s1, h1, h⟩ := (bind_ok _ _ _).1 h
  obtain ⟨s2, h2, h⟩ := (bind_ok _ _ _).1 h
  obtain ⟨s3, h3, h⟩ := (bind_ok _ _ _).1 h
  cases h
  have hw' := hwf
  simp only [WFB] at hw'
  obtain ⟨hv, hwfl, hseen, hnd, hcache⟩ := hw'
  simp only [Safe] at hsafe
  simp only [SS.start] at h1
  obtain ⟨v', hv1, h1⟩ := (bind_ok _ _ _).1 h1
  cases h1
  obtain ⟨rfl, _⟩ := setValidity_ok hv hv1
  have hmid : Mid fs ⟨p, len + 1, v.map (· ++ [true]), fs, cached, 0, List.replicate seen.length false⟩
      (List.replicate fs.length []) :=
    ⟨ExtL.refl fs len hwfl, by rw [hseen]; exact Flags.fresh _, hcache, hsafe.1, hnd⟩
  obtain ⟨⟨adds2, hm2⟩, hsame⟩ := hpf _ _ _ _ hmid h2
  simp only [SS.finishRow] at h3
  obtain ⟨fs3, h3', h4⟩ := (bind_ok _ _ _).1 h3
  cases h4
  obtain ⟨adds3, hext3, hk3, hrel⟩ := endFields_rows _ _ _ _ _ hm2.ext hm2.flags hm2.safe h3'
  obtain ⟨hp, hl, hvv⟩ := hsame
  simp only at hp hl hvv
  have hnames : fs3.names = fs.names := ExtL.names _ _ _ hext3
  have := struct_append (cached' := s2.cached) (next' := s2.next) (seen' := s2.seen) hwf adds3 [true] hext3
    (by simpa using hk3)
    (by rw [hnames, ← ExtL.names _ _ _ hm2.ext]; exact hm2.cache)
    (by rw [(ExtL.length _ _ _ hext3).1, ← Flags.length _ _ hm2.flags, (ExtL.length _ _ _ hm2.ext).2])
  simp only [List.length_singleton, List.range_one, List.map_cons, List.map_nil, maskNull_const_one, rowOf_true] at this
  refine ⟨_, s2, adds2, adds3, rfl, rfl, h2, hmid, hm2, (ExtL.length _ _ _ hext3).2, hrel, ?_, ?_⟩
  · simp only [SS.toB, hp, hl, hvv]
    exact this.2
  · simp only [SS.toB, ViewSmall]
    exact endFields_small _ _ _ h3'

/-! ### schema ↔ children -/

theorem ShapeL.get : ∀ (fs : BL) (sfs : Fields) (j : Nat) (c : B) (m : FieldMeta), ShapeL fs sfs →
    fs.get? j = some (c, m) →
    ∃ f, sfs.toList[j]? = some f ∧ Shape c f.dataType f.nullable f.metadata ∧ m.name = f.name ∧ m.nullable = f.nullable
  | .nil, .nil, _, _, _, _, h => by simp [BL.get?] at h
  | .cons b m r, .cons (.mk fname fdt fn fmd) rest, 0, c, m', hs, h => by
    simp only [ShapeL] at hs
    simp [BL.get?] at h; obtain ⟨rfl, rfl⟩ := h
    exact ⟨.mk fname fdt fn fmd, by simp [Fields.toList], hs.2.2.1, hs.1, hs.2.1⟩
  | .cons b m r, .cons (.mk fname fdt fn fmd) rest, j + 1, c, m', hs, h => by
    simp only [ShapeL] at hs
    simp only [BL.get?] at h
    simpa [Fields.toList] using ShapeL.get r rest j c m' hs.2.2.2 h
  | .nil, .cons _ _, _, _, _, hs, _ => by simp [ShapeL] at hs
  | .cons _ _ _, .nil, _, _, _, hs, _ => by simp [ShapeL] at hs

theorem ShapeL.names : ∀ (fs : BL) (sfs : Fields), ShapeL fs sfs → fs.names = sfs.toList.map Field.name
  | .nil, .nil, _ => rfl
  | .cons b m r, .cons (.mk fname fdt fn fmd) rest, hs => by
    simp only [ShapeL] at hs
    simp [BL.names, Fields.toList, Field.name, hs.1, ShapeL.names r rest hs.2.2.2]
  | .nil, .cons _ _, hs => by simp [ShapeL] at hs
  | .cons _ _ _, .nil, hs => by simp [ShapeL] at hs

theorem ShapeL.length {fs : BL} {sfs : Fields} (h : ShapeL fs sfs) : sfs.toList.length = fs.length := by
  have := congrArg List.length (ShapeL.names fs sfs h)
  simp [BL.names_length] at this
  omega

/-! ### assembling `structOf` -/

theorem mapM_fields_ok (collect : Field → R (List LVal)) : ∀ (fields : List Field) (adds3 : List (List LVal)),
    adds3.length = fields.length →
    (∀ j f, fields[j]? = some f → ∃ found, collect f = .ok found ∧
      pickOne f.name f.nullable f.dataType f.metadata found = .ok ((adds3.getD j []).getD 0 .null)) →
    fields.mapM (fun f => do
      let found ← collect f
      let v ← pickOne f.name f.nullable f.dataType f.metadata found
      pure (f.name, v)) = .ok (((fields.map Field.name).zip adds3).map fun c => (c.1, c.2.getD 0 LVal.null))
  | [], [], _, _ => rfl
  | f :: rest, a :: as, hl, h => by
    obtain ⟨found, h1, h2⟩ := h 0 f rfl
    have ih := mapM_fields_ok collect rest as (by simpa using hl) (fun j f' hj => by simpa using h (j + 1) f' (by simpa using hj))
    rw [List.mapM_cons, h1]
    simp only [bind, Except.bind]
    simp only [List.getD_cons_zero] at h2
    rw [h2]
    simp only [pure, Except.pure, bind, Except.bind] at ih ⊢
    rw [ih]
    rfl
  | [], _ :: _, hl, _ => by simp at hl
  | _ :: _, [], hl, _ => by simp at hl

theorem structOf_ok (collect : Field → R (List LVal)) (fields : List Field) (names : List String)
    (adds3 : List (List LVal)) (hn : names = fields.map Field.name) (hl : adds3.length = fields.length)
    (h : ∀ j f, fields[j]? = some f → ∃ found, collect f = .ok found ∧
      pickOne f.name f.nullable f.dataType f.metadata found = .ok ((adds3.getD j []).getD 0 .null)) :
    structOf fields collect = .ok (rowAt (names.zip adds3) 0) := by
  unfold structOf
  rw [mapM_fields_ok collect fields adds3 hl h, hn]
  rfl

/-- **A record row is the specified struct value**, for any way `collect` of gathering the candidates of a field
that the field loop `pf` implements. -/
theorem struct_interp {p len v fs cached next seen} {pf : SS → R SS} {b' : B} {sfs : Fields} {lv : LVal}
    (collect : Field → R (List LVal))
    (hwf : WFB (.struct p len v fs cached next seen)) (hsafe : Safe (.struct p len v fs cached next seen))
    (hshape : ShapeL fs sfs) (hpf : FieldsOK pf) (hskel : ∀ s1 s2, pf s1 = .ok s2 → SSkel s2 s1)
    (hcol : ∀ s1 s2 adds2, s1.next = 0 → s1.fields = fs → Mid fs s1 (List.replicate fs.length []) → Mid fs s2 adds2 →
      pf s1 = .ok s2 → ViewSmallL s2.fields →
      ∀ j f, sfs.toList[j]? = some f → ∃ found, collect f = .ok found ∧ adds2.getD j [] = found)
    (h : (do
      let s ← SS.start ⟨p, len, v, fs, cached, next, seen⟩
      let s ← pf s
      let s ← s.finishRow
      pure s.toB : R B) = .ok b')
    (hd : dec b' = dec (.struct p len v fs cached next seen) ++ [lv]) (hsm : ViewSmall b') :
    structOf sfs.toList collect = .ok lv := by
  obtain ⟨s1, s2, adds2, adds3, hn0, hf1, hp, hm1, hm2, hl3, hrel, hrow, hsm2⟩ := record_rows hwf hsafe hpf h
  have := row_unique hd hrow
  subst this
  have hshape2 : ShapeL s2.fields sfs := by
    have := (hskel s1 s2 hp).2.2.1
    rw [hf1] at this
    exact ShapeL.of_takeRest this hshape
  refine structOf_ok collect sfs.toList fs.names adds3 (ShapeL.names fs sfs hshape) (by rw [hl3, hshape.length]) ?_
  intro j f hj
  obtain ⟨found, hc, ha2⟩ := hcol s1 s2 adds2 hn0 hf1 hm1 hm2 hp (hsm2 hsm) j f hj
  refine ⟨found, hc, ?_⟩
  have hjlt : j < s2.seen.length := by
    have := hm2.adds_length
    have hj' : j < sfs.toList.length := by
      rcases Nat.lt_or_ge j sfs.toList.length with h | h
      · exact h
      · rw [List.getElem?_eq_none_iff.mpr h] at hj; cases hj
    rw [hshape.length] at hj'
    omega
  have hflag := flags_at _ _ hm2.flags j hjlt
  cases hs : s2.seen[j]'hjlt with
  | true =>
    have hs' : s2.seen[j]? = some true := by rw [List.getElem?_eq_getElem hjlt, hs]
    rw [(hrel j).1 hs', ha2]
    rw [hs] at hflag
    simp only [if_true] at hflag
    rw [ha2] at hflag
    match found, hflag with
    | [a], _ => simp [pickOne]
  | false =>
    have hs' : s2.seen[j]? = some false := by rw [List.getElem?_eq_getElem hjlt, hs]
    obtain ⟨h3, c, m, c', hget, hnl, hpn⟩ := (hrel j).2 hs'
    rw [h3]
    rw [hs] at hflag
    simp only [Bool.false_eq_true, if_false] at hflag
    rw [ha2] at hflag
    have hfound : found = [] := List.eq_nil_of_length_eq_zero hflag
    subst hfound
    obtain ⟨f', hj', hsh, _, hnl'⟩ := ShapeL.get _ _ _ _ _ hshape2 hget
    rw [hj] at hj'; cases hj'
    have hfn : f.nullable = true := by rw [← hnl']; exact hnl
    simp only [pickOne, hfn, Bool.not_true, Bool.false_eq_true, if_false, List.getD_cons_zero]
    have := pushNone_interp c c' _ _ _ hsh hpn
    rwa [hfn] at this
where
  flags_at : ∀ (seen : List Bool) (adds : List (List LVal)), Flags seen adds → ∀ (j : Nat) (h : j < seen.length),
      (adds.getD j []).length = if seen[j] then 1 else 0
    | [], [], _, _, h => by simp at h
    | s :: ss, a :: as, hf, 0, _ => by simp only [Flags] at hf; simpa using hf.1
    | s :: ss, a :: as, hf, j + 1, h => by
      simp only [Flags] at hf
      simpa using flags_at ss as hf.2 j (by simpa using h)
    | [], _ :: _, hf, _, _ => by simp [Flags] at hf
    | _ :: _, [], hf, _, _ => by simp [Flags] at hf

end SaModel.Build
