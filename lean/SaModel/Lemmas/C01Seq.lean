import SaModel.Lemmas.C01Raw
/-
R2 for the non-recursive combinators: sequences / tuples into list, fixed-size list, binary, fixed-size binary and
struct builders (`seqLike_interp`), union rows, map rows.  The recursive parts are hypotheses.
-/
namespace SaModel.Build
open SaModel SaModel.Spec
open SaModel.Lemmas.C03 (ViewSmall ViewSmallL)

/-- the specification of a sequence-like value (`seq`, `tuple`, `tuple_struct`) at a field; `pos`: the value is a
positional record presentation (tuple / tuple struct — a plain sequence is not) -/
def seqSpec (ext : Ext) (pos : Bool) (dt : DataType) (md : Metadata) (xs : SVals) : R LVal :=
  if isUnknownVariant dt md then fail "unknown variant" else
  match dt with
  | .list (.mk _ cdt cn cmd) | .largeList (.mk _ cdt cn cmd) => do
    pure (.list (LVals.ofList (← interpAll ext cdt cn cmd xs)))
  | .fixedSizeList (.mk _ cdt cn cmd) n => do
    let vs ← interpAll ext cdt cn cmd xs
    if (vs.length : Int) = n then pure (.list (LVals.ofList vs)) else fail "wrong element count"
  | .binary | .largeBinary | .binaryView => do pure (.bin (← specBytes xs))
  | .fixedSizeBinary n => do
    let b ← specBytes xs
    if (b.length : Int) = n then pure (.bin b) else fail "wrong length"
  | .struct fs =>
    if pos then structOf fs.toList (fun f => interpNth ext f.dataType f.nullable f.metadata (indexOfName (fs.toList.map Field.name) f.name |>.getD 0) xs)
    else fail "a sequence is not a presentation of a record"
  | _ => fail "not a sequence type"

theorem interpDT_seq (ext : Ext) (dt n md) (xs : SVals) : interpDT ext dt n md (.seq xs) = seqSpec ext false dt md xs := by
  cases dt <;> (try (rename_i f; cases f)) <;> (try (rename_i f _; cases f)) <;> simp only [interpDT, seqSpec, if_true, Bool.false_eq_true, if_false]
theorem interpDT_tuple (ext : Ext) (dt n md) (xs : SVals) : interpDT ext dt n md (.tuple xs) = seqSpec ext true dt md xs := by
  cases dt <;> (try (rename_i f; cases f)) <;> (try (rename_i f _; cases f)) <;> simp only [interpDT, seqSpec, if_true, Bool.false_eq_true, if_false]
theorem interpDT_tupleStruct (ext : Ext) (dt n md) (nm : String) (xs : SVals) :
    interpDT ext dt n md (.tupleStruct nm xs) = seqSpec ext true dt md xs := by
  cases dt <;> (try (rename_i f; cases f)) <;> (try (rename_i f _; cases f)) <;> simp only [interpDT, seqSpec, if_true, Bool.false_eq_true, if_false]

/-- positional field loop: what the induction hypothesis for `pushTupleElems` provides -/
def TupleSpec (ext : Ext) (N : Prop) (xs : SVals) (pt : SS → R SS) : Prop :=
  ∀ fs0 s s' adds adds' sfs, (N → narrowFs sfs = true) → Mid fs0 s adds → Mid fs0 s' adds' → ShapeL s.fields sfs → s.next = 0 → pt s = .ok s' →
    ViewSmallL s'.fields → ∀ j f, sfs.toList[j]? = some f →
      ∃ found, interpNth ext f.dataType f.nullable f.metadata j xs = .ok found ∧ adds'.getD j [] = adds.getD j [] ++ found

def ElemsSpec (ext : Ext) (N : Prop) (xs : SVals) (pe : Bool → B → List Int → R (B × List Int)) : Prop :=
  ∀ large el offs r cdt cn cmd ls, (N → narrowDT cdt = true) → WFB el → Safe el → Shape el cdt cn cmd → pe large el offs = .ok r →
    dec r.1 = dec el ++ ls → ViewSmall r.1 → interpAll ext cdt cn cmd xs = .ok ls

def CountSpec (ext : Ext) (N : Prop) (xs : SVals) (pc : B → Nat → R (B × Nat)) : Prop :=
  ∀ el c r cdt cn cmd ls, (N → narrowDT cdt = true) → WFB el → Safe el → Shape el cdt cn cmd → pc el c = .ok r →
    dec r.1 = dec el ++ ls → ViewSmall r.1 → interpAll ext cdt cn cmd xs = .ok ls

theorem getD_replicate_nil (n j : Nat) : (List.replicate n ([] : List LVal)).getD j [] = [] := by
  simp only [List.getD_eq_getElem?_getD, List.getElem?_replicate]
  split <;> rfl

theorem seqLike_interp {ext : Ext} {N : Prop} {xs : SVals} {pe : Bool → B → List Int → R (B × List Int)}
    {pc : B → Nat → R (B × Nat)} {pt : SS → R SS}
    (hpe1 : ElemsOK pe) (hpc1 : CountOK pc) (hpt1 : FieldsOK pt) (hptskel : ∀ s1 s2, pt s1 = .ok s2 → SSkel s2 s1)
    (hpe : ElemsSpec ext N xs pe) (hpc : CountSpec ext N xs pc) (hpt : TupleSpec ext N xs pt)
    (b : B) (k : SeqKind) (b' : B) (dt : DataType) (n : Bool) (md : Metadata) (lv : LVal)
    (hnar : N → narrowDT dt = true) (hwf : WFB b) (hsafe : Safe b) (hshape : Shape b dt n md)
    (h : seqLikeWith pe pc pt (u8All xs) b k = .ok b') (hd : dec b' = dec b ++ [lv]) (hsm : ViewSmall b') :
    seqSpec ext (k != .seq) dt md xs = .ok lv := by
  cases b with
  | list p large fm v offs el =>
    simp only [seqLikeWith] at h
    obtain ⟨v', h1, h⟩ := (bind_ok _ _ _).1 h
    obtain ⟨o1, h2, h⟩ := (bind_ok _ _ _).1 h
    obtain ⟨⟨el', o2⟩, h3, h⟩ := (bind_ok _ _ _).1 h
    cases h
    have hw' := hwf
    simp only [WFB] at hw'
    simp only [Safe] at hsafe
    obtain ⟨rfl, _⟩ := setValidity_ok hw'.2.1 h1
    obtain ⟨l, hl, rfl⟩ := duplicateLast_ok h2
    rw [hw'.1.2.1] at hl; cases hl
    obtain ⟨hel, ls, hdec, ho⟩ := hpe1 _ _ _ _ _ hw'.2.2 hsafe h3
    simp only at hel hdec ho
    subst ho
    have := list_step hwf true ls hel hdec
    rw [rowOf_true] at this
    have hlv := row_unique hd this.2
    subst hlv
    simp only [Shape] at hshape
    obtain ⟨_, cname, cdt, cn, cmd, rfl, hsel⟩ := hshape
    have hi := hpe _ _ _ _ _ _ _ _ (fun hn => by have hnar := hnar hn; cases large <;> simpa [narrowDT, narrowF] using hnar) hw'.2.2 hsafe hsel h3 hdec
      (by simpa only [ViewSmall] using hsm)
    cases large <;> simp [seqSpec, isUnknownVariant, hi] <;> rfl
  | fixedSizeList p fm kk len v cur el =>
    simp only [seqLikeWith] at h
    obtain ⟨v', h1, h⟩ := (bind_ok _ _ _).1 h
    obtain ⟨⟨el', cnt⟩, h3, h⟩ := (bind_ok _ _ _).1 h
    simp only at h
    split at h
    · simp [fail] at h
    · rename_i hcnt
      cases h
      have hw' := hwf
      simp only [WFB] at hw'
      simp only [Safe] at hsafe
      obtain ⟨rfl, _⟩ := setValidity_ok hw'.1 h1
      obtain ⟨hel, ls, hdec, hc⟩ := hpc1 _ _ _ hw'.2.2 hsafe.1 h3
      simp only at hel hdec hc
      have hn : ls.length = kk := by simp at hcnt; omega
      have := fsl_step hwf true ls cnt hel hdec hn
      rw [rowOf_true] at this
      have hlv := row_unique hd this.2
      subst hlv
      simp only [Shape] at hshape
      obtain ⟨_, cname, cdt, cn, cmd, rfl, hsel⟩ := hshape
      have hi := hpc _ _ _ _ _ _ _ (fun hn => by simpa [narrowDT, narrowF] using hnar hn) hw'.2.2 hsafe.1 hsel h3 hdec
        (by simpa only [ViewSmall] using hsm)
      simp [seqSpec, isUnknownVariant, hi, hn, bind, Except.bind, pure, Except.pure]
  | bytes p ty v offs data =>
    simp only [seqLikeWith] at h
    split at h
    · rename_i hbin
      obtain ⟨v', h1, h⟩ := (bind_ok _ _ _).1 h
      obtain ⟨o1, h2, h⟩ := (bind_ok _ _ _).1 h
      obtain ⟨bs, hbs, h⟩ := (bind_ok _ _ _).1 h
      obtain ⟨o2, h4, h⟩ := (bind_ok _ _ _).1 h
      cases h
      have hv : VLen v (offs.length - 1) := by simp only [WFB] at hwf; exact hwf.2
      obtain ⟨rfl, _⟩ := setValidity_ok hv h1
      obtain ⟨l, hl, rfl⟩ := duplicateLast_ok h2
      rw [bytes_last hwf] at hl; cases hl
      have := iter_incrementLast _ h4
      subst this
      have := bytes_step hwf true bs
      rw [rowOf_true] at this
      have hlv := row_unique hd this.2
      subst hlv
      simp only [Shape] at hshape
      obtain ⟨rfl, _⟩ := hshape
      cases ty <;> simp [isBinaryTy] at hbin <;> simp [seqSpec, isUnknownVariant, bytesDT, (specBytes_ok_iff _ _).2 hbs, bytesVal, isUtf8Ty, Functor.map, Except.map]
    · simp [notSupported, fail] at h
  | bytesView p ty v views buf =>
    simp only [seqLikeWith] at h
    split at h
    · rename_i hbin
      obtain ⟨v', h1, h⟩ := (bind_ok _ _ _).1 h
      obtain ⟨bs, hbs, h⟩ := (bind_ok _ _ _).1 h
      have hv : VLen v views.length := by simp only [WFB] at hwf; exact hwf.1
      obtain ⟨rfl, _⟩ := setValidity_ok hv h1
      obtain ⟨vp, hp, h⟩ := (bind_ok _ _ _).1 h
      obtain ⟨d, extra, rfl, hok, hex⟩ := viewSeq_exact hp
      cases h
      have hlv := row_unique hd (view_push_row hwf bs hok hex hsm)
      subst hlv
      simp only [Shape] at hshape
      obtain ⟨rfl, _⟩ := hshape
      cases ty
      · exact absurd hbin (by decide)
      · have e : (ViewTy.binaryView == ViewTy.utf8View) = false := by decide
        simp [seqSpec, isUnknownVariant, viewDT, (specBytes_ok_iff _ _).2 hbs, bytesVal, e, Functor.map, Except.map]
    · simp [notSupported, fail] at h
  | fixedSizeBinary p kk len v buf cur =>
    simp only [seqLikeWith] at h
    obtain ⟨v', h1, h⟩ := (bind_ok _ _ _).1 h
    obtain ⟨bs, hbs, h⟩ := (bind_ok _ _ _).1 h
    split at h
    · simp [fail] at h
    · rename_i hn
      cases h
      have hv : VLen v len := by simp only [WFB] at hwf; exact hwf.1
      obtain ⟨rfl, _⟩ := setValidity_ok hv h1
      have hn' : bs.length = kk := by simpa using hn
      have := fsb_step hwf true bs hn' bs.length
      rw [rowOf_true] at this
      have hlv := row_unique hd this.2
      subst hlv
      simp only [Shape] at hshape
      obtain ⟨rfl, _⟩ := hshape
      simp [seqSpec, isUnknownVariant, (specBytes_ok_iff _ _).2 hbs, hn', bind, Except.bind, pure, Except.pure]
  | struct p len v fs cached next seen =>
    have hw' := hwf
    simp only [WFB] at hw'
    simp only [Shape] at hshape
    obtain ⟨_, sfs, rfl, hsl⟩ := hshape
    have hrec : ∀ (hh : (do
        let s ← SS.start ⟨p, len, v, fs, cached, next, seen⟩
        let s ← pt s
        let s ← s.finishRow
        pure s.toB : R B) = .ok b'), seqSpec ext true (.struct sfs) md xs = .ok lv := by
      intro hh
      simp only [seqSpec, isUnknownVariant, Bool.false_eq_true, if_false, if_true]
      refine struct_interp _ hwf hsafe hsl hpt1 hptskel ?_ hh hd hsm
      intro s1 s2 adds2 hn0 hf1 hm1 hm2 hp hsm2 j f hj
      obtain ⟨found, hf, ha⟩ := hpt fs s1 s2 _ adds2 sfs (fun hn => by have hnar := hnar hn; simp only [narrowDT, Bool.and_eq_true] at hnar; exact hnar.2)
        hm1 hm2 (by rw [hf1]; exact hsl) hn0 hp hsm2 j f hj
      rw [getD_replicate_nil, List.nil_append] at ha
      refine ⟨found, ?_, ha⟩
      have hnames : (sfs.toList.map Field.name)[j]? = some f.name := by simp [hj]
      have hnd : (sfs.toList.map Field.name).Nodup := by rw [← ShapeL.names fs sfs hsl]; exact hw'.2.2.2.1
      rw [SaModel.Props.C11Front.indexOfName_of_get _ hnd f.name j hnames]
      exact hf
    cases k with
    | seq => simp [seqLikeWith, notSupported, fail] at h
    | tuple => simp only [seqLikeWith] at h; exact hrec h
    | tupleStruct => simp only [seqLikeWith] at h; exact hrec h
  | unknownVariant p => simp [seqLikeWith, fail] at h
  | null p len => simp [seqLikeWith, notSupported, fail] at h
  | leaf p kind v vals => simp [seqLikeWith, notSupported, fail] at h
  | map p mm v offs ks vs => simp [seqLikeWith, notSupported, fail] at h
  | dictionary p idx vals index => simp [seqLikeWith, notSupported, fail] at h
  | union p fs types offs cur => simp [seqLikeWith, notSupported, fail] at h

/-! ### union rows -/

theorem ShapeU.get : ∀ (fs : BL) (ufs : UFields) (k i : Nat) (c : B) (m : FieldMeta), ShapeU fs ufs k →
    fs.get? i = some (c, m) →
    ∃ fname fdt fn fmd, ufs.toList[i]? = some (((k + i : Nat) : Int), .mk fname fdt fn fmd) ∧ Shape c fdt fn fmd
  | .nil, .nil, _, _, _, _, _, h => by simp [BL.get?] at h
  | .cons b m r, .cons tid (.mk fname fdt fn fmd) rest, k, 0, c, m', hs, h => by
    simp only [ShapeU] at hs
    simp [BL.get?] at h; obtain ⟨rfl, rfl⟩ := h
    exact ⟨fname, fdt, fn, fmd, by simp [UFields.toList, hs.1], hs.2.1⟩
  | .cons b m r, .cons tid (.mk fname fdt fn fmd) rest, k, i + 1, c, m', hs, h => by
    simp only [ShapeU] at hs
    simp only [BL.get?] at h
    obtain ⟨a1, a2, a3, a4, h1, h2⟩ := ShapeU.get r rest (k + 1) i c m' hs.2.2 h
    refine ⟨a1, a2, a3, a4, ?_, h2⟩
    have e : k + 1 + i = k + (i + 1) := by omega
    simpa [UFields.toList, e] using h1
  | .nil, .cons _ _ _, _, _, _, _, hs, _ => by simp [ShapeU] at hs
  | .cons _ _ _, .nil, _, _, _, _, hs, _ => by simp [ShapeU] at hs

/-- the explicit row of a union push -/
theorem union_row_rows {p fs types offs cur} {i : Nat} {pc : B → R B} {b' : B}
    (hwf : WFB (.union p fs types offs cur)) (hsafe : Safe (.union p fs types offs cur)) (hpc : StepOK pc)
    (h : (do
      let (c, types', offs', cur') ← serializeVariant fs types offs cur i
      let c' ← pc c
      pure (.union p (fs.set i c') types' offs' cur') : R B) = .ok b') :
    ∃ c m c' lvc, fs.get? i = some (c, m) ∧ WFB c ∧ Safe c ∧ pc c = .ok c' ∧ dec c' = dec c ++ [lvc] ∧
      dec b' = dec (.union p fs types offs cur) ++ [.union (i : Int) lvc] ∧ (ViewSmall b' → ViewSmall c') := by
  obtain ⟨⟨c, t', o', cur'⟩, h1, h⟩ := (bind_ok _ _ _).1 h
  obtain ⟨c', h2, h⟩ := (bind_ok _ _ _).1 h
  cases h
  obtain ⟨m, co, hget, hco, _, ht, ho, hcur⟩ := serializeVariant_ok h1
  simp only at hget hco ht ho hcur
  subst ht ho hcur
  have hw' := hwf
  simp only [WFB] at hw'
  simp only [Safe] at hsafe
  obtain ⟨hco', hc⟩ := WFU_get fs cur i _ hw'.2.2.1 hget
  simp only at hco' hc
  rw [hco] at hco'; cases hco'
  have hsc := SafeL.get _ _ _ hsafe hget
  obtain ⟨hc', _, lv, hdec⟩ := hpc c c' hc hsc h2
  have := union_append hwf i c c' m hget [lv] hc' hdec
  simp only [List.length_singleton, List.replicate_one, List.range_one, List.map_cons, List.map_nil,
    Int.natCast_zero, Int.add_zero, Int.natCast_one] at this
  refine ⟨c, m, c', lv, hget, hc, hsc, h2, hdec, this.2, ?_⟩
  simp only [ViewSmall]
  exact ViewSmallL_set_get _ _ c c' m hget

/-! ### map rows -/

theorem map_row_rows {p mm v offs ks vs} {pm : List Int → B → B → R (List Int × B × B)} {b' : B}
    (hwf : WFB (.map p mm v offs ks vs)) (hsafe : Safe (.map p mm v offs ks vs)) (hpm : MapOK pm)
    (h : (do
      let v' ← setValidity v (offs.length - 1) true
      let offs' ← duplicateLast offs
      let (offs'', ks', vs') ← pm offs' ks vs
      pure (.map p mm v' offs'' ks' vs') : R B) = .ok b') :
    ∃ offs' r lk lw, pm offs' ks vs = .ok r ∧ dec r.2.1 = dec ks ++ lk ∧ dec r.2.2 = dec vs ++ lw ∧
      dec b' = dec (.map p mm v offs ks vs) ++ [.map (LEntries.ofList (lk.zip lw))] ∧
      (ViewSmall b' → ViewSmall r.2.1 ∧ ViewSmall r.2.2) := by
  obtain ⟨v', h1, h⟩ := (bind_ok _ _ _).1 h
  obtain ⟨o1, h2, h⟩ := (bind_ok _ _ _).1 h
  obtain ⟨⟨o2, ks', vs'⟩, h3, h⟩ := (bind_ok _ _ _).1 h
  cases h
  have hw' := hwf
  simp only [WFB] at hw'
  simp only [Safe] at hsafe
  obtain ⟨rfl, _⟩ := setValidity_ok hw'.2.2.1 h1
  obtain ⟨l, hl, rfl⟩ := duplicateLast_ok h2
  rw [hw'.1.2.1] at hl; cases hl
  obtain ⟨hks, hvs, lk, lw, hlen, hdk, hdv, ho⟩ := hpm _ _ _ _ _ hw'.2.2.2.1 hw'.2.2.2.2 hsafe.1 hsafe.2 h3
  simp only at hks hvs hdk hdv ho
  subst ho
  have := map_step hwf true lk lw hks hvs hdk hdv hlen
  rw [rowOf_true] at this
  exact ⟨_, _, lk, lw, h3, hdk, hdv, this.2, by simp only [ViewSmall]; exact id⟩

end SaModel.Build
