import SaModel.Lemmas.C01New
import SaModel.Lemmas.C01LeafBridge
/-
`Shape b dt nullable md`: builder `b` is the builder of a field with data type `dt`, nullability `nullable`
and metadata `md` (what `build_builder` establishes; unchanged by every push because it only looks at the part of
the state that survives `take`).  R2 relates `push` to `Spec.interpDT`, which is indexed by the field.

Coverage of R2 (see notes/C01.md): all families; of the dictionaries those whose value builder is a Utf8 / LargeUtf8
builder or a builder that refuses `serialize_str` (`B.refusesStr`: every non-null push fails, the specification is
undefined).  `Shape` is `False` for a dictionary whose value builder accepts strings without being a Utf8 / LargeUtf8
builder (Utf8View, the parsing kinds, a nested dictionary — `dictValOpen` of Lemmas/C01NewShape.lean; R1 covers them).
-/
namespace SaModel.Build
open SaModel SaModel.Spec

/- `kindOf` (the leaf kind of a data type): Lemmas/C01LeafBridge.lean -/

def bytesDT : BytesTy → DataType
  | .utf8 => .utf8 | .largeUtf8 => .largeUtf8 | .binary => .binary | .largeBinary => .largeBinary

def viewDT : ViewTy → DataType
  | .utf8View => .utf8View | .binaryView => .binaryView

mutual
def Shape : B → DataType → Bool → Metadata → Prop
  | .null _ _, dt, _, md => dt = .null ∧ isUnknownVariant .null md = false
  | .unknownVariant _, dt, _, md => dt = .null ∧ isUnknownVariant .null md = true
  | .leaf _ k v _, dt, n, _ => kindOf dt = some k ∧ v.isSome = n
  | .bytes _ ty v _ _, dt, n, _ => dt = bytesDT ty ∧ v.isSome = n
  | .bytesView _ ty v _ _, dt, n, _ => dt = viewDT ty ∧ v.isSome = n
  | .fixedSizeBinary _ k _ v _ _, dt, n, _ => dt = .fixedSizeBinary (k : Int) ∧ v.isSome = n
  | .list _ large _ v _ el, dt, n, _ =>
    v.isSome = n ∧ ∃ cname cdt cn cmd,
      dt = (if large then .largeList (.mk cname cdt cn cmd) else .list (.mk cname cdt cn cmd)) ∧ Shape el cdt cn cmd
  | .fixedSizeList _ _ k _ v _ el, dt, n, _ =>
    v.isSome = n ∧ ∃ cname cdt cn cmd, dt = .fixedSizeList (.mk cname cdt cn cmd) (k : Int) ∧ Shape el cdt cn cmd
  | .map _ _ v _ ks vs, dt, n, _ =>
    v.isSome = n ∧ ∃ ename kn kdt knl kmd vn vdt vnl vmd rest en emd sorted,
      dt = .map (.mk ename (.struct (.cons (.mk kn kdt knl kmd) (.cons (.mk vn vdt vnl vmd) rest))) en emd) sorted ∧
      Shape ks kdt knl kmd ∧ Shape vs vdt vnl vmd
  | .struct _ _ v fs _ _ _, dt, n, _ => v.isSome = n ∧ ∃ sfs, dt = .struct sfs ∧ ShapeL fs sfs
  | .dictionary _ idx vals _, dt, n, _ =>
    -- the value builder is the builder of the (non-nullable, metadata-free) value field; R2 covers the string builders
    -- (Utf8 / LargeUtf8) and the builders that refuse strings
    (∃ kdt vdt, dt = .dictionary kdt vdt ∧ Shape vals vdt false []) ∧ idx.isIntLeaf = true ∧ idx.isNullable = n ∧
      (vals.isUtf8B = true ∨ vals.refusesStr = true)
  | .union _ fs _ _ _, dt, _, _ => ∃ ufs mode, dt = .union ufs mode ∧ ShapeU fs ufs 0
def ShapeL : BL → Fields → Prop
  | .nil, .nil => True
  | .cons b m r, .cons (.mk fname fdt fn fmd) rest =>
    m.name = fname ∧ m.nullable = fn ∧ Shape b fdt fn fmd ∧ ShapeL r rest
  | .nil, .cons _ _ => False
  | .cons _ _ _, .nil => False
def ShapeU : BL → UFields → Nat → Prop
  | .nil, .nil, _ => True
  | .cons b _ r, .cons tid (.mk _ fdt fn fmd) rest, idx => tid = (idx : Int) ∧ Shape b fdt fn fmd ∧ ShapeU r rest (idx + 1)
  | .nil, .cons _ _ _, _ => False
  | .cons _ _ _, .nil, _ => False
end

theorem isSome_map_nil (v : Validity) : (v.map fun _ => ([] : List Bool)).isSome = v.isSome := by cases v <;> rfl

mutual
theorem Shape_takeRest : ∀ (b : B) (dt : DataType) (n : Bool) (md : Metadata), Shape (takeRest b) dt n md ↔ Shape b dt n md
  | .null _ _, _, _, _ => by simp [takeRest, Shape]
  | .unknownVariant _, _, _, _ => by simp [takeRest, Shape]
  | .leaf _ _ v _, _, _, _ => by simp [takeRest, Shape, isSome_map_nil]
  | .bytes _ _ v _ _, _, _, _ => by simp [takeRest, Shape, isSome_map_nil]
  | .bytesView _ _ v _ _, _, _, _ => by simp [takeRest, Shape, isSome_map_nil]
  | .fixedSizeBinary _ _ _ v _ _, _, _, _ => by simp [takeRest, Shape, isSome_map_nil]
  | .list _ _ _ v _ el, dt, n, md => by
    simp only [takeRest, Shape, isSome_map_nil]
    constructor
    · rintro ⟨h1, a, b, c, d, h2, h3⟩; exact ⟨h1, a, b, c, d, h2, (Shape_takeRest el b c d).1 h3⟩
    · rintro ⟨h1, a, b, c, d, h2, h3⟩; exact ⟨h1, a, b, c, d, h2, (Shape_takeRest el b c d).2 h3⟩
  | .fixedSizeList _ _ _ _ v _ el, dt, n, md => by
    simp only [takeRest, Shape, isSome_map_nil]
    constructor
    · rintro ⟨h1, a, b, c, d, h2, h3⟩; exact ⟨h1, a, b, c, d, h2, (Shape_takeRest el b c d).1 h3⟩
    · rintro ⟨h1, a, b, c, d, h2, h3⟩; exact ⟨h1, a, b, c, d, h2, (Shape_takeRest el b c d).2 h3⟩
  | .map _ _ v _ ks vs, dt, n, md => by
    simp only [takeRest, Shape, isSome_map_nil]
    constructor
    · rintro ⟨h1, a1, a2, a3, a4, a5, a6, a7, a8, a9, a10, a11, a12, a13, h2, h3, h4⟩
      exact ⟨h1, a1, a2, a3, a4, a5, a6, a7, a8, a9, a10, a11, a12, a13, h2, (Shape_takeRest ks _ _ _).1 h3,
        (Shape_takeRest vs _ _ _).1 h4⟩
    · rintro ⟨h1, a1, a2, a3, a4, a5, a6, a7, a8, a9, a10, a11, a12, a13, h2, h3, h4⟩
      exact ⟨h1, a1, a2, a3, a4, a5, a6, a7, a8, a9, a10, a11, a12, a13, h2, (Shape_takeRest ks _ _ _).2 h3,
        (Shape_takeRest vs _ _ _).2 h4⟩
  | .struct _ _ v fs _ _ _, dt, n, md => by
    simp only [takeRest, Shape, isSome_map_nil]
    constructor
    · rintro ⟨h1, sfs, h2, h3⟩; exact ⟨h1, sfs, h2, (ShapeL_takeRest fs sfs).1 h3⟩
    · rintro ⟨h1, sfs, h2, h3⟩; exact ⟨h1, sfs, h2, (ShapeL_takeRest fs sfs).2 h3⟩
  | .dictionary _ idx vals _, dt, _, _ => by
    simp only [takeRest, Shape, isIntLeaf_takeRest, isUtf8B_takeRest, isNullable_takeRest, refusesStr_takeRest]
    constructor
    · rintro ⟨⟨k, v, h1, h2⟩, h3⟩; exact ⟨⟨k, v, h1, (Shape_takeRest vals v false []).1 h2⟩, h3⟩
    · rintro ⟨⟨k, v, h1, h2⟩, h3⟩; exact ⟨⟨k, v, h1, (Shape_takeRest vals v false []).2 h2⟩, h3⟩
  | .union _ fs _ _ _, dt, n, md => by
    simp only [takeRest, Shape]
    constructor
    · rintro ⟨ufs, mode, h2, h3⟩; exact ⟨ufs, mode, h2, (ShapeU_takeRest fs ufs 0).1 h3⟩
    · rintro ⟨ufs, mode, h2, h3⟩; exact ⟨ufs, mode, h2, (ShapeU_takeRest fs ufs 0).2 h3⟩
theorem ShapeL_takeRest : ∀ (fs : BL) (sfs : Fields), ShapeL (takeRestAll fs) sfs ↔ ShapeL fs sfs
  | .nil, .nil => by simp [takeRestAll, ShapeL]
  | .cons b m r, .cons (.mk fname fdt fn fmd) rest => by
    simp only [takeRestAll, ShapeL]
    rw [Shape_takeRest b, ShapeL_takeRest r rest]
  | .nil, .cons _ _ => by simp [takeRestAll, ShapeL]
  | .cons _ _ _, .nil => by simp [takeRestAll, ShapeL]
theorem ShapeU_takeRest : ∀ (fs : BL) (ufs : UFields) (idx : Nat), ShapeU (takeRestAll fs) ufs idx ↔ ShapeU fs ufs idx
  | .nil, .nil, _ => by simp [takeRestAll, ShapeU]
  | .cons b m r, .cons tid (.mk fname fdt fn fmd) rest, idx => by
    simp only [takeRestAll, ShapeU]
    rw [Shape_takeRest b, ShapeU_takeRest r rest]
  | .nil, .cons _ _ _, _ => by simp [takeRestAll, ShapeU]
  | .cons _ _ _, .nil, _ => by simp [takeRestAll, ShapeU]
end

theorem Shape.of_takeRest {b b' : B} {dt n md} (h : takeRest b' = takeRest b) (hs : Shape b dt n md) : Shape b' dt n md :=
  (Shape_takeRest b' dt n md).1 (h ▸ (Shape_takeRest b dt n md).2 hs)

theorem ShapeL.of_takeRest {fs fs' : BL} {sfs} (h : takeRestAll fs' = takeRestAll fs) (hs : ShapeL fs sfs) : ShapeL fs' sfs :=
  (ShapeL_takeRest fs' sfs).1 (h ▸ (ShapeL_takeRest fs sfs).2 hs)

/-! ### scalars and nulls against the specification -/

/-- the specification's leaf table at a column with a primitive-array builder: what `convLeaf` stores, read as a
logical value (`convLeaf_eq_specLeaf`, Lemmas/C01LeafBridge.lean), up to which error -/
theorem interpScalar_kind {ext : Ext} {dt : DataType} {k : LeafKind} (hk : kindOf dt = some k) (x : SVal) :
    interpScalar ext dt x = normErr (do
      let v ← convLeaf ext k x
      pure (leafVal k v)) := by
  rw [interpScalar_eq_old, interpScalarOld_kind hk]

theorem kindOf_not_unknown {dt : DataType} {k : LeafKind} (hk : kindOf dt = some k) (md : Metadata) :
    isUnknownVariant dt md = false := by
  cases dt <;> simp [kindOf] at hk <;> rfl

theorem interpNull_of_nullable {dt : DataType} {md : Metadata} (h1 : isUnknownVariant dt md = false)
    (h2 : ∀ ufs mode, dt ≠ .union ufs mode) : interpNull dt true md = .ok .null := by
  unfold interpNull
  rw [h1]
  cases dt <;> simp
  exact absurd rfl (h2 _ _)

/-! ### dictionaries: the value builder against the value type -/

/-- the data type of a value builder that refuses strings gives strings no meaning -/
theorem interpDictStr_refused (ext : Ext) {vals : B} {vdt : DataType} {n : Bool} {md : Metadata} (s : String)
    (hs : Shape vals vdt n md) (hr : vals.refusesStr = true) : ∃ e, interpDictStr ext vdt s = .error e := by
  cases vals with
  | null _ _ => simp only [Shape] at hs; obtain ⟨rfl, _⟩ := hs; exact ⟨_, rfl⟩
  | unknownVariant _ => simp only [Shape] at hs; obtain ⟨rfl, _⟩ := hs; exact ⟨_, rfl⟩
  | leaf p k v xs =>
    simp only [Shape] at hs
    obtain ⟨hk, _⟩ := hs
    cases vdt <;> simp [kindOf] at hk <;> subst hk <;> simp [B.refusesStr] at hr <;> exact ⟨_, rfl⟩
  | bytes p ty v offs data =>
    simp only [Shape] at hs
    obtain ⟨rfl, _⟩ := hs
    cases ty <;> simp [B.refusesStr, isUtf8Ty] at hr <;> exact ⟨_, rfl⟩
  | bytesView p ty v views buf =>
    simp only [Shape] at hs
    obtain ⟨rfl, _⟩ := hs
    cases ty with
    | utf8View => simp only [B.refusesStr] at hr; exact absurd hr (by decide)
    | binaryView => exact ⟨_, rfl⟩
  | fixedSizeBinary _ _ _ _ _ _ => simp only [Shape] at hs; obtain ⟨rfl, _⟩ := hs; exact ⟨_, rfl⟩
  | list _ large _ _ _ _ =>
    simp only [Shape] at hs
    obtain ⟨_, _, _, _, _, rfl, _⟩ := hs
    cases large <;> exact ⟨_, rfl⟩
  | fixedSizeList _ _ _ _ _ _ _ => simp only [Shape] at hs; obtain ⟨_, _, _, _, _, rfl, _⟩ := hs; exact ⟨_, rfl⟩
  | map _ _ _ _ _ _ =>
    simp only [Shape] at hs
    obtain ⟨_, _, _, _, _, _, _, _, _, _, _, _, _, _, rfl, _⟩ := hs
    exact ⟨_, rfl⟩
  | struct _ _ _ _ _ _ _ => simp only [Shape] at hs; obtain ⟨_, _, rfl, _⟩ := hs; exact ⟨_, rfl⟩
  | dictionary _ _ _ _ => simp [B.refusesStr] at hr
  | union _ _ _ _ _ => simp only [Shape] at hs; obtain ⟨_, _, rfl, _⟩ := hs; exact ⟨_, rfl⟩

/-- a Utf8 / LargeUtf8 value builder: the string is the value -/
theorem interpDictStr_utf8 (ext : Ext) {vals : B} {vdt : DataType} {n : Bool} {md : Metadata} (s : String)
    (hs : Shape vals vdt n md) (hu : vals.isUtf8B = true) : interpDictStr ext vdt s = .ok (.str (strBytes s)) := by
  cases vals with
  | bytes p ty v offs data =>
    simp only [Shape] at hs
    obtain ⟨rfl, _⟩ := hs
    cases ty <;> simp [B.isUtf8B, isUtf8Ty] at hu <;> rfl
  | _ => simp [B.isUtf8B] at hu

/-- a scalar that means something at a covered dictionary: the value builder is a Utf8 / LargeUtf8 builder -/
theorem dict_interp_utf8 {ext : Ext} {x : SVal} {kdt vdt : DataType} {lv : LVal} {vals : B} {n : Bool} {md : Metadata}
    (hsv : Shape vals vdt n md) (hu : vals.isUtf8B = true ∨ vals.refusesStr = true)
    (hi : interpScalar ext (.dictionary kdt vdt) x = .ok lv) : vals.isUtf8B = true := by
  rcases hu with h | hr
  · exact h
  · exfalso
    simp only [interpScalar_eq_old, normErr_ok_iff, interpScalarOld] at hi
    cases hs : scalarToString ext x with
    | none => simp [hs, fail] at hi
    | some s =>
      obtain ⟨e, he⟩ := interpDictStr_refused ext s hsv hr
      simp [hs, he] at hi

/-- the dictionary clause of `interpScalar` at a Utf8 / LargeUtf8 value builder -/
theorem interpScalar_dict_utf8 {ext : Ext} {x : SVal} {kdt vdt : DataType} {vals : B} {n : Bool} {md : Metadata}
    (hsv : Shape vals vdt n md) (hu : vals.isUtf8B = true) :
    interpScalar ext (.dictionary kdt vdt) x =
      normErr (match scalarToString ext x with
      | some s => .ok (.str (strBytes s))
      | none => fail "not a string") := by
  simp only [interpScalar_eq_old, interpScalarOld]
  cases hs : scalarToString ext x with
  | none => rfl
  | some s => simp only [interpDictStr_utf8 ext s hsv hu]

end SaModel.Build
