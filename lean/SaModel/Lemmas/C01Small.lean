import SaModel.Lemmas.C10TakePush
import SaModel.Lemmas.C03Final
/-
Bytes-view builders against the specification.

* the descriptor round trip: what a SUCCESSFUL `push_scalar_value` / `end_seq` wrote designates exactly the pushed bytes
  (`view_value_exact`, `viewPushValue_exact`, `viewSeq_exact`, `view_push_row`) — the builders refuse lengths and
  buffer offsets beyond `i32::MAX`, so nothing is truncated;
* `WFB_small`: the state invariant implies `Lemmas.C03.ViewSmall` (every view buffer below 4 GiB);
* `push_small`: buffers only grow — `ViewSmall` of the state AFTER an operation implies it of the state before (one pass
  over the whole push block, same skeleton as `push_takeRest`; no invariant needed).  The R2 recursion threads
  `ViewSmall` of the after-state down to every intermediate state with it; at the top it comes from `WFB_small`;
* `NoView`: schemas without view columns.
-/
namespace SaModel.Build
open SaModel SaModel.Spec
open SaModel.Lemmas.C03 (ViewSmall ViewSmallL)

theorem ViewSmallL_set : ∀ (fs : BL) (i : Nat) (c c' : B) (m : FieldMeta), fs.get? i = some (c, m) →
    (ViewSmall c' → ViewSmall c) → ViewSmallL (fs.set i c') → ViewSmallL fs
  | .nil, _, _, _, _, h, _, _ => by simp [BL.get?] at h
  | .cons b m r, 0, c, c', _, h, hc, hs => by
    simp [BL.get?] at h; obtain ⟨rfl, rfl⟩ := h
    simp only [BL.set, ViewSmallL] at hs ⊢
    exact ⟨hc hs.1, hs.2⟩
  | .cons b m r, i + 1, c, c', m', h, hc, hs => by
    simp only [BL.get?] at h
    simp only [BL.set, ViewSmallL] at hs ⊢
    exact ⟨hs.1, ViewSmallL_set r i c c' m' h hc hs.2⟩

theorem ViewSmallL_set_get : ∀ (fs : BL) (i : Nat) (c c' : B) (m : FieldMeta), fs.get? i = some (c, m) →
    ViewSmallL (fs.set i c') → ViewSmall c'
  | .nil, _, _, _, _, h, _ => by simp [BL.get?] at h
  | .cons b m r, 0, c, c', _, _, hs => by
    simp only [BL.set, ViewSmallL] at hs
    exact hs.1
  | .cons b m r, i + 1, c, c', m', h, hs => by
    simp only [BL.get?] at h
    simp only [BL.set, ViewSmallL] at hs
    exact ViewSmallL_set_get r i c c' m' h hs.2

theorem ViewSmallL_get : ∀ (fs : BL) (i : Nat) (x : B × FieldMeta), fs.get? i = some x → ViewSmallL fs → ViewSmall x.1
  | .nil, _, _, h, _ => by simp [BL.get?] at h
  | .cons b m r, 0, x, h, hs => by
    simp [BL.get?] at h; subst h
    simp only [ViewSmallL] at hs
    exact hs.1
  | .cons b m r, i + 1, x, h, hs => by
    simp only [BL.get?] at h
    simp only [ViewSmallL] at hs
    exact ViewSmallL_get r i x h hs.2

/-! ### the descriptor round trip: below 4 GiB a pushed value reads back as itself -/

theorem viewBytes_packInline (buf value : Bytes) (h : value.length ≤ 12) : viewBytes buf (packInline value) = value := by
  simp only [viewBytes, Lemmas.C03.decodeView_inline [buf] value h]

theorem viewBytes_packExtern (buf value : Bytes) (hlen : 12 < value.length) (hsmall : (buf ++ value).length < 2 ^ 32) :
    viewBytes (buf ++ value) (packExtern value 0 buf.length) = value := by
  simp only [viewBytes, Lemmas.C03.decodeView_extern buf value hlen hsmall]

/-- the descriptor a successful push wrote designates exactly the pushed bytes (`viewPushValue_ok` / `viewSeq_ok`:
an out-of-line value is only accepted while length and offset are ≤ `i32::MAX`, so nothing is truncated) -/
theorem view_value_exact {buf value extra : Bytes} {d : Nat}
    (h : (d = packInline value ∧ extra = [] ∧ value.length ≤ 12) ∨
      (d = packExtern value 0 buf.length ∧ extra = value ∧ 12 < value.length ∧ (buf ++ value).length < 2 ^ 32)) :
    viewBytes (buf ++ extra) d = value := by
  rcases h with ⟨hd, he, hle⟩ | ⟨hd, he, hgt, hsm⟩
  · rw [hd, he]; exact viewBytes_packInline _ _ hle
  · rw [hd, he]; exact viewBytes_packExtern buf value hgt hsm

/-- `push_scalar_value`: one more descriptor, the buffer possibly extended, the descriptor designates exactly the
pushed bytes -/
theorem viewPushValue_exact {views : List Nat} {buf value : Bytes} {r : List Nat × Bytes}
    (h : viewPushValue views buf value = .ok r) :
    ∃ d extra, r = (views ++ [d], buf ++ extra) ∧ (decodeView [buf ++ extra] d).isOk = true ∧
      viewBytes (buf ++ extra) d = value := by
  obtain ⟨d, extra, hr, hok, _, hc⟩ := viewPushValue_ok h
  exact ⟨d, extra, hr, hok, view_value_exact hc⟩

theorem viewSeq_exact {views : List Nat} {buf value : Bytes} {r : List Nat × Bytes}
    (h : viewSeq views buf value = .ok r) :
    ∃ d extra, r = (views ++ [d], buf ++ extra) ∧ (decodeView [buf ++ extra] d).isOk = true ∧
      viewBytes (buf ++ extra) d = value := by
  obtain ⟨d, extra, hr, hok, _, hc⟩ := viewSeq_ok h
  exact ⟨d, extra, hr, hok, view_value_exact hc⟩

/-- the row a value pushed into a bytes-view builder appends (`hsm`: the buffer of the result is below 4 GiB — every
successful push guarantees it, `WFB_small`) -/
theorem view_push_row {p : String} {ty : ViewTy} {v : Validity} {views : List Nat} {buf : Bytes}
    (hwf : WFB (.bytesView p ty v views buf)) (value : Bytes) {d : Nat} {extra : Bytes}
    (hok : (decodeView [buf ++ extra] d).isOk = true)
    (hval : viewBytes (buf ++ extra) d = value)
    (hsm : ViewSmall (.bytesView p ty (v.map (· ++ [true])) (views ++ [d]) (buf ++ extra))) :
    dec (.bytesView p ty (v.map (· ++ [true])) (views ++ [d]) (buf ++ extra)) =
      dec (.bytesView p ty v views buf) ++ [bytesVal (ty == .utf8View) value] := by
  simp only [ViewSmall] at hsm
  obtain ⟨_, g2⟩ := view_step hwf true d extra hok hsm
  rw [rowOf_true] at g2
  rw [g2, hval]

/-! ### placeholders and nulls (buffers are not touched) -/

mutual
theorem pushDefaultK_small : ∀ (b : B) (k : Nat) (b' : B), pushDefaultK b k = .ok b' → ViewSmall b' → ViewSmall b
  | .null p len, k, b', h => by simp [ViewSmall]
  | .unknownVariant p, k, b', h => by simp [ViewSmall]
  | .leaf p kind v vals, k, b', h => by simp [ViewSmall]
  | .bytes p ty v offs data, k, b', h => by simp [ViewSmall]
  | .bytesView p ty v views buf, k, b', h => by
    simp only [pushDefaultK] at h
    obtain ⟨⟨v', views'⟩, h1, h2⟩ := (bind_ok _ _ _).1 h
    cases h2
    simp [ViewSmall]
  | .fixedSizeBinary p n len v buf cur, k, b', h => by simp [ViewSmall]
  | .list p large fm v offs el, k, b', h => by
    simp only [pushDefaultK, ctx_ok] at h
    obtain ⟨⟨v', offs'⟩, h1, h2⟩ := (bind_ok _ _ _).1 h
    cases h2
    simp [ViewSmall]
  | .fixedSizeList p fm n len v cur el, k, b', h => by
    simp only [pushDefaultK, ctx_ok] at h
    obtain ⟨⟨len', v'⟩, h1, h2⟩ := (bind_ok _ _ _).1 h
    obtain ⟨el', h3, h4⟩ := (bind_ok _ _ _).1 h2
    cases h4
    simp only [ViewSmall]
    exact pushDefaultK_small el (k * n) el' h3
  | .map p mm v offs ks vs, k, b', h => by
    simp only [pushDefaultK, ctx_ok] at h
    obtain ⟨⟨v', offs'⟩, h1, h2⟩ := (bind_ok _ _ _).1 h
    cases h2
    simp [ViewSmall]
  | .struct p len v fs cached next seen, k, b', h => by
    simp only [pushDefaultK, ctx_ok] at h
    obtain ⟨⟨len', v'⟩, h1, h2⟩ := (bind_ok _ _ _).1 h
    obtain ⟨fs', h3, h4⟩ := (bind_ok _ _ _).1 h2
    cases h4
    simp only [ViewSmall]
    exact pushDefaultKAll_small fs k fs' h3
  | .dictionary p idx vals index, k, b', h => by
    simp only [pushDefaultK, ctx_ok] at h
    obtain ⟨idx', h1, h2⟩ := (bind_ok _ _ _).1 h
    cases h2
    simp only [ViewSmall]
    exact fun hs => ⟨pushDefaultK_small idx k idx' h1 hs.1, hs.2⟩
  | .union p .nil types offs cur, k, b', h => by simp [ViewSmall, ViewSmallL]
  | .union p (.cons c m rest) types offs cur, k, b', h => by
    simp only [pushDefaultK, ctx_ok] at h
    split at h
    · simp [fail] at h
    split at h
    · simp [fail] at h
    · obtain ⟨fs', h1, h2⟩ := (bind_ok _ _ _).1 h
      split at h2
      · simp [fail] at h2
      cases h2
      simp only [ViewSmall]
      exact pushDefaultKAt_small _ _ k fs' h1
theorem pushDefaultKAll_small : ∀ (fs : BL) (k : Nat) (fs' : BL), pushDefaultKAll fs k = .ok fs' →
    ViewSmallL fs' → ViewSmallL fs
  | .nil, k, fs', h => by simp [ViewSmallL]
  | .cons b m rest, k, fs', h => by
    simp only [pushDefaultKAll] at h
    obtain ⟨b', h1, h2⟩ := (bind_ok _ _ _).1 h
    obtain ⟨r', h3, h4⟩ := (bind_ok _ _ _).1 h2
    cases h4
    simp only [ViewSmallL]
    exact fun hs => ⟨pushDefaultK_small b k b' h1 hs.1, pushDefaultKAll_small rest k r' h3 hs.2⟩
theorem pushDefaultKAt_small : ∀ (fs : BL) (j k : Nat) (fs' : BL), pushDefaultKAt fs j k = .ok fs' →
    ViewSmallL fs' → ViewSmallL fs
  | .nil, _, _, fs', h => by simp [ViewSmallL]
  | .cons b m rest, 0, k, fs', h => by
    simp only [pushDefaultKAt] at h
    obtain ⟨b', h1, h2⟩ := (bind_ok _ _ _).1 h
    cases h2
    simp only [ViewSmallL]
    exact fun hs => ⟨pushDefaultK_small b k b' h1 hs.1, hs.2⟩
  | .cons b m rest, j + 1, k, fs', h => by
    simp only [pushDefaultKAt] at h
    obtain ⟨r', h1, h2⟩ := (bind_ok _ _ _).1 h
    cases h2
    simp only [ViewSmallL]
    exact fun hs => ⟨hs.1, pushDefaultKAt_small rest j k r' h1 hs.2⟩
end

theorem pushNone_small : ∀ (b : B) (b' : B), pushNone b = .ok b' → ViewSmall b' → ViewSmall b
  | .null p len, b', h => by simp [ViewSmall]
  | .unknownVariant p, b', h => by simp [ViewSmall]
  | .leaf p k v vals, b', h => by simp [ViewSmall]
  | .bytes p ty v offs data, b', h => by simp [ViewSmall]
  | .bytesView p ty v views buf, b', h => by
    simp only [pushNone, ctx_ok] at h
    obtain ⟨v', h1, h2⟩ := (bind_ok _ _ _).1 h
    cases h2
    simp [ViewSmall]
  | .fixedSizeBinary p n len v buf cur, b', h => by simp [ViewSmall]
  | .list p large fm v offs el, b', h => by
    simp only [pushNone, ctx_ok] at h
    obtain ⟨v', h1, h2⟩ := (bind_ok _ _ _).1 h
    obtain ⟨o', _, h4⟩ := (bind_ok _ _ _).1 h2
    cases h4
    simp [ViewSmall]
  | .fixedSizeList p fm n len v cur el, b', h => by
    simp only [pushNone, ctx_ok] at h
    obtain ⟨v', h1, h2⟩ := (bind_ok _ _ _).1 h
    obtain ⟨el', h3, h4⟩ := (bind_ok _ _ _).1 h2
    cases h4
    simp only [ViewSmall]
    exact pushDefaultK_small el n el' h3
  | .map p mm v offs ks vs, b', h => by
    simp only [pushNone, ctx_ok] at h
    obtain ⟨v', h1, h2⟩ := (bind_ok _ _ _).1 h
    obtain ⟨o', _, h4⟩ := (bind_ok _ _ _).1 h2
    cases h4
    simp [ViewSmall]
  | .struct p len v fs cached next seen, b', h => by
    simp only [pushNone, ctx_ok] at h
    obtain ⟨v', h1, h2⟩ := (bind_ok _ _ _).1 h
    obtain ⟨fs', h3, h4⟩ := (bind_ok _ _ _).1 h2
    cases h4
    simp only [ViewSmall]
    exact pushDefaultKAll_small fs 1 fs' h3
  | .dictionary p idx vals index, b', h => by
    simp only [pushNone, ctx_ok] at h
    split at h
    · simp [fail] at h
    obtain ⟨idx', h1, h2⟩ := (bind_ok _ _ _).1 h
    cases h2
    simp only [ViewSmall]
    exact fun hs => ⟨pushNone_small idx idx' ((ctx_ok _ _ _).1 h1) hs.1, hs.2⟩
  | .union p fs types offs cur, b', h => by simp [pushNone, ctx_ok, fail] at h

/-! ### scalars -/

theorem viewPushValue_small {views : List Nat} {buf value : Bytes} {r : List Nat × Bytes}
    (hp : viewPushValue views buf value = .ok r) (h : r.2.length < 2 ^ 32) : buf.length < 2 ^ 32 := by
  obtain ⟨d, extra, rfl, _⟩ := viewPushValue_ok hp
  simp only [List.length_append] at h; omega

theorem viewSeq_small {views : List Nat} {buf value : Bytes} {r : List Nat × Bytes}
    (hp : viewSeq views buf value = .ok r) (h : r.2.length < 2 ^ 32) : buf.length < 2 ^ 32 := by
  obtain ⟨d, extra, rfl, _⟩ := viewSeq_ok hp
  simp only [List.length_append] at h; omega

theorem pushScalar_small (ext : Ext) : ∀ (b : B) (x : SVal) (b' : B), pushScalar ext b x = .ok b' →
    ViewSmall b' → ViewSmall b
  | .null p len, x, b', h => by simp [ViewSmall]
  | .unknownVariant p, x, b', h => by simp [ViewSmall]
  | .leaf p k v vals, x, b', h => by simp [ViewSmall]
  | .bytes p ty v offs data, x, b', h => by simp [ViewSmall]
  | .bytesView p ty v views buf, x, b', h => by
    simp only [pushScalar] at h
    obtain ⟨bs, _, h2⟩ := (bind_ok _ _ _).1 h
    obtain ⟨vp, hp, h2⟩ := (bind_ok _ _ _).1 h2
    obtain ⟨v', h3, h4⟩ := (bind_ok _ _ _).1 h2
    cases h4
    simp only [ViewSmall]
    exact viewPushValue_small hp
  | .fixedSizeBinary p n len v buf cur, x, b', h => by simp [ViewSmall]
  | .dictionary p idx vals index, x, b', h => by
    unfold pushScalar at h
    simp only at h
    split at h
    · split at h
      · obtain ⟨idx', h1, h2⟩ := (bind_ok _ _ _).1 h
        cases h2
        rw [ctx_eq_ok] at h1
        simp only [ViewSmall]
        exact fun hs => ⟨pushScalar_small ext idx _ idx' h1 hs.1, hs.2⟩
      · obtain ⟨vals', h1, h2⟩ := (bind_ok _ _ _).1 h
        obtain ⟨idx', h3, h4⟩ := (bind_ok _ _ _).1 h2
        cases h4
        rw [ctx_eq_ok] at h1 h3
        simp only [ViewSmall]
        exact fun hs => ⟨pushScalar_small ext idx _ idx' h3 hs.1, pushScalar_small ext vals _ vals' h1 hs.2⟩
    · simp [notSupported, fail] at h
  | .list _ _ _ _ _ _, x, b', h => by simp [pushScalar, notSupported, fail] at h
  | .fixedSizeList _ _ _ _ _ _ _, x, b', h => by simp [pushScalar, notSupported, fail] at h
  | .map _ _ _ _ _ _, x, b', h => by simp [pushScalar, notSupported, fail] at h
  | .struct _ _ _ _ _ _ _, x, b', h => by simp [pushScalar, notSupported, fail] at h
  | .union _ _ _ _ _, x, b', h => by simp [pushScalar, notSupported, fail] at h

/-! ### combinators -/

/-- struct states: the children's buffers of `s` are bounded by those of `s'` -/
def SSmall (s' s : SS) : Prop := ViewSmallL s'.fields → ViewSmallL s.fields

theorem SSmall.refl (s : SS) : SSmall s s := id
theorem SSmall.trans {a b c : SS} (h1 : SSmall a b) (h2 : SSmall b c) : SSmall a c := fun h => h2 (h1 h)
theorem SSmall.next (s : SS) (n : Nat) : SSmall { s with next := n } s := id

theorem SS.start_small {s s' : SS} (h : s.start = .ok s') : SSmall s' s := by
  simp only [SS.start] at h
  obtain ⟨v', h1, h2⟩ := (bind_ok _ _ _).1 h
  cases h2
  exact id

theorem SS.element_small {s s' : SS} {idx : Nat} {pc : B → R B}
    (hpc : ∀ c c', pc c = .ok c' → ViewSmall c' → ViewSmall c) (h : s.element idx pc = .ok s') : SSmall s' s := by
  unfold SS.element at h
  split at h
  · simp [panic] at h
  · simp [ctx_ok, fail] at h
  · split at h
    · simp [panic] at h
    · rename_i c m hget
      obtain ⟨c', h1, h2⟩ := (bind_ok _ _ _).1 h
      cases h2
      exact ViewSmallL_set _ _ c c' m hget (hpc c c' h1)

theorem endFields_small : ∀ (fs : BL) (seen : List Bool) (fs' : BL), endFields fs seen = .ok fs' →
    ViewSmallL fs' → ViewSmallL fs
  | .nil, _, fs', h => by simp [ViewSmallL]
  | .cons b m rest, [], fs', h => by simp [endFields, panic] at h
  | .cons b m rest, s :: sr, fs', h => by
    simp only [endFields] at h
    split at h
    · obtain ⟨r, h1, h2⟩ := (bind_ok _ _ _).1 h
      cases h2
      simp only [ViewSmallL]
      exact fun hs => ⟨hs.1, endFields_small rest sr r h1 hs.2⟩
    · split at h
      · simp [fail] at h
      · obtain ⟨b', h0, h'⟩ := (bind_ok _ _ _).1 h
        obtain ⟨r, h1, h2⟩ := (bind_ok _ _ _).1 h'
        cases h2
        simp only [ViewSmallL]
        exact fun hs => ⟨pushNone_small b b' h0 hs.1, endFields_small rest sr r h1 hs.2⟩

theorem SS.finishRow_small {s s' : SS} (h : s.finishRow = .ok s') : SSmall s' s := by
  simp only [SS.finishRow] at h
  obtain ⟨fs, h1, h2⟩ := (bind_ok _ _ _).1 h
  cases h2
  exact endFields_small _ _ _ h1

theorem record_small {p len v fs cached next seen} {pf : SS → R SS} {b' : B}
    (hpf : ∀ s s', pf s = .ok s' → SSmall s' s)
    (h : (do
      let s ← SS.start ⟨p, len, v, fs, cached, next, seen⟩
      let s ← pf s
      let s ← s.finishRow
      pure s.toB : R B) = .ok b') : ViewSmall b' → ViewSmall (.struct p len v fs cached next seen) := by
  obtain ⟨s1, h1, h⟩ := (bind_ok _ _ _).1 h
  obtain ⟨s2, h2, h⟩ := (bind_ok _ _ _).1 h
  obtain ⟨s3, h3, h⟩ := (bind_ok _ _ _).1 h
  cases h
  simp only [SS.toB, ViewSmall]
  exact ((SS.finishRow_small h3).trans ((hpf _ _ h2).trans (SS.start_small h1)))

theorem recordWith_small {pf : SS → R SS} (hpf : ∀ s s', pf s = .ok s' → SSmall s' s) :
    ∀ (b b' : B), recordWith pf b = .ok b' → ViewSmall b' → ViewSmall b := by
  intro b b' h
  cases b with
  | struct p len v fs cached next seen => exact record_small hpf h
  | _ => simp [recordWith, notSupported, fail] at h

theorem seqLikeWith_small {pe : Bool → B → List Int → R (B × List Int)} {pc : B → Nat → R (B × Nat)}
    {pt : SS → R SS} {bytes : R Bytes}
    (hpe : ∀ large el offs r, pe large el offs = .ok r → ViewSmall r.1 → ViewSmall el)
    (hpc : ∀ el c r, pc el c = .ok r → ViewSmall r.1 → ViewSmall el)
    (hpt : ∀ s s', pt s = .ok s' → SSmall s' s) :
    ∀ (b : B) (k : SeqKind) (b' : B), seqLikeWith pe pc pt bytes b k = .ok b' → ViewSmall b' → ViewSmall b := by
  intro b k b' h
  cases b with
  | list p large fm v offs el =>
    simp only [seqLikeWith] at h
    obtain ⟨v', h1, h⟩ := (bind_ok _ _ _).1 h
    obtain ⟨o1, _, h⟩ := (bind_ok _ _ _).1 h
    obtain ⟨⟨el', o2⟩, h3, h⟩ := (bind_ok _ _ _).1 h
    cases h
    simp only [ViewSmall]
    exact hpe _ _ _ _ h3
  | fixedSizeList p fm n len v cur el =>
    simp only [seqLikeWith] at h
    obtain ⟨v', h1, h⟩ := (bind_ok _ _ _).1 h
    obtain ⟨⟨el', cnt⟩, h3, h⟩ := (bind_ok _ _ _).1 h
    simp only at h
    split at h
    · simp [fail] at h
    · cases h
      simp only [ViewSmall]
      exact hpc _ _ _ h3
  | bytes p ty v offs data => simp [ViewSmall]
  | bytesView p ty v views buf =>
    simp only [seqLikeWith] at h
    split at h
    · obtain ⟨v', h1, h⟩ := (bind_ok _ _ _).1 h
      obtain ⟨bs, _, h⟩ := (bind_ok _ _ _).1 h
      obtain ⟨vp, hp, h⟩ := (bind_ok _ _ _).1 h
      cases h
      simp only [ViewSmall]
      exact viewSeq_small hp
    · simp [notSupported, fail] at h
  | fixedSizeBinary p n len v buf cur => simp [ViewSmall]
  | struct p len v fs cached next seen =>
    cases k with
    | seq => simp [seqLikeWith, notSupported, fail] at h
    | tuple => simp only [seqLikeWith] at h; exact record_small hpt h
    | tupleStruct => simp only [seqLikeWith] at h; exact record_small hpt h
  | unknownVariant p => simp [ViewSmall]
  | null p len => simp [ViewSmall]
  | leaf p kind v vals => simp [ViewSmall]
  | map p mm v offs ks vs => simp [seqLikeWith, notSupported, fail] at h
  | dictionary p idx vals index => simp [seqLikeWith, notSupported, fail] at h
  | union p fs types offs cur => simp [seqLikeWith, notSupported, fail] at h

/-- one row of a union -/
theorem union_row_small {p fs types offs cur} {i : Nat} {pc : B → R B} {b' : B}
    (hpc : ∀ c c', pc c = .ok c' → ViewSmall c' → ViewSmall c)
    (h : (do
      let (c, types', offs', cur') ← serializeVariant fs types offs cur i
      let c' ← pc c
      pure (.union p (fs.set i c') types' offs' cur') : R B) = .ok b') :
    ViewSmall b' → ViewSmall (.union p fs types offs cur) := by
  obtain ⟨⟨c, t', o', cur'⟩, h1, h⟩ := (bind_ok _ _ _).1 h
  obtain ⟨c', h2, h⟩ := (bind_ok _ _ _).1 h
  cases h
  obtain ⟨m, co, hget, _, _, _, _, hcur⟩ := serializeVariant_ok h1
  simp only at hget hcur
  simp only [ViewSmall]
  exact ViewSmallL_set _ _ c c' m hget (hpc c c' h2)

/-- … and the variant's child after the row is one of the children of the result -/
theorem union_row_small_child {p fs types offs cur} {i : Nat} {pc : B → R B} {b' : B}
    (h : (do
      let (c, types', offs', cur') ← serializeVariant fs types offs cur i
      let c' ← pc c
      pure (.union p (fs.set i c') types' offs' cur') : R B) = .ok b') (hs : ViewSmall b') :
    ∀ c c' m, fs.get? i = some (c, m) → pc c = .ok c' → ViewSmall c' := by
  obtain ⟨⟨c, t', o', cur'⟩, h1, h⟩ := (bind_ok _ _ _).1 h
  obtain ⟨c', h2, h⟩ := (bind_ok _ _ _).1 h
  cases h
  obtain ⟨m, co, hget, _, _, _, _, hcur⟩ := serializeVariant_ok h1
  simp only at hget hcur
  simp only [ViewSmall] at hs
  intro c0 c0' m0 hget0 hpc0
  rw [hget] at hget0
  cases hget0
  rw [h2] at hpc0
  cases hpc0
  exact ViewSmallL_set_get _ _ c c' m hget hs

theorem pushByteElems_small (ext : Ext) (large : Bool) : ∀ (bs : Bytes) (el : B) (offs : List Int) (r : B × List Int),
    pushByteElems ext large el offs bs = .ok r → ViewSmall r.1 → ViewSmall el
  | [], el, offs, r, h => by simp [pushByteElems] at h; subst h; exact id
  | x :: rest, el, offs, r, h => by
    simp only [pushByteElems] at h
    obtain ⟨o', _, h⟩ := (bind_ok _ _ _).1 h
    obtain ⟨el', h2, h⟩ := (bind_ok _ _ _).1 h
    exact fun hs => pushScalar_small ext el _ el' ((ctx_ok _ _ _).1 h2) (pushByteElems_small ext large rest el' o' r h hs)

/-! ### the push block -/

mutual
theorem push_small (ext : Ext) : ∀ (x : SVal) (b b' : B), push ext b x = .ok b' → ViewSmall b' → ViewSmall b
  | .some v, b, b', h => by rw [push] at h; exact push_small ext v b b' h
  | .newtypeStruct _ v, b, b', h => by rw [push] at h; exact push_small ext v b b' h
  | .none, b, b', h => by rw [push] at h; exact pushNone_small b b' h
  | .unit, b, b', h => by
    cases b with
    | unknownVariant p => simp [push, ctx_ok, fail] at h
    | _ => simp only [push] at h; exact pushNone_small _ b' h
  | .seq xs, b, b', h => by
    rw [push, ctx_ok] at h
    exact seqLikeWith_small (fun large el offs r hr => pushElems_small ext xs large el offs r hr)
      (fun el c r hr => pushCountElems_small ext xs el c r hr)
      (fun s s' hs => pushTupleElems_small ext xs s s' hs) b _ b' h
  | .tuple xs, b, b', h => by
    rw [push, ctx_ok] at h
    exact seqLikeWith_small (fun large el offs r hr => pushElems_small ext xs large el offs r hr)
      (fun el c r hr => pushCountElems_small ext xs el c r hr)
      (fun s s' hs => pushTupleElems_small ext xs s s' hs) b _ b' h
  | .tupleStruct _ xs, b, b', h => by
    rw [push, ctx_ok] at h
    exact seqLikeWith_small (fun large el offs r hr => pushElems_small ext xs large el offs r hr)
      (fun el c r hr => pushCountElems_small ext xs el c r hr)
      (fun s s' hs => pushTupleElems_small ext xs s s' hs) b _ b' h
  | .record _ fs, b, b', h => by
    rw [push, ctx_ok] at h
    exact recordWith_small (fun s s' hs => pushFields_small ext fs s s' hs) b b' h
  | .map es, b, b', h => by
    cases b with
    | struct p len v fs cached next seen =>
      simp only [push, ctx_ok] at h
      exact record_small (pf := fun s => pushStructEntries ext { s with next := UNKNOWN_KEY } es)
        (fun s s' hs => (pushStructEntries_small ext es _ s' hs).trans (SSmall.next s _)) h
    | map p mm v offs ks vs =>
      simp only [push, ctx_ok] at h
      obtain ⟨v', h1, h⟩ := (bind_ok _ _ _).1 h
      obtain ⟨o1, _, h⟩ := (bind_ok _ _ _).1 h
      obtain ⟨⟨o2, ks', vs'⟩, h3, h⟩ := (bind_ok _ _ _).1 h
      cases h
      simp only [ViewSmall]
      exact pushMapEntries_small ext es _ _ _ _ h3
    | _ => simp [push, ctx_ok, notSupported, fail] at h
  | .mapRaw ops, b, b', h => by
    cases b with
    | struct p len v fs cached next seen =>
      simp only [push, ctx_ok] at h
      exact record_small (pf := fun s => pushStructOps ext { s with next := UNKNOWN_KEY } ops)
        (fun s s' hs => (pushStructOps_small ext ops _ s' hs).trans (SSmall.next s _)) h
    | map p mm v offs ks vs =>
      simp only [push, ctx_ok] at h
      obtain ⟨v', h1, h⟩ := (bind_ok _ _ _).1 h
      obtain ⟨o1, _, h⟩ := (bind_ok _ _ _).1 h
      obtain ⟨⟨o2, ks', vs'⟩, h3, h⟩ := (bind_ok _ _ _).1 h
      cases h
      simp only [ViewSmall]
      exact pushMapOps_small ext ops _ _ _ _ _ h3
    | _ => simp [push, ctx_ok, notSupported, fail] at h
  | .unitVariant n i vn, b, b', h => by
    cases b with
    | union p fs types offs cur =>
      simp only [push, ctx_ok] at h
      refine union_row_small (pc := fun c => match c with
          | .unknownVariant _ => ctx c.ann (fail "Unknown variant does not support serialize_unit")
          | _ => pushNone c) ?_ h
      intro c c' hc
      split at hc
      · simp [ctx_ok, fail] at hc
      · exact pushNone_small c c' hc
    | _ => simp only [push, ctx_ok] at h; exact pushScalar_small ext _ _ b' h
  | .newtypeVariant _ i _ v, b, b', h => by
    cases b with
    | union p fs types offs cur =>
      simp only [push, ctx_ok] at h
      exact union_row_small (pc := fun c => push ext c v) (fun c c' hc => push_small ext v c c' hc) h
    | bytes _ ty _ _ _ => simp only [push, ctx_ok] at h; split at h <;> simp [notSupported, fail] at h
    | bytesView _ ty _ _ _ => simp only [push, ctx_ok] at h; split at h <;> simp [notSupported, fail] at h
    | _ => simp [push, ctx_ok, notSupported, fail] at h
  | .tupleVariant _ i _ xs, b, b', h => by
    cases b with
    | union p fs types offs cur =>
      simp only [push, ctx_ok] at h
      refine union_row_small (pc := fun c => ctx c.ann (seqLikeWith (fun large el offs => pushElems ext large el offs xs)
        (fun el c => pushCountElems ext el c xs) (fun s => pushTupleElems ext s xs) (u8All xs) c .tupleStruct)) ?_ h
      intro c c' hc
      rw [ctx_ok] at hc
      exact seqLikeWith_small (fun large el offs r hr => pushElems_small ext xs large el offs r hr)
        (fun el c r hr => pushCountElems_small ext xs el c r hr)
        (fun s s' hs => pushTupleElems_small ext xs s s' hs) c _ c' hc
    | bytes _ ty _ _ _ => simp only [push, ctx_ok] at h; split at h <;> simp [notSupported, fail] at h
    | bytesView _ ty _ _ _ => simp only [push, ctx_ok] at h; split at h <;> simp [notSupported, fail] at h
    | _ => simp [push, ctx_ok, notSupported, fail] at h
  | .structVariant _ i _ fields, b, b', h => by
    cases b with
    | union p fs types offs cur =>
      simp only [push, ctx_ok] at h
      refine union_row_small (pc := fun c => ctx c.ann (recordWith (fun s => pushFields ext s fields) c)) ?_ h
      intro c c' hc
      rw [ctx_ok] at hc
      exact recordWith_small (fun s s' hs => pushFields_small ext fields s s' hs) c c' hc
    | bytes _ ty _ _ _ => simp only [push, ctx_ok] at h; split at h <;> simp [notSupported, fail] at h
    | bytesView _ ty _ _ _ => simp only [push, ctx_ok] at h; split at h <;> simp [notSupported, fail] at h
    | _ => simp [push, ctx_ok, notSupported, fail] at h
  | .bytes bs, b, b', h => by
    cases b with
    | list p large fm v offs el =>
      simp only [push, ctx_ok] at h
      obtain ⟨v', h1, h⟩ := (bind_ok _ _ _).1 h
      obtain ⟨o1, _, h⟩ := (bind_ok _ _ _).1 h
      obtain ⟨⟨el', o2⟩, h3, h⟩ := (bind_ok _ _ _).1 h
      cases h
      simp only [ViewSmall]
      exact pushByteElems_small ext large bs el o1 _ h3
    | _ => simp only [push, ctx_ok] at h; exact pushScalar_small ext _ _ b' h
  | .bool x, b, b', h => by rw [push, ctx_ok] at h; exact pushScalar_small ext _ _ b' h
  | .int t x, b, b', h => by rw [push, ctx_ok] at h; exact pushScalar_small ext _ _ b' h
  | .f32 x, b, b', h => by rw [push, ctx_ok] at h; exact pushScalar_small ext _ _ b' h
  | .f64 x, b, b', h => by rw [push, ctx_ok] at h; exact pushScalar_small ext _ _ b' h
  | .char x, b, b', h => by rw [push, ctx_ok] at h; exact pushScalar_small ext _ _ b' h
  | .str x, b, b', h => by rw [push, ctx_ok] at h; exact pushScalar_small ext _ _ b' h
  | .unitStruct x, b, b', h => by
    cases b with
    | unknownVariant p => simp [push, ctx_ok, fail] at h
    | _ => simp only [push] at h; exact pushNone_small _ b' h

theorem pushElems_small (ext : Ext) : ∀ (xs : SVals) (large : Bool) (el : B) (offs : List Int) (r : B × List Int),
    pushElems ext large el offs xs = .ok r → ViewSmall r.1 → ViewSmall el
  | .nil, large, el, offs, r, h => by rw [pushElems] at h; cases h; exact id
  | .cons x rest, large, el, offs, r, h => by
    rw [pushElems] at h
    obtain ⟨o', _, h⟩ := (bind_ok _ _ _).1 h
    obtain ⟨el', h2, h⟩ := (bind_ok _ _ _).1 h
    exact fun hs => push_small ext x el el' h2 (pushElems_small ext rest large el' o' r h hs)

theorem pushCountElems_small (ext : Ext) : ∀ (xs : SVals) (el : B) (c : Nat) (r : B × Nat),
    pushCountElems ext el c xs = .ok r → ViewSmall r.1 → ViewSmall el
  | .nil, el, c, r, h => by rw [pushCountElems] at h; cases h; exact id
  | .cons x rest, el, c, r, h => by
    rw [pushCountElems] at h
    obtain ⟨el', h2, h⟩ := (bind_ok _ _ _).1 h
    exact fun hs => push_small ext x el el' h2 (pushCountElems_small ext rest el' (c + 1) r h hs)

theorem pushTupleElems_small (ext : Ext) : ∀ (xs : SVals) (s s' : SS), pushTupleElems ext s xs = .ok s' → SSmall s' s
  | .nil, s, s', h => by rw [pushTupleElems] at h; cases h; exact SSmall.refl _
  | .cons x rest, s, s', h => by
    rw [pushTupleElems] at h
    split at h
    · obtain ⟨s1, h1, h⟩ := (bind_ok _ _ _).1 h
      exact (pushTupleElems_small ext rest s1 s' h).trans
        (SS.element_small (fun c c' hc => push_small ext x c c' hc) h1)
    · exact pushTupleElems_small ext rest s s' h

theorem pushFields_small (ext : Ext) : ∀ (fs : SFields) (s s' : SS), pushFields ext s fs = .ok s' → SSmall s' s
  | .nil, s, s', h => by rw [pushFields] at h; cases h; exact SSmall.refl _
  | .cons key al x rest, s, s', h => by
    rw [pushFields] at h
    split at h
    · exact (pushFields_small ext rest _ s' h).trans id
    · obtain ⟨s1, h1, h⟩ := (bind_ok _ _ _).1 h
      exact ((pushFields_small ext rest s1 s' h).trans
        (SS.element_small (fun c c' hc => push_small ext x c c' hc) h1)).trans id

theorem pushStructEntries_small (ext : Ext) : ∀ (es : SEntries) (s s' : SS),
    pushStructEntries ext s es = .ok s' → SSmall s' s
  | .nil, s, s', h => by rw [pushStructEntries] at h; cases h; exact SSmall.refl _
  | .cons k x rest, s, s', h => by
    rw [pushStructEntries] at h
    obtain ⟨key, _, h⟩ := (bind_ok _ _ _).1 h
    split at h
    · exact (pushStructEntries_small ext rest _ s' h).trans (SSmall.next s _)
    · obtain ⟨s1, h1, h⟩ := (bind_ok _ _ _).1 h
      exact ((pushStructEntries_small ext rest _ s' h).trans (SSmall.next s1 _)).trans
        (SS.element_small (fun c c' hc => push_small ext x c c' hc) h1)

theorem pushStructOps_small (ext : Ext) : ∀ (ops : SMapOps) (s s' : SS),
    pushStructOps ext s ops = .ok s' → SSmall s' s
  | .nil, s, s', h => by rw [pushStructOps] at h; cases h; exact SSmall.refl _
  | .key k rest, s, s', h => by
    rw [pushStructOps] at h
    obtain ⟨key, _, h⟩ := (bind_ok _ _ _).1 h
    exact (pushStructOps_small ext rest _ s' h).trans (SSmall.next s _)
  | .value x rest, s, s', h => by
    rw [pushStructOps] at h
    split at h
    · obtain ⟨s1, h1, h⟩ := (bind_ok _ _ _).1 h
      exact ((pushStructOps_small ext rest _ s' h).trans (SSmall.next s1 _)).trans
        (SS.element_small (fun c c' hc => push_small ext x c c' hc) h1)
    · exact (pushStructOps_small ext rest _ s' h).trans (SSmall.next s _)

theorem pushMapEntries_small (ext : Ext) : ∀ (es : SEntries) (offs : List Int) (ks vs : B) (r : List Int × B × B),
    pushMapEntries ext offs ks vs es = .ok r → ViewSmall r.2.1 ∧ ViewSmall r.2.2 → ViewSmall ks ∧ ViewSmall vs
  | .nil, offs, ks, vs, r, h => by rw [pushMapEntries] at h; cases h; exact id
  | .cons k x rest, offs, ks, vs, r, h => by
    rw [pushMapEntries] at h
    obtain ⟨o', _, h⟩ := (bind_ok _ _ _).1 h
    obtain ⟨ks', h2, h⟩ := (bind_ok _ _ _).1 h
    obtain ⟨vs', h3, h⟩ := (bind_ok _ _ _).1 h
    intro hs
    have := pushMapEntries_small ext rest o' ks' vs' r h hs
    exact ⟨push_small ext k ks ks' h2 this.1, push_small ext x vs vs' h3 this.2⟩

theorem pushMapOps_small (ext : Ext) : ∀ (ops : SMapOps) (pd : Bool) (offs : List Int) (ks vs : B) (r : List Int × B × B),
    pushMapOps ext pd offs ks vs ops = .ok r → ViewSmall r.2.1 ∧ ViewSmall r.2.2 → ViewSmall ks ∧ ViewSmall vs
  | .nil, pd, offs, ks, vs, r, h => by
    obtain ⟨_, rfl⟩ := pushMapOps_nil_ok h; exact id
  | .key k rest, pd, offs, ks, vs, r, h => by
    obtain ⟨_, o', ks', _, h2, h⟩ := pushMapOps_key_ok h
    intro hs
    have := pushMapOps_small ext rest true o' ks' vs r h hs
    exact ⟨push_small ext k ks ks' h2 this.1, this.2⟩
  | .value x rest, pd, offs, ks, vs, r, h => by
    obtain ⟨_, vs', h3, h⟩ := pushMapOps_value_ok h
    intro hs
    have := pushMapOps_small ext rest false offs ks vs' r h hs
    exact ⟨this.1, push_small ext x vs vs' h3 this.2⟩
end

end SaModel.Build

/-! ### the state invariant implies `ViewSmall` -/

namespace SaModel.Build
open SaModel SaModel.Spec
open SaModel.Lemmas.C03 (ViewSmall ViewSmallL)

mutual
/-- every well-formed builder state has its view buffers below 4 GiB: `WFB` carries the bound (a successful
`push_scalar_value` / `end_seq` keeps length and offset ≤ `i32::MAX`) -/
theorem WFB_small : ∀ (b : B), WFB b → ViewSmall b
  | .null _ _, _ => by simp [ViewSmall]
  | .unknownVariant _, _ => by simp [ViewSmall]
  | .leaf _ _ _ _, _ => by simp [ViewSmall]
  | .bytes _ _ _ _ _, _ => by simp [ViewSmall]
  | .bytesView _ _ _ _ _, h => by simp only [WFB] at h; simp only [ViewSmall]; exact h.2.2
  | .fixedSizeBinary _ _ _ _ _ _, _ => by simp [ViewSmall]
  | .list _ _ _ _ _ el, h => by simp only [WFB] at h; simp only [ViewSmall]; exact WFB_small el h.2.2
  | .fixedSizeList _ _ _ _ _ _ el, h => by simp only [WFB] at h; simp only [ViewSmall]; exact WFB_small el h.2.2
  | .map _ _ _ _ ks vs, h => by
    simp only [WFB] at h; simp only [ViewSmall]; exact ⟨WFB_small ks h.2.2.2.1, WFB_small vs h.2.2.2.2⟩
  | .struct _ len _ fs _ _ _, h => by simp only [WFB] at h; simp only [ViewSmall]; exact WFL_small fs len h.2.1
  | .dictionary _ idx vals _, h => by
    simp only [WFB] at h; simp only [ViewSmall]; exact ⟨WFB_small idx h.1, WFB_small vals h.2.1⟩
  | .union _ fs _ _ cur, h => by simp only [WFB] at h; simp only [ViewSmall]; exact WFU_small fs cur h.2.2.1
theorem WFL_small : ∀ (fs : BL) (len : Nat), WFL fs len → ViewSmallL fs
  | .nil, _, _ => by simp [ViewSmallL]
  | .cons b _ r, len, h => by
    simp only [WFL] at h; simp only [ViewSmallL]; exact ⟨WFB_small b h.1, WFL_small r len h.2.2⟩
theorem WFU_small : ∀ (fs : BL) (cur : List Int), WFU fs cur → ViewSmallL fs
  | .nil, _, _ => by simp [ViewSmallL]
  | .cons b _ r, cur, h => by
    simp only [WFU] at h; simp only [ViewSmallL]; exact ⟨WFB_small b h.1, WFU_small r cur.tail h.2.2⟩
end

end SaModel.Build

/-! ### schemas without view types: `ViewSmall` is automatic -/

namespace SaModel.Build
open SaModel SaModel.Spec
open SaModel.Lemmas.C03 (ViewSmall ViewSmallL)

mutual
/-- the builder tree contains no bytes-view builder (a property of the schema: invariant under `take`) -/
def NoView : B → Prop
  | .bytesView _ _ _ _ _ => False
  | .list _ _ _ _ _ el => NoView el
  | .fixedSizeList _ _ _ _ _ _ el => NoView el
  | .map _ _ _ _ ks vs => NoView ks ∧ NoView vs
  | .struct _ _ _ fs _ _ _ => NoViewL fs
  | .dictionary _ idx vals _ => NoView idx ∧ NoView vals
  | .union _ fs _ _ _ => NoViewL fs
  | _ => True
def NoViewL : BL → Prop
  | .nil => True
  | .cons b _ r => NoView b ∧ NoViewL r
end

mutual
theorem NoView_takeRest : ∀ (b : B), NoView (takeRest b) ↔ NoView b
  | .null _ _ => by simp [takeRest, NoView]
  | .unknownVariant _ => by simp [takeRest, NoView]
  | .leaf _ _ _ _ => by simp [takeRest, NoView]
  | .bytes _ _ _ _ _ => by simp [takeRest, NoView]
  | .bytesView _ _ _ _ _ => by simp [takeRest, NoView]
  | .fixedSizeBinary _ _ _ _ _ _ => by simp [takeRest, NoView]
  | .list _ _ _ _ _ el => by simp only [takeRest, NoView]; exact NoView_takeRest el
  | .fixedSizeList _ _ _ _ _ _ el => by simp only [takeRest, NoView]; exact NoView_takeRest el
  | .map _ _ _ _ ks vs => by simp only [takeRest, NoView]; rw [NoView_takeRest ks, NoView_takeRest vs]
  | .struct _ _ _ fs _ _ _ => by simp only [takeRest, NoView]; exact NoViewL_takeRest fs
  | .dictionary _ idx vals _ => by simp only [takeRest, NoView]; rw [NoView_takeRest idx, NoView_takeRest vals]
  | .union _ fs _ _ _ => by simp only [takeRest, NoView]; exact NoViewL_takeRest fs
theorem NoViewL_takeRest : ∀ (fs : BL), NoViewL (takeRestAll fs) ↔ NoViewL fs
  | .nil => by simp [takeRestAll, NoViewL]
  | .cons b _ r => by simp only [takeRestAll, NoViewL]; rw [NoView_takeRest b, NoViewL_takeRest r]
end

theorem NoView.of_takeRest {b b' : B} (h : takeRest b' = takeRest b) (hs : NoView b) : NoView b' :=
  (NoView_takeRest b').1 (h ▸ (NoView_takeRest b).2 hs)

mutual
theorem NoView.small : ∀ (b : B), NoView b → ViewSmall b
  | .null _ _, _ => by simp [ViewSmall]
  | .unknownVariant _, _ => by simp [ViewSmall]
  | .leaf _ _ _ _, _ => by simp [ViewSmall]
  | .bytes _ _ _ _ _, _ => by simp [ViewSmall]
  | .bytesView _ _ _ _ _, h => by simp [NoView] at h
  | .fixedSizeBinary _ _ _ _ _ _, _ => by simp [ViewSmall]
  | .list _ _ _ _ _ el, h => by simp only [NoView] at h; simp only [ViewSmall]; exact NoView.small el h
  | .fixedSizeList _ _ _ _ _ _ el, h => by simp only [NoView] at h; simp only [ViewSmall]; exact NoView.small el h
  | .map _ _ _ _ ks vs, h => by
    simp only [NoView] at h; simp only [ViewSmall]; exact ⟨NoView.small ks h.1, NoView.small vs h.2⟩
  | .struct _ _ _ fs _ _ _, h => by simp only [NoView] at h; simp only [ViewSmall]; exact NoViewL.small fs h
  | .dictionary _ idx vals _, h => by
    simp only [NoView] at h; simp only [ViewSmall]; exact ⟨NoView.small idx h.1, NoView.small vals h.2⟩
  | .union _ fs _ _ _, h => by simp only [NoView] at h; simp only [ViewSmall]; exact NoViewL.small fs h
theorem NoViewL.small : ∀ (fs : BL), NoViewL fs → ViewSmallL fs
  | .nil, _ => by simp [ViewSmallL]
  | .cons b _ r, h => by
    simp only [NoViewL] at h; simp only [ViewSmallL]; exact ⟨NoView.small b h.1, NoViewL.small r h.2⟩
end

end SaModel.Build
