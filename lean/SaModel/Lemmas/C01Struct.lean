import SaModel.Lemmas.C01Cont
import SaModel.Props.C11Front
/-
The struct family.  `ExtL fs0 fs adds`: the children `fs` are the children `fs0` with the additional rows
`adds[j]` in child `j`.  Between `start` and `end` of a record (`Mid`), child `j` holds one additional row iff
`seen[j]`; `end` brings every child to one additional row; then the struct shows exactly one more row, whose
fields are the additional rows of the children, by name.
-/
namespace SaModel.Build
open SaModel SaModel.Spec

/-- row `i` of a struct with the given columns -/
def rowAt (cols : List (String × List LVal)) (i : Nat) : LVal :=
  .struct (LFields.ofList (cols.map fun c => (c.1, c.2.getD i .null)))

theorem dec_struct (p : String) (len : Nat) (v : Validity) (fs : BL) (cached next seen) :
    dec (.struct p len v fs cached next seen) = maskNull v ((List.range len).map (rowAt (decCols fs))) := by
  simp only [dec]; rfl

/-- `fs` = `fs0` with the rows `adds[j]` appended to child `j` (same names, all children well formed) -/
def ExtL : BL → BL → List (List LVal) → Prop
  | .nil, .nil, [] => True
  | .cons b0 m0 r0, .cons b m r, a :: as => m = m0 ∧ WFB b ∧ dec b = dec b0 ++ a ∧ ExtL r0 r as
  | _, _, _ => False

theorem ExtL.refl : ∀ (fs : BL) (len : Nat), WFL fs len → ExtL fs fs (List.replicate fs.length [])
  | .nil, _, _ => by simp [ExtL, BL.length]
  | .cons b m r, len, h => by
    simp only [WFL] at h
    simp only [BL.length, List.replicate_succ, ExtL, List.append_nil, true_and]
    exact ⟨h.1, ExtL.refl r len h.2.2⟩

theorem ExtL.names : ∀ (fs0 fs : BL) (adds : List (List LVal)), ExtL fs0 fs adds → fs.names = fs0.names
  | .nil, .nil, [], _ => rfl
  | .cons b0 m0 r0, .cons b m r, a :: as, h => by
    simp only [ExtL] at h
    simp [BL.names, h.1, ExtL.names r0 r as h.2.2.2]
  | .nil, .cons _ _ _, _, h => by simp [ExtL] at h
  | .cons _ _ _, .nil, _, h => by simp [ExtL] at h
  | .nil, .nil, _ :: _, h => by simp [ExtL] at h
  | .cons _ _ _, .cons _ _ _, [], h => by simp [ExtL] at h

theorem ExtL.length : ∀ (fs0 fs : BL) (adds : List (List LVal)), ExtL fs0 fs adds →
    fs.length = fs0.length ∧ adds.length = fs0.length
  | .nil, .nil, [], _ => ⟨rfl, rfl⟩
  | .cons b0 m0 r0, .cons b m r, a :: as, h => by
    simp only [ExtL] at h
    have := ExtL.length r0 r as h.2.2.2
    simp [BL.length, this.1, this.2]
  | .nil, .cons _ _ _, _, h => by simp [ExtL] at h
  | .cons _ _ _, .nil, _, h => by simp [ExtL] at h
  | .nil, .nil, _ :: _, h => by simp [ExtL] at h
  | .cons _ _ _, .cons _ _ _, [], h => by simp [ExtL] at h

theorem ExtL.get : ∀ (fs0 fs : BL) (adds : List (List LVal)) (i : Nat) (x : B × FieldMeta), ExtL fs0 fs adds →
    fs.get? i = some x → WFB x.1
  | .cons b0 m0 r0, .cons b m r, a :: as, 0, x, h, hg => by
    simp only [ExtL] at h
    simp [BL.get?] at hg; subst hg; exact h.2.1
  | .cons b0 m0 r0, .cons b m r, a :: as, i + 1, x, h, hg => by
    simp only [ExtL] at h
    simp only [BL.get?] at hg
    exact ExtL.get r0 r as i x h.2.2.2 hg
  | .nil, .nil, [], _, _, _, hg => by simp [BL.get?] at hg
  | .nil, .cons _ _ _, _, _, _, h, _ => by simp [ExtL] at h
  | .cons _ _ _, .nil, _, _, _, h, _ => by simp [ExtL] at h
  | .nil, .nil, _ :: _, _, _, h, _ => by simp [ExtL] at h
  | .cons _ _ _, .cons _ _ _, [], _, _, h, _ => by simp [ExtL] at h

/-- one child moves on -/
theorem ExtL.set : ∀ (fs0 fs : BL) (adds : List (List LVal)) (i : Nat) (c c' : B) (m : FieldMeta) (ls : List LVal),
    ExtL fs0 fs adds → fs.get? i = some (c, m) → WFB c' → dec c' = dec c ++ ls →
    ExtL fs0 (fs.set i c') (adds.set i (adds.getD i [] ++ ls))
  | .cons b0 m0 r0, .cons b m r, a :: as, 0, c, c', m', ls, h, hg, hc, hd => by
    simp only [ExtL] at h
    simp [BL.get?] at hg; obtain ⟨rfl, rfl⟩ := hg
    simp only [BL.set, List.set_cons_zero, ExtL, List.getD_cons_zero]
    exact ⟨h.1, hc, by rw [hd, h.2.2.1, List.append_assoc], h.2.2.2⟩
  | .cons b0 m0 r0, .cons b m r, a :: as, i + 1, c, c', m', ls, h, hg, hc, hd => by
    simp only [ExtL] at h
    simp only [BL.get?] at hg
    simp only [BL.set, List.set_cons_succ, ExtL, List.getD_cons_succ]
    exact ⟨h.1, h.2.1, h.2.2.1, ExtL.set r0 r as i c c' m' ls h.2.2.2 hg hc hd⟩
  | .nil, .nil, [], _, _, _, _, _, _, hg, _, _ => by simp [BL.get?] at hg
  | .nil, .cons _ _ _, _, _, _, _, _, _, h, _, _, _ => by simp [ExtL] at h
  | .cons _ _ _, .nil, _, _, _, _, _, _, h, _, _, _ => by simp [ExtL] at h
  | .nil, .nil, _ :: _, _, _, _, _, _, h, _, _, _ => by simp [ExtL] at h
  | .cons _ _ _, .cons _ _ _, [], _, _, _, _, _, h, _, _, _ => by simp [ExtL] at h

theorem ExtL.wfl : ∀ (fs0 fs : BL) (adds : List (List LVal)) (len k : Nat), WFL fs0 len → ExtL fs0 fs adds →
    (∀ a ∈ adds, a.length = k) → WFL fs (len + k)
  | .nil, .nil, [], _, _, _, _, _ => by simp [WFL]
  | .cons b0 m0 r0, .cons b m r, a :: as, len, k, hw, h, hk => by
    simp only [ExtL] at h
    simp only [WFL] at hw ⊢
    refine ⟨h.2.1, ?_, ExtL.wfl r0 r as len k hw.2.2 h.2.2.2 (fun a' ha' => hk a' (by simp [ha']))⟩
    rw [h.2.2.1, List.length_append, hw.2.1, hk a (by simp)]
  | .nil, .cons _ _ _, _, _, _, _, h, _ => by simp [ExtL] at h
  | .cons _ _ _, .nil, _, _, _, _, h, _ => by simp [ExtL] at h
  | .nil, .nil, _ :: _, _, _, _, h, _ => by simp [ExtL] at h
  | .cons _ _ _, .cons _ _ _, [], _, _, _, h, _ => by simp [ExtL] at h

theorem ExtL.row_old : ∀ (fs0 fs : BL) (adds : List (List LVal)) (len i : Nat), WFL fs0 len → ExtL fs0 fs adds →
    i < len → (decCols fs).map (fun c => (c.1, c.2.getD i LVal.null)) = (decCols fs0).map (fun c => (c.1, c.2.getD i .null))
  | .nil, .nil, [], _, _, _, _, _ => rfl
  | .cons b0 m0 r0, .cons b m r, a :: as, len, i, hw, h, hi => by
    simp only [ExtL] at h
    simp only [WFL] at hw
    simp only [decCols, List.map_cons, h.1, h.2.2.1]
    rw [ExtL.row_old r0 r as len i hw.2.2 h.2.2.2 hi]
    simp only [List.getD_eq_getElem?_getD]
    rw [List.getElem?_append_left (by rw [hw.2.1]; exact hi)]
  | .nil, .cons _ _ _, _, _, _, _, h, _ => by simp [ExtL] at h
  | .cons _ _ _, .nil, _, _, _, _, h, _ => by simp [ExtL] at h
  | .nil, .nil, _ :: _, _, _, _, h, _ => by simp [ExtL] at h
  | .cons _ _ _, .cons _ _ _, [], _, _, _, h, _ => by simp [ExtL] at h

theorem ExtL.row_new : ∀ (fs0 fs : BL) (adds : List (List LVal)) (len i : Nat), WFL fs0 len → ExtL fs0 fs adds →
    (decCols fs).map (fun c => (c.1, c.2.getD (len + i) LVal.null)) =
      (fs0.names.zip adds).map (fun c => (c.1, c.2.getD i .null))
  | .nil, .nil, [], _, _, _, _ => rfl
  | .cons b0 m0 r0, .cons b m r, a :: as, len, i, hw, h => by
    simp only [ExtL] at h
    simp only [WFL] at hw
    simp only [decCols, List.map_cons, h.1, h.2.2.1, BL.names, List.zip_cons_cons]
    rw [ExtL.row_new r0 r as len i hw.2.2 h.2.2.2]
    simp only [List.getD_eq_getElem?_getD]
    rw [List.getElem?_append_right (by rw [hw.2.1]; omega)]
    simp [hw.2.1]
  | .nil, .cons _ _ _, _, _, _, _, h => by simp [ExtL] at h
  | .cons _ _ _, .nil, _, _, _, _, h => by simp [ExtL] at h
  | .nil, .nil, _ :: _, _, _, _, h => by simp [ExtL] at h
  | .cons _ _ _, .cons _ _ _, [], _, _, _, h => by simp [ExtL] at h

/-- `k` more rows in a struct all of whose children grew by `k` rows -/
theorem struct_append {p : String} {len : Nat} {v : Validity} {fs0 fs : BL} {cached cached' : List (Option (String × Nat))}
    {next next' : Nat} {seen seen' : List Bool} (hwf : WFB (.struct p len v fs0 cached next seen))
    (adds : List (List LVal)) (bs : List Bool) (hext : ExtL fs0 fs adds) (hk : ∀ a ∈ adds, a.length = bs.length)
    (hc : CacheInv fs.names cached') (hs : seen'.length = fs.length) :
    WFB (.struct p (len + bs.length) (v.map (· ++ bs)) fs cached' next' seen') ∧
    dec (.struct p (len + bs.length) (v.map (· ++ bs)) fs cached' next' seen') =
      dec (.struct p len v fs0 cached next seen) ++
        maskNull (v.map fun _ => bs) ((List.range bs.length).map (rowAt (fs0.names.zip adds))) := by
  simp only [WFB] at hwf
  obtain ⟨hv, hwfl, _, hnd, _⟩ := hwf
  refine ⟨?_, ?_⟩
  · simp only [WFB]
    exact ⟨hv.map_append bs, ExtL.wfl fs0 fs adds len _ hwfl hext hk, hs,
      by rw [ExtL.names fs0 fs adds hext]; exact hnd, hc⟩
  · rw [dec_struct, dec_struct, List.range_add, List.map_append, List.map_map]
    have h1 : (List.range len).map (rowAt (decCols fs)) = (List.range len).map (rowAt (decCols fs0)) := by
      apply List.map_congr_left
      intro i hi
      simp only [rowAt]
      rw [ExtL.row_old fs0 fs adds len i hwfl hext (List.mem_range.1 hi)]
    have h2 : (List.range bs.length).map (rowAt (decCols fs) ∘ fun x => len + x) =
        (List.range bs.length).map (rowAt (fs0.names.zip adds)) := by
      apply List.map_congr_left
      intro i _
      simp only [Function.comp, rowAt]
      rw [ExtL.row_new fs0 fs adds len i hwfl hext]
    rw [h1, h2]
    exact maskNull_append (by simpa using hv) bs _

/-! ### `seen` flags -/

/-- child `j` holds one additional row iff `seen[j]` -/
def Flags : List Bool → List (List LVal) → Prop
  | [], [] => True
  | s :: ss, a :: as => a.length = (if s then 1 else 0) ∧ Flags ss as
  | _, _ => False

theorem Flags.fresh : ∀ (n : Nat), Flags (List.replicate n false) (List.replicate n [])
  | 0 => by simp [Flags]
  | n + 1 => by simp [List.replicate_succ, Flags, Flags.fresh n]

theorem Flags.set : ∀ (seen : List Bool) (adds : List (List LVal)) (i : Nat) (lv : LVal), Flags seen adds →
    seen[i]? = some false → Flags (seen.set i true) (adds.set i (adds.getD i [] ++ [lv]))
  | [], [], _, _, _, h => by simp at h
  | s :: ss, a :: as, 0, lv, hf, h => by
    simp only [Flags] at hf
    simp at h; subst h
    simp only [List.set_cons_zero, Flags, List.getD_cons_zero, if_true]
    simp at hf
    simp [hf.1, hf.2]
  | s :: ss, a :: as, i + 1, lv, hf, h => by
    simp only [Flags] at hf
    simp only [List.set_cons_succ, Flags, List.getD_cons_succ]
    exact ⟨hf.1, Flags.set ss as i lv hf.2 (by simpa using h)⟩
  | [], _ :: _, _, _, hf, _ => by simp [Flags] at hf
  | _ :: _, [], _, _, hf, _ => by simp [Flags] at hf

theorem Flags.unseen : ∀ (seen : List Bool) (adds : List (List LVal)) (i : Nat), Flags seen adds →
    seen[i]? = some false → adds.getD i [] = []
  | [], [], _, _, h => by simp at h
  | s :: ss, a :: as, 0, hf, h => by
    simp only [Flags] at hf
    simp at h; subst h
    simpa using hf.1
  | s :: ss, a :: as, i + 1, hf, h => by
    simp only [Flags] at hf
    simp only [List.getD_cons_succ]
    exact Flags.unseen ss as i hf.2 (by simpa using h)
  | [], _ :: _, _, hf, _ => by simp [Flags] at hf
  | _ :: _, [], _, hf, _ => by simp [Flags] at hf

theorem Flags.length : ∀ (seen : List Bool) (adds : List (List LVal)), Flags seen adds → adds.length = seen.length
  | [], [], _ => rfl
  | s :: ss, a :: as, hf => by simp only [Flags] at hf; simp [Flags.length ss as hf.2]
  | [], _ :: _, hf => by simp [Flags] at hf
  | _ :: _, [], hf => by simp [Flags] at hf

/-! ### `Safe` on builder lists -/

theorem SafeL.get : ∀ (fs : BL) (i : Nat) (x : B × FieldMeta), SafeL fs → fs.get? i = some x → Safe x.1
  | .nil, _, _, _, h => by simp [BL.get?] at h
  | .cons b m r, 0, x, hs, h => by simp [BL.get?] at h; subst h; simp only [SafeL] at hs; exact hs.1
  | .cons b m r, i + 1, x, hs, h => by
    simp only [BL.get?] at h; simp only [SafeL] at hs; exact SafeL.get r i x hs.2 h

theorem SafeL.set : ∀ (fs : BL) (i : Nat) (c : B), SafeL fs → Safe c → SafeL (fs.set i c)
  | .nil, _, _, _, _ => by simp [BL.set, SafeL]
  | .cons b m r, 0, c, hs, hc => by simp only [SafeL] at hs; simp only [BL.set, SafeL]; exact ⟨hc, hs.2⟩
  | .cons b m r, i + 1, c, hs, hc => by
    simp only [SafeL] at hs; simp only [BL.set, SafeL]; exact ⟨hs.1, SafeL.set r i c hs.2 hc⟩

end SaModel.Build
