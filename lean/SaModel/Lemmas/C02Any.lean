import SaModel.Lemmas.C02Container
/-
C02, `deserialize_any`: the mutual structural recursion over `Arr` / `ArrFields` / `ArrUFields` behind
`Props.C02.read_any_decode` (in a lemma file so that the typed-read lemmas can use it).
-/
namespace SaModel.Read
open SaModel SaModel.Spec

/-! ### what a successful construction says about the parts -/

theorem new_struct_inv {len : Nat} {v : Option Bits} {fs : ArrFields} (h : new Fixes.all (.struct len v fs) = .ok ()) :
    newFields Fixes.all fs = .ok () := by unfold new at h; exact h

theorem newFields_cons_inv {fm : FieldMeta} {a : Arr} {rest : ArrFields}
    (h : newFields Fixes.all (.cons fm a rest) = .ok ()) : new Fixes.all a = .ok () ∧ newFields Fixes.all rest = .ok () := by
  unfold newFields at h
  obtain ⟨_, _, h⟩ := bind_ok_inv h
  obtain ⟨u, hu, h⟩ := bind_ok_inv h
  cases u
  exact ⟨hu, h⟩

theorem new_list_inv {lg : Bool} {v : Option Bits} {offs : List Int} {fm : FieldMeta} {el : Arr}
    (h : new Fixes.all (.list lg v offs fm el) = .ok ()) : new Fixes.all el = .ok () := by
  unfold new at h
  obtain ⟨_, _, h⟩ := bind_ok_inv h
  exact h

theorem new_fsl_inv {len : Nat} {v : Option Bits} {n : Int} {fm : FieldMeta} {el : Arr}
    (h : new Fixes.all (.fixedSizeList len v n fm el) = .ok ()) : new Fixes.all el = .ok () ∧ 0 ≤ n := by
  unfold new at h
  obtain ⟨_, _, h⟩ := bind_ok_inv h
  obtain ⟨u, hu, h⟩ := bind_ok_inv h
  obtain ⟨m, hm, _⟩ := bind_ok_inv h
  cases u
  refine ⟨hu, ?_⟩
  unfold tryIntoUsize at hm
  split at hm
  · assumption
  · cases hm

theorem new_map_inv {v : Option Bits} {offs : List Int} {mm : MapMeta} {ks vs : Arr}
    (h : new Fixes.all (.map v offs mm ks vs) = .ok ()) : new Fixes.all ks = .ok () ∧ new Fixes.all vs = .ok () := by
  unfold new at h
  obtain ⟨_, _, h⟩ := bind_ok_inv h
  obtain ⟨u, hu, h⟩ := bind_ok_inv h
  obtain ⟨_, _, h⟩ := bind_ok_inv h
  cases u
  exact ⟨hu, h⟩

/-! ### dictionary -/

theorem dictionary_case (ks vs : Arr) (i : Nat) (lv : LVal) (h : decodeAt (.dictionary ks vs) i = .ok lv)
    (hn : new Fixes.all (.dictionary ks vs) = .ok ()) (hp : physical (.dictionary ks vs) = true) (hu : utf8Ok lv = true) :
    readAny Fixes.all (.dictionary ks vs) i = .ok (toD (.dictionary ks vs) lv) := by
  unfold new at hn
  split at hn
  · rename_i kty kv kvals vty vv voffs vdata
    split at hn
    · rename_i hty
      simp only [Bool.and_eq_true] at hty
      split at hn
      · cases hn
      · rename_i hvv
        have hvv' : vv = none := by cases vv <;> simp_all
        subst hvv'
        unfold decodeAt at h
        simp only [lenOf] at h
        by_cases hi : i < kvals.length
        · simp only [hi, if_true] at h
          obtain ⟨klv, hk, h⟩ := bind_ok_inv h
          unfold decodeAt at hk
          simp only [hi, if_true] at hk
          rcases withValidity_ok hk with ⟨hv, rfl⟩ | ⟨hv, hpay⟩
          · simp only [pure, Except.pure] at h
            cases h
            have hs : isSome Fixes.all (.dictionary (.prim kty kv kvals) (.bytes vty none voffs vdata)) i = .ok false := by
              simp only [isSome, optIsSome, primGet_eval hi hv]; rfl
            unfold readAny; rw [anyAt_of_isSome hs]; simp [toD]
          · cases hpay
            have hleaf : leafOf kty (kvals.getD i 0) = .int (kvals.getD i 0) := by
              cases kty <;> simp_all [isIntPrim, leafOf]
            rw [hleaf] at h
            simp only at h
            split at h
            · rename_i hx0
              unfold decodeAt at h
              split at h
              · rename_i hj
                rcases withValidity_ok h with ⟨hv2, _⟩ | ⟨hv2, hpay2⟩
                · simp [isValid] at hv2
                · simp only at hpay2
                  split at hpay2
                  · rename_i hr
                    cases hpay2
                    simp only [bytesVal, hty.2, if_true, utf8Ok] at hu
                    have hp' : voffs.length - 1 ≤ 9223372036854775807 := by
                      simpa [physical, lenOf, i64Max] using hp
                    have hx : ¬ (kvals.getD i 0 > i64Max) := by
                      simp only [i64Max]
                      omega
                    have hg := bytesGet_eval (v := none) (data := vdata) hj (b := true) rfl hr
                    simp only [if_true] at hg
                    have hd : dictGetStr Fixes.all (.prim kty kv kvals) (.bytes vty none voffs vdata) i = .ok ((vdata.drop (voffs.getD (kvals.getD i 0).toNat 0).toNat).take ((voffs.getD ((kvals.getD i 0).toNat + 1) 0).toNat - (voffs.getD (kvals.getD i 0).toNat 0).toNat)) := by
                      simp only [dictGetStr, getRequired, primGet_eval hi hv, if_true, bind, Except.bind, pure, Except.pure,
                        hx, if_false, tryIntoUsize_nonneg hx0, hg, asStr, hu]
                    have hs : isSome Fixes.all (.dictionary (.prim kty kv kvals) (.bytes vty none voffs vdata)) i = .ok true := by
                      simp only [isSome, optIsSome, primGet_eval hi hv]; rfl
                    unfold readAny; rw [anyAt_of_isSome hs]
                    simp only [if_true, readAnySome, hd, bytesVal, hty.2, toD]
                    rfl
                  · cases hpay2
              · cases h
            · cases h
        · simp only [hi, if_false] at h; cases h
    · cases hn
  · cases hn

/-! ### dense unions -/

theorem go_spec : ∀ (ids : List Int) (t : Int) (k p : Nat), indexOfTypeId.go t ids k = some p → k ≤ p ∧ ids[p - k]? = some t
  | [], _, _, _, h => by simp [indexOfTypeId.go] at h
  | x :: xs, t, k, p, h => by
    unfold indexOfTypeId.go at h
    split at h
    · rename_i hx
      cases h
      simp only [beq_iff_eq] at hx
      simp [hx]
    · obtain ⟨h1, h2⟩ := go_spec xs t (k + 1) p h
      refine ⟨by omega, ?_⟩
      have : p - k = (p - (k + 1)) + 1 := by omega
      rw [this, List.getElem?_cons_succ]
      exact h2

theorem ids_consecutive : ∀ (fs : ArrUFields) (k : Nat), newUFields Fixes.all fs k = .ok () →
    ∀ p t, (ArrUFields.ids fs)[p]? = some t → t = ((k + p : Nat) : Int) ∧ p < fs.length
  | .nil, _, _, p, t, h => by simp [ArrUFields.ids] at h
  | .cons tid fm a rest, k, hn, p, t, h => by
    unfold newUFields at hn
    split at hn
    · cases hn
    · rename_i htid
      obtain ⟨_, _, hn⟩ := bind_ok_inv hn
      obtain ⟨_, _, hn⟩ := bind_ok_inv hn
      simp only [ArrUFields.ids] at h
      cases p with
      | zero =>
        simp only [List.getElem?_cons_zero, Option.some.injEq] at h
        subst h
        have : tid = Int.ofNat k := by
          by_cases hh : tid = Int.ofNat k
          · exact hh
          · exact absurd hh htid
        simp [this, ArrUFields.length]
      | succ p =>
        simp only [List.getElem?_cons_succ] at h
        obtain ⟨h1, h2⟩ := ids_consecutive rest (k + 1) hn p t h
        refine ⟨by rw [h1]; congr 1; omega, by simp [ArrUFields.length]; omega⟩

theorem findId_consecutive : ∀ (fs : ArrUFields) (k pos : Nat) (fm : FieldMeta) (child : Arr),
    newUFields Fixes.all fs k = .ok () → ArrUFields.nth fs pos = some (fm, child) →
    ArrUFields.findId fs ((k + pos : Nat) : Int) = some (fm, child)
  | .nil, _, _, _, _, _, h => by simp [ArrUFields.nth] at h
  | .cons tid fm0 a rest, k, pos, fm, child, hn, h => by
    unfold newUFields at hn
    split at hn
    · cases hn
    · rename_i htid
      have htid' : tid = Int.ofNat k := by
        by_cases hh : tid = Int.ofNat k
        · exact hh
        · exact absurd hh htid
      obtain ⟨_, _, hn⟩ := bind_ok_inv hn
      obtain ⟨_, _, hn⟩ := bind_ok_inv hn
      cases pos with
      | zero =>
        simp only [ArrUFields.nth, Option.some.injEq] at h
        simp [ArrUFields.findId, htid', h]
      | succ pos =>
        simp only [ArrUFields.nth] at h
        have ih := findId_consecutive rest (k + 1) pos fm child hn h
        have hne : (tid == ((k + (pos + 1) : Nat) : Int)) = false := by
          rw [htid']; simp; omega
        simp only [ArrUFields.findId, hne, Bool.false_eq_true, if_false]
        have : ((k + (pos + 1) : Nat) : Int) = ((k + 1 + pos : Nat) : Int) := by congr 1; omega
        rw [this]; exact ih

/-! ### the containers -/

theorem anyAt_eq_readAny (a : Arr) (i : Nat) : anyAt Fixes.all a (readAnySome Fixes.all a) i = readAny Fixes.all a i := rfl

mutual
theorem readAny_decodeAt : ∀ (a : Arr) (i : Nat) (lv : LVal),
    decodeAt a i = .ok lv → new Fixes.all a = .ok () → physical a = true → utf8Ok lv = true →
    readAny Fixes.all a i = .ok (toD a lv)
  | .null _, _, _, h, _, _, _ => null_case h
  | .boolean _ _ _, _, _, h, _, _, _ => boolean_case h
  | .prim _ _ _, _, _, h, _, _, _ => prim_case h
  | .time _ _ _ _, _, _, h, _, _, _ => time_case h
  | .timestamp _ _ _ _, _, _, h, _, _, _ => timestamp_case h
  | .decimal128 _ _ _ _, _, _, h, _, _, _ => decimal_case h
  | .bytes _ _ _ _, _, _, h, _, _, hu => bytes_case h hu
  | .bytesView _ _ _ _, _, _, h, _, _, hu => view_case h hu
  | .fixedSizeBinary _ _ _, _, _, h, hn, _, _ => fsb_case h hn
  | .struct len v fs, i, lv, h, hn, hp, hu => by
    unfold decodeAt at h
    split at h
    · rename_i hi
      have hlt : ¬ i ≥ len := by omega
      have his : isSome Fixes.all (.struct len v fs) i = validityIsSet Fixes.all v i := by simp only [isSome, hlt, if_false]
      rcases withValidity_ok h with ⟨hv, rfl⟩ | ⟨hv, hpay⟩
      · unfold readAny; rw [anyAt_of_isSome (container_isSome hv his)]; simp [toD]
      · obtain ⟨vals, hvals, hpay⟩ := bind_ok_inv hpay
        cases hpay
        unfold physical at hp
        simp only [utf8Ok] at hu
        have hf := readAnyFields_decodeAt fs i vals hvals (new_struct_inv hn) hp hu
        unfold readAny; rw [anyAt_of_isSome (container_isSome hv his)]
        simp only [if_true, readAnySome, hlt, if_false, hf, toD]
        rfl
    · cases h
  | .list lg v offs fm el, i, lv, h, hn, hp, hu => by
    unfold decodeAt at h
    split at h
    · rename_i hi
      have hlt : ¬ i + 1 ≥ offs.length := by omega
      have his : isSome Fixes.all (.list lg v offs fm el) i = validityIsSet Fixes.all v i := by simp only [isSome, hlt, if_false]
      rcases withValidity_ok h with ⟨hv, rfl⟩ | ⟨hv, hpay⟩
      · unfold readAny; rw [anyAt_of_isSome (container_isSome hv his)]; simp [toD]
      · obtain ⟨xs, hxs, hpay⟩ := bind_ok_inv hpay
        cases hpay
        obtain ⟨h0, h1, _, hseq⟩ := rangeAt_ok hxs
        unfold physical at hp
        simp only [utf8Ok] at hu
        have hr := readRange_of_seqAt (g := readAny Fixes.all el) (h := toD el) (P := fun v => utf8Ok v = true)
          (fun j v hj hv' => readAny_decodeAt el j v hj (new_list_inv hn) hp hv') _ _ xs hseq (utf8OkList_mem xs hu)
        unfold readAny; rw [anyAt_of_isSome (container_isSome hv his)]
        simp only [if_true, readAnySome, listRange_eval hi h0 h1, bind, Except.bind, anyAt_eq_readAny]
        have hr' : readRange (anyAt Fixes.all el (readAnySome Fixes.all el)) (offs.getD i 0).toNat
            ((offs.getD (i + 1) 0).toNat - (offs.getD i 0).toNat) = .ok (xs.map (toD el)) := hr
        simp only [hr', toD, toDList_ofList, pure, Except.pure]
    · cases h
  | .fixedSizeList len v n fm el, i, lv, h, hn, hp, hu => by
    unfold decodeAt at h
    split at h
    · rename_i hi
      have hlt : ¬ i ≥ len := by omega
      have his : isSome Fixes.all (.fixedSizeList len v n fm el) i = validityIsSet Fixes.all v i := by
        simp only [isSome, hlt, if_false]
      rcases withValidity_ok h with ⟨hv, rfl⟩ | ⟨hv, hpay⟩
      · unfold readAny; rw [anyAt_of_isSome (container_isSome hv his)]; simp [toD]
      · obtain ⟨hnew, hn0⟩ := new_fsl_inv hn
        have hneg : ¬ n < 0 := by omega
        simp only [hneg, if_false] at hpay
        obtain ⟨xs, hxs, hpay⟩ := bind_ok_inv hpay
        cases hpay
        obtain ⟨_, _, hle, hseq⟩ := rangeAt_ok hxs
        unfold physical at hp
        simp only [Bool.and_eq_true, decide_eq_true_eq] at hp
        simp only [utf8Ok] at hu
        have hr := readRange_of_seqAt (g := readAny Fixes.all el) (h := toD el) (P := fun v => utf8Ok v = true)
          (fun j v hj hv' => readAny_decodeAt el j v hj hnew hp.2 hv') _ _ xs hseq (utf8OkList_mem xs hu)
        have e1 : ((i : Int) * n).toNat = i * n.toNat := by
          have : (i : Int) * n = ((i * n.toNat : Nat) : Int) := by
            rw [Int.natCast_mul, Int.toNat_of_nonneg hn0]
          rw [this, Int.toNat_natCast]
        have e2 : (((i : Int) + 1) * n).toNat = (i + 1) * n.toNat := by
          have : ((i : Int) + 1) * n = (((i + 1) * n.toNat : Nat) : Int) := by
            rw [Int.natCast_mul, Int.toNat_of_nonneg hn0]; simp
          rw [this, Int.toNat_natCast]
        have hfit : ¬ (i + 1) * n.toNat > usizeMax := by
          have : (((i + 1) * n.toNat : Nat) : Int) ≤ (lenOf el : Int) := by
            rw [Int.natCast_mul, Int.toNat_of_nonneg hn0]; simpa using hle
          omega
        have hrange : fslRange Fixes.all len n i = .ok (i * n.toNat, (i + 1) * n.toNat) := by
          unfold fslRange
          simp only [hlt, if_false, tryIntoUsize_nonneg hn0, bind, Except.bind, hfit, pure, Except.pure]
        rw [e1, e2] at hr
        unfold readAny; rw [anyAt_of_isSome (container_isSome hv his)]
        have hr' : readRange (anyAt Fixes.all el (readAnySome Fixes.all el)) (i * n.toNat)
            ((i + 1) * n.toNat - i * n.toNat) = .ok (xs.map (toD el)) := hr
        simp only [if_true, readAnySome, hrange, bind, Except.bind, hr', toD, toDList_ofList, pure, Except.pure]
    · cases h
  | .map v offs mm ks vs, i, lv, h, hn, hp, hu => by
    unfold decodeAt at h
    split at h
    · rename_i hi
      have hlt : ¬ i + 1 ≥ offs.length := by omega
      have his : isSome Fixes.all (.map v offs mm ks vs) i = validityIsSet Fixes.all v i := by simp only [isSome, hlt, if_false]
      rcases withValidity_ok h with ⟨hv, rfl⟩ | ⟨hv, hpay⟩
      · unfold readAny; rw [anyAt_of_isSome (container_isSome hv his)]; simp [toD]
      · obtain ⟨kxs, hk, hpay⟩ := bind_ok_inv hpay
        obtain ⟨wxs, hw, hpay⟩ := bind_ok_inv hpay
        cases hpay
        obtain ⟨h0, h1, _, hkseq⟩ := rangeAt_ok hk
        obtain ⟨_, _, _, hwseq⟩ := rangeAt_ok hw
        obtain ⟨hnk, hnv⟩ := new_map_inv hn
        unfold physical at hp
        simp only [Bool.and_eq_true] at hp
        simp only [utf8Ok] at hu
        have hlen : kxs.length = wxs.length := by
          rw [seqAt_length _ _ _ hkseq, seqAt_length _ _ _ hwseq]
        obtain ⟨pk, pw⟩ := utf8OkEntries_zip kxs wxs hlen hu
        have hr := readRange_pairs_of_seqAt (g1 := readAny Fixes.all ks) (g2 := readAny Fixes.all vs)
          (h1 := toD ks) (h2 := toD vs) (P := fun v => utf8Ok v = true)
          (fun j v hj hv' => readAny_decodeAt ks j v hj hnk hp.1 hv')
          (fun j v hj hv' => readAny_decodeAt vs j v hj hnv hp.2 hv') _ _ kxs wxs hkseq hwseq pk pw
        unfold readAny; rw [anyAt_of_isSome (container_isSome hv his)]
        simp only [if_true, readAnySome, listRange_eval hi h0 h1, bind, Except.bind]
        have hr' : readRange (fun j => do
              let k ← anyAt Fixes.all ks (readAnySome Fixes.all ks) j
              let v ← anyAt Fixes.all vs (readAnySome Fixes.all vs) j
              pure (k, v)) (offs.getD i 0).toNat ((offs.getD (i + 1) 0).toNat - (offs.getD i 0).toNat)
            = .ok ((kxs.zip wxs).map fun (k, w) => (toD ks k, toD vs w)) := hr
        simp only [bind, Except.bind, pure, Except.pure] at hr'
        simp only [hr', toD, toDEntries_ofList, pure, Except.pure]
    · cases h
  | .dictionary ks vs, i, lv, h, hn, hp, hu => by
    exact dictionary_case ks vs i lv h hn hp hu
  | .union types offs fs, i, lv, h, hn, hp, hu => by
    unfold new at hn
    split at hn
    · cases hn
    · rename_i o
      split at hn
      · cases hn
      · rename_i hlen
        have hlen' : types.length = o.length := by
          by_cases hh : types.length = o.length
          · exact hh
          · exact absurd hh (by simpa using hlen)
        unfold decodeAt at h
        split at h
        · rename_i hi
          try simp only at h
          split at h
          · cases h
          · rename_i pos hpos
            try simp only at h
            split at h
            · rename_i hc
              obtain ⟨v, hv, h⟩ := bind_ok_inv h
              cases h
              unfold indexOfTypeId at hpos
              obtain ⟨_, hget⟩ := go_spec _ _ _ _ hpos
              simp only [Nat.sub_zero] at hget
              obtain ⟨ht, hposlt⟩ := ids_consecutive fs 0 hn pos _ hget
              simp only [Nat.zero_add] at ht
              unfold physical at hp
              simp only [utf8Ok] at hu
              obtain ⟨fm, child, hnth, hread⟩ := readAnyVariant_decodeAt fs 0 pos _ v hv hn hp hu
              have hfind := findId_consecutive fs 0 pos fm child hn hnth
              simp only [Nat.zero_add] at hfind
              have hio : i < o.length := hc.1
              have hsel : unionSelect Fixes.all types (some o) fs.length i = .ok (pos, (o.getD i (-1)).toNat) := by
                unfold unionSelect
                have h1 : ¬ i ≥ types.length := by omega
                have h2 : ¬ types.length ≠ o.length := by omega
                rw [getD_of_lt _ _ _ hi] at ht
                have h3 : 0 ≤ types[i] ∧ types[i].toNat < fs.length := by rw [ht]; constructor <;> omega
                have h4 : types[i].toNat = pos := by rw [ht]; simp
                have hoff : 0 ≤ o[i] := by
                  have := hc.2
                  rwa [getD_of_lt _ _ _ hio] at this
                simp only [h1, if_false, h2, List.getElem?_eq_getElem hi, List.getElem?_eq_getElem hio,
                  getD_of_lt _ _ _ hio, bind, Except.bind, tryIntoUsize_nonneg hoff, h3, and_self, if_true, h4,
                  hposlt, true_and, pure, Except.pure]
              have hs : isSome Fixes.all (.union types (some o) fs) i = .ok true := by
                have h1 : ¬ i ≥ types.length := by omega
                simp only [isSome, h1, if_false]
              unfold readAny; rw [anyAt_of_isSome hs]
              simp only [if_true, readAnySome, hsel, bind, Except.bind, hread, toD]
              rw [ht, hfind]
            · cases h
        · cases h
theorem readAnyVariant_decodeAt : ∀ (fs : ArrUFields) (k pos j : Nat) (v : LVal),
    decodeVariantAt fs pos j = .ok v → newUFields Fixes.all fs k = .ok () → physicalUFields fs = true →
    utf8Ok v = true →
    ∃ fm child, ArrUFields.nth fs pos = some (fm, child) ∧
      readAnyVariant Fixes.all fs pos j = .ok (.enum (.str .transient (strBytes fm.name)) (toD child v))
  | .nil, _, _, _, _, h, _, _, _ => by unfold decodeVariantAt at h; cases h
  | .cons tid fm a rest, k, 0, j, v, h, hn, hp, hu => by
    unfold decodeVariantAt at h
    unfold newUFields at hn
    split at hn
    · cases hn
    · obtain ⟨_, _, hn⟩ := bind_ok_inv hn
      obtain ⟨u, hna, hn⟩ := bind_ok_inv hn
      cases u
      unfold physicalUFields at hp
      simp only [Bool.and_eq_true] at hp
      refine ⟨fm, a, by simp [ArrUFields.nth], ?_⟩
      unfold readAnyVariant
      rw [anyAt_eq_readAny, readAny_decodeAt a j v h hna hp.1 hu]
      rfl
  | .cons tid fm a rest, k, pos + 1, j, v, h, hn, hp, hu => by
    unfold decodeVariantAt at h
    unfold newUFields at hn
    split at hn
    · cases hn
    · obtain ⟨_, _, hn⟩ := bind_ok_inv hn
      obtain ⟨_, _, hn⟩ := bind_ok_inv hn
      unfold physicalUFields at hp
      simp only [Bool.and_eq_true] at hp
      obtain ⟨fm', child, hnth, hr⟩ := readAnyVariant_decodeAt rest (k + 1) pos j v h hn hp.2 hu
      refine ⟨fm', child, by simp [ArrUFields.nth, hnth], ?_⟩
      unfold readAnyVariant
      exact hr
theorem readAnyFields_decodeAt : ∀ (fs : ArrFields) (i : Nat) (vals : List (String × LVal)),
    decodeFieldsAt fs i = .ok vals → newFields Fixes.all fs = .ok () → physicalFields fs = true →
    utf8OkFields (LFields.ofList vals) = true →
    readAnyFields Fixes.all fs i = .ok (toDFields fs (LFields.ofList vals))
  | .nil, _, _, h, _, _, _ => by
    unfold decodeFieldsAt at h; cases h
    simp [readAnyFields, LFields.ofList, toDFields]
  | .cons fm a rest, i, vals, h, hn, hp, hu => by
    unfold decodeFieldsAt at h
    obtain ⟨v, hv, h⟩ := bind_ok_inv h
    obtain ⟨r, hr, h⟩ := bind_ok_inv h
    cases h
    obtain ⟨hna, hnr⟩ := newFields_cons_inv hn
    unfold physicalFields at hp
    simp only [Bool.and_eq_true] at hp
    simp only [LFields.ofList, utf8OkFields, Bool.and_eq_true] at hu
    have h1 := readAny_decodeAt a i v hv hna hp.1 hu.1
    have h2 := readAnyFields_decodeAt rest i r hr hnr hp.2 hu.2
    unfold readAnyFields
    rw [anyAt_eq_readAny, h1, h2]
    simp [LFields.ofList, toDFields]
    rfl
end

end SaModel.Read
