import SaModel.Lemmas.C02Leaf
/-
Container cases of C02 (`read_any_decode`): ranges of lists / maps, struct fields, dictionary keys, dense unions.
-/
namespace SaModel.Read
open SaModel SaModel.Spec

/-! physical representability: what the Rust types guarantee and Lean's unbounded lists do not -/
mutual
/-- lengths a Rust `usize` / slice can hold: the child of a FixedSizeList has at most `usize::MAX` slots, the values
of a dictionary at most `i64::MAX` (a slice holds at most `isize::MAX` elements) -/
def physical : Arr → Bool
  | .struct _ _ fs => physicalFields fs
  | .list _ _ _ _ el => physical el
  | .fixedSizeList _ _ _ _ el => decide (lenOf el ≤ usizeMax) && physical el
  | .map _ _ _ ks vs => physical ks && physical vs
  | .dictionary _ vs => decide (lenOf vs ≤ i64Max.toNat)
  | .union _ _ fs => physicalUFields fs
  | _ => true
def physicalFields : ArrFields → Bool
  | .nil => true
  | .cons _ a r => physical a && physicalFields r
def physicalUFields : ArrUFields → Bool
  | .nil => true
  | .cons _ _ a r => physical a && physicalUFields r
end

theorem bind_ok_inv {α β} {x : R α} {f : α → R β} {b : β} (h : (x >>= f) = .ok b) : ∃ a, x = .ok a ∧ f a = .ok b := by
  cases x with
  | ok a => exact ⟨a, rfl, h⟩
  | error e => cases h

/-! ### ranges -/

theorem readRange_of_seqAt {f : Nat → R LVal} {g : Nat → R DVal} {h : LVal → DVal} {P : LVal → Prop}
    (hfg : ∀ j v, f j = .ok v → P v → g j = .ok (h v)) :
    ∀ (n s : Nat) (xs : List LVal), seqAt f s n = .ok xs → (∀ v ∈ xs, P v) → readRange g s n = .ok (xs.map h)
  | 0, s, xs, hs, _ => by
    unfold seqAt at hs; cases hs; rfl
  | n + 1, s, xs, hs, hp => by
    unfold seqAt at hs
    obtain ⟨v, hv, hs⟩ := bind_ok_inv hs
    obtain ⟨vs, hvs, hs⟩ := bind_ok_inv hs
    cases hs
    unfold readRange
    rw [hfg s v hv (hp v (by simp)), readRange_of_seqAt hfg n (s + 1) vs hvs (fun w hw => hp w (by simp [hw]))]
    rfl

theorem readRange_pairs_of_seqAt {f1 f2 : Nat → R LVal} {g1 g2 : Nat → R DVal} {h1 h2 : LVal → DVal} {P : LVal → Prop}
    (hfg1 : ∀ j v, f1 j = .ok v → P v → g1 j = .ok (h1 v)) (hfg2 : ∀ j v, f2 j = .ok v → P v → g2 j = .ok (h2 v)) :
    ∀ (n s : Nat) (ks ws : List LVal), seqAt f1 s n = .ok ks → seqAt f2 s n = .ok ws →
      (∀ v ∈ ks, P v) → (∀ v ∈ ws, P v) →
      readRange (fun j => do let k ← g1 j; let v ← g2 j; pure (k, v)) s n = .ok ((ks.zip ws).map fun (k, w) => (h1 k, h2 w))
  | 0, s, ks, ws, hk, hw, _, _ => by
    unfold seqAt at hk hw; cases hk; cases hw; rfl
  | n + 1, s, ks, ws, hk, hw, pk, pw => by
    unfold seqAt at hk hw
    obtain ⟨k, hk1, hk⟩ := bind_ok_inv hk
    obtain ⟨ks', hks, hk⟩ := bind_ok_inv hk
    cases hk
    obtain ⟨w, hw1, hw⟩ := bind_ok_inv hw
    obtain ⟨ws', hws, hw⟩ := bind_ok_inv hw
    cases hw
    unfold readRange
    simp only [hfg1 s k hk1 (pk k (by simp)), hfg2 s w hw1 (pw w (by simp)), bind, Except.bind, pure, Except.pure]
    have := readRange_pairs_of_seqAt hfg1 hfg2 n (s + 1) ks' ws' hks hws (fun v hv => pk v (by simp [hv]))
      (fun v hv => pw v (by simp [hv]))
    simp only [bind, Except.bind, pure, Except.pure] at this
    rw [this]
    rfl

theorem rangeAt_ok {f : Nat → R LVal} {len : Nat} {s e : Int} {xs : List LVal} (h : rangeAt f len s e = .ok xs) :
    0 ≤ s ∧ s ≤ e ∧ e ≤ len ∧ seqAt f s.toNat (e.toNat - s.toNat) = .ok xs := by
  unfold rangeAt at h
  split at h
  · rename_i hc; exact ⟨hc.1, hc.2.1, hc.2.2, h⟩
  · cases h

theorem listRange_eval {offs : List Int} {i : Nat} (hi : i < offs.length - 1)
    (h0 : 0 ≤ offs.getD i 0) (h1 : offs.getD i 0 ≤ offs.getD (i + 1) 0) :
    listRange Fixes.all offs i = .ok ((offs.getD i 0).toNat, (offs.getD (i + 1) 0).toNat) := by
  unfold listRange
  have a1 : i < offs.length := by omega
  have a2 : i + 1 < offs.length := by omega
  have hc : ¬ (i + 1 ≥ offs.length) := by omega
  rw [getD_of_lt _ _ _ a1] at h0 h1
  rw [getD_of_lt _ _ _ a2] at h1
  have e1 : tryIntoUsize offs[i] = .ok offs[i].toNat := tryIntoUsize_nonneg h0
  have e2 : tryIntoUsize offs[i + 1] = .ok offs[i + 1].toNat := tryIntoUsize_nonneg (by omega)
  have hc2 : ¬ (offs[i].toNat > offs[i + 1].toNat) := by omega
  simp only [hc, if_false, List.getElem?_eq_getElem a1, List.getElem?_eq_getElem a2, getD_of_lt _ _ _ a1,
    getD_of_lt _ _ _ a2, e1, e2, bind, Except.bind, all_offsetsOrder, Bool.true_and, decide_eq_true_eq, hc2,
    pure, Except.pure]

theorem toDList_ofList (el : Arr) : ∀ (xs : List LVal), toDList el (LVals.ofList xs) = DVals.ofList (xs.map (toD el))
  | [] => by simp [LVals.ofList, toDList, DVals.ofList]
  | x :: xs => by simp [LVals.ofList, toDList, DVals.ofList, toDList_ofList el xs]

theorem utf8OkList_mem : ∀ (xs : List LVal), utf8OkList (LVals.ofList xs) = true → ∀ v ∈ xs, utf8Ok v = true
  | [], _, v, hv => by cases hv
  | x :: xs, h, v, hv => by
    simp only [LVals.ofList, utf8OkList, Bool.and_eq_true] at h
    cases hv with
    | head => exact h.1
    | tail _ hm => exact utf8OkList_mem xs h.2 v hm

theorem toDEntries_ofList (ks vs : Arr) : ∀ (es : List (LVal × LVal)),
    toDEntries ks vs (LEntries.ofList es) = DEntries.ofList (es.map fun (k, w) => (toD ks k, toD vs w))
  | [] => by simp [LEntries.ofList, toDEntries, DEntries.ofList]
  | (k, w) :: es => by simp [LEntries.ofList, toDEntries, DEntries.ofList, toDEntries_ofList ks vs es]

theorem utf8OkEntries_zip : ∀ (ks ws : List LVal), ks.length = ws.length →
    utf8OkEntries (LEntries.ofList (ks.zip ws)) = true → (∀ v ∈ ks, utf8Ok v = true) ∧ (∀ v ∈ ws, utf8Ok v = true)
  | [], [], _, _ => by constructor <;> intro v hv <;> cases hv
  | [], _ :: _, hl, _ => by simp at hl
  | _ :: _, [], hl, _ => by simp at hl
  | k :: ks, w :: ws, hl, h => by
    simp only [List.zip_cons_cons, LEntries.ofList, utf8OkEntries, Bool.and_eq_true] at h
    have ih := utf8OkEntries_zip ks ws (by simpa using hl) h.2
    constructor
    · intro v hv
      cases hv with
      | head => exact h.1.1
      | tail _ hm => exact ih.1 v hm
    · intro v hv
      cases hv with
      | head => exact h.1.2
      | tail _ hm => exact ih.2 v hm

theorem seqAt_length {f : Nat → R LVal} : ∀ (n s : Nat) (xs : List LVal), seqAt f s n = .ok xs → xs.length = n
  | 0, _, xs, h => by unfold seqAt at h; cases h; rfl
  | n + 1, s, xs, h => by
    unfold seqAt at h
    obtain ⟨v, _, h⟩ := bind_ok_inv h
    obtain ⟨vs, hvs, h⟩ := bind_ok_inv h
    cases h
    simp [seqAt_length n (s + 1) vs hvs]

/-! ### evaluating `is_some` of the containers -/

theorem container_isSome {a : Arr} {v : Option Bits} {i : Nat} {b : Bool} (hv : isValid v i = .ok b)
    (hs : isSome Fixes.all a i = validityIsSet Fixes.all v i) : isSome Fixes.all a i = .ok b := by
  rw [hs, validityIsSet_all, hv]

end SaModel.Read
