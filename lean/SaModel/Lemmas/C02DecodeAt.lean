import SaModel.Spec.DecodeAt
/-
`Spec.decodeAt` (one slot at a time) is `Spec.decode` (materialise every slot, pick one): by mutual structural
recursion over `Arr` / `ArrFields` / `ArrUFields`.  No well-formedness is needed — both sides fail in the same
places, with the same value (`fail "child index out of range"` = `oob`).
-/
namespace SaModel.Spec
open SaModel

theorem slot_nil (i : Nat) : slot [] i = oob := by simp [slot, oob]

theorem slot_map_range (f : Nat → R LVal) (n i : Nat) :
    slot ((List.range n).map f) i = if i < n then f i else oob := by
  unfold slot
  by_cases h : i < n
  · simp [h]
  · simp [h, oob]

theorem slot_map (g : R LVal → R LVal) (xs : List (R LVal)) (i : Nat) :
    slot (xs.map g) i = if i < xs.length then g (slot xs i) else oob := by
  unfold slot
  by_cases h : i < xs.length
  · simp [h]
  ·     simp [h, oob]

theorem slot_replicate (n i : Nat) (x : R LVal) : slot (List.replicate n x) i = if i < n then x else oob := by
  unfold slot
  by_cases h : i < n
  · simp [h]
  · simp [h, oob]

theorem seqAt_congr {f g : Nat → R LVal} (h : ∀ i, f i = g i) : ∀ n s, seqAt f s n = seqAt g s n
  | 0, _ => rfl
  | n + 1, s => by unfold seqAt; rw [h s, seqAt_congr h n (s + 1)]

theorem allOk_drop_take (xs : List (R LVal)) : ∀ (n s : Nat), s + n ≤ xs.length →
    allOk ((xs.drop s).take n) = seqAt (slot xs) s n
  | 0, s, _ => by simp [allOk, seqAt]
  | n + 1, s, h => by
    have hs : s < xs.length := by omega
    have hd : xs.drop s = xs[s] :: xs.drop (s + 1) := List.drop_eq_getElem_cons hs
    rw [hd, List.take_succ_cons]
    unfold allOk seqAt
    have : slot xs s = xs[s] := by simp [slot, hs]
    rw [this, allOk_drop_take xs n (s + 1) (by omega)]

theorem range_eq_rangeAt (xs : List (R LVal)) (f : Nat → R LVal) (len : Nat) (hl : xs.length = len)
    (hs : ∀ i, slot xs i = f i) (s e : Int) : range xs s e = rangeAt f len s e := by
  unfold range rangeAt
  rw [hl]
  split
  · rename_i hc
    have : s.toNat + (e.toNat - s.toNat) ≤ xs.length := by omega
    rw [allOk_drop_take xs _ _ this]
    exact seqAt_congr hs _ _
  · rfl

mutual
theorem decodeAll_spec : ∀ (a : Arr), (decodeAll a).length = lenOf a ∧ ∀ i, slot (decodeAll a) i = decodeAt a i
  | .null len => by
    refine ⟨by simp [decodeAll, lenOf], fun i => ?_⟩
    unfold decodeAll decodeAt; rw [slot_replicate]
  | .boolean len v vals => by
    refine ⟨by simp [decodeAll, lenOf], fun i => ?_⟩
    unfold decodeAll decodeAt; rw [slot_map_range]
  | .prim ty v vals => by
    refine ⟨by simp [decodeAll, lenOf], fun i => ?_⟩
    unfold decodeAll decodeAt; rw [slot_map_range]
  | .time ty u v vals => by
    refine ⟨by simp [decodeAll, lenOf], fun i => ?_⟩
    unfold decodeAll decodeAt; rw [slot_map_range]
  | .timestamp u tz v vals => by
    refine ⟨by simp [decodeAll, lenOf], fun i => ?_⟩
    unfold decodeAll decodeAt; rw [slot_map_range]
  | .decimal128 p s v vals => by
    refine ⟨by simp [decodeAll, lenOf], fun i => ?_⟩
    unfold decodeAll decodeAt; rw [slot_map_range]
  | .bytes ty v offs data => by
    refine ⟨by simp [decodeAll, lenOf], fun i => ?_⟩
    unfold decodeAll decodeAt; rw [slot_map_range]
  | .bytesView ty v views buffers => by
    refine ⟨by simp [decodeAll, lenOf], fun i => ?_⟩
    unfold decodeAll decodeAt; rw [slot_map_range]
  | .fixedSizeBinary n v data => by
    constructor
    · unfold decodeAll lenOf; split <;> simp
    · intro i
      unfold decodeAll decodeAt
      split
      · exact slot_nil i
      · rw [slot_map_range]
  | .struct len v fs => by
    refine ⟨by simp [decodeAll, lenOf], fun i => ?_⟩
    unfold decodeAll decodeAt
    simp only [slot_map_range]
    split
    · have := decodeFields_spec fs i
      simp only [this]
    · rfl
  | .list lg v offs fm el => by
    refine ⟨by simp [decodeAll, lenOf], fun i => ?_⟩
    obtain ⟨hl, hs⟩ := decodeAll_spec el
    unfold decodeAll decodeAt
    simp only [slot_map_range, range_eq_rangeAt _ _ _ hl hs]
  | .fixedSizeList len v n fm el => by
    refine ⟨by simp [decodeAll, lenOf], fun i => ?_⟩
    obtain ⟨hl, hs⟩ := decodeAll_spec el
    unfold decodeAll decodeAt
    simp only [slot_map_range, range_eq_rangeAt _ _ _ hl hs]
  | .map v offs mm ks vs => by
    refine ⟨by simp [decodeAll, lenOf], fun i => ?_⟩
    obtain ⟨hl, hs⟩ := decodeAll_spec ks
    obtain ⟨hl', hs'⟩ := decodeAll_spec vs
    unfold decodeAll decodeAt
    simp only [slot_map_range, range_eq_rangeAt _ _ _ hl hs, range_eq_rangeAt _ _ _ hl' hs']
  | .dictionary ks vs => by
    obtain ⟨hl, hs⟩ := decodeAll_spec ks
    obtain ⟨_, hs'⟩ := decodeAll_spec vs
    refine ⟨by simp [decodeAll, lenOf, hl], fun i => ?_⟩
    unfold decodeAll decodeAt
    simp only [slot_map, hl, hs, hs']
    rfl
  | .union types offs fs => by
    refine ⟨by simp [decodeAll, lenOf], fun i => ?_⟩
    obtain ⟨hids, hv⟩ := decodeUFields_spec fs
    unfold decodeAll decodeAt
    simp only [slot_map_range, hids, hv]
    rfl
theorem decodeFields_spec : ∀ (fs : ArrFields) (i : Nat),
    ((decodeFields fs).mapM fun (p : String × List (R LVal)) => do pure (p.1, ← slot p.2 i)) = decodeFieldsAt fs i
  | .nil, i => by simp [decodeFields, decodeFieldsAt, pure, Except.pure]
  | .cons m a rest, i => by
    unfold decodeFields decodeFieldsAt
    rw [List.mapM_cons, decodeFields_spec rest i, (decodeAll_spec a).2 i]
    cases decodeAt a i <;> rfl
theorem decodeUFields_spec : ∀ (fs : ArrUFields), (decodeUFields fs).map (·.1) = ArrUFields.ids fs ∧
    ∀ pos j, slot ((decodeUFields fs).getD pos (0, [])).2 j = decodeVariantAt fs pos j
  | .nil => by
    refine ⟨by simp [decodeUFields, ArrUFields.ids], fun pos j => ?_⟩
    simp [decodeUFields, decodeVariantAt, slot_nil]
  | .cons t fm a rest => by
    obtain ⟨h1, h2⟩ := decodeUFields_spec rest
    refine ⟨by simp [decodeUFields, ArrUFields.ids, h1], fun pos j => ?_⟩
    cases pos with
    | zero => simp [decodeUFields, decodeVariantAt, (decodeAll_spec a).2 j]
    | succ p =>
      have := h2 p j
      simp only [decodeUFields, decodeVariantAt, List.getD_cons_succ]
      exact this
end

theorem decodeAll_eq_map_decodeAt (a : Arr) : decodeAll a = (List.range (lenOf a)).map (decodeAt a) := by
  obtain ⟨hl, hs⟩ := decodeAll_spec a
  apply List.ext_getElem
  · simp [hl]
  · intro i h1 h2
    have hi : i < lenOf a := by rw [← hl]; exact h1
    have := hs i
    simp only [slot, List.getElem?_eq_getElem h1] at this
    simp [this]

end SaModel.Spec
