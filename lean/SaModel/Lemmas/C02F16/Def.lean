import SaModel.Data.DVal
import SaModel.Basic.Float
/- C02 — one row of the comparison of `Read.f16ToF32` with `Float.convert Float.f16 Float.f32` (see `Lemmas/C02PresentFloat.lean`);
the 65 536 rows are computed in the kernel by the 16 modules `Lemmas/C02F16/T00.lean` … `T15.lean` (4 096 patterns each). -/
namespace SaModel.Props.C02
open SaModel SaModel.Read

/-- one row of the table -/
def f16Agrees (h : Nat) : Bool :=
  if Float.isNan Float.f16 h then
    Float.isNan Float.f32 (f16ToF32 (Int.ofNat h)).toNat && ((f16ToF32 (Int.ofNat h)).toNat / 2147483648 == h / 32768)
  else f16ToF32 (Int.ofNat h) == Int.ofNat (Float.convert Float.f16 Float.f32 h)

end SaModel.Props.C02
