import SaModel.Lemmas.C02F16.Def
namespace SaModel.Props.C02
/-- the `f16` patterns 0 … 4095 -/
theorem f16_table_0 : (List.range' 0 4096).all f16Agrees = true := by decide +kernel
end SaModel.Props.C02
