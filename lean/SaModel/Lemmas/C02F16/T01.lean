import SaModel.Lemmas.C02F16.Def
namespace SaModel.Props.C02
/-- the `f16` patterns 4096 … 8191 -/
theorem f16_table_1 : (List.range' 4096 4096).all f16Agrees = true := by decide +kernel
end SaModel.Props.C02
