import SaModel.Lemmas.C02F16.Def
namespace SaModel.Props.C02
/-- the `f16` patterns 8192 … 12287 -/
theorem f16_table_2 : (List.range' 8192 4096).all f16Agrees = true := by decide +kernel
end SaModel.Props.C02
