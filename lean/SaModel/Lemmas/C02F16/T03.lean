import SaModel.Lemmas.C02F16.Def
namespace SaModel.Props.C02
/-- the `f16` patterns 12288 … 16383 -/
theorem f16_table_3 : (List.range' 12288 4096).all f16Agrees = true := by decide +kernel
end SaModel.Props.C02
