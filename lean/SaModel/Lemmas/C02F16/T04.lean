import SaModel.Lemmas.C02F16.Def
namespace SaModel.Props.C02
/-- the `f16` patterns 16384 … 20479 -/
theorem f16_table_4 : (List.range' 16384 4096).all f16Agrees = true := by decide +kernel
end SaModel.Props.C02
