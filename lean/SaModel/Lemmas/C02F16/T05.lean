import SaModel.Lemmas.C02F16.Def
namespace SaModel.Props.C02
/-- the `f16` patterns 20480 … 24575 -/
theorem f16_table_5 : (List.range' 20480 4096).all f16Agrees = true := by decide +kernel
end SaModel.Props.C02
