import SaModel.Lemmas.C02F16.Def
namespace SaModel.Props.C02
/-- the `f16` patterns 24576 … 28671 -/
theorem f16_table_6 : (List.range' 24576 4096).all f16Agrees = true := by decide +kernel
end SaModel.Props.C02
