import SaModel.Lemmas.C02F16.Def
namespace SaModel.Props.C02
/-- the `f16` patterns 28672 … 32767 -/
theorem f16_table_7 : (List.range' 28672 4096).all f16Agrees = true := by decide +kernel
end SaModel.Props.C02
