import SaModel.Lemmas.C02F16.Def
namespace SaModel.Props.C02
/-- the `f16` patterns 32768 … 36863 -/
theorem f16_table_8 : (List.range' 32768 4096).all f16Agrees = true := by decide +kernel
end SaModel.Props.C02
