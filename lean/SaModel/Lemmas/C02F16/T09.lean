import SaModel.Lemmas.C02F16.Def
namespace SaModel.Props.C02
/-- the `f16` patterns 36864 … 40959 -/
theorem f16_table_9 : (List.range' 36864 4096).all f16Agrees = true := by decide +kernel
end SaModel.Props.C02
