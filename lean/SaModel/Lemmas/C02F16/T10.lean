import SaModel.Lemmas.C02F16.Def
namespace SaModel.Props.C02
/-- the `f16` patterns 40960 … 45055 -/
theorem f16_table_10 : (List.range' 40960 4096).all f16Agrees = true := by decide +kernel
end SaModel.Props.C02
