import SaModel.Lemmas.C02F16.Def
namespace SaModel.Props.C02
/-- the `f16` patterns 45056 … 49151 -/
theorem f16_table_11 : (List.range' 45056 4096).all f16Agrees = true := by decide +kernel
end SaModel.Props.C02
