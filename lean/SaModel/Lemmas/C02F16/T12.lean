import SaModel.Lemmas.C02F16.Def
namespace SaModel.Props.C02
/-- the `f16` patterns 49152 … 53247 -/
theorem f16_table_12 : (List.range' 49152 4096).all f16Agrees = true := by decide +kernel
end SaModel.Props.C02
