import SaModel.Lemmas.C02F16.Def
namespace SaModel.Props.C02
/-- the `f16` patterns 53248 … 57343 -/
theorem f16_table_13 : (List.range' 53248 4096).all f16Agrees = true := by decide +kernel
end SaModel.Props.C02
