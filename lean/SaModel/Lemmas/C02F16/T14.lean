import SaModel.Lemmas.C02F16.Def
namespace SaModel.Props.C02
/-- the `f16` patterns 57344 … 61439 -/
theorem f16_table_14 : (List.range' 57344 4096).all f16Agrees = true := by decide +kernel
end SaModel.Props.C02
