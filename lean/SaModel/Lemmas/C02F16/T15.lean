import SaModel.Lemmas.C02F16.Def
namespace SaModel.Props.C02
/-- the `f16` patterns 61440 … 65535 -/
theorem f16_table_15 : (List.range' 61440 4096).all f16Agrees = true := by decide +kernel
end SaModel.Props.C02
