import SaModel.Lemmas.ReadBasic
import SaModel.Read.ToD
import SaModel.Spec.DecodeAt
/-
Leaf cases of C02 (`read_any_decode`): for each leaf array kind, a slot whose Arrow reading is defined is
presented by `deserialize_any` exactly as `toD` of that reading.
-/
namespace SaModel.Read
open SaModel SaModel.Spec

theorem all_bytesGet : Fixes.all.bytesGet = true := rfl
theorem all_offsetsOrder : Fixes.all.offsetsOrder = true := rfl
theorem all_fslMul : Fixes.all.fslMul = true := rfl
theorem all_enumTypeId : Fixes.all.enumTypeId = true := rfl
theorem all_nullLen : Fixes.all.nullLen = true := rfl

theorem withValidity_ok {v : Option Bits} {i : Nat} {p : R LVal} {lv : LVal} (h : withValidity v i p = .ok lv) :
    (isValid v i = .ok false ∧ lv = .null) ∨ (isValid v i = .ok true ∧ p = .ok lv) := by
  unfold withValidity at h
  cases hv : isValid v i with
  | error e => rw [hv] at h; cases h
  | ok b =>
    rw [hv] at h
    cases b
    · left; simp only [bind, Except.bind, Bool.not_false, if_true, pure, Except.pure] at h
      cases h; exact ⟨rfl, rfl⟩
    · right; simp only [bind, Except.bind, Bool.not_true, Bool.false_eq_true, if_false] at h
      exact ⟨rfl, h⟩

/-- evaluation of `anyAt` once `is_some` is known -/
theorem anyAt_of_isSome {a : Arr} {f : Nat → R DVal} {i : Nat} {b : Bool} (h : isSome Fixes.all a i = .ok b) :
    anyAt Fixes.all a f i = if b then f i else .ok .none := by
  unfold anyAt; rw [h]; cases b <;> rfl

theorem getD_of_lt {α} (l : List α) (i : Nat) (d : α) (h : i < l.length) : l.getD i d = l[i] := by
  simp [List.getD_eq_getElem?_getD, List.getElem?_eq_getElem h]

theorem primGet_eval {v : Option Bits} {vals : List Int} {i : Nat} {b : Bool} (hi : i < vals.length)
    (hv : isValid v i = .ok b) : primGet Fixes.all v vals i = .ok (if b then some (vals.getD i 0) else none) := by
  unfold primGet
  rw [List.getElem?_eq_getElem hi, validityIsSet_all, hv, getD_of_lt _ _ _ hi]
  cases b <;> rfl

theorem toD_leafOf (ty : PrimTy) (v : Option Bits) (vals : List Int) (x : Int) :
    toD (.prim ty v vals) (leafOf ty x) = primAny ty x := by
  cases ty <;> simp [leafOf, toD]

theorem prim_case {ty : PrimTy} {v : Option Bits} {vals : List Int} {i : Nat} {lv : LVal}
    (h : decodeAt (.prim ty v vals) i = .ok lv) :
    readAny Fixes.all (.prim ty v vals) i = .ok (toD (.prim ty v vals) lv) := by
  unfold decodeAt at h
  split at h
  · rename_i hi
    rcases withValidity_ok h with ⟨hv, rfl⟩ | ⟨hv, hp⟩
    · have hs : isSome Fixes.all (.prim ty v vals) i = .ok false := by
        simp only [isSome, optIsSome, primGet_eval hi hv]; rfl
      unfold readAny; rw [anyAt_of_isSome hs]; simp [toD]
    · cases hp
      have hs : isSome Fixes.all (.prim ty v vals) i = .ok true := by
        simp only [isSome, optIsSome, primGet_eval hi hv]; rfl
      unfold readAny; rw [anyAt_of_isSome hs]
      simp only [if_true, readAnySome, getRequired, primGet_eval hi hv, toD_leafOf]
      rfl
  · cases h

theorem null_case {len i : Nat} {lv : LVal} (h : decodeAt (.null len) i = .ok lv) :
    readAny Fixes.all (.null len) i = .ok (toD (.null len) lv) := by
  unfold decodeAt at h
  split at h
  · rename_i hi
    cases h
    have hs : isSome Fixes.all (.null len) i = .ok false := by
      have : ¬ i ≥ len := by omega
      simp [isSome, nullCheck, Fixes.all, this]
      rfl
    unfold readAny; rw [anyAt_of_isSome hs]; simp [toD]
  · cases h

theorem time_case {ty : TimeTy} {u : TimeUnit} {v : Option Bits} {vals : List Int} {i : Nat} {lv : LVal}
    (h : decodeAt (.time ty u v vals) i = .ok lv) :
    readAny Fixes.all (.time ty u v vals) i = .ok (toD (.time ty u v vals) lv) := by
  unfold decodeAt at h
  split at h
  · rename_i hi
    rcases withValidity_ok h with ⟨hv, rfl⟩ | ⟨hv, hp⟩
    · have hs : isSome Fixes.all (.time ty u v vals) i = .ok false := by
        simp only [isSome, optIsSome, primGet_eval hi hv]; rfl
      unfold readAny; rw [anyAt_of_isSome hs]; simp [toD]
    · cases hp
      have hs : isSome Fixes.all (.time ty u v vals) i = .ok true := by
        simp only [isSome, optIsSome, primGet_eval hi hv]; rfl
      unfold readAny; rw [anyAt_of_isSome hs]
      simp only [if_true, readAnySome, getRequired, primGet_eval hi hv, toD]
      rfl
  · cases h

theorem timestamp_case {u : TimeUnit} {tz : Option String} {v : Option Bits} {vals : List Int} {i : Nat} {lv : LVal}
    (h : decodeAt (.timestamp u tz v vals) i = .ok lv) :
    readAny Fixes.all (.timestamp u tz v vals) i = .ok (toD (.timestamp u tz v vals) lv) := by
  unfold decodeAt at h
  split at h
  · rename_i hi
    rcases withValidity_ok h with ⟨hv, rfl⟩ | ⟨hv, hp⟩
    · have hs : isSome Fixes.all (.timestamp u tz v vals) i = .ok false := by
        simp only [isSome, optIsSome, primGet_eval hi hv]; rfl
      unfold readAny; rw [anyAt_of_isSome hs]; simp [toD]
    · cases hp
      have hs : isSome Fixes.all (.timestamp u tz v vals) i = .ok true := by
        simp only [isSome, optIsSome, primGet_eval hi hv]; rfl
      unfold readAny; rw [anyAt_of_isSome hs]
      simp only [if_true, readAnySome, getRequired, primGet_eval hi hv, toD]
      rfl
  · cases h

theorem decimal_case {p : Nat} {sc : Int} {v : Option Bits} {vals : List Int} {i : Nat} {lv : LVal}
    (h : decodeAt (.decimal128 p sc v vals) i = .ok lv) :
    readAny Fixes.all (.decimal128 p sc v vals) i = .ok (toD (.decimal128 p sc v vals) lv) := by
  unfold decodeAt at h
  split at h
  · rename_i hi
    rcases withValidity_ok h with ⟨hv, rfl⟩ | ⟨hv, hp⟩
    · have hs : isSome Fixes.all (.decimal128 p sc v vals) i = .ok false := by
        simp only [isSome, optIsSome, primGet_eval hi hv]; rfl
      unfold readAny; rw [anyAt_of_isSome hs]; simp [toD]
    · cases hp
      have hs : isSome Fixes.all (.decimal128 p sc v vals) i = .ok true := by
        simp only [isSome, optIsSome, primGet_eval hi hv]; rfl
      unfold readAny; rw [anyAt_of_isSome hs]
      simp only [if_true, readAnySome, getRequired, primGet_eval hi hv, toD]
      rfl
  · cases h

theorem boolGet_eval {len : Nat} {v : Option Bits} {vals : Bits} {i : Nat} (hi : i < len) :
    boolGet Fixes.all len v vals i = (do
      if (← isValid v i) then pure (some (← getBit vals i)) else pure none) := by
  unfold boolGet
  have : ¬ i ≥ len := by omega
  simp only [this, if_false, validityIsSet_all, getBitBuffer_all]

theorem boolean_case {len : Nat} {v : Option Bits} {vals : Bits} {i : Nat} {lv : LVal}
    (h : decodeAt (.boolean len v vals) i = .ok lv) :
    readAny Fixes.all (.boolean len v vals) i = .ok (toD (.boolean len v vals) lv) := by
  unfold decodeAt at h
  split at h
  · rename_i hi
    rcases withValidity_ok h with ⟨hv, rfl⟩ | ⟨hv, hp⟩
    · have hg : boolGet Fixes.all len v vals i = .ok none := by rw [boolGet_eval hi, hv]; rfl
      have hs : isSome Fixes.all (.boolean len v vals) i = .ok false := by
        simp only [isSome, optIsSome, hg]; rfl
      unfold readAny; rw [anyAt_of_isSome hs]; simp [toD]
    · cases hb : getBit vals i with
      | error e => rw [hb] at hp; cases hp
      | ok b =>
        rw [hb] at hp; cases hp
        have hg : boolGet Fixes.all len v vals i = .ok (some b) := by rw [boolGet_eval hi, hv, hb]; rfl
        have hs : isSome Fixes.all (.boolean len v vals) i = .ok true := by
          simp only [isSome, optIsSome, hg]; rfl
        unfold readAny; rw [anyAt_of_isSome hs]
        simp only [if_true, readAnySome, getRequired, hg, toD]
        rfl
  · cases h

theorem tryIntoUsize_nonneg {x : Int} (h : 0 ≤ x) : tryIntoUsize x = .ok x.toNat := by
  simp [tryIntoUsize, h]

/-- `BytesView::get` on a slot whose offsets are in order and inside the data -/
theorem bytesGet_eval {v : Option Bits} {offs : List Int} {data : Bytes} {i : Nat} {b : Bool}
    (hi : i < offs.length - 1) (hv : isValid v i = .ok b)
    (hr : 0 ≤ offs.getD i 0 ∧ offs.getD i 0 ≤ offs.getD (i + 1) 0 ∧ offs.getD (i + 1) 0 ≤ data.length) :
    bytesGet Fixes.all v offs data i =
      .ok (if b then some ((data.drop (offs.getD i 0).toNat).take ((offs.getD (i + 1) 0).toNat - (offs.getD i 0).toNat)) else none) := by
  unfold bytesGet
  have h1 : i < offs.length := by omega
  have h2 : i + 1 < offs.length := by omega
  have hc : ¬ (i + 1 ≥ offs.length) := by omega
  rw [getD_of_lt _ _ _ h1, getD_of_lt _ _ _ h2] at hr
  simp only [all_bytesGet, if_true, hc, if_false, validityIsSet_all, hv, List.getElem?_eq_getElem h1,
    List.getElem?_eq_getElem h2, getD_of_lt _ _ _ h1, getD_of_lt _ _ _ h2]
  cases b
  · rfl
  · have e1 : tryIntoUsize offs[i] = .ok offs[i].toNat := tryIntoUsize_nonneg hr.1
    have e2 : tryIntoUsize offs[i + 1] = .ok offs[i + 1].toNat := tryIntoUsize_nonneg (by omega)
    have hc2 : offs[i].toNat ≤ offs[i + 1].toNat ∧ offs[i + 1].toNat ≤ data.length := by omega
    simp only [bind, Except.bind, if_true, e1, e2, hc2, and_self, pure, Except.pure]

theorem bytes_case {ty : BytesTy} {v : Option Bits} {offs : List Int} {data : Bytes} {i : Nat} {lv : LVal}
    (h : decodeAt (.bytes ty v offs data) i = .ok lv) (hu : utf8Ok lv = true) :
    readAny Fixes.all (.bytes ty v offs data) i = .ok (toD (.bytes ty v offs data) lv) := by
  unfold decodeAt at h
  split at h
  · rename_i hi
    rcases withValidity_ok h with ⟨hv, rfl⟩ | ⟨hv, hp⟩
    · -- null: the offsets are not looked at (the bounds check and the bitmap come first)
      have hg : bytesGet Fixes.all v offs data i = .ok none := by
        unfold bytesGet
        have hc : ¬ (i + 1 ≥ offs.length) := by omega
        simp only [all_bytesGet, if_true, hc, if_false, validityIsSet_all, hv]
        rfl
      have hs : isSome Fixes.all (.bytes ty v offs data) i = .ok false := by
        simp only [isSome, optIsSome, bytesColGet, hg, asStr]
        split <;> rfl
      unfold readAny; rw [anyAt_of_isSome hs]; simp [toD]
    · simp only at hp
      split at hp
      · rename_i hr
        cases hp
        have hg := bytesGet_eval hi hv hr
        simp only [if_true] at hg
        cases hty : isUtf8Ty ty
        · have hc : bytesColGet Fixes.all ty v offs data i = .ok (some ((data.drop (offs.getD i 0).toNat).take ((offs.getD (i + 1) 0).toNat - (offs.getD i 0).toNat))) := by
            simp only [bytesColGet, hty, Bool.false_eq_true, if_false, hg]
          have hs : isSome Fixes.all (.bytes ty v offs data) i = .ok true := by
            simp only [isSome, optIsSome, hc]; rfl
          unfold readAny; rw [anyAt_of_isSome hs]
          simp only [if_true, readAnySome, getRequired, hc, hty, bytesVal, Bool.false_eq_true, if_false, toD]
          rfl
        · simp only [bytesVal, hty, if_true, utf8Ok] at hu
          have hc : bytesColGet Fixes.all ty v offs data i = .ok (some ((data.drop (offs.getD i 0).toNat).take ((offs.getD (i + 1) 0).toNat - (offs.getD i 0).toNat))) := by
            simp only [bytesColGet, hty, if_true, hg, asStr, bind, Except.bind, hu, pure, Except.pure]
          have hs : isSome Fixes.all (.bytes ty v offs data) i = .ok true := by
            simp only [isSome, optIsSome, hc]; rfl
          unfold readAny; rw [anyAt_of_isSome hs]
          simp only [if_true, readAnySome, getRequired, hc, hty, bytesVal, toD]
          rfl
      · cases hp
  · cases h

theorem viewBytes_of_decodeView {buffers : List Bytes} {d : Nat} {b : Bytes} (h : decodeView buffers d = .ok b) :
    viewBytes buffers d = .ok b := by
  unfold decodeView at h
  unfold viewBytes
  simp only at h ⊢
  split
  · rename_i hc; simp only [hc, if_true] at h; exact h
  · rename_i hc
    simp only [hc, if_false] at h
    split at h
    · cases h
    · rename_i buf hb
      rw [hb]
      simp only
      split at h
      · rename_i hr; simp only [hr, if_true]; exact h
      · cases h

theorem view_case {ty : ViewTy} {v : Option Bits} {views : List Nat} {buffers : List Bytes} {i : Nat} {lv : LVal}
    (h : decodeAt (.bytesView ty v views buffers) i = .ok lv) (hu : utf8Ok lv = true) :
    readAny Fixes.all (.bytesView ty v views buffers) i = .ok (toD (.bytesView ty v views buffers) lv) := by
  unfold decodeAt at h
  split at h
  · rename_i hi
    rcases withValidity_ok h with ⟨hv, rfl⟩ | ⟨hv, hp⟩
    · have hg : viewGet Fixes.all v views buffers i = .ok none := by
        unfold viewGet
        simp only [List.getElem?_eq_getElem hi, validityIsSet_all, hv]
        rfl
      have hs : isSome Fixes.all (.bytesView ty v views buffers) i = .ok false := by
        simp only [isSome, optIsSome, viewColGet, hg, asStr]
        split <;> rfl
      unfold readAny; rw [anyAt_of_isSome hs]; simp [toD]
    · cases hd : decodeView buffers (views.getD i 0) with
      | error e => rw [hd] at hp; cases hp
      | ok b =>
        rw [hd] at hp; cases hp
        have hg : viewGet Fixes.all v views buffers i = .ok (some b) := by
          unfold viewGet
          rw [getD_of_lt _ _ _ hi] at hd
          simp only [List.getElem?_eq_getElem hi, validityIsSet_all, hv, viewBytes_of_decodeView hd]
          rfl
        have e1 : (ViewTy.utf8View == ViewTy.utf8View) = true := rfl
        have e2 : (ViewTy.binaryView == ViewTy.utf8View) = false := rfl
        cases ty
        · -- utf8View
          simp only [bytesVal, e1, if_true, utf8Ok] at hu
          have hc : viewColGet Fixes.all .utf8View v views buffers i = .ok (some b) := by
            simp only [viewColGet, isUtf8View, if_true, hg, asStr, bind, Except.bind, hu, pure, Except.pure]
          have hs : isSome Fixes.all (.bytesView .utf8View v views buffers) i = .ok true := by
            simp only [isSome, optIsSome, hc]; rfl
          unfold readAny; rw [anyAt_of_isSome hs]
          simp only [if_true, readAnySome, getRequired, hc, isUtf8View, bytesVal, e1, toD]
          rfl
        · have hc : viewColGet Fixes.all .binaryView v views buffers i = .ok (some b) := by
            simp only [viewColGet, isUtf8View, Bool.false_eq_true, if_false, hg]
          have hs : isSome Fixes.all (.bytesView .binaryView v views buffers) i = .ok true := by
            simp only [isSome, optIsSome, hc]; rfl
          unfold readAny; rw [anyAt_of_isSome hs]
          simp only [if_true, readAnySome, getRequired, hc, isUtf8View, bytesVal, e2, Bool.false_eq_true, if_false, toD]
          rfl
  · cases h

theorem fsbNew_of_new {n : Int} {v : Option Bits} {data : Bytes} (hn : new Fixes.all (.fixedSizeBinary n v data) = .ok ())
    (hpos : ¬ n ≤ 0) : fsbNew Fixes.all n data = .ok (n.toNat, data.length / n.toNat) := by
  unfold new at hn
  cases hf : fsbNew Fixes.all n data with
  | error e => rw [hf] at hn; cases hn
  | ok r =>
    unfold fsbNew at hf
    have h1 : ¬ n < 0 := by omega
    have h2 : ¬ n.toNat = 0 := by omega
    simp only [h1, if_false, h2] at hf
    split at hf
    · cases hf
    · cases hf; rfl

theorem fsb_case {n : Int} {v : Option Bits} {data : Bytes} {i : Nat} {lv : LVal}
    (h : decodeAt (.fixedSizeBinary n v data) i = .ok lv) (hn : new Fixes.all (.fixedSizeBinary n v data) = .ok ()) :
    readAny Fixes.all (.fixedSizeBinary n v data) i = .ok (toD (.fixedSizeBinary n v data) lv) := by
  unfold decodeAt at h
  split at h
  · cases h
  · rename_i hpos
    split at h
    · rename_i hi
      have hnew := fsbNew_of_new hn hpos
      have hidx : ¬ i ≥ data.length / n.toNat := by omega
      have hle : (i + 1) * n.toNat ≤ data.length := by
        have : (i + 1) * n.toNat ≤ (data.length / n.toNat) * n.toNat := Nat.mul_le_mul_right _ (by omega)
        have := Nat.div_mul_le_self data.length n.toNat
        omega
      rcases withValidity_ok h with ⟨hv, rfl⟩ | ⟨hv, hp⟩
      · have hg : fsbColGet Fixes.all n v data i = .ok none := by
          simp only [fsbColGet, hnew, bind, Except.bind, fsbGet, hidx, if_false, validityIsSet_all, hv]
          rfl
        have hs : isSome Fixes.all (.fixedSizeBinary n v data) i = .ok false := by
          simp only [isSome, optIsSome, hg]; rfl
        unfold readAny; rw [anyAt_of_isSome hs]; simp [toD]
      · cases hp
        have hg : fsbColGet Fixes.all n v data i = .ok (some ((data.drop (i * n.toNat)).take n.toNat)) := by
          simp only [fsbColGet, hnew, bind, Except.bind, fsbGet, hidx, if_false, validityIsSet_all, hv, if_true, hle,
            pure, Except.pure]
        have hs : isSome Fixes.all (.fixedSizeBinary n v data) i = .ok true := by
          simp only [isSome, optIsSome, hg]; rfl
        unfold readAny; rw [anyAt_of_isSome hs]
        simp only [if_true, readAnySome, getRequired, hg, toD]
        rfl
    · cases h

end SaModel.Read
