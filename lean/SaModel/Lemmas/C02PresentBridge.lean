import SaModel.Spec.Present
import SaModel.Read.ToD
/-
C02 — the reader model's leaf renderings (`Read.primAny`, `Read.timeAny`, `Read.u8As .any`, the leaf clauses of `Read.toD`) are
the specification's own statement `Spec.presentPrim` / `presentTime` / `presentByte` (Spec/Present.lean, which does not
import the reader model).  With `Props.C02.read_any_decode` (`readAny … = ok (toD a lv)`): what `deserialize_any` hands to the
visitor at a primitive / time column is `Spec.presentPrim ty x` / `Spec.presentTime ty x`.
Still shared: `Read.f16ToF32` (Read/DVal.lean, the exact widening on bit patterns) stands on both sides; the typed
conversions of `Read.cast` (`castLeaf`, `u8As` for integer targets) are not restated.
-/
namespace SaModel.Props.C02
open SaModel SaModel.Read SaModel.Spec

theorem primAny_eq_present (ty : PrimTy) (x : Int) : primAny ty x = presentPrim ty x := by
  cases ty <;> rfl

theorem timeAny_eq_present (ty : TimeTy) (x : Int) : timeAny ty x = presentTime ty x := by
  cases ty <;> rfl

theorem u8As_any_eq_present (b : UInt8) : u8As .any b = .ok (presentByte b) := rfl

/-- the leaf clauses of `toD` -/
theorem toD_prim_int (ty : PrimTy) (v : Option Bits) (vals : List Int) (x : Int) :
    toD (.prim ty v vals) (.int x) = presentPrim ty x := by
  rw [← primAny_eq_present]; simp only [toD]

theorem toD_prim_float (ty : PrimTy) (v : Option Bits) (vals : List Int) (x : Int) :
    toD (.prim ty v vals) (.float x) = presentPrim ty x := by
  rw [← primAny_eq_present]; simp only [toD]

theorem toD_time_int (ty : TimeTy) (u : TimeUnit) (v : Option Bits) (vals : List Int) (x : Int) :
    toD (.time ty u v vals) (.int x) = presentTime ty x := by
  rw [← timeAny_eq_present]; simp only [toD]

/-- non-vacuity: a `Date32` slot is an `i32`, a `Float16` slot 0x3C00 (1.0) is the `f32` 1.0, a `Duration` slot an `i64` -/
example : presentPrim .date32 18262 = .int .i32 18262 ∧ presentPrim .float16 0x3C00 = .f32 0x3F800000 ∧
    presentTime .duration (-5) = .int .i64 (-5) ∧ presentPrim .uint64 18446744073709551615 = .int .u64 18446744073709551615 := by
  decide

end SaModel.Props.C02
