import SaModel.Spec.Present
import SaModel.Read.PresentCodec
import SaModel.Read.Cast
/-
C02 — the ONE place where the reader-side specification `Spec/Present.lean` (written from the documentation; imports nothing of
`Read/*`) meets the functions the C02 / C05 theorems were stated with (`Read.toD`, `Read.castLeaf`, `Read.castScalar` and the
helpers of `Read.cast`, which call the reader model's `primAny` / `timeAny` / `dateRepr` / … / `f64ToF32`): they compute the
independent tables, for EVERY cell (no hypothesis on target, column or value).

  `readCodec`                 the `TextCodec` of the reader model (`Codec/*.lean` through `dateRepr` …): the only shared part
  `toD_eq_present`            `Read.toD a lv = Spec.presentAny readCodec a lv`                      (∀ a lv, any nesting)
  `castLeaf_eq_present`       `demandOf (ofLeaf (castLeaf t a lv)) = presentLeaf readCodec t (leafKind a lv)`   (∀ t a lv)
  `castScalar_eq_present`     `demandOf (castScalar t a lv) = presentScalar readCodec t a lv`
  `u8Claim_eq_present`, `mapKeyClaim_eq_present`, `castVariantStr_eq_present`, and the combinators (`consClaim` … = `Demand.cons` …)

`demandOf` forgets the message of a must-fail claim (`Demand.fails` carries none).  The typed reads of every target:
`Lemmas/C02PresentBridgeTyped.lean` (`cast_eq_typedRead`).  Still shared by both sides: `f16ToF32`, `f32ToF64` (`Data/DVal.lean`: the exact
widenings on bit patterns), `Float.convert` (`Basic/Float.lean`: the narrowing f64 → f32), and the texts of `readCodec`.
-/
namespace SaModel.Props.C02
open SaModel SaModel.Read SaModel.Spec

/-! ### the leaf renderings of `deserialize_any` -/

theorem primAny_eq_present (ty : PrimTy) (x : Int) : primAny ty x = presentPrim ty x := by
  cases ty <;> rfl

theorem timeAny_eq_present (ty : TimeTy) (x : Int) : timeAny ty x = presentTime ty x := by
  cases ty <;> rfl

theorem u8As_any_eq_present (b : UInt8) : u8As .any b = .ok (presentByte b) := rfl

/-- the leaf clauses of `toD` -/
theorem toD_prim_int (ty : PrimTy) (v : Option Bits) (vals : List Int) (x : Int) :
    toD (.prim ty v vals) (.int x) = presentPrim ty x := by
  rw [← primAny_eq_present]; simp only [toD]

theorem toD_prim_float (ty : PrimTy) (v : Option Bits) (vals : List Int) (x : Int) :
    toD (.prim ty v vals) (.float x) = presentPrim ty x := by
  rw [← primAny_eq_present]; simp only [toD]

theorem toD_time_int (ty : TimeTy) (u : TimeUnit) (v : Option Bits) (vals : List Int) (x : Int) :
    toD (.time ty u v vals) (.int x) = presentTime ty x := by
  rw [← timeAny_eq_present]; simp only [toD]

/-- non-vacuity: a `Date32` slot is an `i32`, a `Float16` slot 0x3C00 (1.0) is the `f32` 1.0, a `Duration` slot an `i64` -/
example : presentPrim .date32 18262 = .int .i32 18262 ∧ presentPrim .float16 0x3C00 = .f32 0x3F800000 ∧
    presentTime .duration (-5) = .int .i64 (-5) ∧ presentPrim .uint64 18446744073709551615 = .int .u64 18446744073709551615 := by
  decide

/-! ### the codec of the reader model as the parameter of the specification

`Read.readCodec` (`Read/PresentCodec.lean`): the texts the reader model renders (`Codec.dateToString`, `timeToString`,
`timestampToString`, `formatArrowDurationAsSpan`, `Decimal.formatDecimal` — the functions of C14 / C15). -/

/-- a claim of `Read.cast` as a demand of the specification: the message of a must-fail claim is dropped -/
def demandOf {α : Type} : R (Option α) → Demand α
  | .ok (some a) => .value a
  | .ok none => .unclaimed
  | .error _ => .fails

@[simp] theorem demandOf_must (d : DVal) : demandOf (must d) = .value d := rfl
@[simp] theorem demandOf_mustFail (w : String) : demandOf (mustFail w : Claim) = .fails := rfl
@[simp] theorem demandOf_na : demandOf na = (.unclaimed : Demand DVal) := rfl
@[simp] theorem demandOf_unsupported : demandOf (ofLeaf (some unsupported)) = .fails := rfl

theorem demandOf_value_iff {α : Type} {x : R (Option α)} {a : α} : demandOf x = .value a ↔ x = .ok (some a) := by
  cases x with
  | error e => simp [demandOf]
  | ok o => cases o <;> simp [demandOf]

theorem demandOf_fails_iff {α : Type} {x : R (Option α)} : demandOf x = .fails ↔ ∃ e, x = .error e := by
  cases x with
  | error e => simp [demandOf]
  | ok o => cases o <;> simp [demandOf]

theorem demandOf_unclaimed_iff {α : Type} {x : R (Option α)} : demandOf x = .unclaimed ↔ x = .ok none := by
  cases x with
  | error e => simp [demandOf]
  | ok o => cases o <;> simp [demandOf]

/-- an owned text: `ofLeaf (some (r.map f))` against `createdText` -/
theorem demandOf_ofLeaf_map (r : R Bytes) (f : Bytes → DVal) :
    demandOf (ofLeaf (some (r.map f))) = (Demand.ofOption r.toOption).map f := by
  cases r <;> rfl

/-! ### `deserialize_any`: `toD` is `presentAny` -/

theorem findId_eq_variantOf : ∀ (fs : ArrUFields) (t : Int), ArrUFields.findId fs t = variantOf fs t
  | .nil, _ => rfl
  | .cons i fm a r, t => by simp only [ArrUFields.findId, variantOf, findId_eq_variantOf r t]

mutual
theorem toD_eq_present : ∀ (a : Arr) (lv : LVal), toD a lv = presentAny readCodec a lv
  | a, .null => by cases a <;> simp only [toD, presentAny]
  | a, .bool b => by cases a <;> simp only [toD, presentAny]
  | a, .int x => by
    cases a <;> simp only [toD, presentAny, primAny_eq_present, timeAny_eq_present, readCodec]
  | a, .float x => by cases a <;> simp only [toD, presentAny, primAny_eq_present]
  | a, .str b => by cases a <;> simp only [toD, presentAny]
  | a, .bin b => by cases a <;> simp only [toD, presentAny]
  | a, .list items => by
    cases a <;> simp only [toD, presentAny, toDList_eq_present]
  | a, .struct lfs => by
    cases a <;> simp only [toD, presentAny, toDFields_eq_present]
  | a, .map es => by
    cases a <;> simp only [toD, presentAny, toDEntries_eq_present]
  | a, .union t v => by
    cases a <;> simp only [toD, presentAny, findId_eq_variantOf]
    rename_i fs
    cases variantOf fs t with
    | none => rfl
    | some p => obtain ⟨fm, child⟩ := p; simp only [toD_eq_present child v]
theorem toDList_eq_present : ∀ (el : Arr) (items : LVals), toDList el items = presentItems readCodec el items
  | _, .nil => by simp only [toDList, presentItems]
  | el, .cons v r => by simp only [toDList, presentItems, toD_eq_present el v, toDList_eq_present el r]
theorem toDFields_eq_present : ∀ (fs : ArrFields) (lfs : LFields), toDFields fs lfs = presentFields readCodec fs lfs
  | .nil, .nil => by simp only [toDFields, presentFields]
  | .nil, .cons _ _ _ => by simp only [toDFields, presentFields]
  | .cons _ _ _, .nil => by simp only [toDFields, presentFields]
  | .cons fm a rest, .cons n v lrest => by
    simp only [toDFields, presentFields, toD_eq_present a v, toDFields_eq_present rest lrest]
theorem toDEntries_eq_present : ∀ (ks vs : Arr) (es : LEntries), toDEntries ks vs es = presentEntries readCodec ks vs es
  | _, _, .nil => by simp only [toDEntries, presentEntries]
  | ks, vs, .cons k v r => by
    simp only [toDEntries, presentEntries, toD_eq_present ks k, toD_eq_present vs v, toDEntries_eq_present ks vs r]
end

/-! ### the leaf table -/

theorem contains_i32_i64 (ty : IntTy) : [IntTy.i32, IntTy.i64].contains ty = (ty == .i32 || ty == .i64) := by
  cases ty <;> rfl

theorem contains_i64 (ty : IntTy) : [IntTy.i64].contains ty = (ty == .i64) := by
  cases ty <;> rfl

theorem isIntPrim_eq (ty : PrimTy) : isIntPrim ty = intWidth ty := by cases ty <;> rfl

theorem isScalarValue_eq (c : Nat) : isScalarValue c = isUnicodeScalar c := rfl

theorem f64ToF32_eq (x : Int) : f64ToF32 x = narrow x := rfl

theorem tzIsUtc_eq (tz : Option String) : tzIsUtc tz = zoneIsUtc tz := by cases tz <;> rfl

/-- an integer stored in a temporal column, requested as `ty`: the row of `castLeaf` against `storedAs` -/
theorem stored_eq (ok : Bool) (ty : IntTy) (x : Int) :
    demandOf (ofLeaf (if ok then (if ty.inRange x then some (.ok (.int ty x)) else some (fail "out of range")) else some unsupported))
      = (if ok then (if ty.inRange x then Demand.value (DVal.int ty x) else .fails) else .fails) := by
  cases ok <;> simp only [Bool.false_eq_true, if_false, if_true] <;> first | rfl | (cases ty.inRange x <;> rfl)

/-- closes a cell of the leaf table in which both sides compute -/
macro "leaf_cell" : tactic =>
  `(tactic| first
    | rfl
    | (simp (config := { decide := true }) [castLeaf, leafKind, presentLeaf, numberAs, storedAs, createdText, ofLeaf, demandOf,
        unsupported, fail, must, intWidth, isIntPrim]; done))

theorem demandOf_ofLeaf_ite (c : Prop) [Decidable c] (x y : Option (R DVal)) :
    demandOf (ofLeaf (if c then x else y)) = if c then demandOf (ofLeaf x) else demandOf (ofLeaf y) := by
  split <;> rfl

theorem demandOf_ofLeaf_ok (d : DVal) : demandOf (ofLeaf (some (.ok d))) = .value d := rfl
theorem demandOf_ofLeaf_fail (w : String) : demandOf (ofLeaf (some (fail w))) = .fails := rfl

/-- the same for the cells with a range check or a created text -/
macro "leaf_int" : tactic =>
  `(tactic| first
    | rfl
    | exact demandOf_ofLeaf_map _ _
    | (simp (config := { decide := true }) [castLeaf, leafKind, presentLeaf, numberAs, storedAs, createdText, intWidth, isIntPrim,
        contains_i32_i64, contains_i64, isScalarValue_eq, demandOf_ofLeaf_ite, demandOf_ofLeaf_ok, demandOf_ofLeaf_fail,
        demandOf_unsupported, demandOf_ofLeaf_map]; done))

/-- **every cell of the leaf table**: scalar target × column × logical value (type-inconsistent pairs included) -/
theorem castLeaf_eq_present (t : Target) (a : Arr) (lv : LVal) :
    demandOf (ofLeaf (castLeaf t a lv)) = presentLeaf readCodec t (leafKind a lv) := by
  cases lv with
  | null => cases a <;> cases t <;> leaf_cell
  | list _ => cases a <;> cases t <;> leaf_cell
  | struct _ => cases a <;> cases t <;> leaf_cell
  | map _ => cases a <;> cases t <;> leaf_cell
  | union _ _ => cases a <;> cases t <;> leaf_cell
  | bool b => cases a <;> cases t <;> leaf_cell
  | bin b => cases a <;> cases t <;> leaf_cell
  | str b => cases a <;> cases t <;> leaf_cell
  | float x =>
    cases a with
    | prim ty v vals => cases ty <;> cases t <;> leaf_cell
    | _ => cases t <;> leaf_cell
  | int x =>
    cases a with
    | prim ty v vals => cases ty <;> cases t <;> leaf_int
    | time ty u v vals => cases ty <;> cases t <;> leaf_int
    | timestamp u tz v vals => cases t <;> first | leaf_int | (rename_i ity; cases ity <;> leaf_int)
    | decimal128 p s v vals => cases t <;> leaf_int
    | _ => cases t <;> leaf_cell

end SaModel.Props.C02
