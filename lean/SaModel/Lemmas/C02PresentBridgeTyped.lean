import SaModel.Lemmas.C02PresentBridge
/-
C02 — `Read.cast` (the value-level specification of typed reads the C02 / C05 theorems were stated with; it lives in `Read/*` and
calls `toD` / `castLeaf`, hence the reader model's leaf functions) computes the independent table `Spec.typedRead`
(`Spec/Present.lean`) for EVERY target (any nesting), column and logical value:

  `cast_eq_typedRead : demandOf (Read.cast t a lv) = Spec.typedRead readCodec t a lv`

with `castTuple_eq_positional`, `castFields_eq_named`, `castVariant_eq_variantRead`, `castKind_eq_payloadRead` (mutual structural
recursion over `Target` / `Targets` / `TFields` / `TVariants` / `VKind`), from the leaf bridge `castLeaf_eq_present` /
`toD_eq_present` (`Lemmas/C02PresentBridge.lean`) and one lemma per combinator.
-/
namespace SaModel.Props.C02
open SaModel SaModel.Read SaModel.Spec

/-! ### scalars -/

theorem castScalar_eq_present (t : Target) (a : Arr) (lv : LVal) :
    demandOf (castScalar t a lv) = presentScalar readCodec t a lv := by
  cases lv with
  | null => cases t <;> cases a <;> rfl
  | _ => simp only [castScalar, presentScalar]; exact castLeaf_eq_present _ _ _

/-! ### combinators -/

theorem demandOf_consClaim {α : Type} (x : R (Option α)) (r : R (Option (List α))) :
    demandOf (consClaim x r) = Demand.cons (demandOf x) (demandOf r) := by
  rcases x with e | (_ | d) <;> rcases r with e' | (_ | ds) <;> rfl

theorem demandOf_pairClaim (k v : Claim) : demandOf (pairClaim k v) = Demand.both (demandOf k) (demandOf v) := by
  rcases k with e | (_ | d) <;> rcases v with e' | (_ | d') <;> rfl

theorem demandOf_andThen (x : Claim) (g : DVal → DVal) :
    demandOf (x.andThen fun d => must (g d)) = (demandOf x).map g := by
  rcases x with e | (_ | d) <;> rfl

theorem demandOf_andThenL (x : R (Option (List DVal))) (g : List DVal → DVal) :
    demandOf (andThenL x fun ds => must (g ds)) = (demandOf x).map g := by
  rcases x with e | (_ | d) <;> rfl

theorem demandOf_andThenE (x : R (Option (List (DVal × DVal)))) (g : List (DVal × DVal) → DVal) :
    demandOf (andThenE x fun ds => must (g ds)) = (demandOf x).map g := by
  rcases x with e | (_ | d) <;> rfl

theorem claimVals_eq {f : LVal → Claim} {g : LVal → Demand DVal} (h : ∀ v, demandOf (f v) = g v) :
    ∀ (xs : LVals), demandOf (claimVals f xs) = itemsRead g xs
  | .nil => rfl
  | .cons v r => by simp only [claimVals, itemsRead, demandOf_consClaim, h v, claimVals_eq h r]

theorem claimEntries_eq {fk fv : LVal → Claim} {gk gv : LVal → Demand DVal} (hk : ∀ v, demandOf (fk v) = gk v)
    (hv : ∀ v, demandOf (fv v) = gv v) : ∀ (es : LEntries), demandOf (claimEntries fk fv es) = entriesRead gk gv es
  | .nil => rfl
  | .cons k v r => by
    simp only [claimEntries, entriesRead, demandOf_consClaim, demandOf_pairClaim, hk k, hv v, claimEntries_eq hk hv r]

theorem claimStructAsMap_eq {key : String → Claim} {f : Arr → LVal → Claim} {key' : String → Demand DVal}
    {f' : Arr → LVal → Demand DVal} (hk : ∀ n, demandOf (key n) = key' n) (hf : ∀ a lv, demandOf (f a lv) = f' a lv) :
    ∀ (fs : ArrFields) (lfs : LFields), demandOf (claimStructAsMap key f fs lfs) = fieldsAsEntries key' f' fs lfs
  | .nil, .nil => rfl
  | .nil, .cons _ _ _ => rfl
  | .cons _ _ _, .nil => rfl
  | .cons fm a rest, .cons n lv lrest => by
    simp only [claimStructAsMap, fieldsAsEntries, demandOf_consClaim, demandOf_pairClaim, hk, hf,
      claimStructAsMap_eq hk hf rest lrest]

theorem claimList_eq {f : UInt8 → Claim} {g : UInt8 → Demand DVal} (h : ∀ b, demandOf (f b) = g b) :
    ∀ (bs : Bytes), demandOf (claimList (bs.map f)) = Demand.all (bs.map g)
  | [] => rfl
  | b :: r => by simp only [List.map, claimList, Demand.all, demandOf_consClaim, h b, claimList_eq h r]

theorem u8Claim_eq_present (t : Target) (b : UInt8) : demandOf (u8Claim t b) = byteAs t b := by
  cases t <;> first | rfl | (simp only [u8Claim, byteAs]; split <;> rfl)

theorem castBinSeq_eq_present (t : Target) (b : Bytes) :
    demandOf (castBinSeq t b) = (Demand.all (b.map (byteAs t))).map fun ds => .seq (DVals.ofList ds) := by
  rw [← claimList_eq (u8Claim_eq_present t) b]
  unfold castBinSeq
  rcases claimList (b.map (u8Claim t)) with e | (_ | ds) <;> rfl

theorem castVariantStr_eq_present : ∀ (vs : TVariants) (s : Bytes), demandOf (castVariantStr vs s) = unitVariantNamed vs s
  | .nil, _ => rfl
  | .cons n k rest, s => by
    simp only [castVariantStr, unitVariantNamed]
    split
    · cases k <;> rfl
    · exact castVariantStr_eq_present rest s

theorem mapKeyClaim_eq_present (k : Target) (name : String) : demandOf (mapKeyClaim k name) = nameAsKey k name := by
  cases k with
  | char => simp only [mapKeyClaim, nameAsKey]; rcases name.toList with _ | ⟨c, _ | ⟨c', r⟩⟩ <;> rfl
  | «enum» byIndex vs =>
    simp only [mapKeyClaim, nameAsKey]; cases byIndex
    · exact castVariantStr_eq_present _ _
    · rfl
  | _ => rfl

theorem names_eq : ∀ (fs : ArrFields), ArrFields.names fs = columnNames fs
  | .nil => rfl
  | .cons fm a r => by simp only [ArrFields.names, columnNames, names_eq r]

theorem tnames_eq : ∀ (tfs : TFields), TFields.names tfs = targetNames tfs
  | .nil => rfl
  | .cons n t r => by simp only [TFields.names, targetNames, tnames_eq r]

theorem nodupNames_eq : ∀ (l : List String), nodupNames l = distinct l
  | [] => rfl
  | x :: xs => by simp only [nodupNames, distinct, nodupNames_eq xs]

theorem fieldNamed_eq : ∀ (fs : ArrFields) (lfs : LFields) (n : String), fieldNamed fs lfs n = childNamed fs lfs n
  | .nil, .nil, _ => rfl
  | .nil, .cons _ _ _, _ => rfl
  | .cons _ _ _, .nil, _ => rfl
  | .cons fm a rest, .cons m v lrest, n => by simp only [fieldNamed, childNamed, fieldNamed_eq rest lrest n]

theorem isBinaryLike_eq (a : Arr) : isBinaryLike a = binaryColumn a := by
  cases a <;> first | rfl | (rename_i ty _ _ _; cases ty <;> rfl)

theorem isStringLike_eq (a : Arr) : isStringLike a = textColumn a := by
  cases a <;> first | rfl | (rename_i ty _ _ _; cases ty <;> rfl)

theorem isNullArr_eq (a : Arr) : isNullArr a = isNullColumn a := by cases a <;> rfl
theorem isNull_eq (v : LVal) : LVal.isNull v = isNullValue v := by cases v <;> rfl

theorem tupleClaim_eq {f : ArrFields → LFields → R (Option (List DVal))} {f' : ArrFields → LFields → Demand (List DVal)}
    (h : ∀ fs lfs, demandOf (f fs lfs) = f' fs lfs) (a : Arr) (lv : LVal) :
    demandOf (tupleClaim f a lv) = byPosition f' a lv := by
  cases a <;> cases lv <;> simp only [tupleClaim, byPosition] <;>
    first | rfl | (rw [← h]; exact demandOf_andThenL _ _)

theorem structClaim_eq {tn : List String} {f : ArrFields → LFields → R (Option (List (DVal × DVal)))}
    {f' : ArrFields → LFields → Demand (List (DVal × DVal))}
    (h : ∀ fs lfs, demandOf (f fs lfs) = f' fs lfs) (a : Arr) (lv : LVal) :
    demandOf (structClaim tn f a lv) = byName tn f' a lv := by
  cases a <;> cases lv <;> simp only [structClaim, byName] <;> first | rfl | skip
  rename_i len v fs lfs
  rw [← h fs lfs, names_eq, nodupNames_eq, nodupNames_eq]
  cases distinct (columnNames fs) <;> cases distinct tn <;>
    simp only [Bool.not_true, Bool.not_false, Bool.or_false, Bool.or_true, Bool.and_true, Bool.and_false, Bool.false_eq_true,
      Bool.or_self, Bool.and_self, if_true, if_false] <;> first | rfl | exact demandOf_andThenE _ _

/-! ### every target -/

mutual
/-- **`Read.cast` is the independent table `Spec.typedRead`**: every target, column and logical value -/
theorem cast_eq_typedRead : ∀ (t : Target) (a : Arr) (lv : LVal), demandOf (Read.cast t a lv) = typedRead readCodec t a lv
  | .any, a, lv => by simp only [Read.cast, typedRead, demandOf_must, toD_eq_present]
  | .ignored, a, lv => by simp only [Read.cast, typedRead, demandOf_must]
  | .option t, a, lv => by
    cases lv <;> simp only [Read.cast, typedRead, demandOf_must] <;>
      (rw [← cast_eq_typedRead t a]; exact demandOf_andThen _ _)
  | .newtype t, a, lv => by simp only [Read.cast, typedRead]; exact cast_eq_typedRead t a lv
  | .seq t, a, lv => by
    have hv : ∀ el, ∀ v, demandOf (Read.cast t el v) = typedRead readCodec t el v := fun el v => cast_eq_typedRead t el v
    cases a <;> cases lv <;> simp only [Read.cast, typedRead, demandOf_mustFail, isBinaryLike_eq] <;>
      first
        | rfl
        | (rw [← claimVals_eq (hv _)]; exact demandOf_andThenL _ _)
        | (split <;> first | rfl | exact castBinSeq_eq_present _ _)
        | exact castBinSeq_eq_present _ _
  | .tuple ts, a, lv => by
    simp only [Read.cast, typedRead]; exact tupleClaim_eq (fun fs lfs => castTuple_eq_positional ts fs lfs) a lv
  | .tupleStruct ts, a, lv => by
    simp only [Read.cast, typedRead]; exact tupleClaim_eq (fun fs lfs => castTuple_eq_positional ts fs lfs) a lv
  | .map k v, a, lv => by
    have hk : ∀ el, ∀ w, demandOf (Read.cast k el w) = typedRead readCodec k el w := fun el w => cast_eq_typedRead k el w
    have hv : ∀ el, ∀ w, demandOf (Read.cast v el w) = typedRead readCodec v el w := fun el w => cast_eq_typedRead v el w
    cases a <;> cases lv <;> simp only [Read.cast, typedRead, demandOf_mustFail] <;>
      first
        | rfl
        | (rw [← claimStructAsMap_eq (mapKeyClaim_eq_present k) hv]; exact demandOf_andThenE _ _)
        | (rw [← claimEntries_eq (hk _) (hv _)]; exact demandOf_andThenE _ _)
  | .struct tfs, a, lv => by
    simp only [Read.cast, typedRead, tnames_eq]; exact structClaim_eq (fun fs lfs => castFields_eq_named tfs fs lfs) a lv
  | .enum byIndex vs, a, lv => by
    cases a <;> cases lv <;> simp only [Read.cast, typedRead, demandOf_mustFail, isStringLike_eq] <;>
      first
        | rfl
        | (split <;> first | rfl | exact castVariantStr_eq_present _ _)
        | skip
    rename_i types offs fs t v
    rw [findId_eq_variantOf]
    cases variantOf fs t with
    | none => rfl
    | some p =>
      obtain ⟨fm, child⟩ := p
      cases byIndex <;> simp only [Bool.false_eq_true, if_false, if_true] <;> exact castVariant_eq_variantRead vs _ _ child v
  | .unit, a, lv => by simp only [Read.cast, typedRead]; exact castScalar_eq_present _ a lv
  | .unitStruct, a, lv => by simp only [Read.cast, typedRead]; exact castScalar_eq_present _ a lv
  | .bool, a, lv => by simp only [Read.cast, typedRead]; exact castScalar_eq_present _ a lv
  | .int ty, a, lv => by simp only [Read.cast, typedRead]; exact castScalar_eq_present _ a lv
  | .f32, a, lv => by simp only [Read.cast, typedRead]; exact castScalar_eq_present _ a lv
  | .f64, a, lv => by simp only [Read.cast, typedRead]; exact castScalar_eq_present _ a lv
  | .char, a, lv => by simp only [Read.cast, typedRead]; exact castScalar_eq_present _ a lv
  | .string, a, lv => by simp only [Read.cast, typedRead]; exact castScalar_eq_present _ a lv
  | .str, a, lv => by simp only [Read.cast, typedRead]; exact castScalar_eq_present _ a lv
  | .bytes, a, lv => by simp only [Read.cast, typedRead]; exact castScalar_eq_present _ a lv
  | .byteBuf, a, lv => by
    cases a <;> cases lv <;> simp only [Read.cast, typedRead] <;>
      first
        | exact castScalar_eq_present _ _ _
        | (rw [← claimVals_eq (fun v => castScalar_eq_present (.int .u8) _ v)]; exact demandOf_andThenL _ _)
theorem castTuple_eq_positional : ∀ (ts : Targets) (fs : ArrFields) (lfs : LFields),
    demandOf (castTuple ts fs lfs) = positional readCodec ts fs lfs
  | .nil, fs, lfs => by simp only [castTuple, positional]; rfl
  | .cons t rest, .cons fm a frest, .cons n v lrest => by
    simp only [castTuple, positional, demandOf_consClaim, cast_eq_typedRead t a v, castTuple_eq_positional rest frest lrest]
  | .cons t rest, .nil, lfs => by simp only [castTuple, positional]; rfl
  | .cons t rest, .cons fm a frest, .nil => by simp only [castTuple, positional]; rfl
theorem castFields_eq_named : ∀ (tfs : TFields) (fs : ArrFields) (lfs : LFields),
    demandOf (castFields tfs fs lfs) = named readCodec tfs fs lfs
  | .nil, fs, lfs => by simp only [castFields, named]; rfl
  | .cons n t rest, fs, lfs => by
    simp only [castFields, named, demandOf_consClaim, castFields_eq_named rest fs lfs, fieldNamed_eq]
    congr 1
    cases hch : childNamed fs lfs n with
    | some p =>
      obtain ⟨a, v⟩ := p
      simp only []
      rw [← cast_eq_typedRead t a v]
      rcases Read.cast t a v with e | (_ | d) <;> rfl
    | none =>
      simp only []
      cases t.isOption <;> rfl
theorem castVariant_eq_variantRead : ∀ (vs : TVariants) (sel : Option Nat) (name : String) (child : Arr) (v : LVal),
    demandOf (castVariant vs sel name child v) = variantRead readCodec vs sel name child v
  | .nil, _, _, _, _ => by simp only [castVariant, variantRead]; rfl
  | .cons n k rest, sel, name, child, v => by
    simp only [castVariant, variantRead]
    rw [← castKind_eq_payloadRead k child v, ← castVariant_eq_variantRead rest (sel.map (· - 1)) name child v]
    cases sel <;> simp only [] <;> split <;> first | rfl | exact demandOf_andThen _ _
theorem castKind_eq_payloadRead : ∀ (k : VKind) (child : Arr) (v : LVal),
    demandOf (castKind k child v) = payloadRead readCodec k child v
  | .unit, child, v => by
    simp only [castKind, payloadRead, isNullArr_eq, isNull_eq]; split <;> rfl
  | .newtype t, child, v => by simp only [castKind, payloadRead]; exact cast_eq_typedRead t child v
  | .tuple ts, child, v => by
    simp only [castKind, payloadRead]; exact tupleClaim_eq (fun fs lfs => castTuple_eq_positional ts fs lfs) child v
  | .struct tfs, child, v => by
    simp only [castKind, payloadRead, tnames_eq]; exact structClaim_eq (fun fs lfs => castFields_eq_named tfs fs lfs) child v
end

end SaModel.Props.C02
