import SaModel.Lemmas.C02F16.T00
import SaModel.Lemmas.C02F16.T01
import SaModel.Lemmas.C02F16.T02
import SaModel.Lemmas.C02F16.T03
import SaModel.Lemmas.C02F16.T04
import SaModel.Lemmas.C02F16.T05
import SaModel.Lemmas.C02F16.T06
import SaModel.Lemmas.C02F16.T07
import SaModel.Lemmas.C02F16.T08
import SaModel.Lemmas.C02F16.T09
import SaModel.Lemmas.C02F16.T10
import SaModel.Lemmas.C02F16.T11
import SaModel.Lemmas.C02F16.T12
import SaModel.Lemmas.C02F16.T13
import SaModel.Lemmas.C02F16.T14
import SaModel.Lemmas.C02F16.T15
/-
C02 — the widening `Read.f16ToF32` (`Data/DVal.lean`: `half::f16::to_f32` on bit patterns, used by the reader model AND by the reader-side
specification `Spec/Present.lean`) against the IEEE arithmetic of `Basic/Float.lean`, for EVERY `f16` bit pattern (65 536, computed in
the kernel by `Lemmas/C02F16/T00.lean` … `T15.lean`, row `f16Agrees` of `Lemmas/C02F16/Def.lean`): on a pattern that is not a NaN it is `Float.convert Float.f16 Float.f32` (the exact value, re-encoded), on a NaN it is an `f32`
NaN of the same sign (`Float.convert` canonicalises NaNs, `f16ToF32` keeps the payload as the hardware does).  So the two float
semantics of the tree agree where both speak; `f32ToF64` (2^32 patterns) is not tied this way.
-/
namespace SaModel.Props.C02
open SaModel SaModel.Read

/-- `f16ToF32` looks at the low 16 bits only -/
theorem f16ToF32_low (x : Int) : f16ToF32 x = f16ToF32 (Int.ofNat (x.toNat % 65536)) := by
  unfold f16ToF32
  simp only [show ∀ n : Nat, (Int.ofNat n).toNat = n from fun _ => rfl, Nat.mod_mod]

theorem f16Agrees_all (h : Nat) (hh : h < 65536) : f16Agrees h = true := by
  have hk : h / 4096 = 0 ∨ h / 4096 = 1 ∨ h / 4096 = 2 ∨ h / 4096 = 3 ∨ h / 4096 = 4 ∨ h / 4096 = 5 ∨ h / 4096 = 6 ∨ h / 4096 = 7 ∨ h / 4096 = 8 ∨ h / 4096 = 9 ∨ h / 4096 = 10 ∨ h / 4096 = 11 ∨ h / 4096 = 12 ∨ h / 4096 = 13 ∨ h / 4096 = 14 ∨ h / 4096 = 15 := by omega
  rcases hk with hk | hk | hk | hk | hk | hk | hk | hk | hk | hk | hk | hk | hk | hk | hk | hk
  · exact List.all_eq_true.mp f16_table_0 h (List.mem_range'_1.mpr ⟨by omega, by omega⟩)
  · exact List.all_eq_true.mp f16_table_1 h (List.mem_range'_1.mpr ⟨by omega, by omega⟩)
  · exact List.all_eq_true.mp f16_table_2 h (List.mem_range'_1.mpr ⟨by omega, by omega⟩)
  · exact List.all_eq_true.mp f16_table_3 h (List.mem_range'_1.mpr ⟨by omega, by omega⟩)
  · exact List.all_eq_true.mp f16_table_4 h (List.mem_range'_1.mpr ⟨by omega, by omega⟩)
  · exact List.all_eq_true.mp f16_table_5 h (List.mem_range'_1.mpr ⟨by omega, by omega⟩)
  · exact List.all_eq_true.mp f16_table_6 h (List.mem_range'_1.mpr ⟨by omega, by omega⟩)
  · exact List.all_eq_true.mp f16_table_7 h (List.mem_range'_1.mpr ⟨by omega, by omega⟩)
  · exact List.all_eq_true.mp f16_table_8 h (List.mem_range'_1.mpr ⟨by omega, by omega⟩)
  · exact List.all_eq_true.mp f16_table_9 h (List.mem_range'_1.mpr ⟨by omega, by omega⟩)
  · exact List.all_eq_true.mp f16_table_10 h (List.mem_range'_1.mpr ⟨by omega, by omega⟩)
  · exact List.all_eq_true.mp f16_table_11 h (List.mem_range'_1.mpr ⟨by omega, by omega⟩)
  · exact List.all_eq_true.mp f16_table_12 h (List.mem_range'_1.mpr ⟨by omega, by omega⟩)
  · exact List.all_eq_true.mp f16_table_13 h (List.mem_range'_1.mpr ⟨by omega, by omega⟩)
  · exact List.all_eq_true.mp f16_table_14 h (List.mem_range'_1.mpr ⟨by omega, by omega⟩)
  · exact List.all_eq_true.mp f16_table_15 h (List.mem_range'_1.mpr ⟨by omega, by omega⟩)

/-- **`f16ToF32` is the exact IEEE widening** on every pattern that is not a NaN -/
theorem f16ToF32_eq_convert (x : Int) (hn : Float.isNan Float.f16 (x.toNat % 65536) = false) :
    f16ToF32 x = Int.ofNat (Float.convert Float.f16 Float.f32 (x.toNat % 65536)) := by
  have h := f16Agrees_all (x.toNat % 65536) (Nat.mod_lt _ (by decide))
  rw [f16ToF32_low]
  unfold f16Agrees at h
  rw [hn] at h
  simpa using h

/-- … and a NaN of the same sign on a NaN -/
theorem f16ToF32_nan (x : Int) (hn : Float.isNan Float.f16 (x.toNat % 65536) = true) :
    Float.isNan Float.f32 (f16ToF32 x).toNat = true ∧ (f16ToF32 x).toNat / 2147483648 = (x.toNat % 65536) / 32768 := by
  have h := f16Agrees_all (x.toNat % 65536) (Nat.mod_lt _ (by decide))
  rw [f16ToF32_low]
  unfold f16Agrees at h
  rw [hn] at h
  simpa using h

/-- non-vacuity: 1.0, the smallest subnormal, −0.0, the largest finite value, +inf; and a signalling NaN with payload -/
example : f16ToF32 0x3C00 = 0x3F800000 ∧ f16ToF32 0x0001 = 0x33800000 ∧ f16ToF32 0x8000 = 0x80000000 ∧ f16ToF32 0x7BFF = 0x477FE000 ∧
    f16ToF32 0x7C00 = 0x7F800000 ∧ Float.isNan Float.f16 0xFD01 = true ∧ f16ToF32 0xFD01 = 0xFFE02000 := by decide

end SaModel.Props.C02
