import SaModel.Read.Reader
/-
C02, which arrays the readers accept: `supportedView` is a plain Boolean description, written from the
documentation side (no call into the model of `ArrayDeserializer::new`, no monad), of the array kinds and
parameters serde_arrow's random-access readers support.  `new_ok_iff_supported`: the model constructor
`Read.new Fixes.all` succeeds on EXACTLY those arrays — for every array, no hypothesis.

Rust being documented (serde_arrow/src/internal/):
  deserialization/array_deserializer.rs:89-183   `ArrayDeserializer::new`
  deserialization/timestamp_deserializer.rs:76-82 `is_utc_timestamp`
  deserialization/fixed_size_binary_deserializer.rs:19-39, fixed_size_list_deserializer.rs:24-39,
  deserialization/struct_deserializer.rs:23-38, list_deserializer.rs:23-, map_deserializer.rs:24-46,
  deserialization/dictionary_deserializer.rs:21-31, enum_deserializer.rs:23-53
  schema/strategy.rs:86-98 (`Strategy::from_str`), 116-121 (`get_strategy_from_metadata`)
-/
namespace SaModel.Props.C02
open SaModel SaModel.Read

/-! ### the documentation-side predicate -/

/-- schema/strategy.rs:116-121 `get_strategy_from_metadata` + 86-98 `Strategy::from_str`: a field's
`SERDE_ARROW:strategy` metadata entry, if there is one, must be one of the four strategy names -/
def knownStrategy (m : Metadata) : Bool :=
  match m.lookup "SERDE_ARROW:strategy" with
  | none => true
  | some s => ["InconsistentTypes", "TupleAsStruct", "MapAsStruct", "UnknownVariant"].contains s

/-- timestamp_deserializer.rs:76-82 `is_utc_timestamp`: no time zone, or the time zone reads "utc" once every
character is lower-cased -/
def naiveOrUtc : Option String → Bool
  | none => true
  | some tz => tz.toList.map Char.toLower == ['u', 't', 'c']

/-- fixed_size_binary_deserializer.rs:20-22: the width fits a `usize` (is not negative) and the data splits into
chunks of that width; with width 0 only the empty data buffer qualifies -/
def evenlyDivisible (n : Int) (dataLen : Nat) : Bool :=
  decide (0 ≤ n) && (if n = 0 then dataLen == 0 else dataLen % n.toNat == 0)

/-- array_deserializer.rs:128-176, left component of every accepted pair: the keys are an
Int8/16/32/64 or UInt8/16/32/64 primitive column -/
def integerKeys : Arr → Bool
  | .prim ty _ _ =>
    match ty with
    | .int8 | .int16 | .int32 | .int64 | .uint8 | .uint16 | .uint32 | .uint64 => true
    | .float16 | .float32 | .float64 | .date32 | .date64 => false
  | _ => false

/-- array_deserializer.rs:128-176, right component (`V::Utf8` / `V::LargeUtf8`), and
dictionary_deserializer.rs:22-25: the values are a Utf8 or LargeUtf8 column that has no validity buffer -/
def plainStringValues : Arr → Bool
  | .bytes ty validity _ _ =>
    match ty with
    | .utf8 | .largeUtf8 => validity.isNone
    | .binary | .largeBinary => false
  | _ => false

/-- the declared type ids of a union's children, in declaration order -/
def unionIds : ArrUFields → List Int
  | .nil => []
  | .cons tid _ _ rest => tid :: unionIds rest

/-- enum_deserializer.rs:33-37 (`usize::try_from(type_id) != Ok(idx)` under `enumerate()`): the ids are exactly
`0, 1, 2, …` in order -/
def consecutiveIds (ids : List Int) : Bool :=
  decide (ids = (List.range ids.length).map Int.ofNat)

mutual
/-- the arrays `ArrayDeserializer::new` (array_deserializer.rs:89-183) builds a reader for -/
def supportedView : Arr → Bool
  -- array_deserializer.rs:92 `View::Null`
  | .null _ => true
  -- array_deserializer.rs:93 `V::Boolean`
  | .boolean _ _ _ => true
  -- array_deserializer.rs:94-104 Int8…UInt64, Float16/32/64; 106-107 Date32, Date64
  | .prim _ _ _ => true
  -- array_deserializer.rs:108-109 Time32, Time64; 111 Duration
  | .time _ _ _ _ => true
  -- array_deserializer.rs:105 Decimal128
  | .decimal128 _ _ _ _ => true
  -- array_deserializer.rs:112-113 Utf8, LargeUtf8; 115-116 Binary, LargeBinary
  | .bytes _ _ _ _ => true
  -- array_deserializer.rs:114 Utf8View; 117 BinaryView
  | .bytesView _ _ _ _ => true
  -- array_deserializer.rs:110 + timestamp_deserializer.rs:31, 76-82: naive, or UTC in any letter case
  | .timestamp _ tz _ _ => naiveOrUtc tz
  -- array_deserializer.rs:118-120 + fixed_size_binary_deserializer.rs:20-31
  | .fixedSizeBinary n _ data => evenlyDivisible n data.length
  -- array_deserializer.rs:126 + struct_deserializer.rs:25-32: every child
  | .struct _ _ fs => supportedFields fs
  -- array_deserializer.rs:121-122 + list_deserializer.rs:23-29: the element field's strategy, the elements
  | .list _ _ _ fm el => knownStrategy fm.metadata && supportedView el
  -- array_deserializer.rs:123-125 + fixed_size_list_deserializer.rs:26-30 and :37 (`view.n.try_into()?`)
  | .fixedSizeList _ _ n fm el => decide (0 ≤ n) && knownStrategy fm.metadata && supportedView el
  -- array_deserializer.rs:127 + map_deserializer.rs:30-34 (keys), 41-45 (values)
  | .map _ _ mm ks vs =>
    knownStrategy mm.keys.metadata && supportedView ks && knownStrategy mm.values.metadata && supportedView vs
  -- array_deserializer.rs:129-178 (the sixteen accepted pairs, `_ => fail!` otherwise) +
  -- dictionary_deserializer.rs:22-25
  | .dictionary ks vs => integerKeys ks && plainStringValues vs
  -- array_deserializer.rs:128 + enum_deserializer.rs:24-26 (dense only), 28-30 (one offset per type id),
  -- 33-37 (ids 0,1,2,…), 39-43 (every child)
  | .union types offs fs =>
    (match offs with
      | none => false
      | some o => types.length == o.length)
    && consecutiveIds (unionIds fs) && supportedUFields fs
/-- struct_deserializer.rs:25-32: each child field has a known strategy and a supported array -/
def supportedFields : ArrFields → Bool
  | .nil => true
  | .cons fm a rest => knownStrategy fm.metadata && supportedView a && supportedFields rest
/-- enum_deserializer.rs:39-43: each variant field has a known strategy and a supported array -/
def supportedUFields : ArrUFields → Bool
  | .nil => true
  | .cons _ fm a rest => knownStrategy fm.metadata && supportedView a && supportedUFields rest
end

/-! ### the pieces of `new`, one by one -/

theorem bind_unit_ok_iff (x : R Unit) (f : Unit → R Unit) : (x >>= f) = .ok () ↔ x = .ok () ∧ f () = .ok () := by
  cases x with
  | ok u => cases u; simp [bind, Except.bind]
  | error e => simp [bind, Except.bind]

theorem strategyOk_iff (m : Metadata) : strategyOk m = .ok () ↔ knownStrategy m = true := by
  unfold strategyOk knownStrategy
  cases m.lookup "SERDE_ARROW:strategy" with
  | none => simp
  | some s =>
    have key : ["InconsistentTypes", "TupleAsStruct", "MapAsStruct", "UnknownVariant"].contains s
        = (s == "InconsistentTypes" || s == "TupleAsStruct" || s == "MapAsStruct" || s == "UnknownVariant") := by
      simp only [List.contains_cons, List.contains_nil, Bool.or_false, Bool.or_assoc]
    simp only [key]
    cases (s == "InconsistentTypes" || s == "TupleAsStruct" || s == "MapAsStruct" || s == "UnknownVariant") <;>
      simp [fail]

theorem toLower_utc_iff (tz : String) : (tz.toLower == "utc") = true ↔ naiveOrUtc (some tz) = true := by
  have hutc : "utc".toList = ['u', 't', 'c'] := by decide
  simp only [naiveOrUtc, beq_iff_eq, String.toLower]
  constructor
  · intro h
    rw [← String.toList_map, h, hutc]
  · intro h
    apply String.toList_inj.mp
    rw [String.toList_map, h, hutc]

theorem tryIntoUsize_ok_iff (n : Int) : (tryIntoUsize n >>= fun _ => (pure () : R Unit)) = .ok () ↔ 0 ≤ n := by
  unfold tryIntoUsize
  by_cases h : 0 ≤ n <;> simp [h, fail, bind, Except.bind, pure, Except.pure]

theorem fsbNew_ok_iff (n : Int) (data : Bytes) :
    (fsbNew Fixes.all n data >>= fun _ => (pure () : R Unit)) = .ok () ↔ evenlyDivisible n data.length = true := by
  unfold fsbNew evenlyDivisible
  by_cases h0 : n < 0
  · have : ¬ 0 ≤ n := by omega
    simp [h0, this, fail, bind, Except.bind]
  · have hn : 0 ≤ n := by omega
    by_cases hz : n = 0
    · subst hz
      by_cases hd : data.length = 0 <;> simp [Fixes.all, hd, fail, bind, Except.bind, pure, Except.pure]
    · have hz' : ¬ n.toNat = 0 := by omega
      by_cases hd : data.length % n.toNat = 0 <;>
        simp [h0, hn, hz, hz', hd, fail, bind, Except.bind, pure, Except.pure]

theorem dictionary_ok_iff (ks vs : Arr) :
    new Fixes.all (.dictionary ks vs) = .ok () ↔ (integerKeys ks && plainStringValues vs) = true := by
  unfold new
  split
  · rename_i kty kv kvals vty vv voffs vdata
    cases kty <;> cases vty <;> cases vv <;>
      simp [integerKeys, plainStringValues, isIntPrim, Spec.isUtf8Ty, fail]
  · rename_i hne
    have : (integerKeys ks && plainStringValues vs) = false := by
      cases ks <;> try (simp [integerKeys]; done)
      cases vs <;> try (simp [plainStringValues]; done)
      exact (hne _ _ _ _ _ _ _ rfl rfl).elim
    simp [this, fail]

theorem consecutive_cons (tid : Int) (ids : List Int) (k : Nat) :
    tid :: ids = (List.range' k (ids.length + 1)).map Int.ofNat ↔
      tid = Int.ofNat k ∧ ids = (List.range' (k + 1) ids.length).map Int.ofNat := by
  simp [List.range'_succ]

/-! ### the theorem -/

mutual
/-- `ArrayDeserializer::new` succeeds exactly on the supported arrays -/
theorem new_ok_iff_supported : ∀ (a : Arr), new Fixes.all a = .ok () ↔ supportedView a = true
  | .null _ => by simp [new, supportedView]
  | .boolean _ _ _ => by simp [new, supportedView]
  | .prim _ _ _ => by simp [new, supportedView]
  | .time _ _ _ _ => by simp [new, supportedView]
  | .decimal128 _ _ _ _ => by simp [new, supportedView]
  | .bytes _ _ _ _ => by simp [new, supportedView]
  | .bytesView _ _ _ _ => by simp [new, supportedView]
  | .timestamp _ tz _ _ => by
    unfold new supportedView
    cases tz with
    | none => simp [naiveOrUtc]
    | some tz =>
      rw [← toLower_utc_iff]
      by_cases h : (tz.toLower == "utc") = true <;> simp [h, fail]
  | .fixedSizeBinary n _ data => by
    unfold new supportedView
    exact fsbNew_ok_iff n data
  | .struct _ _ fs => by
    unfold new supportedView
    exact newFields_ok_iff_supported fs
  | .list _ _ _ fm el => by
    unfold new supportedView
    rw [bind_unit_ok_iff, strategyOk_iff, new_ok_iff_supported el, Bool.and_eq_true]
  | .fixedSizeList _ _ n fm el => by
    unfold new supportedView
    rw [bind_unit_ok_iff, bind_unit_ok_iff, strategyOk_iff, new_ok_iff_supported el, tryIntoUsize_ok_iff]
    simp only [Bool.and_eq_true, decide_eq_true_eq]
    constructor
    · rintro ⟨a, b, c⟩; exact ⟨⟨c, a⟩, b⟩
    · rintro ⟨⟨c, a⟩, b⟩; exact ⟨a, b, c⟩
  | .map _ _ mm ks vs => by
    unfold new supportedView
    rw [bind_unit_ok_iff, bind_unit_ok_iff, bind_unit_ok_iff, strategyOk_iff, strategyOk_iff,
      new_ok_iff_supported ks, new_ok_iff_supported vs]
    simp only [Bool.and_eq_true, and_assoc]
  | .dictionary ks vs => by
    rw [dictionary_ok_iff]
    unfold supportedView
    rfl
  | .union types offs fs => by
    unfold new supportedView
    cases offs with
    | none => simp [fail]
    | some o =>
      by_cases hl : types.length = o.length
      · have h := newUFields_ok_iff_supported fs 0
        simp only [hl, ne_eq, not_true_eq_false, if_false, beq_self_eq_true, Bool.true_and, Bool.and_eq_true,
          consecutiveIds, decide_eq_true_eq, List.range_eq_range']
        exact h
      · simp [hl, fail]
/-- `StructDeserializer::new`'s loop over the children -/
theorem newFields_ok_iff_supported : ∀ (fs : ArrFields), newFields Fixes.all fs = .ok () ↔ supportedFields fs = true
  | .nil => by simp [newFields, supportedFields]
  | .cons fm a rest => by
    unfold newFields supportedFields
    rw [bind_unit_ok_iff, bind_unit_ok_iff, strategyOk_iff, new_ok_iff_supported a, newFields_ok_iff_supported rest]
    simp only [Bool.and_eq_true, and_assoc]
/-- `EnumDeserializer::new`'s loop over the variants, entered at position `k`: the remaining ids are
`k, k+1, …` and every remaining child is supported -/
theorem newUFields_ok_iff_supported : ∀ (fs : ArrUFields) (k : Nat), newUFields Fixes.all fs k = .ok () ↔
    (unionIds fs = (List.range' k (unionIds fs).length).map Int.ofNat ∧ supportedUFields fs = true)
  | .nil, _ => by simp [newUFields, supportedUFields, unionIds]
  | .cons tid fm a rest, k => by
    unfold newUFields supportedUFields unionIds
    rw [List.length_cons, consecutive_cons]
    by_cases ht : tid = Int.ofNat k
    · simp only [ht, ne_eq, not_true_eq_false, if_false, true_and]
      rw [bind_unit_ok_iff, bind_unit_ok_iff, strategyOk_iff, new_ok_iff_supported a,
        newUFields_ok_iff_supported rest (k + 1)]
      simp only [Bool.and_eq_true]
      constructor
      · rintro ⟨a, b, c, d⟩; exact ⟨c, ⟨a, b⟩, d⟩
      · rintro ⟨c, ⟨a, b⟩, d⟩; exact ⟨a, b, c, d⟩
    · have ht' : ¬ tid = (k : Int) := ht
      simp [ht', fail]
end

/-- an unsupported array is refused with an error value -/
theorem new_err_of_not_supported (a : Arr) (h : supportedView a = false) : ∃ e, new Fixes.all a = .error e := by
  cases hn : new Fixes.all a with
  | error e => exact ⟨e, rfl⟩
  | ok u =>
    cases u
    rw [(new_ok_iff_supported a).mp hn] at h
    cases h

/-! ### non-vacuity -/

/-- a struct of three columns: a dictionary (Int8 keys, Utf8 values without validity), a dense union with two
variants (ids 0, 1) and a timestamp in "UTC" -/
def exSupported : Arr :=
  .struct 2 none
    (.cons ⟨"d", false, []⟩ (.dictionary (.prim .int8 none [0, 0]) (.bytes .utf8 none [0, 1] [97]))
    (.cons ⟨"u", false, [("SERDE_ARROW:strategy", "UnknownVariant")]⟩
      (.union [0, 1] (some [0, 0])
        (.cons 0 ⟨"A", false, []⟩ (.prim .int32 none [7])
        (.cons 1 ⟨"B", true, [("SERDE_ARROW:strategy", "TupleAsStruct")]⟩ (.null 1) .nil)))
    (.cons ⟨"t", true, []⟩ (.timestamp .millisecond (some "UTC") none [0, 1]) .nil)))

example : supportedView exSupported = true := by decide
example : new Fixes.all exSupported = .ok () := (new_ok_iff_supported _).mpr (by decide)

/-- sparse union (no offsets buffer) -/
example : supportedView (.union [0] none (.cons 0 ⟨"A", false, []⟩ (.prim .int32 none [7]) .nil)) = false := by decide
/-- type ids 0, 2 -/
example : supportedView (.union [0] (some [0])
    (.cons 0 ⟨"A", false, []⟩ (.prim .int32 none [7]) (.cons 2 ⟨"B", false, []⟩ (.null 0) .nil))) = false := by decide
/-- dictionary values with a validity buffer -/
example : supportedView (.dictionary (.prim .uint32 none [0])
    (.bytes .largeUtf8 (some ⟨[1], 0⟩) [0, 1] [97])) = false := by decide
/-- a time zone other than UTC -/
example : supportedView (.timestamp .second (some "Europe/Berlin") none [0]) = false := by decide
/-- a strategy name `Strategy::from_str` does not know, on a list's element field -/
example : supportedView (.list false none [0, 1] ⟨"element", false, [("SERDE_ARROW:strategy", "Bogus")]⟩
    (.prim .int64 none [1])) = false := by decide
/-- … and each is refused with an error value -/
example : ∃ e, new Fixes.all (.timestamp .second (some "Europe/Berlin") none [0]) = .error e :=
  new_err_of_not_supported _ (by decide)
/-- further refusals: FixedSizeBinary whose data is not a multiple of the width, width 0 with data, negative
FixedSizeList width, dictionary with float keys, more type ids than offsets -/
example : supportedView (.fixedSizeBinary 2 none [1, 2, 3]) = false := by decide
example : supportedView (.fixedSizeBinary 0 none [1]) = false := by decide
example : supportedView (.fixedSizeBinary 0 none []) = true := by decide
example : supportedView (.fixedSizeList 0 none (-1) ⟨"element", false, []⟩ (.null 0)) = false := by decide
example : supportedView (.dictionary (.prim .float32 none [0]) (.bytes .utf8 none [0] [])) = false := by decide
example : supportedView (.union [0, 0] (some [0]) (.cons 0 ⟨"A", false, []⟩ (.null 1) .nil)) = false := by decide

end SaModel.Props.C02
