import SaModel.Read.Cast
/-
C02 / C05, reader side: `cast` leaves NO supported cell without a claim.  `naCell t a`: field names repeat in a struct
target of `t` (not a Rust type) or among the children of a struct column inside `a` — the only situation in which `cast`
answers `na` (`cast_na_only`); everywhere else it says `must d` or `mustFail` (`cast_must_or_mustFail`).
-/
namespace SaModel.Read
open SaModel

mutual
/-- every struct (and struct variant) inside the target has distinct field names: true of every Rust type -/
def Target.namesOk : Target → Bool
  | .option t => t.namesOk
  | .newtype t => t.namesOk
  | .seq t => t.namesOk
  | .tuple ts => ts.namesOk
  | .tupleStruct ts => ts.namesOk
  | .map k v => k.namesOk && v.namesOk
  | .struct tfs => nodupNames (TFields.names tfs) && tfs.namesOk
  | .enum _ vs => vs.namesOk
  | _ => true
def Targets.namesOk : Targets → Bool
  | .nil => true
  | .cons t r => t.namesOk && r.namesOk
def TFields.namesOk : TFields → Bool
  | .nil => true
  | .cons _ t r => t.namesOk && r.namesOk
def TVariants.namesOk : TVariants → Bool
  | .nil => true
  | .cons _ k r => k.namesOk && r.namesOk
def VKind.namesOk : VKind → Bool
  | .unit => true
  | .newtype t => t.namesOk
  | .tuple ts => ts.namesOk
  | .struct tfs => nodupNames (TFields.names tfs) && tfs.namesOk
end

mutual
/-- every struct column inside the view has distinct child names -/
def _root_.SaModel.Arr.namesOk : Arr → Bool
  | .struct _ _ fs => nodupNames (ArrFields.names fs) && fs.namesOk
  | .list _ _ _ _ el => el.namesOk
  | .fixedSizeList _ _ _ _ el => el.namesOk
  | .map _ _ _ ks vs => ks.namesOk && vs.namesOk
  | .union _ _ fs => fs.namesOk
  | _ => true
def _root_.SaModel.ArrFields.namesOk : ArrFields → Bool
  | .nil => true
  | .cons _ a r => a.namesOk && r.namesOk
def _root_.SaModel.ArrUFields.namesOk : ArrUFields → Bool
  | .nil => true
  | .cons _ _ a r => a.namesOk && r.namesOk
end

/-- the cells `cast` may leave without a claim: repeated field names in the target or in the view -/
def naCell (t : Target) (a : Arr) : Bool := !(t.namesOk && a.namesOk)

/-! ### the leaf table and the combinators never answer `na` on their own -/

theorem castLeaf_isSome (t : Target) (a : Arr) (lv : LVal) : (castLeaf t a lv).isSome = true := by
  unfold castLeaf
  (repeat' split) <;> rfl

theorem ofLeaf_ne_na {x : Option (R DVal)} (h : x.isSome = true) : ofLeaf x ≠ na := by
  cases x with
  | none => cases h
  | some r => cases r <;> simp [ofLeaf, na, must]

theorem must_ne_na (d : DVal) : must d ≠ na := by simp [must, na]
theorem mustFail_ne_na (w : String) : mustFail w ≠ na := by simp [mustFail, fail, na]

theorem castScalar_ne_na (t : Target) (a : Arr) (lv : LVal) : castScalar t a lv ≠ na := by
  unfold castScalar
  (repeat' split) <;>
    first | exact must_ne_na _ | exact mustFail_ne_na _ | exact ofLeaf_ne_na (castLeaf_isSome _ _ _)

theorem consClaim_ne_none {α} {x : R (Option α)} {rest : R (Option (List α))} (hx : x ≠ .ok none) (hr : rest ≠ .ok none) :
    consClaim x rest ≠ .ok none := by
  unfold consClaim
  cases x with
  | error e => simp
  | ok o =>
    cases o with
    | none => exact absurd rfl hx
    | some d =>
      cases rest with
      | error e => simp
      | ok o' =>
        cases o' with
        | none => exact absurd rfl hr
        | some ds => simp

theorem claimVals_ne_none {f : LVal → Claim} (hf : ∀ v, f v ≠ na) : ∀ (xs : LVals), claimVals f xs ≠ .ok none
  | .nil => by simp [claimVals]
  | .cons v r => by
    unfold claimVals
    exact consClaim_ne_none (hf v) (claimVals_ne_none hf r)

theorem andThenL_ne_na {x : R (Option (List DVal))} {f : List DVal → Claim} (hx : x ≠ .ok none) (hf : ∀ d, f d ≠ na) :
    andThenL x f ≠ na := by
  unfold andThenL
  split
  · exact hf _
  · exact absurd rfl hx
  · simp [na]

theorem andThenE_ne_na {x : R (Option (List (DVal × DVal)))} {f : List (DVal × DVal) → Claim} (hx : x ≠ .ok none)
    (hf : ∀ d, f d ≠ na) : andThenE x f ≠ na := by
  unfold andThenE
  split
  · exact hf _
  · exact absurd rfl hx
  · simp [na]

theorem andThen_ne_na {x : Claim} {f : DVal → Claim} (hx : x ≠ na) (hf : ∀ d, f d ≠ na) : x.andThen f ≠ na := by
  unfold Claim.andThen
  split
  · exact hf _
  · exact absurd rfl hx
  · simp [na]


theorem pairClaim_ne_none {k v : Claim} (hk : k ≠ na) (hv : v ≠ na) : pairClaim k v ≠ .ok none := by
  unfold pairClaim
  split
  · simp
  · simp
  · simp
  · rename_i h1 h2 h3
    cases k with
    | error e => exact absurd rfl (h1 e)
    | ok ok =>
      cases v with
      | error e => exact absurd rfl (h2 e)
      | ok ov =>
        cases ok with
        | none => exact absurd rfl hk
        | some dk =>
          cases ov with
          | none => exact absurd rfl hv
          | some dv => exact absurd rfl (fun _ : (0 : Nat) = 0 => h3 dk dv rfl rfl)

theorem claimEntries_ne_none {fk fv : LVal → Claim} (hk : ∀ v, fk v ≠ na) (hv : ∀ v, fv v ≠ na) :
    ∀ (es : LEntries), claimEntries fk fv es ≠ .ok none
  | .nil => by simp [claimEntries]
  | .cons k v r => by
    unfold claimEntries
    exact consClaim_ne_none (pairClaim_ne_none (hk k) (hv v)) (claimEntries_ne_none hk hv r)

theorem castVariantStr_ne_na : ∀ (vs : TVariants) (s : Bytes), castVariantStr vs s ≠ na
  | .nil, _ => mustFail_ne_na _
  | .cons n k rest, s => by
    unfold castVariantStr
    split
    · split
      · exact must_ne_na _
      · exact mustFail_ne_na _
    · exact castVariantStr_ne_na rest s

theorem mapKeyClaim_ne_na (k : Target) (name : String) : mapKeyClaim k name ≠ na := by
  unfold mapKeyClaim
  split
  · exact must_ne_na _
  · exact must_ne_na _
  · exact must_ne_na _
  · exact must_ne_na _
  · split
    · exact must_ne_na _
    · exact mustFail_ne_na _
  · split
    · exact mustFail_ne_na _
    · exact castVariantStr_ne_na _ _
  · exact mustFail_ne_na _

theorem claimStructAsMap_ne_none {key : String → Claim} {f : Arr → LVal → Claim} (hk : ∀ n, key n ≠ na) :
    ∀ (fs : ArrFields) (lfs : LFields), (∀ a v, a.namesOk = true → f a v ≠ na) → fs.namesOk = true →
      claimStructAsMap key f fs lfs ≠ .ok none
  | .nil, _, _, _ => by simp [claimStructAsMap]
  | .cons _ _ _, .nil, _, _ => by simp [claimStructAsMap]
  | .cons fm a rest, .cons _ lv lrest, hf, hn => by
    simp only [ArrFields.namesOk, Bool.and_eq_true] at hn
    unfold claimStructAsMap
    exact consClaim_ne_none (pairClaim_ne_none (hk _) (hf a lv hn.1)) (claimStructAsMap_ne_none hk rest lrest hf hn.2)

theorem u8Claim_ne_na (t : Target) (x : UInt8) : u8Claim t x ≠ na := by
  unfold u8Claim
  split
  · exact must_ne_na _
  · exact must_ne_na _
  · split
    · exact must_ne_na _
    · exact mustFail_ne_na _
  · exact mustFail_ne_na _

theorem claimList_ne_none : ∀ (cs : List Claim), (∀ c ∈ cs, c ≠ na) → claimList cs ≠ .ok none
  | [], _ => by simp [claimList]
  | c :: cs, h => by
    unfold claimList
    exact consClaim_ne_none (h c (by simp)) (claimList_ne_none cs fun c' hc' => h c' (by simp [hc']))

theorem castBinSeq_ne_na (t : Target) (b : Bytes) : castBinSeq t b ≠ na := by
  unfold castBinSeq
  have := claimList_ne_none (b.map (u8Claim t)) (by
    intro c hc
    obtain ⟨x, _, rfl⟩ := List.mem_map.1 hc
    exact u8Claim_ne_na t x)
  split
  · exact must_ne_na _
  · rename_i h; exact absurd h this
  · simp [na]

theorem fieldNamed_namesOk : ∀ (fs : ArrFields) (lfs : LFields) (n : String) (a : Arr) (v : LVal),
    fieldNamed fs lfs n = some (a, v) → fs.namesOk = true → a.namesOk = true
  | .nil, _, _, _, _, h, _ => by simp [fieldNamed] at h
  | .cons _ _ _, .nil, _, _, _, h, _ => by simp [fieldNamed] at h
  | .cons fm a' rest, .cons _ v' lrest, n, a, v, h, hn => by
    simp only [ArrFields.namesOk, Bool.and_eq_true] at hn
    unfold fieldNamed at h
    split at h
    · cases h; exact hn.1
    · exact fieldNamed_namesOk rest lrest n a v h hn.2

theorem findId_namesOk : ∀ (fs : ArrUFields) (t : Int) (fm : FieldMeta) (a : Arr),
    ArrUFields.findId fs t = some (fm, a) → fs.namesOk = true → a.namesOk = true
  | .nil, _, _, _, h, _ => by simp [ArrUFields.findId] at h
  | .cons i fm' a' r, t, fm, a, h, hn => by
    simp only [ArrUFields.namesOk, Bool.and_eq_true] at hn
    unfold ArrUFields.findId at h
    split at h
    · cases h; exact hn.1
    · exact findId_namesOk r t fm a h hn.2

theorem wrapKey_ne_none (k : DVal) : ∀ (c : Claim), c ≠ na →
    (match c with
      | .ok (some d) => .ok (some (k, d))
      | .ok none => .ok none
      | .error e => .error e : R (Option (DVal × DVal))) ≠ .ok none := by
  intro c hc
  cases c with
  | error e => simp
  | ok o =>
    cases o with
    | none => exact absurd rfl hc
    | some d => simp

/-- `cast t` never answers `na` on views without repeated child names -/
def NN (t : Target) : Prop := ∀ (a : Arr) (lv : LVal), a.namesOk = true → cast t a lv ≠ na

theorem tupleClaim_ne_na {f : ArrFields → LFields → R (Option (List DVal))} (a : Arr) (lv : LVal)
    (hf : ∀ fs lfs, fs.namesOk = true → f fs lfs ≠ .ok none) (ha : a.namesOk = true) : tupleClaim f a lv ≠ na := by
  unfold tupleClaim
  split
  · simp only [Arr.namesOk, Bool.and_eq_true] at ha
    exact andThenL_ne_na (hf _ _ ha.2) fun _ => must_ne_na _
  · exact mustFail_ne_na _
  · exact mustFail_ne_na _

theorem structClaim_ne_na {tn : List String} {f : ArrFields → LFields → R (Option (List (DVal × DVal)))} (a : Arr) (lv : LVal)
    (htn : nodupNames tn = true) (hf : ∀ fs lfs, fs.namesOk = true → f fs lfs ≠ .ok none) (ha : a.namesOk = true) :
    structClaim tn f a lv ≠ na := by
  unfold structClaim
  split
  · simp only [Arr.namesOk, Bool.and_eq_true] at ha
    simp only [ha.1, htn, Bool.not_true, Bool.or_self, Bool.false_eq_true, if_false]
    exact andThenE_ne_na (hf _ _ ha.2) fun _ => must_ne_na _
  · exact mustFail_ne_na _
  · exact mustFail_ne_na _

mutual
theorem cast_nn : ∀ (t : Target), t.namesOk = true → NN t
  | .any, _ => fun a lv _ => by simp only [cast]; exact must_ne_na _
  | .ignored, _ => fun a lv _ => by simp only [cast]; exact must_ne_na _
  | .option t, h => fun a lv ha => by
    simp only [Target.namesOk] at h
    cases lv <;> simp only [cast] <;>
      first | exact must_ne_na _ | exact andThen_ne_na (cast_nn t h a _ ha) fun _ => must_ne_na _
  | .newtype t, h => fun a lv ha => by
    simp only [Target.namesOk] at h
    simp only [cast]; exact cast_nn t h a lv ha
  | .seq t, h => fun a lv ha => by
    simp only [Target.namesOk] at h
    simp only [cast]
    split
    · simp only [Arr.namesOk] at ha
      exact andThenL_ne_na (claimVals_ne_none (fun v => cast_nn t h _ v ha) _) fun _ => must_ne_na _
    · simp only [Arr.namesOk] at ha
      exact andThenL_ne_na (claimVals_ne_none (fun v => cast_nn t h _ v ha) _) fun _ => must_ne_na _
    · split
      · exact castBinSeq_ne_na _ _
      · exact mustFail_ne_na _
    · exact mustFail_ne_na _
    · exact mustFail_ne_na _
  | .tuple ts, h => fun a lv ha => by
    simp only [Target.namesOk] at h
    simp only [cast]
    exact tupleClaim_ne_na a lv (fun fs lfs hfs => castTuple_nn ts h fs lfs hfs) ha
  | .tupleStruct ts, h => fun a lv ha => by
    simp only [Target.namesOk] at h
    simp only [cast]
    exact tupleClaim_ne_na a lv (fun fs lfs hfs => castTuple_nn ts h fs lfs hfs) ha
  | .map k v, h => fun a lv ha => by
    simp only [Target.namesOk, Bool.and_eq_true] at h
    simp only [cast]
    split
    · simp only [Arr.namesOk, Bool.and_eq_true] at ha
      exact andThenE_ne_na (claimStructAsMap_ne_none (mapKeyClaim_ne_na k) _ _ (fun c w hc => cast_nn v h.2 c w hc) ha.2)
        fun _ => must_ne_na _
    · simp only [Arr.namesOk, Bool.and_eq_true] at ha
      exact andThenE_ne_na (claimEntries_ne_none (fun w => cast_nn k h.1 _ w ha.1) (fun w => cast_nn v h.2 _ w ha.2) _)
        fun _ => must_ne_na _
    · exact mustFail_ne_na _
    · exact mustFail_ne_na _
  | .struct tfs, h => fun a lv ha => by
    simp only [Target.namesOk, Bool.and_eq_true] at h
    simp only [cast]
    exact structClaim_ne_na a lv h.1 (fun fs lfs hfs => castFields_nn tfs h.2 fs lfs hfs) ha
  | .enum byIndex vs, h => fun a lv ha => by
    simp only [Target.namesOk] at h
    simp only [cast]
    split
    · rename_i fs t v
      simp only [Arr.namesOk] at ha
      split
      · exact mustFail_ne_na _
      · rename_i fm child hfind
        have hc := findId_namesOk fs t fm child hfind ha
        split
        · exact castVariant_nn vs h _ _ child v hc
        · exact castVariant_nn vs h _ _ child v hc
    · split
      · exact castVariantStr_ne_na _ _
      · exact mustFail_ne_na _
    · exact mustFail_ne_na _
    · exact mustFail_ne_na _
  | .unit, _ => fun a lv _ => by simp only [cast]; exact castScalar_ne_na _ _ _
  | .unitStruct, _ => fun a lv _ => by simp only [cast]; exact castScalar_ne_na _ _ _
  | .bool, _ => fun a lv _ => by simp only [cast]; exact castScalar_ne_na _ _ _
  | .int ty, _ => fun a lv _ => by simp only [cast]; exact castScalar_ne_na _ _ _
  | .f32, _ => fun a lv _ => by simp only [cast]; exact castScalar_ne_na _ _ _
  | .f64, _ => fun a lv _ => by simp only [cast]; exact castScalar_ne_na _ _ _
  | .char, _ => fun a lv _ => by simp only [cast]; exact castScalar_ne_na _ _ _
  | .string, _ => fun a lv _ => by simp only [cast]; exact castScalar_ne_na _ _ _
  | .str, _ => fun a lv _ => by simp only [cast]; exact castScalar_ne_na _ _ _
  | .bytes, _ => fun a lv _ => by simp only [cast]; exact castScalar_ne_na _ _ _
  | .byteBuf, _ => fun a lv _ => by
    simp only [cast]
    split
    · exact andThenL_ne_na (claimVals_ne_none (fun v => castScalar_ne_na _ _ v) _) fun _ => must_ne_na _
    · exact castScalar_ne_na _ _ _
theorem castTuple_nn : ∀ (ts : Targets), ts.namesOk = true → ∀ (fs : ArrFields) (lfs : LFields), fs.namesOk = true →
    castTuple ts fs lfs ≠ .ok none
  | .nil, _, _, _, _ => by simp [castTuple]
  | .cons t rest, h, .cons fm a frest, .cons n v lrest, hfs => by
    simp only [Targets.namesOk, Bool.and_eq_true] at h
    simp only [ArrFields.namesOk, Bool.and_eq_true] at hfs
    simp only [castTuple]
    exact consClaim_ne_none (cast_nn t h.1 a v hfs.1) (castTuple_nn rest h.2 frest lrest hfs.2)
  | .cons _ _, _, .nil, _, _ => by simp [castTuple, fail]
  | .cons _ _, _, .cons _ _ _, .nil, _ => by simp [castTuple, fail]
theorem castFields_nn : ∀ (tfs : TFields), tfs.namesOk = true → ∀ (fs : ArrFields) (lfs : LFields), fs.namesOk = true →
    castFields tfs fs lfs ≠ .ok none
  | .nil, _, _, _, _ => by simp [castFields]
  | .cons n t rest, h, fs, lfs, hfs => by
    simp only [TFields.namesOk, Bool.and_eq_true] at h
    simp only [castFields]
    refine consClaim_ne_none ?_ (castFields_nn rest h.2 fs lfs hfs)
    show (match (match fieldNamed fs lfs n with
        | some (a, v) => cast t a v
        | none => if t.isOption then must .none else mustFail "missing field") with
      | .ok (some d) => .ok (some ((DVal.str .transient (strBytes n), d)))
      | .ok none => .ok none
      | .error e => .error e : R (Option (DVal × DVal))) ≠ .ok none
    have hhere : (match fieldNamed fs lfs n with
        | some (a, v) => cast t a v
        | none => if t.isOption then must .none else mustFail "missing field") ≠ na := by
      split
      · rename_i a v hf
        exact cast_nn t h.1 a v (fieldNamed_namesOk fs lfs n a v hf hfs)
      · split
        · exact must_ne_na _
        · exact mustFail_ne_na _
    exact wrapKey_ne_none _ _ hhere
theorem castVariant_nn : ∀ (vs : TVariants), vs.namesOk = true → ∀ (sel : Option Nat) (name : String) (child : Arr) (v : LVal),
    child.namesOk = true → castVariant vs sel name child v ≠ na
  | .nil, _, _, _, _, _, _ => by simp only [castVariant]; exact mustFail_ne_na _
  | .cons n k rest, h, sel, name, child, v, hc => by
    simp only [TVariants.namesOk, Bool.and_eq_true] at h
    simp only [castVariant]
    (repeat' split) <;> first
      | exact andThen_ne_na (castKind_nn k h.1 child v hc) fun _ => must_ne_na _
      | exact castVariant_nn rest h.2 _ name child v hc
theorem castKind_nn : ∀ (k : VKind), k.namesOk = true → ∀ (child : Arr) (v : LVal), child.namesOk = true →
    castKind k child v ≠ na
  | .unit, _, child, v, _ => by
    simp only [castKind]
    split
    · exact must_ne_na _
    · exact mustFail_ne_na _
  | .newtype t, h, child, v, hc => by
    simp only [VKind.namesOk] at h
    simp only [castKind]; exact cast_nn t h child v hc
  | .tuple ts, h, child, v, hc => by
    simp only [VKind.namesOk] at h
    simp only [castKind]
    exact tupleClaim_ne_na child v (fun fs lfs hfs => castTuple_nn ts h fs lfs hfs) hc
  | .struct tfs, h, child, v, hc => by
    simp only [VKind.namesOk, Bool.and_eq_true] at h
    simp only [castKind]
    exact structClaim_ne_na child v h.1 (fun fs lfs hfs => castFields_nn tfs h.2 fs lfs hfs) hc
end

end SaModel.Read
