import SaModel.Lemmas.C02TypedLeaf
/-
C02, typed reads, part 3: one soundness lemma per target constructor.  `Sound t` says: whatever the value-level
specification `cast t` demands of a slot whose Arrow reading is defined, `readAs t` returns.  Every lemma takes the
soundness of the component targets as hypotheses; `Props/C02.lean` ties the knot by structural recursion over `Target`.
-/
namespace SaModel.Read
open SaModel SaModel.Spec

def Sound (t : Target) : Prop :=
  ∀ (a : Arr) (i : Nat) (lv : LVal) (d : DVal), decodeAt a i = .ok lv → new Fixes.all a = .ok () → physical a = true →
    utf8Ok lv = true → cast t a lv = must d → readAs Fixes.all t a i = .ok d

/-! ### combinators -/

theorem andThen_must {x : Claim} {f : DVal → Claim} {d : DVal} (h : x.andThen f = must d) :
    ∃ d', x = must d' ∧ f d' = must d := by
  unfold Claim.andThen at h
  split at h
  · exact ⟨_, rfl, h⟩
  · simp [na, must] at h
  · simp [must] at h

theorem andThenL_must {x : R (Option (List DVal))} {f : List DVal → Claim} {d : DVal} (h : andThenL x f = must d) :
    ∃ ds, x = .ok (some ds) ∧ f ds = must d := by
  unfold andThenL at h
  split at h
  · exact ⟨_, rfl, h⟩
  · simp [na, must] at h
  · simp [must] at h

theorem andThenE_must {x : R (Option (List (DVal × DVal)))} {f : List (DVal × DVal) → Claim} {d : DVal}
    (h : andThenE x f = must d) : ∃ ds, x = .ok (some ds) ∧ f ds = must d := by
  unfold andThenE at h
  split at h
  · exact ⟨_, rfl, h⟩
  · simp [na, must] at h
  · simp [must] at h

theorem consClaim_some {α} {x : R (Option α)} {rest : R (Option (List α))} {l : List α}
    (h : consClaim x rest = .ok (some l)) : ∃ d ds, x = .ok (some d) ∧ rest = .ok (some ds) ∧ l = d :: ds := by
  unfold consClaim at h
  split at h
  · cases h
  · split at h <;> cases h
  · split at h
    · cases h; exact ⟨_, _, rfl, rfl, rfl⟩
    · rename_i hne
      exact absurd h (by intro h'; exact hne _ h')

/-! ### targets without components -/

theorem sound_any : Sound .any := by
  intro a i lv d h hn hp hu hc
  simp only [cast] at hc
  cases must_inj hc
  simp only [readAs]
  exact readAny_decodeAt a i lv h hn hp hu

theorem sound_ignored : Sound .ignored := by
  intro a i lv d h hn hp hu hc
  simp only [cast] at hc
  cases must_inj hc
  simp only [readAs, readAny_decodeAt a i lv h hn hp hu]
  rfl

theorem sound_scalar {t : Target} {m : Method} (hm : methodOf t = some m) (hc' : ∀ a lv, cast t a lv = castScalar t a lv)
    (hr : ∀ a i, (∀ lg v offs fm el, a ≠ .list lg v offs fm el) → readAs Fixes.all t a i = (scalar Fixes.all m a i >>= accept t)) :
    Sound t := by
  intro a i lv d h hn hp hu hc
  rw [hc'] at hc
  by_cases hl : ∀ lg v offs fm el, a ≠ .list lg v offs fm el
  · rw [hr a i hl]
    exact scalar_sound hm a i lv d h hn hp hu hc
  · have : ∃ lg v offs fm el, a = .list lg v offs fm el := by
      apply Classical.byContradiction
      intro hx
      apply hl
      intro lg v offs fm el he
      exact hx ⟨lg, v, offs, fm, el, he⟩
    obtain ⟨lg, v, offs, fm, el, rfl⟩ := this
    rcases (list_inv h).2 with rfl | ⟨xs, _, rfl⟩
    · have := null_lv_scalar hc; simp [isNullArr] at this
    · exact absurd hc (castScalar_list hm)

theorem sound_option {t : Target} (hS : Sound t) : Sound (.option t) := by
  intro a i lv d h hn hp hu hc
  have hs := isSome_of_decode a i lv h hn hp hu
  simp only [readAs, hs, bind, Except.bind]
  cases lv with
  | null =>
    simp only [cast] at hc
    cases must_inj hc
    rfl
  | _ =>
    simp only [cast] at hc
    obtain ⟨d', hc1, hc2⟩ := andThen_must hc
    cases must_inj hc2
    simp only [LVal.isNull, Bool.not_false, if_true, hS a i _ d' h hn hp hu hc1]
    rfl

theorem sound_newtype {t : Target} (hS : Sound t) : Sound (.newtype t) := by
  intro a i lv d h hn hp hu hc
  simp only [cast] at hc
  simp only [readAs]
  exact hS a i lv d h hn hp hu hc

/-! ### sequences -/

theorem readRange_of_claims {f : Nat → R LVal} {g : Nat → R DVal} {c : LVal → Claim} {P : LVal → Prop}
    (hfg : ∀ j v d, f j = .ok v → P v → c v = must d → g j = .ok d) :
    ∀ (n s : Nat) (xs : List LVal) (ds : List DVal), seqAt f s n = .ok xs → (∀ v ∈ xs, P v) →
      claimVals c (LVals.ofList xs) = .ok (some ds) → readRange g s n = .ok ds
  | 0, s, xs, ds, hs, _, hc => by
    unfold seqAt at hs; cases hs
    simp only [LVals.ofList, claimVals] at hc
    cases hc; rfl
  | n + 1, s, xs, ds, hs, hp, hc => by
    unfold seqAt at hs
    obtain ⟨v, hv, hs⟩ := bind_ok_inv hs
    obtain ⟨vs, hvs, hs⟩ := bind_ok_inv hs
    cases hs
    simp only [LVals.ofList, claimVals] at hc
    obtain ⟨d, ds', h1, h2, rfl⟩ := consClaim_some hc
    unfold readRange
    rw [hfg s v d hv (hp v (by simp)) h1,
      readRange_of_claims hfg n (s + 1) vs ds' hvs (fun w hw => hp w (by simp [hw])) h2]
    rfl

theorem u8Claim_must {t : Target} {x : UInt8} {d : DVal} (h : u8Claim t x = must d) : u8As t x = .ok d := by
  cases t <;> simp only [u8Claim, mustFail, fail, must, reduceCtorEq, Except.ok.injEq, Option.some.injEq] at h
  case any => subst h; rfl
  case ignored => subst h; rfl
  case int ty =>
    split at h
    · rename_i hr
      simp only [Except.ok.injEq, Option.some.injEq] at h
      subst h; simp [u8As, hr]
    · cases h

theorem mapM_u8As_of_claims (t : Target) : ∀ (b : Bytes) (ds : List DVal),
    claimList (b.map (u8Claim t)) = .ok (some ds) → b.mapM (u8As t) = .ok ds
  | [], ds, h => by simp only [List.map_nil, claimList] at h; cases h; rfl
  | x :: b, ds, h => by
    simp only [List.map_cons, claimList] at h
    obtain ⟨d, ds', h1, h2, rfl⟩ := consClaim_some h
    rw [List.mapM_cons, u8Claim_must h1, mapM_u8As_of_claims t b ds' h2]
    rfl

theorem castBinSeq_must {t : Target} {b : Bytes} {d : DVal} (h : castBinSeq t b = must d) :
    ∃ ds, b.mapM (u8As t) = .ok ds ∧ d = .seq (DVals.ofList ds) := by
  unfold castBinSeq at h
  split at h
  · rename_i ds hds
    exact ⟨ds, mapM_u8As_of_claims t b ds hds, (must_inj h).symm⟩
  · simp [na, must] at h
  · simp [must] at h

theorem sound_seq {t : Target} (hS : Sound t) : Sound (.seq t) := by
  intro a i lv d h hn hp hu hc
  cases a with
  | list lg v offs fm el =>
    obtain ⟨hi, hlv⟩ := list_inv h
    rcases hlv with rfl | ⟨xs, hxs, rfl⟩
    · simp [cast, mustFail, must, fail] at hc
    · simp only [cast] at hc
      obtain ⟨ds, hcl, hd⟩ := andThenL_must hc
      cases must_inj hd
      obtain ⟨h0, h1, _, hseq⟩ := rangeAt_ok hxs
      unfold physical at hp
      simp only [utf8Ok] at hu
      have hr := readRange_of_claims (g := fun j => readAs Fixes.all t el j) (c := fun v => cast t el v)
        (P := fun v => utf8Ok v = true)
        (fun j v d hj hv' hcv => hS el j v d hj (new_list_inv hn) hp hv' hcv) _ _ xs ds hseq (utf8OkList_mem xs hu) hcl
      simp only [readAs, listRange_eval hi h0 h1, bind, Except.bind, hr]
      rfl
  | fixedSizeList len v n fm el =>
    obtain ⟨hi, hlv⟩ := fsl_inv h
    rcases hlv with rfl | ⟨xs, hneg, hxs, rfl⟩
    · simp [cast, mustFail, must, fail] at hc
    · simp only [cast] at hc
      obtain ⟨ds, hcl, hd⟩ := andThenL_must hc
      cases must_inj hd
      obtain ⟨hnew, hn0⟩ := new_fsl_inv hn
      obtain ⟨_, _, hle, hseq⟩ := rangeAt_ok hxs
      unfold physical at hp
      simp only [Bool.and_eq_true, decide_eq_true_eq] at hp
      simp only [utf8Ok] at hu
      have hlt : ¬ i ≥ len := by omega
      have e1 : ((i : Int) * n).toNat = i * n.toNat := by
        have : (i : Int) * n = ((i * n.toNat : Nat) : Int) := by
          rw [Int.natCast_mul, Int.toNat_of_nonneg hn0]
        rw [this, Int.toNat_natCast]
      have e2 : (((i : Int) + 1) * n).toNat = (i + 1) * n.toNat := by
        have : ((i : Int) + 1) * n = (((i + 1) * n.toNat : Nat) : Int) := by
          rw [Int.natCast_mul, Int.toNat_of_nonneg hn0]; simp
        rw [this, Int.toNat_natCast]
      have hfit : ¬ (i + 1) * n.toNat > usizeMax := by
        have : (((i + 1) * n.toNat : Nat) : Int) ≤ (lenOf el : Int) := by
          rw [Int.natCast_mul, Int.toNat_of_nonneg hn0]; simpa using hle
        omega
      have hrange : fslRange Fixes.all len n i = .ok (i * n.toNat, (i + 1) * n.toNat) := by
        unfold fslRange
        simp only [hlt, if_false, tryIntoUsize_nonneg hn0, bind, Except.bind, hfit, pure, Except.pure]
      have hr := readRange_of_claims (g := fun j => readAs Fixes.all t el j) (c := fun v => cast t el v)
        (P := fun v => utf8Ok v = true)
        (fun j v d hj hv' hcv => hS el j v d hj hnew hp.2 hv' hcv) _ _ xs ds hseq (utf8OkList_mem xs hu) hcl
      rw [e1, e2] at hr
      simp only [readAs, hrange, bind, Except.bind, hr]
      rfl
  | bytes ty v offs data =>
    rcases bytes_get h hu with ⟨rfl, hg⟩ | ⟨b, rfl, hg⟩
    · simp [cast, mustFail, must, fail] at hc
    · cases hty : isUtf8Ty ty
      · simp only [cast, bytesVal, hty, isBinaryLike, Bool.false_eq_true, if_false, Bool.not_false, if_true] at hc
        obtain ⟨ds, hm, rfl⟩ := castBinSeq_must hc
        simp only [readAs, binaryElems, hty, Bool.false_eq_true, if_false, hg, getRequired, bind, Except.bind, pure,
          Except.pure, hm]
      · simp [cast, bytesVal, hty, isBinaryLike, mustFail, fail, must] at hc
  | bytesView ty v views buffers =>
    rcases view_get h hu with ⟨rfl, hg⟩ | ⟨b, rfl, hg⟩
    · simp [cast, mustFail, must, fail] at hc
    · cases hty : isUtf8View ty
      · simp only [cast, bytesVal, hty, isBinaryLike, Bool.false_eq_true, if_false, Bool.not_false, if_true] at hc
        obtain ⟨ds, hm, rfl⟩ := castBinSeq_must hc
        simp only [readAs, binaryElems, hty, Bool.false_eq_true, if_false, hg, getRequired, bind, Except.bind, pure,
          Except.pure, hm]
      · simp [cast, bytesVal, hty, isBinaryLike, mustFail, fail, must] at hc
  | fixedSizeBinary n v data =>
    rcases fsb_get h hn with ⟨rfl, hg⟩ | ⟨b, rfl, hg⟩
    · simp [cast, mustFail, must, fail] at hc
    · simp only [cast, isBinaryLike, if_true] at hc
      obtain ⟨ds, hm, rfl⟩ := castBinSeq_must hc
      simp only [readAs, binaryElems, hg, getRequired, bind, Except.bind, pure, Except.pure, hm]
  | _ => cases lv <;> simp [cast, isBinaryLike, mustFail, must, na, fail] at hc

/-! ### tuples over struct columns -/

def Targets.toList : Targets → List Target
  | .nil => []
  | .cons t r => t :: Targets.toList r

def TFields.toList : TFields → List (String × Target)
  | .nil => []
  | .cons n t r => (n, t) :: TFields.toList r

def TVariants.toList : TVariants → List (String × VKind)
  | .nil => []
  | .cons n k r => (n, k) :: TVariants.toList r

theorem decodeFieldsAt_cons_inv {fm : FieldMeta} {a : Arr} {rest : ArrFields} {i : Nat} {vals : List (String × LVal)}
    (h : decodeFieldsAt (.cons fm a rest) i = .ok vals) :
    ∃ v r, decodeAt a i = .ok v ∧ decodeFieldsAt rest i = .ok r ∧ vals = (fm.name, v) :: r := by
  unfold decodeFieldsAt at h
  obtain ⟨v, hv, h⟩ := bind_ok_inv h
  obtain ⟨r, hr, h⟩ := bind_ok_inv h
  cases h
  exact ⟨v, r, hv, hr, rfl⟩

theorem readTupleFields_sound : ∀ (ts : Targets), (∀ t ∈ Targets.toList ts, Sound t) →
    ∀ (fs : ArrFields) (i : Nat) (vals : List (String × LVal)) (ds : List DVal),
    decodeFieldsAt fs i = .ok vals → newFields Fixes.all fs = .ok () → physicalFields fs = true →
    utf8OkFields (LFields.ofList vals) = true → castTuple ts fs (LFields.ofList vals) = .ok (some ds) →
    readTupleFields Fixes.all ts fs i = .ok ds
  | .nil, _, fs, i, vals, ds, _, _, _, _, hc => by
    simp only [castTuple] at hc
    cases hc
    simp [readTupleFields]
  | .cons t rest, hS, .nil, i, vals, ds, h, _, _, _, hc => by
    unfold decodeFieldsAt at h; cases h
    simp [castTuple, LFields.ofList, fail] at hc
  | .cons t rest, hS, .cons fm a frest, i, vals, ds, h, hn, hp, hu, hc => by
    obtain ⟨v, r, hv, hr, rfl⟩ := decodeFieldsAt_cons_inv h
    obtain ⟨hna, hnr⟩ := newFields_cons_inv hn
    unfold physicalFields at hp
    simp only [Bool.and_eq_true] at hp
    simp only [LFields.ofList, utf8OkFields, Bool.and_eq_true] at hu
    simp only [LFields.ofList, castTuple] at hc
    obtain ⟨d, ds', h1, h2, rfl⟩ := consClaim_some hc
    have e1 := hS t (by simp [Targets.toList]) a i v d hv hna hp.1 hu.1 h1
    have e2 := readTupleFields_sound rest (fun t' ht' => hS t' (by simp [Targets.toList, ht'])) frest i r ds' hr hnr hp.2 hu.2 h2
    simp only [readTupleFields, e1, e2, bind, Except.bind, pure, Except.pure]

theorem structItem_ok {len i : Nat} (hi : i < len) : structItem Fixes.all len i = .ok () := by
  have : ¬ i ≥ len := by omega
  simp [structItem, this]

/-- `tupleClaim` + `tupleVisit` (tuple, tuple struct, tuple variant) -/
theorem tupleVisit_sound {ts : Targets} (hS : ∀ t ∈ Targets.toList ts, Sound t) (a : Arr) (i : Nat) (lv : LVal) (d : DVal)
    (h : decodeAt a i = .ok lv) (hn : new Fixes.all a = .ok ()) (hp : physical a = true) (hu : utf8Ok lv = true)
    (hc : tupleClaim (fun fs lfs => castTuple ts fs lfs) a lv = must d) :
    tupleVisit Fixes.all (fun fs => readTupleFields Fixes.all ts fs i) a i = .ok d := by
  cases a with
  | struct len v fs =>
    obtain ⟨hi, hlv⟩ := struct_inv h
    rcases hlv with rfl | ⟨vals, hvals, rfl⟩
    · simp [tupleClaim, mustFail, must, fail] at hc
    · simp only [tupleClaim] at hc
      obtain ⟨ds, hcl, hd⟩ := andThenL_must hc
      cases must_inj hd
      unfold physical at hp
      simp only [utf8Ok] at hu
      have := readTupleFields_sound ts hS fs i vals ds hvals (new_struct_inv hn) hp hu hcl
      simp only [tupleVisit, structItem_ok hi, this, bind, Except.bind, pure, Except.pure]
  | _ => cases lv <;> simp [tupleClaim, mustFail, must, na, fail] at hc

theorem sound_tuple {ts : Targets} (hS : ∀ t ∈ Targets.toList ts, Sound t) : Sound (.tuple ts) := by
  intro a i lv d h hn hp hu hc
  simp only [cast] at hc
  simp only [readAs]
  exact tupleVisit_sound hS a i lv d h hn hp hu hc

theorem sound_tupleStruct {ts : Targets} (hS : ∀ t ∈ Targets.toList ts, Sound t) : Sound (.tupleStruct ts) := by
  intro a i lv d h hn hp hu hc
  simp only [cast] at hc
  simp only [readAs]
  exact tupleVisit_sound hS a i lv d h hn hp hu hc

/-- `ByteBuf`: from a List / LargeList column every element by value as `u8`; otherwise a scalar read -/
theorem sound_byteBuf : Sound .byteBuf := by
  intro a i lv d h hn hp hu hc
  by_cases hl : ∃ lg v offs fm el, a = .list lg v offs fm el
  · obtain ⟨lg, v, offs, fm, el, rfl⟩ := hl
    obtain ⟨hi, hlv⟩ := list_inv h
    rcases hlv with rfl | ⟨xs, hxs, rfl⟩
    · simp [cast, castScalar, mustFail, must, fail] at hc
    · simp only [cast] at hc
      obtain ⟨ds, hcl, hd⟩ := andThenL_must hc
      cases must_inj hd
      obtain ⟨h0, h1, _, hseq⟩ := rangeAt_ok hxs
      unfold physical at hp
      simp only [utf8Ok] at hu
      have hr := readRange_of_claims (g := fun j => scalar Fixes.all (.int .u8) el j >>= accept (.int .u8))
        (c := fun v => castScalar (.int .u8) el v) (P := fun v => utf8Ok v = true)
        (fun j v d hj hv' hcv => scalar_sound (t := .int .u8) rfl el j v d hj (new_list_inv hn) hp hv' hcv)
        _ _ xs ds hseq (utf8OkList_mem xs hu) hcl
      simp only [readAs, listRange_eval hi h0 h1, bind, Except.bind] at hr ⊢
      rw [hr]
      rfl
  · have hc' : cast .byteBuf a lv = castScalar .byteBuf a lv := by
      cases a <;> first | (simp only [cast]; done) | exact absurd ⟨_, _, _, _, _, rfl⟩ hl
    have hr : readAs Fixes.all .byteBuf a i = (scalar Fixes.all .byteBuf a i >>= accept .byteBuf) := by
      cases a <;> first | rfl | exact absurd ⟨_, _, _, _, _, rfl⟩ hl
    rw [hc'] at hc
    rw [hr]
    exact scalar_sound rfl a i lv d h hn hp hu hc

/-! ### maps: from a struct column (field names as keys) and from a map column -/

theorem pairClaim_some {k v : Claim} {p : DVal × DVal} (h : pairClaim k v = .ok (some p)) :
    k = must p.1 ∧ v = must p.2 := by
  unfold pairClaim at h
  split at h
  · cases h
  · cases h
  · cases h; exact ⟨rfl, rfl⟩
  · cases h

theorem castVariantStr_must : ∀ (vs : TVariants) (b : Bytes) (d : DVal), castVariantStr vs b = must d → strVariant vs b = .ok d
  | .nil, b, d, h => by simp [castVariantStr, mustFail, must, fail] at h
  | .cons n k rest, b, d, h => by
    unfold castVariantStr at h
    unfold strVariant
    split at h
    · rename_i hb
      simp only [hb, if_true]
      cases k <;> simp only [mustFail, fail, must, reduceCtorEq, Except.ok.injEq, Option.some.injEq] at h
      subst h; rfl
    · rename_i hb
      simp only [hb, Bool.false_eq_true, if_false]
      exact castVariantStr_must rest b d h

/-- a field name as map key: what `mapKeyClaim` demands is what serde's `StrDeserializer` hands to the key's visitor -/
theorem mapKeyClaim_must {k : Target} {name : String} {d : DVal} (h : mapKeyClaim k name = must d) :
    strDeAs k name = .ok d := by
  cases k <;> simp only [mapKeyClaim, mustFail, fail, must, reduceCtorEq, Except.ok.injEq, Option.some.injEq] at h
  case any => subst h; rfl
  case ignored => subst h; rfl
  case string => subst h; rfl
  case byteBuf => subst h; rfl
  case char =>
    unfold strDeAs
    split at h
    · rename_i c hc
      simp only [Except.ok.injEq, Option.some.injEq] at h
      subst h; simp [hc]
    · cases h
  case «enum» byIndex vs =>
    unfold strDeAs
    cases byIndex
    · simp only [Bool.false_eq_true, if_false] at h ⊢
      exact castVariantStr_must vs _ d h
    · simp at h

theorem structAsMap_sound {k v : Target} (hS : Sound v) :
    ∀ (fs : ArrFields) (i : Nat) (vals : List (String × LVal)) (es : List (DVal × DVal)),
    decodeFieldsAt fs i = .ok vals → newFields Fixes.all fs = .ok () → physicalFields fs = true →
    utf8OkFields (LFields.ofList vals) = true →
    claimStructAsMap (mapKeyClaim k) (fun c w => cast v c w) fs (LFields.ofList vals) = .ok (some es) →
    (fs.toList.mapM fun (p : FieldMeta × Arr) => do
        let kk ← strDeAs k p.1.name
        let vv ← readAs Fixes.all v p.2 i
        pure (kk, vv)) = .ok es
  | .nil, i, vals, es, h, _, _, _, hc => by
    unfold decodeFieldsAt at h; cases h
    simp only [LFields.ofList, claimStructAsMap] at hc
    cases hc
    simp [ArrFields.toList, pure, Except.pure]
  | .cons fm a rest, i, vals, es, h, hn, hp, hu, hc => by
    obtain ⟨w, r, hw, hr, rfl⟩ := decodeFieldsAt_cons_inv h
    obtain ⟨hna, hnr⟩ := newFields_cons_inv hn
    unfold physicalFields at hp
    simp only [Bool.and_eq_true] at hp
    simp only [LFields.ofList, utf8OkFields, Bool.and_eq_true] at hu
    simp only [LFields.ofList, claimStructAsMap] at hc
    obtain ⟨e, es', h1, h2, rfl⟩ := consClaim_some hc
    have ih := structAsMap_sound (k := k) hS rest i r es' hr hnr hp.2 hu.2 h2
    obtain ⟨hk1, hv1⟩ := pairClaim_some h1
    have e1 := hS a i w e.2 hw hna hp.1 hu.1 hv1
    have ek := mapKeyClaim_must hk1
    rw [ArrFields.toList, List.mapM_cons, ih]
    simp only [ek, e1, bind, Except.bind, pure, Except.pure]

theorem readRange_pairs_of_claims {f1 f2 : Nat → R LVal} {g1 g2 : Nat → R DVal} {c1 c2 : LVal → Claim} {P : LVal → Prop}
    (hfg1 : ∀ j v d, f1 j = .ok v → P v → c1 v = must d → g1 j = .ok d)
    (hfg2 : ∀ j v d, f2 j = .ok v → P v → c2 v = must d → g2 j = .ok d) :
    ∀ (n s : Nat) (ks ws : List LVal) (es : List (DVal × DVal)), seqAt f1 s n = .ok ks → seqAt f2 s n = .ok ws →
      (∀ v ∈ ks, P v) → (∀ v ∈ ws, P v) → claimEntries c1 c2 (LEntries.ofList (ks.zip ws)) = .ok (some es) →
      readRange (fun j => do let k ← g1 j; let v ← g2 j; pure (k, v)) s n = .ok es
  | 0, s, ks, ws, es, hk, hw, _, _, hc => by
    unfold seqAt at hk hw; cases hk; cases hw
    simp only [List.zip_nil_left, LEntries.ofList, claimEntries] at hc
    cases hc; rfl
  | n + 1, s, ks, ws, es, hk, hw, pk, pw, hc => by
    unfold seqAt at hk hw
    obtain ⟨k, hk1, hk⟩ := bind_ok_inv hk
    obtain ⟨ks', hks, hk⟩ := bind_ok_inv hk
    cases hk
    obtain ⟨w, hw1, hw⟩ := bind_ok_inv hw
    obtain ⟨ws', hws, hw⟩ := bind_ok_inv hw
    cases hw
    simp only [List.zip_cons_cons, LEntries.ofList, claimEntries] at hc
    obtain ⟨e, es', h1, h2, rfl⟩ := consClaim_some hc
    obtain ⟨c1k, c2w⟩ := pairClaim_some h1
    unfold readRange
    have ih := readRange_pairs_of_claims hfg1 hfg2 n (s + 1) ks' ws' es' hks hws (fun v hv => pk v (by simp [hv]))
      (fun v hv => pw v (by simp [hv])) h2
    simp only [hfg1 s k e.1 hk1 (pk k (by simp)) c1k, hfg2 s w e.2 hw1 (pw w (by simp)) c2w, bind, Except.bind, pure,
      Except.pure] at ih ⊢
    rw [ih]

theorem sound_map {k v : Target} (hK : Sound k) (hV : Sound v) : Sound (.map k v) := by
  intro a i lv d h hn hp hu hc
  cases a with
  | struct len vb fs =>
    obtain ⟨hi, hlv⟩ := struct_inv h
    rcases hlv with rfl | ⟨vals, hvals, rfl⟩
    · simp [cast, mustFail, must, fail] at hc
    · simp only [cast] at hc
      obtain ⟨es, hcl, hd⟩ := andThenE_must hc
      cases must_inj hd
      unfold physical at hp
      simp only [utf8Ok] at hu
      have := structAsMap_sound hV fs i vals es hvals (new_struct_inv hn) hp hu hcl
      simp only [readAs, structItem_ok hi, bind, Except.bind, pure, Except.pure] at this ⊢
      rw [this]
  | map vb offs mm ks vs =>
    obtain ⟨hi, hlv⟩ := map_inv h
    rcases hlv with rfl | ⟨kxs, wxs, hkx, hwx, rfl⟩
    · simp [cast, mustFail, must, fail] at hc
    · simp only [cast] at hc
      obtain ⟨es, hcl, hd⟩ := andThenE_must hc
      cases must_inj hd
      obtain ⟨h0, h1, _, hkseq⟩ := rangeAt_ok hkx
      obtain ⟨_, _, _, hwseq⟩ := rangeAt_ok hwx
      obtain ⟨hnk, hnv⟩ := new_map_inv hn
      unfold physical at hp
      simp only [Bool.and_eq_true] at hp
      simp only [utf8Ok] at hu
      have hlen : kxs.length = wxs.length := by
        rw [seqAt_length _ _ _ hkseq, seqAt_length _ _ _ hwseq]
      obtain ⟨pk, pw⟩ := utf8OkEntries_zip kxs wxs hlen hu
      have hr := readRange_pairs_of_claims (g1 := fun j => readAs Fixes.all k ks j) (g2 := fun j => readAs Fixes.all v vs j)
        (c1 := fun w => cast k ks w) (c2 := fun w => cast v vs w) (P := fun v => utf8Ok v = true)
        (fun j x d hj hx hcx => hK ks j x d hj hnk hp.1 hx hcx)
        (fun j x d hj hx hcx => hV vs j x d hj hnv hp.2 hx hcx) _ _ kxs wxs es hkseq hwseq pk pw hcl
      simp only [readAs, listRange_eval hi h0 h1, bind, Except.bind, pure, Except.pure] at hr ⊢
      rw [hr]
  | _ => cases lv <;> simp [cast, mustFail, must, na, fail] at hc

/-! ### enums: from a dense union (by name / by index) and from a string column (unit variants by name) -/

def KSound (k : VKind) : Prop :=
  ∀ (child : Arr) (off : Nat) (lv : LVal) (d : DVal), decodeAt child off = .ok lv → new Fixes.all child = .ok () →
    physical child = true → utf8Ok lv = true → castKind k child lv = must d →
    readKind Fixes.all k (some (child, off)) = .ok d

theorem ksound_unit : KSound .unit := by
  intro child off lv d h hn hp hu hc
  cases child with
  | null len =>
    obtain ⟨rfl, hg⟩ := null_get h
    simp only [castKind, isNullArr, Bool.true_and] at hc
    split at hc
    · cases must_inj hc
      simp only [readKind]
      unfold scalar
      simp [hg, accept, bind, Except.bind, pure, Except.pure]
    · simp [na, must] at hc
  | _ => simp [castKind, isNullArr, na, must] at hc

theorem ksound_newtype {t : Target} (hS : Sound t) : KSound (.newtype t) := by
  intro child off lv d h hn hp hu hc
  simp only [castKind] at hc
  simp only [readKind]
  exact hS child off lv d h hn hp hu hc

theorem ksound_tuple {ts : Targets} (hS : ∀ t ∈ Targets.toList ts, Sound t) : KSound (.tuple ts) := by
  intro child off lv d h hn hp hu hc
  simp only [castKind] at hc
  simp only [readKind]
  exact tupleVisit_sound hS child off lv d h hn hp hu hc

theorem variant_facts : ∀ (fs : ArrUFields) (k pos j : Nat) (w : LVal),
    decodeVariantAt fs pos j = .ok w → newUFields Fixes.all fs k = .ok () → physicalUFields fs = true →
    ∃ fm child, ArrUFields.nth fs pos = some (fm, child) ∧ decodeAt child j = .ok w ∧ new Fixes.all child = .ok () ∧
      physical child = true
  | .nil, _, _, _, _, h, _, _ => by unfold decodeVariantAt at h; cases h
  | .cons tid fm a rest, k, 0, j, w, h, hn, hp => by
    unfold decodeVariantAt at h
    unfold newUFields at hn
    split at hn
    · cases hn
    · obtain ⟨_, _, hn⟩ := bind_ok_inv hn
      obtain ⟨u, hna, hn⟩ := bind_ok_inv hn
      cases u
      unfold physicalUFields at hp
      simp only [Bool.and_eq_true] at hp
      exact ⟨fm, a, by simp [ArrUFields.nth], h, hna, hp.1⟩
  | .cons tid fm a rest, k, pos + 1, j, w, h, hn, hp => by
    unfold decodeVariantAt at h
    unfold newUFields at hn
    split at hn
    · cases hn
    · obtain ⟨_, _, hn⟩ := bind_ok_inv hn
      obtain ⟨_, _, hn⟩ := bind_ok_inv hn
      unfold physicalUFields at hp
      simp only [Bool.and_eq_true] at hp
      obtain ⟨fm', child, hnth, hr⟩ := variant_facts rest (k + 1) pos j w h hn hp.2
      exact ⟨fm', child, by simp [ArrUFields.nth, hnth], hr⟩

/-- what a defined slot of a dense union is, and how the reader selects it -/
theorem union_facts {types : List Int} {offs : Option (List Int)} {fs : ArrUFields} {i : Nat} {lv : LVal}
    (h : decodeAt (.union types offs fs) i = .ok lv) (hn : new Fixes.all (.union types offs fs) = .ok ())
    (hp : physical (.union types offs fs) = true) :
    ∃ (pos off : Nat) (fm : FieldMeta) (child : Arr) (w : LVal), lv = .union (pos : Int) w ∧
      unionSelect Fixes.all types offs fs.length i = .ok (pos, off) ∧ ArrUFields.nth fs pos = some (fm, child) ∧
      ArrUFields.findId fs (pos : Int) = some (fm, child) ∧ decodeAt child off = .ok w ∧
      new Fixes.all child = .ok () ∧ physical child = true := by
  unfold new at hn
  split at hn
  · cases hn
  · rename_i o
    split at hn
    · cases hn
    · rename_i hlen
      have hlen' : types.length = o.length := by
        by_cases hh : types.length = o.length
        · exact hh
        · exact absurd hh (by simpa using hlen)
      unfold decodeAt at h
      split at h
      · rename_i hi
        try simp only at h
        split at h
        · cases h
        · rename_i pos hpos
          try simp only at h
          split at h
          · rename_i hc
            obtain ⟨w, hw, h⟩ := bind_ok_inv h
            cases h
            unfold indexOfTypeId at hpos
            obtain ⟨_, hget⟩ := go_spec _ _ _ _ hpos
            simp only [Nat.sub_zero] at hget
            obtain ⟨ht, hposlt⟩ := ids_consecutive fs 0 hn pos _ hget
            simp only [Nat.zero_add] at ht
            unfold physical at hp
            obtain ⟨fm, child, hnth, hdec, hnc, hpc⟩ := variant_facts fs 0 pos _ w hw hn hp
            have hfind := findId_consecutive fs 0 pos fm child hn hnth
            simp only [Nat.zero_add] at hfind
            have hio : i < o.length := hc.1
            have hsel : unionSelect Fixes.all types (some o) fs.length i = .ok (pos, (o.getD i (-1)).toNat) := by
              unfold unionSelect
              have h1 : ¬ i ≥ types.length := by omega
              have h2 : ¬ types.length ≠ o.length := by omega
              rw [getD_of_lt _ _ _ hi] at ht
              have h3 : 0 ≤ types[i] ∧ types[i].toNat < fs.length := by rw [ht]; constructor <;> omega
              have h4 : types[i].toNat = pos := by rw [ht]; simp
              have hoff : 0 ≤ o[i] := by
                have := hc.2
                rwa [getD_of_lt _ _ _ hio] at this
              simp only [h1, if_false, h2, List.getElem?_eq_getElem hi, List.getElem?_eq_getElem hio,
                getD_of_lt _ _ _ hio, bind, Except.bind, tryIntoUsize_nonneg hoff, h3, and_self, if_true, h4,
                hposlt, pure, Except.pure]
            exact ⟨pos, _, fm, child, w, by rw [ht], hsel, hnth, hfind, hdec, hnc, hpc⟩
          · cases h
      · cases h

theorem readVariantAs_sound : ∀ (vs : TVariants), (∀ p ∈ TVariants.toList vs, KSound p.2) →
    ∀ (sel : Option Nat) (name : String) (child : Arr) (off : Nat) (w : LVal) (d : DVal),
    decodeAt child off = .ok w → new Fixes.all child = .ok () → physical child = true → utf8Ok w = true →
    castVariant vs sel name child w = must d → readVariantAs Fixes.all vs sel name (some (child, off)) = .ok d
  | .nil, _, sel, name, child, off, w, d, _, _, _, _, hc => by
    simp [castVariant, mustFail, must, fail] at hc
  | .cons n k rest, hV, sel, name, child, off, w, d, h, hn, hp, hu, hc => by
    simp only [castVariant] at hc
    simp only [readVariantAs]
    have key : ∀ (c : Bool),
        (if c = true then (castKind k child w).andThen fun p => must (.enum (.str .transient (strBytes n)) p)
          else castVariant rest (sel.map (· - 1)) name child w) = must d →
        (if c = true then (do pure (DVal.enum (.str .transient (strBytes n)) (← readKind Fixes.all k (some (child, off)))))
          else readVariantAs Fixes.all rest (sel.map (· - 1)) name (some (child, off))) = .ok d := by
      intro c hc
      cases c
      · simp only [Bool.false_eq_true, if_false] at hc ⊢
        exact readVariantAs_sound rest (fun p hp' => hV p (by simp [TVariants.toList, hp'])) _ name child off w d h hn hp hu hc
      · simp only [if_true] at hc ⊢
        obtain ⟨p, hk, hd⟩ := andThen_must hc
        cases must_inj hd
        have := hV (n, k) (by simp [TVariants.toList]) child off w p h hn hp hu hk
        simp only [this, bind, Except.bind, pure, Except.pure]
    cases sel with
    | none => exact key (n == name) hc
    | some j => exact key (j == 0) hc

theorem readVariantAsBytes_sound : ∀ (vs : TVariants) (b : Bytes) (d : DVal),
    castVariantStr vs b = must d → readVariantAsBytes Fixes.all vs b = .ok d
  | .nil, b, d, hc => by simp [castVariantStr, mustFail, must, fail] at hc
  | .cons n k rest, b, d, hc => by
    simp only [castVariantStr] at hc
    simp only [readVariantAsBytes]
    split at hc
    · rename_i hs
      simp only [hs, if_true]
      cases k <;> simp [mustFail, must, fail] at hc
      subst hc
      simp [readKind, bind, Except.bind, pure, Except.pure]
    · rename_i hs
      simp only [hs, if_false]
      exact readVariantAsBytes_sound rest b d hc

theorem sound_enum {byIndex : Bool} {vs : TVariants} (hV : ∀ p ∈ TVariants.toList vs, KSound p.2) :
    Sound (.enum byIndex vs) := by
  intro a i lv d h hn hp hu hc
  cases a with
  | union types offs fs =>
    obtain ⟨pos, off, fm, child, w, rfl, hsel, hnth, hfind, hdec, hnc, hpc⟩ := union_facts h hn hp
    simp only [cast, hfind] at hc
    simp only [utf8Ok] at hu
    simp only [readAs, hsel, bind, Except.bind, hnth]
    cases byIndex
    · simp only [Bool.false_eq_true, if_false] at hc ⊢
      exact readVariantAs_sound vs hV none fm.name child off w d hdec hnc hpc hu hc
    · simp only [if_true, Int.toNat_natCast] at hc ⊢
      exact readVariantAs_sound vs hV (some pos) fm.name child off w d hdec hnc hpc hu hc
  | bytes ty v offs data =>
    rcases bytes_get h hu with ⟨rfl, hg⟩ | ⟨b, rfl, hg⟩
    · simp [cast, mustFail, must, fail] at hc
    · cases hty : isUtf8Ty ty
      · simp [cast, bytesVal, hty, isBinaryLike, mustFail, fail, must] at hc
      · simp only [cast, bytesVal, hty, if_true, isStringLike, Bool.true_and] at hc
        cases byIndex
        · simp only [Bool.not_false, if_true] at hc
          simp only [readAs, stringElem, hty, if_true, hg, getRequired, bind, Except.bind, pure, Except.pure,
            Bool.false_eq_true, if_false]
          exact readVariantAsBytes_sound vs b d hc
        · simp [na, must] at hc
  | bytesView ty v views buffers =>
    rcases view_get h hu with ⟨rfl, hg⟩ | ⟨b, rfl, hg⟩
    · simp [cast, mustFail, must, fail] at hc
    · cases hty : isUtf8View ty
      · simp [cast, bytesVal, hty, isBinaryLike, mustFail, fail, must] at hc
      · simp only [cast, bytesVal, hty, if_true, isStringLike, Bool.true_and] at hc
        cases byIndex
        · simp only [Bool.not_false, if_true] at hc
          simp only [readAs, stringElem, hty, if_true, hg, getRequired, bind, Except.bind, pure, Except.pure,
            Bool.false_eq_true, if_false]
          exact readVariantAsBytes_sound vs b d hc
        · simp [na, must] at hc
  | dictionary ks vs' =>
    rcases dict_get h hn hp hu with ⟨rfl, _⟩ | ⟨b, rfl, _, hg⟩
    · simp [cast, mustFail, must, fail] at hc
    · simp only [cast, isStringLike, Bool.true_and] at hc
      cases byIndex
      · simp only [Bool.not_false, if_true] at hc
        simp only [readAs, stringElem, hg, bind, Except.bind, Bool.false_eq_true, if_false]
        exact readVariantAsBytes_sound vs b d hc
      · simp [na, must] at hc
  | _ => cases lv <;> simp [cast, isStringLike, mustFail, must, na, fail] at hc

end SaModel.Read
