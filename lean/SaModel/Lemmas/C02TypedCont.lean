import SaModel.Lemmas.C02TypedLeaf
/-
C02, typed reads, part 3: one soundness lemma per target constructor.  `Sound t` says: whatever the value-level
specification `cast t` demands of a slot whose Arrow reading is defined, `readAs t` returns.  Every lemma takes the
soundness of the component targets as hypotheses; `Props/C02.lean` ties the knot by structural recursion over `Target`.
-/
namespace SaModel.Read
open SaModel SaModel.Spec

def Sound (t : Target) : Prop :=
  ∀ (a : Arr) (i : Nat) (lv : LVal) (d : DVal), decodeAt a i = .ok lv → new Fixes.all a = .ok () → physical a = true →
    utf8Ok lv = true → cast t a lv = must d → readAs Fixes.all t a i = .ok d

/-! ### combinators -/

theorem andThen_must {x : Claim} {f : DVal → Claim} {d : DVal} (h : x.andThen f = must d) :
    ∃ d', x = must d' ∧ f d' = must d := by
  unfold Claim.andThen at h
  split at h
  · exact ⟨_, rfl, h⟩
  · simp [na, must] at h
  · simp [must] at h

theorem andThenL_must {x : R (Option (List DVal))} {f : List DVal → Claim} {d : DVal} (h : andThenL x f = must d) :
    ∃ ds, x = .ok (some ds) ∧ f ds = must d := by
  unfold andThenL at h
  split at h
  · exact ⟨_, rfl, h⟩
  · simp [na, must] at h
  · simp [must] at h

theorem andThenE_must {x : R (Option (List (DVal × DVal)))} {f : List (DVal × DVal) → Claim} {d : DVal}
    (h : andThenE x f = must d) : ∃ ds, x = .ok (some ds) ∧ f ds = must d := by
  unfold andThenE at h
  split at h
  · exact ⟨_, rfl, h⟩
  · simp [na, must] at h
  · simp [must] at h

theorem consClaim_some {α} {x : R (Option α)} {rest : R (Option (List α))} {l : List α}
    (h : consClaim x rest = .ok (some l)) : ∃ d ds, x = .ok (some d) ∧ rest = .ok (some ds) ∧ l = d :: ds := by
  unfold consClaim at h
  split at h
  · cases h
  · split at h <;> cases h
  · split at h
    · cases h; exact ⟨_, _, rfl, rfl, rfl⟩
    · rename_i hne
      exact absurd h (by intro h'; exact hne _ h')

/-! ### targets without components -/

theorem sound_any : Sound .any := by
  intro a i lv d h hn hp hu hc
  simp only [cast] at hc
  cases must_inj hc
  simp only [readAs]
  exact readAny_decodeAt a i lv h hn hp hu

theorem sound_ignored : Sound .ignored := by
  intro a i lv d h hn hp hu hc
  simp only [cast] at hc
  cases must_inj hc
  simp only [readAs, readAny_decodeAt a i lv h hn hp hu]
  rfl

theorem sound_scalar {t : Target} {m : Method} (hm : methodOf t = some m) (hc' : ∀ a lv, cast t a lv = castScalar t a lv)
    (hr : ∀ a i, (∀ lg v offs fm el, a ≠ .list lg v offs fm el) → readAs Fixes.all t a i = (scalar Fixes.all m a i >>= accept t)) :
    Sound t := by
  intro a i lv d h hn hp hu hc
  rw [hc'] at hc
  by_cases hl : ∀ lg v offs fm el, a ≠ .list lg v offs fm el
  · rw [hr a i hl]
    exact scalar_sound hm a i lv d h hn hp hu hc
  · have : ∃ lg v offs fm el, a = .list lg v offs fm el := by
      apply Classical.byContradiction
      intro hx
      apply hl
      intro lg v offs fm el he
      exact hx ⟨lg, v, offs, fm, el, he⟩
    obtain ⟨lg, v, offs, fm, el, rfl⟩ := this
    rcases (list_inv h).2 with rfl | ⟨xs, _, rfl⟩
    · have := null_lv_scalar hc; simp [isNullArr] at this
    · exact absurd hc (castScalar_list hm)

theorem sound_option {t : Target} (hS : Sound t) : Sound (.option t) := by
  intro a i lv d h hn hp hu hc
  have hs := isSome_of_decode a i lv h hn hp hu
  simp only [readAs, hs, bind, Except.bind]
  cases lv with
  | null =>
    simp only [cast] at hc
    cases must_inj hc
    rfl
  | _ =>
    simp only [cast] at hc
    obtain ⟨d', hc1, hc2⟩ := andThen_must hc
    cases must_inj hc2
    simp only [LVal.isNull, Bool.not_false, if_true, hS a i _ d' h hn hp hu hc1]
    rfl

theorem sound_newtype {t : Target} (hS : Sound t) : Sound (.newtype t) := by
  intro a i lv d h hn hp hu hc
  simp only [cast] at hc
  simp only [readAs]
  exact hS a i lv d h hn hp hu hc

/-! ### sequences -/

theorem readRange_of_claims {f : Nat → R LVal} {g : Nat → R DVal} {c : LVal → Claim} {P : LVal → Prop}
    (hfg : ∀ j v d, f j = .ok v → P v → c v = must d → g j = .ok d) :
    ∀ (n s : Nat) (xs : List LVal) (ds : List DVal), seqAt f s n = .ok xs → (∀ v ∈ xs, P v) →
      claimVals c (LVals.ofList xs) = .ok (some ds) → readRange g s n = .ok ds
  | 0, s, xs, ds, hs, _, hc => by
    unfold seqAt at hs; cases hs
    simp only [LVals.ofList, claimVals] at hc
    cases hc; rfl
  | n + 1, s, xs, ds, hs, hp, hc => by
    unfold seqAt at hs
    obtain ⟨v, hv, hs⟩ := bind_ok_inv hs
    obtain ⟨vs, hvs, hs⟩ := bind_ok_inv hs
    cases hs
    simp only [LVals.ofList, claimVals] at hc
    obtain ⟨d, ds', h1, h2, rfl⟩ := consClaim_some hc
    unfold readRange
    rw [hfg s v d hv (hp v (by simp)) h1,
      readRange_of_claims hfg n (s + 1) vs ds' hvs (fun w hw => hp w (by simp [hw])) h2]
    rfl

theorem u8Claim_must {t : Target} {x : UInt8} {d : DVal} (h : u8Claim t x = must d) : u8As t x = .ok d := by
  cases hu : u8As t x with
  | ok d' =>
    cases t <;> simp [u8Claim, hu, na, must] at h <;> rw [h]
  | error e =>
    cases t <;> simp [u8Claim, hu, na, must] at h

theorem mapM_u8As_of_claims (t : Target) : ∀ (b : Bytes) (ds : List DVal),
    claimList (b.map (u8Claim t)) = .ok (some ds) → b.mapM (u8As t) = .ok ds
  | [], ds, h => by simp only [List.map_nil, claimList] at h; cases h; rfl
  | x :: b, ds, h => by
    simp only [List.map_cons, claimList] at h
    obtain ⟨d, ds', h1, h2, rfl⟩ := consClaim_some h
    rw [List.mapM_cons, u8Claim_must h1, mapM_u8As_of_claims t b ds' h2]
    rfl

theorem castBinSeq_must {t : Target} {b : Bytes} {d : DVal} (h : castBinSeq t b = must d) :
    ∃ ds, b.mapM (u8As t) = .ok ds ∧ d = .seq (DVals.ofList ds) := by
  unfold castBinSeq at h
  split at h
  · rename_i ds hds
    exact ⟨ds, mapM_u8As_of_claims t b ds hds, (must_inj h).symm⟩
  · simp [na, must] at h
  · simp [must] at h

theorem sound_seq {t : Target} (hS : Sound t) : Sound (.seq t) := by
  intro a i lv d h hn hp hu hc
  cases a with
  | list lg v offs fm el =>
    obtain ⟨hi, hlv⟩ := list_inv h
    rcases hlv with rfl | ⟨xs, hxs, rfl⟩
    · simp [cast, mustFail, must, fail] at hc
    · simp only [cast] at hc
      obtain ⟨ds, hcl, hd⟩ := andThenL_must hc
      cases must_inj hd
      obtain ⟨h0, h1, _, hseq⟩ := rangeAt_ok hxs
      unfold physical at hp
      simp only [utf8Ok] at hu
      have hr := readRange_of_claims (g := fun j => readAs Fixes.all t el j) (c := fun v => cast t el v)
        (P := fun v => utf8Ok v = true)
        (fun j v d hj hv' hcv => hS el j v d hj (new_list_inv hn) hp hv' hcv) _ _ xs ds hseq (utf8OkList_mem xs hu) hcl
      simp only [readAs, listRange_eval hi h0 h1, bind, Except.bind, hr]
      rfl
  | fixedSizeList len v n fm el =>
    obtain ⟨hi, hlv⟩ := fsl_inv h
    rcases hlv with rfl | ⟨xs, hneg, hxs, rfl⟩
    · simp [cast, mustFail, must, fail] at hc
    · simp only [cast] at hc
      obtain ⟨ds, hcl, hd⟩ := andThenL_must hc
      cases must_inj hd
      obtain ⟨hnew, hn0⟩ := new_fsl_inv hn
      obtain ⟨_, _, hle, hseq⟩ := rangeAt_ok hxs
      unfold physical at hp
      simp only [Bool.and_eq_true, decide_eq_true_eq] at hp
      simp only [utf8Ok] at hu
      have hlt : ¬ i ≥ len := by omega
      have e1 : ((i : Int) * n).toNat = i * n.toNat := by
        have : (i : Int) * n = ((i * n.toNat : Nat) : Int) := by
          rw [Int.natCast_mul, Int.toNat_of_nonneg hn0]
        rw [this, Int.toNat_natCast]
      have e2 : (((i : Int) + 1) * n).toNat = (i + 1) * n.toNat := by
        have : ((i : Int) + 1) * n = (((i + 1) * n.toNat : Nat) : Int) := by
          rw [Int.natCast_mul, Int.toNat_of_nonneg hn0]; simp
        rw [this, Int.toNat_natCast]
      have hfit : ¬ (i + 1) * n.toNat > usizeMax := by
        have : (((i + 1) * n.toNat : Nat) : Int) ≤ (lenOf el : Int) := by
          rw [Int.natCast_mul, Int.toNat_of_nonneg hn0]; simpa using hle
        omega
      have hrange : fslRange Fixes.all len n i = .ok (i * n.toNat, (i + 1) * n.toNat) := by
        unfold fslRange
        simp only [hlt, if_false, tryIntoUsize_nonneg hn0, bind, Except.bind, hfit, pure, Except.pure]
      have hr := readRange_of_claims (g := fun j => readAs Fixes.all t el j) (c := fun v => cast t el v)
        (P := fun v => utf8Ok v = true)
        (fun j v d hj hv' hcv => hS el j v d hj hnew hp.2 hv' hcv) _ _ xs ds hseq (utf8OkList_mem xs hu) hcl
      rw [e1, e2] at hr
      simp only [readAs, hrange, bind, Except.bind, hr]
      rfl
  | bytes ty v offs data =>
    rcases bytes_get h hu with ⟨rfl, hg⟩ | ⟨b, rfl, hg⟩
    · simp [cast, mustFail, must, fail] at hc
    · cases hty : isUtf8Ty ty
      · simp only [cast, bytesVal, hty, isBinaryLike, Bool.false_eq_true, if_false, Bool.not_false, if_true] at hc
        obtain ⟨ds, hm, rfl⟩ := castBinSeq_must hc
        simp only [readAs, binaryElems, hty, Bool.false_eq_true, if_false, hg, getRequired, bind, Except.bind, pure,
          Except.pure, hm]
      · simp [cast, bytesVal, hty, na, must] at hc
  | bytesView ty v views buffers =>
    rcases view_get h hu with ⟨rfl, hg⟩ | ⟨b, rfl, hg⟩
    · simp [cast, mustFail, must, fail] at hc
    · cases hty : isUtf8View ty
      · simp only [cast, bytesVal, hty, isBinaryLike, Bool.false_eq_true, if_false, Bool.not_false, if_true] at hc
        obtain ⟨ds, hm, rfl⟩ := castBinSeq_must hc
        simp only [readAs, binaryElems, hty, Bool.false_eq_true, if_false, hg, getRequired, bind, Except.bind, pure,
          Except.pure, hm]
      · simp [cast, bytesVal, hty, na, must] at hc
  | fixedSizeBinary n v data =>
    rcases fsb_get h hn with ⟨rfl, hg⟩ | ⟨b, rfl, hg⟩
    · simp [cast, mustFail, must, fail] at hc
    · simp only [cast, isBinaryLike, if_true] at hc
      obtain ⟨ds, hm, rfl⟩ := castBinSeq_must hc
      simp only [readAs, binaryElems, hg, getRequired, bind, Except.bind, pure, Except.pure, hm]
  | _ => cases lv <;> simp [cast, isBinaryLike, mustFail, must, na, fail] at hc

end SaModel.Read
