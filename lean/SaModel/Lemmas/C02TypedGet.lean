import SaModel.Lemmas.C02Any
import SaModel.Read.Cast
/-
C02, typed reads, part 1: what the column getters (`primGet`, `boolGet`, `bytesColGet`, `viewColGet`, `fsbColGet`,
`dictGetStr`) return on a slot whose Arrow reading is defined, and `is_some` for every array kind.
-/
namespace SaModel.Read
open SaModel SaModel.Spec

theorem guarded_inv {c : Prop} [Decidable c] {v : Option Bits} {i : Nat} {p : R LVal} {lv : LVal}
    (h : (if c then withValidity v i p else oob) = .ok lv) :
    c ∧ ((isValid v i = .ok false ∧ lv = .null) ∨ (isValid v i = .ok true ∧ p = .ok lv)) := by
  split at h
  · rename_i hc; exact ⟨hc, withValidity_ok h⟩
  · cases h

theorem primlike_get {v : Option Bits} {vals : List Int} {i : Nat} {lv x : LVal}
    (h : (if i < vals.length then withValidity v i (.ok x) else oob) = .ok lv) :
    (lv = .null ∧ primGet Fixes.all v vals i = .ok none) ∨
      (lv = x ∧ primGet Fixes.all v vals i = .ok (some (vals.getD i 0))) := by
  obtain ⟨hi, hv⟩ := guarded_inv h
  rcases hv with ⟨hv, rfl⟩ | ⟨hv, hp⟩
  · left; exact ⟨rfl, by rw [primGet_eval hi hv]; rfl⟩
  · right; cases hp; exact ⟨rfl, by rw [primGet_eval hi hv]; rfl⟩

theorem prim_get {ty : PrimTy} {v : Option Bits} {vals : List Int} {i : Nat} {lv : LVal}
    (h : decodeAt (.prim ty v vals) i = .ok lv) :
    (lv = .null ∧ primGet Fixes.all v vals i = .ok none) ∨
      (lv = leafOf ty (vals.getD i 0) ∧ primGet Fixes.all v vals i = .ok (some (vals.getD i 0))) := by
  unfold decodeAt at h; exact primlike_get h

theorem time_get {ty : TimeTy} {u : TimeUnit} {v : Option Bits} {vals : List Int} {i : Nat} {lv : LVal}
    (h : decodeAt (.time ty u v vals) i = .ok lv) :
    (lv = .null ∧ primGet Fixes.all v vals i = .ok none) ∨
      (lv = .int (vals.getD i 0) ∧ primGet Fixes.all v vals i = .ok (some (vals.getD i 0))) := by
  unfold decodeAt at h; exact primlike_get h

theorem timestamp_get {u : TimeUnit} {tz : Option String} {v : Option Bits} {vals : List Int} {i : Nat} {lv : LVal}
    (h : decodeAt (.timestamp u tz v vals) i = .ok lv) :
    (lv = .null ∧ primGet Fixes.all v vals i = .ok none) ∨
      (lv = .int (vals.getD i 0) ∧ primGet Fixes.all v vals i = .ok (some (vals.getD i 0))) := by
  unfold decodeAt at h; exact primlike_get h

theorem decimal_get {p : Nat} {s : Int} {v : Option Bits} {vals : List Int} {i : Nat} {lv : LVal}
    (h : decodeAt (.decimal128 p s v vals) i = .ok lv) :
    (lv = .null ∧ primGet Fixes.all v vals i = .ok none) ∨
      (lv = .int (vals.getD i 0) ∧ primGet Fixes.all v vals i = .ok (some (vals.getD i 0))) := by
  unfold decodeAt at h; exact primlike_get h

theorem null_get {len i : Nat} {lv : LVal} (h : decodeAt (.null len) i = .ok lv) :
    lv = .null ∧ nullCheck Fixes.all len i = .ok () := by
  unfold decodeAt at h
  split at h
  · rename_i hi
    cases h
    have : ¬ i ≥ len := by omega
    exact ⟨rfl, by simp [nullCheck, all_nullLen, this]⟩
  · cases h

theorem bool_get {len : Nat} {v : Option Bits} {vals : Bits} {i : Nat} {lv : LVal}
    (h : decodeAt (.boolean len v vals) i = .ok lv) :
    (lv = .null ∧ boolGet Fixes.all len v vals i = .ok none) ∨
      (∃ b, lv = .bool b ∧ boolGet Fixes.all len v vals i = .ok (some b)) := by
  unfold decodeAt at h
  obtain ⟨hi, hv⟩ := guarded_inv h
  rcases hv with ⟨hv, rfl⟩ | ⟨hv, hp⟩
  · left; exact ⟨rfl, by rw [boolGet_eval hi, hv]; rfl⟩
  · right
    cases hb : getBit vals i with
    | error e => rw [hb] at hp; cases hp
    | ok b =>
      rw [hb] at hp; cases hp
      exact ⟨b, rfl, by rw [boolGet_eval hi, hv, hb]; rfl⟩

theorem bytes_get {ty : BytesTy} {v : Option Bits} {offs : List Int} {data : Bytes} {i : Nat} {lv : LVal}
    (h : decodeAt (.bytes ty v offs data) i = .ok lv) (hu : utf8Ok lv = true) :
    (lv = .null ∧ bytesColGet Fixes.all ty v offs data i = .ok none) ∨
      (∃ b, lv = bytesVal (isUtf8Ty ty) b ∧ bytesColGet Fixes.all ty v offs data i = .ok (some b)) := by
  unfold decodeAt at h
  obtain ⟨hi, hv⟩ := guarded_inv h
  rcases hv with ⟨hv, rfl⟩ | ⟨hv, hp⟩
  · left
    have hg : bytesGet Fixes.all v offs data i = .ok none := by
      unfold bytesGet
      have hc : ¬ (i + 1 ≥ offs.length) := by omega
      simp only [all_bytesGet, if_true, hc, if_false, validityIsSet_all, hv]
      rfl
    refine ⟨rfl, ?_⟩
    simp only [bytesColGet, hg, asStr]
    split <;> rfl
  · right
    simp only at hp
    split at hp
    · rename_i hr
      cases hp
      have hg := bytesGet_eval hi hv hr
      simp only [if_true] at hg
      refine ⟨_, rfl, ?_⟩
      cases hty : isUtf8Ty ty
      · simp only [bytesColGet, hty, Bool.false_eq_true, if_false, hg]
      · simp only [bytesVal, hty, if_true, utf8Ok] at hu
        simp only [bytesColGet, hty, if_true, hg, asStr, bind, Except.bind, hu, pure, Except.pure]
    · cases hp

theorem view_get {ty : ViewTy} {v : Option Bits} {views : List Nat} {buffers : List Bytes} {i : Nat} {lv : LVal}
    (h : decodeAt (.bytesView ty v views buffers) i = .ok lv) (hu : utf8Ok lv = true) :
    (lv = .null ∧ viewColGet Fixes.all ty v views buffers i = .ok none) ∨
      (∃ b, lv = bytesVal (isUtf8View ty) b ∧ viewColGet Fixes.all ty v views buffers i = .ok (some b)) := by
  unfold decodeAt at h
  obtain ⟨hi, hv⟩ := guarded_inv h
  rcases hv with ⟨hv, rfl⟩ | ⟨hv, hp⟩
  · left
    have hg : viewGet Fixes.all v views buffers i = .ok none := by
      unfold viewGet
      simp only [List.getElem?_eq_getElem hi, validityIsSet_all, hv]
      rfl
    refine ⟨rfl, ?_⟩
    simp only [viewColGet, hg, asStr]
    split <;> rfl
  · right
    cases hd : decodeView buffers (views.getD i 0) with
    | error e => rw [hd] at hp; cases hp
    | ok b =>
      rw [hd] at hp; cases hp
      have hg : viewGet Fixes.all v views buffers i = .ok (some b) := by
        unfold viewGet
        rw [getD_of_lt _ _ _ hi] at hd
        simp only [List.getElem?_eq_getElem hi, validityIsSet_all, hv, viewBytes_of_decodeView hd]
        rfl
      have e1 : (ViewTy.utf8View == ViewTy.utf8View) = true := rfl
      have e2 : (ViewTy.binaryView == ViewTy.utf8View) = false := rfl
      refine ⟨b, ?_, ?_⟩
      · cases ty <;> simp [isUtf8View, e1, e2]
      · cases ty
        · simp only [bytesVal, e1, if_true, utf8Ok] at hu
          simp only [viewColGet, isUtf8View, if_true, hg, asStr, bind, Except.bind, hu, pure, Except.pure]
        · simp only [viewColGet, isUtf8View, Bool.false_eq_true, if_false, hg]

theorem fsb_get {n : Int} {v : Option Bits} {data : Bytes} {i : Nat} {lv : LVal}
    (h : decodeAt (.fixedSizeBinary n v data) i = .ok lv) (hn : new Fixes.all (.fixedSizeBinary n v data) = .ok ()) :
    (lv = .null ∧ fsbColGet Fixes.all n v data i = .ok none) ∨
      (∃ b, lv = .bin b ∧ fsbColGet Fixes.all n v data i = .ok (some b)) := by
  unfold decodeAt at h
  split at h
  · cases h
  · rename_i hpos
    obtain ⟨hi, hv⟩ := guarded_inv h
    have hnew := fsbNew_of_new hn hpos
    have hidx : ¬ i ≥ data.length / n.toNat := by omega
    have hle : (i + 1) * n.toNat ≤ data.length := by
      have : (i + 1) * n.toNat ≤ (data.length / n.toNat) * n.toNat := Nat.mul_le_mul_right _ (by omega)
      have := Nat.div_mul_le_self data.length n.toNat
      omega
    rcases hv with ⟨hv, rfl⟩ | ⟨hv, hp⟩
    · left
      refine ⟨rfl, ?_⟩
      simp only [fsbColGet, hnew, bind, Except.bind, fsbGet, hidx, if_false, validityIsSet_all, hv]
      rfl
    · right
      cases hp
      refine ⟨_, rfl, ?_⟩
      simp only [fsbColGet, hnew, bind, Except.bind, fsbGet, hidx, if_false, validityIsSet_all, hv, if_true, hle,
        pure, Except.pure]

theorem dict_get {ks vs : Arr} {i : Nat} {lv : LVal} (h : decodeAt (.dictionary ks vs) i = .ok lv)
    (hn : new Fixes.all (.dictionary ks vs) = .ok ()) (hp : physical (.dictionary ks vs) = true) (hu : utf8Ok lv = true) :
    (lv = .null ∧ isSome Fixes.all (.dictionary ks vs) i = .ok false) ∨
      (∃ b, lv = .str b ∧ isSome Fixes.all (.dictionary ks vs) i = .ok true ∧ dictGetStr Fixes.all ks vs i = .ok b) := by
  unfold new at hn
  split at hn
  · rename_i kty kv kvals vty vv voffs vdata
    split at hn
    · rename_i hty
      simp only [Bool.and_eq_true] at hty
      split at hn
      · cases hn
      · rename_i hvv
        have hvv' : vv = none := by cases vv <;> simp_all
        subst hvv'
        unfold decodeAt at h
        simp only [lenOf] at h
        by_cases hi : i < kvals.length
        · simp only [hi, if_true] at h
          obtain ⟨klv, hk, h⟩ := bind_ok_inv h
          unfold decodeAt at hk
          simp only [hi, if_true] at hk
          rcases withValidity_ok hk with ⟨hv, rfl⟩ | ⟨hv, hpay⟩
          · simp only [pure, Except.pure] at h
            cases h
            left
            refine ⟨rfl, ?_⟩
            simp only [isSome, optIsSome, primGet_eval hi hv]; rfl
          · cases hpay
            have hleaf : leafOf kty (kvals.getD i 0) = .int (kvals.getD i 0) := by
              cases kty <;> simp_all [isIntPrim, leafOf]
            rw [hleaf] at h
            simp only at h
            split at h
            · rename_i hx0
              unfold decodeAt at h
              split at h
              · rename_i hj
                rcases withValidity_ok h with ⟨hv2, _⟩ | ⟨hv2, hpay2⟩
                · simp [isValid] at hv2
                · simp only at hpay2
                  split at hpay2
                  · rename_i hr
                    cases hpay2
                    simp only [bytesVal, hty.2, if_true, utf8Ok] at hu
                    have hp' : voffs.length - 1 ≤ 9223372036854775807 := by
                      simpa [physical, lenOf, i64Max] using hp
                    have hx : ¬ (kvals.getD i 0 > i64Max) := by
                      simp only [i64Max]
                      omega
                    have hg := bytesGet_eval (v := none) (data := vdata) hj (b := true) rfl hr
                    simp only [if_true] at hg
                    right
                    refine ⟨(vdata.drop (voffs.getD (kvals.getD i 0).toNat 0).toNat).take ((voffs.getD ((kvals.getD i 0).toNat + 1) 0).toNat - (voffs.getD (kvals.getD i 0).toNat 0).toNat), by simp [bytesVal, hty.2], ?_, ?_⟩
                    · simp only [isSome, optIsSome, primGet_eval hi hv]; rfl
                    · simp only [dictGetStr, getRequired, primGet_eval hi hv, if_true, bind, Except.bind, pure, Except.pure,
                        hx, if_false, tryIntoUsize_nonneg hx0, hg, asStr, hu]
                  · cases hpay2
              · cases h
            · cases h
        · simp only [hi, if_false] at h; cases h
    · cases hn
  · cases hn

/-! ### `is_some` -/

theorem optIsSome_ok {α} {x : R (Option α)} {o : Option α} (h : x = .ok o) : optIsSome x = .ok o.isSome := by
  rw [h]; rfl

theorem isSome_of_decode (a : Arr) (i : Nat) (lv : LVal) (h : decodeAt a i = .ok lv)
    (hn : new Fixes.all a = .ok ()) (hp : physical a = true) (hu : utf8Ok lv = true) :
    isSome Fixes.all a i = .ok (!LVal.isNull lv) := by
  cases a with
  | null len =>
    obtain ⟨rfl, hc⟩ := null_get h
    simp only [isSome, hc]; rfl
  | boolean len v vals =>
    rcases bool_get h with ⟨rfl, hg⟩ | ⟨b, rfl, hg⟩ <;> simp only [isSome, optIsSome_ok hg] <;> rfl
  | prim ty v vals =>
    rcases prim_get h with ⟨rfl, hg⟩ | ⟨rfl, hg⟩
    · simp only [isSome, optIsSome_ok hg]; rfl
    · simp only [isSome, optIsSome_ok hg]; cases ty <;> rfl
  | time ty u v vals =>
    rcases time_get h with ⟨rfl, hg⟩ | ⟨rfl, hg⟩ <;> simp only [isSome, optIsSome_ok hg] <;> rfl
  | timestamp u tz v vals =>
    rcases timestamp_get h with ⟨rfl, hg⟩ | ⟨rfl, hg⟩ <;> simp only [isSome, optIsSome_ok hg] <;> rfl
  | decimal128 p s v vals =>
    rcases decimal_get h with ⟨rfl, hg⟩ | ⟨rfl, hg⟩ <;> simp only [isSome, optIsSome_ok hg] <;> rfl
  | bytes ty v offs data =>
    rcases bytes_get h hu with ⟨rfl, hg⟩ | ⟨b, rfl, hg⟩
    · simp only [isSome, optIsSome_ok hg]; rfl
    · simp only [isSome, optIsSome_ok hg, bytesVal]; split <;> rfl
  | bytesView ty v views buffers =>
    rcases view_get h hu with ⟨rfl, hg⟩ | ⟨b, rfl, hg⟩
    · simp only [isSome, optIsSome_ok hg]; rfl
    · simp only [isSome, optIsSome_ok hg, bytesVal]; split <;> rfl
  | fixedSizeBinary n v data =>
    rcases fsb_get h hn with ⟨rfl, hg⟩ | ⟨b, rfl, hg⟩ <;> simp only [isSome, optIsSome_ok hg] <;> rfl
  | struct len v fs =>
    unfold decodeAt at h
    obtain ⟨hi, hv⟩ := guarded_inv h
    have hlt : ¬ i ≥ len := by omega
    have his : isSome Fixes.all (.struct len v fs) i = validityIsSet Fixes.all v i := by simp only [isSome, hlt, if_false]
    rcases hv with ⟨hv, rfl⟩ | ⟨hv, hpay⟩
    · rw [container_isSome hv his]; rfl
    · obtain ⟨vals, _, hpay⟩ := bind_ok_inv hpay
      cases hpay
      rw [container_isSome hv his]; rfl
  | list lg v offs fm el =>
    unfold decodeAt at h
    obtain ⟨hi, hv⟩ := guarded_inv h
    have hlt : ¬ i + 1 ≥ offs.length := by omega
    have his : isSome Fixes.all (.list lg v offs fm el) i = validityIsSet Fixes.all v i := by simp only [isSome, hlt, if_false]
    rcases hv with ⟨hv, rfl⟩ | ⟨hv, hpay⟩
    · rw [container_isSome hv his]; rfl
    · obtain ⟨vals, _, hpay⟩ := bind_ok_inv hpay
      cases hpay
      rw [container_isSome hv his]; rfl
  | fixedSizeList len v n fm el =>
    unfold decodeAt at h
    obtain ⟨hi, hv⟩ := guarded_inv h
    have hlt : ¬ i ≥ len := by omega
    have his : isSome Fixes.all (.fixedSizeList len v n fm el) i = validityIsSet Fixes.all v i := by
      simp only [isSome, hlt, if_false]
    rcases hv with ⟨hv, rfl⟩ | ⟨hv, hpay⟩
    · rw [container_isSome hv his]; rfl
    · split at hpay
      · cases hpay
      · obtain ⟨vals, _, hpay⟩ := bind_ok_inv hpay
        cases hpay
        rw [container_isSome hv his]; rfl
  | map v offs mm ks vs =>
    unfold decodeAt at h
    obtain ⟨hi, hv⟩ := guarded_inv h
    have hlt : ¬ i + 1 ≥ offs.length := by omega
    have his : isSome Fixes.all (.map v offs mm ks vs) i = validityIsSet Fixes.all v i := by simp only [isSome, hlt, if_false]
    rcases hv with ⟨hv, rfl⟩ | ⟨hv, hpay⟩
    · rw [container_isSome hv his]; rfl
    · obtain ⟨k, _, hpay⟩ := bind_ok_inv hpay
      obtain ⟨w, _, hpay⟩ := bind_ok_inv hpay
      cases hpay
      rw [container_isSome hv his]; rfl
  | dictionary ks vs =>
    rcases dict_get h hn hp hu with ⟨rfl, hs⟩ | ⟨b, rfl, hs, _⟩ <;> rw [hs] <;> rfl
  | union types offs fs =>
    unfold decodeAt at h
    split at h
    · rename_i hi
      have h1 : ¬ i ≥ types.length := by omega
      simp only [isSome, h1, if_false]
      have : ∃ t w, lv = .union t w := by
        simp only at h
        split at h
        · cases h
        · split at h
          · try simp only at h
            split at h
            · obtain ⟨w, _, h⟩ := bind_ok_inv h; cases h; exact ⟨_, _, rfl⟩
            · cases h
          · obtain ⟨w, _, h⟩ := bind_ok_inv h; cases h; exact ⟨_, _, rfl⟩
      obtain ⟨t, w, rfl⟩ := this
      rfl
    · cases h

end SaModel.Read
