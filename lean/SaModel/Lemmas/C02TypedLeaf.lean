import SaModel.Lemmas.C02TypedGet
/-
C02, typed reads, part 2: scalar targets (`bool`, integers, floats, `char`, `String`, `&str`, `&[u8]`, `ByteBuf`,
`()`): whenever the value-level specification `castScalar` demands a value, `deserialize_<m>` + the visitor return it.
-/
namespace SaModel.Read
open SaModel SaModel.Spec

@[simp] theorem unsupported_ne_ok {α} {d : α} : ((unsupported : R α) = .ok d) = False := by
  simp [unsupported, fail]

@[simp] theorem ok_ne_unsupported {α} {d : α} : (.ok d = (unsupported : R α)) = False := by
  simp [unsupported, fail]

@[simp] theorem mustFail_ne_ok {w : String} {x : Option DVal} : (mustFail w = Except.ok x) = False := by
  simp [mustFail, fail]

@[simp] theorem mustFail_ne_must {w : String} {d : DVal} : (mustFail w = must d) = False := by
  simp [mustFail, fail, must]

theorem must_inj {d d' : DVal} (h : must d = must d') : d = d' := by
  simp only [must, Except.ok.injEq, Option.some.injEq] at h; exact h

theorem inRange_bit (ty : IntTy) (b : Bool) : ty.inRange (if b then 1 else 0) = true := by
  cases ty <;> cases b <;> decide

theorem ofLeaf_must {x : Option (R DVal)} {d : DVal} : ofLeaf x = must d ↔ x = some (.ok d) := by
  unfold ofLeaf must na
  split <;> simp_all

theorem map_ok_inv {α β} {f : α → β} {x : R α} {d : β} (h : Except.map f x = .ok d) : ∃ b, x = .ok b ∧ d = f b := by
  cases x with
  | ok b => simp only [Except.map, Except.ok.injEq] at h; exact ⟨b, rfl, h.symm⟩
  | error e => simp [Except.map] at h

/-- finish a scalar case: `hc` says what `castLeaf` demands (possibly under `if`s), the goal is the read -/
macro "leaf_close" hc:ident : tactic => `(tactic| (
  (repeat' split at $hc:ident) <;>
  first
  | (exfalso; simp (config := { decide := true }) [fail] at $hc:ident; done)
  | ((try simp (config := { decide := true }) at $hc:ident); subst $hc:ident; unfold scalar;
     simp_all [getRequired, accept, intoInt, codecRead, bind, Except.bind, pure, Except.pure, fail, rejected]; done)
  | (obtain ⟨b, hr, rfl⟩ := map_ok_inv $hc:ident; unfold scalar;
     simp_all [getRequired, accept, codecRead, ownedStr, ownedBytes, bind, Except.bind, pure, Except.pure]; done)))

theorem prim_scalar {t : Target} {m : Method} (hm : methodOf t = some m) {ty : PrimTy} {v : Option Bits} {vals : List Int}
    {i : Nat} {lv : LVal} {d : DVal} (h : decodeAt (.prim ty v vals) i = .ok lv)
    (hc : castScalar t (.prim ty v vals) lv = must d) :
    (scalar Fixes.all m (.prim ty v vals) i >>= accept t) = .ok d := by
  rcases prim_get h with ⟨rfl, hg⟩ | ⟨rfl, hg⟩
  · cases t <;> simp [castScalar, isNullArr, mustFail, must, fail] at hc
  · clear h
    cases t <;> simp only [methodOf, Option.some.injEq, reduceCtorEq] at hm <;> subst hm
    case int ity =>
      cases ity <;> cases ty <;> simp (config := { decide := true }) [castScalar, leafOf, castLeaf, ofLeaf_must, isIntPrim] at hc <;> leaf_close hc
    all_goals (cases ty <;> simp (config := { decide := true }) [castScalar, leafOf, castLeaf, ofLeaf_must, isIntPrim] at hc <;> leaf_close hc)

/-- a null slot: only `()` from a Null column is demanded -/
theorem null_lv_scalar {t : Target} {a : Arr} {d : DVal} (hc : castScalar t a .null = must d) :
    isNullArr a = true ∧ (t = .unit ∨ t = .unitStruct) ∧ d = .unit := by
  cases hna : isNullArr a <;> cases t <;> simp [castScalar, hna, mustFail, must, fail] at hc <;> simp [hc]

theorem time_scalar {t : Target} {m : Method} (hm : methodOf t = some m) {ty : TimeTy} {u : TimeUnit} {v : Option Bits}
    {vals : List Int} {i : Nat} {lv : LVal} {d : DVal} (h : decodeAt (.time ty u v vals) i = .ok lv)
    (hc : castScalar t (.time ty u v vals) lv = must d) :
    (scalar Fixes.all m (.time ty u v vals) i >>= accept t) = .ok d := by
  rcases time_get h with ⟨rfl, hg⟩ | ⟨rfl, hg⟩
  · have := null_lv_scalar hc; simp [isNullArr] at this
  · clear h
    cases t <;> simp only [methodOf, Option.some.injEq, reduceCtorEq] at hm <;> subst hm
    case int ity =>
      cases ity <;> cases ty <;> simp (config := { decide := true }) [castScalar, castLeaf, ofLeaf_must] at hc <;> leaf_close hc
    all_goals (cases ty <;> simp (config := { decide := true }) [castScalar, castLeaf, ofLeaf_must] at hc <;> leaf_close hc)

theorem timestamp_scalar {t : Target} {m : Method} (hm : methodOf t = some m) {u : TimeUnit} {tz : Option String}
    {v : Option Bits} {vals : List Int} {i : Nat} {lv : LVal} {d : DVal} (h : decodeAt (.timestamp u tz v vals) i = .ok lv)
    (hc : castScalar t (.timestamp u tz v vals) lv = must d) :
    (scalar Fixes.all m (.timestamp u tz v vals) i >>= accept t) = .ok d := by
  rcases timestamp_get h with ⟨rfl, hg⟩ | ⟨rfl, hg⟩
  · have := null_lv_scalar hc; simp [isNullArr] at this
  · clear h
    cases t <;> simp only [methodOf, Option.some.injEq, reduceCtorEq] at hm <;> subst hm
    case int ity =>
      cases ity <;> simp (config := { decide := true }) [castScalar, castLeaf, ofLeaf_must] at hc <;> leaf_close hc
    all_goals (simp (config := { decide := true }) [castScalar, castLeaf, ofLeaf_must] at hc <;> leaf_close hc)

theorem decimal_scalar {t : Target} {m : Method} (hm : methodOf t = some m) {p : Nat} {s : Int}
    {v : Option Bits} {vals : List Int} {i : Nat} {lv : LVal} {d : DVal} (h : decodeAt (.decimal128 p s v vals) i = .ok lv)
    (hc : castScalar t (.decimal128 p s v vals) lv = must d) :
    (scalar Fixes.all m (.decimal128 p s v vals) i >>= accept t) = .ok d := by
  rcases decimal_get h with ⟨rfl, hg⟩ | ⟨rfl, hg⟩
  · have := null_lv_scalar hc; simp [isNullArr] at this
  · clear h
    cases t <;> simp only [methodOf, Option.some.injEq, reduceCtorEq] at hm <;> subst hm <;>
      simp (config := { decide := true }) [castScalar, castLeaf, ofLeaf_must] at hc <;> leaf_close hc

theorem null_scalar {t : Target} {m : Method} (hm : methodOf t = some m) {len : Nat}
    {i : Nat} {lv : LVal} {d : DVal} (h : decodeAt (.null len) i = .ok lv)
    (hc : castScalar t (.null len) lv = must d) :
    (scalar Fixes.all m (.null len) i >>= accept t) = .ok d := by
  obtain ⟨rfl, hg⟩ := null_get h
  obtain ⟨_, ht, rfl⟩ := null_lv_scalar hc
  rcases ht with rfl | rfl <;> simp only [methodOf, Option.some.injEq] at hm <;> subst hm <;>
    (unfold scalar; simp [hg, accept, bind, Except.bind, pure, Except.pure])

theorem bool_scalar {t : Target} {m : Method} (hm : methodOf t = some m) {len : Nat} {v : Option Bits} {vals : Bits}
    {i : Nat} {lv : LVal} {d : DVal} (h : decodeAt (.boolean len v vals) i = .ok lv)
    (hc : castScalar t (.boolean len v vals) lv = must d) :
    (scalar Fixes.all m (.boolean len v vals) i >>= accept t) = .ok d := by
  rcases bool_get h with ⟨rfl, hg⟩ | ⟨b, rfl, hg⟩
  · have := null_lv_scalar hc; simp [isNullArr] at this
  · clear h
    cases t <;> simp only [methodOf, Option.some.injEq, reduceCtorEq] at hm <;> subst hm <;>
      simp [castScalar, castLeaf, ofLeaf_must] at hc
    · subst hc; unfold scalar; simp [hg, getRequired, accept, bind, Except.bind, pure, Except.pure]
    · subst hc; unfold scalar
      simp [hg, getRequired, accept, bind, Except.bind, pure, Except.pure, inRange_bit]

theorem bytes_scalar {t : Target} {m : Method} (hm : methodOf t = some m) {ty : BytesTy} {v : Option Bits}
    {offs : List Int} {data : Bytes} {i : Nat} {lv : LVal} {d : DVal} (h : decodeAt (.bytes ty v offs data) i = .ok lv)
    (hu : utf8Ok lv = true) (hc : castScalar t (.bytes ty v offs data) lv = must d) :
    (scalar Fixes.all m (.bytes ty v offs data) i >>= accept t) = .ok d := by
  rcases bytes_get h hu with ⟨rfl, hg⟩ | ⟨b, rfl, hg⟩
  · have := null_lv_scalar hc; simp [isNullArr] at this
  · clear h
    cases hty : isUtf8Ty ty <;>
    cases t <;> simp only [methodOf, Option.some.injEq, reduceCtorEq] at hm <;> subst hm <;>
      simp [castScalar, castLeaf, ofLeaf_must, bytesVal, hty] at hc <;>
      (subst hc; unfold scalar; simp [hty, hg, getRequired, accept, bind, Except.bind, pure, Except.pure])

theorem view_scalar {t : Target} {m : Method} (hm : methodOf t = some m) {ty : ViewTy} {v : Option Bits}
    {views : List Nat} {buffers : List Bytes} {i : Nat} {lv : LVal} {d : DVal}
    (h : decodeAt (.bytesView ty v views buffers) i = .ok lv)
    (hu : utf8Ok lv = true) (hc : castScalar t (.bytesView ty v views buffers) lv = must d) :
    (scalar Fixes.all m (.bytesView ty v views buffers) i >>= accept t) = .ok d := by
  rcases view_get h hu with ⟨rfl, hg⟩ | ⟨b, rfl, hg⟩
  · have := null_lv_scalar hc; simp [isNullArr] at this
  · clear h
    cases hty : isUtf8View ty <;>
    cases t <;> simp only [methodOf, Option.some.injEq, reduceCtorEq] at hm <;> subst hm <;>
      simp [castScalar, castLeaf, ofLeaf_must, bytesVal, hty] at hc <;>
      (subst hc; unfold scalar; simp [hty, hg, getRequired, accept, bind, Except.bind, pure, Except.pure])

theorem fsb_scalar {t : Target} {m : Method} (hm : methodOf t = some m) {n : Int} {v : Option Bits}
    {data : Bytes} {i : Nat} {lv : LVal} {d : DVal} (h : decodeAt (.fixedSizeBinary n v data) i = .ok lv)
    (hn : new Fixes.all (.fixedSizeBinary n v data) = .ok ()) (hc : castScalar t (.fixedSizeBinary n v data) lv = must d) :
    (scalar Fixes.all m (.fixedSizeBinary n v data) i >>= accept t) = .ok d := by
  rcases fsb_get h hn with ⟨rfl, hg⟩ | ⟨b, rfl, hg⟩
  · have := null_lv_scalar hc; simp [isNullArr] at this
  · clear h
    cases t <;> simp only [methodOf, Option.some.injEq, reduceCtorEq] at hm <;> subst hm <;>
      simp [castScalar, castLeaf, ofLeaf_must] at hc <;>
      (subst hc; unfold scalar; simp [hg, getRequired, accept, bind, Except.bind, pure, Except.pure])

theorem dict_scalar {t : Target} {m : Method} (hm : methodOf t = some m) {ks vs : Arr}
    {i : Nat} {lv : LVal} {d : DVal} (h : decodeAt (.dictionary ks vs) i = .ok lv)
    (hn : new Fixes.all (.dictionary ks vs) = .ok ()) (hp : physical (.dictionary ks vs) = true) (hu : utf8Ok lv = true)
    (hc : castScalar t (.dictionary ks vs) lv = must d) :
    (scalar Fixes.all m (.dictionary ks vs) i >>= accept t) = .ok d := by
  rcases dict_get h hn hp hu with ⟨rfl, _⟩ | ⟨b, rfl, _, hg⟩
  · have := null_lv_scalar hc; simp [isNullArr] at this
  · clear h
    cases t <;> simp only [methodOf, Option.some.injEq, reduceCtorEq] at hm <;> subst hm <;>
      simp [castScalar, castLeaf, ofLeaf_must] at hc <;>
      (subst hc; unfold scalar; simp [hg, accept, bind, Except.bind, pure, Except.pure])

/-- container values: `castScalar` never demands anything -/
theorem castScalar_struct {t : Target} {m : Method} (hm : methodOf t = some m) {a : Arr} {lfs : LFields} {d : DVal} :
    castScalar t a (.struct lfs) ≠ must d := by
  intro hc
  cases t <;> simp only [methodOf, Option.some.injEq, reduceCtorEq] at hm <;>
    cases a <;> simp [castScalar, castLeaf, ofLeaf_must] at hc

theorem castScalar_list {t : Target} {m : Method} (hm : methodOf t = some m) {a : Arr} {items : LVals} {d : DVal} :
    castScalar t a (.list items) ≠ must d := by
  intro hc
  cases t <;> simp only [methodOf, Option.some.injEq, reduceCtorEq] at hm <;>
    cases a <;> simp [castScalar, castLeaf, ofLeaf_must] at hc

theorem castScalar_map {t : Target} {m : Method} (hm : methodOf t = some m) {a : Arr} {es : LEntries} {d : DVal} :
    castScalar t a (.map es) ≠ must d := by
  intro hc
  cases t <;> simp only [methodOf, Option.some.injEq, reduceCtorEq] at hm <;>
    cases a <;> simp [castScalar, castLeaf, ofLeaf_must] at hc

theorem castScalar_union {t : Target} {m : Method} (hm : methodOf t = some m) {a : Arr} {ti : Int} {w : LVal} {d : DVal} :
    castScalar t a (.union ti w) ≠ must d := by
  intro hc
  cases t <;> simp only [methodOf, Option.some.injEq, reduceCtorEq] at hm <;>
    cases a <;> simp [castScalar, castLeaf, ofLeaf_must] at hc

/-! ### shapes of container slots -/

theorem struct_inv {len : Nat} {v : Option Bits} {fs : ArrFields} {i : Nat} {lv : LVal}
    (h : decodeAt (.struct len v fs) i = .ok lv) :
    i < len ∧ (lv = .null ∨ ∃ vals, decodeFieldsAt fs i = .ok vals ∧ lv = .struct (LFields.ofList vals)) := by
  unfold decodeAt at h
  obtain ⟨hi, hv⟩ := guarded_inv h
  refine ⟨hi, ?_⟩
  rcases hv with ⟨_, rfl⟩ | ⟨_, hpay⟩
  · exact .inl rfl
  · obtain ⟨vals, hvals, hpay⟩ := bind_ok_inv hpay
    cases hpay
    exact .inr ⟨vals, hvals, rfl⟩

theorem list_inv {lg : Bool} {v : Option Bits} {offs : List Int} {fm : FieldMeta} {el : Arr} {i : Nat} {lv : LVal}
    (h : decodeAt (.list lg v offs fm el) i = .ok lv) :
    i < offs.length - 1 ∧ (lv = .null ∨ ∃ xs, rangeAt (decodeAt el) (lenOf el) (offs.getD i 0) (offs.getD (i + 1) 0) = .ok xs ∧
      lv = .list (LVals.ofList xs)) := by
  unfold decodeAt at h
  obtain ⟨hi, hv⟩ := guarded_inv h
  refine ⟨hi, ?_⟩
  rcases hv with ⟨_, rfl⟩ | ⟨_, hpay⟩
  · exact .inl rfl
  · obtain ⟨xs, hxs, hpay⟩ := bind_ok_inv hpay
    cases hpay
    exact .inr ⟨xs, hxs, rfl⟩

theorem fsl_inv {len : Nat} {v : Option Bits} {n : Int} {fm : FieldMeta} {el : Arr} {i : Nat} {lv : LVal}
    (h : decodeAt (.fixedSizeList len v n fm el) i = .ok lv) :
    i < len ∧ (lv = .null ∨ ∃ xs, ¬ n < 0 ∧ rangeAt (decodeAt el) (lenOf el) (i * n) ((i + 1) * n) = .ok xs ∧
      lv = .list (LVals.ofList xs)) := by
  unfold decodeAt at h
  obtain ⟨hi, hv⟩ := guarded_inv h
  refine ⟨hi, ?_⟩
  rcases hv with ⟨_, rfl⟩ | ⟨_, hpay⟩
  · exact .inl rfl
  · split at hpay
    · cases hpay
    · rename_i hneg
      obtain ⟨xs, hxs, hpay⟩ := bind_ok_inv hpay
      cases hpay
      exact .inr ⟨xs, hneg, hxs, rfl⟩

theorem map_inv {v : Option Bits} {offs : List Int} {mm : MapMeta} {ks vs : Arr} {i : Nat} {lv : LVal}
    (h : decodeAt (.map v offs mm ks vs) i = .ok lv) :
    i < offs.length - 1 ∧ (lv = .null ∨ ∃ kxs wxs,
      rangeAt (decodeAt ks) (lenOf ks) (offs.getD i 0) (offs.getD (i + 1) 0) = .ok kxs ∧
      rangeAt (decodeAt vs) (lenOf vs) (offs.getD i 0) (offs.getD (i + 1) 0) = .ok wxs ∧
      lv = .map (LEntries.ofList (kxs.zip wxs))) := by
  unfold decodeAt at h
  obtain ⟨hi, hv⟩ := guarded_inv h
  refine ⟨hi, ?_⟩
  rcases hv with ⟨_, rfl⟩ | ⟨_, hpay⟩
  · exact .inl rfl
  · obtain ⟨kxs, hk, hpay⟩ := bind_ok_inv hpay
    obtain ⟨wxs, hw, hpay⟩ := bind_ok_inv hpay
    cases hpay
    exact .inr ⟨kxs, wxs, hk, hw, rfl⟩

theorem union_inv {types : List Int} {offs : Option (List Int)} {fs : ArrUFields} {i : Nat} {lv : LVal}
    (h : decodeAt (.union types offs fs) i = .ok lv) : ∃ t w, lv = .union t w := by
  unfold decodeAt at h
  split at h
  · simp only at h
    split at h
    · cases h
    · split at h
      · try simp only at h
        split at h
        · obtain ⟨w, _, h⟩ := bind_ok_inv h; cases h; exact ⟨_, _, rfl⟩
        · cases h
      · obtain ⟨w, _, h⟩ := bind_ok_inv h; cases h; exact ⟨_, _, rfl⟩
  · cases h

/-- scalar targets, every array kind: what `castScalar` demands is what `deserialize_<m>` + the visitor return -/
theorem scalar_sound {t : Target} {m : Method} (hm : methodOf t = some m) (a : Arr) (i : Nat) (lv : LVal) (d : DVal)
    (h : decodeAt a i = .ok lv) (hn : new Fixes.all a = .ok ()) (hp : physical a = true) (hu : utf8Ok lv = true)
    (hc : castScalar t a lv = must d) : (scalar Fixes.all m a i >>= accept t) = .ok d := by
  cases a with
  | null len => exact null_scalar hm h hc
  | boolean len v vals => exact bool_scalar hm h hc
  | prim ty v vals => exact prim_scalar hm h hc
  | time ty u v vals => exact time_scalar hm h hc
  | timestamp u tz v vals => exact timestamp_scalar hm h hc
  | decimal128 p s v vals => exact decimal_scalar hm h hc
  | bytes ty v offs data => exact bytes_scalar hm h hu hc
  | bytesView ty v views buffers => exact view_scalar hm h hu hc
  | fixedSizeBinary n v data => exact fsb_scalar hm h hn hc
  | dictionary ks vs => exact dict_scalar hm h hn hp hu hc
  | struct len v fs =>
    rcases (struct_inv h).2 with rfl | ⟨vals, _, rfl⟩
    · have := null_lv_scalar hc; simp [isNullArr] at this
    · exact absurd hc (castScalar_struct hm)
  | list lg v offs fm el =>
    rcases (list_inv h).2 with rfl | ⟨xs, _, rfl⟩
    · have := null_lv_scalar hc; simp [isNullArr] at this
    · exact absurd hc (castScalar_list hm)
  | fixedSizeList len v n fm el =>
    rcases (fsl_inv h).2 with rfl | ⟨xs, _, _, rfl⟩
    · have := null_lv_scalar hc; simp [isNullArr] at this
    · exact absurd hc (castScalar_list hm)
  | map v offs mm ks vs =>
    rcases (map_inv h).2 with rfl | ⟨kxs, wxs, _, _, rfl⟩
    · have := null_lv_scalar hc; simp [isNullArr] at this
    · exact absurd hc (castScalar_map hm)
  | union types offs fs =>
    obtain ⟨ti, w, rfl⟩ := union_inv h
    exact absurd hc (castScalar_union hm)

end SaModel.Read
