import SaModel.Lemmas.C02TypedCont
/-
C02, typed reads, part 4: a struct target read by field name from a struct column (`deserialize_struct` with a
derived visitor: `visit_map` over the column's fields, unknown fields skipped through `IgnoredAny`, then
`missing_field` for the target fields nobody filled) returns what `castFields` demands.
-/
namespace SaModel.Read
open SaModel SaModel.Spec

/-- the target field a column field called `name` goes to: `(position, type)` -/
def lookupT : TFields → String → Nat → Option (Nat × Target)
  | .nil, _, _ => none
  | .cons n t rest, name, pos => if n == name then some (pos, t) else lookupT rest name (pos + 1)

theorem readFieldAs_eq : ∀ (tfs : TFields) (pos : Nat) (slots : Slots) (name : String) (child : Arr) (idx : Nat),
    readFieldAs Fixes.all tfs pos slots name child idx =
      match lookupT tfs name pos with
      | none => .ok none
      | some (p, t) =>
        if (Slots.get? slots p).isSome then fail "duplicate field"
        else (do pure (some (p, ← readAs Fixes.all t child idx)))
  | .nil, pos, slots, name, child, idx => by simp [readFieldAs, lookupT]
  | .cons n t rest, pos, slots, name, child, idx => by
    unfold readFieldAs lookupT
    by_cases hn : (n == name) = true
    · simp only [hn, if_true]
    · simp only [hn, if_false]
      exact readFieldAs_eq rest (pos + 1) slots name child idx

theorem lookupT_mem : ∀ (tfs : TFields) (name : String) (pos p : Nat) (t : Target),
    lookupT tfs name pos = some (p, t) → (name, t) ∈ TFields.toList tfs ∧ name ∈ TFields.names tfs ∧ pos ≤ p
  | .nil, _, _, _, _, h => by simp [lookupT] at h
  | .cons n t' rest, name, pos, p, t, h => by
    unfold lookupT at h
    split at h
    · rename_i hn
      simp only [beq_iff_eq] at hn
      cases h
      simp [TFields.toList, TFields.names, hn]
    · obtain ⟨h1, h2, h3⟩ := lookupT_mem rest name (pos + 1) p t h
      simp [TFields.toList, TFields.names, h1, h2]
      omega

theorem lookupT_inj : ∀ (tfs : TFields) (n1 n2 : String) (pos p : Nat) (t1 t2 : Target),
    lookupT tfs n1 pos = some (p, t1) → lookupT tfs n2 pos = some (p, t2) → n1 = n2
  | .nil, _, _, _, _, _, _, h, _ => by simp [lookupT] at h
  | .cons n t rest, n1, n2, pos, p, t1, t2, h1, h2 => by
    unfold lookupT at h1 h2
    split at h1
    · rename_i e1
      cases h1
      split at h2
      · rename_i e2
        simp only [beq_iff_eq] at e1 e2
        rw [← e1, ← e2]
      · have := (lookupT_mem rest n2 (pos + 1) pos t2 h2).2.2
        omega
    · split at h2
      · cases h2
        have := (lookupT_mem rest n1 (pos + 1) pos t1 h1).2.2
        omega
      · exact lookupT_inj rest n1 n2 (pos + 1) p t1 t2 h1 h2

theorem nodupNames_cons {x : String} {xs : List String} (h : nodupNames (x :: xs) = true) :
    x ∉ xs ∧ nodupNames xs = true := by
  simp only [nodupNames, Bool.and_eq_true, Bool.not_eq_true', List.contains_eq_mem, decide_eq_false_iff_not] at h
  exact h

theorem fieldNamed_mem : ∀ (fs : ArrFields) (lfs : LFields) (name : String) (a : Arr) (v : LVal),
    fieldNamed fs lfs name = some (a, v) → name ∈ ArrFields.names fs
  | .nil, _, _, _, _, h => by simp [fieldNamed] at h
  | .cons fm a' rest, .nil, _, _, _, h => by simp [fieldNamed] at h
  | .cons fm a' rest, .cons _ v' lrest, name, a, v, h => by
    unfold fieldNamed at h
    split at h
    · rename_i hn
      simp only [beq_iff_eq] at hn
      simp [ArrFields.names, hn]
    · simp [ArrFields.names, fieldNamed_mem rest lrest name a v h]

/-- the slots the key loop fills: one per column field that has a target field -/
def expSlots (tfs : TFields) : ArrFields → List (String × LVal) → Slots
  | .cons fm a rest, (_, v) :: r =>
    (match lookupT tfs fm.name 0 with
     | some (p, t) => (match cast t a v with | .ok (some d) => [(p, d)] | _ => [])
     | none => []) ++ expSlots tfs rest r
  | _, _ => []

/-- the key loop of `structVisit` -/
def keyStep (tfs : TFields) (i : Nat) (slots : Slots) (p : FieldMeta × Arr) : R Slots := do
  match (← readFieldAs Fixes.all tfs 0 slots p.1.name p.2 i) with
  | some kv => pure (slots ++ [kv])
  | none => do let _ ← readAny Fixes.all p.2 i; pure slots

theorem lookup_append_none {s : Slots} {p q : Nat} {d : DVal} (h : s.lookup p = none) (hne : q ≠ p) :
    (s ++ [(q, d)]).lookup p = none := by
  rw [List.lookup_append, h]
  simp [List.lookup, hne]
  have : (p == q) = false := by simp; omega
  simp [this]

theorem keyLoop_sound {tfs : TFields} (hS : ∀ p ∈ TFields.toList tfs, Sound p.2) (i : Nat) :
    ∀ (rest : ArrFields) (rvals : List (String × LVal)) (slots0 : Slots),
    decodeFieldsAt rest i = .ok rvals → newFields Fixes.all rest = .ok () → physicalFields rest = true →
    utf8OkFields (LFields.ofList rvals) = true →
    (∀ name a v, fieldNamed rest (LFields.ofList rvals) name = some (a, v) → ∀ p t, lookupT tfs name 0 = some (p, t) →
      ∃ d, cast t a v = must d) →
    (∀ name ∈ ArrFields.names rest, ∀ p t, lookupT tfs name 0 = some (p, t) → slots0.lookup p = none) →
    nodupNames (ArrFields.names rest) = true →
    rest.toList.foldlM (keyStep tfs i) slots0 = .ok (slots0 ++ expSlots tfs rest rvals)
  | .nil, rvals, slots0, h, _, _, _, _, _, _ => by
    unfold decodeFieldsAt at h; cases h
    simp [ArrFields.toList, expSlots, pure, Except.pure]
  | .cons fm a rest, rvals, slots0, h, hn, hp, hu, hG, hfree, hnd => by
    obtain ⟨v, r, hv, hr, rfl⟩ := decodeFieldsAt_cons_inv h
    obtain ⟨hna, hnr⟩ := newFields_cons_inv hn
    unfold physicalFields at hp
    simp only [Bool.and_eq_true] at hp
    simp only [LFields.ofList, utf8OkFields, Bool.and_eq_true] at hu
    simp only [ArrFields.names] at hnd hfree
    obtain ⟨hnotin, hnd'⟩ := nodupNames_cons hnd
    have hhead : fieldNamed (.cons fm a rest) (LFields.ofList ((fm.name, v) :: r)) fm.name = some (a, v) := by
      simp [LFields.ofList, fieldNamed]
    have hG' : ∀ name a' v', fieldNamed rest (LFields.ofList r) name = some (a', v') → ∀ p t,
        lookupT tfs name 0 = some (p, t) → ∃ d, cast t a' v' = must d := by
      intro name a' v' hf p t hl
      have hmem := fieldNamed_mem rest _ name a' v' hf
      have hne : (fm.name == name) = false := by
        simp only [beq_eq_false_iff_ne, ne_eq]
        intro he; rw [he] at hnotin; exact hnotin hmem
      apply hG name a' v' _ p t hl
      simp [LFields.ofList, fieldNamed, hne, hf]
    rw [ArrFields.toList, List.foldlM_cons]
    simp only [expSlots]
    cases hl : lookupT tfs fm.name 0 with
    | none =>
      have hany := readAny_decodeAt a i v hv hna hp.1 hu.1
      have hstep : keyStep tfs i slots0 (fm, a) = .ok slots0 := by
        simp only [keyStep, readFieldAs_eq, hl, hany, bind, Except.bind, pure, Except.pure]
      rw [hstep]
      simp only [bind, Except.bind, List.nil_append]
      exact keyLoop_sound hS i rest r slots0 hr hnr hp.2 hu.2 hG'
        (fun name hm p t hlt => hfree name (by simp [hm]) p t hlt) hnd'
    | some pt =>
      obtain ⟨p, t⟩ := pt
      obtain ⟨d, hd⟩ := hG fm.name a v hhead p t hl
      have hread := hS (fm.name, t) (lookupT_mem tfs fm.name 0 p t hl).1 a i v d hv hna hp.1 hu.1 hd
      have hfr : slots0.lookup p = none := hfree fm.name (by simp) p t hl
      have hstep : keyStep tfs i slots0 (fm, a) = .ok (slots0 ++ [(p, d)]) := by
        simp only [keyStep, readFieldAs_eq, hl, Slots.get?, hfr, Option.isSome_none, Bool.false_eq_true, if_false, hread,
          bind, Except.bind, pure, Except.pure]
      rw [hstep]
      simp only [bind, Except.bind, hd, must]
      have ih := keyLoop_sound hS i rest r (slots0 ++ [(p, d)]) hr hnr hp.2 hu.2 hG'
        (fun name hm p' t' hlt => by
          have h0 := hfree name (by simp [hm]) p' t' hlt
          apply lookup_append_none h0
          intro hpp
          subst hpp
          have := lookupT_inj tfs fm.name name 0 p t t' hl hlt
          rw [← this] at hm
          exact hnotin hm) hnd'
      rw [ih]
      simp

/-! ### after the key loop: `missing_field` / the filled slots, against `castFields` -/

theorem expSlots_lookup {tfs : TFields} {n : String} {p : Nat} {t : Target} (hl : lookupT tfs n 0 = some (p, t)) :
    ∀ (fs : ArrFields) (vals : List (String × LVal)),
    (∀ a v d, fieldNamed fs (LFields.ofList vals) n = some (a, v) → cast t a v = must d →
      (expSlots tfs fs vals).lookup p = some d) ∧
    (fieldNamed fs (LFields.ofList vals) n = none → (expSlots tfs fs vals).lookup p = none)
  | .nil, vals => by
    constructor
    · intro a v d h; simp [fieldNamed] at h
    · intro _; cases vals <;> simp [expSlots]
  | .cons fm a rest, [] => by
    constructor
    · intro a v d h; simp [LFields.ofList, fieldNamed] at h
    · intro _; simp [expSlots]
  | .cons fm a rest, (nm, v) :: r => by
    obtain ⟨ih1, ih2⟩ := expSlots_lookup hl rest r
    by_cases hn : (fm.name == n) = true
    · have hn' : fm.name = n := by simpa using hn
      constructor
      · intro a' v' d h hc
        simp only [LFields.ofList, fieldNamed, hn, if_true, Option.some.injEq, Prod.mk.injEq] at h
        obtain ⟨rfl, rfl⟩ := h
        simp only [expSlots, hn', hl, hc, must, List.cons_append, List.nil_append, List.lookup, beq_self_eq_true]
      · intro h
        simp [LFields.ofList, fieldNamed, hn] at h
    · have hhead : ∀ (tl : Slots), ((match lookupT tfs fm.name 0 with
            | some (p, t) => (match cast t a v with | .ok (some d) => [(p, d)] | _ => [])
            | none => []) ++ tl).lookup p = tl.lookup p := by
        intro tl
        cases hl' : lookupT tfs fm.name 0 with
        | none => simp
        | some pt =>
          obtain ⟨p', t'⟩ := pt
          have hne : (p == p') = false := by
            simp only [beq_eq_false_iff_ne, ne_eq]
            intro he; subst he
            have := lookupT_inj tfs fm.name n 0 p t' t hl' hl
            exact hn (by simp [this])
          simp only
          split <;> simp [List.lookup, hne]
      constructor
      · intro a' v' d h hc
        simp only [LFields.ofList, fieldNamed, hn, if_false] at h
        simp only [expSlots, hhead]
        exact ih1 a' v' d h hc
      · intro h
        simp only [LFields.ofList, fieldNamed, hn, if_false] at h
        simp only [expSlots, hhead]
        exact ih2 h

theorem finish_sound {tfs : TFields} (fs : ArrFields) (vals : List (String × LVal)) :
    ∀ (tfs' : TFields) (pos : Nat) (es : List (DVal × DVal)), nodupNames (TFields.names tfs') = true →
    (∀ name p t, lookupT tfs' name pos = some (p, t) → lookupT tfs name 0 = some (p, t)) →
    castFields tfs' fs (LFields.ofList vals) = .ok (some es) →
    finishFields tfs' pos (expSlots tfs fs vals) = .ok es
  | .nil, pos, es, _, _, hc => by
    simp only [castFields] at hc; cases hc
    simp [finishFields]
  | .cons n t rest, pos, es, hnd, hH, hc => by
    simp only [TFields.names] at hnd
    obtain ⟨hnotin, hnd'⟩ := nodupNames_cons hnd
    have hown : lookupT tfs n 0 = some (pos, t) := hH n pos t (by simp [lookupT])
    have hH' : ∀ name p t', lookupT rest name (pos + 1) = some (p, t') → lookupT tfs name 0 = some (p, t') := by
      intro name p t' hl
      apply hH
      have hmem := (lookupT_mem rest name (pos + 1) p t' hl).2.1
      have hne : (n == name) = false := by
        simp only [beq_eq_false_iff_ne, ne_eq]
        intro he; rw [he] at hnotin; exact hnotin hmem
      simp [lookupT, hne, hl]
    simp only [castFields] at hc
    obtain ⟨e, es', h1, h2, rfl⟩ := consClaim_some hc
    have ih := finish_sound fs vals rest (pos + 1) es' hnd' hH' h2
    obtain ⟨k1, k2⟩ := expSlots_lookup hown fs vals
    have hslot : slotOrMissing t (Slots.get? (expSlots tfs fs vals) pos) = .ok e.2 ∧ e.1 = .str .transient (strBytes n) := by
      cases hf : fieldNamed fs (LFields.ofList vals) n with
      | none =>
        rw [hf] at h1
        simp only [Slots.get?, k2 hf, slotOrMissing]
        cases hopt : t.isOption
        · simp [hopt, mustFail, fail] at h1
        · simp only [hopt, if_true, must, Except.ok.injEq, Option.some.injEq] at h1
          subst h1; simp
      | some av =>
        obtain ⟨a, v⟩ := av
        rw [hf] at h1
        simp only at h1
        cases hcv : cast t a v with
        | error err => rw [hcv] at h1; simp at h1
        | ok o =>
          cases o with
          | none => rw [hcv] at h1; simp at h1
          | some d =>
            rw [hcv] at h1
            simp only [Except.ok.injEq, Option.some.injEq] at h1
            subst h1
            simp only [Slots.get?, k1 a v d hf hcv, slotOrMissing, and_self]
    simp only [finishFields, hslot.1, ih, bind, Except.bind, pure, Except.pure]
    rw [← hslot.2]

theorem castFields_claims : ∀ (tfs' : TFields) (fs : ArrFields) (lfs : LFields) (es : List (DVal × DVal)),
    castFields tfs' fs lfs = .ok (some es) → ∀ n t, (n, t) ∈ TFields.toList tfs' → ∀ a v, fieldNamed fs lfs n = some (a, v) →
    ∃ d, cast t a v = must d
  | .nil, _, _, _, _, n, t, hm, _, _, _ => by simp [TFields.toList] at hm
  | .cons n' t' rest, fs, lfs, es, hc, n, t, hm, a, v, hf => by
    simp only [castFields] at hc
    obtain ⟨e, es', h1, h2, rfl⟩ := consClaim_some hc
    simp only [TFields.toList, List.mem_cons, Prod.mk.injEq] at hm
    rcases hm with ⟨rfl, rfl⟩ | hm
    · rw [hf] at h1
      simp only at h1
      cases hcv : cast t a v with
      | error err => rw [hcv] at h1; simp at h1
      | ok o =>
        cases o with
        | none => rw [hcv] at h1; simp at h1
        | some d => exact ⟨d, rfl⟩
    · exact castFields_claims rest fs lfs es' h2 n t hm a v hf

/-- `structClaim` + `structVisit` (struct target, struct variant) -/
theorem structVisit_sound {tfs : TFields} (hS : ∀ p ∈ TFields.toList tfs, Sound p.2) (a : Arr) (i : Nat) (lv : LVal) (d : DVal)
    (h : decodeAt a i = .ok lv) (hn : new Fixes.all a = .ok ()) (hp : physical a = true) (hu : utf8Ok lv = true)
    (hc : structClaim (TFields.names tfs) (fun fs lfs => castFields tfs fs lfs) a lv = must d) :
    structVisit Fixes.all (fun slots name child => readFieldAs Fixes.all tfs 0 slots name child i) tfs a i = .ok d := by
  cases a with
  | struct len v fs =>
    obtain ⟨hi, hlv⟩ := struct_inv h
    rcases hlv with rfl | ⟨vals, hvals, rfl⟩
    · simp [structClaim, mustFail, must, fail] at hc
    · simp only [structClaim] at hc
      split at hc
      · simp [na, must] at hc
      · rename_i hdup
        simp only [Bool.or_eq_true, Bool.not_eq_true', not_or, Bool.not_eq_false] at hdup
        obtain ⟨es, hcl, hd⟩ := andThenE_must hc
        cases must_inj hd
        unfold physical at hp
        simp only [utf8Ok] at hu
        have hG : ∀ name a' v', fieldNamed fs (LFields.ofList vals) name = some (a', v') → ∀ p t,
            lookupT tfs name 0 = some (p, t) → ∃ d, cast t a' v' = must d := by
          intro name a' v' hf p t hl
          exact castFields_claims tfs fs _ es hcl name t (lookupT_mem tfs name 0 p t hl).1 a' v' hf
        have hloop := keyLoop_sound hS i fs vals [] hvals (new_struct_inv hn) hp hu hG
          (fun _ _ _ _ _ => rfl) hdup.1
        have hfin := finish_sound (tfs := tfs) fs vals tfs 0 es hdup.2 (fun _ _ _ hl => hl) hcl
        simp only [List.nil_append] at hloop
        have e : structVisit Fixes.all (fun slots name child => readFieldAs Fixes.all tfs 0 slots name child i) tfs
            (.struct len v fs) i =
            (do structItem Fixes.all len i
                let slots ← fs.toList.foldlM (keyStep tfs i) []
                pure (.map (DEntries.ofList (← finishFields tfs 0 slots)))) := rfl
        rw [e, structItem_ok hi, hloop]
        simp only [bind, Except.bind, hfin, pure, Except.pure]
  | _ => cases lv <;> simp [structClaim, mustFail, must, na, fail] at hc

theorem sound_struct {tfs : TFields} (hS : ∀ p ∈ TFields.toList tfs, Sound p.2) : Sound (.struct tfs) := by
  intro a i lv d h hn hp hu hc
  simp only [cast] at hc
  simp only [readAs]
  exact structVisit_sound hS a i lv d h hn hp hu hc

theorem ksound_struct {tfs : TFields} (hS : ∀ p ∈ TFields.toList tfs, Sound p.2) : KSound (.struct tfs) := by
  intro child off lv d h hn hp hu hc
  simp only [castKind] at hc
  simp only [readKind]
  exact structVisit_sound hS child off lv d h hn hp hu hc

end SaModel.Read
