import SaModel.Lemmas.C03Finish
/-
The assembled recursion over the builder tree.

`decP b` ("physical" reading of the state) is `dec b` except that a dictionary whose `into_array` appends the
placeholder value reads its dummy keys through that placeholder — i.e. `decP` is what the finished array really
means, also in slots hidden under a null parent.  Main results:

  finish_decodeP : WFB b → Sound b → finish ext b = ok a → decodeAll a = (decP b).map ok
  decP_length    : (decP b).length = (dec b).length
  decP_eq_dec    : WFB b → Faithful b → decP b = dec b
  finish_decode  : WFB b → Faithful b → finish ext b = ok a → decodeAll a = (dec b).map ok     (corollary)

`Sound` (every dictionary key designates a value of the finished dictionary; no `FixedSizeBinary(0)` with rows)
is what well-formedness of the finished array needs; `Faithful` (⊆ `Sound`) additionally excludes dummy keys.
-/
namespace SaModel.Lemmas.C03
open SaModel SaModel.Build SaModel.Spec SaModel.Lemmas.Bits

/-! ### the placeholder value of `DictionaryUtf8Builder::into_array` -/

/-- the condition under which `into_array` pushes the placeholder `""` into the values builder -/
def needsPlaceholder (idx : B) (index : List String) : Bool := !idx.isNullable && idx.rows != 0 && index.isEmpty

/-- the row a (non-nullable) string builder gains by `serialize_str("")` -/
def placeholderVals : B → List LVal
  | .bytes _ ty none _ _ => [bytesVal (isUtf8Ty ty) []]
  | .bytesView _ ty none _ _ => [bytesVal (ty == .utf8View) []]
  | _ => []

/-- the values of the finished dictionary, given the values `vs` the state holds -/
def dictVals (idx vals : B) (index : List String) (vs : List LVal) : List LVal :=
  if needsPlaceholder idx index then vs ++ placeholderVals vals else vs

mutual
/-- what the finished array means: `dec`, with dictionary keys read through the finished dictionary's values -/
def decP : B → List LVal
  | .null _ len => List.replicate len .null
  | .unknownVariant _ => []
  | .leaf _ k v vals => maskNull v (vals.map (leafVal k))
  | .bytes _ ty v offs data => maskNull v ((pairs offs).map fun se => bytesVal (isUtf8Ty ty) (sliceL data se.1 se.2))
  | .bytesView _ ty v views buf => maskNull v (views.map fun d => bytesVal (ty == .utf8View) (viewBytes buf d))
  | .fixedSizeBinary _ n len v buf _ => maskNull v ((List.range len).map fun i => .bin ((buf.drop (i * n)).take n))
  | .list _ _ _ v offs el =>
    let elems := decP el
    maskNull v ((pairs offs).map fun se => .list (LVals.ofList (sliceL elems se.1 se.2)))
  | .fixedSizeList _ _ n len v _ el =>
    let elems := decP el
    maskNull v ((List.range len).map fun i => .list (LVals.ofList ((elems.drop (i * n)).take n)))
  | .map _ _ v offs ks vs =>
    let k := decP ks
    let w := decP vs
    maskNull v ((pairs offs).map fun se => .map (LEntries.ofList ((sliceL k se.1 se.2).zip (sliceL w se.1 se.2))))
  | .struct _ len v fs _ _ _ =>
    let cols := decPCols fs
    maskNull v ((List.range len).map fun i => .struct (LFields.ofList (cols.map fun c => (c.1, c.2.getD i .null))))
  | .dictionary _ idx vals index =>
    let vs := dictVals idx vals index (decP vals)
    (decP idx).map fun k => match k with
      | .int j => vs.getD j.toNat .null
      | _ => .null
  | .union _ fs types offs _ =>
    let cols := decPCols fs
    List.zipWith (fun t o => LVal.union t ((cols.getD t.toNat ("", [])).2.getD o.toNat .null)) types offs
def decPCols : BL → List (String × List LVal)
  | .nil => []
  | .cons b m r => (m.name, decP b) :: decPCols r
end

mutual
/-- what the finished array needs in order to be readable everywhere (also in hidden slots) -/
def Sound : B → Prop
  | .fixedSizeBinary _ n len _ _ _ => n = 0 → len = 0
  | .list _ _ _ _ _ el => Sound el
  | .fixedSizeList _ _ _ _ _ _ el => Sound el
  | .map _ _ _ _ ks vs => Sound ks ∧ Sound vs
  | .struct _ _ _ fs _ _ _ => SoundL fs
  | .dictionary _ idx vals index =>
    Sound idx ∧ Sound vals ∧
    ∀ k ∈ decP idx, k = .null ∨ ∃ j : Nat, k = .int j ∧ j < (dictVals idx vals index (decP vals)).length
  | .union _ fs _ _ _ => SoundL fs
  | _ => True
def SoundL : BL → Prop
  | .nil => True
  | .cons b _ r => Sound b ∧ SoundL r
end

theorem Sound_list {p large fm v offs el} (h : Sound (.list p large fm v offs el)) : Sound el := by
  simpa [Sound] using h
theorem Sound_fixedSizeList {p fm n len v cur el} (h : Sound (.fixedSizeList p fm n len v cur el)) : Sound el := by
  simpa [Sound] using h
theorem Sound_map {p mm v offs ks vs} (h : Sound (.map p mm v offs ks vs)) : Sound ks ∧ Sound vs := by
  simpa [Sound] using h
theorem Sound_struct {p len v fs cached next seen} (h : Sound (.struct p len v fs cached next seen)) : SoundL fs := by
  simpa [Sound] using h
theorem Sound_union {p fs types offs cur} (h : Sound (.union p fs types offs cur)) : SoundL fs := by
  simpa [Sound] using h
theorem Sound_dictionary {p idx vals index} (h : Sound (.dictionary p idx vals index)) :
    Sound idx ∧ Sound vals ∧
    ∀ k ∈ decP idx, k = .null ∨ ∃ j : Nat, k = .int j ∧ j < (dictVals idx vals index (decP vals)).length := by
  simpa [Sound] using h
theorem Sound_fixedSizeBinary {p n len v buf cur} (h : Sound (.fixedSizeBinary p n len v buf cur)) : n = 0 → len = 0 := by
  simpa [Sound] using h

/-! ### `decP` has the rows of `dec` -/

theorem maskNull_length_congr (v : Validity) (xs ys : List LVal) (h : xs.length = ys.length) :
    (maskNull v xs).length = (maskNull v ys).length := by
  cases v <;> simp [maskNull, h]

mutual
theorem decP_length : ∀ (b : B), (decP b).length = (dec b).length
  | .null _ _ => rfl
  | .unknownVariant _ => rfl
  | .leaf _ _ _ _ => rfl
  | .bytes _ _ _ _ _ => rfl
  | .bytesView _ _ _ _ _ => rfl
  | .fixedSizeBinary _ _ _ _ _ _ => rfl
  | .list _ _ _ v _ _ => by simp only [decP, dec]; exact maskNull_length_congr v _ _ (by simp)
  | .fixedSizeList _ _ _ _ v _ _ => by simp only [decP, dec]; exact maskNull_length_congr v _ _ (by simp)
  | .map _ _ v _ _ _ => by simp only [decP, dec]; exact maskNull_length_congr v _ _ (by simp)
  | .struct _ _ v _ _ _ _ => by simp only [decP, dec]; exact maskNull_length_congr v _ _ (by simp)
  | .dictionary _ idx _ _ => by simp only [decP, dec, List.length_map]; exact decP_length idx
  | .union _ _ _ _ _ => by simp [decP, dec]
end

theorem decPCols_len : ∀ (fs : BL) (len : Nat), WFL fs len → ∀ c ∈ decPCols fs, c.2.length = len
  | .nil, _, _ => by simp [decPCols]
  | .cons b m r, len, h => by
    simp only [WFL] at h
    intro c hc
    simp only [decPCols, List.mem_cons] at hc
    rcases hc with hc | hc
    · rw [hc]; simp only [decP_length]; exact h.2.1
    · exact decPCols_len r len h.2.2 c hc

theorem decPCols_get? : ∀ (fs : BL) (k : Nat) (c : B × FieldMeta), fs.get? k = some c →
    (decPCols fs)[k]? = some (c.2.name, decP c.1)
  | .nil, _, _, h => by simp [BL.get?] at h
  | .cons b m r, 0, c, h => by
    simp only [BL.get?, Option.some.injEq] at h
    subst h; simp [decPCols]
  | .cons b m r, k + 1, c, h => by
    simp only [BL.get?] at h
    simp only [decPCols, List.getElem?_cons_succ]
    exact decPCols_get? r k c h

theorem decPCols_length : ∀ (fs : BL), (decPCols fs).length = fs.length
  | .nil => rfl
  | .cons _ _ r => by simp [decPCols, BL.length, decPCols_length r]

/-! ### what `serialize_str("")` does to the finished values array -/

theorem getD_append_left {α} (l : List α) (x : α) (i : Nat) (d : α) (h : i < l.length) :
    (l ++ [x]).getD i d = l.getD i d := by
  simp [List.getD_eq_getElem?_getD, List.getElem?_append_left h]

/-- the rows the values array already had are untouched -/
theorem appendEmptyStr_slot_lt (va : Arr) (j : Nat) (h : j < (decodeAll va).length) :
    slot (decodeAll (appendEmptyStr va)) j = slot (decodeAll va) j := by
  cases va with
  | bytes ty v offs data =>
    simp only [decodeAll, List.length_map, List.length_range] at h
    simp only [appendEmptyStr, decodeAll, slot, List.getElem?_map, List.length_append, List.length_singleton,
      Nat.add_sub_cancel]
    have h1 : j < offs.length := by omega
    rw [List.getElem?_range h, List.getElem?_range h1]
    simp only [Option.map_some]
    rw [getD_append_left offs _ j 0 (by omega), getD_append_left offs _ (j + 1) 0 (by omega)]
  | bytesView ty v views bufs =>
    simp only [decodeAll, List.length_map, List.length_range] at h
    simp only [appendEmptyStr, decodeAll, slot, List.getElem?_map, List.length_append, List.length_singleton]
    rw [List.getElem?_range h, List.getElem?_range (by omega)]
    simp only [Option.map_some]
    rw [getD_append_left views _ j 0 h]
  | _ => rfl

theorem pairs_append_last (offs : List Int) (l : Int) (h : offs.getLast? = some l) (x : Int) :
    pairs (offs ++ [x]) = pairs offs ++ [(l, x)] := by
  induction offs with
  | nil => simp at h
  | cons a r ih =>
    cases r with
    | nil => simp at h; subst h; simp [pairs]
    | cons b r' =>
      have h' : (b :: r').getLast? = some l := by simpa [List.getLast?_cons_cons] using h
      have := ih h'
      simp only [pairs, List.cons_append, List.tail_cons, List.zip_cons_cons] at this ⊢
      rw [this]

/-- a non-nullable `Utf8`/`Binary` values array gains exactly the placeholder row -/
theorem appendEmptyStr_bytes (ty : BytesTy) (offs : List Int) (data : Bytes) (ho : OffsOK offs data.length) :
    decodeAll (appendEmptyStr (.bytes ty none offs data)) =
      ((maskNull none ((pairs offs).map fun se => bytesVal (isUtf8Ty ty) (sliceL data se.1 se.2))) ++
        [bytesVal (isUtf8Ty ty) []]).map .ok := by
  have hl := ho.2.1
  have hne : offs ≠ [] := by intro h; rw [h] at hl; cases hl
  have hlast : offs.getLastD 0 = (data.length : Int) := by
    rw [List.getLastD_eq_getLast?, hl]; rfl
  have ho' : OffsOK (offs ++ [(data.length : Int)]) data.length := by
    refine ⟨?_, by simp, ?_⟩
    · have h1 := ho.1
      cases offs with
      | nil => exact absurd rfl hne
      | cons a r => simpa using h1
    · rw [List.pairwise_append]
      refine ⟨ho.2.2, by simp, ?_⟩
      intro a ha b hb
      simp only [List.mem_singleton] at hb
      subst hb
      obtain ⟨i, hi, rfl⟩ := List.getElem_of_mem ha
      by_cases hlt : i + 1 < offs.length
      · have := OffsOK_pair offs _ ho i hlt; omega
      · have : i = offs.length - 1 := by omega
        subst this
        rw [List.getLast?_eq_getElem?, List.getElem?_eq_getElem (by omega)] at hl
        simp only [Option.some.injEq] at hl
        omega
  have := bytes_decode ty none (offs ++ [(data.length : Int)]) data ho' (by intro _ h; cases h)
  simp only [appendEmptyStr, hlast]
  rw [show (finishValidity none : Option Bits) = none from rfl] at this
  rw [this, pairs_append_last offs _ hl]
  simp [maskNull, sliceL]

theorem decodeView_packInline_nil (buf : Bytes) : decodeView [buf] (packInline []) = .ok [] := by
  simp [decodeView, packInline, leBytes, u128Bytes]

theorem appendEmptyStr_bytesView (ty : ViewTy) (views : List Nat) (buf : Bytes)
    (hd : ∀ d ∈ views, (decodeView [buf] d).isOk = true) :
    decodeAll (appendEmptyStr (.bytesView ty none views [buf])) =
      ((maskNull none (views.map fun d => bytesVal (ty == .utf8View) (viewBytes buf d))) ++
        [bytesVal (ty == .utf8View) []]).map .ok := by
  have := bytesView_decode ty none (views ++ [packInline []]) buf (by intro _ h; cases h) (by
    intro d hdm
    simp only [List.mem_append, List.mem_singleton] at hdm
    rcases hdm with h | h
    · exact hd d h
    · rw [h, decodeView_packInline_nil]; rfl)
  rw [show (finishValidity none : Option Bits) = none from rfl] at this
  simp only [appendEmptyStr]
  rw [this]
  simp [maskNull, viewBytes, decodeView_packInline_nil]

/-- the finished dictionary's values, placeholder included, slot by slot -/
theorem placeholder_slots (ext : Ext) (vals : B) (va : Arr) (hw : WFB vals) (hfin : finish ext vals = .ok va)
    (ih : decodeAll va = (decP vals).map .ok) (j : Nat) (hj : j < (decP vals ++ placeholderVals vals).length) :
    slot (decodeAll (appendEmptyStr va)) j = .ok ((decP vals ++ placeholderVals vals).getD j .null) := by
  have generic : placeholderVals vals = [] →
      slot (decodeAll (appendEmptyStr va)) j = .ok ((decP vals ++ placeholderVals vals).getD j .null) := by
    intro hnil
    rw [hnil, List.append_nil] at hj ⊢
    rw [appendEmptyStr_slot_lt va j (by rw [ih]; simpa using hj), ih, slot_map_ok _ j hj,
      getD_eq_getElem _ j _ hj]
  cases vals with
  | bytes p ty v offs data =>
    cases v with
    | some bits => exact generic rfl
    | none =>
      simp only [finish] at hfin; cases hfin
      rw [show (finishValidity none : Option Bits) = none from rfl,
        appendEmptyStr_bytes ty offs data (WFB_bytes hw).1]
      simp only [decP, placeholderVals] at hj ⊢
      rw [slot_map_ok _ j hj, getD_eq_getElem _ j _ hj]
  | bytesView p ty v views buf =>
    cases v with
    | some bits => exact generic rfl
    | none =>
      simp only [finish] at hfin; cases hfin
      rw [show (finishValidity none : Option Bits) = none from rfl,
        appendEmptyStr_bytesView ty views buf (WFB_bytesView hw).2]
      simp only [decP, placeholderVals] at hj ⊢
      rw [slot_map_ok _ j hj, getD_eq_getElem _ j _ hj]
  | _ => exact generic rfl

/-! ### the assembled recursion -/

mutual
/-- **the finished array means exactly `decP` of the builder state, in every slot** -/
theorem finish_decodeP (ext : Ext) : ∀ (b : B) (a : Arr), WFB b → Sound b → finish ext b = .ok a →
    decodeAll a = (decP b).map .ok
  | .null _ len, a, _, _, h => by
    simp only [finish] at h; cases h
    simp [decodeAll, decP]
  | .unknownVariant _, a, _, _, h => by
    simp only [finish] at h; cases h
    simp [decodeAll, decP]
  | .leaf _ k v vals, a, hw, _, h => by
    simp only [finish] at h; cases h
    simp only [decP]
    exact finishLeaf_decode k v vals (WFB_leaf hw)
  | .bytes _ ty v offs data, a, hw, _, h => by
    simp only [finish] at h; cases h
    obtain ⟨ho, hv⟩ := WFB_bytes hw
    simp only [decP]
    exact bytes_decode ty v offs data ho hv
  | .bytesView _ ty v views buf, a, hw, _, h => by
    simp only [finish] at h; cases h
    obtain ⟨hv, hd⟩ := WFB_bytesView hw
    simp only [decP]
    exact bytesView_decode ty v views buf hv hd
  | .fixedSizeBinary _ n len v buf _, a, hw, hf, h => by
    simp only [finish] at h
    split at h
    · cases h
    · cases h
      obtain ⟨hv, hb⟩ := WFB_fixedSizeBinary hw
      simp only [decP]
      exact fixedSizeBinary_decode n len v buf hv hb (Sound_fixedSizeBinary hf)
  | .list _ large fm v offs el, a, hw, hf, h => by
    obtain ⟨ho, hv, hwe⟩ := WFB_list hw
    simp only [finish, bind, Except.bind] at h
    cases he : finish ext el with
    | error e => rw [he] at h; cases h
    | ok ela =>
      rw [he] at h; cases h
      have ih := finish_decodeP ext el ela hwe (Sound_list hf) he
      simp only [decP]
      exact list_decode large v offs fm ela (decP el) ih (by rw [decP_length]; exact ho) hv
  | .fixedSizeList _ fm n len v _ el, a, hw, hf, h => by
    obtain ⟨hv, hx, hwe⟩ := WFB_fixedSizeList hw
    simp only [finish] at h
    split at h
    · cases h
    · simp only [bind, Except.bind] at h
      cases he : finish ext el with
      | error e => rw [he] at h; cases h
      | ok ela =>
        rw [he] at h; cases h
        have ih := finish_decodeP ext el ela hwe (Sound_fixedSizeList hf) he
        simp only [decP]
        exact fixedSizeList_decode len n v fm ela (decP el) ih (by rw [decP_length]; exact hx) hv
  | .map _ mm v offs ks vs, a, hw, hf, h => by
    obtain ⟨ho, hlen, hv, hwk, hwv⟩ := WFB_map hw
    simp only [finish, bind, Except.bind] at h
    cases hek : finish ext ks with
    | error e => rw [hek] at h; cases h
    | ok ka =>
      rw [hek] at h
      cases hev : finish ext vs with
      | error e => rw [hev] at h; cases h
      | ok va =>
        rw [hev] at h; cases h
        have ihk := finish_decodeP ext ks ka hwk (Sound_map hf).1 hek
        have ihv := finish_decodeP ext vs va hwv (Sound_map hf).2 hev
        simp only [decP]
        exact map_decode v offs mm ka va (decP ks) (decP vs) ihk ihv (by rw [decP_length]; exact ho)
          (by rw [decP_length, decP_length]; exact hlen) hv
  | .struct _ len v fs _ _ _, a, hw, hf, h => by
    obtain ⟨hv, hl⟩ := WFB_struct hw
    simp only [finish, bind, Except.bind] at h
    cases he : finishFields ext fs with
    | error e => rw [he] at h; cases h
    | ok afs =>
      rw [he] at h; cases h
      have ih := finishFields_decodeP ext fs afs (WFL_WFBs fs len hl) (Sound_struct hf) he
      simp only [decP]
      exact struct_decode len v afs (decPCols fs) ih (decPCols_len fs len hl) hv
  | .dictionary _ idx vals index, a, hw, hf, h => by
    obtain ⟨hwi, hwv, _⟩ := WFB_dictionary hw
    obtain ⟨hfi, hfv, hkeys⟩ := Sound_dictionary hf
    simp only [finish, bind, Except.bind] at h
    cases hei : finish ext idx with
    | error e => rw [hei] at h; cases h
    | ok ka =>
      rw [hei] at h
      cases hev : finish ext vals with
      | error e => rw [hev] at h; cases h
      | ok va =>
        rw [hev] at h
        dsimp only at h
        have ihk := finish_decodeP ext idx ka hwi hfi hei
        have ihv := finish_decodeP ext vals va hwv hfv hev
        simp only [decP]
        split at h
        · -- placeholder branch
          rename_i hc
          have hnp : needsPlaceholder idx index = true := hc
          simp only [dictVals, hnp, if_true] at hkeys ⊢
          split at h
          · cases h
          · cases h
            exact dictionary_decode ka _ (decP idx) _ _ ihk
              (fun j hj => placeholder_slots ext vals va hwv hev ihv j hj) hkeys
        · rename_i hc
          have hnp : needsPlaceholder idx index = false := by
            simpa [needsPlaceholder] using hc
          simp only [dictVals, hnp] at hkeys ⊢
          cases h
          refine dictionary_decode ka va (decP idx) (decP vals) _ ihk ?_ hkeys
          intro j hj
          simp only [Bool.false_eq_true, if_false] at hj
          rw [ihv, slot_map_ok _ j hj, getD_eq_getElem _ j _ hj]
  | .union _ fs types offs cur, a, hw, hf, h => by
    obtain ⟨hlen, hwu, hr⟩ := WFB_union hw
    simp only [finish, bind, Except.bind] at h
    cases he : finishUFields ext fs 0 with
    | error e => rw [he] at h; cases h
    | ok afs =>
      rw [he] at h; cases h
      obtain ⟨hids, hcols⟩ := finishUFields_decodeP ext fs 0 afs (WFU_WFBs fs cur hwu) (Sound_union hf) he
      simp only [decP]
      refine union_decode types offs afs (decPCols fs) ?_ hcols hlen ?_
      · rw [hids, decPCols_length]; simp
      · intro i t o ht ho
        obtain ⟨h0, h1, c, hc, hlt⟩ := hr i t o ht ho
        exact ⟨h0, h1, _, decPCols_get? fs _ c hc, by simpa [decP_length] using hlt⟩
theorem finishFields_decodeP (ext : Ext) : ∀ (fs : BL) (afs : ArrFields), WFBs fs → SoundL fs →
    finishFields ext fs = .ok afs → decodeFields afs = (decPCols fs).map fun c => (c.1, c.2.map .ok)
  | .nil, afs, _, _, h => by
    simp only [finishFields] at h; cases h
    simp [decodeFields, decPCols]
  | .cons b m rest, afs, hw, hf, h => by
    simp only [WFBs] at hw
    simp only [SoundL] at hf
    simp only [finishFields, bind, Except.bind] at h
    cases hb : finish ext b with
    | error e => rw [hb] at h; cases h
    | ok a =>
      rw [hb] at h
      cases hr : finishFields ext rest with
      | error e => rw [hr] at h; cases h
      | ok ar =>
        rw [hr] at h; cases h
        simp only [decodeFields, decPCols, List.map_cons, finish_decodeP ext b a hw.1 hf.1 hb,
          finishFields_decodeP ext rest ar hw.2 hf.2 hr]
theorem finishUFields_decodeP (ext : Ext) : ∀ (fs : BL) (k : Nat) (afs : ArrUFields), WFBs fs → SoundL fs →
    finishUFields ext fs k = .ok afs →
    (decodeUFields afs).map (·.1) = (List.range fs.length).map (fun i => ((k + i : Nat) : Int)) ∧
    (decodeUFields afs).map (·.2) = (decPCols fs).map fun c => c.2.map .ok
  | .nil, k, afs, _, _, h => by
    simp only [finishUFields] at h; cases h
    simp [decodeUFields, decPCols, BL.length]
  | .cons b m rest, k, afs, hw, hf, h => by
    simp only [WFBs] at hw
    simp only [SoundL] at hf
    simp only [finishUFields] at h
    split at h
    · cases h
    · simp only [bind, Except.bind] at h
      cases hb : finish ext b with
      | error e => rw [hb] at h; cases h
      | ok a =>
        rw [hb] at h
        cases hr : finishUFields ext rest (k + 1) with
        | error e => rw [hr] at h; cases h
        | ok ar =>
          rw [hr] at h; cases h
          obtain ⟨h1, h2⟩ := finishUFields_decodeP ext rest (k + 1) ar hw.2 hf.2 hr
          refine ⟨?_, ?_⟩
          · simp only [decodeUFields, List.map_cons, BL.length, h1, List.range_succ_eq_map, List.map_map]
            congr 1
            apply List.map_congr_left
            intro i _
            simp only [Function.comp]
            congr 1; omega
          · simp only [decodeUFields, decPCols, List.map_cons, h2, finish_decodeP ext b a hw.1 hf.1 hb]
end

/-! ### without dummy keys `decP` is `dec` -/

theorem Faithful_list {p large fm v offs el} (h : Faithful (.list p large fm v offs el)) : Faithful el := by
  simpa [Faithful] using h
theorem Faithful_fixedSizeList {p fm n len v cur el} (h : Faithful (.fixedSizeList p fm n len v cur el)) : Faithful el := by
  simpa [Faithful] using h
theorem Faithful_map {p mm v offs ks vs} (h : Faithful (.map p mm v offs ks vs)) : Faithful ks ∧ Faithful vs := by
  simpa [Faithful] using h
theorem Faithful_struct {p len v fs cached next seen} (h : Faithful (.struct p len v fs cached next seen)) : FaithfulL fs := by
  simpa [Faithful] using h
theorem Faithful_union {p fs types offs cur} (h : Faithful (.union p fs types offs cur)) : FaithfulL fs := by
  simpa [Faithful] using h
theorem Faithful_dictionary {p idx vals index} (h : Faithful (.dictionary p idx vals index)) :
    Faithful idx ∧ Faithful vals ∧ ∀ k ∈ dec idx, k = .null ∨ ∃ j : Nat, k = .int j ∧ j < index.length := by
  simpa [Faithful] using h
theorem Faithful_fixedSizeBinary {p n len v buf cur} (h : Faithful (.fixedSizeBinary p n len v buf cur)) : n = 0 → len = 0 := by
  simpa [Faithful] using h


theorem dictVals_getD_lt (idx vals : B) (index : List String) (vs : List LVal) (j : Nat) (h : j < vs.length) :
    (dictVals idx vals index vs).getD j .null = vs.getD j .null := by
  unfold dictVals
  split
  · simp [List.getD_eq_getElem?_getD, List.getElem?_append_left h]
  · rfl

theorem dictVals_length_ge (idx vals : B) (index : List String) (vs : List LVal) :
    vs.length ≤ (dictVals idx vals index vs).length := by
  unfold dictVals
  split
  · simp
  · exact Nat.le_refl _

mutual
theorem decP_eq_dec : ∀ (b : B), WFB b → Faithful b → decP b = dec b
  | .null _ _, _, _ => rfl
  | .unknownVariant _, _, _ => rfl
  | .leaf _ _ _ _, _, _ => rfl
  | .bytes _ _ _ _ _, _, _ => rfl
  | .bytesView _ _ _ _ _, _, _ => rfl
  | .fixedSizeBinary _ _ _ _ _ _, _, _ => rfl
  | .list _ _ _ _ _ el, hw, hf => by
    simp only [decP, dec, decP_eq_dec el (WFB_list hw).2.2 (Faithful_list hf)]
  | .fixedSizeList _ _ _ _ _ _ el, hw, hf => by
    simp only [decP, dec, decP_eq_dec el (WFB_fixedSizeList hw).2.2 (Faithful_fixedSizeList hf)]
  | .map _ _ _ _ ks vs, hw, hf => by
    simp only [decP, dec, decP_eq_dec ks (WFB_map hw).2.2.2.1 (Faithful_map hf).1,
      decP_eq_dec vs (WFB_map hw).2.2.2.2 (Faithful_map hf).2]
  | .struct _ len _ fs _ _ _, hw, hf => by
    simp only [decP, dec, decPCols_eq_decCols fs (WFL_WFBs fs len (WFB_struct hw).2) (Faithful_struct hf)]
  | .dictionary _ idx vals index, hw, hf => by
    obtain ⟨hwi, hwv, hlen⟩ := WFB_dictionary hw
    obtain ⟨hfi, hfv, hkeys⟩ := Faithful_dictionary hf
    simp only [decP, dec, decP_eq_dec idx hwi hfi, decP_eq_dec vals hwv hfv]
    apply List.map_congr_left
    intro k hk
    rcases hkeys k hk with rfl | ⟨j, rfl, hj⟩
    · rfl
    · simp only [Int.toNat_natCast]
      exact dictVals_getD_lt idx vals index (dec vals) j (by omega)
  | .union _ fs _ _ cur, hw, hf => by
    simp only [decP, dec, decPCols_eq_decCols fs (WFU_WFBs fs cur (WFB_union hw).2.1) (Faithful_union hf)]
theorem decPCols_eq_decCols : ∀ (fs : BL), WFBs fs → FaithfulL fs → decPCols fs = decCols fs
  | .nil, _, _ => rfl
  | .cons b m r, hw, hf => by
    simp only [WFBs] at hw
    simp only [FaithfulL] at hf
    simp only [decPCols, decCols, decP_eq_dec b hw.1 hf.1, decPCols_eq_decCols r hw.2 hf.2]
end

mutual
theorem Faithful_Sound : ∀ (b : B), WFB b → Faithful b → Sound b
  | .null _ _, _, _ => by simp [Sound]
  | .unknownVariant _, _, _ => by simp [Sound]
  | .leaf _ _ _ _, _, _ => by simp [Sound]
  | .bytes _ _ _ _ _, _, _ => by simp [Sound]
  | .bytesView _ _ _ _ _, _, _ => by simp [Sound]
  | .fixedSizeBinary _ _ _ _ _ _, _, hf => by simpa [Sound, Faithful] using hf
  | .list _ _ _ _ _ el, hw, hf => by
    simp only [Sound]; exact Faithful_Sound el (WFB_list hw).2.2 (Faithful_list hf)
  | .fixedSizeList _ _ _ _ _ _ el, hw, hf => by
    simp only [Sound]; exact Faithful_Sound el (WFB_fixedSizeList hw).2.2 (Faithful_fixedSizeList hf)
  | .map _ _ _ _ ks vs, hw, hf => by
    simp only [Sound]
    exact ⟨Faithful_Sound ks (WFB_map hw).2.2.2.1 (Faithful_map hf).1,
      Faithful_Sound vs (WFB_map hw).2.2.2.2 (Faithful_map hf).2⟩
  | .struct _ len _ fs _ _ _, hw, hf => by
    simp only [Sound]; exact FaithfulL_SoundL fs (WFL_WFBs fs len (WFB_struct hw).2) (Faithful_struct hf)
  | .dictionary _ idx vals index, hw, hf => by
    obtain ⟨hwi, hwv, hlen⟩ := WFB_dictionary hw
    obtain ⟨hfi, hfv, hkeys⟩ := Faithful_dictionary hf
    simp only [Sound]
    refine ⟨Faithful_Sound idx hwi hfi, Faithful_Sound vals hwv hfv, ?_⟩
    intro k hk
    rw [decP_eq_dec idx hwi hfi] at hk
    rcases hkeys k hk with h | ⟨j, h, hj⟩
    · exact Or.inl h
    · refine Or.inr ⟨j, h, ?_⟩
      have := dictVals_length_ge idx vals index (decP vals)
      rw [decP_length] at this
      omega
  | .union _ fs _ _ cur, hw, hf => by
    simp only [Sound]; exact FaithfulL_SoundL fs (WFU_WFBs fs cur (WFB_union hw).2.1) (Faithful_union hf)
theorem FaithfulL_SoundL : ∀ (fs : BL), WFBs fs → FaithfulL fs → SoundL fs
  | .nil, _, _ => trivial
  | .cons b m r, hw, hf => by
    simp only [WFBs] at hw
    simp only [FaithfulL] at hf
    simp only [SoundL]
    exact ⟨Faithful_Sound b hw.1 hf.1, FaithfulL_SoundL r hw.2 hf.2⟩
end

/-- **the finished array means exactly what the builder state holds** -/
theorem finish_decode (ext : Ext) (b : B) (a : Arr) (hw : WFB b) (hf : Faithful b) (h : finish ext b = .ok a) :
    decodeAll a = (dec b).map .ok := by
  rw [finish_decodeP ext b a hw (Faithful_Sound b hw hf) h, decP_eq_dec b hw hf]

theorem finishFields_decode (ext : Ext) (fs : BL) (afs : ArrFields) (hw : WFBs fs) (hf : FaithfulL fs)
    (h : finishFields ext fs = .ok afs) : decodeFields afs = (decCols fs).map fun c => (c.1, c.2.map .ok) := by
  rw [finishFields_decodeP ext fs afs hw (FaithfulL_SoundL fs hw hf) h, decPCols_eq_decCols fs hw hf]

/-- every slot of a finished array can be read, and there are as many as the state has rows -/
theorem finish_slots (ext : Ext) (b : B) (a : Arr) (hw : WFB b) (hs : Sound b) (h : finish ext b = .ok a) :
    (decodeAll a).length = (dec b).length ∧ ∀ r ∈ decodeAll a, r.isOk = true := by
  have hd := finish_decodeP ext b a hw hs h
  refine ⟨by rw [hd, List.length_map, decP_length], ?_⟩
  intro r hr
  rw [hd] at hr
  obtain ⟨x, _, rfl⟩ := List.mem_map.mp hr
  rfl

end SaModel.Lemmas.C03
