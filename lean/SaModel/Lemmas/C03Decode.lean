import SaModel.Build.Inv
import SaModel.Lemmas.Bits
/-
List-level facts used by `finish_decode` (Lemmas/C03Finish.lean): reading a validity-masked column, offset
pairs, `range` over successfully decoded children, `mapM` over columns, type-id lookup.
Nothing here mentions `finish`; everything is about the oracle's combinators (`withValidity`, `range`, `slot`,
`allOk`, `indexOfTypeId`) against the abstraction function's (`maskNull`, `pairs`, `sliceL`).
-/
namespace SaModel.Lemmas.C03
open SaModel SaModel.Build SaModel.Spec SaModel.Lemmas.Bits

/-! ### validity -/

theorem maskNull_length (v : Validity) (n : Nat) (xs : List LVal) (hv : VLen v n) (hx : xs.length = n) :
    (maskNull v xs).length = n := by
  cases v with
  | none => simpa [maskNull] using hx
  | some bits => simp [maskNull, hv bits rfl, hx]

/-- validity bit of a finished bitmap: the abstract bit (rows without bitmap are valid) -/
theorem isValid_finishValidity (v : Validity) (n i : Nat) (hv : VLen v n) (hi : i < n) :
    isValid (finishValidity v) i = .ok (match v with | none => true | some bits => bits.getD i false) := by
  cases v with
  | none => rfl
  | some bits =>
    have hl : bits.length = n := hv bits rfl
    simp only [finishValidity, Option.map_some, isValid]
    rw [getBit_packBits bits i (by omega)]
    simp [List.getD_eq_getElem?_getD, hl, hi]

/-- **a validity-masked column, read slot by slot.**  `p i` is the payload of slot `i`; it only has to be what the
state holds (`xs[i]`) — under a clear validity bit it is not even looked at. -/
theorem map_withValidity (v : Validity) (n : Nat) (hv : VLen v n) (p : Nat → R LVal) (xs : List LVal)
    (hx : xs.length = n) (hp : ∀ i (h : i < n), p i = .ok (xs[i]'(by omega))) :
    (List.range n).map (fun i => withValidity (finishValidity v) i (p i)) = (maskNull v xs).map .ok := by
  apply List.ext_getElem
  · simp [maskNull_length v n xs hv hx]
  · intro i h1 h2
    have hi : i < n := by simpa using h1
    simp only [List.getElem_map, List.getElem_range]
    simp only [withValidity, bind, Except.bind]
    rw [isValid_finishValidity v n i hv hi]
    cases v with
    | none => simp [maskNull, hp i hi]
    | some bits =>
      have hl : bits.length = n := hv bits rfl
      have hb : bits.getD i false = bits[i]'(by omega) := by
        rw [List.getD_eq_getElem?_getD, List.getElem?_eq_getElem (by omega)]; rfl
      simp only [maskNull, List.getElem_zipWith, hb]
      cases bits[i]'(by omega)
      · simp [pure, Except.pure]
      · simp [hp i hi]

/-! ### offsets -/

theorem pairs_length (offs : List Int) : (pairs offs).length = offs.length - 1 := by
  simp [pairs]

theorem pairs_getElem (offs : List Int) (i : Nat) (h : i < (pairs offs).length) :
    (pairs offs)[i] = (offs[i]'(by rw [pairs_length] at h; omega), offs[i + 1]'(by rw [pairs_length] at h; omega)) := by
  simp [pairs]

/-- consecutive offsets of a well-formed offset list delimit a range inside the child -/
theorem OffsOK_pair (offs : List Int) (n : Nat) (h : OffsOK offs n) (i : Nat) (hi : i + 1 < offs.length) :
    0 ≤ offs[i] ∧ offs[i] ≤ offs[i + 1] ∧ offs[i + 1] ≤ (n : Int) := by
  obtain ⟨hh, hl, hp⟩ := h
  rw [List.pairwise_iff_getElem] at hp
  have h0 : offs[0]'(by omega) = 0 := by
    have : offs[0]? = some 0 := by rw [← List.head?_eq_getElem?]; exact hh
    simpa [List.getElem?_eq_getElem (show 0 < offs.length by omega)] using this
  have hlast : offs[offs.length - 1]'(by omega) = (n : Int) := by
    rw [List.getLast?_eq_getElem?] at hl
    simpa [List.getElem?_eq_getElem (show offs.length - 1 < offs.length by omega)] using hl
  refine ⟨?_, hp i (i + 1) (by omega) (by omega) (by omega), ?_⟩
  · by_cases hz : i = 0
    · subst hz; omega
    · have := hp 0 i (by omega) (by omega) (by omega); omega
  · by_cases hz : i + 1 = offs.length - 1
    · simp only [hz]; omega
    · have := hp (i + 1) (offs.length - 1) (by omega) (by omega) (by omega); omega

theorem getD_eq_getElem {α} (l : List α) (i : Nat) (d : α) (h : i < l.length) : l.getD i d = l[i] := by
  simp [List.getD_eq_getElem?_getD, h]

/-! ### children that decoded successfully -/

theorem allOk_map_ok (xs : List LVal) : allOk (xs.map .ok) = .ok xs := by
  induction xs with
  | nil => rfl
  | cons x r ih => simp [allOk, ih, bind, Except.bind, pure, Except.pure]

theorem range_map_ok (xs : List LVal) (s e : Int) (h0 : 0 ≤ s) (h1 : s ≤ e) (h2 : e ≤ (xs.length : Int)) :
    range (xs.map .ok) s e = .ok (sliceL xs s e) := by
  unfold range
  simp only [List.length_map, h0, h1, h2, and_self, if_true]
  rw [← List.map_drop, ← List.map_take, allOk_map_ok]
  rfl

theorem slot_map_ok (xs : List LVal) (i : Nat) (h : i < xs.length) : slot (xs.map .ok) i = .ok xs[i] := by
  simp [slot, h]

/-- `mapM` of a function that succeeds on every element -/
theorem mapM_ok {α β} (l : List α) (f : α → R β) (g : α → β) (h : ∀ x ∈ l, f x = .ok (g x)) :
    l.mapM f = .ok (l.map g) := by
  induction l with
  | nil => rfl
  | cons x r ih =>
    rw [List.mapM_cons, h x (by simp), ih (fun y hy => h y (by simp [hy]))]
    rfl

/-! ### union type ids -/

theorem indexOfTypeId_go_range (m k acc : Nat) (p : Nat) (hp : p < m) :
    indexOfTypeId.go ((k + p : Nat) : Int) ((List.range m).map fun i => ((k + i : Nat) : Int)) acc = some (acc + p) := by
  induction m generalizing k acc p with
  | zero => omega
  | succ m ih =>
    rw [List.range_succ_eq_map]
    simp only [List.map_cons, List.map_map, indexOfTypeId.go, Nat.add_zero]
    cases p with
    | zero => simp
    | succ p =>
      have hne : ¬ ((k : Int) = ((k + (p + 1) : Nat) : Int)) := by omega
      have : (((k : Nat) : Int) == ((k + (p + 1) : Nat) : Int)) = false := by simpa using hne
      simp only [this, Bool.false_eq_true, if_false]
      have hf : ((fun i => ((k + i : Nat) : Int)) ∘ Nat.succ) = fun i => ((k + 1 + i : Nat) : Int) := by
        funext i; simp only [Function.comp]; congr 1; omega
      rw [hf]
      have := ih (k + 1) (acc + 1) p (by omega)
      have e1 : k + 1 + p = k + (p + 1) := by omega
      have e2 : acc + 1 + p = acc + (p + 1) := by omega
      rw [e1, e2] at this
      exact this

/-- consecutive type ids `0 … m-1`: id `t` sits at position `t` -/
theorem indexOfTypeId_range (m : Nat) (t : Int) (h0 : 0 ≤ t) (h1 : t.toNat < m) :
    indexOfTypeId ((List.range m).map fun i => ((i : Nat) : Int)) t = some t.toNat := by
  have := indexOfTypeId_go_range m 0 0 t.toNat h1
  simp only [Nat.zero_add] at this
  have ht : ((t.toNat : Nat) : Int) = t := by omega
  rw [ht] at this
  exact this

end SaModel.Lemmas.C03
