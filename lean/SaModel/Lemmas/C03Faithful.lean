import SaModel.Lemmas.C03Shape
/-
Where `Faithful` / `Sound` come from.

`ShapeOK b` (no `FixedSizeBinary(0)`; the keys builder of every dictionary is an integer leaf) is a property of the
builder's shape: it only depends on `takeRest b`, and it holds of the builder created for a data type satisfying
`SchemaOK`.  `StrictDict b` is the strict dictionary clause of the state invariant `WFB` (no key designates a
missing value), as a predicate of its own; `WFB_StrictDict` extracts it from `WFB`.

    Faithful_of_strict : StrictDict b → ShapeOK b → Faithful b
-/
namespace SaModel.Lemmas.C03
open SaModel SaModel.Build SaModel.Spec

def isIntLeaf : B → Bool
  | .leaf _ (.int _) _ _ => true
  | _ => false

mutual
/-- no `FixedSizeBinary(0)`; dictionary keys are stored by an integer leaf builder -/
def ShapeOK : B → Prop
  | .fixedSizeBinary _ n _ _ _ _ => n ≠ 0
  | .list _ _ _ _ _ el => ShapeOK el
  | .fixedSizeList _ _ _ _ _ _ el => ShapeOK el
  | .map _ _ _ _ ks vs => ShapeOK ks ∧ ShapeOK vs
  | .struct _ _ _ fs _ _ _ => ShapeOKL fs
  | .dictionary _ idx vals _ => isIntLeaf idx = true ∧ ShapeOK vals
  | .union _ fs _ _ _ => ShapeOKL fs
  | _ => True
def ShapeOKL : BL → Prop
  | .nil => True
  | .cons b _ r => ShapeOK b ∧ ShapeOKL r
end

mutual
/-- no dictionary key designates a value the dictionary does not have -/
def StrictDict : B → Prop
  | .list _ _ _ _ _ el => StrictDict el
  | .fixedSizeList _ _ _ _ _ _ el => StrictDict el
  | .map _ _ _ _ ks vs => StrictDict ks ∧ StrictDict vs
  | .struct _ _ _ fs _ _ _ => StrictDictL fs
  | .dictionary _ idx vals index =>
    StrictDict vals ∧ ∀ k ∈ dec idx, ∀ j : Int, k = .int j → 0 ≤ j ∧ j.toNat < index.length
  | .union _ fs _ _ _ => StrictDictL fs
  | _ => True
def StrictDictL : BL → Prop
  | .nil => True
  | .cons b _ r => StrictDict b ∧ StrictDictL r
end

theorem isIntLeaf_takeRest (b : B) : isIntLeaf (takeRest b) = isIntLeaf b := by
  cases b <;> simp only [takeRest, isIntLeaf]
  rename_i k _ _
  cases k <;> rfl

mutual
theorem ShapeOK_takeRest : ∀ (b : B), ShapeOK (takeRest b) ↔ ShapeOK b
  | .null _ _ => by simp only [takeRest, ShapeOK]
  | .unknownVariant _ => by simp only [takeRest, ShapeOK]
  | .leaf _ _ _ _ => by simp only [takeRest, ShapeOK]
  | .bytes _ _ _ _ _ => by simp only [takeRest, ShapeOK]
  | .bytesView _ _ _ _ _ => by simp only [takeRest, ShapeOK]
  | .fixedSizeBinary _ _ _ _ _ _ => by simp only [takeRest, ShapeOK]
  | .list _ _ _ _ _ el => by simp only [takeRest, ShapeOK, ShapeOK_takeRest el]
  | .fixedSizeList _ _ _ _ _ _ el => by simp only [takeRest, ShapeOK, ShapeOK_takeRest el]
  | .map _ _ _ _ ks vs => by simp only [takeRest, ShapeOK, ShapeOK_takeRest ks, ShapeOK_takeRest vs]
  | .struct _ _ _ fs _ _ _ => by simp only [takeRest, ShapeOK, ShapeOKL_takeRestAll fs]
  | .dictionary _ idx vals _ => by simp only [takeRest, ShapeOK, isIntLeaf_takeRest, ShapeOK_takeRest vals]
  | .union _ fs _ _ _ => by simp only [takeRest, ShapeOK, ShapeOKL_takeRestAll fs]
theorem ShapeOKL_takeRestAll : ∀ (bl : BL), ShapeOKL (takeRestAll bl) ↔ ShapeOKL bl
  | .nil => by simp only [takeRestAll]
  | .cons b _ r => by simp only [takeRestAll, ShapeOKL, ShapeOK_takeRest b, ShapeOKL_takeRestAll r]
end

theorem ShapeOK_of_takeRest_eq (b b' : B) (h : takeRest b' = takeRest b) (hb : ShapeOK b) : ShapeOK b' := by
  rw [← ShapeOK_takeRest b', h, ShapeOK_takeRest b]; exact hb

/-! ### the schema side -/

mutual
/-- no `FixedSizeBinary(0)` (known finding).  (Integer dictionary key types are not demanded here: `build_builder`
refuses other key types — repo fix 7359431 — and `BuiltFor` carries `isIntDT k`.) -/
def SchemaOK : DataType → Prop
  | .fixedSizeBinary n => n ≠ 0
  | .list f => SchemaOKF f
  | .largeList f => SchemaOKF f
  | .fixedSizeList f _ => SchemaOKF f
  | .map f _ => SchemaOKF f
  | .struct fs => SchemaOKFs fs
  | .dictionary _ v => SchemaOK v
  | .union fs _ => SchemaOKU fs
  | _ => True
def SchemaOKF : Field → Prop
  | .mk _ dt _ _ => SchemaOK dt
def SchemaOKFs : Fields → Prop
  | .nil => True
  | .cons f r => SchemaOKF f ∧ SchemaOKFs r
def SchemaOKU : UFields → Prop
  | .nil => True
  | .cons _ f r => SchemaOKF f ∧ SchemaOKU r
end

theorem SchemaOKF_iff (f : Field) : SchemaOKF f ↔ SchemaOK f.dataType := by
  cases f; simp only [SchemaOKF, Field.dataType]

theorem isIntLeaf_of_builtFor (b : B) (k : DataType) (nl : Bool) (hk : isIntDT k = true) (hb : BuiltFor k nl b) :
    isIntLeaf b = true := by
  cases b with
  | leaf p kind v vals =>
    simp only [BuiltFor] at hb
    obtain ⟨rfl, _⟩ := hb
    cases kind with
    | int t => rfl
    | _ => simp [leafDT, isIntDT] at hk
  | null p len => simp only [BuiltFor] at hb; subst hb; simp [isIntDT] at hk
  | unknownVariant p => simp only [BuiltFor] at hb; subst hb; simp [isIntDT] at hk
  | bytes p ty v offs data =>
    simp only [BuiltFor] at hb; obtain ⟨rfl, _⟩ := hb; cases ty <;> simp [bytesDT, isIntDT] at hk
  | bytesView p ty v views buf =>
    simp only [BuiltFor] at hb; obtain ⟨rfl, _⟩ := hb; cases ty <;> simp [viewDT, isIntDT] at hk
  | fixedSizeBinary p n len v buf cur =>
    simp only [BuiltFor] at hb; obtain ⟨rfl, _⟩ := hb; simp [isIntDT] at hk
  | list p large fm v offs el =>
    simp only [BuiltFor] at hb; obtain ⟨f, rfl, _⟩ := hb; cases large <;> simp [isIntDT] at hk
  | fixedSizeList p fm n len v cur el =>
    simp only [BuiltFor] at hb; obtain ⟨f, rfl, _⟩ := hb; simp [isIntDT] at hk
  | map p mm v offs ks vs =>
    simp only [BuiltFor] at hb; obtain ⟨_, _, _, _, _, _, rfl, _⟩ := hb; simp [isIntDT] at hk
  | struct p len v fs c n s =>
    simp only [BuiltFor] at hb; obtain ⟨_, rfl, _⟩ := hb; simp [isIntDT] at hk
  | dictionary p idx vals index =>
    simp only [BuiltFor] at hb; obtain ⟨_, _, rfl, _⟩ := hb; simp [isIntDT] at hk
  | union p fs t o c =>
    simp only [BuiltFor] at hb; obtain ⟨_, _, rfl, _⟩ := hb; simp [isIntDT] at hk

mutual
/-- the builder of a `SchemaOK` data type is `ShapeOK` -/
theorem BuiltFor_ShapeOK : ∀ (b : B) (dt : DataType) (nl : Bool), BuiltFor dt nl b → SchemaOK dt → ShapeOK b
  | .null _ _, _, _, _, _ => by simp only [ShapeOK]
  | .unknownVariant _, _, _, _, _ => by simp only [ShapeOK]
  | .leaf _ _ _ _, _, _, _, _ => by simp only [ShapeOK]
  | .bytes _ _ _ _ _, _, _, _, _ => by simp only [ShapeOK]
  | .bytesView _ _ _ _ _, _, _, _, _ => by simp only [ShapeOK]
  | .fixedSizeBinary _ n _ _ _ _, dt, nl, hb, hs => by
    simp only [BuiltFor] at hb
    obtain ⟨rfl, _⟩ := hb
    simp only [SchemaOK] at hs
    simp only [ShapeOK]
    omega
  | .list _ large _ _ _ el, dt, nl, hb, hs => by
    simp only [BuiltFor] at hb
    obtain ⟨f, rfl, _, _, hbe⟩ := hb
    simp only [ShapeOK]
    refine BuiltFor_ShapeOK el _ _ hbe ?_
    cases large <;> simp only [Bool.false_eq_true, if_false, if_true, SchemaOK] at hs <;> exact (SchemaOKF_iff f).mp hs
  | .fixedSizeList _ _ _ _ _ _ el, dt, nl, hb, hs => by
    simp only [BuiltFor] at hb
    obtain ⟨f, rfl, _, _, hbe⟩ := hb
    simp only [SchemaOK] at hs
    simp only [ShapeOK]
    exact BuiltFor_ShapeOK el _ _ hbe ((SchemaOKF_iff f).mp hs)
  | .map _ _ _ _ ks vs, dt, nl, hb, hs => by
    simp only [BuiltFor] at hb
    obtain ⟨ename, kf, vf, sorted, enl, emd, rfl, _, _, hbk, hbv⟩ := hb
    simp only [SchemaOK, SchemaOKF, SchemaOKFs, and_true] at hs
    simp only [ShapeOK]
    exact ⟨BuiltFor_ShapeOK ks _ _ hbk ((SchemaOKF_iff kf).mp hs.1),
      BuiltFor_ShapeOK vs _ _ hbv ((SchemaOKF_iff vf).mp hs.2)⟩
  | .struct _ _ _ fs _ _ _, dt, nl, hb, hs => by
    simp only [BuiltFor] at hb
    obtain ⟨fields, rfl, _, hbl⟩ := hb
    simp only [SchemaOK] at hs
    simp only [ShapeOK]
    exact BuiltForL_ShapeOKL fs fields hbl hs
  | .dictionary _ idx vals _, dt, nl, hb, hs => by
    simp only [BuiltFor] at hb
    obtain ⟨k, vdt, rfl, hk, hbi, hbv⟩ := hb
    simp only [SchemaOK] at hs
    simp only [ShapeOK]
    exact ⟨isIntLeaf_of_builtFor idx k nl hk hbi, BuiltFor_ShapeOK vals _ _ hbv hs⟩
  | .union _ fs _ _ _, dt, nl, hb, hs => by
    simp only [BuiltFor] at hb
    obtain ⟨ufs, mode, rfl, hbu⟩ := hb
    simp only [SchemaOK] at hs
    simp only [ShapeOK]
    exact BuiltForU_ShapeOKL fs ufs 0 hbu hs
theorem BuiltForL_ShapeOKL : ∀ (bl : BL) (fs : Fields), BuiltForL fs bl → SchemaOKFs fs → ShapeOKL bl
  | .nil, _, _, _ => trivial
  | .cons b m r, .nil, hb, _ => by simp [BuiltForL] at hb
  | .cons b m r, .cons f fr, hb, hs => by
    simp only [BuiltForL] at hb
    simp only [SchemaOKFs] at hs
    simp only [ShapeOKL]
    exact ⟨BuiltFor_ShapeOK b _ _ hb.2.1 ((SchemaOKF_iff f).mp hs.1), BuiltForL_ShapeOKL r fr hb.2.2 hs.2⟩
theorem BuiltForU_ShapeOKL : ∀ (bl : BL) (ufs : UFields) (k : Nat), BuiltForU ufs bl k → SchemaOKU ufs → ShapeOKL bl
  | .nil, _, _, _, _ => trivial
  | .cons b m r, .nil, _, hb, _ => by simp [BuiltForU] at hb
  | .cons b m r, .cons t f fr, k, hb, hs => by
    simp only [BuiltForU] at hb
    simp only [SchemaOKU] at hs
    simp only [ShapeOKL]
    exact ⟨BuiltFor_ShapeOK b _ _ hb.2.2.1 ((SchemaOKF_iff f).mp hs.1), BuiltForU_ShapeOKL r fr (k + 1) hb.2.2.2 hs.2⟩
end

/-! ### `Faithful` from the strict dictionary clause -/

theorem intLeaf_keys (idx : B) (h : isIntLeaf idx = true) : ∀ k ∈ dec idx, k = .null ∨ ∃ j : Int, k = .int j := by
  cases idx with
  | leaf p kind v vals =>
    cases kind with
    | int t => exact leaf_int_keys p t v vals
    | _ => simp [isIntLeaf] at h
  | _ => simp [isIntLeaf] at h

theorem intLeaf_Faithful (idx : B) (h : isIntLeaf idx = true) : Faithful idx := by
  cases idx with
  | leaf p kind v vals => simp only [Faithful]
  | _ => simp [isIntLeaf] at h

mutual
theorem Faithful_of_strict : ∀ (b : B), StrictDict b → ShapeOK b → Faithful b
  | .null _ _, _, _ => by simp only [Faithful]
  | .unknownVariant _, _, _ => by simp only [Faithful]
  | .leaf _ _ _ _, _, _ => by simp only [Faithful]
  | .bytes _ _ _ _ _, _, _ => by simp only [Faithful]
  | .bytesView _ _ _ _ _, _, _ => by simp only [Faithful]
  | .fixedSizeBinary _ n _ _ _ _, _, ho => by
    simp only [ShapeOK] at ho
    simp only [Faithful]
    intro h; exact absurd h ho
  | .list _ _ _ _ _ el, hs, ho => by
    simp only [StrictDict] at hs; simp only [ShapeOK] at ho; simp only [Faithful]
    exact Faithful_of_strict el hs ho
  | .fixedSizeList _ _ _ _ _ _ el, hs, ho => by
    simp only [StrictDict] at hs; simp only [ShapeOK] at ho; simp only [Faithful]
    exact Faithful_of_strict el hs ho
  | .map _ _ _ _ ks vs, hs, ho => by
    simp only [StrictDict] at hs; simp only [ShapeOK] at ho; simp only [Faithful]
    exact ⟨Faithful_of_strict ks hs.1 ho.1, Faithful_of_strict vs hs.2 ho.2⟩
  | .struct _ _ _ fs _ _ _, hs, ho => by
    simp only [StrictDict] at hs; simp only [ShapeOK] at ho; simp only [Faithful]
    exact FaithfulL_of_strict fs hs ho
  | .dictionary _ idx vals index, hs, ho => by
    simp only [StrictDict] at hs; simp only [ShapeOK] at ho; simp only [Faithful]
    exact ⟨intLeaf_Faithful idx ho.1, Faithful_of_strict vals hs.1 ho.2,
      faithful_keys_of_strict (dec idx) index.length (intLeaf_keys idx ho.1) hs.2⟩
  | .union _ fs _ _ _, hs, ho => by
    simp only [StrictDict] at hs; simp only [ShapeOK] at ho; simp only [Faithful]
    exact FaithfulL_of_strict fs hs ho
theorem FaithfulL_of_strict : ∀ (bl : BL), StrictDictL bl → ShapeOKL bl → FaithfulL bl
  | .nil, _, _ => trivial
  | .cons b _ r, hs, ho => by
    simp only [StrictDictL] at hs; simp only [ShapeOKL] at ho; simp only [FaithfulL]
    exact ⟨Faithful_of_strict b hs.1 ho.1, FaithfulL_of_strict r hs.2 ho.2⟩
end

/-! ### the strict dictionary clause out of the state invariant -/

mutual
/-- `StrictDict` is part of `WFB` (Build/Inv.lean: no key designates a value the dictionary does not have) -/
theorem WFB_StrictDict : ∀ (b : B), WFB b → StrictDict b
  | .null _ _, _ => by simp only [StrictDict]
  | .unknownVariant _, _ => by simp only [StrictDict]
  | .leaf _ _ _ _, _ => by simp only [StrictDict]
  | .bytes _ _ _ _ _, _ => by simp only [StrictDict]
  | .bytesView _ _ _ _ _, _ => by simp only [StrictDict]
  | .fixedSizeBinary _ _ _ _ _ _, _ => by simp only [StrictDict]
  | .list _ _ _ _ _ el, h => by simp only [StrictDict]; exact WFB_StrictDict el (WFB_list h).2.2
  | .fixedSizeList _ _ _ _ _ _ el, h => by simp only [StrictDict]; exact WFB_StrictDict el (WFB_fixedSizeList h).2.2
  | .map _ _ _ _ ks vs, h => by
    simp only [StrictDict]
    exact ⟨WFB_StrictDict ks (WFB_map h).2.2.2.1, WFB_StrictDict vs (WFB_map h).2.2.2.2⟩
  | .struct _ len _ fs _ _ _, h => by
    simp only [StrictDict]; exact WFBs_StrictDictL fs (WFL_WFBs fs len (WFB_struct h).2)
  | .dictionary _ idx vals index, h => by
    simp only [StrictDict]
    refine ⟨WFB_StrictDict vals (WFB_dictionary h).2.1, ?_⟩
    simp only [WFB] at h
    exact h.2.2.2.2.1
  | .union _ fs _ _ cur, h => by
    simp only [StrictDict]; exact WFBs_StrictDictL fs (WFU_WFBs fs cur (WFB_union h).2.1)
theorem WFBs_StrictDictL : ∀ (fs : BL), WFBs fs → StrictDictL fs
  | .nil, _ => trivial
  | .cons b _ r, h => by
    simp only [WFBs] at h; simp only [StrictDictL]
    exact ⟨WFB_StrictDict b h.1, WFBs_StrictDictL r h.2⟩
end

end SaModel.Lemmas.C03
