import SaModel.Lemmas.C03LRNew
import SaModel.Lemmas.FloatBounds
/-
`WFX` of the final builder state from the push invariants:
   PX root (unconditional) + LR root (ExtOK, FloatOK, well-formed rows) + ViewSmall root (view buffers < 4 GiB) → WFX root
-/
namespace SaModel.Lemmas.C03
open SaModel SaModel.Build SaModel.Spec

mutual
/-- every bytes-view buffer is below 4 GiB (descriptors hold 32-bit lengths and offsets) -/
def ViewSmall : B → Prop
  | .bytesView _ _ _ _ buf => buf.length < 2 ^ 32
  | .list _ _ _ _ _ el => ViewSmall el
  | .fixedSizeList _ _ _ _ _ _ el => ViewSmall el
  | .map _ _ _ _ ks vs => ViewSmall ks ∧ ViewSmall vs
  | .struct _ _ _ fs _ _ _ => ViewSmallL fs
  | .dictionary _ idx vals _ => ViewSmall idx ∧ ViewSmall vals
  | .union _ fs _ _ _ => ViewSmallL fs
  | _ => True
def ViewSmallL : BL → Prop
  | .nil => True
  | .cons b _ r => ViewSmall b ∧ ViewSmallL r
end

mutual
theorem VU_of_PX : ∀ (b : B), PX b → ViewSmall b → VU b
  | .null _ _, _, _ => by simp only [VU]
  | .unknownVariant _, _, _ => by simp only [VU]
  | .leaf _ _ _ _, _, _ => by simp only [VU]
  | .bytes _ _ _ _ _, _, _ => by simp only [VU]
  | .bytesView _ _ _ _ _, hp, hs => by
    simp only [PX] at hp; simp only [ViewSmall] at hs; simp only [VU]
    intro hty; exact hp.2 hty hs
  | .fixedSizeBinary _ _ _ _ _ _, _, _ => by simp only [VU]
  | .list _ _ _ _ _ el, hp, hs => by
    simp only [PX] at hp; simp only [ViewSmall] at hs; simp only [VU]; exact VU_of_PX el hp.2 hs
  | .fixedSizeList _ _ _ _ _ _ el, hp, hs => by
    simp only [PX] at hp; simp only [ViewSmall] at hs; simp only [VU]; exact VU_of_PX el hp hs
  | .map _ _ _ _ ks vs, hp, hs => by
    simp only [PX] at hp; simp only [ViewSmall] at hs; simp only [VU]
    exact ⟨VU_of_PX ks hp.2.1 hs.1, VU_of_PX vs hp.2.2 hs.2⟩
  | .struct _ _ _ fs _ _ _, hp, hs => by
    simp only [PX] at hp; simp only [ViewSmall] at hs; simp only [VU]; exact VUL_of_PXL fs hp hs
  | .dictionary _ idx vals _, hp, hs => by
    simp only [PX] at hp; simp only [ViewSmall] at hs; simp only [VU]
    exact ⟨VU_of_PX idx hp.1 hs.1, VU_of_PX vals hp.2 hs.2⟩
  | .union _ fs _ _ _, hp, hs => by
    simp only [PX] at hp; simp only [ViewSmall] at hs; simp only [VU]; exact VUL_of_PXL fs hp hs
theorem VUL_of_PXL : ∀ (fs : BL), PXL fs → ViewSmallL fs → VUL fs
  | .nil, _, _ => trivial
  | .cons b _ r, hp, hs => by
    simp only [PXL] at hp; simp only [ViewSmallL] at hs; simp only [VUL]
    exact ⟨VU_of_PX b hp.1 hs.1, VUL_of_PXL r hp.2 hs.2⟩
end

/-- the IEEE conversions of `Basic/Float.lean` return bit patterns of the target width (Lemmas/FloatBounds.lean) -/
theorem floatOK : FloatOK where
  ofInt32 v := by
    have := FloatBounds.ofInt_lt Float.f32 (by decide) v
    rwa [show (2 : Nat) ^ Float.f32.width = 4294967296 by decide] at this
  ofInt64 v := by
    have := FloatBounds.ofInt_lt Float.f64 (by decide) v
    rwa [show (2 : Nat) ^ Float.f64.width = 18446744073709551616 by decide] at this
  narrow64_32 b := by
    have := FloatBounds.convert_lt Float.f64 Float.f32 (by decide) (by decide) b
    rwa [show (2 : Nat) ^ Float.f32.width = 4294967296 by decide] at this
  widen32_64 b := by
    have := FloatBounds.convert_lt Float.f32 Float.f64 (by decide) (by decide) b
    rwa [show (2 : Nat) ^ Float.f64.width = 18446744073709551616 by decide] at this
  narrow32_16 b := by
    have := FloatBounds.convert_lt Float.f32 Float.f16 (by decide) (by decide) b
    rwa [show (2 : Nat) ^ Float.f16.width = 65536 by decide] at this
  narrow64_16 b := by
    have := FloatBounds.convert_lt Float.f64 Float.f16 (by decide) (by decide) b
    rwa [show (2 : Nat) ^ Float.f16.width = 65536 by decide] at this

/-- **`WFX` after any accepted sequence of well-formed rows** -/
theorem runRows_WFX (ext : Ext) (he : ExtOK ext) (fields : List Field) (rows : List SVal) (root : B)
    (hx : ∀ x ∈ rows, SValOK x) (h : runRows ext fields rows = .ok root) (hs : ViewSmall root) : WFX root := by
  have hp := runRows_PX ext fields rows root h
  exact WFX_of_PX root hp (WFXrest_of root (runRows_LR ext he floatOK fields rows root hx h) (VU_of_PX root hp hs))

end SaModel.Lemmas.C03
