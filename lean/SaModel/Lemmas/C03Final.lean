import SaModel.Lemmas.C03LRNew
/-
`WFX` of the final builder state from the push invariants:
   PX root (unconditional) + LR root (ExtOK, FloatOK, well-formed rows) + ViewSmall root (view buffers < 4 GiB) → WFX root
-/
namespace SaModel.Lemmas.C03
open SaModel SaModel.Build SaModel.Spec

mutual
/-- every bytes-view buffer is below 4 GiB (descriptors hold 32-bit lengths and offsets) -/
def ViewSmall : B → Prop
  | .bytesView _ _ _ _ buf => buf.length < 2 ^ 32
  | .list _ _ _ _ _ el => ViewSmall el
  | .fixedSizeList _ _ _ _ _ _ el => ViewSmall el
  | .map _ _ _ _ ks vs => ViewSmall ks ∧ ViewSmall vs
  | .struct _ _ _ fs _ _ _ => ViewSmallL fs
  | .dictionary _ idx vals _ => ViewSmall idx ∧ ViewSmall vals
  | .union _ fs _ _ _ => ViewSmallL fs
  | _ => True
def ViewSmallL : BL → Prop
  | .nil => True
  | .cons b _ r => ViewSmall b ∧ ViewSmallL r
end

mutual
theorem VU_of_PX : ∀ (b : B), PX b → ViewSmall b → VU b
  | .null _ _, _, _ => by simp only [VU]
  | .unknownVariant _, _, _ => by simp only [VU]
  | .leaf _ _ _ _, _, _ => by simp only [VU]
  | .bytes _ _ _ _ _, _, _ => by simp only [VU]
  | .bytesView _ _ _ _ _, hp, hs => by
    simp only [PX] at hp; simp only [ViewSmall] at hs; simp only [VU]
    intro hty; exact hp.2 hty hs
  | .fixedSizeBinary _ _ _ _ _ _, _, _ => by simp only [VU]
  | .list _ _ _ _ _ el, hp, hs => by
    simp only [PX] at hp; simp only [ViewSmall] at hs; simp only [VU]; exact VU_of_PX el hp.2 hs
  | .fixedSizeList _ _ _ _ _ _ el, hp, hs => by
    simp only [PX] at hp; simp only [ViewSmall] at hs; simp only [VU]; exact VU_of_PX el hp hs
  | .map _ _ _ _ ks vs, hp, hs => by
    simp only [PX] at hp; simp only [ViewSmall] at hs; simp only [VU]
    exact ⟨VU_of_PX ks hp.2.1 hs.1, VU_of_PX vs hp.2.2 hs.2⟩
  | .struct _ _ _ fs _ _ _, hp, hs => by
    simp only [PX] at hp; simp only [ViewSmall] at hs; simp only [VU]; exact VUL_of_PXL fs hp hs
  | .dictionary _ idx vals _, hp, hs => by
    simp only [PX] at hp; simp only [ViewSmall] at hs; simp only [VU]
    exact ⟨VU_of_PX idx hp.1 hs.1, VU_of_PX vals hp.2 hs.2⟩
  | .union _ fs _ _ _, hp, hs => by
    simp only [PX] at hp; simp only [ViewSmall] at hs; simp only [VU]; exact VUL_of_PXL fs hp hs
theorem VUL_of_PXL : ∀ (fs : BL), PXL fs → ViewSmallL fs → VUL fs
  | .nil, _, _ => trivial
  | .cons b _ r, hp, hs => by
    simp only [PXL] at hp; simp only [ViewSmallL] at hs; simp only [VUL]
    exact ⟨VU_of_PX b hp.1 hs.1, VUL_of_PXL r hp.2 hs.2⟩
end

/-- **`WFX` after any accepted sequence of well-formed rows** -/
theorem runRows_WFX (ext : Ext) (he : ExtOK ext) (hf : FloatOK) (fields : List Field) (rows : List SVal) (root : B)
    (hx : ∀ x ∈ rows, SValOK x) (h : runRows ext fields rows = .ok root) (hs : ViewSmall root) : WFX root := by
  have hp := runRows_PX ext fields rows root h
  exact WFX_of_PX root hp (WFXrest_of root (runRows_LR ext he hf fields rows root hx h) (VU_of_PX root hp hs))

end SaModel.Lemmas.C03
