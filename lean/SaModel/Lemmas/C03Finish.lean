import SaModel.Lemmas.C03Decode
/-
`finish_decode`: the array a builder finishes into MEANS exactly what its state holds:

    WFB b → Faithful b → finish ext b = ok a → decodeAll a = (dec b).map ok

by structural recursion over the builder tree (`B` / `BL` are mutual inductives).  `Faithful` excludes the two
places where the statement is false of the code (both recorded, see notes/C03.md):
  * `FixedSizeBinary(0)` with rows: the finished array has lost its length;
  * dictionary rows that hold the dummy key 0 without any dictionary value (only ever written into slots hidden
    under a null parent): `into_array` appends a placeholder value, so the finished slot reads "" while the state
    (`dec`) reads null.
-/
namespace SaModel.Lemmas.C03
open SaModel SaModel.Build SaModel.Spec SaModel.Lemmas.Bits

/-! ### accessors of the state invariant (the only place that looks inside `WFB`) -/

theorem WFB_leaf {p k v vals} (h : WFB (.leaf p k v vals)) : VLen v vals.length := by
  simpa [WFB] using h
theorem WFB_bytes {p ty v offs data} (h : WFB (.bytes p ty v offs data)) :
    OffsOK offs data.length ∧ VLen v (offs.length - 1) := by
  simp only [WFB] at h; exact ⟨h.1, h.2⟩
theorem WFB_bytesView {p ty v views buf} (h : WFB (.bytesView p ty v views buf)) :
    VLen v views.length ∧ ∀ d ∈ views, (decodeView [buf] d).isOk = true := by
  simp only [WFB] at h; exact ⟨h.1, h.2.1⟩
theorem WFB_fixedSizeBinary {p n len v buf cur} (h : WFB (.fixedSizeBinary p n len v buf cur)) :
    VLen v len ∧ buf.length = len * n := by
  simp only [WFB] at h; exact ⟨h.1, h.2⟩
theorem WFB_list {p large fm v offs el} (h : WFB (.list p large fm v offs el)) :
    OffsOK offs (dec el).length ∧ VLen v (offs.length - 1) ∧ WFB el := by
  simp only [WFB] at h; exact ⟨h.1, h.2.1, h.2.2⟩
theorem WFB_fixedSizeList {p fm n len v cur el} (h : WFB (.fixedSizeList p fm n len v cur el)) :
    VLen v len ∧ (dec el).length = len * n ∧ WFB el := by
  simp only [WFB] at h; exact ⟨h.1, h.2.1, h.2.2⟩
theorem WFB_map {p mm v offs ks vs} (h : WFB (.map p mm v offs ks vs)) :
    OffsOK offs (dec ks).length ∧ (dec vs).length = (dec ks).length ∧ VLen v (offs.length - 1) ∧ WFB ks ∧ WFB vs := by
  simp only [WFB] at h; exact ⟨h.1, h.2.1, h.2.2.1, h.2.2.2.1, h.2.2.2.2⟩
theorem WFB_struct {p len v fs cached next seen} (h : WFB (.struct p len v fs cached next seen)) :
    VLen v len ∧ WFL fs len := by
  simp only [WFB] at h; exact ⟨h.1, h.2.1⟩
theorem WFB_dictionary {p idx vals index} (h : WFB (.dictionary p idx vals index)) :
    WFB idx ∧ WFB vals ∧ (dec vals).length = index.length := by
  simp only [WFB] at h; exact ⟨h.1, h.2.1, h.2.2.2.1⟩
theorem mem_zip_of_getElem? {α β} (xs : List α) (ys : List β) (i : Nat) (x : α) (y : β)
    (hx : xs[i]? = some x) (hy : ys[i]? = some y) : (x, y) ∈ xs.zip ys := by
  rw [List.mem_iff_getElem?]
  exact ⟨i, by simp [List.getElem?_zip_eq_some, hx, hy]⟩

/-- (accepts both statements of the union clause: by index, or over `types.zip offs`) -/
theorem WFB_union {p fs types offs cur} (h : WFB (.union p fs types offs cur)) :
    types.length = offs.length ∧ WFU fs cur ∧
    (∀ (i : Nat) (t o : Int), types[i]? = some t → offs[i]? = some o →
      0 ≤ t ∧ 0 ≤ o ∧ ∃ c, fs.get? t.toNat = some c ∧ o.toNat < (dec c.1).length) := by
  simp only [WFB] at h
  refine ⟨h.1, h.2.2.1, ?_⟩
  first
  | exact h.2.2.2
  | (intro i t o ht ho
     exact h.2.2.2 (t, o) (mem_zip_of_getElem? types offs i t o ht ho))

/-- every child of a builder list satisfies the state invariant -/
def WFBs : BL → Prop
  | .nil => True
  | .cons b _ r => WFB b ∧ WFBs r

theorem WFL_WFBs : ∀ (fs : BL) (len : Nat), WFL fs len → WFBs fs
  | .nil, _, _ => trivial
  | .cons _ _ r, len, h => by
    simp only [WFL] at h
    exact ⟨h.1, WFL_WFBs r len h.2.2⟩

theorem WFU_WFBs : ∀ (fs : BL) (cur : List Int), WFU fs cur → WFBs fs
  | .nil, _, _ => trivial
  | .cons _ _ r, cur, h => by
    simp only [WFU] at h
    exact ⟨h.1, WFU_WFBs r cur.tail h.2.2⟩

theorem WFL_len : ∀ (fs : BL) (len : Nat), WFL fs len → ∀ c ∈ decCols fs, c.2.length = len
  | .nil, _, _ => by simp [decCols]
  | .cons b m r, len, h => by
    simp only [WFL] at h
    intro c hc
    simp only [decCols, List.mem_cons] at hc
    rcases hc with hc | hc
    · rw [hc]; exact h.2.1
    · exact WFL_len r len h.2.2 c hc

theorem decCols_get? : ∀ (fs : BL) (k : Nat) (c : B × FieldMeta), fs.get? k = some c →
    (decCols fs)[k]? = some (c.2.name, dec c.1)
  | .nil, _, _, h => by simp [BL.get?] at h
  | .cons b m r, 0, c, h => by
    simp only [BL.get?, Option.some.injEq] at h
    subst h; simp [decCols]
  | .cons b m r, k + 1, c, h => by
    simp only [BL.get?] at h
    simp only [decCols, List.getElem?_cons_succ]
    exact decCols_get? r k c h

theorem decCols_length : ∀ (fs : BL), (decCols fs).length = fs.length
  | .nil => rfl
  | .cons _ _ r => by simp [decCols, BL.length, decCols_length r]

/-! ### where the finished array is faithful to the state -/

mutual
/-- excludes `FixedSizeBinary(0)` with rows and dictionary dummy keys (see the header) -/
def Faithful : B → Prop
  | .fixedSizeBinary _ n len _ _ _ => n = 0 → len = 0
  | .list _ _ _ _ _ el => Faithful el
  | .fixedSizeList _ _ _ _ _ _ el => Faithful el
  | .map _ _ _ _ ks vs => Faithful ks ∧ Faithful vs
  | .struct _ _ _ fs _ _ _ => FaithfulL fs
  | .dictionary _ idx vals index =>
    Faithful idx ∧ Faithful vals ∧ ∀ k ∈ dec idx, k = .null ∨ ∃ j : Nat, k = .int j ∧ j < index.length
  | .union _ fs _ _ _ => FaithfulL fs
  | _ => True
def FaithfulL : BL → Prop
  | .nil => True
  | .cons b _ r => Faithful b ∧ FaithfulL r
end

/-! ### leaves -/

theorem leafOf_leafVal_int (t : IntTy) (x : Int) : leafOf (primOfInt t) x = leafVal (.int t) x := by
  cases t <;> rfl

theorem finishLeaf_decode (k : LeafKind) (v : Validity) (vals : List Int) (hv : VLen v vals.length) :
    decodeAll (finishLeaf k v vals) = (maskNull v (vals.map (leafVal k))).map .ok := by
  have key : ∀ (f : Int → LVal),
      (List.range vals.length).map (fun i => withValidity (finishValidity v) i (.ok (f (vals.getD i 0)))) =
        (maskNull v (vals.map f)).map .ok := by
    intro f
    apply map_withValidity v vals.length hv _ (vals.map f) (by simp)
    intro i h
    rw [getD_eq_getElem vals i 0 h, List.getElem_map]
  cases k with
  | bool =>
    simp only [finishLeaf, decodeAll]
    apply map_withValidity v vals.length hv _ (vals.map (leafVal .bool)) (by simp)
    intro i h
    rw [getBit_packBits _ i (by simpa using h)]
    simp [leafVal, pure, Except.pure, bind, Except.bind]
  | int t =>
    simp only [finishLeaf, decodeAll]
    rw [← key]
    simp only [leafOf_leafVal_int]
  | f16 => simp only [finishLeaf, decodeAll]; exact key _
  | f32 => simp only [finishLeaf, decodeAll]; exact key _
  | f64 => simp only [finishLeaf, decodeAll]; exact key _
  | date32 => simp only [finishLeaf, decodeAll]; exact key _
  | date64 => simp only [finishLeaf, decodeAll]; exact key _
  | time32 u => simp only [finishLeaf, decodeAll]; exact key _
  | time64 u => simp only [finishLeaf, decodeAll]; exact key _
  | duration u => simp only [finishLeaf, decodeAll]; exact key _
  | timestamp u tz utc => simp only [finishLeaf, decodeAll]; exact key _
  | decimal p s => simp only [finishLeaf, decodeAll]; exact key _

/-! ### one level of each container, children given by what they decode to -/

theorem bytes_decode (ty : BytesTy) (v : Validity) (offs : List Int) (data : Bytes)
    (ho : OffsOK offs data.length) (hv : VLen v (offs.length - 1)) :
    decodeAll (.bytes ty (finishValidity v) offs data) =
      (maskNull v ((pairs offs).map fun se => bytesVal (isUtf8Ty ty) (sliceL data se.1 se.2))).map .ok := by
  simp only [decodeAll]
  apply map_withValidity v _ hv _ _ (by simp [pairs_length])
  intro i h
  have hp := OffsOK_pair offs _ ho i (by omega)
  rw [getD_eq_getElem offs i 0 (by omega), getD_eq_getElem offs (i + 1) 0 (by omega)]
  simp only [List.getElem_map, pairs_getElem, hp.1, hp.2.1, hp.2.2, and_self, if_true, sliceL]

theorem bytesView_decode (ty : ViewTy) (v : Validity) (views : List Nat) (buf : Bytes)
    (hv : VLen v views.length) (hd : ∀ d ∈ views, (decodeView [buf] d).isOk = true) :
    decodeAll (.bytesView ty (finishValidity v) views [buf]) =
      (maskNull v (views.map fun d => bytesVal (ty == .utf8View) (viewBytes buf d))).map .ok := by
  simp only [decodeAll]
  apply map_withValidity v _ hv _ _ (by simp)
  intro i h
  rw [getD_eq_getElem views i 0 h]
  have := hd views[i] (List.getElem_mem h)
  simp only [List.getElem_map, viewBytes]
  cases hdv : decodeView [buf] views[i] with
  | error e => rw [hdv] at this; cases this
  | ok b => rfl

theorem fixedSizeBinary_decode (n len : Nat) (v : Validity) (buf : Bytes)
    (hv : VLen v len) (hb : buf.length = len * n) (hn : n = 0 → len = 0) :
    decodeAll (.fixedSizeBinary (n : Int) (finishValidity v) buf) =
      (maskNull v ((List.range len).map fun i => .bin ((buf.drop (i * n)).take n))).map .ok := by
  simp only [decodeAll]
  by_cases h0 : n = 0
  · have hl := hn h0
    subst h0; subst hl
    cases v <;> simp [maskNull]
  · have hpos : ¬ ((n : Int) ≤ 0) := by omega
    simp only [hpos, if_false, Int.toNat_natCast]
    have hdiv : buf.length / n = len := by
      rw [hb]; exact Nat.mul_div_cancel _ (by omega)
    rw [hdiv]
    apply map_withValidity v _ hv _ _ (by simp)
    intro i h
    simp

theorem list_decode (large : Bool) (v : Validity) (offs : List Int) (fm : FieldMeta) (ela : Arr) (xs : List LVal)
    (hel : decodeAll ela = xs.map .ok) (ho : OffsOK offs xs.length) (hv : VLen v (offs.length - 1)) :
    decodeAll (.list large (finishValidity v) offs fm ela) =
      (maskNull v ((pairs offs).map fun se => .list (LVals.ofList (sliceL xs se.1 se.2)))).map .ok := by
  simp only [decodeAll, hel]
  apply map_withValidity v _ hv _ _ (by simp [pairs_length])
  intro i h
  have hp := OffsOK_pair offs _ ho i (by omega)
  rw [getD_eq_getElem offs i 0 (by omega), getD_eq_getElem offs (i + 1) 0 (by omega)]
  rw [range_map_ok xs _ _ hp.1 hp.2.1 hp.2.2]
  simp only [List.getElem_map, pairs_getElem, bind, Except.bind, pure, Except.pure]

theorem map_decode (v : Validity) (offs : List Int) (mm : MapMeta) (ka va : Arr) (ks vs : List LVal)
    (hk : decodeAll ka = ks.map .ok) (hw : decodeAll va = vs.map .ok)
    (ho : OffsOK offs ks.length) (hlen : vs.length = ks.length) (hv : VLen v (offs.length - 1)) :
    decodeAll (.map (finishValidity v) offs mm ka va) =
      (maskNull v ((pairs offs).map fun se =>
        .map (LEntries.ofList ((sliceL ks se.1 se.2).zip (sliceL vs se.1 se.2))))).map .ok := by
  simp only [decodeAll, hk, hw]
  apply map_withValidity v _ hv _ _ (by simp [pairs_length])
  intro i h
  have hp := OffsOK_pair offs _ ho i (by omega)
  rw [getD_eq_getElem offs i 0 (by omega), getD_eq_getElem offs (i + 1) 0 (by omega)]
  rw [range_map_ok ks _ _ hp.1 hp.2.1 hp.2.2, range_map_ok vs _ _ hp.1 hp.2.1 (by omega)]
  simp only [List.getElem_map, pairs_getElem, bind, Except.bind, pure, Except.pure]

theorem fixedSizeList_decode (len n : Nat) (v : Validity) (fm : FieldMeta) (ela : Arr) (xs : List LVal)
    (hel : decodeAll ela = xs.map .ok) (hx : xs.length = len * n) (hv : VLen v len) :
    decodeAll (.fixedSizeList len (finishValidity v) (n : Int) fm ela) =
      (maskNull v ((List.range len).map fun i => .list (LVals.ofList ((xs.drop (i * n)).take n)))).map .ok := by
  simp only [decodeAll, hel]
  apply map_withValidity v _ hv _ _ (by simp)
  intro i h
  have hneg : ¬ ((n : Int) < 0) := by omega
  have h1 : (i + 1) * n ≤ len * n := Nat.mul_le_mul_right n (by omega)
  have h2 : i * n ≤ (i + 1) * n := Nat.mul_le_mul_right n (by omega)
  have e1 : ((i : Int) * (n : Int)) = ((i * n : Nat) : Int) := by simp
  have e2 : (((i : Int) + 1) * (n : Int)) = (((i + 1) * n : Nat) : Int) := by simp
  rw [e1, e2, range_map_ok xs _ _ (by omega) (by omega) (by omega)]
  have e3 : (i + 1) * n - i * n = n := by rw [Nat.succ_mul]; omega
  simp only [hneg, if_false, sliceL, Int.toNat_natCast, e3, List.getElem_map, List.getElem_range, bind, Except.bind, pure,
    Except.pure]

theorem mapM_map_ok {α β γ} (l : List α) (h : α → β) (f : β → R γ) (g : α → γ) (hf : ∀ x ∈ l, f (h x) = .ok (g x)) :
    (l.map h).mapM f = .ok (l.map g) := by
  induction l with
  | nil => rfl
  | cons x r ih =>
    rw [List.map_cons, List.mapM_cons, hf x (by simp), ih (fun y hy => hf y (by simp [hy]))]
    rfl

theorem struct_decode (len : Nat) (v : Validity) (afs : ArrFields) (cols : List (String × List LVal))
    (hc : decodeFields afs = cols.map fun c => (c.1, c.2.map .ok)) (hl : ∀ c ∈ cols, c.2.length = len)
    (hv : VLen v len) :
    decodeAll (.struct len (finishValidity v) afs) =
      (maskNull v ((List.range len).map fun i =>
        .struct (LFields.ofList (cols.map fun c => (c.1, c.2.getD i .null))))).map .ok := by
  simp only [decodeAll, hc]
  apply map_withValidity v _ hv _ _ (by simp)
  intro i h
  rw [mapM_map_ok cols _ _ (fun c => (c.1, c.2.getD i .null))]
  · simp only [List.getElem_map, List.getElem_range, bind, Except.bind, pure, Except.pure]
  · intro c hc
    have hlen := hl c hc
    rw [slot_map_ok c.2 i (by omega), getD_eq_getElem c.2 i .null (by omega)]
    rfl

theorem dictionary_decode (ka va : Arr) (ks vs : List LVal) (m : Nat)
    (hk : decodeAll ka = ks.map .ok)
    (hvs : ∀ j, j < m → slot (decodeAll va) j = .ok (vs.getD j .null))
    (hkeys : ∀ k ∈ ks, k = .null ∨ ∃ j : Nat, k = .int j ∧ j < m) :
    decodeAll (.dictionary ka va) =
      (ks.map fun k => match k with | .int j => vs.getD j.toNat .null | _ => .null).map .ok := by
  simp only [decodeAll, hk, List.map_map]
  apply List.map_congr_left
  intro k hkm
  rcases hkeys k hkm with rfl | ⟨j, rfl, hj⟩
  · rfl
  · have : (0 : Int) ≤ (j : Int) := by omega
    simp only [Function.comp, bind, Except.bind, this, if_true, Int.toNat_natCast, hvs j hj]

theorem getD_snd_of_map {α β} (l : List (α × β)) (k : Nat) (d : α × β) (y : β)
    (h : (l.map (·.2))[k]? = some y) : (l.getD k d).2 = y := by
  rw [List.getElem?_map] at h
  rw [List.getD_eq_getElem?_getD]
  cases hl : l[k]? with
  | none => rw [hl] at h; cases h
  | some x => rw [hl] at h; simpa using h

theorem union_decode (types offs : List Int) (afs : ArrUFields) (cols : List (String × List LVal))
    (hids : (decodeUFields afs).map (·.1) = (List.range cols.length).map fun i => ((i : Nat) : Int))
    (hcols : (decodeUFields afs).map (·.2) = cols.map fun c => c.2.map .ok)
    (hlen : types.length = offs.length)
    (hr : ∀ (i : Nat) (t o : Int), types[i]? = some t → offs[i]? = some o →
      0 ≤ t ∧ 0 ≤ o ∧ ∃ c, cols[t.toNat]? = some c ∧ o.toNat < c.2.length) :
    decodeAll (.union types (some offs) afs) =
      (List.zipWith (fun t o => LVal.union t ((cols.getD t.toNat ("", [])).2.getD o.toNat .null)) types offs).map .ok := by
  simp only [decodeAll, hids]
  apply List.ext_getElem
  · simp [hlen]
  · intro i h1 h2
    have hi : i < types.length := by simpa using h1
    have hio : i < offs.length := by omega
    obtain ⟨ht, ho, c, hc, hoc⟩ := hr i types[i] offs[i] (List.getElem?_eq_getElem hi) (List.getElem?_eq_getElem hio)
    have htc : types[i].toNat < cols.length := by
      rcases Nat.lt_or_ge types[i].toNat cols.length with h | h
      · exact h
      · rw [List.getElem?_eq_none h] at hc; cases hc
    simp only [List.getElem_map, List.getElem_range, List.getElem_zipWith]
    rw [getD_eq_getElem types i 0 hi, indexOfTypeId_range _ _ ht htc]
    have hchild : ((decodeUFields afs).getD types[i].toNat (0, [])).2 = c.2.map .ok := by
      apply getD_snd_of_map
      rw [hcols, List.getElem?_map, hc]; rfl
    have hcol : (cols.getD types[i].toNat ("", [])) = c := by
      rw [List.getD_eq_getElem?_getD, hc]; rfl
    simp only [hchild, hcol]
    rw [getD_eq_getElem offs i (-1) hio, slot_map_ok c.2 _ hoc, getD_eq_getElem c.2 _ .null hoc]
    simp only [hio, ho, and_self, if_true, bind, Except.bind, pure, Except.pure]

end SaModel.Lemmas.C03
