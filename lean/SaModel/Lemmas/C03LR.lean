import SaModel.Lemmas.C03PXNew
/-
`LR`: leaf values stay within the physical range of their type (the leaf clause of `WFXrest`).

Unlike `PX` this needs assumptions, all explicit:
  * `SValOK x`   the pushed value is a well-formed serde value: an `iN`/`uN` call carries a value of that width,
                 an `f32`/`f64` call a bit pattern of that width
  * `ExtOK ext`  what chrono parsing returns fits the column's storage (Date32: i32; everything else: i64)
  * `FloatOK`    the IEEE conversions of `Basic/Float.lean` return bit patterns of the target width
                 (proved: Lemmas/FloatBounds.lean, instance `floatOK` in Lemmas/C03Final.lean)
-/
namespace SaModel.Lemmas.C03
open SaModel SaModel.Build SaModel.Spec

def inLR (k : LeafKind) (v : Int) : Prop := ∀ r, leafRange k = some r → r.1 ≤ v ∧ v ≤ r.2

def LeafOK (k : LeafKind) (vals : List Int) : Prop := ∀ r, leafRange k = some r → inRng r vals = true

theorem LeafOK_snoc {k : LeafKind} {vals : List Int} {v : Int} (h : LeafOK k vals) (hv : inLR k v) :
    LeafOK k (vals ++ [v]) := by
  intro r hr
  have h1 := h r hr
  have h2 := hv r hr
  simp only [inRng, List.all_append, List.all_cons, List.all_nil, Bool.and_true, Bool.and_eq_true,
    decide_eq_true_eq] at h1 ⊢
  exact ⟨h1, h2⟩

theorem inLR_zero (k : LeafKind) : inLR k 0 := by
  intro r hr
  cases k with
  | int t => cases t <;> (simp only [leafRange, primOfInt, primRange, Option.some.injEq] at hr; subst hr; decide)
  | bool => simp [leafRange] at hr
  | decimal p s => simp [leafRange] at hr
  | _ => (simp only [leafRange, i32Rng, i64Rng, Option.some.injEq] at hr; subst hr; decide)

structure ExtOK (ext : Ext) : Prop where
  date32 : ∀ s v, ext.parseDate false s = .ok v → -2147483648 ≤ v ∧ v ≤ 2147483647
  date64 : ∀ s v, ext.parseDate true s = .ok v → -9223372036854775808 ≤ v ∧ v ≤ 9223372036854775807
  time : ∀ u s v, ext.parseTime u s = .ok v → -9223372036854775808 ≤ v ∧ v ≤ 9223372036854775807
  timestamp : ∀ u utc s v, ext.parseTimestamp u utc s = .ok v → -9223372036854775808 ≤ v ∧ v ≤ 9223372036854775807
  duration : ∀ u s v, ext.parseDuration u s = .ok v → -9223372036854775808 ≤ v ∧ v ≤ 9223372036854775807

structure FloatOK : Prop where
  ofInt32 : ∀ v, Float.ofInt Float.f32 v < 4294967296
  ofInt64 : ∀ v, Float.ofInt Float.f64 v < 18446744073709551616
  narrow64_32 : ∀ b, Float.convert Float.f64 Float.f32 b < 4294967296
  widen32_64 : ∀ b, Float.convert Float.f32 Float.f64 b < 18446744073709551616
  narrow32_16 : ∀ b, Float.convert Float.f32 Float.f16 b < 65536
  narrow64_16 : ∀ b, Float.convert Float.f64 Float.f16 b < 65536

/-- a scalar serde call carries a value of its own width (integer calls below `u64`, float calls) -/
def ScalarOK : SVal → Prop
  | .int t v => t = .u64 ∨ t.inRange v = true   -- (`u64` is only ever narrowed through a checked conversion)
  | .f32 b => b < 4294967296
  | .f64 b => b < 18446744073709551616
  | _ => True

theorem tryInto_inRange {t : IntTy} {v w : Int} (h : tryInto t v = .ok w) : w = v ∧ t.min ≤ v ∧ v ≤ t.max := by
  unfold tryInto at h
  split at h
  · rename_i hr
    cases h
    simp only [IntTy.inRange, Bool.and_eq_true, decide_eq_true_eq] at hr
    exact ⟨rfl, hr⟩
  · simp [fail] at h

theorem inLR_mk {k : LeafKind} {lo hi v : Int} (hk : leafRange k = some (lo, hi)) (h1 : lo ≤ v) (h2 : v ≤ hi) :
    inLR k v := by
  intro r hr; rw [hk] at hr; cases hr; exact ⟨h1, h2⟩

theorem inLR_none {k : LeafKind} {v : Int} (hk : leafRange k = none) : inLR k v := by
  intro r hr; rw [hk] at hr; cases hr

theorem inLR_int (t : IntTy) (v : Int) (h1 : t.min ≤ v) (h2 : v ≤ t.max) : inLR (.int t) v := by
  cases t <;> exact inLR_mk rfl h1 h2

theorem inRange_iff (t : IntTy) (v : Int) : t.inRange v = true ↔ t.min ≤ v ∧ v ≤ t.max := by
  simp [IntTy.inRange]

theorem convLeaf_inLR (ext : Ext) (he : ExtOK ext) (hf : FloatOK) (k : LeafKind) (x : SVal) (v : Int)
    (hx : ScalarOK x) (h : convLeaf ext k x = .ok v) : inLR k v := by
  unfold convLeaf at h
  split at h
  -- bool
  · exact inLR_none rfl
  -- int t ← bool / int / char
  · obtain ⟨rfl, h1, h2⟩ := tryInto_inRange h; exact inLR_int _ _ h1 h2
  · obtain ⟨rfl, h1, h2⟩ := tryInto_inRange h; exact inLR_int _ _ h1 h2
  · obtain ⟨rfl, h1, h2⟩ := tryInto_inRange h; exact inLR_int _ _ h1 h2
  -- f32
  · cases h; rename_i _ w; have := hf.ofInt32 w; exact inLR_mk rfl (by omega) (by omega)
  · cases h; simp only [ScalarOK] at hx; exact inLR_mk rfl (by omega) (by omega)
  · cases h; rename_i b; have := hf.narrow64_32 b; exact inLR_mk rfl (by omega) (by omega)
  · cases h; rename_i c; have := hf.ofInt32 c; exact inLR_mk rfl (by omega) (by omega)
  -- f64
  · cases h; rename_i _ w; have := hf.ofInt64 w; exact inLR_mk rfl (by omega) (by omega)
  · cases h; rename_i b; have := hf.widen32_64 b; exact inLR_mk rfl (by omega) (by omega)
  · cases h; simp only [ScalarOK] at hx; exact inLR_mk rfl (by omega) (by omega)
  · cases h; rename_i c; have := hf.ofInt64 c; exact inLR_mk rfl (by omega) (by omega)
  -- f16
  · cases h; rename_i b; have := hf.narrow32_16 b; exact inLR_mk rfl (by omega) (by omega)
  · cases h; rename_i b; have := hf.narrow64_16 b; exact inLR_mk rfl (by omega) (by omega)
  -- date32
  · have := he.date32 _ _ h
    exact inLR_mk rfl this.1 this.2
  · cases h
    have := (inRange_iff _ _).1 (hx.resolve_left (by first | decide | (intro e; subst e; simp at hne)))
    exact inLR_mk rfl this.1 this.2
  · split at h
    · rename_i hin
      cases h
      have := (inRange_iff _ _).1 hin
      exact inLR_mk rfl this.1 this.2
    · simp [fail] at h
  -- date64
  · have := he.date64 _ _ h
    exact inLR_mk rfl this.1 this.2
  · cases h
    have := (inRange_iff _ _).1 (hx.resolve_left (by first | decide | (intro e; subst e; simp at hne)))
    simp only [IntTy.min, IntTy.max] at this
    exact inLR_mk rfl (by omega) (by omega)
  · cases h
    have := (inRange_iff _ _).1 (hx.resolve_left (by first | decide | (intro e; subst e; simp at hne)))
    exact inLR_mk rfl this.1 this.2
  -- time32
  · obtain ⟨d, _, h2⟩ := (bind_ok _ _ _).1 h
    obtain ⟨rfl, h1, h2⟩ := tryInto_inRange h2
    exact inLR_mk rfl h1 h2
  · cases h
    have := (inRange_iff _ _).1 (hx.resolve_left (by first | decide | (intro e; subst e; simp at hne)))
    exact inLR_mk rfl this.1 this.2
  · obtain ⟨rfl, h1, h2⟩ := tryInto_inRange h
    exact inLR_mk rfl h1 h2
  -- time64
  · have := he.time _ _ _ h
    exact inLR_mk rfl this.1 this.2
  · cases h
    have := (inRange_iff _ _).1 (hx.resolve_left (by first | decide | (intro e; subst e; simp at hne)))
    simp only [IntTy.min, IntTy.max] at this
    exact inLR_mk rfl (by omega) (by omega)
  · cases h
    have := (inRange_iff _ _).1 (hx.resolve_left (by first | decide | (intro e; subst e; simp at hne)))
    exact inLR_mk rfl this.1 this.2
  -- timestamp
  · have := he.timestamp _ _ _ _ h
    exact inLR_mk rfl this.1 this.2
  · cases h
    have := (inRange_iff _ _).1 (hx.resolve_left (by first | decide | (intro e; subst e; simp at hne)))
    exact inLR_mk rfl this.1 this.2
  -- duration
  · have := he.duration _ _ _ h
    exact inLR_mk rfl this.1 this.2
  · split at h
    · obtain ⟨rfl, h1, h2⟩ := tryInto_inRange h
      exact inLR_mk rfl h1 h2
    · rename_i hne
      cases h
      rename_i _ t
      have hne' : t ≠ .u64 := by intro e; subst e; exact absurd hne (by decide)
      have := (inRange_iff _ _).1 (hx.resolve_left hne')
      cases t <;> simp only [IntTy.min, IntTy.max] at this <;>
        first | exact inLR_mk rfl (by omega) (by omega) | exact absurd rfl hne'
  -- decimal
  · exact inLR_none rfl
  · exact inLR_none rfl
  · exact inLR_none rfl
  -- everything else is refused
  · simp [notSupported, fail] at h

/-! ### the invariant and the well-formedness of pushed values -/

mutual
def LR : B → Prop
  | .leaf _ k _ vals => LeafOK k vals
  | .list _ _ _ _ _ el => LR el
  | .fixedSizeList _ _ _ _ _ _ el => LR el
  | .map _ _ _ _ ks vs => LR ks ∧ LR vs
  | .struct _ _ _ fs _ _ _ => LRL fs
  | .dictionary _ idx vals _ => LR idx ∧ LR vals
  | .union _ fs _ _ _ => LRL fs
  | _ => True
def LRL : BL → Prop
  | .nil => True
  | .cons b _ r => LR b ∧ LRL r
end

mutual
/-- every scalar call inside a serde value is `ScalarOK` -/
def SValOK : SVal → Prop
  | .some v => SValOK v
  | .newtypeStruct _ v => SValOK v
  | .seq xs => SValsOK xs
  | .tuple xs => SValsOK xs
  | .tupleStruct _ xs => SValsOK xs
  | .record _ fs => SFieldsOK fs
  | .map es => SEntriesOK es
  | .mapRaw ops => SOpsOK ops
  | .newtypeVariant _ _ _ v => SValOK v
  | .tupleVariant _ _ _ xs => SValsOK xs
  | .structVariant _ _ _ fs => SFieldsOK fs
  | .int t v => ScalarOK (.int t v)
  | .f32 b => ScalarOK (.f32 b)
  | .f64 b => ScalarOK (.f64 b)
  | _ => True
def SValsOK : SVals → Prop
  | .nil => True
  | .cons v r => SValOK v ∧ SValsOK r
def SFieldsOK : SFields → Prop
  | .nil => True
  | .cons _ _ v r => SValOK v ∧ SFieldsOK r
def SEntriesOK : SEntries → Prop
  | .nil => True
  | .cons k v r => SValOK k ∧ SValOK v ∧ SEntriesOK r
def SOpsOK : SMapOps → Prop
  | .nil => True
  | .key k r => SValOK k ∧ SOpsOK r
  | .value v r => SValOK v ∧ SOpsOK r
end

/-! ### placeholders, nulls, scalars -/

mutual
theorem pushDefaultK_LR : ∀ (b : B) (k : Nat) (b' : B), pushDefaultK b k = .ok b' → LR b → LR b'
  | .null p len, k, b', h, _ => by simp only [pushDefaultK] at h; cases h; simp only [LR]
  | .unknownVariant p, k, b', h, _ => by
    simp only [pushDefaultK] at h
    split at h
    · cases h; simp only [LR]
    · simp [ctx_ok, fail] at h
  | .leaf p kind v vals, k, b', h, hp => by
    simp only [pushDefaultK] at h
    obtain ⟨⟨v', vals'⟩, h1, h2⟩ := (bind_ok _ _ _).1 h
    cases h2
    simp only [LR] at hp ⊢
    refine iter_inv (fun (s : Validity × List Int) => LeafOK kind s.2) _ ?_ k (v, vals) (v', vals') h1 hp
    intro a a' ha hpa
    cases ha
    exact LeafOK_snoc hpa (inLR_zero kind)
  | .bytes p ty v offs data, k, b', h, _ => by
    simp only [pushDefaultK, ctx_ok] at h
    obtain ⟨⟨v', offs'⟩, _, h2⟩ := (bind_ok _ _ _).1 h
    cases h2; simp only [LR]
  | .bytesView p ty v views buf, k, b', h, _ => by
    simp only [pushDefaultK] at h
    obtain ⟨⟨v', views'⟩, _, h2⟩ := (bind_ok _ _ _).1 h
    cases h2; simp only [LR]
  | .fixedSizeBinary p n len v buf cur, k, b', h, _ => by
    simp only [pushDefaultK] at h
    obtain ⟨⟨len', v', buf'⟩, _, h2⟩ := (bind_ok _ _ _).1 h
    cases h2; simp only [LR]
  | .list p large fm v offs el, k, b', h, hp => by
    simp only [pushDefaultK, ctx_ok] at h
    obtain ⟨⟨v', offs'⟩, _, h2⟩ := (bind_ok _ _ _).1 h
    cases h2
    simp only [LR] at hp ⊢; exact hp
  | .fixedSizeList p fm n len v cur el, k, b', h, hp => by
    simp only [pushDefaultK, ctx_ok] at h
    obtain ⟨⟨len', v'⟩, _, h2⟩ := (bind_ok _ _ _).1 h
    obtain ⟨el', h3, h4⟩ := (bind_ok _ _ _).1 h2
    cases h4
    simp only [LR] at hp ⊢
    exact pushDefaultK_LR el (k * n) el' h3 hp
  | .map p mm v offs ks vs, k, b', h, hp => by
    simp only [pushDefaultK, ctx_ok] at h
    obtain ⟨⟨v', offs'⟩, _, h2⟩ := (bind_ok _ _ _).1 h
    cases h2
    simp only [LR] at hp ⊢; exact hp
  | .struct p len v fs cached next seen, k, b', h, hp => by
    simp only [pushDefaultK, ctx_ok] at h
    obtain ⟨⟨len', v'⟩, _, h2⟩ := (bind_ok _ _ _).1 h
    obtain ⟨fs', h3, h4⟩ := (bind_ok _ _ _).1 h2
    cases h4
    simp only [LR] at hp ⊢
    exact pushDefaultKAll_LR fs k fs' h3 hp
  | .dictionary p idx vals index, k, b', h, hp => by
    simp only [pushDefaultK, ctx_ok] at h
    obtain ⟨idx', h1, h2⟩ := (bind_ok _ _ _).1 h
    cases h2
    simp only [LR] at hp ⊢
    exact ⟨pushDefaultK_LR idx k idx' h1 hp.1, hp.2⟩
  | .union p .nil types offs cur, k, b', h, hp => by
    simp only [pushDefaultK, ctx_ok] at h
    split at h
    · cases h; exact hp
    · simp [fail] at h
  | .union p (.cons c m rest) types offs cur, k, b', h, hp => by
    simp only [pushDefaultK, ctx_ok] at h
    split at h
    · simp [fail] at h
    split at h
    · simp [fail] at h
    · obtain ⟨fs', h1, h2⟩ := (bind_ok _ _ _).1 h
      split at h2
      · simp [fail] at h2
      cases h2
      simp only [LR] at hp ⊢
      exact pushDefaultKAt_LR _ _ k fs' h1 hp
theorem pushDefaultKAll_LR : ∀ (fs : BL) (k : Nat) (fs' : BL), pushDefaultKAll fs k = .ok fs' → LRL fs → LRL fs'
  | .nil, k, fs', h, _ => by simp only [pushDefaultKAll] at h; cases h; trivial
  | .cons b m rest, k, fs', h, hp => by
    simp only [pushDefaultKAll] at h
    obtain ⟨b', h1, h2⟩ := (bind_ok _ _ _).1 h
    obtain ⟨r', h3, h4⟩ := (bind_ok _ _ _).1 h2
    cases h4
    simp only [LRL] at hp ⊢
    exact ⟨pushDefaultK_LR b k b' h1 hp.1, pushDefaultKAll_LR rest k r' h3 hp.2⟩
theorem pushDefaultKAt_LR : ∀ (fs : BL) (j k : Nat) (fs' : BL), pushDefaultKAt fs j k = .ok fs' → LRL fs → LRL fs'
  | .nil, _, _, fs', h, _ => by simp only [pushDefaultKAt] at h; cases h; trivial
  | .cons b m rest, 0, k, fs', h, hp => by
    simp only [pushDefaultKAt] at h
    obtain ⟨b', h1, h2⟩ := (bind_ok _ _ _).1 h
    cases h2
    simp only [LRL] at hp ⊢
    exact ⟨pushDefaultK_LR b k b' h1 hp.1, hp.2⟩
  | .cons b m rest, j + 1, k, fs', h, hp => by
    simp only [pushDefaultKAt] at h
    obtain ⟨r', h1, h2⟩ := (bind_ok _ _ _).1 h
    cases h2
    simp only [LRL] at hp ⊢
    exact ⟨hp.1, pushDefaultKAt_LR rest j k r' h1 hp.2⟩
end

theorem pushNone_LR : ∀ (b : B) (b' : B), pushNone b = .ok b' → LR b → LR b'
  | .null p len, b', h, _ => by simp only [pushNone] at h; cases h; simp only [LR]
  | .unknownVariant p, b', h, _ => by simp [pushNone, ctx_ok, fail] at h
  | .leaf p k v vals, b', h, hp => by
    simp only [pushNone, ctx_ok] at h
    obtain ⟨v', _, h2⟩ := (bind_ok _ _ _).1 h
    cases h2
    simp only [LR] at hp ⊢
    exact LeafOK_snoc hp (inLR_zero k)
  | .bytes p ty v offs data, b', h, _ => by
    simp only [pushNone, ctx_ok] at h
    obtain ⟨v', _, h2⟩ := (bind_ok _ _ _).1 h
    obtain ⟨o', _, h4⟩ := (bind_ok _ _ _).1 h2
    cases h4; simp only [LR]
  | .bytesView p ty v views buf, b', h, _ => by
    simp only [pushNone, ctx_ok] at h
    obtain ⟨v', _, h2⟩ := (bind_ok _ _ _).1 h
    cases h2; simp only [LR]
  | .fixedSizeBinary p n len v buf cur, b', h, _ => by
    simp only [pushNone, ctx_ok] at h
    obtain ⟨v', _, h2⟩ := (bind_ok _ _ _).1 h
    cases h2; simp only [LR]
  | .list p large fm v offs el, b', h, hp => by
    simp only [pushNone, ctx_ok] at h
    obtain ⟨v', _, h2⟩ := (bind_ok _ _ _).1 h
    obtain ⟨o', _, h4⟩ := (bind_ok _ _ _).1 h2
    cases h4
    simp only [LR] at hp ⊢; exact hp
  | .fixedSizeList p fm n len v cur el, b', h, hp => by
    simp only [pushNone, ctx_ok] at h
    obtain ⟨v', _, h2⟩ := (bind_ok _ _ _).1 h
    obtain ⟨el', h3, h4⟩ := (bind_ok _ _ _).1 h2
    cases h4
    simp only [LR] at hp ⊢
    exact pushDefaultK_LR el n el' h3 hp
  | .map p mm v offs ks vs, b', h, hp => by
    simp only [pushNone, ctx_ok] at h
    obtain ⟨v', _, h2⟩ := (bind_ok _ _ _).1 h
    obtain ⟨o', _, h4⟩ := (bind_ok _ _ _).1 h2
    cases h4
    simp only [LR] at hp ⊢; exact hp
  | .struct p len v fs cached next seen, b', h, hp => by
    simp only [pushNone, ctx_ok] at h
    obtain ⟨v', _, h2⟩ := (bind_ok _ _ _).1 h
    obtain ⟨fs', h3, h4⟩ := (bind_ok _ _ _).1 h2
    cases h4
    simp only [LR] at hp ⊢
    exact pushDefaultKAll_LR fs 1 fs' h3 hp
  | .dictionary p idx vals index, b', h, hp => by
    simp only [pushNone, ctx_ok] at h
    split at h
    · simp [fail] at h
    obtain ⟨idx', h1, h2⟩ := (bind_ok _ _ _).1 h
    cases h2
    simp only [LR] at hp ⊢
    exact ⟨pushNone_LR idx idx' ((ctx_ok _ _ _).1 h1) hp.1, hp.2⟩
  | .union p fs types offs cur, b', h, _ => by simp [pushNone, ctx_ok, fail] at h

theorem pushScalar_LR (ext : Ext) (he : ExtOK ext) (hf : FloatOK) : ∀ (b : B) (x : SVal) (b' : B), ScalarOK x →
    pushScalar ext b x = .ok b' → LR b → LR b'
  | .null p len, x, b', _, h, _ => by
    unfold pushScalar at h
    split at h
    · cases h; simp only [LR]
    · simp [notSupported, fail] at h
  | .unknownVariant p, x, b', _, h, _ => by simp [pushScalar, fail] at h
  | .leaf p k v vals, x, b', hx, h, hp => by
    simp only [pushScalar] at h
    obtain ⟨val, hc, h2⟩ := (bind_ok _ _ _).1 h
    obtain ⟨v', _, h4⟩ := (bind_ok _ _ _).1 h2
    cases h4
    simp only [LR] at hp ⊢
    exact LeafOK_snoc hp (convLeaf_inLR ext he hf k x val hx hc)
  | .bytes p ty v offs data, x, b', _, h, _ => by
    simp only [pushScalar] at h
    obtain ⟨bs, _, h2⟩ := (bind_ok _ _ _).1 h
    obtain ⟨v', _, h4⟩ := (bind_ok _ _ _).1 h2
    obtain ⟨o1, _, h6⟩ := (bind_ok _ _ _).1 h4
    obtain ⟨o2, _, h8⟩ := (bind_ok _ _ _).1 h6
    cases h8; simp only [LR]
  | .bytesView p ty v views buf, x, b', _, h, _ => by
    simp only [pushScalar] at h
    obtain ⟨bs, _, h2⟩ := (bind_ok _ _ _).1 h
    obtain ⟨vp, _, h2⟩ := (bind_ok _ _ _).1 h2
    obtain ⟨v', _, h4⟩ := (bind_ok _ _ _).1 h2
    cases h4; simp only [LR]
  | .fixedSizeBinary p n len v buf cur, x, b', _, h, _ => by
    unfold pushScalar at h
    split at h
    · split at h
      · simp [fail] at h
      · obtain ⟨v', _, h4⟩ := (bind_ok _ _ _).1 h
        cases h4; simp only [LR]
    · simp [notSupported, fail] at h
  | .dictionary p idx vals index, x, b', _, h, hp => by
    unfold pushScalar at h
    simp only at h
    simp only [LR] at hp
    split at h
    · split at h
      · obtain ⟨idx', h1, h2⟩ := (bind_ok _ _ _).1 h
        cases h2
        rw [ctx_eq_ok] at h1
        simp only [LR]
        exact ⟨pushScalar_LR ext he hf idx (.int .u64 _) idx' (Or.inl rfl) h1 hp.1, hp.2⟩
      · obtain ⟨vals', h1, h2⟩ := (bind_ok _ _ _).1 h
        obtain ⟨idx', h3, h4⟩ := (bind_ok _ _ _).1 h2
        cases h4
        rw [ctx_eq_ok] at h1 h3
        simp only [LR]
        exact ⟨pushScalar_LR ext he hf idx (.int .u64 _) idx' (Or.inl rfl) h3 hp.1,
          pushScalar_LR ext he hf vals (.str _) vals' trivial h1 hp.2⟩
    · simp [notSupported, fail] at h
  | .list _ _ _ _ _ _, x, b', _, h, _ => by simp [pushScalar, notSupported, fail] at h
  | .fixedSizeList _ _ _ _ _ _ _, x, b', _, h, _ => by simp [pushScalar, notSupported, fail] at h
  | .map _ _ _ _ _ _, x, b', _, h, _ => by simp [pushScalar, notSupported, fail] at h
  | .struct _ _ _ _ _ _ _, x, b', _, h, _ => by simp [pushScalar, notSupported, fail] at h
  | .union _ _ _ _ _, x, b', _, h, _ => by simp [pushScalar, notSupported, fail] at h

end SaModel.Lemmas.C03
