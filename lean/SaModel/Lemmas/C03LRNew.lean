import SaModel.Lemmas.C03LRPush
/-
Fresh builders satisfy `LR`; hence so does the root after any accepted sequence of well-formed rows (`runRows_LR`).
-/
namespace SaModel.Lemmas.C03
open SaModel SaModel.Build SaModel.Spec

theorem newDT_LR_all :
    (∀ (path : String) (dt : DataType) (nl : Bool) (md : Metadata), ∀ b, newDT path dt nl md = .ok b → LR b) ∧
    (∀ (path : String) (ufs : UFields) (k : Nat), ∀ bl, newUnionFields path ufs k = .ok bl → LRL bl) ∧
    (∀ (path : String) (f : Field), ∀ b, newB path f = .ok b → LR b) ∧
    (∀ (path : String) (fs : Fields), ∀ bl, newFields path fs = .ok bl → LRL bl) := by
  apply newDT.mutual_induct
    (motive_1 := fun path dt nl md => ∀ b, newDT path dt nl md = .ok b → LR b)
    (motive_2 := fun path ufs k => ∀ bl, newUnionFields path ufs k = .ok bl → LRL bl)
    (motive_3 := fun path f => ∀ b, newB path f = .ok b → LR b)
    (motive_4 := fun path fs => ∀ bl, newFields path fs = .ok bl → LRL bl)
  all_goals try (
    intros
    rename_i h
    simp only [newDT, bind, Except.bind, pure, Except.pure, ctx, fail, *, if_true, if_false] at h
    try (cases h)
    simp [LR, LeafOK, inRng]
    done)
  all_goals try (
    intros
    rename_i h
    simp [newDT, newFields, newUnionFields, ctx, fail, *] at h
    done)
  case case17 =>
    intro path u tz nl md b h
    simp only [newDT, bind, Except.bind] at h
    cases hu : isUtcTz tz with
    | error e => rw [hu] at h; cases h
    | ok utc => rw [hu] at h; cases h; simp [LR, LeafOK, inRng]
  case case33 =>
    intro path child nl md ih b h
    simp only [newDT] at h
    obtain ⟨el, hc, h⟩ := (bind_ok _ _ _).1 h
    cases h
    simp only [LR]; exact ih el hc
  case case34 =>
    intro path child nl md ih b h
    simp only [newDT] at h
    obtain ⟨el, hc, h⟩ := (bind_ok _ _ _).1 h
    cases h
    simp only [LR]; exact ih el hc
  case case36 =>
    intro path child n nl md hn ih b h
    simp only [newDT, hn, if_false] at h
    obtain ⟨el, hc, h⟩ := (bind_ok _ _ _).1 h
    cases h
    simp only [LR]; exact ih el hc
  case case38 =>
    intro path ename kf vf emd sorted nl md ihk ihv b h
    simp only [newDT] at h
    obtain ⟨kb, hk, h⟩ := (bind_ok _ _ _).1 h
    obtain ⟨vb, hv, h⟩ := (bind_ok _ _ _).1 h
    cases h
    simp only [LR]; exact ⟨ihk kb hk, ihv vb hv⟩
  case case43 =>
    intro path fs nl md ih b h
    simp only [newDT] at h
    obtain ⟨bl, hf, h⟩ := (bind_ok _ _ _).1 h
    simp only [mkStruct] at h
    split at h
    · cases h
    · cases h; simp only [LR]; exact ih bl hf
  case case44 =>
    intro path k v nl md hint ihk ihv b h
    simp only [newDT, hint, if_true] at h
    obtain ⟨kb, hk, h⟩ := (bind_ok _ _ _).1 h
    obtain ⟨vb, hv, h⟩ := (bind_ok _ _ _).1 h
    cases h
    simp only [LR]; exact ⟨ihk kb hk, ihv vb hv⟩
  case case46 =>
    intro path fs nl md ih b h
    simp only [newDT] at h
    obtain ⟨bl, hf, h⟩ := (bind_ok _ _ _).1 h
    cases h
    simp only [LR]; exact ih bl hf
  case case50 =>
    intro path name dt nl md ih b h
    simp only [newB] at h
    exact ih b h
  case case51 =>
    intro path bl h
    simp only [newFields] at h; cases h; trivial
  case case52 =>
    intro path f rest ihf ihr bl h
    simp only [newFields] at h
    obtain ⟨b, hb, h⟩ := (bind_ok _ _ _).1 h
    obtain ⟨r, hr, h⟩ := (bind_ok _ _ _).1 h
    cases h
    simp only [LRL]; exact ⟨ihf b hb, ihr r hr⟩
  case case53 =>
    intro path k bl h
    simp only [newUnionFields] at h; cases h; trivial
  case case55 =>
    intro path tid f rest idx hne ihf ihr bl h
    simp only [newUnionFields, hne] at h
    obtain ⟨b, hb, h⟩ := (bind_ok _ _ _).1 h
    obtain ⟨r, hr, h⟩ := (bind_ok _ _ _).1 h
    cases h
    simp only [LRL]; exact ⟨ihf b hb, ihr r hr⟩

theorem newRoot_LR (fields : List Field) (root : B) (h : newRoot fields = .ok root) : LR root := by
  simp only [newRoot] at h
  obtain ⟨bl, hf, h⟩ := (bind_ok _ _ _).1 h
  simp only [mkStruct] at h
  split at h
  · cases h
  · cases h; simp only [LR]; exact newDT_LR_all.2.2.2 "$" _ bl hf

theorem foldlM_LR (ext : Ext) (he : ExtOK ext) (hf : FloatOK) : ∀ (rows : List SVal) (r0 root : B),
    (∀ x ∈ rows, SValOK x) → rows.foldlM (push ext) r0 = .ok root → LR r0 → LR root
  | [], r0, root, _, h, hp => by
    simp only [List.foldlM_nil, pure, Except.pure, Except.ok.injEq] at h; rw [← h]; exact hp
  | x :: rest, r0, root, hx, h, hp => by
    simp only [List.foldlM_cons] at h
    obtain ⟨r1, h1, h⟩ := (bind_ok _ _ _).1 h
    exact foldlM_LR ext he hf rest r1 root (fun y hy => hx y (by simp [hy])) h
      (push_LR ext he hf x r0 r1 (hx x (by simp)) h1 hp)

/-- **after any accepted sequence of well-formed rows** every stored leaf value is within its physical range -/
theorem runRows_LR (ext : Ext) (he : ExtOK ext) (hf : FloatOK) (fields : List Field) (rows : List SVal) (root : B)
    (hx : ∀ x ∈ rows, SValOK x) (h : runRows ext fields rows = .ok root) : LR root := by
  simp only [runRows] at h
  obtain ⟨r0, hr, h⟩ := (bind_ok _ _ _).1 h
  exact foldlM_LR ext he hf rows r0 root hx h (newRoot_LR fields r0 hr)

/-! ### `WFXrest` = `LR` + the Utf8View clause -/

mutual
/-- Utf8View slots are valid UTF-8 -/
def VU : B → Prop
  | .bytesView _ ty _ views buf => ty = .utf8View → ∀ d ∈ views, validUtf8 (viewBytes buf d) = true
  | .list _ _ _ _ _ el => VU el
  | .fixedSizeList _ _ _ _ _ _ el => VU el
  | .map _ _ _ _ ks vs => VU ks ∧ VU vs
  | .struct _ _ _ fs _ _ _ => VUL fs
  | .dictionary _ idx vals _ => VU idx ∧ VU vals
  | .union _ fs _ _ _ => VUL fs
  | _ => True
def VUL : BL → Prop
  | .nil => True
  | .cons b _ r => VU b ∧ VUL r
end

mutual
theorem WFXrest_of : ∀ (b : B), LR b → VU b → WFXrest b
  | .null _ _, _, _ => by simp only [WFXrest]
  | .unknownVariant _, _, _ => by simp only [WFXrest]
  | .leaf _ _ _ _, hl, _ => by simpa only [WFXrest, LR, LeafOK] using hl
  | .bytes _ _ _ _ _, _, _ => by simp only [WFXrest]
  | .bytesView _ _ _ _ _, _, hv => by simpa only [WFXrest, VU] using hv
  | .fixedSizeBinary _ _ _ _ _ _, _, _ => by simp only [WFXrest]
  | .list _ _ _ _ _ el, hl, hv => by
    simp only [LR] at hl; simp only [VU] at hv; simp only [WFXrest]; exact WFXrest_of el hl hv
  | .fixedSizeList _ _ _ _ _ _ el, hl, hv => by
    simp only [LR] at hl; simp only [VU] at hv; simp only [WFXrest]; exact WFXrest_of el hl hv
  | .map _ _ _ _ ks vs, hl, hv => by
    simp only [LR] at hl; simp only [VU] at hv; simp only [WFXrest]
    exact ⟨WFXrest_of ks hl.1 hv.1, WFXrest_of vs hl.2 hv.2⟩
  | .struct _ _ _ fs _ _ _, hl, hv => by
    simp only [LR] at hl; simp only [VU] at hv; simp only [WFXrest]; exact WFXrestL_of fs hl hv
  | .dictionary _ idx vals _, hl, hv => by
    simp only [LR] at hl; simp only [VU] at hv; simp only [WFXrest]
    exact ⟨WFXrest_of idx hl.1 hv.1, WFXrest_of vals hl.2 hv.2⟩
  | .union _ fs _ _ _, hl, hv => by
    simp only [LR] at hl; simp only [VU] at hv; simp only [WFXrest]; exact WFXrestL_of fs hl hv
theorem WFXrestL_of : ∀ (fs : BL), LRL fs → VUL fs → WFXrestL fs
  | .nil, _, _ => trivial
  | .cons b _ r, hl, hv => by
    simp only [LRL] at hl; simp only [VUL] at hv; simp only [WFXrestL]
    exact ⟨WFXrest_of b hl.1 hv.1, WFXrestL_of r hl.2 hv.2⟩
end

end SaModel.Lemmas.C03
