import SaModel.Lemmas.C03LR
import SaModel.Lemmas.C01MapOps
/-
`push` (the whole mutual block) preserves `LR` (leaf values within the physical range of their type):
    ExtOK ext → FloatOK → SValOK x → LR b → push ext b x = ok b' → LR b'
(the walk of Lemmas/C03PXPush.lean once more, with the well-formedness of the pushed value threaded through).
-/
namespace SaModel.Lemmas.C03
open SaModel SaModel.Build SaModel.Spec

/-! ### struct rows -/

theorem LRL_get : ∀ (fs : BL) (i : Nat) (c : B) (m : FieldMeta), fs.get? i = some (c, m) → LRL fs → LR c
  | .nil, _, _, _, h, _ => by simp [BL.get?] at h
  | .cons b m r, 0, c, _, h, hp => by
    simp only [BL.get?, Option.some.injEq, Prod.mk.injEq] at h
    obtain ⟨rfl, _⟩ := h
    simp only [LRL] at hp; exact hp.1
  | .cons b m r, i + 1, c, m', h, hp => by
    simp only [BL.get?] at h
    simp only [LRL] at hp
    exact LRL_get r i c m' h hp.2

theorem LRL_set : ∀ (fs : BL) (i : Nat) (c' : B), LR c' → LRL fs → LRL (fs.set i c')
  | .nil, _, _, _, _ => by simp only [BL.set]; trivial
  | .cons b m r, 0, c', hc, hp => by
    simp only [LRL] at hp
    simp only [BL.set, LRL]; exact ⟨hc, hp.2⟩
  | .cons b m r, i + 1, c', hc, hp => by
    simp only [LRL] at hp
    simp only [BL.set, LRL]; exact ⟨hp.1, LRL_set r i c' hc hp.2⟩

theorem SS.element_LR {s s' : SS} {idx : Nat} {pc : B → R B}
    (hpc : ∀ c c', pc c = .ok c' → LR c → LR c') (h : s.element idx pc = .ok s') (hp : LRL s.fields) :
    LRL s'.fields := by
  unfold SS.element at h
  split at h
  · simp [panic] at h
  · simp [ctx_ok, fail] at h
  · split at h
    · simp [panic] at h
    · rename_i c m hget
      obtain ⟨c', h1, h2⟩ := (bind_ok _ _ _).1 h
      cases h2
      exact LRL_set _ _ c' (hpc c c' h1 (LRL_get _ _ c m hget hp)) hp

theorem endFields_LR : ∀ (fs : BL) (seen : List Bool) (fs' : BL), endFields fs seen = .ok fs' → LRL fs → LRL fs'
  | .nil, _, fs', h, _ => by simp only [endFields] at h; cases h; trivial
  | .cons b m rest, [], fs', h, _ => by simp [endFields, panic] at h
  | .cons b m rest, s :: sr, fs', h, hp => by
    simp only [LRL] at hp
    simp only [endFields] at h
    split at h
    · obtain ⟨r, h1, h2⟩ := (bind_ok _ _ _).1 h
      cases h2
      simp only [LRL]; exact ⟨hp.1, endFields_LR rest sr r h1 hp.2⟩
    · split at h
      · simp [fail] at h
      · obtain ⟨b', h0, h'⟩ := (bind_ok _ _ _).1 h
        obtain ⟨r, h1, h2⟩ := (bind_ok _ _ _).1 h'
        cases h2
        simp only [LRL]; exact ⟨pushNone_LR b b' h0 hp.1, endFields_LR rest sr r h1 hp.2⟩

theorem SS.finishRow_LR {s s' : SS} (h : s.finishRow = .ok s') (hp : LRL s.fields) : LRL s'.fields := by
  simp only [SS.finishRow] at h
  obtain ⟨fs, h1, h2⟩ := (bind_ok _ _ _).1 h
  cases h2
  exact endFields_LR _ _ _ h1 hp

theorem record_LR {p len v fs cached next seen} {pf : SS → R SS} {b' : B}
    (hpf : ∀ s s', pf s = .ok s' → LRL s.fields → LRL s'.fields)
    (h : (do
      let s ← SS.start ⟨p, len, v, fs, cached, next, seen⟩
      let s ← pf s
      let s ← s.finishRow
      pure s.toB : R B) = .ok b') (hp : LRL fs) : LR b' := by
  obtain ⟨s1, h1, h⟩ := (bind_ok _ _ _).1 h
  obtain ⟨s2, h2, h⟩ := (bind_ok _ _ _).1 h
  obtain ⟨s3, h3, h⟩ := (bind_ok _ _ _).1 h
  cases h
  have e1 := SS.start_PX h1
  simp only [SS.toB, LR]
  exact SS.finishRow_LR h3 (hpf _ _ h2 (by rw [e1]; exact hp))

theorem recordWith_LR {pf : SS → R SS} (hpf : ∀ s s', pf s = .ok s' → LRL s.fields → LRL s'.fields) :
    ∀ (b b' : B), recordWith pf b = .ok b' → LR b → LR b' := by
  intro b b' h hp
  cases b with
  | struct p len v fs cached next seen => simp only [LR] at hp; exact record_LR hpf h hp
  | _ => simp [recordWith, notSupported, fail] at h

theorem seqLikeWith_LR {pe : Bool → B → List Int → R (B × List Int)} {pc : B → Nat → R (B × Nat)}
    {pt : SS → R SS} {bytes : R Bytes}
    (hpe : ∀ large el offs r, pe large el offs = .ok r → LR el → LR r.1)
    (hpc : ∀ el c r, pc el c = .ok r → LR el → LR r.1)
    (hpt : ∀ s s', pt s = .ok s' → LRL s.fields → LRL s'.fields) :
    ∀ (b : B) (k : SeqKind) (b' : B), seqLikeWith pe pc pt bytes b k = .ok b' → LR b → LR b' := by
  intro b k b' h hp
  cases b with
  | list p large fm v offs el =>
    simp only [seqLikeWith] at h
    obtain ⟨v', _, h⟩ := (bind_ok _ _ _).1 h
    obtain ⟨o1, _, h⟩ := (bind_ok _ _ _).1 h
    obtain ⟨⟨el', o2⟩, h3, h⟩ := (bind_ok _ _ _).1 h
    cases h
    simp only [LR] at hp ⊢
    exact hpe _ _ _ _ h3 hp
  | fixedSizeList p fm n len v cur el =>
    simp only [seqLikeWith] at h
    obtain ⟨v', _, h⟩ := (bind_ok _ _ _).1 h
    obtain ⟨⟨el', cnt⟩, h3, h⟩ := (bind_ok _ _ _).1 h
    simp only at h
    split at h
    · simp [fail] at h
    · cases h
      simp only [LR] at hp ⊢
      exact hpc _ _ _ h3 hp
  | bytes p ty v offs data =>
    simp only [seqLikeWith] at h
    split at h
    · obtain ⟨v', _, h⟩ := (bind_ok _ _ _).1 h
      obtain ⟨o1, _, h⟩ := (bind_ok _ _ _).1 h
      obtain ⟨bs, _, h⟩ := (bind_ok _ _ _).1 h
      obtain ⟨o2, _, h⟩ := (bind_ok _ _ _).1 h
      cases h
      simp only [LR]
    · simp [notSupported, fail] at h
  | bytesView p ty v views buf =>
    simp only [seqLikeWith] at h
    split at h
    · obtain ⟨v', _, h⟩ := (bind_ok _ _ _).1 h
      obtain ⟨bs, _, h⟩ := (bind_ok _ _ _).1 h
      obtain ⟨vp, _, h⟩ := (bind_ok _ _ _).1 h
      cases h
      simp only [LR]
    · simp [notSupported, fail] at h
  | fixedSizeBinary p n len v buf cur =>
    simp only [seqLikeWith] at h
    obtain ⟨v', _, h⟩ := (bind_ok _ _ _).1 h
    obtain ⟨bs, _, h⟩ := (bind_ok _ _ _).1 h
    split at h
    · simp [fail] at h
    · cases h
      simp only [LR]
  | struct p len v fs cached next seen =>
    simp only [LR] at hp
    cases k with
    | seq => simp [seqLikeWith, notSupported, fail] at h
    | tuple => simp only [seqLikeWith] at h; exact record_LR hpt h hp
    | tupleStruct => simp only [seqLikeWith] at h; exact record_LR hpt h hp
  | unknownVariant p => simp [seqLikeWith, fail] at h
  | null p len => simp [seqLikeWith, notSupported, fail] at h
  | leaf p kind v vals => simp [seqLikeWith, notSupported, fail] at h
  | map p mm v offs ks vs => simp [seqLikeWith, notSupported, fail] at h
  | dictionary p idx vals index => simp [seqLikeWith, notSupported, fail] at h
  | union p fs types offs cur => simp [seqLikeWith, notSupported, fail] at h

theorem union_row_LR {p fs types offs cur} {i : Nat} {pc : B → R B} {b' : B}
    (hpc : ∀ c c', pc c = .ok c' → LR c → LR c')
    (h : (do
      let (c, types', offs', cur') ← serializeVariant fs types offs cur i
      let c' ← pc c
      pure (.union p (fs.set i c') types' offs' cur') : R B) = .ok b') (hp : LRL fs) : LR b' := by
  obtain ⟨⟨c, t', o', cur'⟩, h1, h⟩ := (bind_ok _ _ _).1 h
  obtain ⟨c', h2, h⟩ := (bind_ok _ _ _).1 h
  cases h
  obtain ⟨m, hget⟩ := serializeVariant_get h1
  simp only [LR]
  exact LRL_set _ _ c' (hpc c c' h2 (LRL_get _ _ c m hget hp)) hp

theorem u8_ScalarOK (x : UInt8) : ScalarOK (.int .u8 x.toNat) := by
  refine Or.inr ?_
  have := x.toNat_lt
  rw [inRange_iff]
  simp only [IntTy.min, IntTy.max]
  omega

theorem pushByteElems_LR (ext : Ext) (he : ExtOK ext) (hf : FloatOK) (large : Bool) :
    ∀ (bs : Bytes) (el : B) (offs : List Int) (r : B × List Int),
    pushByteElems ext large el offs bs = .ok r → LR el → LR r.1
  | [], el, offs, r, h, hp => by simp only [pushByteElems] at h; cases h; exact hp
  | x :: rest, el, offs, r, h, hp => by
    simp only [pushByteElems] at h
    obtain ⟨o', _, h⟩ := (bind_ok _ _ _).1 h
    obtain ⟨el', h2, h⟩ := (bind_ok _ _ _).1 h
    exact pushByteElems_LR ext he hf large rest el' o' r h
      (pushScalar_LR ext he hf el _ el' (u8_ScalarOK x) ((ctx_ok _ _ _).1 h2) hp)

/-! ### the push block -/

mutual
/-- **`push` preserves `LR`** -/
theorem push_LR (ext : Ext) (he : ExtOK ext) (hf : FloatOK) : ∀ (x : SVal) (b b' : B), SValOK x →
    push ext b x = .ok b' → LR b → LR b'
  | .some v, b, b', hx, h, hp => by
    rw [push] at h; simp only [SValOK] at hx; exact push_LR ext he hf v b b' hx h hp
  | .newtypeStruct _ v, b, b', hx, h, hp => by
    rw [push] at h; simp only [SValOK] at hx; exact push_LR ext he hf v b b' hx h hp
  | .none, b, b', _, h, hp => by rw [push] at h; exact pushNone_LR b b' h hp
  | .unit, b, b', _, h, hp => by
    cases b with
    | unknownVariant p => simp [push, ctx_ok, fail] at h
    | _ => simp only [push] at h; exact pushNone_LR _ b' h hp
  | .seq xs, b, b', hx, h, hp => by
    rw [push, ctx_ok] at h
    simp only [SValOK] at hx
    exact seqLikeWith_LR (fun large el offs r hr => pushElems_LR ext he hf xs large el offs r hx hr)
      (fun el c r hr => pushCountElems_LR ext he hf xs el c r hx hr)
      (fun s s' hs => pushTupleElems_LR ext he hf xs s s' hx hs) b _ b' h hp
  | .tuple xs, b, b', hx, h, hp => by
    rw [push, ctx_ok] at h
    simp only [SValOK] at hx
    exact seqLikeWith_LR (fun large el offs r hr => pushElems_LR ext he hf xs large el offs r hx hr)
      (fun el c r hr => pushCountElems_LR ext he hf xs el c r hx hr)
      (fun s s' hs => pushTupleElems_LR ext he hf xs s s' hx hs) b _ b' h hp
  | .tupleStruct _ xs, b, b', hx, h, hp => by
    rw [push, ctx_ok] at h
    simp only [SValOK] at hx
    exact seqLikeWith_LR (fun large el offs r hr => pushElems_LR ext he hf xs large el offs r hx hr)
      (fun el c r hr => pushCountElems_LR ext he hf xs el c r hx hr)
      (fun s s' hs => pushTupleElems_LR ext he hf xs s s' hx hs) b _ b' h hp
  | .record _ fs, b, b', hx, h, hp => by
    rw [push, ctx_ok] at h
    simp only [SValOK] at hx
    exact recordWith_LR (fun s s' hs => pushFields_LR ext he hf fs s s' hx hs) b b' h hp
  | .map es, b, b', hx, h, hp => by
    simp only [SValOK] at hx
    cases b with
    | struct p len v fs cached next seen =>
      simp only [push, ctx_ok] at h
      simp only [LR] at hp
      exact record_LR (pf := fun s => pushStructEntries ext { s with next := UNKNOWN_KEY } es)
        (fun s s' hs hps => pushStructEntries_LR ext he hf es _ s' hx hs hps) h hp
    | map p mm v offs ks vs =>
      simp only [push, ctx_ok] at h
      obtain ⟨v', _, h⟩ := (bind_ok _ _ _).1 h
      obtain ⟨o1, _, h⟩ := (bind_ok _ _ _).1 h
      obtain ⟨⟨o2, ks', vs'⟩, h3, h⟩ := (bind_ok _ _ _).1 h
      cases h
      simp only [LR] at hp ⊢
      exact pushMapEntries_LR ext he hf es _ _ _ _ hx h3 hp.1 hp.2
    | _ => simp [push, ctx_ok, notSupported, fail] at h
  | .mapRaw ops, b, b', hx, h, hp => by
    simp only [SValOK] at hx
    cases b with
    | struct p len v fs cached next seen =>
      simp only [push, ctx_ok] at h
      simp only [LR] at hp
      exact record_LR (pf := fun s => pushStructOps ext { s with next := UNKNOWN_KEY } ops)
        (fun s s' hs hps => pushStructOps_LR ext he hf ops _ s' hx hs hps) h hp
    | map p mm v offs ks vs =>
      simp only [push, ctx_ok] at h
      obtain ⟨v', _, h⟩ := (bind_ok _ _ _).1 h
      obtain ⟨o1, _, h⟩ := (bind_ok _ _ _).1 h
      obtain ⟨⟨o2, ks', vs'⟩, h3, h⟩ := (bind_ok _ _ _).1 h
      cases h
      simp only [LR] at hp ⊢
      exact pushMapOps_LR ext he hf ops _ _ _ _ _ hx h3 hp.1 hp.2
    | _ => simp [push, ctx_ok, notSupported, fail] at h
  | .unitVariant n i vn, b, b', _, h, hp => by
    cases b with
    | union p fs types offs cur =>
      simp only [push, ctx_ok] at h
      simp only [LR] at hp
      refine union_row_LR (pc := fun c => match c with
          | .unknownVariant _ => ctx c.ann (fail "Unknown variant does not support serialize_unit")
          | _ => pushNone c) ?_ h hp
      intro c c' hc hpc
      split at hc
      · simp [ctx_ok, fail] at hc
      · exact pushNone_LR c c' hc hpc
    | _ => simp only [push, ctx_ok] at h; exact pushScalar_LR ext he hf _ (.unitVariant n i vn) b' trivial h hp
  | .newtypeVariant _ i _ v, b, b', hx, h, hp => by
    simp only [SValOK] at hx
    cases b with
    | union p fs types offs cur =>
      simp only [push, ctx_ok] at h
      simp only [LR] at hp
      exact union_row_LR (pc := fun c => push ext c v) (fun c c' hc hpc => push_LR ext he hf v c c' hx hc hpc) h hp
    | bytes _ ty _ _ _ => simp only [push, ctx_ok] at h; split at h <;> simp [notSupported, fail] at h
    | bytesView _ ty _ _ _ => simp only [push, ctx_ok] at h; split at h <;> simp [notSupported, fail] at h
    | _ => simp [push, ctx_ok, notSupported, fail] at h
  | .tupleVariant _ i _ xs, b, b', hx, h, hp => by
    simp only [SValOK] at hx
    cases b with
    | union p fs types offs cur =>
      simp only [push, ctx_ok] at h
      simp only [LR] at hp
      refine union_row_LR (pc := fun c => ctx c.ann (seqLikeWith (fun large el offs => pushElems ext large el offs xs)
        (fun el c => pushCountElems ext el c xs) (fun s => pushTupleElems ext s xs) (u8All xs) c .tupleStruct)) ?_ h hp
      intro c c' hc hpc
      rw [ctx_ok] at hc
      exact seqLikeWith_LR (fun large el offs r hr => pushElems_LR ext he hf xs large el offs r hx hr)
        (fun el c r hr => pushCountElems_LR ext he hf xs el c r hx hr)
        (fun s s' hs => pushTupleElems_LR ext he hf xs s s' hx hs) c _ c' hc hpc
    | bytes _ ty _ _ _ => simp only [push, ctx_ok] at h; split at h <;> simp [notSupported, fail] at h
    | bytesView _ ty _ _ _ => simp only [push, ctx_ok] at h; split at h <;> simp [notSupported, fail] at h
    | _ => simp [push, ctx_ok, notSupported, fail] at h
  | .structVariant _ i _ fields, b, b', hx, h, hp => by
    simp only [SValOK] at hx
    cases b with
    | union p fs types offs cur =>
      simp only [push, ctx_ok] at h
      simp only [LR] at hp
      refine union_row_LR (pc := fun c => ctx c.ann (recordWith (fun s => pushFields ext s fields) c)) ?_ h hp
      intro c c' hc hpc
      rw [ctx_ok] at hc
      exact recordWith_LR (fun s s' hs => pushFields_LR ext he hf fields s s' hx hs) c c' hc hpc
    | bytes _ ty _ _ _ => simp only [push, ctx_ok] at h; split at h <;> simp [notSupported, fail] at h
    | bytesView _ ty _ _ _ => simp only [push, ctx_ok] at h; split at h <;> simp [notSupported, fail] at h
    | _ => simp [push, ctx_ok, notSupported, fail] at h
  | .bytes bs, b, b', _, h, hp => by
    cases b with
    | list p large fm v offs el =>
      simp only [push, ctx_ok] at h
      obtain ⟨v', _, h⟩ := (bind_ok _ _ _).1 h
      obtain ⟨o1, _, h⟩ := (bind_ok _ _ _).1 h
      obtain ⟨⟨el', o2⟩, h3, h⟩ := (bind_ok _ _ _).1 h
      cases h
      simp only [LR] at hp ⊢
      exact pushByteElems_LR ext he hf large bs el o1 _ h3 hp
    | _ => simp only [push, ctx_ok] at h; exact pushScalar_LR ext he hf _ (.bytes bs) b' trivial h hp
  | .bool x, b, b', _, h, hp => by
    rw [push, ctx_ok] at h; exact pushScalar_LR ext he hf _ (.bool x) b' trivial h hp
  | .int t x, b, b', hx, h, hp => by
    rw [push, ctx_ok] at h; simp only [SValOK] at hx; exact pushScalar_LR ext he hf _ _ b' hx h hp
  | .f32 x, b, b', hx, h, hp => by
    rw [push, ctx_ok] at h; simp only [SValOK] at hx; exact pushScalar_LR ext he hf _ _ b' hx h hp
  | .f64 x, b, b', hx, h, hp => by
    rw [push, ctx_ok] at h; simp only [SValOK] at hx; exact pushScalar_LR ext he hf _ _ b' hx h hp
  | .char x, b, b', _, h, hp => by
    rw [push, ctx_ok] at h; exact pushScalar_LR ext he hf _ (.char x) b' trivial h hp
  | .str x, b, b', _, h, hp => by
    rw [push, ctx_ok] at h; exact pushScalar_LR ext he hf _ (.str x) b' trivial h hp
  | .unitStruct x, b, b', _, h, hp => by
    cases b with
    | unknownVariant p => simp [push, ctx_ok, fail] at h
    | _ => simp only [push] at h; exact pushNone_LR _ b' h hp

theorem pushElems_LR (ext : Ext) (he : ExtOK ext) (hf : FloatOK) :
    ∀ (xs : SVals) (large : Bool) (el : B) (offs : List Int) (r : B × List Int), SValsOK xs →
    pushElems ext large el offs xs = .ok r → LR el → LR r.1
  | .nil, large, el, offs, r, _, h, hp => by rw [pushElems] at h; cases h; exact hp
  | .cons x rest, large, el, offs, r, hx, h, hp => by
    rw [pushElems] at h
    simp only [SValsOK] at hx
    obtain ⟨o', _, h⟩ := (bind_ok _ _ _).1 h
    obtain ⟨el', h2, h⟩ := (bind_ok _ _ _).1 h
    exact pushElems_LR ext he hf rest large el' o' r hx.2 h (push_LR ext he hf x el el' hx.1 h2 hp)

theorem pushCountElems_LR (ext : Ext) (he : ExtOK ext) (hf : FloatOK) :
    ∀ (xs : SVals) (el : B) (c : Nat) (r : B × Nat), SValsOK xs →
    pushCountElems ext el c xs = .ok r → LR el → LR r.1
  | .nil, el, c, r, _, h, hp => by rw [pushCountElems] at h; cases h; exact hp
  | .cons x rest, el, c, r, hx, h, hp => by
    rw [pushCountElems] at h
    simp only [SValsOK] at hx
    obtain ⟨el', h2, h⟩ := (bind_ok _ _ _).1 h
    exact pushCountElems_LR ext he hf rest el' (c + 1) r hx.2 h (push_LR ext he hf x el el' hx.1 h2 hp)

theorem pushTupleElems_LR (ext : Ext) (he : ExtOK ext) (hf : FloatOK) :
    ∀ (xs : SVals) (s s' : SS), SValsOK xs → pushTupleElems ext s xs = .ok s' → LRL s.fields → LRL s'.fields
  | .nil, s, s', _, h, hp => by rw [pushTupleElems] at h; cases h; exact hp
  | .cons x rest, s, s', hx, h, hp => by
    rw [pushTupleElems] at h
    simp only [SValsOK] at hx
    split at h
    · obtain ⟨s1, h1, h⟩ := (bind_ok _ _ _).1 h
      exact pushTupleElems_LR ext he hf rest s1 s' hx.2 h
        (SS.element_LR (fun c c' hc hpc => push_LR ext he hf x c c' hx.1 hc hpc) h1 hp)
    · exact pushTupleElems_LR ext he hf rest s s' hx.2 h hp

theorem pushFields_LR (ext : Ext) (he : ExtOK ext) (hf : FloatOK) :
    ∀ (fs : SFields) (s s' : SS), SFieldsOK fs → pushFields ext s fs = .ok s' → LRL s.fields → LRL s'.fields
  | .nil, s, s', _, h, hp => by rw [pushFields] at h; cases h; exact hp
  | .cons key al x rest, s, s', hx, h, hp => by
    rw [pushFields] at h
    simp only [SFieldsOK] at hx
    split at h
    · exact pushFields_LR ext he hf rest _ s' hx.2 h hp
    · obtain ⟨s1, h1, h⟩ := (bind_ok _ _ _).1 h
      exact pushFields_LR ext he hf rest s1 s' hx.2 h
        (SS.element_LR (fun c c' hc hpc => push_LR ext he hf x c c' hx.1 hc hpc) h1 hp)

theorem pushStructEntries_LR (ext : Ext) (he : ExtOK ext) (hf : FloatOK) : ∀ (es : SEntries) (s s' : SS),
    SEntriesOK es → pushStructEntries ext s es = .ok s' → LRL s.fields → LRL s'.fields
  | .nil, s, s', _, h, hp => by rw [pushStructEntries] at h; cases h; exact hp
  | .cons k x rest, s, s', hx, h, hp => by
    rw [pushStructEntries] at h
    simp only [SEntriesOK] at hx
    obtain ⟨key, _, h⟩ := (bind_ok _ _ _).1 h
    split at h
    · exact pushStructEntries_LR ext he hf rest _ s' hx.2.2 h hp
    · obtain ⟨s1, h1, h⟩ := (bind_ok _ _ _).1 h
      have hp1 : LRL s1.fields := SS.element_LR (fun c c' hc hpc => push_LR ext he hf x c c' hx.2.1 hc hpc) h1 hp
      exact pushStructEntries_LR ext he hf rest _ s' hx.2.2 h hp1

theorem pushStructOps_LR (ext : Ext) (he : ExtOK ext) (hf : FloatOK) : ∀ (ops : SMapOps) (s s' : SS),
    SOpsOK ops → pushStructOps ext s ops = .ok s' → LRL s.fields → LRL s'.fields
  | .nil, s, s', _, h, hp => by rw [pushStructOps] at h; cases h; exact hp
  | .key k rest, s, s', hx, h, hp => by
    rw [pushStructOps] at h
    simp only [SOpsOK] at hx
    obtain ⟨key, _, h⟩ := (bind_ok _ _ _).1 h
    exact pushStructOps_LR ext he hf rest _ s' hx.2 h hp
  | .value x rest, s, s', hx, h, hp => by
    rw [pushStructOps] at h
    simp only [SOpsOK] at hx
    split at h
    · obtain ⟨s1, h1, h⟩ := (bind_ok _ _ _).1 h
      have hp1 : LRL s1.fields := SS.element_LR (fun c c' hc hpc => push_LR ext he hf x c c' hx.1 hc hpc) h1 hp
      exact pushStructOps_LR ext he hf rest _ s' hx.2 h hp1
    · exact pushStructOps_LR ext he hf rest _ s' hx.2 h hp

theorem pushMapEntries_LR (ext : Ext) (he : ExtOK ext) (hf : FloatOK) :
    ∀ (es : SEntries) (offs : List Int) (ks vs : B) (r : List Int × B × B), SEntriesOK es →
    pushMapEntries ext offs ks vs es = .ok r → LR ks → LR vs → LR r.2.1 ∧ LR r.2.2
  | .nil, offs, ks, vs, r, _, h, hk, hv => by rw [pushMapEntries] at h; cases h; exact ⟨hk, hv⟩
  | .cons k x rest, offs, ks, vs, r, hx, h, hk, hv => by
    rw [pushMapEntries] at h
    simp only [SEntriesOK] at hx
    obtain ⟨o', _, h⟩ := (bind_ok _ _ _).1 h
    obtain ⟨ks', h2, h⟩ := (bind_ok _ _ _).1 h
    obtain ⟨vs', h3, h⟩ := (bind_ok _ _ _).1 h
    exact pushMapEntries_LR ext he hf rest o' ks' vs' r hx.2.2 h
      (push_LR ext he hf k ks ks' hx.1 h2 hk) (push_LR ext he hf x vs vs' hx.2.1 h3 hv)

theorem pushMapOps_LR (ext : Ext) (he : ExtOK ext) (hf : FloatOK) :
    ∀ (ops : SMapOps) (pd : Bool) (offs : List Int) (ks vs : B) (r : List Int × B × B), SOpsOK ops →
    pushMapOps ext pd offs ks vs ops = .ok r → LR ks → LR vs → LR r.2.1 ∧ LR r.2.2
  | .nil, pd, offs, ks, vs, r, _, h, hk, hv => by
    obtain ⟨_, rfl⟩ := pushMapOps_nil_ok h; exact ⟨hk, hv⟩
  | .key k rest, pd, offs, ks, vs, r, hx, h, hk, hv => by
    simp only [SOpsOK] at hx
    obtain ⟨_, o', ks', _, h2, h⟩ := pushMapOps_key_ok h
    exact pushMapOps_LR ext he hf rest true o' ks' vs r hx.2 h (push_LR ext he hf k ks ks' hx.1 h2 hk) hv
  | .value x rest, pd, offs, ks, vs, r, hx, h, hk, hv => by
    simp only [SOpsOK] at hx
    obtain ⟨_, vs', h3, h⟩ := pushMapOps_value_ok h
    exact pushMapOps_LR ext he hf rest false offs ks vs' r hx.2 h hk (push_LR ext he hf x vs vs' hx.1 h3 hv)
end

end SaModel.Lemmas.C03
