import SaModel.Lemmas.C03WF
/-
`newDT_builtFor`: the builder `build_builder` creates for a field stands for that field (`BuiltFor`).  No hypothesis:
`build_builder` refuses Map types with other than two entry children and dictionaries with a non-integer key type (repo
fixes 095456f / 7359431; the pinned code ignored further entry children and the array it then produced was not of the
declared type, see notes/C03.md, Findings).
-/
namespace SaModel.Lemmas.C03
open SaModel SaModel.Build SaModel.Spec

theorem newValidity_isSome (nl : Bool) : (newValidity nl).isSome = nl := by cases nl <;> rfl

theorem newDT_builtFor_all :
    (∀ (path : String) (dt : DataType) (nl : Bool) (md : Metadata),
      ∀ b, newDT path dt nl md = .ok b → BuiltFor dt nl b) ∧
    (∀ (path : String) (ufs : UFields) (k : Nat),
      ∀ bl, newUnionFields path ufs k = .ok bl → BuiltForU ufs bl k) ∧
    (∀ (path : String) (f : Field),
      ∀ b, newB path f = .ok b → BuiltFor f.dataType f.nullable b) ∧
    (∀ (path : String) (fs : Fields),
      ∀ bl, newFields path fs = .ok bl → BuiltForL fs bl) := by
  apply newDT.mutual_induct
    (motive_1 := fun path dt nl md => ∀ b, newDT path dt nl md = .ok b → BuiltFor dt nl b)
    (motive_2 := fun path ufs k => ∀ bl, newUnionFields path ufs k = .ok bl → BuiltForU ufs bl k)
    (motive_3 := fun path f => ∀ b, newB path f = .ok b → BuiltFor f.dataType f.nullable b)
    (motive_4 := fun path fs => ∀ bl, newFields path fs = .ok bl → BuiltForL fs bl)
  all_goals try (
    intros
    rename_i h
    simp only [newDT, bind, Except.bind, pure, Except.pure, ctx, fail, *, if_true, if_false] at h
    try (cases h)
    simp [BuiltFor, leafDT, intDT, bytesDT, viewDT, newValidity_isSome]
    done)
  all_goals try (
    intros
    rename_i h
    simp [newDT, newFields, newUnionFields, ctx, fail, *] at h
    done)
  case case17 =>
    intro path u tz nl md b h
    simp only [newDT, bind, Except.bind] at h
    cases hu : isUtcTz tz with
    | error e => rw [hu] at h; cases h
    | ok utc =>
      rw [hu] at h; cases h
      simp [BuiltFor, leafDT, newValidity_isSome]
  case case32 =>
    intro path n nl md hn b h
    simp only [newDT, hn, if_false] at h
    cases h
    have : ((n.toNat : Nat) : Int) = n := Int.toNat_of_nonneg (by omega)
    simp [BuiltFor, newValidity_isSome, this]
  case case33 =>
    intro path child nl md ih b h
    simp only [newDT, bind, Except.bind] at h
    cases hc : newB (path ++ "." ++ childName child.name) child with
    | error e => rw [hc] at h; cases h
    | ok el =>
      rw [hc] at h; cases h
      simp only [BuiltFor]
      exact ⟨child, by simp, rfl, newValidity_isSome nl, ih el hc⟩
  case case34 =>
    intro path child nl md ih b h
    simp only [newDT, bind, Except.bind] at h
    cases hc : newB (path ++ "." ++ childName child.name) child with
    | error e => rw [hc] at h; cases h
    | ok el =>
      rw [hc] at h; cases h
      simp only [BuiltFor]
      exact ⟨child, by simp, rfl, newValidity_isSome nl, ih el hc⟩
  case case36 =>
    intro path child n nl md hn ih b h
    simp only [newDT, hn, if_false, bind, Except.bind] at h
    cases hc : newB (path ++ "." ++ childName child.name) child with
    | error e => rw [hc] at h; cases h
    | ok el =>
      rw [hc] at h; cases h
      have : ((n.toNat : Nat) : Int) = n := Int.toNat_of_nonneg (by omega)
      simp only [BuiltFor]
      exact ⟨child, by rw [this], rfl, newValidity_isSome nl, ih el hc⟩
  case case38 =>
    intro path ename kf vf emd sorted nl md ihk ihv b h
    simp only [newDT, bind, Except.bind] at h
    cases hk : newB (path ++ "." ++ childName ename ++ "." ++ childName kf.name) kf with
    | error e => rw [hk] at h; cases h
    | ok kb =>
      rw [hk] at h
      cases hv : newB (path ++ "." ++ childName ename ++ "." ++ childName vf.name) vf with
      | error e => rw [hv] at h; cases h
      | ok vb =>
        rw [hv] at h; cases h
        simp only [BuiltFor]
        exact ⟨ename, kf, vf, sorted, false, emd, rfl, rfl, newValidity_isSome nl, ihk kb hk, ihv vb hv⟩
  case case43 =>
    intro path fs nl md ih b h
    simp only [newDT, bind, Except.bind] at h
    cases hf : newFields path fs with
    | error e => rw [hf] at h; cases h
    | ok bl =>
      rw [hf] at h
      simp only [mkStruct] at h
      split at h
      · cases h
      · cases h
        simp only [BuiltFor]
        exact ⟨fs, rfl, newValidity_isSome nl, ih bl hf⟩
  case case44 =>
    intro path k v nl md hint ihk ihv b h
    simp only [newDT, hint, if_true, bind, Except.bind] at h
    cases hk : newDT (path ++ ".key") k nl [] with
    | error e => rw [hk] at h; cases h
    | ok kb =>
      rw [hk] at h
      cases hv : newDT (path ++ ".value") v false [] with
      | error e => rw [hv] at h; cases h
      | ok vb =>
        rw [hv] at h; cases h
        simp only [BuiltFor]
        exact ⟨k, v, rfl, hint, ihk kb hk, ihv vb hv⟩
  case case46 =>
    intro path fs nl md ih b h
    simp only [newDT, bind, Except.bind] at h
    cases hf : newUnionFields path fs 0 with
    | error e => rw [hf] at h; cases h
    | ok bl =>
      rw [hf] at h; cases h
      simp only [BuiltFor]
      exact ⟨fs, .dense, rfl, ih bl hf⟩
  case case50 =>
    intro path name dt nl md ih b h
    simp only [newB] at h
    exact ih b h
  case case51 =>
    intro path bl h
    simp only [newFields] at h; cases h
    simp [BuiltForL]
  case case52 =>
    intro path f rest ihf ihr bl h
    simp only [newFields, bind, Except.bind] at h
    cases hb : newB (path ++ "." ++ f.name) f with
    | error e => rw [hb] at h; cases h
    | ok b =>
      rw [hb] at h
      cases hr : newFields path rest with
      | error e => rw [hr] at h; cases h
      | ok r =>
        rw [hr] at h; cases h
        simp only [BuiltForL]
        exact ⟨trivial, ihf b hb, ihr r hr⟩
  case case53 =>
    intro path k bl h
    simp only [newUnionFields] at h; cases h
    simp [BuiltForU]
  case case55 =>
    intro path tid f rest idx hne ihf ihr bl h
    simp only [newUnionFields, hne, bind, Except.bind] at h
    cases hb : newB (path ++ "." ++ childName f.name) f with
    | error e => rw [hb] at h; cases h
    | ok b =>
      rw [hb] at h
      cases hr : newUnionFields path rest (idx + 1) with
      | error e => rw [hr] at h; cases h
      | ok r =>
        rw [hr] at h; cases h
        simp only [BuiltForU]
        exact ⟨by simpa using hne, trivial, ihf b hb, ihr r hr⟩

/-- **the builder `build_builder` creates for a field stands for that field** (no hypothesis: `build_builder` refuses
Map fields with other than two entry children and non-integer dictionary key types) -/
theorem newDT_builtFor (path : String) (dt : DataType) (nl : Bool) (md : Metadata) (b : B)
    (h : newDT path dt nl md = .ok b) : BuiltFor dt nl b :=
  newDT_builtFor_all.1 path dt nl md b h

theorem newB_builtFor (path : String) (f : Field) (b : B) (h : newB path f = .ok b) :
    BuiltFor f.dataType f.nullable b :=
  newDT_builtFor_all.2.2.1 path f b h

theorem newFields_builtFor (path : String) (fs : Fields) (bl : BL) (h : newFields path fs = .ok bl) :
    BuiltForL fs bl :=
  newDT_builtFor_all.2.2.2 path fs bl h

/-- the root builder (`OuterSequenceBuilder::new`) stands for the non-nullable struct of the fields -/
theorem newRoot_builtFor (fields : List Field) (root : B) (h : newRoot fields = .ok root) :
    BuiltFor (.struct (Fields.ofList fields)) false root := by
  simp only [newRoot, bind, Except.bind] at h
  cases hf : newFields "$" (Fields.ofList fields) with
  | error e => rw [hf] at h; cases h
  | ok bl =>
    rw [hf] at h
    simp only [mkStruct] at h
    split at h
    · cases h
    · cases h
      simp only [BuiltFor]
      exact ⟨_, rfl, rfl, newFields_builtFor "$" _ bl hf⟩

/-! ### reading the per-column facts off `wfFields` -/

theorem wfFields_get : ∀ (fs : Fields) (afs : ArrFields) (len : Nat), wfFields fs afs len = true →
    afs.toList.length = fs.toList.length ∧
    ∀ (j : Nat) (f : Field) (ma : FieldMeta × Arr), fs.toList[j]? = some f → afs.toList[j]? = some ma →
      metaMatches ma.1 f = true ∧ (decodeAll ma.2).length = len ∧ WFS f ma.2 = true
  | .nil, .nil, _, _ => by simp [ArrFields.toList, Fields.toList]
  | .nil, .cons _ _ _, _, h => by simp [wfFields] at h
  | .cons _ _, .nil, _, h => by simp [wfFields] at h
  | .cons f r, .cons m a ar, len, h => by
    simp only [wfFields, Bool.and_eq_true, beq_iff_eq] at h
    obtain ⟨⟨⟨h1, h2⟩, h3⟩, h4⟩ := h
    obtain ⟨ihl, ih⟩ := wfFields_get r ar len h4
    refine ⟨by simp [ArrFields.toList, Fields.toList, ihl], ?_⟩
    intro j g ma hg hma
    cases j with
    | zero =>
      simp only [Fields.toList, ArrFields.toList, List.getElem?_cons_zero, Option.some.injEq] at hg hma
      subst hg; subst hma
      exact ⟨h1, h2, h3⟩
    | succ j =>
      simp only [Fields.toList, ArrFields.toList, List.getElem?_cons_succ] at hg hma
      exact ih j g ma hg hma

end SaModel.Lemmas.C03
