import SaModel.Lemmas.C03Assemble
import SaModel.Lemmas.C03Faithful
import SaModel.Lemmas.C01ObsAlg
/-
The physical layer without `Safe`: `finish_decodeP` for the weak state invariant `WFH` (Lemmas/C01ObsDefs.lean), and the
relation of the physical reading `decP` (what the finished array really means) to the OBSERVABLE rows `decH`:

  finish_decodePH     : WFH b → Sound b → finish ext b = ok a → decodeAll a = (decP b).map ok
  decP_sound          : Refines ((decP b).map some) (decH b)         (every determined row is the row the array means)
  decP_eq_dec_of_det  : (∀ r ∈ decH b, r.isSome) → decP b = dec b
  PlaceholderOK       : the value builder of every dictionary with non-nullable keys has a placeholder row
  Sound_of_WFH        : WFH b → ShapeOK b → PlaceholderOK b → Sound b
-/
namespace SaModel.Lemmas.C03
open SaModel SaModel.Build SaModel.Spec SaModel.Lemmas.Bits

/-! ### accessors of the weak state invariant (the only place that looks inside `WFH`) -/

theorem WFH_leaf {p k v vals} (h : WFH (.leaf p k v vals)) : VLen v vals.length := by
  simpa [WFH] using h
theorem WFH_bytes {p ty v offs data} (h : WFH (.bytes p ty v offs data)) :
    OffsOK offs data.length ∧ VLen v (offs.length - 1) := by
  simp only [WFH] at h; exact ⟨h.1, h.2⟩
theorem WFH_bytesView {p ty v views buf} (h : WFH (.bytesView p ty v views buf)) :
    VLen v views.length ∧ ∀ d ∈ views, (decodeView [buf] d).isOk = true := by
  simp only [WFH] at h; exact ⟨h.1, h.2.1⟩
theorem WFH_fixedSizeBinary {p n len v buf cur} (h : WFH (.fixedSizeBinary p n len v buf cur)) :
    VLen v len ∧ buf.length = len * n := by
  simp only [WFH] at h; exact ⟨h.1, h.2⟩
theorem WFH_list {p large fm v offs el} (h : WFH (.list p large fm v offs el)) :
    OffsOK offs (dec el).length ∧ VLen v (offs.length - 1) ∧ WFH el := by
  simp only [WFH] at h; exact ⟨h.1, h.2.1, h.2.2⟩
theorem WFH_fixedSizeList {p fm n len v cur el} (h : WFH (.fixedSizeList p fm n len v cur el)) :
    VLen v len ∧ (dec el).length = len * n ∧ WFH el := by
  simp only [WFH] at h; exact ⟨h.1, h.2.1, h.2.2⟩
theorem WFH_map {p mm v offs ks vs} (h : WFH (.map p mm v offs ks vs)) :
    OffsOK offs (dec ks).length ∧ (dec vs).length = (dec ks).length ∧ VLen v (offs.length - 1) ∧ WFH ks ∧ WFH vs := by
  simp only [WFH] at h; exact ⟨h.1, h.2.1, h.2.2.1, h.2.2.2.1, h.2.2.2.2⟩
theorem WFH_struct {p len v fs cached next seen} (h : WFH (.struct p len v fs cached next seen)) :
    VLen v len ∧ WFHL fs len := by
  simp only [WFH] at h; exact ⟨h.1, h.2.1⟩
theorem WFH_dictionary {p idx vals index} (h : WFH (.dictionary p idx vals index)) :
    WFH idx ∧ WFH vals ∧ (dec vals).length = index.length := by
  simp only [WFH] at h; exact ⟨h.1, h.2.1, h.2.2.2.1⟩
/-- the values of a dictionary are all determined -/
theorem WFH_dictionary_det {p idx vals index} (h : WFH (.dictionary p idx vals index)) :
    ∀ r ∈ decH vals, r.isSome = true := by
  simp only [WFH] at h; exact h.2.2.2.2.2.2
/-- the weak key clause -/
theorem WFH_dictionary_keys {p idx vals index} (h : WFH (.dictionary p idx vals index)) : KeysH idx index := by
  simp only [WFH] at h; exact h.2.2.2.2.1
theorem WFH_union {p fs types offs cur} (h : WFH (.union p fs types offs cur)) :
    types.length = offs.length ∧ WFHU fs cur ∧
    (∀ (i : Nat) (t o : Int), types[i]? = some t → offs[i]? = some o →
      0 ≤ t ∧ 0 ≤ o ∧ ∃ c, fs.get? t.toNat = some c ∧ o.toNat < (dec c.1).length) := by
  simp only [WFH] at h
  refine ⟨h.1, h.2.2.1, ?_⟩
  intro i t o ht ho
  exact h.2.2.2 (t, o) (mem_zip_of_getElem? types offs i t o ht ho)

/-- every child of a builder list satisfies the weak state invariant -/
def WFHs : BL → Prop
  | .nil => True
  | .cons b _ r => WFH b ∧ WFHs r

theorem WFHL_WFHs : ∀ (fs : BL) (len : Nat), WFHL fs len → WFHs fs
  | .nil, _, _ => trivial
  | .cons _ _ r, len, h => by
    simp only [WFHL] at h
    exact ⟨h.1, WFHL_WFHs r len h.2.2⟩

theorem WFHU_WFHs : ∀ (fs : BL) (cur : List Int), WFHU fs cur → WFHs fs
  | .nil, _, _ => trivial
  | .cons _ _ r, cur, h => by
    simp only [WFHU] at h
    exact ⟨h.1, WFHU_WFHs r cur.tail h.2.2⟩

theorem WFHL_len : ∀ (fs : BL) (len : Nat), WFHL fs len → ∀ c ∈ decCols fs, c.2.length = len
  | .nil, _, _ => by simp [decCols]
  | .cons b m r, len, h => by
    simp only [WFHL] at h
    intro c hc
    simp only [decCols, List.mem_cons] at hc
    rcases hc with hc | hc
    · rw [hc]; exact h.2.1
    · exact WFHL_len r len h.2.2 c hc

theorem decPCols_lenH : ∀ (fs : BL) (len : Nat), WFHL fs len → ∀ c ∈ decPCols fs, c.2.length = len
  | .nil, _, _ => by simp [decPCols]
  | .cons b m r, len, h => by
    simp only [WFHL] at h
    intro c hc
    simp only [decPCols, List.mem_cons] at hc
    rcases hc with hc | hc
    · rw [hc]; simp only [decP_length]; exact h.2.1
    · exact decPCols_lenH r len h.2.2 c hc

/-! ### the assembled recursion, weak invariant (copy of `finish_decodeP`: the key clause is never used — the keys come
from `Sound`) -/

/-- the finished dictionary's values, placeholder included, slot by slot -/
theorem placeholder_slotsH (ext : Ext) (vals : B) (va : Arr) (hw : WFH vals) (hfin : finish ext vals = .ok va)
    (ih : decodeAll va = (decP vals).map .ok) (j : Nat) (hj : j < (decP vals ++ placeholderVals vals).length) :
    slot (decodeAll (appendEmptyStr va)) j = .ok ((decP vals ++ placeholderVals vals).getD j .null) := by
  have generic : placeholderVals vals = [] →
      slot (decodeAll (appendEmptyStr va)) j = .ok ((decP vals ++ placeholderVals vals).getD j .null) := by
    intro hnil
    rw [hnil, List.append_nil] at hj ⊢
    rw [appendEmptyStr_slot_lt va j (by rw [ih]; simpa using hj), ih, slot_map_ok _ j hj,
      getD_eq_getElem _ j _ hj]
  cases vals with
  | bytes p ty v offs data =>
    cases v with
    | some bits => exact generic rfl
    | none =>
      simp only [finish] at hfin; cases hfin
      rw [show (finishValidity none : Option Bits) = none from rfl,
        appendEmptyStr_bytes ty offs data (WFH_bytes hw).1]
      simp only [decP, placeholderVals] at hj ⊢
      rw [slot_map_ok _ j hj, getD_eq_getElem _ j _ hj]
  | bytesView p ty v views buf =>
    cases v with
    | some bits => exact generic rfl
    | none =>
      simp only [finish] at hfin; cases hfin
      rw [show (finishValidity none : Option Bits) = none from rfl,
        appendEmptyStr_bytesView ty views buf (WFH_bytesView hw).2]
      simp only [decP, placeholderVals] at hj ⊢
      rw [slot_map_ok _ j hj, getD_eq_getElem _ j _ hj]
  | _ => exact generic rfl

/-! ### the assembled recursion -/

mutual
/-- **the finished array means exactly `decP` of the builder state, in every slot** -/
theorem finish_decodePH (ext : Ext) : ∀ (b : B) (a : Arr), WFH b → Sound b → finish ext b = .ok a →
    decodeAll a = (decP b).map .ok
  | .null _ len, a, _, _, h => by
    simp only [finish] at h; cases h
    simp [decodeAll, decP]
  | .unknownVariant _, a, _, _, h => by
    simp only [finish] at h; cases h
    simp [decodeAll, decP]
  | .leaf _ k v vals, a, hw, _, h => by
    simp only [finish] at h; cases h
    simp only [decP]
    exact finishLeaf_decode k v vals (WFH_leaf hw)
  | .bytes _ ty v offs data, a, hw, _, h => by
    simp only [finish] at h; cases h
    obtain ⟨ho, hv⟩ := WFH_bytes hw
    simp only [decP]
    exact bytes_decode ty v offs data ho hv
  | .bytesView _ ty v views buf, a, hw, _, h => by
    simp only [finish] at h; cases h
    obtain ⟨hv, hd⟩ := WFH_bytesView hw
    simp only [decP]
    exact bytesView_decode ty v views buf hv hd
  | .fixedSizeBinary _ n len v buf _, a, hw, hf, h => by
    simp only [finish] at h
    split at h
    · cases h
    · cases h
      obtain ⟨hv, hb⟩ := WFH_fixedSizeBinary hw
      simp only [decP]
      exact fixedSizeBinary_decode n len v buf hv hb (Sound_fixedSizeBinary hf)
  | .list _ large fm v offs el, a, hw, hf, h => by
    obtain ⟨ho, hv, hwe⟩ := WFH_list hw
    simp only [finish, bind, Except.bind] at h
    cases he : finish ext el with
    | error e => rw [he] at h; cases h
    | ok ela =>
      rw [he] at h; cases h
      have ih := finish_decodePH ext el ela hwe (Sound_list hf) he
      simp only [decP]
      exact list_decode large v offs fm ela (decP el) ih (by rw [decP_length]; exact ho) hv
  | .fixedSizeList _ fm n len v _ el, a, hw, hf, h => by
    obtain ⟨hv, hx, hwe⟩ := WFH_fixedSizeList hw
    simp only [finish] at h
    split at h
    · cases h
    · simp only [bind, Except.bind] at h
      cases he : finish ext el with
      | error e => rw [he] at h; cases h
      | ok ela =>
        rw [he] at h; cases h
        have ih := finish_decodePH ext el ela hwe (Sound_fixedSizeList hf) he
        simp only [decP]
        exact fixedSizeList_decode len n v fm ela (decP el) ih (by rw [decP_length]; exact hx) hv
  | .map _ mm v offs ks vs, a, hw, hf, h => by
    obtain ⟨ho, hlen, hv, hwk, hwv⟩ := WFH_map hw
    simp only [finish, bind, Except.bind] at h
    cases hek : finish ext ks with
    | error e => rw [hek] at h; cases h
    | ok ka =>
      rw [hek] at h
      cases hev : finish ext vs with
      | error e => rw [hev] at h; cases h
      | ok va =>
        rw [hev] at h; cases h
        have ihk := finish_decodePH ext ks ka hwk (Sound_map hf).1 hek
        have ihv := finish_decodePH ext vs va hwv (Sound_map hf).2 hev
        simp only [decP]
        exact map_decode v offs mm ka va (decP ks) (decP vs) ihk ihv (by rw [decP_length]; exact ho)
          (by rw [decP_length, decP_length]; exact hlen) hv
  | .struct _ len v fs _ _ _, a, hw, hf, h => by
    obtain ⟨hv, hl⟩ := WFH_struct hw
    simp only [finish, bind, Except.bind] at h
    cases he : finishFields ext fs with
    | error e => rw [he] at h; cases h
    | ok afs =>
      rw [he] at h; cases h
      have ih := finishFields_decodePH ext fs afs (WFHL_WFHs fs len hl) (Sound_struct hf) he
      simp only [decP]
      exact struct_decode len v afs (decPCols fs) ih (decPCols_lenH fs len hl) hv
  | .dictionary _ idx vals index, a, hw, hf, h => by
    obtain ⟨hwi, hwv, _⟩ := WFH_dictionary hw
    obtain ⟨hfi, hfv, hkeys⟩ := Sound_dictionary hf
    simp only [finish, bind, Except.bind] at h
    cases hei : finish ext idx with
    | error e => rw [hei] at h; cases h
    | ok ka =>
      rw [hei] at h
      cases hev : finish ext vals with
      | error e => rw [hev] at h; cases h
      | ok va =>
        rw [hev] at h
        dsimp only at h
        have ihk := finish_decodePH ext idx ka hwi hfi hei
        have ihv := finish_decodePH ext vals va hwv hfv hev
        simp only [decP]
        split at h
        · -- placeholder branch
          rename_i hc
          have hnp : needsPlaceholder idx index = true := hc
          simp only [dictVals, hnp, if_true] at hkeys ⊢
          split at h
          · cases h
          · cases h
            exact dictionary_decode ka _ (decP idx) _ _ ihk
              (fun j hj => placeholder_slotsH ext vals va hwv hev ihv j hj) hkeys
        · rename_i hc
          have hnp : needsPlaceholder idx index = false := by
            simpa [needsPlaceholder] using hc
          simp only [dictVals, hnp] at hkeys ⊢
          cases h
          refine dictionary_decode ka va (decP idx) (decP vals) _ ihk ?_ hkeys
          intro j hj
          simp only [Bool.false_eq_true, if_false] at hj
          rw [ihv, slot_map_ok _ j hj, getD_eq_getElem _ j _ hj]
  | .union _ fs types offs cur, a, hw, hf, h => by
    obtain ⟨hlen, hwu, hr⟩ := WFH_union hw
    simp only [finish, bind, Except.bind] at h
    cases he : finishUFields ext fs 0 with
    | error e => rw [he] at h; cases h
    | ok afs =>
      rw [he] at h; cases h
      obtain ⟨hids, hcols⟩ := finishUFields_decodePH ext fs 0 afs (WFHU_WFHs fs cur hwu) (Sound_union hf) he
      simp only [decP]
      refine union_decode types offs afs (decPCols fs) ?_ hcols hlen ?_
      · rw [hids, decPCols_length]; simp
      · intro i t o ht ho
        obtain ⟨h0, h1, c, hc, hlt⟩ := hr i t o ht ho
        exact ⟨h0, h1, _, decPCols_get? fs _ c hc, by simpa [decP_length] using hlt⟩
theorem finishFields_decodePH (ext : Ext) : ∀ (fs : BL) (afs : ArrFields), WFHs fs → SoundL fs →
    finishFields ext fs = .ok afs → decodeFields afs = (decPCols fs).map fun c => (c.1, c.2.map .ok)
  | .nil, afs, _, _, h => by
    simp only [finishFields] at h; cases h
    simp [decodeFields, decPCols]
  | .cons b m rest, afs, hw, hf, h => by
    simp only [WFHs] at hw
    simp only [SoundL] at hf
    simp only [finishFields, bind, Except.bind] at h
    cases hb : finish ext b with
    | error e => rw [hb] at h; cases h
    | ok a =>
      rw [hb] at h
      cases hr : finishFields ext rest with
      | error e => rw [hr] at h; cases h
      | ok ar =>
        rw [hr] at h; cases h
        simp only [decodeFields, decPCols, List.map_cons, finish_decodePH ext b a hw.1 hf.1 hb,
          finishFields_decodePH ext rest ar hw.2 hf.2 hr]
theorem finishUFields_decodePH (ext : Ext) : ∀ (fs : BL) (k : Nat) (afs : ArrUFields), WFHs fs → SoundL fs →
    finishUFields ext fs k = .ok afs →
    (decodeUFields afs).map (·.1) = (List.range fs.length).map (fun i => ((k + i : Nat) : Int)) ∧
    (decodeUFields afs).map (·.2) = (decPCols fs).map fun c => c.2.map .ok
  | .nil, k, afs, _, _, h => by
    simp only [finishUFields] at h; cases h
    simp [decodeUFields, decPCols, BL.length]
  | .cons b m rest, k, afs, hw, hf, h => by
    simp only [WFHs] at hw
    simp only [SoundL] at hf
    simp only [finishUFields] at h
    split at h
    · cases h
    · simp only [bind, Except.bind] at h
      cases hb : finish ext b with
      | error e => rw [hb] at h; cases h
      | ok a =>
        rw [hb] at h
        cases hr : finishUFields ext rest (k + 1) with
        | error e => rw [hr] at h; cases h
        | ok ar =>
          rw [hr] at h; cases h
          obtain ⟨h1, h2⟩ := finishUFields_decodePH ext rest (k + 1) ar hw.2 hf.2 hr
          refine ⟨?_, ?_⟩
          · simp only [decodeUFields, List.map_cons, BL.length, h1, List.range_succ_eq_map, List.map_map]
            congr 1
            apply List.map_congr_left
            intro i _
            simp only [Function.comp]
            congr 1; omega
          · simp only [decodeUFields, decPCols, List.map_cons, h2, finish_decodePH ext b a hw.1 hf.1 hb]
end



/-! ### determined observable rows are the rows the finished array means -/

theorem Refines_nil : Refines [] [] := ⟨rfl, by intro i x h; simp at h⟩

theorem Refines_cons {a b : Option LVal} {as bs : H} (h0 : ∀ x, b = some x → a = some x) (h : Refines as bs) :
    Refines (a :: as) (b :: bs) := by
  refine ⟨by simp [h.1], ?_⟩
  intro i x hx
  cases i with
  | zero =>
    simp only [List.getElem?_cons_zero, Option.some.injEq] at hx ⊢
    exact h0 x hx
  | succ i =>
    simp only [List.getElem?_cons_succ] at hx ⊢
    exact h.2 i x hx

/-- row by row: a determined row of `G` is the row of `F` -/
theorem Refines_map_pt {α} (F : α → LVal) (G : α → Option LVal) : ∀ (l : List α),
    (∀ a ∈ l, ∀ x, G a = some x → F a = x) → Refines ((l.map F).map some) (l.map G)
  | [], _ => Refines_nil
  | a :: r, h => by
    simp only [List.map_cons]
    exact Refines_cons (fun x hx => by rw [h a (by simp) x hx])
      (Refines_map_pt F G r (fun b hb => h b (by simp [hb])))

theorem Refines_zipWith_pt {α β} (F : α → β → LVal) (G : α → β → Option LVal)
    (h : ∀ a b x, G a b = some x → F a b = x) :
    ∀ (l : List α) (m : List β), Refines ((List.zipWith F l m).map some) (List.zipWith G l m)
  | [], _ => by simp only [List.zipWith_nil_left, List.map_nil]; exact Refines_nil
  | _ :: _, [] => by simp only [List.zipWith_nil_right, List.map_nil]; exact Refines_nil
  | a :: r, b :: s => by
    simp only [List.zipWith_cons_cons, List.map_cons]
    exact Refines_cons (fun x hx => by rw [h a b x hx]) (Refines_zipWith_pt F G h r s)

theorem getElem?_of_map_some {ys : List LVal} {i : Nat} {x : LVal} (h : (ys.map some)[i]? = some (some x)) :
    ys[i]? = some x := by
  rw [List.getElem?_map] at h
  cases hy : ys[i]? with
  | none => rw [hy] at h; cases h
  | some y => rw [hy] at h; simpa using h

/-- a row function applied to the rows of a child -/
theorem Refines_map_row {ys : List LVal} {hs : H} (hr : Refines (ys.map some) hs) (f : LVal → LVal)
    (g : Option LVal → Option LVal) (hnone : g none = none) (hfg : ∀ y x, g (some y) = some x → f y = x) :
    Refines ((ys.map f).map some) (hs.map g) := by
  refine ⟨by simpa using hr.1, ?_⟩
  intro i x hx
  rw [List.getElem?_map] at hx
  cases hk : hs[i]? with
  | none => rw [hk] at hx; cases hx
  | some k =>
    rw [hk] at hx
    simp only [Option.map_some, Option.some.injEq] at hx
    cases k with
    | none => rw [hnone] at hx; cases hx
    | some y =>
      have hy := getElem?_of_map_some (hr.2 i y hk)
      simp only [List.getElem?_map, hy, Option.map_some, hfg y x hx]

theorem Refines_getD {ys : List LVal} {hs : H} (hr : Refines (ys.map some) hs) (i : Nat) (x : LVal)
    (hx : hs.getD i (some .null) = some x) : ys.getD i .null = x := by
  rw [List.getD_eq_getElem?_getD] at hx ⊢
  cases hk : hs[i]? with
  | none =>
    rw [hk] at hx
    simp only [Option.getD_none, Option.some.injEq] at hx
    have hlen : ys.length = hs.length := by simpa using hr.1
    have : hs.length ≤ i := by
      rcases Nat.lt_or_ge i hs.length with h | h
      · rw [List.getElem?_eq_getElem h] at hk; cases hk
      · exact h
    rw [List.getElem?_eq_none (by omega)]
    exact hx
  | some k =>
    rw [hk] at hx
    simp only [Option.getD_some] at hx
    subst hx
    rw [getElem?_of_map_some (hr.2 i x hk)]
    rfl

theorem allSome_of_refines {ys : List LVal} {hs : H} (hr : Refines (ys.map some) hs) {xs : List LVal}
    (ha : allSome hs = some xs) : xs = ys := by
  have := allSome_refines hr ha
  rw [allSome_map_some] at this
  exact (Option.some.inj this).symm

theorem sliceL_map {α β} (f : α → β) (l : List α) (s e : Int) : sliceL (l.map f) s e = (sliceL l s e).map f := by
  simp only [sliceL, List.map_take, List.map_drop]

theorem Refines_slice_map {ys : List LVal} {hs : H} (hr : Refines (ys.map some) hs) (s e : Int) :
    Refines ((sliceL ys s e).map some) (sliceL hs s e) := by
  rw [← sliceL_map]; exact hr.slice s e

theorem Refines_chunk_map {ys : List LVal} {hs : H} (hr : Refines (ys.map some) hs) (k n : Nat) :
    Refines (((ys.drop k).take n).map some) ((hs.drop k).take n) := by
  rw [List.map_take, List.map_drop]; exact (hr.drop k).take n

/-- columns: same names, determined rows agree -/
def ColsRef : List (String × List LVal) → List (String × H) → Prop
  | [], [] => True
  | c :: r, d :: s => c.1 = d.1 ∧ Refines (c.2.map some) d.2 ∧ ColsRef r s
  | _, _ => False

theorem ColsRef_row : ∀ (cs : List (String × List LVal)) (ds : List (String × H)) (i : Nat) (fl : List (String × LVal)),
    ColsRef cs ds → allSome (ds.map fun c => (c.2.getD i (some .null)).map fun x => (c.1, x)) = some fl →
    fl = cs.map fun c => (c.1, c.2.getD i .null)
  | [], [], _, fl, _, h => by
    simp only [List.map_nil, allSome, Option.some.injEq] at h
    rw [← h]; rfl
  | [], _ :: _, _, _, hc, _ => by simp [ColsRef] at hc
  | _ :: _, [], _, _, hc, _ => by simp [ColsRef] at hc
  | c :: r, d :: s, i, fl, hc, h => by
    simp only [ColsRef] at hc
    simp only [List.map_cons] at h ⊢
    cases hd : d.2.getD i (some .null) with
    | none => rw [hd] at h; simp [allSome] at h
    | some x =>
      rw [hd] at h
      simp only [Option.map_some, allSome] at h
      cases hrest : allSome (s.map fun c => (c.2.getD i (some .null)).map fun x => (c.1, x)) with
      | none => rw [hrest] at h; cases h
      | some fl' =>
        rw [hrest] at h
        simp only [Option.map_some, Option.some.injEq] at h
        rw [← h, ← ColsRef_row r s i fl' hc.2.2 hrest, Refines_getD hc.2.1 i x hd, hc.1]

theorem ColsRef_getD : ∀ (cs : List (String × List LVal)) (ds : List (String × H)), ColsRef cs ds → ∀ (t : Nat),
    Refines ((cs.getD t ("", [])).2.map some) (ds.getD t ("", [])).2
  | [], [], _, t => by simp only [List.getD_nil, List.map_nil]; exact Refines_nil
  | [], _ :: _, hc, _ => by simp [ColsRef] at hc
  | _ :: _, [], hc, _ => by simp [ColsRef] at hc
  | c :: r, d :: s, hc, 0 => by
    simp only [ColsRef] at hc
    simpa using hc.2.1
  | c :: r, d :: s, hc, t + 1 => by
    simp only [ColsRef] at hc
    simpa using ColsRef_getD r s hc.2.2 t

theorem getD_none_some {hs : H} {j : Nat} {x : LVal} (h : hs.getD j none = some x) : hs[j]? = some (some x) := by
  rw [List.getD_eq_getElem?_getD] at h
  cases hk : hs[j]? with
  | none => rw [hk] at h; cases h
  | some k => rw [hk] at h; simp only [Option.getD_some] at h; rw [h]

mutual
/-- **every DETERMINED observable row is the row the finished array really means** (no hypothesis) -/
theorem decP_sound : ∀ (b : B), Refines ((decP b).map some) (decH b)
  | .null _ _ => by simp only [decH, decP, dec]; exact Refines.refl _
  | .unknownVariant _ => by simp only [decH, decP, dec]; exact Refines.refl _
  | .leaf _ _ _ _ => by simp only [decH, decP, dec]; exact Refines.refl _
  | .bytes _ _ _ _ _ => by simp only [decH, decP, dec]; exact Refines.refl _
  | .bytesView _ _ _ _ _ => by simp only [decH, decP, dec]; exact Refines.refl _
  | .fixedSizeBinary _ _ _ _ _ _ => by simp only [decH, decP, dec]; exact Refines.refl _
  | .list _ _ _ v offs el => by
    simp only [decP, decH]
    rw [← maskNullH_map_some]
    apply maskNullH_refines
    unfold listRowsH
    apply Refines_map_pt
    intro se _ x hx
    cases ha : allSome (sliceL (decH el) se.1 se.2) with
    | none => rw [ha] at hx; cases hx
    | some xs =>
      rw [ha] at hx
      simp only [Option.map_some, Option.some.injEq] at hx
      rw [← hx, allSome_of_refines (Refines_slice_map (decP_sound el) se.1 se.2) ha]
  | .fixedSizeList _ _ n len v _ el => by
    simp only [decP, decH]
    rw [← maskNullH_map_some]
    apply maskNullH_refines
    unfold fslRowsH
    apply Refines_map_pt
    intro i _ x hx
    cases ha : allSome (((decH el).drop (i * n)).take n) with
    | none => rw [ha] at hx; cases hx
    | some xs =>
      rw [ha] at hx
      simp only [Option.map_some, Option.some.injEq] at hx
      rw [← hx, allSome_of_refines (Refines_chunk_map (decP_sound el) (i * n) n) ha]
  | .map _ _ v offs ks vs => by
    simp only [decP, decH]
    rw [← maskNullH_map_some]
    apply maskNullH_refines
    unfold mapRowsH
    apply Refines_map_pt
    intro se _ x hx
    cases hk : allSome (sliceL (decH ks) se.1 se.2) with
    | none => rw [hk] at hx; simp [mapRowH] at hx
    | some k =>
      cases hw : allSome (sliceL (decH vs) se.1 se.2) with
      | none => rw [hk, hw] at hx; simp [mapRowH] at hx
      | some w =>
        rw [hk, hw] at hx
        simp only [mapRowH, Option.some.injEq] at hx
        rw [← hx, allSome_of_refines (Refines_slice_map (decP_sound ks) se.1 se.2) hk,
          allSome_of_refines (Refines_slice_map (decP_sound vs) se.1 se.2) hw]
  | .struct _ len v fs _ _ _ => by
    simp only [decP, decH]
    rw [← maskNullH_map_some]
    apply maskNullH_refines
    unfold structRowsH
    apply Refines_map_pt
    intro i _ x hx
    unfold rowAtH at hx
    cases ha : allSome ((decHCols fs).map fun c => (c.2.getD i (some .null)).map fun x => (c.1, x)) with
    | none => rw [ha] at hx; cases hx
    | some fl =>
      rw [ha] at hx
      simp only [Option.map_some, Option.some.injEq] at hx
      rw [← hx, ColsRef_row _ _ i fl (decPCols_sound fs) ha]
  | .dictionary _ idx vals index => by
    simp only [decP, decH]
    apply Refines_map_row (decP_sound idx)
    · rfl
    · intro y x hx
      cases y with
      | int j =>
        simp only [dictRowH] at hx
        have h3 := getElem?_of_map_some ((decP_sound vals).2 _ x (getD_none_some hx))
        have hlt : j.toNat < (decP vals).length := by
          rcases Nat.lt_or_ge j.toNat (decP vals).length with h | h
          · exact h
          · rw [List.getElem?_eq_none h] at h3; cases h3
        simp only []
        rw [dictVals_getD_lt idx vals index (decP vals) j.toNat hlt, List.getD_eq_getElem?_getD, h3]
        rfl
      | _ =>
        simp only [dictRowH, Option.some.injEq] at hx
        rw [← hx]
  | .union _ fs types offs _ => by
    simp only [decP, decH]
    apply Refines_zipWith_pt
    intro t o x hx
    unfold unionRowH at hx
    cases hy : ((decHCols fs).getD t.toNat ("", [])).2.getD o.toNat (some .null) with
    | none => rw [hy] at hx; cases hx
    | some y =>
      rw [hy] at hx
      simp only [Option.map_some, Option.some.injEq] at hx
      rw [← hx, Refines_getD (ColsRef_getD _ _ (decPCols_sound fs) t.toNat) o.toNat y hy]
theorem decPCols_sound : ∀ (fs : BL), ColsRef (decPCols fs) (decHCols fs)
  | .nil => by simp only [decPCols, decHCols, ColsRef]
  | .cons b m r => by
    simp only [decPCols, decHCols, ColsRef]
    exact ⟨trivial, decP_sound b, decPCols_sound r⟩
end

theorem det_eq_map_some : ∀ (h : H), (∀ r ∈ h, r.isSome = true) → ∃ xs : List LVal, h = xs.map some
  | [], _ => ⟨[], rfl⟩
  | none :: _, h => by have := h none (by simp); cases this
  | some x :: r, h => by
    obtain ⟨xs, hxs⟩ := det_eq_map_some r (fun y hy => h y (by simp [hy]))
    exact ⟨x :: xs, by rw [hxs]; rfl⟩

theorem map_some_inj : ∀ (a b : List LVal), a.map some = b.map some → a = b
  | [], [], _ => rfl
  | [], _ :: _, h => by simp at h
  | _ :: _, [], h => by simp at h
  | x :: r, y :: s, h => by
    simp only [List.map_cons, List.cons.injEq, Option.some.injEq] at h
    rw [h.1, map_some_inj r s h.2]

/-- where every observable row is determined, the finished array means exactly the rows of the state -/
theorem decP_eq_dec_of_det (b : B) (hdet : ∀ r ∈ decH b, r.isSome = true) : decP b = dec b := by
  obtain ⟨xs, hxs⟩ := det_eq_map_some (decH b) hdet
  have h1 := decP_sound b
  have h2 := decH_sound b
  rw [hxs] at h1 h2
  exact map_some_inj _ _ ((Refines.of_map_some h1).trans (Refines.of_map_some h2).symm)

/-- … and so do the observable rows themselves -/
theorem decH_eq_of_det (b : B) (hdet : ∀ r ∈ decH b, r.isSome = true) : decH b = (dec b).map some := by
  obtain ⟨xs, hxs⟩ := det_eq_map_some (decH b) hdet
  have h2 := decH_sound b
  rw [hxs] at h2 ⊢
  exact (Refines.of_map_some h2).symm

/-! ### the placeholder of `into_array` exists: a property of the shape -/

mutual
/-- the value builder of every dictionary with NON-nullable keys has a placeholder row (it is a non-nullable
string / binary builder): then `into_array` can always give the dummy key `0` a value -/
def PlaceholderOK : B → Prop
  | .list _ _ _ _ _ el => PlaceholderOK el
  | .fixedSizeList _ _ _ _ _ _ el => PlaceholderOK el
  | .map _ _ _ _ ks vs => PlaceholderOK ks ∧ PlaceholderOK vs
  | .struct _ _ _ fs _ _ _ => PlaceholderOKL fs
  | .dictionary _ idx vals _ =>
    (idx.isNullable = false → placeholderVals vals ≠ []) ∧ PlaceholderOK idx ∧ PlaceholderOK vals
  | .union _ fs _ _ _ => PlaceholderOKL fs
  | _ => True
def PlaceholderOKL : BL → Prop
  | .nil => True
  | .cons b _ r => PlaceholderOK b ∧ PlaceholderOKL r
end

theorem placeholderVals_takeRest (b : B) : placeholderVals (takeRest b) = placeholderVals b := by
  cases b <;> simp only [takeRest, placeholderVals]
  all_goals (rename_i v _ _; cases v <;> rfl)

mutual
theorem PlaceholderOK_takeRest : ∀ (b : B), PlaceholderOK (takeRest b) ↔ PlaceholderOK b
  | .null _ _ => by simp only [takeRest, PlaceholderOK]
  | .unknownVariant _ => by simp only [takeRest, PlaceholderOK]
  | .leaf _ _ _ _ => by simp only [takeRest, PlaceholderOK]
  | .bytes _ _ _ _ _ => by simp only [takeRest, PlaceholderOK]
  | .bytesView _ _ _ _ _ => by simp only [takeRest, PlaceholderOK]
  | .fixedSizeBinary _ _ _ _ _ _ => by simp only [takeRest, PlaceholderOK]
  | .list _ _ _ _ _ el => by simp only [takeRest, PlaceholderOK, PlaceholderOK_takeRest el]
  | .fixedSizeList _ _ _ _ _ _ el => by simp only [takeRest, PlaceholderOK, PlaceholderOK_takeRest el]
  | .map _ _ _ _ ks vs => by simp only [takeRest, PlaceholderOK, PlaceholderOK_takeRest ks, PlaceholderOK_takeRest vs]
  | .struct _ _ _ fs _ _ _ => by simp only [takeRest, PlaceholderOK, PlaceholderOKL_takeRestAll fs]
  | .dictionary _ idx vals _ => by
    simp only [takeRest, PlaceholderOK, isNullable_takeRest, placeholderVals_takeRest, PlaceholderOK_takeRest idx,
      PlaceholderOK_takeRest vals]
  | .union _ fs _ _ _ => by simp only [takeRest, PlaceholderOK, PlaceholderOKL_takeRestAll fs]
theorem PlaceholderOKL_takeRestAll : ∀ (bl : BL), PlaceholderOKL (takeRestAll bl) ↔ PlaceholderOKL bl
  | .nil => by simp only [takeRestAll]
  | .cons b _ r => by simp only [takeRestAll, PlaceholderOKL, PlaceholderOK_takeRest b, PlaceholderOKL_takeRestAll r]
end

theorem PlaceholderOK_of_takeRest_eq (b b' : B) (h : takeRest b' = takeRest b) (hb : PlaceholderOK b) :
    PlaceholderOK b' := by
  rw [← PlaceholderOK_takeRest b', h, PlaceholderOK_takeRest b]; exact hb

/-! ### `Sound` from the weak invariant -/

theorem intLeaf_Sound (idx : B) (h : isIntLeaf idx = true) : Sound idx := by
  cases idx with
  | leaf p kind v vals => simp only [Sound]
  | _ => simp [isIntLeaf] at h

theorem intLeaf_decP (idx : B) (h : isIntLeaf idx = true) : decP idx = dec idx := by
  cases idx with
  | leaf p kind v vals => rfl
  | _ => simp [isIntLeaf] at h

theorem maskNull_length_le (v : Validity) (xs : List LVal) : (maskNull v xs).length ≤ xs.length := by
  cases v with
  | none => exact Nat.le_refl _
  | some bits => simp only [maskNull, List.length_zipWith]; exact Nat.min_le_right _ _

theorem intLeaf_rows (idx : B) (h : isIntLeaf idx = true) : (dec idx).length ≤ idx.rows := by
  cases idx with
  | leaf p kind v vals =>
    simp only [dec, B.rows]
    have := maskNull_length_le v (vals.map (leafVal kind))
    simpa using this
  | _ => simp [isIntLeaf] at h

mutual
/-- **`Sound` without `Safe`**: under the weak invariant the placeholder key `0` of a non-nullable key builder
designates a value of the FINISHED dictionary (a real one, or the dummy `""` `into_array` appends) -/
theorem Sound_of_WFH : ∀ (b : B), WFH b → ShapeOK b → PlaceholderOK b → Sound b
  | .null _ _, _, _, _ => by simp only [Sound]
  | .unknownVariant _, _, _, _ => by simp only [Sound]
  | .leaf _ _ _ _, _, _, _ => by simp only [Sound]
  | .bytes _ _ _ _ _, _, _, _ => by simp only [Sound]
  | .bytesView _ _ _ _ _, _, _, _ => by simp only [Sound]
  | .fixedSizeBinary _ n _ _ _ _, _, ho, _ => by
    simp only [ShapeOK] at ho
    simp only [Sound]
    intro h; exact absurd h ho
  | .list _ _ _ _ _ el, hw, ho, hp => by
    simp only [ShapeOK] at ho; simp only [PlaceholderOK] at hp; simp only [Sound]
    exact Sound_of_WFH el (WFH_list hw).2.2 ho hp
  | .fixedSizeList _ _ _ _ _ _ el, hw, ho, hp => by
    simp only [ShapeOK] at ho; simp only [PlaceholderOK] at hp; simp only [Sound]
    exact Sound_of_WFH el (WFH_fixedSizeList hw).2.2 ho hp
  | .map _ _ _ _ ks vs, hw, ho, hp => by
    simp only [ShapeOK] at ho; simp only [PlaceholderOK] at hp; simp only [Sound]
    exact ⟨Sound_of_WFH ks (WFH_map hw).2.2.2.1 ho.1 hp.1, Sound_of_WFH vs (WFH_map hw).2.2.2.2 ho.2 hp.2⟩
  | .struct _ len _ fs _ _ _, hw, ho, hp => by
    simp only [ShapeOK] at ho; simp only [PlaceholderOK] at hp; simp only [Sound]
    exact SoundL_of_WFHs fs (WFHL_WFHs fs len (WFH_struct hw).2) ho hp
  | .dictionary _ idx vals index, hw, ho, hp => by
    simp only [ShapeOK] at ho; simp only [PlaceholderOK] at hp; simp only [Sound]
    obtain ⟨hwi, hwv, hlen⟩ := WFH_dictionary hw
    have hkeys := WFH_dictionary_keys hw
    refine ⟨intLeaf_Sound idx ho.1, Sound_of_WFH vals hwv ho.2 hp.2.2, ?_⟩
    intro k hk
    rw [intLeaf_decP idx ho.1] at hk
    rcases intLeaf_keys idx ho.1 k hk with h | ⟨j, h⟩
    · exact Or.inl h
    · obtain ⟨h0, hj⟩ := hkeys k hk j h
      have hge := dictVals_length_ge idx vals index (decP vals)
      rw [decP_length] at hge
      refine Or.inr ⟨j.toNat, by rw [h, Int.toNat_of_nonneg h0], ?_⟩
      rcases hj with hj | ⟨hj0, hnn⟩
      · omega
      · subst hj0
        cases hidx : index with
        | cons s r => rw [hidx] at hlen hge; simp only [List.length_cons] at hlen hge; simp only [Int.toNat_zero]; omega
        | nil =>
          have hrows : idx.rows ≠ 0 := by
            have h1 := intLeaf_rows idx ho.1
            have h2 : 0 < (dec idx).length := List.length_pos_of_mem hk
            omega
          have hnp : needsPlaceholder idx [] = true := by
            simp [needsPlaceholder, hnn, hrows]
          have hne := hp.1 hnn
          simp only [dictVals, hnp, if_true, List.length_append, Int.toNat_zero]
          have : 0 < (placeholderVals vals).length := List.length_pos_iff.mpr hne
          omega
  | .union _ fs _ _ cur, hw, ho, hp => by
    simp only [ShapeOK] at ho; simp only [PlaceholderOK] at hp; simp only [Sound]
    exact SoundL_of_WFHs fs (WFHU_WFHs fs cur (WFH_union hw).2.1) ho hp
theorem SoundL_of_WFHs : ∀ (fs : BL), WFHs fs → ShapeOKL fs → PlaceholderOKL fs → SoundL fs
  | .nil, _, _, _ => trivial
  | .cons b _ r, hw, ho, hp => by
    simp only [WFHs] at hw; simp only [ShapeOKL] at ho; simp only [PlaceholderOKL] at hp; simp only [SoundL]
    exact ⟨Sound_of_WFH b hw.1 ho.1 hp.1, SoundL_of_WFHs r hw.2 ho.2 hp.2⟩
end

/-- every slot of a finished array can be read, and there are as many as the state has rows (weak invariant) -/
theorem finish_slotsH (ext : Ext) (b : B) (a : Arr) (hw : WFH b) (hs : Sound b) (h : finish ext b = .ok a) :
    (decodeAll a).length = (dec b).length ∧ ∀ r ∈ decodeAll a, r.isOk = true := by
  have hd := finish_decodePH ext b a hw hs h
  refine ⟨by rw [hd, List.length_map, decP_length], ?_⟩
  intro r hr
  rw [hd] at hr
  obtain ⟨x, _, rfl⟩ := List.mem_map.mp hr
  rfl

end SaModel.Lemmas.C03
