import SaModel.Lemmas.C03ObsFinish
import SaModel.Lemmas.C03ObsWF
import SaModel.Props.C03
/-
Root-level assembly of the physical layer for the weak state invariant `WFH` (no `Safe`).  The refinement facts about the
final builder state (`WFH root`, determinedness of the root columns) are HYPOTHESES here; everything else is derived:

  C03_wf_of_rootH            `Props.C03.C03_wf_of_root` with `WFH`
  toMarrow_decode_of_rootH   `Props.C03.toMarrow_decode_of_root` with `WFH` + `Sound` + "the root columns are determined"
  newRoot_PlaceholderOK      the fresh root of a covered schema is `PlaceholderOK`
  runRows_PlaceholderOK      … and so is every later state (`push_takeRest`)
  root_factsH                `BuiltFor`, `Sound`, `PX` of the final state from `WFH` + `PlaceholderOK`
  C03_wf_of_WFH, toMarrow_decode_of_WFH   the two theorems with only the refinement facts left as hypotheses
-/
namespace SaModel.Lemmas.C03
open SaModel SaModel.Build SaModel.Spec

/-! ### C03 from facts about the final builder state, weak invariant -/

/-- **C03 from facts about the final builder state** — `Props.C03.C03_wf_of_root` with the weak invariant `WFH` -/
theorem C03_wf_of_rootH (ext : Ext) (fields : List Field) (rows : List SVal) (arrs : List Arr)
    (hwfb : ∀ root, runRows ext fields rows = .ok root → WFH root)
    (hshape : ∀ root, runRows ext fields rows = .ok root →
      BuiltFor (.struct (Fields.ofList fields)) false root)
    (hsound : ∀ root, runRows ext fields rows = .ok root → Sound root)
    (hwfx : ∀ root, runRows ext fields rows = .ok root → WFX root)
    (h : toMarrow ext fields rows = .ok arrs) :
    arrs.length = fields.length ∧
    ∃ n : Nat, ∀ (j : Nat) (f : Field) (a : Arr), fields[j]? = some f → arrs[j]? = some a →
      WFS f a = true ∧ (decodeAll a).length = n := by
  obtain ⟨root, hrun, rest, hba⟩ := Props.C03.toMarrow_split ext fields rows arrs h
  have hw := hwfb root hrun
  have hb := hshape root hrun
  have hs := hsound root hrun
  have hx := hwfx root hrun
  cases root with
  | struct p len v fs cached next seen =>
    simp only [buildArrays, bind, Except.bind] at hba
    cases hf : finishFields ext fs with
    | error e => rw [hf] at hba; cases hba
    | ok afs =>
      rw [hf] at hba
      simp only [pure, Except.pure, Except.ok.injEq, Prod.mk.injEq] at hba
      obtain ⟨rfl, _⟩ := hba
      simp only [BuiltFor] at hb
      obtain ⟨fields', hfe, _, hbl⟩ := hb
      simp only [DataType.struct.injEq] at hfe
      subst hfe
      have hwf := finishFields_wfH ext fs _ len afs hbl (WFH_struct hw).2
        (Sound_struct hs) (WFX_struct hx) hf
      obtain ⟨hlen, hget⟩ := wfFields_get _ afs len hwf
      rw [Fields.toList_ofList] at hlen
      refine ⟨by simp [hlen], len, ?_⟩
      intro j f a hfj haj
      rw [List.getElem?_map] at haj
      cases hma : afs.toList[j]? with
      | none => rw [hma] at haj; cases haj
      | some ma =>
        rw [hma] at haj
        simp only [Option.map_some, Option.some.injEq] at haj
        subst haj
        have := hget j f ma (by rw [Fields.toList_ofList]; exact hfj) hma
        exact ⟨this.2.2, this.2.1⟩
  | _ => simp [buildArrays, panic] at hba

/-! ### the arrays decode to the columns of the state, where those are determined -/

/-- the observable columns of the root struct -/
def decHRoot : B → List H
  | .struct _ _ _ fs _ _ _ => (decHCols fs).map (·.2)
  | _ => []

theorem decPCols_eq_decCols_of_det : ∀ (fs : BL), (∀ c ∈ decHCols fs, ∀ r ∈ c.2, r.isSome = true) →
    decPCols fs = decCols fs
  | .nil, _ => rfl
  | .cons b m r, h => by
    simp only [decPCols, decCols]
    rw [decP_eq_dec_of_det b (h (m.name, decH b) (by simp [decHCols])),
      decPCols_eq_decCols_of_det r (fun c hc => h c (by simp [decHCols, hc]))]

/-- the physical half of C01 for `to_marrow`, weak invariant: the returned arrays decode to exactly the columns the final
builder state holds (`decRoot`), provided every observable row of the root columns is determined — which is what the
refinement proves of the root (`none` rows only exist below a null ancestor; the root struct is never null). -/
theorem toMarrow_decode_of_rootH (ext : Ext) (fields : List Field) (rows : List SVal) (arrs : List Arr)
    (hwf : ∀ root, runRows ext fields rows = .ok root → WFH root)
    (hsound : ∀ root, runRows ext fields rows = .ok root → Sound root)
    (hdet : ∀ root, runRows ext fields rows = .ok root → ∀ c ∈ decHRoot root, ∀ r ∈ c, r.isSome = true)
    (h : toMarrow ext fields rows = .ok arrs) :
    ∃ root, runRows ext fields rows = .ok root ∧ arrs.map decodeAll = (decRoot root).map (·.map .ok) := by
  obtain ⟨root, hrun, rest, hba⟩ := Props.C03.toMarrow_split ext fields rows arrs h
  refine ⟨root, hrun, ?_⟩
  have hw := hwf root hrun
  have hs := hsound root hrun
  have hd' := hdet root hrun
  cases root with
  | struct p len v fs cached next seen =>
    simp only [buildArrays, bind, Except.bind] at hba
    cases hfin : finishFields ext fs with
    | error e => rw [hfin] at hba; cases hba
    | ok afs =>
      rw [hfin] at hba
      simp only [pure, Except.pure, Except.ok.injEq, Prod.mk.injEq] at hba
      obtain ⟨rfl, _⟩ := hba
      have hd := finishFields_decodePH ext fs afs (WFHL_WFHs fs len (WFH_struct hw).2) (Sound_struct hs) hfin
      have hcols : decPCols fs = decCols fs := by
        apply decPCols_eq_decCols_of_det
        intro c hc r hr
        exact hd' c.2 (by simp only [decHRoot]; exact List.mem_map.mpr ⟨c, hc, rfl⟩) r hr
      rw [hcols] at hd
      simp only [decRoot, List.map_map]
      have := Props.C03.ArrFields_toList_decode afs
      have e : (decodeAll ∘ fun (x : FieldMeta × Arr) => x.snd) = fun ma => decodeAll ma.snd := rfl
      rw [e, this, hd, List.map_map]
      rfl
  | _ => simp [buildArrays, panic] at hba

/-! ### `PlaceholderOK` of the root: a property of the schema -/

theorem coveredF_iff (f : Field) : coveredF f = covered f.dataType := by
  cases f; simp only [coveredF, Field.dataType]

theorem intLeaf_PlaceholderOK (idx : B) (h : isIntLeaf idx = true) : PlaceholderOK idx := by
  cases idx with
  | leaf p kind v vals => simp only [PlaceholderOK]
  | _ => simp [isIntLeaf] at h

/-- the value builder of a `Dictionary(_, Utf8 | LargeUtf8)` is a non-nullable string builder: it has a placeholder row -/
theorem strDT_builtFor (b : B) (vdt : DataType) (hv : isStrDT vdt = true) (hb : BuiltFor vdt false b) :
    placeholderVals b ≠ [] ∧ PlaceholderOK b := by
  cases b with
  | bytes p ty v offs data =>
    simp only [BuiltFor] at hb
    obtain ⟨_, hn⟩ := hb
    cases v with
    | some bits => cases hn
    | none => exact ⟨by simp [placeholderVals], by simp only [PlaceholderOK]⟩
  | leaf p kind v vals =>
    simp only [BuiltFor] at hb
    obtain ⟨rfl, _⟩ := hb
    cases kind with
    | int t => cases t <;> simp [leafDT, intDT, isStrDT] at hv
    | _ => simp [leafDT, isStrDT] at hv
  | null p len => simp only [BuiltFor] at hb; subst hb; simp [isStrDT] at hv
  | unknownVariant p => simp only [BuiltFor] at hb; subst hb; simp [isStrDT] at hv
  | bytesView p ty v views buf =>
    simp only [BuiltFor] at hb; obtain ⟨rfl, _⟩ := hb; cases ty <;> simp [viewDT, isStrDT] at hv
  | fixedSizeBinary p n len v buf cur =>
    simp only [BuiltFor] at hb; obtain ⟨rfl, _⟩ := hb; simp [isStrDT] at hv
  | list p large fm v offs el =>
    simp only [BuiltFor] at hb; obtain ⟨f, rfl, _⟩ := hb; cases large <;> simp [isStrDT] at hv
  | fixedSizeList p fm n len v cur el =>
    simp only [BuiltFor] at hb; obtain ⟨f, rfl, _⟩ := hb; simp [isStrDT] at hv
  | map p mm v offs ks vs =>
    simp only [BuiltFor] at hb; obtain ⟨_, _, _, _, _, _, rfl, _⟩ := hb; simp [isStrDT] at hv
  | struct p len v fs c n s =>
    simp only [BuiltFor] at hb; obtain ⟨_, rfl, _⟩ := hb; simp [isStrDT] at hv
  | dictionary p idx vals index =>
    simp only [BuiltFor] at hb; obtain ⟨_, _, rfl, _⟩ := hb; simp [isStrDT] at hv
  | union p fs t o c =>
    simp only [BuiltFor] at hb; obtain ⟨_, _, rfl, _⟩ := hb; simp [isStrDT] at hv

mutual
/-- the builder of a `covered` data type (dictionaries: integer keys, Utf8 / LargeUtf8 values) is `PlaceholderOK` -/
theorem BuiltFor_PlaceholderOK : ∀ (b : B) (dt : DataType) (nl : Bool), BuiltFor dt nl b → covered dt = true →
    PlaceholderOK b
  | .null _ _, _, _, _, _ => by simp only [PlaceholderOK]
  | .unknownVariant _, _, _, _, _ => by simp only [PlaceholderOK]
  | .leaf _ _ _ _, _, _, _, _ => by simp only [PlaceholderOK]
  | .bytes _ _ _ _ _, _, _, _, _ => by simp only [PlaceholderOK]
  | .bytesView _ _ _ _ _, _, _, _, _ => by simp only [PlaceholderOK]
  | .fixedSizeBinary _ _ _ _ _ _, _, _, _, _ => by simp only [PlaceholderOK]
  | .list _ large _ _ _ el, dt, nl, hb, hc => by
    simp only [BuiltFor] at hb
    obtain ⟨f, rfl, _, _, hbe⟩ := hb
    simp only [PlaceholderOK]
    refine BuiltFor_PlaceholderOK el _ _ hbe ?_
    cases large <;> simp only [Bool.false_eq_true, if_false, if_true, covered] at hc <;> rw [← coveredF_iff] <;> exact hc
  | .fixedSizeList _ _ _ _ _ _ el, dt, nl, hb, hc => by
    simp only [BuiltFor] at hb
    obtain ⟨f, rfl, _, _, hbe⟩ := hb
    simp only [covered] at hc
    simp only [PlaceholderOK]
    exact BuiltFor_PlaceholderOK el _ _ hbe (by rw [← coveredF_iff]; exact hc)
  | .map _ _ _ _ ks vs, dt, nl, hb, hc => by
    simp only [BuiltFor] at hb
    obtain ⟨ename, kf, vf, sorted, enl, emd, rfl, _, _, hbk, hbv⟩ := hb
    simp only [covered, coveredF, coveredFs, Bool.and_true, Bool.and_eq_true] at hc
    simp only [PlaceholderOK]
    exact ⟨BuiltFor_PlaceholderOK ks _ _ hbk (by rw [← coveredF_iff]; exact hc.1),
      BuiltFor_PlaceholderOK vs _ _ hbv (by rw [← coveredF_iff]; exact hc.2)⟩
  | .struct _ _ _ fs _ _ _, dt, nl, hb, hc => by
    simp only [BuiltFor] at hb
    obtain ⟨fields, rfl, _, hbl⟩ := hb
    simp only [covered] at hc
    simp only [PlaceholderOK]
    exact BuiltForL_PlaceholderOKL fs fields hbl hc
  | .dictionary _ idx vals _, dt, nl, hb, hc => by
    simp only [BuiltFor] at hb
    obtain ⟨k, vdt, rfl, hk, hbi, hbv⟩ := hb
    simp only [covered, hk, Bool.not_true, Bool.false_or] at hc
    simp only [PlaceholderOK]
    have := strDT_builtFor vals vdt hc hbv
    exact ⟨fun _ => this.1, intLeaf_PlaceholderOK idx (isIntLeaf_of_builtFor idx k nl hk hbi), this.2⟩
  | .union _ fs _ _ _, dt, nl, hb, hc => by
    simp only [BuiltFor] at hb
    obtain ⟨ufs, mode, rfl, hbu⟩ := hb
    simp only [covered] at hc
    simp only [PlaceholderOK]
    exact BuiltForU_PlaceholderOKL fs ufs 0 hbu hc
theorem BuiltForL_PlaceholderOKL : ∀ (bl : BL) (fs : Fields), BuiltForL fs bl → coveredFs fs = true → PlaceholderOKL bl
  | .nil, _, _, _ => trivial
  | .cons b m r, .nil, hb, _ => by simp [BuiltForL] at hb
  | .cons b m r, .cons f fr, hb, hc => by
    simp only [BuiltForL] at hb
    simp only [coveredFs, Bool.and_eq_true] at hc
    simp only [PlaceholderOKL]
    exact ⟨BuiltFor_PlaceholderOK b _ _ hb.2.1 (by rw [← coveredF_iff]; exact hc.1),
      BuiltForL_PlaceholderOKL r fr hb.2.2 hc.2⟩
theorem BuiltForU_PlaceholderOKL : ∀ (bl : BL) (ufs : UFields) (k : Nat), BuiltForU ufs bl k → coveredU ufs = true →
    PlaceholderOKL bl
  | .nil, _, _, _, _ => trivial
  | .cons b m r, .nil, _, hb, _ => by simp [BuiltForU] at hb
  | .cons b m r, .cons t f fr, k, hb, hc => by
    simp only [BuiltForU] at hb
    simp only [coveredU, Bool.and_eq_true] at hc
    simp only [PlaceholderOKL]
    exact ⟨BuiltFor_PlaceholderOK b _ _ hb.2.2.1 (by rw [← coveredF_iff]; exact hc.1),
      BuiltForU_PlaceholderOKL r fr (k + 1) hb.2.2.2 hc.2⟩
end

/-- the fresh root of a covered schema is `PlaceholderOK` -/
theorem newRoot_PlaceholderOK {fields : List Field} {root0 : B} (hc : fields.all coveredF = true)
    (h : newRoot fields = .ok root0) : PlaceholderOK root0 :=
  BuiltFor_PlaceholderOK root0 _ _ (newRoot_builtFor fields root0 h) (by
    simp only [covered]; rw [coveredFs_ofList]; exact hc)

/-- `PlaceholderOK` only depends on what `take` leaves behind, which no push changes (`Build.push_takeRest`) -/
theorem runRows_PlaceholderOK (ext : Ext) (fields : List Field) (rows : List SVal) (root0 root : B)
    (h0 : newRoot fields = .ok root0) (hp : PlaceholderOK root0) (h : runRows ext fields rows = .ok root) :
    PlaceholderOK root := by
  simp only [runRows, bind, Except.bind] at h
  rw [h0] at h
  exact PlaceholderOK_of_takeRest_eq root0 root (foldlM_takeRest ext (Build.push_takeRest ext) rows root0 root h) hp

theorem runRows_PlaceholderOK_of_covered (ext : Ext) (fields : List Field) (rows : List SVal) (root : B)
    (hc : fields.all coveredF = true) (h : runRows ext fields rows = .ok root) : PlaceholderOK root := by
  have h0 : ∃ root0, newRoot fields = .ok root0 := by
    simp only [runRows] at h
    cases hr : newRoot fields with
    | error e => rw [hr] at h; cases h
    | ok r0 => exact ⟨r0, rfl⟩
  obtain ⟨root0, h0⟩ := h0
  exact runRows_PlaceholderOK ext fields rows root0 root h0 (newRoot_PlaceholderOK hc h0) h

/-! ### everything the physical layer needs to know about the final state -/

/-- port of `Props.C03.root_facts`: shape, `Sound` and `PX` of the final builder state from the weak invariant -/
theorem root_factsH (ext : Ext) (fields : List Field) (rows : List SVal) (root : B)
    (hschema : ∀ f ∈ fields, SchemaOKF f) (hw : WFH root) (hp : PlaceholderOK root)
    (hrun : runRows ext fields rows = .ok root) :
    BuiltFor (.struct (Fields.ofList fields)) false root ∧ Sound root ∧ PX root := by
  have hb := runRows_builtFor ext fields rows root (Build.push_takeRest ext) hrun
  have hshape := BuiltFor_ShapeOK root _ _ hb (by
    simp only [SchemaOK]; exact Props.C03.SchemaOKFs_ofList fields hschema)
  exact ⟨hb, Sound_of_WFH root hw hshape hp, runRows_PX ext fields rows root hrun⟩

mutual
/-- the weak invariant carries the 4 GiB bound of the view buffers too (port of `Build.WFB_small`) -/
theorem WFH_small : ∀ (b : B), WFH b → ViewSmall b
  | .null _ _, _ => by simp [ViewSmall]
  | .unknownVariant _, _ => by simp [ViewSmall]
  | .leaf _ _ _ _, _ => by simp [ViewSmall]
  | .bytes _ _ _ _ _, _ => by simp [ViewSmall]
  | .bytesView _ _ _ _ _, h => by simp only [WFH] at h; simp only [ViewSmall]; exact h.2.2
  | .fixedSizeBinary _ _ _ _ _ _, _ => by simp [ViewSmall]
  | .list _ _ _ _ _ el, h => by simp only [WFH] at h; simp only [ViewSmall]; exact WFH_small el h.2.2
  | .fixedSizeList _ _ _ _ _ _ el, h => by simp only [WFH] at h; simp only [ViewSmall]; exact WFH_small el h.2.2
  | .map _ _ _ _ ks vs, h => by
    simp only [WFH] at h; simp only [ViewSmall]; exact ⟨WFH_small ks h.2.2.2.1, WFH_small vs h.2.2.2.2⟩
  | .struct _ len _ fs _ _ _, h => by simp only [WFH] at h; simp only [ViewSmall]; exact WFHL_small fs len h.2.1
  | .dictionary _ idx vals _, h => by
    simp only [WFH] at h; simp only [ViewSmall]; exact ⟨WFH_small idx h.1, WFH_small vals h.2.1⟩
  | .union _ fs _ _ cur, h => by simp only [WFH] at h; simp only [ViewSmall]; exact WFHU_small fs cur h.2.2.1
theorem WFHL_small : ∀ (fs : BL) (len : Nat), WFHL fs len → ViewSmallL fs
  | .nil, _, _ => by simp [ViewSmallL]
  | .cons b _ r, len, h => by
    simp only [WFHL] at h; simp only [ViewSmallL]; exact ⟨WFH_small b h.1, WFHL_small r len h.2.2⟩
theorem WFHU_small : ∀ (fs : BL) (cur : List Int), WFHU fs cur → ViewSmallL fs
  | .nil, _, _ => by simp [ViewSmallL]
  | .cons b _ r, cur, h => by
    simp only [WFHU] at h; simp only [ViewSmallL]; exact ⟨WFH_small b h.1, WFHU_small r cur.tail h.2.2⟩
end

/-! ### the two theorems with only the refinement facts left as hypotheses -/

/-- **C03 without `Safe`, modulo the refinement**: with `WFH` of the final state as the only fact about the run, every
array `to_marrow` returns is a well-formed array of its field, one array per field, all of the same length.  Schema
assumptions: `SchemaOKF` (no `FixedSizeBinary(0)`), `coveredF` (dictionary values Utf8 / LargeUtf8). -/
theorem C03_wf_of_WFH (ext : Ext) (fields : List Field) (rows : List SVal) (arrs : List Arr)
    (hschema : ∀ f ∈ fields, SchemaOKF f)
    (hcov : fields.all coveredF = true)
    (hext : ExtOK ext)
    (hrows : ∀ x ∈ rows, SValOK x)
    (hwfh : ∀ root, runRows ext fields rows = .ok root → WFH root)
    (h : toMarrow ext fields rows = .ok arrs) :
    arrs.length = fields.length ∧
    ∃ n : Nat, ∀ (j : Nat) (f : Field) (a : Arr), fields[j]? = some f → arrs[j]? = some a →
      WFS f a = true ∧ (decodeAll a).length = n := by
  have hfacts : ∀ root, runRows ext fields rows = .ok root →
      BuiltFor (.struct (Fields.ofList fields)) false root ∧ Sound root ∧ PX root := fun root hrun =>
    root_factsH ext fields rows root hschema (hwfh root hrun)
      (runRows_PlaceholderOK_of_covered ext fields rows root hcov hrun) hrun
  exact C03_wf_of_rootH ext fields rows arrs hwfh (fun r hr => (hfacts r hr).1) (fun r hr => (hfacts r hr).2.1)
    (fun r hr => runRows_WFX ext hext fields rows r hrows hr (WFH_small r (hwfh r hr))) h

/-- **the physical half of C01 without `Safe`, modulo the refinement**: with `WFH` of the final state and determinedness
of its root columns, the arrays decode to exactly the columns the state holds -/
theorem toMarrow_decode_of_WFH (ext : Ext) (fields : List Field) (rows : List SVal) (arrs : List Arr)
    (hschema : ∀ f ∈ fields, SchemaOKF f)
    (hcov : fields.all coveredF = true)
    (hwfh : ∀ root, runRows ext fields rows = .ok root → WFH root)
    (hdet : ∀ root, runRows ext fields rows = .ok root → ∀ c ∈ decHRoot root, ∀ r ∈ c, r.isSome = true)
    (h : toMarrow ext fields rows = .ok arrs) :
    ∃ root, runRows ext fields rows = .ok root ∧ arrs.map decodeAll = (decRoot root).map (·.map .ok) :=
  toMarrow_decode_of_rootH ext fields rows arrs hwfh
    (fun root hrun => (root_factsH ext fields rows root hschema (hwfh root hrun)
      (runRows_PlaceholderOK_of_covered ext fields rows root hcov hrun) hrun).2.1) hdet h

end SaModel.Lemmas.C03
