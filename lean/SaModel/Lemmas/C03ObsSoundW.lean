import SaModel.Lemmas.C03ObsRoot
/-
`Sound` of the final builder state WITHOUT the schema hypothesis `coveredF` (wave 10, package `dict`).

`Sound_of_WFH` needs `PlaceholderOK`: the value builder of every dictionary with non-nullable keys has a placeholder row
(a Utf8 / LargeUtf8 / Utf8View builder), which `coveredF` gives.  But `Sound` is only ever used of a state whose
`into_array` SUCCEEDED, and a successful `into_array` of a dictionary that needs the placeholder has pushed `""` into its
value builder — so a value builder that REFUSES strings (`B.refusesStr`: Null, Boolean, integers, floats, binary types,
lists, maps, structs, unions) cannot have been in that situation.  Hence:

  PlaceholderW px       shape only (invariant under `take`): the value builder of every dictionary with non-nullable keys
                        has a placeholder row OR refuses strings OR (`px = true`) is a leaf builder that PARSES strings
  ExtNoEmpty ext        the external parsers accept no empty string; `pushScalar_parsesStr_empty`: then the placeholder
                        `serialize_str("")` fails on a parsing value builder as well
  Sound_of_finishH      (px = true → ExtNoEmpty ext) → WFH b → ShapeOK b → PlaceholderW px b → finish ext b = ok a → Sound b
  coveredP px           the schema predicate that gives `PlaceholderW px`: everything `build_builder` accepts except
                        `Dictionary(integer, V)` with `V` in `dictValExcl px`: a nested Dictionary always; for `px = false` also the
                        seven types whose builder parses strings (`dictValParsed`: Date32, Date64, Time32, Time64, Timestamp,
                        Duration, Decimal128); `coveredW ⊆ coveredP px`, and `Dictionary(integer, Utf8View)` is inside `coveredP px`
  root_factsW           `BuiltFor`, `Sound`, `PX` of the final state of a successful `to_marrow`
  C03_wf_of_WFHW, toMarrow_decode_of_WFHW   `C03_wf_of_WFH` / `toMarrow_decode_of_WFH` with `coveredPF` for `coveredF`
-/
namespace SaModel.Lemmas.C03
open SaModel SaModel.Build SaModel.Spec

/-! ### value builders that PARSE strings, and external parsers that refuse the empty string -/

/-- the leaf builders that parse `serialize_str` (dates, times, timestamps, durations, decimals) -/
def parsesStr : B → Bool
  | .leaf _ k _ _ =>
    match k with
    | .date32 | .date64 | .time32 _ | .time64 _ | .duration _ | .timestamp _ _ _ | .decimal _ _ => true
    | _ => false
  | _ => false

theorem parsesStr_takeRest (b : B) : parsesStr (takeRest b) = parsesStr b := by
  cases b <;> rfl

/-- the external parsers accept no EMPTY string (chrono: "premature end of input"; the span parser: "unmatched content";
the decimal parser: "no digits found" — a theorem for the codec models the driver plugs in: `Props.C03.codecExt_noEmpty`) -/
structure ExtNoEmpty (ext : Ext) : Prop where
  date : ∀ (is64 : Bool) (v : Int), ext.parseDate is64 "" ≠ .ok v
  time : ∀ (u : TimeUnit) (v : Int), ext.parseTime u "" ≠ .ok v
  timestamp : ∀ (u : TimeUnit) (utc : Bool) (v : Int), ext.parseTimestamp u utc "" ≠ .ok v
  duration : ∀ (u : TimeUnit) (v : Int), ext.parseDuration u "" ≠ .ok v
  decimal : ∀ (p : Nat) (s : Int) (v : Int), ext.parseDecimal p s "" ≠ .ok v

/-- with such parsers the placeholder `serialize_str("")` of `into_array` fails on a parsing value builder -/
theorem pushScalar_parsesStr_empty (ext : Ext) (hne : ExtNoEmpty ext) {vals vals' : B} (hp : parsesStr vals = true)
    (h : pushScalar ext vals (.str "") = .ok vals') : False := by
  cases vals with
  | leaf p k v xs =>
    simp only [pushScalar] at h
    obtain ⟨val, h1, _⟩ := (bind_ok _ _ _).1 h
    cases k with
    | date32 => exact hne.date false val (by simpa [convLeaf] using h1)
    | date64 => exact hne.date true val (by simpa [convLeaf] using h1)
    | time32 u =>
      simp only [convLeaf] at h1
      obtain ⟨t, h2, _⟩ := (bind_ok _ _ _).1 h1
      exact hne.time u t h2
    | time64 u => exact hne.time u val (by simpa [convLeaf] using h1)
    | duration u => exact hne.duration u val (by simpa [convLeaf] using h1)
    | timestamp u tz utc => exact hne.timestamp u utc val (by simpa [convLeaf] using h1)
    | decimal pr sc => exact hne.decimal pr sc val (by simpa [convLeaf] using h1)
    | _ => simp [parsesStr] at hp
  | _ => simp [parsesStr] at hp

variable {px : Bool}

/-! ### the shape predicate (`px = true`: parsing value builders are admitted too — for parsers with `ExtNoEmpty`) -/

mutual
/-- the value builder of every dictionary with NON-nullable keys has a placeholder row or refuses strings -/
def PlaceholderW (px : Bool) : B → Prop
  | .list _ _ _ _ _ el => PlaceholderW px el
  | .fixedSizeList _ _ _ _ _ _ el => PlaceholderW px el
  | .map _ _ _ _ ks vs => PlaceholderW px ks ∧ PlaceholderW px vs
  | .struct _ _ _ fs _ _ _ => PlaceholderWL px fs
  | .dictionary _ idx vals _ =>
    (idx.isNullable = false →
      placeholderVals vals ≠ [] ∨ vals.refusesStr = true ∨ (px = true ∧ parsesStr vals = true)) ∧ PlaceholderW px idx ∧ PlaceholderW px vals
  | .union _ fs _ _ _ => PlaceholderWL px fs
  | _ => True
def PlaceholderWL (px : Bool) : BL → Prop
  | .nil => True
  | .cons b _ r => PlaceholderW px b ∧ PlaceholderWL px r
end

mutual
theorem PlaceholderW_takeRest : ∀ (b : B), PlaceholderW px (takeRest b) ↔ PlaceholderW px b
  | .null _ _ => by simp only [takeRest, PlaceholderW]
  | .unknownVariant _ => by simp only [takeRest, PlaceholderW]
  | .leaf _ _ _ _ => by simp only [takeRest, PlaceholderW]
  | .bytes _ _ _ _ _ => by simp only [takeRest, PlaceholderW]
  | .bytesView _ _ _ _ _ => by simp only [takeRest, PlaceholderW]
  | .fixedSizeBinary _ _ _ _ _ _ => by simp only [takeRest, PlaceholderW]
  | .list _ _ _ _ _ el => by simp only [takeRest, PlaceholderW, PlaceholderW_takeRest el]
  | .fixedSizeList _ _ _ _ _ _ el => by simp only [takeRest, PlaceholderW, PlaceholderW_takeRest el]
  | .map _ _ _ _ ks vs => by simp only [takeRest, PlaceholderW, PlaceholderW_takeRest ks, PlaceholderW_takeRest vs]
  | .struct _ _ _ fs _ _ _ => by simp only [takeRest, PlaceholderW, PlaceholderWL_takeRestAll fs]
  | .dictionary _ idx vals _ => by
    simp only [takeRest, PlaceholderW, isNullable_takeRest, placeholderVals_takeRest, refusesStr_takeRest, parsesStr_takeRest,
      PlaceholderW_takeRest idx, PlaceholderW_takeRest vals]
  | .union _ fs _ _ _ => by simp only [takeRest, PlaceholderW, PlaceholderWL_takeRestAll fs]
theorem PlaceholderWL_takeRestAll : ∀ (bl : BL), PlaceholderWL px (takeRestAll bl) ↔ PlaceholderWL px bl
  | .nil => by simp only [takeRestAll]
  | .cons b _ r => by simp only [takeRestAll, PlaceholderWL, PlaceholderW_takeRest b, PlaceholderWL_takeRestAll r]
end

theorem PlaceholderW_of_takeRest_eq (b b' : B) (h : takeRest b' = takeRest b) (hb : PlaceholderW px b) :
    PlaceholderW px b' := by
  rw [← PlaceholderW_takeRest b', h, PlaceholderW_takeRest b]; exact hb

mutual
/-- the old predicate is the special case -/
theorem PlaceholderW_of_OK : ∀ (b : B), PlaceholderOK b → PlaceholderW px b
  | .null _ _, _ => by simp only [PlaceholderW]
  | .unknownVariant _, _ => by simp only [PlaceholderW]
  | .leaf _ _ _ _, _ => by simp only [PlaceholderW]
  | .bytes _ _ _ _ _, _ => by simp only [PlaceholderW]
  | .bytesView _ _ _ _ _, _ => by simp only [PlaceholderW]
  | .fixedSizeBinary _ _ _ _ _ _, _ => by simp only [PlaceholderW]
  | .list _ _ _ _ _ el, h => by
    simp only [PlaceholderOK] at h; simp only [PlaceholderW]; exact PlaceholderW_of_OK el h
  | .fixedSizeList _ _ _ _ _ _ el, h => by
    simp only [PlaceholderOK] at h; simp only [PlaceholderW]; exact PlaceholderW_of_OK el h
  | .map _ _ _ _ ks vs, h => by
    simp only [PlaceholderOK] at h; simp only [PlaceholderW]
    exact ⟨PlaceholderW_of_OK ks h.1, PlaceholderW_of_OK vs h.2⟩
  | .struct _ _ _ fs _ _ _, h => by
    simp only [PlaceholderOK] at h; simp only [PlaceholderW]; exact PlaceholderWL_of_OKL fs h
  | .dictionary _ idx vals _, h => by
    simp only [PlaceholderOK] at h; simp only [PlaceholderW]
    exact ⟨fun hn => Or.inl (h.1 hn), PlaceholderW_of_OK idx h.2.1, PlaceholderW_of_OK vals h.2.2⟩
  | .union _ fs _ _ _, h => by
    simp only [PlaceholderOK] at h; simp only [PlaceholderW]; exact PlaceholderWL_of_OKL fs h
theorem PlaceholderWL_of_OKL : ∀ (bl : BL), PlaceholderOKL bl → PlaceholderWL px bl
  | .nil, _ => trivial
  | .cons b _ r, h => by
    simp only [PlaceholderOKL] at h; simp only [PlaceholderWL]
    exact ⟨PlaceholderW_of_OK b h.1, PlaceholderWL_of_OKL r h.2⟩
end

/-! ### `Sound` from the weak invariant and a successful `into_array` -/

mutual
/-- **`Sound` without `Safe` and without `coveredF`**: when `into_array` succeeds, the placeholder key `0` of a non-nullable
key builder designates a value of the finished dictionary — a dictionary whose value builder refuses strings and that would
need the placeholder has no successful `into_array` -/
theorem Sound_of_finishH (ext : Ext) (hne : px = true → ExtNoEmpty ext) : ∀ (b : B) (a : Arr), WFH b → ShapeOK b → PlaceholderW px b → finish ext b = .ok a →
    Sound b
  | .null _ _, _, _, _, _, _ => by simp only [Sound]
  | .unknownVariant _, _, _, _, _, _ => by simp only [Sound]
  | .leaf _ _ _ _, _, _, _, _, _ => by simp only [Sound]
  | .bytes _ _ _ _ _, _, _, _, _, _ => by simp only [Sound]
  | .bytesView _ _ _ _ _, _, _, _, _, _ => by simp only [Sound]
  | .fixedSizeBinary _ n _ _ _ _, _, _, ho, _, _ => by
    simp only [ShapeOK] at ho
    simp only [Sound]
    intro h; exact absurd h ho
  | .list _ _ _ _ _ el, a, hw, ho, hp, h => by
    simp only [ShapeOK] at ho; simp only [PlaceholderW] at hp; simp only [Sound]
    simp only [finish, bind, Except.bind] at h
    cases he : finish ext el with
    | error e => rw [he] at h; cases h
    | ok ela => exact Sound_of_finishH ext hne el ela (WFH_list hw).2.2 ho hp he
  | .fixedSizeList _ _ _ _ _ _ el, a, hw, ho, hp, h => by
    simp only [ShapeOK] at ho; simp only [PlaceholderW] at hp; simp only [Sound]
    simp only [finish] at h
    split at h
    · cases h
    · simp only [bind, Except.bind] at h
      cases he : finish ext el with
      | error e => rw [he] at h; cases h
      | ok ela => exact Sound_of_finishH ext hne el ela (WFH_fixedSizeList hw).2.2 ho hp he
  | .map _ _ _ _ ks vs, a, hw, ho, hp, h => by
    simp only [ShapeOK] at ho; simp only [PlaceholderW] at hp; simp only [Sound]
    simp only [finish, bind, Except.bind] at h
    cases hek : finish ext ks with
    | error e => rw [hek] at h; cases h
    | ok ka =>
      rw [hek] at h
      cases hev : finish ext vs with
      | error e => rw [hev] at h; cases h
      | ok va =>
        exact ⟨Sound_of_finishH ext hne ks ka (WFH_map hw).2.2.2.1 ho.1 hp.1 hek,
          Sound_of_finishH ext hne vs va (WFH_map hw).2.2.2.2 ho.2 hp.2 hev⟩
  | .struct _ len _ fs _ _ _, a, hw, ho, hp, h => by
    simp only [ShapeOK] at ho; simp only [PlaceholderW] at hp; simp only [Sound]
    simp only [finish, bind, Except.bind] at h
    cases he : finishFields ext fs with
    | error e => rw [he] at h; cases h
    | ok afs => exact SoundL_of_finishFieldsH ext hne fs afs (WFHL_WFHs fs len (WFH_struct hw).2) ho hp he
  | .dictionary _ idx vals index, a, hw, ho, hp, h => by
    simp only [ShapeOK] at ho; simp only [PlaceholderW] at hp; simp only [Sound]
    obtain ⟨hwi, hwv, hlen⟩ := WFH_dictionary hw
    have hkeys := WFH_dictionary_keys hw
    simp only [finish, bind, Except.bind] at h
    cases hei : finish ext idx with
    | error e => rw [hei] at h; cases h
    | ok ka =>
      rw [hei] at h
      cases hev : finish ext vals with
      | error e => rw [hev] at h; cases h
      | ok va =>
        rw [hev] at h
        dsimp only at h
        refine ⟨intLeaf_Sound idx ho.1, Sound_of_finishH ext hne vals va hwv ho.2 hp.2.2 hev, ?_⟩
        intro k hk
        rw [intLeaf_decP idx ho.1] at hk
        rcases intLeaf_keys idx ho.1 k hk with h' | ⟨j, h'⟩
        · exact Or.inl h'
        · obtain ⟨h0, hj⟩ := hkeys k hk j h'
          have hge := dictVals_length_ge idx vals index (decP vals)
          rw [decP_length] at hge
          refine Or.inr ⟨j.toNat, by rw [h', Int.toNat_of_nonneg h0], ?_⟩
          rcases hj with hj | ⟨hj0, hnn⟩
          · omega
          · subst hj0
            cases hidx : index with
            | cons s r => rw [hidx] at hlen hge; simp only [List.length_cons] at hlen hge; simp only [Int.toNat_zero]; omega
            | nil =>
              have hrows : idx.rows ≠ 0 := by
                have h1 := intLeaf_rows idx ho.1
                have h2 : 0 < (dec idx).length := List.length_pos_of_mem hk
                omega
              have hnp : needsPlaceholder idx [] = true := by
                simp [needsPlaceholder, hnn, hrows]
              -- the placeholder branch of `into_array` ran and its `serialize_str("")` succeeded
              have hne : placeholderVals vals ≠ [] := by
                rcases hp.1 hnn with hne' | hr
                · exact hne'
                · exfalso
                  rw [hidx] at h
                  have hc : (!idx.isNullable && idx.rows != 0 && ([] : List String).isEmpty) = true := hnp
                  rw [if_pos hc] at h
                  cases hps : ctx vals.ann (pushScalar ext vals (.str "")) with
                  | error e => rw [hps] at h; cases h
                  | ok v' =>
                    rcases hr with hr | ⟨hpx, hr⟩
                    · exact pushScalar_refusesStr ext hr ((ctx_eq_ok _ _ _).1 hps)
                    · exact pushScalar_parsesStr_empty ext (hne hpx) hr ((ctx_eq_ok _ _ _).1 hps)
              simp only [dictVals, hnp, if_true, List.length_append, Int.toNat_zero]
              have : 0 < (placeholderVals vals).length := List.length_pos_iff.mpr hne
              omega
  | .union _ fs _ _ cur, a, hw, ho, hp, h => by
    simp only [ShapeOK] at ho; simp only [PlaceholderW] at hp; simp only [Sound]
    simp only [finish, bind, Except.bind] at h
    cases he : finishUFields ext fs 0 with
    | error e => rw [he] at h; cases h
    | ok afs => exact SoundL_of_finishUFieldsH ext hne fs 0 afs (WFHU_WFHs fs cur (WFH_union hw).2.1) ho hp he
theorem SoundL_of_finishFieldsH (ext : Ext) (hne : px = true → ExtNoEmpty ext) : ∀ (fs : BL) (afs : ArrFields), WFHs fs → ShapeOKL fs → PlaceholderWL px fs →
    finishFields ext fs = .ok afs → SoundL fs
  | .nil, _, _, _, _, _ => trivial
  | .cons b _ r, afs, hw, ho, hp, h => by
    simp only [WFHs] at hw; simp only [ShapeOKL] at ho; simp only [PlaceholderWL] at hp; simp only [SoundL]
    simp only [finishFields, bind, Except.bind] at h
    cases hb : finish ext b with
    | error e => rw [hb] at h; cases h
    | ok a =>
      rw [hb] at h
      cases hr : finishFields ext r with
      | error e => rw [hr] at h; cases h
      | ok ar =>
        exact ⟨Sound_of_finishH ext hne b a hw.1 ho.1 hp.1 hb, SoundL_of_finishFieldsH ext hne r ar hw.2 ho.2 hp.2 hr⟩
theorem SoundL_of_finishUFieldsH (ext : Ext) (hne : px = true → ExtNoEmpty ext) : ∀ (fs : BL) (k : Nat) (afs : ArrUFields), WFHs fs → ShapeOKL fs →
    PlaceholderWL px fs → finishUFields ext fs k = .ok afs → SoundL fs
  | .nil, _, _, _, _, _, _ => trivial
  | .cons b _ r, k, afs, hw, ho, hp, h => by
    simp only [WFHs] at hw; simp only [ShapeOKL] at ho; simp only [PlaceholderWL] at hp; simp only [SoundL]
    simp only [finishUFields] at h
    split at h
    · cases h
    · simp only [bind, Except.bind] at h
      cases hb : finish ext b with
      | error e => rw [hb] at h; cases h
      | ok a =>
        rw [hb] at h
        cases hr : finishUFields ext r (k + 1) with
        | error e => rw [hr] at h; cases h
        | ok ar =>
          exact ⟨Sound_of_finishH ext hne b a hw.1 ho.1 hp.1 hb,
            SoundL_of_finishUFieldsH ext hne r (k + 1) ar hw.2 ho.2 hp.2 hr⟩
end

/-! ### the schema predicate -/

/-- value types of a dictionary whose builder accepts `serialize_str` WITHOUT storing the string: the parsing leaf builders
and a nested dictionary.  For these the placeholder `serialize_str("")` of `into_array` neither certainly fails nor appends
an empty string — the physical layer does not cover them. -/
def dictValParsed : DataType → Bool
  | .date32 | .date64 | .time32 _ | .time64 _ | .timestamp _ _ | .duration _ | .decimal128 _ _ | .dictionary _ _ => true
  | _ => false

/-- the value types excluded at a dictionary: a nested Dictionary always; the parsed kinds unless `px` -/
def dictValExcl (px : Bool) (v : DataType) : Bool :=
  match v with
  | .dictionary _ _ => true
  | _ => !px && dictValParsed v

mutual
/-- data types covered by the physical layer (C03, and the physical half of C01): every dictionary with an integer key type
has a value type whose builder stores strings (Utf8, LargeUtf8, Utf8View) or refuses them -/
def coveredP (px : Bool) : DataType → Bool
  | .dictionary k v => !isIntDT k || (!dictValExcl px v && coveredP px v)
  | .list f | .largeList f => coveredPF px f
  | .fixedSizeList f _ => coveredPF px f
  | .map f _ => coveredPF px f
  | .struct fs => coveredPFs px fs
  | .union ufs _ => coveredPU px ufs
  | _ => true
def coveredPF (px : Bool) : Field → Bool
  | .mk _ dt _ _ => coveredP px dt
def coveredPFs (px : Bool) : Fields → Bool
  | .nil => true
  | .cons f r => coveredPF px f && coveredPFs px r
def coveredPU (px : Bool) : UFields → Bool
  | .nil => true
  | .cons _ f r => coveredPF px f && coveredPU px r
end

theorem dictValExcl_of_open {v : DataType} (h : dictValOpen v = false) : dictValExcl px v = false := by
  cases v <;> first | (simp [dictValExcl, dictValParsed]; done) | (simp [dictValOpen] at h; done)

mutual
theorem coveredP_of_coveredW : ∀ (dt : DataType), coveredW dt = true → coveredP px dt = true
  | .dictionary k v, h => by
    simp only [coveredW, Bool.or_eq_true, Bool.not_eq_true', Bool.and_eq_true] at h
    simp only [coveredP, Bool.or_eq_true, Bool.not_eq_true', Bool.and_eq_true]
    rcases h with h | h
    · exact Or.inl h
    · exact Or.inr ⟨dictValExcl_of_open h.1, coveredP_of_coveredW v h.2⟩
  | .list f, h => by simp only [coveredW] at h; simp only [coveredP]; exact coveredPF_of_coveredWF f h
  | .largeList f, h => by simp only [coveredW] at h; simp only [coveredP]; exact coveredPF_of_coveredWF f h
  | .fixedSizeList f _, h => by simp only [coveredW] at h; simp only [coveredP]; exact coveredPF_of_coveredWF f h
  | .map f _, h => by simp only [coveredW] at h; simp only [coveredP]; exact coveredPF_of_coveredWF f h
  | .struct fs, h => by simp only [coveredW] at h; simp only [coveredP]; exact coveredPFs_of_coveredWFs fs h
  | .union ufs _, h => by simp only [coveredW] at h; simp only [coveredP]; exact coveredPU_of_coveredWU ufs h
  | .null, _ | .boolean, _ | .int8, _ | .int16, _ | .int32, _ | .int64, _ | .uint8, _ | .uint16, _ | .uint32, _
  | .uint64, _ | .float16, _ | .float32, _ | .float64, _ | .utf8, _ | .largeUtf8, _ | .utf8View, _ | .binary, _
  | .largeBinary, _ | .binaryView, _ | .fixedSizeBinary _, _ | .date32, _ | .date64, _ | .timestamp _ _, _
  | .time32 _, _ | .time64 _, _ | .duration _, _ | .interval _, _ | .decimal128 _ _, _ | .runEndEncoded _ _, _ => rfl
theorem coveredPF_of_coveredWF : ∀ (f : Field), coveredWF f = true → coveredPF px f = true
  | .mk _ dt _ _, h => by simp only [coveredWF] at h; simp only [coveredPF]; exact coveredP_of_coveredW dt h
theorem coveredPFs_of_coveredWFs : ∀ (fs : Fields), coveredWFs fs = true → coveredPFs px fs = true
  | .nil, _ => rfl
  | .cons f r, h => by
    simp only [coveredWFs, Bool.and_eq_true] at h
    simp only [coveredPFs, Bool.and_eq_true]
    exact ⟨coveredPF_of_coveredWF f h.1, coveredPFs_of_coveredWFs r h.2⟩
theorem coveredPU_of_coveredWU : ∀ (ufs : UFields), coveredWU ufs = true → coveredPU px ufs = true
  | .nil, _ => rfl
  | .cons _ f r, h => by
    simp only [coveredWU, Bool.and_eq_true] at h
    simp only [coveredPU, Bool.and_eq_true]
    exact ⟨coveredPF_of_coveredWF f h.1, coveredPU_of_coveredWU r h.2⟩
end

theorem all_coveredPF_of_coveredWF {fields : List Field} (h : fields.all coveredWF = true) :
    fields.all (coveredPF px) = true := by
  simp only [List.all_eq_true] at h ⊢
  exact fun f hf => coveredPF_of_coveredWF f (h f hf)

theorem all_coveredPF_of_coveredF {fields : List Field} (h : fields.all coveredF = true) :
    fields.all (coveredPF px) = true :=
  all_coveredPF_of_coveredWF (all_coveredWF_of_coveredF h)

theorem coveredPF_iff (f : Field) : coveredPF px f = coveredP px f.dataType := by
  cases f; simp only [coveredPF, Field.dataType]

theorem coveredPFs_ofList : ∀ (fields : List Field), coveredPFs px (Fields.ofList fields) = fields.all (coveredPF px)
  | [] => rfl
  | f :: r => by simp [Fields.ofList, coveredPFs, coveredPFs_ofList r]

/-- the (non-nullable) value builder of a value type outside `dictValExcl` has a placeholder row, or refuses strings, or
(`px`) parses them -/
theorem dictVal_builtFor (b : B) (vdt : DataType) (hv : dictValExcl px vdt = false) (hb : BuiltFor vdt false b) :
    placeholderVals b ≠ [] ∨ b.refusesStr = true ∨ (px = true ∧ parsesStr b = true) := by
  cases b with
  | null p len => exact Or.inr (Or.inl rfl)
  | unknownVariant p => exact Or.inr (Or.inl rfl)
  | leaf p kind v vals =>
    simp only [BuiltFor] at hb
    obtain ⟨rfl, _⟩ := hb
    right
    cases px with
    | false => left; cases kind <;> first | rfl | (simp [leafDT, dictValExcl, dictValParsed] at hv)
    | true =>
      cases kind with
      | bool | int _ | f16 | f32 | f64 => exact Or.inl rfl
      | _ => exact Or.inr ⟨rfl, rfl⟩
  | bytes p ty v offs data =>
    simp only [BuiltFor] at hb
    obtain ⟨_, hn⟩ := hb
    cases v with
    | some bits => cases hn
    | none =>
      cases ty
      · exact Or.inl (by simp [placeholderVals])
      · exact Or.inl (by simp [placeholderVals])
      · exact Or.inr (Or.inl rfl)
      · exact Or.inr (Or.inl rfl)
  | bytesView p ty v views buf =>
    simp only [BuiltFor] at hb
    obtain ⟨_, hn⟩ := hb
    cases v with
    | some bits => cases hn
    | none =>
      cases ty
      · exact Or.inl (by simp [placeholderVals])
      · exact Or.inr (Or.inl rfl)
  | fixedSizeBinary p n len v buf cur => exact Or.inr (Or.inl rfl)
  | list p large fm v offs el => exact Or.inr (Or.inl rfl)
  | fixedSizeList p fm n len v cur el => exact Or.inr (Or.inl rfl)
  | map p mm v offs ks vs => exact Or.inr (Or.inl rfl)
  | struct p len v fs c n s => exact Or.inr (Or.inl rfl)
  | dictionary p idx vals index =>
    simp only [BuiltFor] at hb; obtain ⟨_, _, rfl, _⟩ := hb; simp [dictValExcl] at hv
  | union p fs t o c => exact Or.inr (Or.inl rfl)

theorem intLeaf_PlaceholderW (idx : B) (h : isIntLeaf idx = true) : PlaceholderW px idx := by
  cases idx with
  | leaf p kind v vals => simp only [PlaceholderW]
  | _ => simp [isIntLeaf] at h

mutual
/-- the builder of a `coveredP` data type is `PlaceholderW` -/
theorem BuiltFor_PlaceholderW : ∀ (b : B) (dt : DataType) (nl : Bool), BuiltFor dt nl b → coveredP px dt = true →
    PlaceholderW px b
  | .null _ _, _, _, _, _ => by simp only [PlaceholderW]
  | .unknownVariant _, _, _, _, _ => by simp only [PlaceholderW]
  | .leaf _ _ _ _, _, _, _, _ => by simp only [PlaceholderW]
  | .bytes _ _ _ _ _, _, _, _, _ => by simp only [PlaceholderW]
  | .bytesView _ _ _ _ _, _, _, _, _ => by simp only [PlaceholderW]
  | .fixedSizeBinary _ _ _ _ _ _, _, _, _, _ => by simp only [PlaceholderW]
  | .list _ large _ _ _ el, dt, nl, hb, hc => by
    simp only [BuiltFor] at hb
    obtain ⟨f, rfl, _, _, hbe⟩ := hb
    simp only [PlaceholderW]
    refine BuiltFor_PlaceholderW el _ _ hbe ?_
    cases large <;> simp only [Bool.false_eq_true, if_false, if_true, coveredP] at hc <;> rw [← coveredPF_iff] <;> exact hc
  | .fixedSizeList _ _ _ _ _ _ el, dt, nl, hb, hc => by
    simp only [BuiltFor] at hb
    obtain ⟨f, rfl, _, _, hbe⟩ := hb
    simp only [coveredP] at hc
    simp only [PlaceholderW]
    exact BuiltFor_PlaceholderW el _ _ hbe (by rw [← coveredPF_iff]; exact hc)
  | .map _ _ _ _ ks vs, dt, nl, hb, hc => by
    simp only [BuiltFor] at hb
    obtain ⟨ename, kf, vf, sorted, enl, emd, rfl, _, _, hbk, hbv⟩ := hb
    simp only [coveredP, coveredPF, coveredPFs, Bool.and_true, Bool.and_eq_true] at hc
    simp only [PlaceholderW]
    exact ⟨BuiltFor_PlaceholderW ks _ _ hbk (by rw [← coveredPF_iff]; exact hc.1),
      BuiltFor_PlaceholderW vs _ _ hbv (by rw [← coveredPF_iff]; exact hc.2)⟩
  | .struct _ _ _ fs _ _ _, dt, nl, hb, hc => by
    simp only [BuiltFor] at hb
    obtain ⟨fields, rfl, _, hbl⟩ := hb
    simp only [coveredP] at hc
    simp only [PlaceholderW]
    exact BuiltForL_PlaceholderWL fs fields hbl hc
  | .dictionary _ idx vals _, dt, nl, hb, hc => by
    simp only [BuiltFor] at hb
    obtain ⟨k, vdt, rfl, hk, hbi, hbv⟩ := hb
    simp only [coveredP, hk, Bool.not_true, Bool.false_or, Bool.and_eq_true, Bool.not_eq_true'] at hc
    simp only [PlaceholderW]
    exact ⟨fun _ => dictVal_builtFor vals vdt hc.1 hbv,
      intLeaf_PlaceholderW idx (isIntLeaf_of_builtFor idx k nl hk hbi), BuiltFor_PlaceholderW vals _ _ hbv hc.2⟩
  | .union _ fs _ _ _, dt, nl, hb, hc => by
    simp only [BuiltFor] at hb
    obtain ⟨ufs, mode, rfl, hbu⟩ := hb
    simp only [coveredP] at hc
    simp only [PlaceholderW]
    exact BuiltForU_PlaceholderWL fs ufs 0 hbu hc
theorem BuiltForL_PlaceholderWL : ∀ (bl : BL) (fs : Fields), BuiltForL fs bl → coveredPFs px fs = true → PlaceholderWL px bl
  | .nil, _, _, _ => trivial
  | .cons b m r, .nil, hb, _ => by simp [BuiltForL] at hb
  | .cons b m r, .cons f fr, hb, hc => by
    simp only [BuiltForL] at hb
    simp only [coveredPFs, Bool.and_eq_true] at hc
    simp only [PlaceholderWL]
    exact ⟨BuiltFor_PlaceholderW b _ _ hb.2.1 (by rw [← coveredPF_iff]; exact hc.1),
      BuiltForL_PlaceholderWL r fr hb.2.2 hc.2⟩
theorem BuiltForU_PlaceholderWL : ∀ (bl : BL) (ufs : UFields) (k : Nat), BuiltForU ufs bl k → coveredPU px ufs = true →
    PlaceholderWL px bl
  | .nil, _, _, _, _ => trivial
  | .cons b m r, .nil, _, hb, _ => by simp [BuiltForU] at hb
  | .cons b m r, .cons t f fr, k, hb, hc => by
    simp only [BuiltForU] at hb
    simp only [coveredPU, Bool.and_eq_true] at hc
    simp only [PlaceholderWL]
    exact ⟨BuiltFor_PlaceholderW b _ _ hb.2.2.1 (by rw [← coveredPF_iff]; exact hc.1),
      BuiltForU_PlaceholderWL r fr (k + 1) hb.2.2.2 hc.2⟩
end

/-- every state of a run over a `coveredPF` schema is `PlaceholderW` -/
theorem runRows_PlaceholderW (ext : Ext) (fields : List Field) (rows : List SVal) (root : B)
    (hc : fields.all (coveredPF px) = true) (h : runRows ext fields rows = .ok root) : PlaceholderW px root :=
  BuiltFor_PlaceholderW root _ _ (runRows_builtFor ext fields rows root (Build.push_takeRest ext) h) (by
    simp only [coveredP]; rw [coveredPFs_ofList]; exact hc)

/-! ### everything the physical layer needs to know about the final state of a SUCCESSFUL `to_marrow` -/

/-- `root_factsH` with `coveredPF` and the success of `build_arrays` in place of `PlaceholderOK` -/
theorem root_factsW (ext : Ext) (hne : px = true → ExtNoEmpty ext) (fields : List Field) (rows : List SVal) (root : B) (out : List Arr × B)
    (hschema : ∀ f ∈ fields, SchemaOKF f) (hcov : fields.all (coveredPF px) = true) (hw : WFH root)
    (hrun : runRows ext fields rows = .ok root) (hba : buildArrays ext root = .ok out) :
    BuiltFor (.struct (Fields.ofList fields)) false root ∧ Sound root ∧ PX root := by
  have hb := runRows_builtFor ext fields rows root (Build.push_takeRest ext) hrun
  have hshape := BuiltFor_ShapeOK root _ _ hb (by
    simp only [SchemaOK]; exact Props.C03.SchemaOKFs_ofList fields hschema)
  have hp := runRows_PlaceholderW ext fields rows root hcov hrun
  refine ⟨hb, ?_, runRows_PX ext fields rows root hrun⟩
  cases root with
  | struct p len v fs cached next seen =>
    simp only [buildArrays, bind, Except.bind] at hba
    cases hf : finishFields ext fs with
    | error e => rw [hf] at hba; cases hba
    | ok afs =>
      simp only [ShapeOK] at hshape; simp only [PlaceholderW] at hp; simp only [Sound]
      exact SoundL_of_finishFieldsH ext hne fs afs (WFHL_WFHs fs len (WFH_struct hw).2) hshape hp hf
  | _ => simp [buildArrays, panic] at hba

/-- **C03 without `Safe`, modulo the refinement, on `coveredPF`** (`C03_wf_of_WFH` with the wider schema predicate) -/
theorem C03_wf_of_WFHW (ext : Ext) (hne : px = true → ExtNoEmpty ext) (fields : List Field) (rows : List SVal) (arrs : List Arr)
    (hschema : ∀ f ∈ fields, SchemaOKF f)
    (hcov : fields.all (coveredPF px) = true)
    (hext : ExtOK ext)
    (hrows : ∀ x ∈ rows, SValOK x)
    (hwfh : ∀ root, runRows ext fields rows = .ok root → WFH root)
    (h : toMarrow ext fields rows = .ok arrs) :
    arrs.length = fields.length ∧
    ∃ n : Nat, ∀ (j : Nat) (f : Field) (a : Arr), fields[j]? = some f → arrs[j]? = some a →
      WFS f a = true ∧ (decodeAll a).length = n := by
  obtain ⟨root, hrun, rest, hba⟩ := Props.C03.toMarrow_split ext fields rows arrs h
  have hfacts : ∀ r, runRows ext fields rows = .ok r →
      BuiltFor (.struct (Fields.ofList fields)) false r ∧ Sound r ∧ PX r := fun r hr => by
    have : r = root := by rw [hrun] at hr; cases hr; rfl
    subst this
    exact root_factsW ext hne fields rows r _ hschema hcov (hwfh r hr) hr hba
  exact C03_wf_of_rootH ext fields rows arrs hwfh (fun r hr => (hfacts r hr).1) (fun r hr => (hfacts r hr).2.1)
    (fun r hr => runRows_WFX ext hext fields rows r hrows hr (WFH_small r (hwfh r hr))) h

/-- **the physical half of C01 without `Safe`, modulo the refinement, on `coveredPF`** -/
theorem toMarrow_decode_of_WFHW (ext : Ext) (hne : px = true → ExtNoEmpty ext) (fields : List Field) (rows : List SVal) (arrs : List Arr)
    (hschema : ∀ f ∈ fields, SchemaOKF f)
    (hcov : fields.all (coveredPF px) = true)
    (hwfh : ∀ root, runRows ext fields rows = .ok root → WFH root)
    (hdet : ∀ root, runRows ext fields rows = .ok root → ∀ c ∈ decHRoot root, ∀ r ∈ c, r.isSome = true)
    (h : toMarrow ext fields rows = .ok arrs) :
    ∃ root, runRows ext fields rows = .ok root ∧ arrs.map decodeAll = (decRoot root).map (·.map .ok) := by
  obtain ⟨root, hrun, rest, hba⟩ := Props.C03.toMarrow_split ext fields rows arrs h
  refine toMarrow_decode_of_rootH ext fields rows arrs hwfh (fun r hr => ?_) hdet h
  have : r = root := by rw [hrun] at hr; cases hr; rfl
  subst this
  exact (root_factsW ext hne fields rows r _ hschema hcov (hwfh r hr) hr hba).2.1

end SaModel.Lemmas.C03
