import SaModel.Lemmas.C03Total
import SaModel.Lemmas.C03ObsRoot
/-
Totality of `finish` (`into_array`) under the weak state invariant `WFH` (no `Safe`) — port of Lemmas/C03Total.lean:

    finish_totalH : WFH b → FinB b → PlaceholderStr b → ∃ a, finish ext b = ok a

Difference to `finish_total`: under `WFB` the placeholder branch of `DictionaryUtf8Builder::into_array`
(`!idx.isNullable && idx.rows != 0 && index.isEmpty` → `self.values.serialize_str("")`) is dead (`dict_placeholder_dead`);
under `WFH` it is LIVE (placeholder keys `0` of a non-nullable key builder while the dictionary has no value).  There
`serialize_str("")` must succeed, which it does exactly when the value builder takes strings:

  * `PlaceholderStr` (shape only, invariant under `take`): the value builder of every dictionary with NON-nullable keys is
    a Utf8 / LargeUtf8 `.bytes` builder or a Utf8View `.bytesView` builder (`isStrB`; ANY validity — `serialize_str` sets
    the bit).  A Binary / LargeBinary / BinaryView (or any other) value builder refuses `serialize_str`, and `finish`
    FAILS in the model: `placeholder_binary_fails`.  (`PlaceholderOK` of Lemmas/C03ObsFinish.lean — what `Sound` needs —
    allows binary value builders, so it is not the right hypothesis here.)
  * NO bound on the offsets is needed (no `PX`): the branch only fires when `index` is empty, and `WFH` ties the number of
    values to `index.length`, so the value builder is EMPTY — its offsets are `[0]`, and `0 + 0 ≤ offMax`.
`BuiltFor dt nl b → covered dt = true → PlaceholderStr b` (`BuiltFor_PlaceholderStr`), so for `to_marrow`:

    toMarrow_totalH : fields.all coveredF → typedFs (ofList fields) → WFH root → runRows … = ok root → ∃ arrs, toMarrow … = ok arrs
-/
namespace SaModel.Lemmas.C03
open SaModel SaModel.Build SaModel.Spec

/-! ### the value builders `serialize_str("")` succeeds on -/

/-- a Utf8 / LargeUtf8 / Utf8View builder (any validity) -/
def isStrB : B → Bool
  | .bytes _ ty _ _ _ => isUtf8Ty ty
  | .bytesView _ ty _ _ _ => ty == .utf8View
  | _ => false

mutual
/-- the value builder of every dictionary with NON-nullable keys takes strings -/
def PlaceholderStr : B → Prop
  | .list _ _ _ _ _ el => PlaceholderStr el
  | .fixedSizeList _ _ _ _ _ _ el => PlaceholderStr el
  | .map _ _ _ _ ks vs => PlaceholderStr ks ∧ PlaceholderStr vs
  | .struct _ _ _ fs _ _ _ => PlaceholderStrL fs
  | .dictionary _ idx vals _ => (idx.isNullable = false → isStrB vals = true) ∧ PlaceholderStr idx ∧ PlaceholderStr vals
  | .union _ fs _ _ _ => PlaceholderStrL fs
  | _ => True
def PlaceholderStrL : BL → Prop
  | .nil => True
  | .cons b _ r => PlaceholderStr b ∧ PlaceholderStrL r
end

theorem isStrB_takeRest (b : B) : isStrB (takeRest b) = isStrB b := by
  cases b <;> simp only [takeRest, isStrB]

mutual
theorem PlaceholderStr_takeRest : ∀ (b : B), PlaceholderStr (takeRest b) ↔ PlaceholderStr b
  | .null _ _ => by simp only [takeRest, PlaceholderStr]
  | .unknownVariant _ => by simp only [takeRest, PlaceholderStr]
  | .leaf _ _ _ _ => by simp only [takeRest, PlaceholderStr]
  | .bytes _ _ _ _ _ => by simp only [takeRest, PlaceholderStr]
  | .bytesView _ _ _ _ _ => by simp only [takeRest, PlaceholderStr]
  | .fixedSizeBinary _ _ _ _ _ _ => by simp only [takeRest, PlaceholderStr]
  | .list _ _ _ _ _ el => by simp only [takeRest, PlaceholderStr, PlaceholderStr_takeRest el]
  | .fixedSizeList _ _ _ _ _ _ el => by simp only [takeRest, PlaceholderStr, PlaceholderStr_takeRest el]
  | .map _ _ _ _ ks vs => by simp only [takeRest, PlaceholderStr, PlaceholderStr_takeRest ks, PlaceholderStr_takeRest vs]
  | .struct _ _ _ fs _ _ _ => by simp only [takeRest, PlaceholderStr, PlaceholderStrL_takeRestAll fs]
  | .dictionary _ idx vals _ => by
    simp only [takeRest, PlaceholderStr, isNullable_takeRest, isStrB_takeRest, PlaceholderStr_takeRest idx,
      PlaceholderStr_takeRest vals]
  | .union _ fs _ _ _ => by simp only [takeRest, PlaceholderStr, PlaceholderStrL_takeRestAll fs]
theorem PlaceholderStrL_takeRestAll : ∀ (bl : BL), PlaceholderStrL (takeRestAll bl) ↔ PlaceholderStrL bl
  | .nil => by simp only [takeRestAll]
  | .cons b _ r => by simp only [takeRestAll, PlaceholderStrL, PlaceholderStr_takeRest b, PlaceholderStrL_takeRestAll r]
end

theorem PlaceholderStr_of_takeRest_eq (b b' : B) (h : takeRest b' = takeRest b) (hb : PlaceholderStr b) :
    PlaceholderStr b' := by
  rw [← PlaceholderStr_takeRest b', h, PlaceholderStr_takeRest b]; exact hb

/-! ### the schema side -/

theorem intLeaf_PlaceholderStr (idx : B) (h : isIntLeaf idx = true) : PlaceholderStr idx := by
  cases idx with
  | leaf p kind v vals => simp only [PlaceholderStr]
  | _ => simp [isIntLeaf] at h

/-- the value builder of a `Dictionary(_, Utf8 | LargeUtf8)` takes strings -/
theorem strDT_builtFor_str (b : B) (vdt : DataType) (nl : Bool) (hv : isStrDT vdt = true) (hb : BuiltFor vdt nl b) :
    isStrB b = true ∧ PlaceholderStr b := by
  cases b with
  | bytes p ty v offs data =>
    simp only [BuiltFor] at hb
    obtain ⟨rfl, _⟩ := hb
    refine ⟨?_, by simp only [PlaceholderStr]⟩
    cases ty <;> simp [Lemmas.C03.bytesDT, isStrDT] at hv <;> rfl
  | leaf p kind v vals =>
    simp only [BuiltFor] at hb
    obtain ⟨rfl, _⟩ := hb
    cases kind with
    | int t => cases t <;> simp [leafDT, intDT, isStrDT] at hv
    | _ => simp [leafDT, isStrDT] at hv
  | null p len => simp only [BuiltFor] at hb; subst hb; simp [isStrDT] at hv
  | unknownVariant p => simp only [BuiltFor] at hb; subst hb; simp [isStrDT] at hv
  | bytesView p ty v views buf =>
    simp only [BuiltFor] at hb; obtain ⟨rfl, _⟩ := hb; cases ty <;> simp [Lemmas.C03.viewDT, isStrDT] at hv
  | fixedSizeBinary p n len v buf cur =>
    simp only [BuiltFor] at hb; obtain ⟨rfl, _⟩ := hb; simp [isStrDT] at hv
  | list p large fm v offs el =>
    simp only [BuiltFor] at hb; obtain ⟨f, rfl, _⟩ := hb; cases large <;> simp [isStrDT] at hv
  | fixedSizeList p fm n len v cur el =>
    simp only [BuiltFor] at hb; obtain ⟨f, rfl, _⟩ := hb; simp [isStrDT] at hv
  | map p mm v offs ks vs =>
    simp only [BuiltFor] at hb; obtain ⟨_, _, _, _, _, _, rfl, _⟩ := hb; simp [isStrDT] at hv
  | struct p len v fs c n s =>
    simp only [BuiltFor] at hb; obtain ⟨_, rfl, _⟩ := hb; simp [isStrDT] at hv
  | dictionary p idx vals index =>
    simp only [BuiltFor] at hb; obtain ⟨_, _, rfl, _⟩ := hb; simp [isStrDT] at hv
  | union p fs t o c =>
    simp only [BuiltFor] at hb; obtain ⟨_, _, rfl, _⟩ := hb; simp [isStrDT] at hv

mutual
/-- the builder of a `covered` data type (dictionaries: integer keys, Utf8 / LargeUtf8 values) is `PlaceholderStr` -/
theorem BuiltFor_PlaceholderStr : ∀ (b : B) (dt : DataType) (nl : Bool), BuiltFor dt nl b → covered dt = true →
    PlaceholderStr b
  | .null _ _, _, _, _, _ => by simp only [PlaceholderStr]
  | .unknownVariant _, _, _, _, _ => by simp only [PlaceholderStr]
  | .leaf _ _ _ _, _, _, _, _ => by simp only [PlaceholderStr]
  | .bytes _ _ _ _ _, _, _, _, _ => by simp only [PlaceholderStr]
  | .bytesView _ _ _ _ _, _, _, _, _ => by simp only [PlaceholderStr]
  | .fixedSizeBinary _ _ _ _ _ _, _, _, _, _ => by simp only [PlaceholderStr]
  | .list _ large _ _ _ el, dt, nl, hb, hc => by
    simp only [BuiltFor] at hb
    obtain ⟨f, rfl, _, _, hbe⟩ := hb
    simp only [PlaceholderStr]
    refine BuiltFor_PlaceholderStr el _ _ hbe ?_
    cases large <;> simp only [Bool.false_eq_true, if_false, if_true, covered] at hc <;> rw [← coveredF_iff] <;> exact hc
  | .fixedSizeList _ _ _ _ _ _ el, dt, nl, hb, hc => by
    simp only [BuiltFor] at hb
    obtain ⟨f, rfl, _, _, hbe⟩ := hb
    simp only [covered] at hc
    simp only [PlaceholderStr]
    exact BuiltFor_PlaceholderStr el _ _ hbe (by rw [← coveredF_iff]; exact hc)
  | .map _ _ _ _ ks vs, dt, nl, hb, hc => by
    simp only [BuiltFor] at hb
    obtain ⟨ename, kf, vf, sorted, enl, emd, rfl, _, _, hbk, hbv⟩ := hb
    simp only [covered, coveredF, coveredFs, Bool.and_true, Bool.and_eq_true] at hc
    simp only [PlaceholderStr]
    exact ⟨BuiltFor_PlaceholderStr ks _ _ hbk (by rw [← coveredF_iff]; exact hc.1),
      BuiltFor_PlaceholderStr vs _ _ hbv (by rw [← coveredF_iff]; exact hc.2)⟩
  | .struct _ _ _ fs _ _ _, dt, nl, hb, hc => by
    simp only [BuiltFor] at hb
    obtain ⟨fields, rfl, _, hbl⟩ := hb
    simp only [covered] at hc
    simp only [PlaceholderStr]
    exact BuiltForL_PlaceholderStrL fs fields hbl hc
  | .dictionary _ idx vals _, dt, nl, hb, hc => by
    simp only [BuiltFor] at hb
    obtain ⟨k, vdt, rfl, hk, hbi, hbv⟩ := hb
    simp only [covered, hk, Bool.not_true, Bool.false_or] at hc
    simp only [PlaceholderStr]
    have := strDT_builtFor_str vals vdt false hc hbv
    exact ⟨fun _ => this.1, intLeaf_PlaceholderStr idx (isIntLeaf_of_builtFor idx k nl hk hbi), this.2⟩
  | .union _ fs _ _ _, dt, nl, hb, hc => by
    simp only [BuiltFor] at hb
    obtain ⟨ufs, mode, rfl, hbu⟩ := hb
    simp only [covered] at hc
    simp only [PlaceholderStr]
    exact BuiltForU_PlaceholderStrL fs ufs 0 hbu hc
theorem BuiltForL_PlaceholderStrL : ∀ (bl : BL) (fs : Fields), BuiltForL fs bl → coveredFs fs = true → PlaceholderStrL bl
  | .nil, _, _, _ => trivial
  | .cons b m r, .nil, hb, _ => by simp [BuiltForL] at hb
  | .cons b m r, .cons f fr, hb, hc => by
    simp only [BuiltForL] at hb
    simp only [coveredFs, Bool.and_eq_true] at hc
    simp only [PlaceholderStrL]
    exact ⟨BuiltFor_PlaceholderStr b _ _ hb.2.1 (by rw [← coveredF_iff]; exact hc.1),
      BuiltForL_PlaceholderStrL r fr hb.2.2 hc.2⟩
theorem BuiltForU_PlaceholderStrL : ∀ (bl : BL) (ufs : UFields) (k : Nat), BuiltForU ufs bl k → coveredU ufs = true →
    PlaceholderStrL bl
  | .nil, _, _, _, _ => trivial
  | .cons b m r, .nil, _, hb, _ => by simp [BuiltForU] at hb
  | .cons b m r, .cons t f fr, k, hb, hc => by
    simp only [BuiltForU] at hb
    simp only [coveredU, Bool.and_eq_true] at hc
    simp only [PlaceholderStrL]
    exact ⟨BuiltFor_PlaceholderStr b _ _ hb.2.2.1 (by rw [← coveredF_iff]; exact hc.1),
      BuiltForU_PlaceholderStrL r fr (k + 1) hb.2.2.2 hc.2⟩
end

theorem newRoot_PlaceholderStr {fields : List Field} {root0 : B} (hc : fields.all coveredF = true)
    (h : newRoot fields = .ok root0) : PlaceholderStr root0 :=
  BuiltFor_PlaceholderStr root0 _ _ (newRoot_builtFor fields root0 h) (by
    simp only [covered]; rw [coveredFs_ofList]; exact hc)

theorem runRows_PlaceholderStr (ext : Ext) (fields : List Field) (rows : List SVal) (root : B)
    (hc : fields.all coveredF = true) (h : runRows ext fields rows = .ok root) : PlaceholderStr root :=
  BuiltFor_PlaceholderStr root _ _ (runRows_builtFor ext fields rows root (Build.push_takeRest ext) h) (by
    simp only [covered]; rw [coveredFs_ofList]; exact hc)

/-! ### `serialize_str("")` into an EMPTY string builder -/

theorem strBytes_empty : strBytes "" = [] := by simp [strBytes]

/-- the placeholder `self.values.serialize_str("")` succeeds on a string builder that holds no value (no bound on the
offsets needed: they are `[0]`) -/
theorem placeholder_push_ok (ext : Ext) (vals : B) (hw : WFH vals) (h0 : (dec vals).length = 0)
    (hs : isStrB vals = true) : ∃ v', pushScalar ext vals (.str "") = .ok v' := by
  cases vals with
  | bytes p ty v offs data =>
    simp only [isStrB] at hs
    obtain ⟨ho, hv⟩ := WFH_bytes hw
    have hl : (dec (.bytes p ty v offs data)).length = offs.length - 1 := by
      simp only [dec]
      exact Lemmas.C03.maskNull_length v _ _ hv (by simp [Lemmas.C03.pairs_length])
    rw [hl] at h0
    have hoffs : offs = [0] := by
      cases offs with
      | nil => have := ho.1; simp at this
      | cons a r =>
        cases r with
        | nil => have := ho.1; simp at this; rw [this]
        | cons c r' => simp at h0
    subst hoffs
    cases v <;> cases hlg : isLargeTy ty <;>
      simp [pushScalar, hs, scalarToString, strBytes_empty, setValidity, duplicateLast, incrementLast, offMax, hlg, bind,
        Except.bind, pure, Except.pure]
  | bytesView p ty v views buf =>
    simp only [isStrB] at hs
    cases v <;>
      simp [pushScalar, hs, scalarToString, strBytes_empty, setValidity, viewPushValue, bind, Except.bind, pure,
        Except.pure]
  | _ => simp [isStrB] at hs

theorem intLeaf_FinB (idx : B) (h : isIntLeaf idx = true) : FinB idx := by
  cases idx with
  | leaf p kind v vals => simp only [FinB]
  | _ => simp [isIntLeaf] at h

/-! ### totality of `finish`, weak invariant -/

mutual
/-- **`into_array` never fails on a state satisfying the weak invariant** (`FinB`: the checked conversions cannot fail;
`PlaceholderStr`: the placeholder `serialize_str("")` of a dictionary with non-nullable keys cannot fail) -/
theorem finish_totalH (ext : Ext) : ∀ (b : B), WFH b → FinB b → PlaceholderStr b → ∃ a, finish ext b = .ok a
  | .null _ _, _, _, _ => by simp only [finish]; exact ⟨_, rfl⟩
  | .unknownVariant _, _, _, _ => by simp only [finish]; exact ⟨_, rfl⟩
  | .leaf _ _ _ _, _, _, _ => by simp only [finish]; exact ⟨_, rfl⟩
  | .bytes _ _ _ _ _, _, _, _ => by simp only [finish]; exact ⟨_, rfl⟩
  | .bytesView _ _ _ _ _, _, _, _ => by simp only [finish]; exact ⟨_, rfl⟩
  | .fixedSizeBinary _ n _ _ _ _, _, hf, _ => by
    simp only [FinB] at hf
    have : ¬ ((n : Int) > 2147483647) := by omega
    simp only [finish, this, if_false]; exact ⟨_, rfl⟩
  | .list _ _ _ _ _ el, hw, hf, hp => by
    simp only [FinB] at hf
    simp only [PlaceholderStr] at hp
    obtain ⟨a, ha⟩ := finish_totalH ext el (WFH_list hw).2.2 hf hp
    simp only [finish, ha, bind, Except.bind, pure, Except.pure]; exact ⟨_, rfl⟩
  | .fixedSizeList _ _ n _ _ _ el, hw, hf, hp => by
    simp only [FinB] at hf
    simp only [PlaceholderStr] at hp
    obtain ⟨a, ha⟩ := finish_totalH ext el (WFH_fixedSizeList hw).2.2 hf.2 hp
    have : ¬ ((n : Int) > 2147483647) := by omega
    simp only [finish, this, if_false, ha, bind, Except.bind, pure, Except.pure]; exact ⟨_, rfl⟩
  | .map _ _ _ _ ks vs, hw, hf, hp => by
    simp only [FinB] at hf
    simp only [PlaceholderStr] at hp
    obtain ⟨a, ha⟩ := finish_totalH ext ks (WFH_map hw).2.2.2.1 hf.1 hp.1
    obtain ⟨c, hc⟩ := finish_totalH ext vs (WFH_map hw).2.2.2.2 hf.2 hp.2
    simp only [finish, ha, hc, bind, Except.bind, pure, Except.pure]; exact ⟨_, rfl⟩
  | .struct _ len _ fs _ _ _, hw, hf, hp => by
    simp only [FinB] at hf
    simp only [PlaceholderStr] at hp
    obtain ⟨a, ha⟩ := finishFields_totalH ext fs (WFHL_WFHs fs len (WFH_struct hw).2) hf hp
    simp only [finish, ha, bind, Except.bind, pure, Except.pure]; exact ⟨_, rfl⟩
  | .dictionary p idx vals index, hw, hf, hp => by
    simp only [FinB] at hf
    simp only [PlaceholderStr] at hp
    obtain ⟨hwi, hwv, hlen⟩ := WFH_dictionary hw
    obtain ⟨k, hk⟩ := finish_totalH ext idx hwi (intLeaf_FinB idx hf.1) hp.2.1
    obtain ⟨c, hc⟩ := finish_totalH ext vals hwv hf.2 hp.2.2
    cases hcond : (!idx.isNullable && idx.rows != 0 && index.isEmpty) with
    | false =>
      simp only [finish, hk, hc, bind, Except.bind, pure, Except.pure, hcond, Bool.false_eq_true, if_false]
      exact ⟨_, rfl⟩
    | true =>
      -- the placeholder branch: non-nullable keys, rows, no value at all
      have hcond' := hcond
      simp only [Bool.and_eq_true, Bool.not_eq_true', List.isEmpty_iff] at hcond'
      obtain ⟨⟨hnn, _⟩, hidx⟩ := hcond'
      rw [hidx] at hlen
      obtain ⟨v', hv'⟩ := placeholder_push_ok ext vals hwv (by simpa using hlen) (hp.1 hnn)
      have hctx := (Lemmas.C03.ctx_ok vals.ann _ v').2 hv'
      simp only [finish, hk, hc, bind, Except.bind, pure, Except.pure, hcond, if_true, hctx]
      exact ⟨_, rfl⟩
  | .union _ fs _ _ cur, hw, hf, hp => by
    simp only [FinB] at hf
    simp only [PlaceholderStr] at hp
    obtain ⟨a, ha⟩ := finishUFields_totalH ext fs 0 (WFHU_WFHs fs cur (WFH_union hw).2.1) hf.2 hp (by omega)
    simp only [finish, ha, bind, Except.bind, pure, Except.pure]; exact ⟨_, rfl⟩
theorem finishFields_totalH (ext : Ext) : ∀ (fs : BL), WFHs fs → FinBL fs → PlaceholderStrL fs →
    ∃ a, finishFields ext fs = .ok a
  | .nil, _, _, _ => by simp only [finishFields]; exact ⟨_, rfl⟩
  | .cons b m r, hw, hf, hp => by
    simp only [WFHs] at hw
    simp only [FinBL] at hf
    simp only [PlaceholderStrL] at hp
    obtain ⟨a, ha⟩ := finish_totalH ext b hw.1 hf.1 hp.1
    obtain ⟨c, hc⟩ := finishFields_totalH ext r hw.2 hf.2 hp.2
    simp only [finishFields, ha, hc, bind, Except.bind, pure, Except.pure]; exact ⟨_, rfl⟩
theorem finishUFields_totalH (ext : Ext) : ∀ (fs : BL) (idx : Nat), WFHs fs → FinBL fs → PlaceholderStrL fs →
    idx + fs.length ≤ 128 → ∃ a, finishUFields ext fs idx = .ok a
  | .nil, _, _, _, _, _ => by simp only [finishUFields]; exact ⟨_, rfl⟩
  | .cons b m r, idx, hw, hf, hp, hl => by
    simp only [WFHs] at hw
    simp only [FinBL] at hf
    simp only [PlaceholderStrL] at hp
    simp only [BL.length] at hl
    obtain ⟨a, ha⟩ := finish_totalH ext b hw.1 hf.1 hp.1
    obtain ⟨c, hc⟩ := finishUFields_totalH ext r (idx + 1) hw.2 hf.2 hp.2 (by omega)
    have : ¬ (idx > 127) := by omega
    simp only [finishUFields, this, if_false, ha, hc, bind, Except.bind, pure, Except.pure]; exact ⟨_, rfl⟩
end

/-- `build_arrays` never fails on a root satisfying the weak invariant -/
theorem buildArrays_totalH (ext : Ext) (root : B) (hw : WFH root) (hf : FinB root) (hp : PlaceholderStr root)
    (hroot : ∃ p len v fs c n s, root = .struct p len v fs c n s) : ∃ r, buildArrays ext root = .ok r := by
  obtain ⟨p, len, v, fs, c, n, s, rfl⟩ := hroot
  simp only [FinB] at hf
  simp only [PlaceholderStr] at hp
  obtain ⟨a, ha⟩ := finishFields_totalH ext fs (WFHL_WFHs fs len (WFH_struct hw).2) hf hp
  simp only [buildArrays, ha, bind, Except.bind, pure, Except.pure]; exact ⟨_, rfl⟩

/-! ### `PlaceholderStr` is needed: a binary value builder -/

/-- **the hypothesis is sharp.**  `Dictionary(UInt32, Binary)` with non-nullable keys, one placeholder key and no value: a
state satisfying `WFH`, `FinB` and even `PlaceholderOK` (the binary builder has a placeholder ROW) — but
`serialize_str("")` is refused by a Binary builder, so `into_array` fails.  (`covered` excludes the type: `build_builder`
accepts it, the schema assumption of C01/C03 does not.) -/
theorem placeholder_binary_fails :
    ∃ b : B, WFH b ∧ FinB b ∧ PlaceholderOK b ∧ ¬ PlaceholderStr b ∧ (finish {} b).isOk = false := by
  refine ⟨.dictionary "$.d" (.leaf "$.d.key" (.int .u32) none [0]) (.bytes "$.d.value" .binary none [0] []) [],
    ?_, ?_, ?_, ?_, by decide⟩
  · simp only [WFH]
    refine ⟨(by intro _ h; cases h), ⟨⟨rfl, rfl, by simp⟩, (by intro _ h; cases h)⟩, by simp, by decide, ?_, ?_, ?_⟩
    · intro k hk j hj
      have : k = .int 0 := by simpa [dec, maskNull, leafVal] using hk
      rw [this] at hj
      cases hj
      exact ⟨by omega, Or.inr ⟨rfl, rfl⟩⟩
    · exact ⟨fun h => by simp [B.isUtf8B, isUtf8Ty] at h, fun _ => rfl⟩
    · intro r hr; simp [decH, dec, maskNull, pairs] at hr
  · simp [FinB, isIntLeaf]
  · simp [PlaceholderOK, placeholderVals]
  · simp [PlaceholderStr, isStrB, isUtf8Ty, B.isNullable]

/-! ### `to_marrow` -/

theorem BuiltFor_struct_root (b : B) (fs : Fields) (nl : Bool) (hb : BuiltFor (.struct fs) nl b) :
    ∃ p len v bl c n s, b = .struct p len v bl c n s := by
  cases b with
  | struct p len v bl c n s => exact ⟨_, _, _, _, _, _, _, rfl⟩
  | leaf p kind v vals =>
    simp only [BuiltFor] at hb
    obtain ⟨h, _⟩ := hb
    cases kind with
    | int t => cases t <;> simp [leafDT, intDT] at h
    | _ => simp [leafDT] at h
  | null p len => simp [BuiltFor] at hb
  | unknownVariant p => simp [BuiltFor] at hb
  | bytes p ty v offs data => simp only [BuiltFor] at hb; obtain ⟨h, _⟩ := hb; cases ty <;> simp [Lemmas.C03.bytesDT] at h
  | bytesView p ty v views buf => simp only [BuiltFor] at hb; obtain ⟨h, _⟩ := hb; cases ty <;> simp [Lemmas.C03.viewDT] at h
  | fixedSizeBinary p n len v buf cur => simp [BuiltFor] at hb
  | list p large fm v offs el => simp only [BuiltFor] at hb; obtain ⟨f, h, _⟩ := hb; cases large <;> simp at h
  | fixedSizeList p fm n len v cur el => simp [BuiltFor] at hb
  | map p mm v offs ks vs => simp [BuiltFor] at hb
  | dictionary p idx vals index => simp [BuiltFor] at hb
  | union p fs t o c => simp [BuiltFor] at hb

/-- **`to_marrow` cannot fail in `build_arrays`, without `Safe`**: once every row has been accepted
(`runRows … = ok root`) and the final state satisfies the weak invariant, `to_marrow` succeeds.  Schema hypotheses:
`coveredF` (dictionary values Utf8 / LargeUtf8 — gives `PlaceholderStr`; needed, `placeholder_binary_fails`) and `typedFs`
(the typing invariant of `DataType`: sizes are `i32`, union type ids `i8` values — gives `FinB`).  `SchemaOKF` is NOT
needed (a `FixedSizeBinary(0)` column finishes, into a wrong array). -/
theorem toMarrow_totalH (ext : Ext) (fields : List Field) (rows : List SVal) (root : B)
    (hc : fields.all coveredF = true) (htyped : typedFs (Fields.ofList fields) = true)
    (hw : WFH root) (hrun : runRows ext fields rows = .ok root) : ∃ arrs, toMarrow ext fields rows = .ok arrs := by
  have hb := runRows_builtFor ext fields rows root (Build.push_takeRest ext) hrun
  have hf := FinB_of_builtFor root _ _ hb (by simpa [typedDT] using htyped)
  have hp := runRows_PlaceholderStr ext fields rows root hc hrun
  obtain ⟨⟨arrs, rest⟩, hba⟩ := buildArrays_totalH ext root hw hf hp (BuiltFor_struct_root root _ _ hb)
  refine ⟨arrs, ?_⟩
  rw [Props.C03.toMarrow_eq, hrun]
  simp only [bind, Except.bind, hba, pure, Except.pure]

end SaModel.Lemmas.C03
