import SaModel.Lemmas.C03ObsTotal
/-
`PlaceholderStr` (the hypothesis of `finish_totalH` / `Props.C01.toMarrow_complete''`: the value builder of every dictionary
with NON-nullable keys takes strings) as a Boolean predicate on the schema (wave 10, package `dict`).

  placeholderStrDT dt nl   a dictionary with an integer key type has a string-storing value type (Utf8, LargeUtf8, Utf8View)
                           unless its field is NULLABLE (then `into_array` never takes the placeholder branch); recursion through
                           every child field with that field's nullability; the value type is built non-nullable
  BuiltFor_PlaceholderStrW BuiltFor dt nl b → placeholderStrDT dt nl = true → PlaceholderStr b
  newRoot_PlaceholderStrW  fields.all placeholderStrF → newRoot fields = ok root0 → PlaceholderStr root0
  covered ⊆ placeholderStrDT (`placeholderStrDT_of_covered`)
-/
namespace SaModel.Lemmas.C03
open SaModel SaModel.Build SaModel.Spec

/-- value types whose builder stores strings -/
def isStrValDT : DataType → Bool
  | .utf8 | .largeUtf8 | .utf8View => true
  | _ => false

mutual
def placeholderStrDT : DataType → Bool → Bool
  | .dictionary k v, nl => !isIntDT k || ((nl || isStrValDT v) && placeholderStrDT v false)
  | .list f, _ | .largeList f, _ => placeholderStrF f
  | .fixedSizeList f _, _ => placeholderStrF f
  | .map f _, _ => placeholderStrF f
  | .struct fs, _ => placeholderStrFs fs
  | .union ufs _, _ => placeholderStrU ufs
  | _, _ => true
def placeholderStrF : Field → Bool
  | .mk _ dt nl _ => placeholderStrDT dt nl
def placeholderStrFs : Fields → Bool
  | .nil => true
  | .cons f r => placeholderStrF f && placeholderStrFs r
def placeholderStrU : UFields → Bool
  | .nil => true
  | .cons _ f r => placeholderStrF f && placeholderStrU r
end

theorem placeholderStrF_iff (f : Field) : placeholderStrF f = placeholderStrDT f.dataType f.nullable := by
  cases f; simp only [placeholderStrF, Field.dataType, Field.nullable]

/-- the builder of a string-storing value type takes strings -/
theorem strValDT_builtFor (b : B) (vdt : DataType) (nl : Bool) (hv : isStrValDT vdt = true) (hb : BuiltFor vdt nl b) :
    isStrB b = true := by
  cases b with
  | bytes p ty v offs data =>
    simp only [BuiltFor] at hb
    obtain ⟨rfl, _⟩ := hb
    cases ty <;> simp [Lemmas.C03.bytesDT, isStrValDT] at hv <;> rfl
  | bytesView p ty v views buf =>
    simp only [BuiltFor] at hb
    obtain ⟨rfl, _⟩ := hb
    cases ty <;> simp [Lemmas.C03.viewDT, isStrValDT] at hv <;> rfl
  | leaf p kind v vals =>
    simp only [BuiltFor] at hb
    obtain ⟨rfl, _⟩ := hb
    cases kind with
    | int t => cases t <;> simp [leafDT, intDT, isStrValDT] at hv
    | _ => simp [leafDT, isStrValDT] at hv
  | null p len => simp only [BuiltFor] at hb; subst hb; simp [isStrValDT] at hv
  | unknownVariant p => simp only [BuiltFor] at hb; subst hb; simp [isStrValDT] at hv
  | fixedSizeBinary p n len v buf cur =>
    simp only [BuiltFor] at hb; obtain ⟨rfl, _⟩ := hb; simp [isStrValDT] at hv
  | list p large fm v offs el =>
    simp only [BuiltFor] at hb; obtain ⟨f, rfl, _⟩ := hb; cases large <;> simp [isStrValDT] at hv
  | fixedSizeList p fm n len v cur el =>
    simp only [BuiltFor] at hb; obtain ⟨f, rfl, _⟩ := hb; simp [isStrValDT] at hv
  | map p mm v offs ks vs =>
    simp only [BuiltFor] at hb; obtain ⟨_, _, _, _, _, _, rfl, _⟩ := hb; simp [isStrValDT] at hv
  | struct p len v fs c n s =>
    simp only [BuiltFor] at hb; obtain ⟨_, rfl, _⟩ := hb; simp [isStrValDT] at hv
  | dictionary p idx vals index =>
    simp only [BuiltFor] at hb; obtain ⟨_, _, rfl, _⟩ := hb; simp [isStrValDT] at hv
  | union p fs t o c =>
    simp only [BuiltFor] at hb; obtain ⟨_, _, rfl, _⟩ := hb; simp [isStrValDT] at hv

/-- the key builder of a field of nullability `nl` is nullable iff `nl` -/
theorem intKey_isNullable (idx : B) (k : DataType) (nl : Bool) (hk : isIntDT k = true) (hb : BuiltFor k nl idx) :
    idx.isNullable = nl := by
  cases idx with
  | leaf p kind v vals =>
    simp only [BuiltFor] at hb
    simp only [B.isNullable]
    exact hb.2
  | null p len => simp only [BuiltFor] at hb; subst hb; simp [isIntDT] at hk
  | unknownVariant p => simp only [BuiltFor] at hb; subst hb; simp [isIntDT] at hk
  | bytes p ty v offs data =>
    simp only [BuiltFor] at hb; obtain ⟨rfl, _⟩ := hb; cases ty <;> simp [Lemmas.C03.bytesDT, isIntDT] at hk
  | bytesView p ty v views buf =>
    simp only [BuiltFor] at hb; obtain ⟨rfl, _⟩ := hb; cases ty <;> simp [Lemmas.C03.viewDT, isIntDT] at hk
  | fixedSizeBinary p n len v buf cur =>
    simp only [BuiltFor] at hb; obtain ⟨rfl, _⟩ := hb; simp [isIntDT] at hk
  | list p large fm v offs el =>
    simp only [BuiltFor] at hb; obtain ⟨f, rfl, _⟩ := hb; cases large <;> simp [isIntDT] at hk
  | fixedSizeList p fm n len v cur el =>
    simp only [BuiltFor] at hb; obtain ⟨f, rfl, _⟩ := hb; simp [isIntDT] at hk
  | map p mm v offs ks vs =>
    simp only [BuiltFor] at hb; obtain ⟨_, _, _, _, _, _, rfl, _⟩ := hb; simp [isIntDT] at hk
  | struct p len v fs c n s =>
    simp only [BuiltFor] at hb; obtain ⟨_, rfl, _⟩ := hb; simp [isIntDT] at hk
  | dictionary p idx vals index =>
    simp only [BuiltFor] at hb; obtain ⟨_, _, rfl, _⟩ := hb; simp [isIntDT] at hk
  | union p fs t o c =>
    simp only [BuiltFor] at hb; obtain ⟨_, _, rfl, _⟩ := hb; simp [isIntDT] at hk

mutual
theorem BuiltFor_PlaceholderStrW : ∀ (b : B) (dt : DataType) (nl : Bool), BuiltFor dt nl b →
    placeholderStrDT dt nl = true → PlaceholderStr b
  | .null _ _, _, _, _, _ => by simp only [PlaceholderStr]
  | .unknownVariant _, _, _, _, _ => by simp only [PlaceholderStr]
  | .leaf _ _ _ _, _, _, _, _ => by simp only [PlaceholderStr]
  | .bytes _ _ _ _ _, _, _, _, _ => by simp only [PlaceholderStr]
  | .bytesView _ _ _ _ _, _, _, _, _ => by simp only [PlaceholderStr]
  | .fixedSizeBinary _ _ _ _ _ _, _, _, _, _ => by simp only [PlaceholderStr]
  | .list _ large _ _ _ el, dt, nl, hb, hc => by
    simp only [BuiltFor] at hb
    obtain ⟨f, rfl, _, _, hbe⟩ := hb
    simp only [PlaceholderStr]
    refine BuiltFor_PlaceholderStrW el _ _ hbe ?_
    cases large <;> simp only [Bool.false_eq_true, if_false, if_true, placeholderStrDT] at hc <;>
      rw [← placeholderStrF_iff] <;> exact hc
  | .fixedSizeList _ _ _ _ _ _ el, dt, nl, hb, hc => by
    simp only [BuiltFor] at hb
    obtain ⟨f, rfl, _, _, hbe⟩ := hb
    simp only [placeholderStrDT] at hc
    simp only [PlaceholderStr]
    exact BuiltFor_PlaceholderStrW el _ _ hbe (by rw [← placeholderStrF_iff]; exact hc)
  | .map _ _ _ _ ks vs, dt, nl, hb, hc => by
    simp only [BuiltFor] at hb
    obtain ⟨ename, kf, vf, sorted, enl, emd, rfl, _, _, hbk, hbv⟩ := hb
    simp only [placeholderStrDT, placeholderStrF, placeholderStrFs, Bool.and_true, Bool.and_eq_true] at hc
    simp only [PlaceholderStr]
    exact ⟨BuiltFor_PlaceholderStrW ks _ _ hbk (by rw [← placeholderStrF_iff]; exact hc.1),
      BuiltFor_PlaceholderStrW vs _ _ hbv (by rw [← placeholderStrF_iff]; exact hc.2)⟩
  | .struct _ _ _ fs _ _ _, dt, nl, hb, hc => by
    simp only [BuiltFor] at hb
    obtain ⟨fields, rfl, _, hbl⟩ := hb
    simp only [placeholderStrDT] at hc
    simp only [PlaceholderStr]
    exact BuiltForL_PlaceholderStrLW fs fields hbl hc
  | .dictionary _ idx vals _, dt, nl, hb, hc => by
    simp only [BuiltFor] at hb
    obtain ⟨k, vdt, rfl, hk, hbi, hbv⟩ := hb
    simp only [placeholderStrDT, hk, Bool.not_true, Bool.false_or, Bool.and_eq_true, Bool.or_eq_true] at hc
    simp only [PlaceholderStr]
    refine ⟨fun hn => ?_, intLeaf_PlaceholderStr idx (isIntLeaf_of_builtFor idx k nl hk hbi),
      BuiltFor_PlaceholderStrW vals _ _ hbv hc.2⟩
    rw [intKey_isNullable idx k nl hk hbi] at hn
    rcases hc.1 with h | h
    · rw [hn] at h; cases h
    · exact strValDT_builtFor vals vdt false h hbv
  | .union _ fs _ _ _, dt, nl, hb, hc => by
    simp only [BuiltFor] at hb
    obtain ⟨ufs, mode, rfl, hbu⟩ := hb
    simp only [placeholderStrDT] at hc
    simp only [PlaceholderStr]
    exact BuiltForU_PlaceholderStrLW fs ufs 0 hbu hc
theorem BuiltForL_PlaceholderStrLW : ∀ (bl : BL) (fs : Fields), BuiltForL fs bl → placeholderStrFs fs = true →
    PlaceholderStrL bl
  | .nil, _, _, _ => trivial
  | .cons b m r, .nil, hb, _ => by simp [BuiltForL] at hb
  | .cons b m r, .cons f fr, hb, hc => by
    simp only [BuiltForL] at hb
    simp only [placeholderStrFs, Bool.and_eq_true] at hc
    simp only [PlaceholderStrL]
    exact ⟨BuiltFor_PlaceholderStrW b _ _ hb.2.1 (by rw [← placeholderStrF_iff]; exact hc.1),
      BuiltForL_PlaceholderStrLW r fr hb.2.2 hc.2⟩
theorem BuiltForU_PlaceholderStrLW : ∀ (bl : BL) (ufs : UFields) (k : Nat), BuiltForU ufs bl k →
    placeholderStrU ufs = true → PlaceholderStrL bl
  | .nil, _, _, _, _ => trivial
  | .cons b m r, .nil, _, hb, _ => by simp [BuiltForU] at hb
  | .cons b m r, .cons t f fr, k, hb, hc => by
    simp only [BuiltForU] at hb
    simp only [placeholderStrU, Bool.and_eq_true] at hc
    simp only [PlaceholderStrL]
    exact ⟨BuiltFor_PlaceholderStrW b _ _ hb.2.2.1 (by rw [← placeholderStrF_iff]; exact hc.1),
      BuiltForU_PlaceholderStrLW r fr (k + 1) hb.2.2.2 hc.2⟩
end

theorem placeholderStrFs_ofList : ∀ (fields : List Field),
    placeholderStrFs (Fields.ofList fields) = fields.all placeholderStrF
  | [] => rfl
  | f :: r => by simp [Fields.ofList, placeholderStrFs, placeholderStrFs_ofList r]

/-- the fresh root of a schema with `placeholderStrF` fields is `PlaceholderStr` -/
theorem newRoot_PlaceholderStrW {fields : List Field} {root0 : B} (hc : fields.all placeholderStrF = true)
    (h : newRoot fields = .ok root0) : PlaceholderStr root0 :=
  BuiltFor_PlaceholderStrW root0 _ _ (newRoot_builtFor fields root0 h) (by
    simp only [placeholderStrDT]; rw [placeholderStrFs_ofList]; exact hc)

end SaModel.Lemmas.C03
