import SaModel.Lemmas.C03WFMain
import SaModel.Lemmas.C03ObsFinish
/-
`finish_wf` for the weak state invariant `WFH` (no `Safe`): a copy of the recursion of Lemmas/C03WFMain.lean.  The strict
key clause of `WFB` is not used there either: that every key of a finished dictionary designates a value comes from
`Sound` (through `finish_slotsH`: every slot of the finished array can be read).
-/
namespace SaModel.Lemmas.C03
open SaModel SaModel.Build SaModel.Spec SaModel.Lemmas.Bits

mutual
/-- **the finished array is a well-formed array of the field the builder was created for** -/
theorem finish_wfH (ext : Ext) : ∀ (b : B) (dt : DataType) (nl : Bool) (a : Arr),
    BuiltFor dt nl b → WFH b → Sound b → WFX b → finish ext b = .ok a → wf dt nl a = true
  | .null _ len, dt, nl, a, hb, _, _, _, h => by
    simp only [BuiltFor] at hb; subst hb
    simp only [finish] at h; cases h
    simp [wf]
  | .unknownVariant _, dt, nl, a, hb, _, _, _, h => by
    simp only [BuiltFor] at hb; subst hb
    simp only [finish] at h; cases h
    simp [wf]
  | .leaf _ k v vals, dt, nl, a, hb, hw, _, hx, h => by
    simp only [BuiltFor] at hb
    obtain ⟨rfl, hn⟩ := hb
    simp only [finish] at h; cases h
    simp only [WFX] at hx
    exact finishLeaf_wf k v vals nl hn (WFH_leaf hw) hx
  | .bytes _ ty v offs data, dt, nl, a, hb, hw, _, hx, h => by
    simp only [BuiltFor] at hb
    obtain ⟨rfl, hn⟩ := hb
    simp only [finish] at h; cases h
    simp only [WFX] at hx
    obtain ⟨ho, hv⟩ := WFH_bytes hw
    have hvo := validityOk_finish v nl _ hn hv
    cases ty
    · simp only [bytesDT, wf, hvo, Bool.true_and, Bool.and_eq_true]
      exact ⟨offsetsOk_of offs _ _ ho hx.1, hx.2 rfl⟩
    · simp only [bytesDT, wf, hvo, Bool.true_and, Bool.and_eq_true]
      exact ⟨offsetsOk_of offs _ _ ho hx.1, hx.2 rfl⟩
    · simp only [bytesDT, wf, hvo, Bool.true_and]
      exact offsetsOk_of offs _ _ ho hx.1
    · simp only [bytesDT, wf, hvo, Bool.true_and]
      exact offsetsOk_of offs _ _ ho hx.1
  | .bytesView p ty v views buf, dt, nl, a, hb, hw, hs, hx, h => by
    have hsl := finish_slotsH ext _ a hw hs h
    have hd := finish_decodePH ext _ a hw hs h
    simp only [BuiltFor] at hb
    obtain ⟨rfl, hn⟩ := hb
    simp only [finish] at h; cases h
    simp only [WFX] at hx
    obtain ⟨hv, _⟩ := WFH_bytesView hw
    have hvo := validityOk_finish v nl _ hn hv
    cases ty
    · simp only [viewDT, wf, hvo, Bool.true_and, slotsAllOk_of _ hsl.2]
      rw [hd]
      simp only [List.all_map, List.all_eq_true, Function.comp]
      intro x hxm
      simp only [decP] at hxm
      rcases mem_maskNull _ _ _ hxm with rfl | hm
      · rfl
      · obtain ⟨d, hdm, rfl⟩ := List.mem_map.mp hm
        simp only [bytesVal]
        exact hx rfl d hdm
    · simp only [viewDT, wf, hvo, Bool.true_and, slotsAllOk_of _ hsl.2]
  | .fixedSizeBinary _ n len v buf _, dt, nl, a, hb, hw, hs, _, h => by
    simp only [BuiltFor] at hb
    obtain ⟨rfl, hn⟩ := hb
    simp only [finish] at h
    split at h
    · cases h
    · cases h
      obtain ⟨hv, hbl⟩ := WFH_fixedSizeBinary hw
      have h0 := Sound_fixedSizeBinary hs
      simp only [wf, beq_self_eq_true, Bool.true_and, Bool.and_eq_true, decide_eq_true_eq]
      refine ⟨⟨by omega, ?_⟩, ?_⟩
      · by_cases hz : n = 0
        · have := h0 hz; subst hz; subst this
          simp at hbl; simp [hbl]
        · have : ¬ ((n : Int) = 0) := by omega
          simp only [beq_iff_eq, this, if_false, Int.toNat_natCast, hbl, Nat.mul_mod_left]
      · by_cases hz : n = 0
        · have := h0 hz; subst hz; subst this
          simpa using validityOk_finish v nl 0 hn hv
        · have : ¬ ((n : Int) ≤ 0) := by omega
          simp only [this, if_false, Int.toNat_natCast, hbl, Nat.mul_div_cancel _ (Nat.pos_of_ne_zero hz)]
          exact validityOk_finish v nl len hn hv
  | .list _ large fm v offs el, dt, nl, a, hb, hw, hs, hx, h => by
    simp only [BuiltFor] at hb
    obtain ⟨f, rfl, rfl, hn, hbe⟩ := hb
    obtain ⟨ho, hv, hwe⟩ := WFH_list hw
    obtain ⟨hmax, hxe⟩ := WFX_list hx
    simp only [finish, bind, Except.bind] at h
    cases he : finish ext el with
    | error e => rw [he] at h; cases h
    | ok ela =>
      rw [he] at h; cases h
      have ih := finish_wfH ext el _ _ ela hbe hwe (Sound_list hs) hxe he
      have hlen := (finish_slotsH ext el ela hwe (Sound_list hs) he).1
      have hvo := validityOk_finish v nl _ hn hv
      cases large
      · simp only [Bool.false_eq_true, if_false, wf, hvo, metaMatches_metaOfField, Bool.true_and, ih, Bool.and_true]
        rw [hlen]; exact offsetsOk_of offs _ _ ho hmax
      · simp only [if_true, wf, hvo, metaMatches_metaOfField, Bool.true_and, ih, Bool.and_true]
        rw [hlen]; exact offsetsOk_of offs _ _ ho hmax
  | .fixedSizeList _ fm n len v _ el, dt, nl, a, hb, hw, hs, hx, h => by
    simp only [BuiltFor] at hb
    obtain ⟨f, rfl, rfl, hn, hbe⟩ := hb
    obtain ⟨hv, hxl, hwe⟩ := WFH_fixedSizeList hw
    simp only [finish] at h
    split at h
    · cases h
    · simp only [bind, Except.bind] at h
      cases he : finish ext el with
      | error e => rw [he] at h; cases h
      | ok ela =>
        rw [he] at h; cases h
        have ih := finish_wfH ext el _ _ ela hbe hwe (Sound_fixedSizeList hs) (WFX_fixedSizeList hx) he
        have hlen := (finish_slotsH ext el ela hwe (Sound_fixedSizeList hs) he).1
        have hvo := validityOk_finish v nl _ hn hv
        have h0 : (0 : Int) ≤ (n : Int) := by omega
        simp only [wf, beq_self_eq_true, hvo, metaMatches_metaOfField, ih, Bool.and_true, h0,
          decide_true, Int.toNat_natCast, hlen, hxl]
  | .map _ mm v offs ks vs, dt, nl, a, hb, hw, hs, hx, h => by
    simp only [BuiltFor] at hb
    obtain ⟨ename, kf, vf, sorted, enl, emd, rfl, rfl, hn, hbk, hbv⟩ := hb
    obtain ⟨ho, hlen, hv, hwk, hwv⟩ := WFH_map hw
    obtain ⟨hmax, hxk, hxv⟩ := WFX_map hx
    simp only [finish, bind, Except.bind] at h
    cases hek : finish ext ks with
    | error e => rw [hek] at h; cases h
    | ok ka =>
      rw [hek] at h
      cases hev : finish ext vs with
      | error e => rw [hev] at h; cases h
      | ok va =>
        rw [hev] at h; cases h
        have ihk := finish_wfH ext ks _ _ ka hbk hwk (Sound_map hs).1 hxk hek
        have ihv := finish_wfH ext vs _ _ va hbv hwv (Sound_map hs).2 hxv hev
        have hlk := (finish_slotsH ext ks ka hwk (Sound_map hs).1 hek).1
        have hlv := (finish_slotsH ext vs va hwv (Sound_map hs).2 hev).1
        have hvo := validityOk_finish v nl _ hn hv
        simp only [wf, hvo, beq_self_eq_true, metaMatches_metaOfField, ihk, ihv, Bool.and_true, hlk,
          hlv, hlen, offsetsOk_of offs _ _ ho hmax]
  | .struct _ len v fs _ _ _, dt, nl, a, hb, hw, hs, hx, h => by
    simp only [BuiltFor] at hb
    obtain ⟨fields, rfl, hn, hbl⟩ := hb
    obtain ⟨hv, hl⟩ := WFH_struct hw
    simp only [finish, bind, Except.bind] at h
    cases he : finishFields ext fs with
    | error e => rw [he] at h; cases h
    | ok afs =>
      rw [he] at h; cases h
      have ih := finishFields_wfH ext fs fields len afs hbl hl (Sound_struct hs) (WFX_struct hx) he
      simp only [wf, validityOk_finish v nl _ hn hv, ih, Bool.and_self]
  | .dictionary p idx vals index, dt, nl, a, hb, hw, hs, hx, h => by
    have hsl := finish_slotsH ext _ a hw hs h
    simp only [BuiltFor] at hb
    obtain ⟨k, vdt, rfl, _, hbi, hbv⟩ := hb
    obtain ⟨hwi, hwv, _⟩ := WFH_dictionary hw
    obtain ⟨hsi, hsv, _⟩ := Sound_dictionary hs
    obtain ⟨hxi, hxv⟩ := WFX_dictionary hx
    simp only [finish, bind, Except.bind] at h
    cases hei : finish ext idx with
    | error e => rw [hei] at h; cases h
    | ok ka =>
      rw [hei] at h
      cases hev : finish ext vals with
      | error e => rw [hev] at h; cases h
      | ok va =>
        rw [hev] at h
        dsimp only at h
        have ihk := finish_wfH ext idx _ _ ka hbi hwi hsi hxi hei
        have ihv := finish_wfH ext vals _ _ va hbv hwv hsv hxv hev
        split at h
        · split at h
          · cases h
          · cases h
            simp only [wf, ihk, wf_appendEmptyStr vdt va ihv, slotsAllOk_of _ hsl.2, Bool.and_self]
        · cases h
          simp only [wf, ihk, ihv, slotsAllOk_of _ hsl.2, Bool.and_self]
  | .union p fs types offs cur, dt, nl, a, hb, hw, hs, hx, h => by
    have hsl := finish_slotsH ext _ a hw hs h
    simp only [BuiltFor] at hb
    obtain ⟨ufs, mode, rfl, hbu⟩ := hb
    obtain ⟨hlen, hwu, _⟩ := WFH_union hw
    simp only [finish, bind, Except.bind] at h
    cases he : finishUFields ext fs 0 with
    | error e => rw [he] at h; cases h
    | ok afs =>
      rw [he] at h; cases h
      have ih := finishUFields_wfH ext fs ufs 0 afs hbu (WFHU_WFHs fs cur hwu) (Sound_union hs) (WFX_union hx) he
      simp only [wf, Option.isSome_some, Option.getD_some, hlen, beq_self_eq_true, slotsAllOk_of _ hsl.2,
        Bool.true_and, Bool.and_true]
      exact ih
theorem finishFields_wfH (ext : Ext) : ∀ (fs : BL) (fields : Fields) (len : Nat) (afs : ArrFields),
    BuiltForL fields fs → WFHL fs len → SoundL fs → WFXL fs → finishFields ext fs = .ok afs →
    wfFields fields afs len = true
  | .nil, fields, len, afs, hb, _, _, _, h => by
    simp only [finishFields] at h; cases h
    cases fields with
    | nil => simp [wfFields]
    | cons f r => simp [BuiltForL] at hb
  | .cons b m rest, fields, len, afs, hb, hw, hs, hx, h => by
    cases fields with
    | nil => simp [BuiltForL] at hb
    | cons f r =>
      simp only [BuiltForL] at hb
      obtain ⟨rfl, hbb, hbr⟩ := hb
      simp only [WFHL] at hw
      simp only [SoundL] at hs
      simp only [WFXL] at hx
      simp only [finishFields, bind, Except.bind] at h
      cases hfb : finish ext b with
      | error e => rw [hfb] at h; cases h
      | ok a =>
        rw [hfb] at h
        cases hr : finishFields ext rest with
        | error e => rw [hr] at h; cases h
        | ok ar =>
          rw [hr] at h; cases h
          have ih1 := finish_wfH ext b _ _ a hbb hw.1 hs.1 hx.1 hfb
          have ih2 := finishFields_wfH ext rest r len ar hbr hw.2.2 hs.2 hx.2 hr
          have hlen := (finish_slotsH ext b a hw.1 hs.1 hfb).1
          simp only [wfFields, metaMatches_metaOfField, ih1, ih2, hlen, hw.2.1, beq_self_eq_true, Bool.and_self]
theorem finishUFields_wfH (ext : Ext) : ∀ (fs : BL) (ufs : UFields) (k : Nat) (afs : ArrUFields),
    BuiltForU ufs fs k → WFHs fs → SoundL fs → WFXL fs → finishUFields ext fs k = .ok afs →
    wfUFields ufs afs (k : Int) = true
  | .nil, ufs, k, afs, hb, _, _, _, h => by
    simp only [finishUFields] at h; cases h
    cases ufs with
    | nil => simp [wfUFields]
    | cons t f r => simp [BuiltForU] at hb
  | .cons b m rest, ufs, k, afs, hb, hw, hs, hx, h => by
    cases ufs with
    | nil => simp [BuiltForU] at hb
    | cons t f r =>
      simp only [BuiltForU] at hb
      obtain ⟨rfl, rfl, hbb, hbr⟩ := hb
      simp only [WFHs] at hw
      simp only [SoundL] at hs
      simp only [WFXL] at hx
      simp only [finishUFields] at h
      split at h
      · cases h
      · simp only [bind, Except.bind] at h
        cases hfb : finish ext b with
        | error e => rw [hfb] at h; cases h
        | ok a =>
          rw [hfb] at h
          cases hr : finishUFields ext rest (k + 1) with
          | error e => rw [hr] at h; cases h
          | ok ar =>
            rw [hr] at h; cases h
            have ih1 := finish_wfH ext b _ _ a hbb hw.1 hs.1 hx.1 hfb
            have ih2 := finishUFields_wfH ext rest r (k + 1) ar hbr hw.2 hs.2 hx.2 hr
            have e : ((k + 1 : Nat) : Int) = (k : Int) + 1 := by omega
            rw [e] at ih2
            simp only [wfUFields, metaMatches_metaOfField, ih1, ih2, beq_self_eq_true, Bool.and_self]
end

end SaModel.Lemmas.C03
