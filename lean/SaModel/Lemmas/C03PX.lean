import SaModel.Lemmas.C03View
/-
`PX`: the offsets / UTF-8 part of `WFX`, as a self-contained push invariant.

  bytes builders   offsets start at 0, never decrease, end at `data.length`, stay ≤ i32/i64 max (`increment_last`
                   checks), and — for Utf8 / LargeUtf8 — every slot is valid UTF-8 (every chunk is a Rust `&str`)
  list / map       offsets ≤ i32/i64 max
  view builders    every descriptor designates bytes of the buffer; while the buffer is below 4 GiB every Utf8View
                   slot is valid UTF-8 (`ViewPX`, Lemmas/C03View.lean)

`PX` needs no other invariant and no assumption on the pushed values or on `Ext`:
   PX b → push ext b x = ok b' → PX b'          (Lemmas/C03PXPush.lean; this file: defaults, nulls, scalars)
The two remaining clauses of `WFX` (leaf values in physical range, Utf8View slots valid UTF-8) are `WFXrest`.
-/
namespace SaModel.Lemmas.C03
open SaModel SaModel.Build SaModel.Spec

/-! ### monad plumbing -/

theorem bind_ok {α β} (x : R α) (f : α → R β) (b : β) : (x >>= f) = .ok b ↔ ∃ a, x = .ok a ∧ f a = .ok b := by
  cases x with
  | error e => simp [bind, Except.bind]
  | ok a => simp [bind, Except.bind]

theorem ctx_ok {α} (ann : List (String × String)) (r : R α) (a : α) : ctx ann r = .ok a ↔ r = .ok a := by
  unfold ctx
  split
  · split <;> simp
  · rfl

/-! ### offsets -/

def OffsLe (offs : List Int) (m : Int) : Prop := ∀ o ∈ offs, o ≤ m

theorem duplicateLast_ok {offs offs' : List Int} (h : duplicateLast offs = .ok offs') :
    ∃ l, offs.getLast? = some l ∧ offs' = offs ++ [l] := by
  unfold duplicateLast at h
  split at h
  · cases h
  · rename_i l hl; cases h; exact ⟨l, hl, rfl⟩

theorem incrementLast_ok {c large : Bool} {offs offs' : List Int} {inc : Nat}
    (h : incrementLast c large offs inc = .ok offs') :
    ∃ l, offs.getLast? = some l ∧ offs' = offs.dropLast ++ [l + inc] ∧ l + inc ≤ offMax large := by
  unfold incrementLast at h
  split at h
  · cases h
  · rename_i l hl
    split at h
    · cases h
    · split at h
      · split at h <;> cases h
      · cases h; exact ⟨l, hl, rfl, by omega⟩

theorem OffsLe_dup {offs : List Int} {m l : Int} (h : OffsLe offs m) (hl : offs.getLast? = some l) :
    OffsLe (offs ++ [l]) m := by
  intro o ho
  rw [List.mem_append, List.mem_singleton] at ho
  rcases ho with ho | rfl
  · exact h o ho
  · exact h _ (List.mem_of_getLast? hl)

theorem OffsLe_inc {offs : List Int} {m x : Int} (h : OffsLe offs m) (hx : x ≤ m) :
    OffsLe (offs.dropLast ++ [x]) m := by
  intro o ho
  rw [List.mem_append, List.mem_singleton] at ho
  rcases ho with ho | rfl
  · exact h o (List.dropLast_subset _ ho)
  · exact hx

theorem OffsLe_duplicateLast {offs offs' : List Int} {m : Int} (h : OffsLe offs m)
    (hd : duplicateLast offs = .ok offs') : OffsLe offs' m := by
  obtain ⟨l, hl, rfl⟩ := duplicateLast_ok hd
  exact OffsLe_dup h hl

theorem OffsLe_incrementLast {c large : Bool} {offs offs' : List Int} {inc : Nat} (h : OffsLe offs (offMax large))
    (hi : incrementLast c large offs inc = .ok offs') : OffsLe offs' (offMax large) := by
  obtain ⟨l, _, rfl, hle⟩ := incrementLast_ok hi
  exact OffsLe_inc h hle

/-- a loop that keeps a property -/
theorem iter_inv {α} (P : α → Prop) (f : α → R α) (hstep : ∀ a a', f a = .ok a' → P a → P a') :
    ∀ (k : Nat) (a a' : α), iter k f a = .ok a' → P a → P a'
  | 0, a, a', h, hp => by simp only [iter] at h; cases h; exact hp
  | k + 1, a, a', h, hp => by
    simp only [iter] at h
    obtain ⟨a1, h1, h2⟩ := (bind_ok _ _ _).1 h
    exact iter_inv P f hstep k a1 a' h2 (hstep a a1 h1 hp)

/-! ### one bytes builder -/

/-- the local invariant of a `BytesArray<O>` builder -/
def BytesPX (ty : BytesTy) (offs : List Int) (data : Bytes) : Prop :=
  OffsOK offs data.length ∧ OffsLe offs (offMax (isLargeTy ty)) ∧ (isUtf8Ty ty = true → bytesUtf8 offs data = true)

theorem OffsOK_snoc (offs : List Int) (n : Nat) (x : Nat) (h : OffsOK offs n) (hx : n ≤ x) :
    OffsOK (offs ++ [(x : Int)]) x := by
  have hl := h.2.1
  have hne : offs ≠ [] := by intro e; rw [e] at hl; cases hl
  refine ⟨?_, by simp, ?_⟩
  · have h1 := h.1
    cases offs with
    | nil => exact absurd rfl hne
    | cons a r => simpa using h1
  · rw [List.pairwise_append]
    refine ⟨h.2.2, by simp, ?_⟩
    intro a ha b hb
    simp only [List.mem_singleton] at hb
    subst hb
    have := (OffsOK_mem offs n h a ha).2
    omega

theorem slice_append_left (data extra : Bytes) (s e : Int) (_h0 : 0 ≤ s) (h1 : s ≤ e) (h2 : e ≤ (data.length : Int)) :
    ((data ++ extra).drop s.toNat).take (e.toNat - s.toNat) = (data.drop s.toNat).take (e.toNat - s.toNat) := by
  have hs : s.toNat ≤ data.length := by omega
  rw [List.drop_append_of_le_length hs, List.take_append_of_le_length (by simp [List.length_drop]; omega)]

theorem bytesUtf8_snoc (offs : List Int) (data bs : Bytes) (h : OffsOK offs data.length)
    (hu : bytesUtf8 offs data = true) (hb : validUtf8 bs = true) :
    bytesUtf8 (offs ++ [((data.length + bs.length : Nat) : Int)]) (data ++ bs) = true := by
  have hp := pairs_append_last offs _ h.2.1 ((data.length + bs.length : Nat) : Int)
  simp only [pairs] at hp
  unfold bytesUtf8 at hu ⊢
  rw [hp, List.all_append]
  simp only [Bool.and_eq_true, List.all_eq_true] at hu ⊢
  refine ⟨?_, ?_⟩
  · intro se hse
    have hv := hu se hse
    obtain ⟨i, hi, rfl⟩ := List.getElem_of_mem hse
    have hi' : i < (pairs offs).length := hi
    rw [pairs_length] at hi'
    have hpair := OffsOK_pair offs _ h i (by omega)
    simp only [List.getElem_zip, List.getElem_tail] at hv ⊢
    rw [slice_append_left data bs _ _ hpair.1 hpair.2.1 hpair.2.2]
    exact hv
  · intro se hse
    simp only [List.mem_singleton] at hse
    subst hse
    have e1 : ((data.length : Nat) : Int).toNat = data.length := by simp
    have e2 : (((data.length + bs.length : Nat) : Int)).toNat - data.length = bs.length := by
      rw [Int.toNat_natCast]; omega
    simp only [e1, e2, List.drop_left, List.take_length]
    exact hb

theorem BytesPX_dup {ty : BytesTy} {offs offs' : List Int} {data : Bytes} (h : BytesPX ty offs data)
    (hd : duplicateLast offs = .ok offs') : BytesPX ty offs' data := by
  obtain ⟨l, hl, rfl⟩ := duplicateLast_ok hd
  obtain ⟨ho, hle, hu⟩ := h
  have hld : l = (data.length : Int) := by
    have := ho.2.1; rw [hl] at this; exact Option.some.inj this
  subst hld
  exact ⟨OffsOK_snoc offs _ _ ho (Nat.le_refl _), OffsLe_dup hle hl, fun hty => bytesUtf8_append offs data _ hl (hu hty)⟩

/-- `offs ++ [l]` with its last entry advanced by `n` -/
theorem BytesPX_chunk {ty : BytesTy} {offs : List Int} {data bs : Bytes} {x : Int} (h : BytesPX ty offs data)
    (hx : x = ((data.length + bs.length : Nat) : Int)) (hle : x ≤ offMax (isLargeTy ty))
    (hb : isUtf8Ty ty = true → validUtf8 bs = true) : BytesPX ty (offs ++ [x]) (data ++ bs) := by
  obtain ⟨ho, hl, hu⟩ := h
  subst hx
  refine ⟨?_, ?_, ?_⟩
  · have := OffsOK_snoc offs data.length (data.length + bs.length) ho (by omega)
    simpa [List.length_append] using this
  · intro o hom
    rw [List.mem_append, List.mem_singleton] at hom
    rcases hom with hom | rfl
    · exact hl o hom
    · exact hle
  · intro hty
    exact bytesUtf8_snoc offs data bs ho (hu hty) (hb hty)

theorem dropLast_snoc {α} (l : List α) (x : α) : (l ++ [x]).dropLast = l := by simp

/-- `n` single increments of the last offset -/
theorem iter_incrementLast {c large : Bool} : ∀ (n : Nat) (base : List Int) (l : Int) (offs' : List Int),
    iter n (fun o => incrementLast c large o 1) (base ++ [l]) = .ok offs' →
    offs' = base ++ [l + (n : Int)] ∧ (n ≠ 0 → l + (n : Int) ≤ offMax large)
  | 0, base, l, offs', h => by
    simp only [iter] at h; cases h
    exact ⟨by simp, fun h => absurd rfl h⟩
  | n + 1, base, l, offs', h => by
    simp only [iter] at h
    obtain ⟨o1, h1, h2⟩ := (bind_ok _ _ _).1 h
    obtain ⟨l', hl', rfl, hle⟩ := incrementLast_ok h1
    simp only [List.getLast?_append, List.getLast?_singleton, Option.some_or, Option.some.injEq] at hl'
    subst hl'
    rw [dropLast_snoc] at h2
    obtain ⟨e, hm⟩ := iter_incrementLast n base (l + ((1 : Nat) : Int)) offs' h2
    refine ⟨by rw [e]; congr 2; omega, fun _ => ?_⟩
    by_cases hn : n = 0
    · subst hn; simpa using hle
    · have := hm hn; omega

/-! ### the invariant -/

mutual
def PX : B → Prop
  | .bytes _ ty _ offs data => BytesPX ty offs data
  | .bytesView _ ty _ views buf => ViewPX ty views buf
  | .list _ large _ _ offs el => OffsLe offs (offMax large) ∧ PX el
  | .fixedSizeList _ _ _ _ _ _ el => PX el
  | .map _ _ _ offs ks vs => OffsLe offs (offMax false) ∧ PX ks ∧ PX vs
  | .struct _ _ _ fs _ _ _ => PXL fs
  | .dictionary _ idx vals _ => PX idx ∧ PX vals
  | .union _ fs _ _ _ => PXL fs
  | _ => True
def PXL : BL → Prop
  | .nil => True
  | .cons b _ r => PX b ∧ PXL r
end

mutual
/-- what `PX` leaves of `WFX`: leaf values in physical range, Utf8View slots valid UTF-8 -/
def WFXrest : B → Prop
  | .leaf _ k _ vals => ∀ r, leafRange k = some r → inRng r vals = true
  | .bytesView _ ty _ views buf => ty = .utf8View → ∀ d ∈ views, validUtf8 (viewBytes buf d) = true
  | .list _ _ _ _ _ el => WFXrest el
  | .fixedSizeList _ _ _ _ _ _ el => WFXrest el
  | .map _ _ _ _ ks vs => WFXrest ks ∧ WFXrest vs
  | .struct _ _ _ fs _ _ _ => WFXrestL fs
  | .dictionary _ idx vals _ => WFXrest idx ∧ WFXrest vals
  | .union _ fs _ _ _ => WFXrestL fs
  | _ => True
def WFXrestL : BL → Prop
  | .nil => True
  | .cons b _ r => WFXrest b ∧ WFXrestL r
end

mutual
theorem WFX_of_PX : ∀ (b : B), PX b → WFXrest b → WFX b
  | .null _ _, _, _ => by simp only [WFX]
  | .unknownVariant _, _, _ => by simp only [WFX]
  | .leaf _ _ _ _, _, hr => by simpa only [WFX, WFXrest] using hr
  | .bytes _ _ _ _ _, hp, _ => by
    simp only [PX] at hp; simp only [WFX]; exact ⟨hp.2.1, hp.2.2⟩
  | .bytesView _ _ _ _ _, _, hr => by simpa only [WFX, WFXrest] using hr
  | .fixedSizeBinary _ _ _ _ _ _, _, _ => by simp only [WFX]
  | .list _ _ _ _ _ el, hp, hr => by
    simp only [PX] at hp; simp only [WFXrest] at hr; simp only [WFX]
    exact ⟨hp.1, WFX_of_PX el hp.2 hr⟩
  | .fixedSizeList _ _ _ _ _ _ el, hp, hr => by
    simp only [PX] at hp; simp only [WFXrest] at hr; simp only [WFX]
    exact WFX_of_PX el hp hr
  | .map _ _ _ _ ks vs, hp, hr => by
    simp only [PX] at hp; simp only [WFXrest] at hr; simp only [WFX]
    exact ⟨hp.1, WFX_of_PX ks hp.2.1 hr.1, WFX_of_PX vs hp.2.2 hr.2⟩
  | .struct _ _ _ fs _ _ _, hp, hr => by
    simp only [PX] at hp; simp only [WFXrest] at hr; simp only [WFX]
    exact WFXL_of_PXL fs hp hr
  | .dictionary _ idx vals _, hp, hr => by
    simp only [PX] at hp; simp only [WFXrest] at hr; simp only [WFX]
    exact ⟨WFX_of_PX idx hp.1 hr.1, WFX_of_PX vals hp.2 hr.2⟩
  | .union _ fs _ _ _, hp, hr => by
    simp only [PX] at hp; simp only [WFXrest] at hr; simp only [WFX]
    exact WFXL_of_PXL fs hp hr
theorem WFXL_of_PXL : ∀ (fs : BL), PXL fs → WFXrestL fs → WFXL fs
  | .nil, _, _ => trivial
  | .cons b _ r, hp, hr => by
    simp only [PXL] at hp; simp only [WFXrestL] at hr; simp only [WFXL]
    exact ⟨WFX_of_PX b hp.1 hr.1, WFXL_of_PXL r hp.2 hr.2⟩
end

end SaModel.Lemmas.C03
