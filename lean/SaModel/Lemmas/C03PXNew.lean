import SaModel.Lemmas.C03PXPush
/-
Fresh builders satisfy `PX`; hence so does the root after any accepted sequence of rows (`runRows_PX`).
-/
namespace SaModel.Lemmas.C03
open SaModel SaModel.Build SaModel.Spec

theorem OffsLe_zero (large : Bool) : OffsLe [0] (offMax large) := by
  intro o ho
  simp only [List.mem_singleton] at ho
  subst ho
  cases large <;> simp [offMax]

theorem BytesPX_fresh (ty : BytesTy) : BytesPX ty [0] [] := by
  refine ⟨⟨rfl, rfl, by simp⟩, OffsLe_zero _, fun _ => rfl⟩

theorem newDT_PX_all :
    (∀ (path : String) (dt : DataType) (nl : Bool) (md : Metadata), ∀ b, newDT path dt nl md = .ok b → PX b) ∧
    (∀ (path : String) (ufs : UFields) (k : Nat), ∀ bl, newUnionFields path ufs k = .ok bl → PXL bl) ∧
    (∀ (path : String) (f : Field), ∀ b, newB path f = .ok b → PX b) ∧
    (∀ (path : String) (fs : Fields), ∀ bl, newFields path fs = .ok bl → PXL bl) := by
  apply newDT.mutual_induct
    (motive_1 := fun path dt nl md => ∀ b, newDT path dt nl md = .ok b → PX b)
    (motive_2 := fun path ufs k => ∀ bl, newUnionFields path ufs k = .ok bl → PXL bl)
    (motive_3 := fun path f => ∀ b, newB path f = .ok b → PX b)
    (motive_4 := fun path fs => ∀ bl, newFields path fs = .ok bl → PXL bl)
  all_goals try (
    intros
    rename_i h
    simp only [newDT, bind, Except.bind, pure, Except.pure, ctx, fail, *, if_true, if_false] at h
    try (cases h)
    simp [PX, BytesPX_fresh, ViewPX_fresh]
    done)
  all_goals try (
    intros
    rename_i h
    simp [newDT, newFields, newUnionFields, ctx, fail, *] at h
    done)
  case case17 =>
    intro path u tz nl md b h
    simp only [newDT, bind, Except.bind] at h
    cases hu : isUtcTz tz with
    | error e => rw [hu] at h; cases h
    | ok utc => rw [hu] at h; cases h; simp only [PX]
  case case33 =>
    intro path child nl md ih b h
    simp only [newDT] at h
    obtain ⟨el, hc, h⟩ := (bind_ok _ _ _).1 h
    cases h
    simp only [PX]; exact ⟨OffsLe_zero _, ih el hc⟩
  case case34 =>
    intro path child nl md ih b h
    simp only [newDT] at h
    obtain ⟨el, hc, h⟩ := (bind_ok _ _ _).1 h
    cases h
    simp only [PX]; exact ⟨OffsLe_zero _, ih el hc⟩
  case case36 =>
    intro path child n nl md hn ih b h
    simp only [newDT, hn, if_false] at h
    obtain ⟨el, hc, h⟩ := (bind_ok _ _ _).1 h
    cases h
    simp only [PX]; exact ih el hc
  case case38 =>
    intro path ename kf vf emd sorted nl md ihk ihv b h
    simp only [newDT] at h
    obtain ⟨kb, hk, h⟩ := (bind_ok _ _ _).1 h
    obtain ⟨vb, hv, h⟩ := (bind_ok _ _ _).1 h
    cases h
    simp only [PX]; exact ⟨OffsLe_zero _, ihk kb hk, ihv vb hv⟩
  case case43 =>
    intro path fs nl md ih b h
    simp only [newDT] at h
    obtain ⟨bl, hf, h⟩ := (bind_ok _ _ _).1 h
    simp only [mkStruct] at h
    split at h
    · cases h
    · cases h; simp only [PX]; exact ih bl hf
  case case44 =>
    intro path k v nl md hint ihk ihv b h
    simp only [newDT, hint, if_true] at h
    obtain ⟨kb, hk, h⟩ := (bind_ok _ _ _).1 h
    obtain ⟨vb, hv, h⟩ := (bind_ok _ _ _).1 h
    cases h
    simp only [PX]; exact ⟨ihk kb hk, ihv vb hv⟩
  case case46 =>
    intro path fs nl md ih b h
    simp only [newDT] at h
    obtain ⟨bl, hf, h⟩ := (bind_ok _ _ _).1 h
    cases h
    simp only [PX]; exact ih bl hf
  case case50 =>
    intro path name dt nl md ih b h
    simp only [newB] at h
    exact ih b h
  case case51 =>
    intro path bl h
    simp only [newFields] at h; cases h; trivial
  case case52 =>
    intro path f rest ihf ihr bl h
    simp only [newFields] at h
    obtain ⟨b, hb, h⟩ := (bind_ok _ _ _).1 h
    obtain ⟨r, hr, h⟩ := (bind_ok _ _ _).1 h
    cases h
    simp only [PXL]; exact ⟨ihf b hb, ihr r hr⟩
  case case53 =>
    intro path k bl h
    simp only [newUnionFields] at h; cases h; trivial
  case case55 =>
    intro path tid f rest idx hne ihf ihr bl h
    simp only [newUnionFields, hne] at h
    obtain ⟨b, hb, h⟩ := (bind_ok _ _ _).1 h
    obtain ⟨r, hr, h⟩ := (bind_ok _ _ _).1 h
    cases h
    simp only [PXL]; exact ⟨ihf b hb, ihr r hr⟩

theorem newRoot_PX (fields : List Field) (root : B) (h : newRoot fields = .ok root) : PX root := by
  simp only [newRoot] at h
  obtain ⟨bl, hf, h⟩ := (bind_ok _ _ _).1 h
  simp only [mkStruct] at h
  split at h
  · cases h
  · cases h; simp only [PX]; exact newDT_PX_all.2.2.2 "$" _ bl hf

theorem foldlM_PX (ext : Ext) : ∀ (rows : List SVal) (r0 root : B), rows.foldlM (push ext) r0 = .ok root →
    PX r0 → PX root
  | [], r0, root, h, hp => by
    simp only [List.foldlM_nil, pure, Except.pure, Except.ok.injEq] at h; rw [← h]; exact hp
  | x :: rest, r0, root, h, hp => by
    simp only [List.foldlM_cons] at h
    obtain ⟨r1, h1, h⟩ := (bind_ok _ _ _).1 h
    exact foldlM_PX ext rest r1 root h (push_PX ext x r0 r1 h1 hp)

/-- **after any accepted sequence of rows**: offsets well formed and within i32/i64, string data valid UTF-8 -/
theorem runRows_PX (ext : Ext) (fields : List Field) (rows : List SVal) (root : B)
    (h : runRows ext fields rows = .ok root) : PX root := by
  simp only [runRows] at h
  obtain ⟨r0, hr, h⟩ := (bind_ok _ _ _).1 h
  exact foldlM_PX ext rows r0 root h (newRoot_PX fields r0 hr)

end SaModel.Lemmas.C03
