import SaModel.Lemmas.C03PXStep
import SaModel.Lemmas.C01MapOps
/-
`push` (the whole mutual block) preserves `PX`:  PX b → push ext b x = ok b' → PX b'.
No assumption on the value, on `Ext`, or on any other invariant.
-/
namespace SaModel.Lemmas.C03
open SaModel SaModel.Build SaModel.Spec

/-! ### struct rows -/

theorem PXL_get : ∀ (fs : BL) (i : Nat) (c : B) (m : FieldMeta), fs.get? i = some (c, m) → PXL fs → PX c
  | .nil, _, _, _, h, _ => by simp [BL.get?] at h
  | .cons b m r, 0, c, _, h, hp => by
    simp only [BL.get?, Option.some.injEq, Prod.mk.injEq] at h
    obtain ⟨rfl, _⟩ := h
    simp only [PXL] at hp; exact hp.1
  | .cons b m r, i + 1, c, m', h, hp => by
    simp only [BL.get?] at h
    simp only [PXL] at hp
    exact PXL_get r i c m' h hp.2

theorem PXL_set : ∀ (fs : BL) (i : Nat) (c' : B), PX c' → PXL fs → PXL (fs.set i c')
  | .nil, _, _, _, _ => by simp only [BL.set]; trivial
  | .cons b m r, 0, c', hc, hp => by
    simp only [PXL] at hp
    simp only [BL.set, PXL]; exact ⟨hc, hp.2⟩
  | .cons b m r, i + 1, c', hc, hp => by
    simp only [PXL] at hp
    simp only [BL.set, PXL]; exact ⟨hp.1, PXL_set r i c' hc hp.2⟩

theorem SS.start_PX {s s' : SS} (h : s.start = .ok s') : s'.fields = s.fields := by
  simp only [SS.start] at h
  obtain ⟨v', _, h2⟩ := (bind_ok _ _ _).1 h
  cases h2; rfl

theorem SS.element_PX {s s' : SS} {idx : Nat} {pc : B → R B}
    (hpc : ∀ c c', pc c = .ok c' → PX c → PX c') (h : s.element idx pc = .ok s') (hp : PXL s.fields) :
    PXL s'.fields := by
  unfold SS.element at h
  split at h
  · simp [panic] at h
  · simp [ctx_ok, fail] at h
  · split at h
    · simp [panic] at h
    · rename_i c m hget
      obtain ⟨c', h1, h2⟩ := (bind_ok _ _ _).1 h
      cases h2
      exact PXL_set _ _ c' (hpc c c' h1 (PXL_get _ _ c m hget hp)) hp

theorem endFields_PX : ∀ (fs : BL) (seen : List Bool) (fs' : BL), endFields fs seen = .ok fs' → PXL fs → PXL fs'
  | .nil, _, fs', h, _ => by simp only [endFields] at h; cases h; trivial
  | .cons b m rest, [], fs', h, _ => by simp [endFields, panic] at h
  | .cons b m rest, s :: sr, fs', h, hp => by
    simp only [PXL] at hp
    simp only [endFields] at h
    split at h
    · obtain ⟨r, h1, h2⟩ := (bind_ok _ _ _).1 h
      cases h2
      simp only [PXL]; exact ⟨hp.1, endFields_PX rest sr r h1 hp.2⟩
    · split at h
      · simp [fail] at h
      · obtain ⟨b', h0, h'⟩ := (bind_ok _ _ _).1 h
        obtain ⟨r, h1, h2⟩ := (bind_ok _ _ _).1 h'
        cases h2
        simp only [PXL]; exact ⟨pushNone_PX b b' h0 hp.1, endFields_PX rest sr r h1 hp.2⟩

theorem SS.finishRow_PX {s s' : SS} (h : s.finishRow = .ok s') (hp : PXL s.fields) : PXL s'.fields := by
  simp only [SS.finishRow] at h
  obtain ⟨fs, h1, h2⟩ := (bind_ok _ _ _).1 h
  cases h2
  exact endFields_PX _ _ _ h1 hp

/-- a whole record (`start`, fields, `end`) -/
theorem record_PX {p len v fs cached next seen} {pf : SS → R SS} {b' : B}
    (hpf : ∀ s s', pf s = .ok s' → PXL s.fields → PXL s'.fields)
    (h : (do
      let s ← SS.start ⟨p, len, v, fs, cached, next, seen⟩
      let s ← pf s
      let s ← s.finishRow
      pure s.toB : R B) = .ok b') (hp : PXL fs) : PX b' := by
  obtain ⟨s1, h1, h⟩ := (bind_ok _ _ _).1 h
  obtain ⟨s2, h2, h⟩ := (bind_ok _ _ _).1 h
  obtain ⟨s3, h3, h⟩ := (bind_ok _ _ _).1 h
  cases h
  have e1 := SS.start_PX h1
  simp only [SS.toB, PX]
  exact SS.finishRow_PX h3 (hpf _ _ h2 (by rw [e1]; exact hp))

theorem recordWith_PX {pf : SS → R SS} (hpf : ∀ s s', pf s = .ok s' → PXL s.fields → PXL s'.fields) :
    ∀ (b b' : B), recordWith pf b = .ok b' → PX b → PX b' := by
  intro b b' h hp
  cases b with
  | struct p len v fs cached next seen => simp only [PX] at hp; exact record_PX hpf h hp
  | _ => simp [recordWith, notSupported, fail] at h

theorem isBinary_not_utf8 (ty : BytesTy) (h : isBinaryTy ty = true) : ¬ (isUtf8Ty ty = true) := by
  cases ty <;> simp [isBinaryTy, isUtf8Ty] at h ⊢

theorem seqLikeWith_PX {pe : Bool → B → List Int → R (B × List Int)} {pc : B → Nat → R (B × Nat)}
    {pt : SS → R SS} {bytes : R Bytes}
    (hpe : ∀ large el offs r, pe large el offs = .ok r → OffsLe offs (offMax large) → PX el →
      OffsLe r.2 (offMax large) ∧ PX r.1)
    (hpc : ∀ el c r, pc el c = .ok r → PX el → PX r.1)
    (hpt : ∀ s s', pt s = .ok s' → PXL s.fields → PXL s'.fields) :
    ∀ (b : B) (k : SeqKind) (b' : B), seqLikeWith pe pc pt bytes b k = .ok b' → PX b → PX b' := by
  intro b k b' h hp
  cases b with
  | list p large fm v offs el =>
    simp only [seqLikeWith] at h
    obtain ⟨v', _, h⟩ := (bind_ok _ _ _).1 h
    obtain ⟨o1, h2, h⟩ := (bind_ok _ _ _).1 h
    obtain ⟨⟨el', o2⟩, h3, h⟩ := (bind_ok _ _ _).1 h
    cases h
    simp only [PX] at hp ⊢
    have := hpe _ _ _ _ h3 (OffsLe_duplicateLast hp.1 h2) hp.2
    exact ⟨this.1, this.2⟩
  | fixedSizeList p fm n len v cur el =>
    simp only [seqLikeWith] at h
    obtain ⟨v', _, h⟩ := (bind_ok _ _ _).1 h
    obtain ⟨⟨el', cnt⟩, h3, h⟩ := (bind_ok _ _ _).1 h
    simp only at h
    split at h
    · simp [fail] at h
    · cases h
      simp only [PX] at hp ⊢
      exact hpc _ _ _ h3 hp
  | bytes p ty v offs data =>
    simp only [seqLikeWith] at h
    split at h
    · rename_i hbin
      obtain ⟨v', _, h⟩ := (bind_ok _ _ _).1 h
      obtain ⟨o1, h2, h⟩ := (bind_ok _ _ _).1 h
      obtain ⟨bs, _, h⟩ := (bind_ok _ _ _).1 h
      obtain ⟨o2, h4, h⟩ := (bind_ok _ _ _).1 h
      cases h
      simp only [PX] at hp ⊢
      obtain ⟨l, hl, rfl⟩ := duplicateLast_ok h2
      obtain ⟨rfl, hm⟩ := iter_incrementLast bs.length offs l o2 h4
      have hld := BytesPX_last hp hl
      subst hld
      refine BytesPX_chunk hp (by omega) ?_ (fun hty => absurd hty (isBinary_not_utf8 ty hbin))
      by_cases hn : bs.length = 0
      · rw [hn]; simpa using hp.2.1 _ (List.mem_of_getLast? hl)
      · exact hm hn
    · simp [notSupported, fail] at h
  | bytesView p ty v views buf =>
    simp only [seqLikeWith] at h
    split at h
    · rename_i hbin
      obtain ⟨v', _, h⟩ := (bind_ok _ _ _).1 h
      obtain ⟨bs, _, h⟩ := (bind_ok _ _ _).1 h
      obtain ⟨vp, hvp, h⟩ := (bind_ok _ _ _).1 h
      cases h
      simp only [PX] at hp ⊢
      refine ViewPX_push (value := bs) hp ?_ (viewSeq_cases hvp)
      intro hty
      subst hty
      exact absurd hbin (by decide)
    · simp [notSupported, fail] at h
  | fixedSizeBinary p n len v buf cur =>
    simp only [seqLikeWith] at h
    obtain ⟨v', _, h⟩ := (bind_ok _ _ _).1 h
    obtain ⟨bs, _, h⟩ := (bind_ok _ _ _).1 h
    split at h
    · simp [fail] at h
    · cases h
      simp only [PX]
  | struct p len v fs cached next seen =>
    simp only [PX] at hp
    cases k with
    | seq => simp [seqLikeWith, notSupported, fail] at h
    | tuple => simp only [seqLikeWith] at h; exact record_PX hpt h hp
    | tupleStruct => simp only [seqLikeWith] at h; exact record_PX hpt h hp
  | unknownVariant p => simp [seqLikeWith, fail] at h
  | null p len => simp [seqLikeWith, notSupported, fail] at h
  | leaf p kind v vals => simp [seqLikeWith, notSupported, fail] at h
  | map p mm v offs ks vs => simp [seqLikeWith, notSupported, fail] at h
  | dictionary p idx vals index => simp [seqLikeWith, notSupported, fail] at h
  | union p fs types offs cur => simp [seqLikeWith, notSupported, fail] at h

theorem serializeVariant_get {fs : BL} {types offs cur : List Int} {idx : Nat} {r : B × List Int × List Int × List Int}
    (h : serializeVariant fs types offs cur idx = .ok r) : ∃ m, fs.get? idx = some (r.1, m) := by
  unfold serializeVariant at h
  split at h
  · simp [fail] at h
  · rename_i c m hget
    split at h
    · simp [panic] at h
    · split at h
      · simp [fail] at h
      · split at h
        · simp [fail] at h
        · cases h; exact ⟨m, hget⟩

/-- one row of a union: bookkeeping + the variant's child -/
theorem union_row_PX {p fs types offs cur} {i : Nat} {pc : B → R B} {b' : B}
    (hpc : ∀ c c', pc c = .ok c' → PX c → PX c')
    (h : (do
      let (c, types', offs', cur') ← serializeVariant fs types offs cur i
      let c' ← pc c
      pure (.union p (fs.set i c') types' offs' cur') : R B) = .ok b') (hp : PXL fs) : PX b' := by
  obtain ⟨⟨c, t', o', cur'⟩, h1, h⟩ := (bind_ok _ _ _).1 h
  obtain ⟨c', h2, h⟩ := (bind_ok _ _ _).1 h
  cases h
  obtain ⟨m, hget⟩ := serializeVariant_get h1
  simp only [PX]
  exact PXL_set _ _ c' (hpc c c' h2 (PXL_get _ _ c m hget hp)) hp

theorem pushByteElems_PX (ext : Ext) (large : Bool) : ∀ (bs : Bytes) (el : B) (offs : List Int) (r : B × List Int),
    pushByteElems ext large el offs bs = .ok r → OffsLe offs (offMax large) → PX el →
    OffsLe r.2 (offMax large) ∧ PX r.1
  | [], el, offs, r, h, ho, hp => by simp only [pushByteElems] at h; cases h; exact ⟨ho, hp⟩
  | x :: rest, el, offs, r, h, ho, hp => by
    simp only [pushByteElems] at h
    obtain ⟨o', h1, h⟩ := (bind_ok _ _ _).1 h
    obtain ⟨el', h2, h⟩ := (bind_ok _ _ _).1 h
    exact pushByteElems_PX ext large rest el' o' r h (OffsLe_incrementLast ho h1)
      (pushScalar_PX ext el _ el' ((ctx_ok _ _ _).1 h2) hp)

/-! ### the push block -/

mutual
/-- **`push` preserves `PX`** -/
theorem push_PX (ext : Ext) : ∀ (x : SVal) (b b' : B), push ext b x = .ok b' → PX b → PX b'
  | .some v, b, b', h, hp => by rw [push] at h; exact push_PX ext v b b' h hp
  | .newtypeStruct _ v, b, b', h, hp => by rw [push] at h; exact push_PX ext v b b' h hp
  | .none, b, b', h, hp => by rw [push] at h; exact pushNone_PX b b' h hp
  | .unit, b, b', h, hp => by
    cases b with
    | unknownVariant p => simp [push, ctx_ok, fail] at h
    | _ => simp only [push] at h; exact pushNone_PX _ b' h hp
  | .seq xs, b, b', h, hp => by
    rw [push, ctx_ok] at h
    exact seqLikeWith_PX (fun large el offs r hr => pushElems_PX ext xs large el offs r hr)
      (fun el c r hr => pushCountElems_PX ext xs el c r hr)
      (fun s s' hs => pushTupleElems_PX ext xs s s' hs) b _ b' h hp
  | .tuple xs, b, b', h, hp => by
    rw [push, ctx_ok] at h
    exact seqLikeWith_PX (fun large el offs r hr => pushElems_PX ext xs large el offs r hr)
      (fun el c r hr => pushCountElems_PX ext xs el c r hr)
      (fun s s' hs => pushTupleElems_PX ext xs s s' hs) b _ b' h hp
  | .tupleStruct _ xs, b, b', h, hp => by
    rw [push, ctx_ok] at h
    exact seqLikeWith_PX (fun large el offs r hr => pushElems_PX ext xs large el offs r hr)
      (fun el c r hr => pushCountElems_PX ext xs el c r hr)
      (fun s s' hs => pushTupleElems_PX ext xs s s' hs) b _ b' h hp
  | .record _ fs, b, b', h, hp => by
    rw [push, ctx_ok] at h
    exact recordWith_PX (fun s s' hs => pushFields_PX ext fs s s' hs) b b' h hp
  | .map es, b, b', h, hp => by
    cases b with
    | struct p len v fs cached next seen =>
      simp only [push, ctx_ok] at h
      simp only [PX] at hp
      exact record_PX (pf := fun s => pushStructEntries ext { s with next := UNKNOWN_KEY } es)
        (fun s s' hs hps => pushStructEntries_PX ext es _ s' hs hps) h hp
    | map p mm v offs ks vs =>
      simp only [push, ctx_ok] at h
      obtain ⟨v', _, h⟩ := (bind_ok _ _ _).1 h
      obtain ⟨o1, h2, h⟩ := (bind_ok _ _ _).1 h
      obtain ⟨⟨o2, ks', vs'⟩, h3, h⟩ := (bind_ok _ _ _).1 h
      cases h
      simp only [PX] at hp ⊢
      exact pushMapEntries_PX ext es _ _ _ _ h3 (OffsLe_duplicateLast hp.1 h2) hp.2.1 hp.2.2
    | _ => simp [push, ctx_ok, notSupported, fail] at h
  | .mapRaw ops, b, b', h, hp => by
    cases b with
    | struct p len v fs cached next seen =>
      simp only [push, ctx_ok] at h
      simp only [PX] at hp
      exact record_PX (pf := fun s => pushStructOps ext { s with next := UNKNOWN_KEY } ops)
        (fun s s' hs hps => pushStructOps_PX ext ops _ s' hs hps) h hp
    | map p mm v offs ks vs =>
      simp only [push, ctx_ok] at h
      obtain ⟨v', _, h⟩ := (bind_ok _ _ _).1 h
      obtain ⟨o1, h2, h⟩ := (bind_ok _ _ _).1 h
      obtain ⟨⟨o2, ks', vs'⟩, h3, h⟩ := (bind_ok _ _ _).1 h
      cases h
      simp only [PX] at hp ⊢
      exact pushMapOps_PX ext ops _ _ _ _ _ h3 (OffsLe_duplicateLast hp.1 h2) hp.2.1 hp.2.2
    | _ => simp [push, ctx_ok, notSupported, fail] at h
  | .unitVariant n i vn, b, b', h, hp => by
    cases b with
    | union p fs types offs cur =>
      simp only [push, ctx_ok] at h
      simp only [PX] at hp
      refine union_row_PX (pc := fun c => match c with
          | .unknownVariant _ => ctx c.ann (fail "Unknown variant does not support serialize_unit")
          | _ => pushNone c) ?_ h hp
      intro c c' hc hpc
      split at hc
      · simp [ctx_ok, fail] at hc
      · exact pushNone_PX c c' hc hpc
    | _ => simp only [push, ctx_ok] at h; exact pushScalar_PX ext _ _ b' h hp
  | .newtypeVariant _ i _ v, b, b', h, hp => by
    cases b with
    | union p fs types offs cur =>
      simp only [push, ctx_ok] at h
      simp only [PX] at hp
      exact union_row_PX (pc := fun c => push ext c v) (fun c c' hc hpc => push_PX ext v c c' hc hpc) h hp
    | bytes _ ty _ _ _ => simp only [push, ctx_ok] at h; split at h <;> simp [notSupported, fail] at h
    | bytesView _ ty _ _ _ => simp only [push, ctx_ok] at h; split at h <;> simp [notSupported, fail] at h
    | _ => simp [push, ctx_ok, notSupported, fail] at h
  | .tupleVariant _ i _ xs, b, b', h, hp => by
    cases b with
    | union p fs types offs cur =>
      simp only [push, ctx_ok] at h
      simp only [PX] at hp
      refine union_row_PX (pc := fun c => ctx c.ann (seqLikeWith (fun large el offs => pushElems ext large el offs xs)
        (fun el c => pushCountElems ext el c xs) (fun s => pushTupleElems ext s xs) (u8All xs) c .tupleStruct)) ?_ h hp
      intro c c' hc hpc
      rw [ctx_ok] at hc
      exact seqLikeWith_PX (fun large el offs r hr => pushElems_PX ext xs large el offs r hr)
        (fun el c r hr => pushCountElems_PX ext xs el c r hr)
        (fun s s' hs => pushTupleElems_PX ext xs s s' hs) c _ c' hc hpc
    | bytes _ ty _ _ _ => simp only [push, ctx_ok] at h; split at h <;> simp [notSupported, fail] at h
    | bytesView _ ty _ _ _ => simp only [push, ctx_ok] at h; split at h <;> simp [notSupported, fail] at h
    | _ => simp [push, ctx_ok, notSupported, fail] at h
  | .structVariant _ i _ fields, b, b', h, hp => by
    cases b with
    | union p fs types offs cur =>
      simp only [push, ctx_ok] at h
      simp only [PX] at hp
      refine union_row_PX (pc := fun c => ctx c.ann (recordWith (fun s => pushFields ext s fields) c)) ?_ h hp
      intro c c' hc hpc
      rw [ctx_ok] at hc
      exact recordWith_PX (fun s s' hs => pushFields_PX ext fields s s' hs) c c' hc hpc
    | bytes _ ty _ _ _ => simp only [push, ctx_ok] at h; split at h <;> simp [notSupported, fail] at h
    | bytesView _ ty _ _ _ => simp only [push, ctx_ok] at h; split at h <;> simp [notSupported, fail] at h
    | _ => simp [push, ctx_ok, notSupported, fail] at h
  | .bytes bs, b, b', h, hp => by
    cases b with
    | list p large fm v offs el =>
      simp only [push, ctx_ok] at h
      obtain ⟨v', _, h⟩ := (bind_ok _ _ _).1 h
      obtain ⟨o1, h2, h⟩ := (bind_ok _ _ _).1 h
      obtain ⟨⟨el', o2⟩, h3, h⟩ := (bind_ok _ _ _).1 h
      cases h
      simp only [PX] at hp ⊢
      have := pushByteElems_PX ext large bs el o1 _ h3 (OffsLe_duplicateLast hp.1 h2) hp.2
      exact ⟨this.1, this.2⟩
    | _ => simp only [push, ctx_ok] at h; exact pushScalar_PX ext _ _ b' h hp
  | .bool x, b, b', h, hp => by rw [push, ctx_ok] at h; exact pushScalar_PX ext _ _ b' h hp
  | .int t x, b, b', h, hp => by rw [push, ctx_ok] at h; exact pushScalar_PX ext _ _ b' h hp
  | .f32 x, b, b', h, hp => by rw [push, ctx_ok] at h; exact pushScalar_PX ext _ _ b' h hp
  | .f64 x, b, b', h, hp => by rw [push, ctx_ok] at h; exact pushScalar_PX ext _ _ b' h hp
  | .char x, b, b', h, hp => by rw [push, ctx_ok] at h; exact pushScalar_PX ext _ _ b' h hp
  | .str x, b, b', h, hp => by rw [push, ctx_ok] at h; exact pushScalar_PX ext _ _ b' h hp
  | .unitStruct x, b, b', h, hp => by
    cases b with
    | unknownVariant p => simp [push, ctx_ok, fail] at h
    | _ => simp only [push] at h; exact pushNone_PX _ b' h hp

theorem pushElems_PX (ext : Ext) : ∀ (xs : SVals) (large : Bool) (el : B) (offs : List Int) (r : B × List Int),
    pushElems ext large el offs xs = .ok r → OffsLe offs (offMax large) → PX el →
    OffsLe r.2 (offMax large) ∧ PX r.1
  | .nil, large, el, offs, r, h, ho, hp => by rw [pushElems] at h; cases h; exact ⟨ho, hp⟩
  | .cons x rest, large, el, offs, r, h, ho, hp => by
    rw [pushElems] at h
    obtain ⟨o', h1, h⟩ := (bind_ok _ _ _).1 h
    obtain ⟨el', h2, h⟩ := (bind_ok _ _ _).1 h
    exact pushElems_PX ext rest large el' o' r h (OffsLe_incrementLast ho h1) (push_PX ext x el el' h2 hp)

theorem pushCountElems_PX (ext : Ext) : ∀ (xs : SVals) (el : B) (c : Nat) (r : B × Nat),
    pushCountElems ext el c xs = .ok r → PX el → PX r.1
  | .nil, el, c, r, h, hp => by rw [pushCountElems] at h; cases h; exact hp
  | .cons x rest, el, c, r, h, hp => by
    rw [pushCountElems] at h
    obtain ⟨el', h2, h⟩ := (bind_ok _ _ _).1 h
    exact pushCountElems_PX ext rest el' (c + 1) r h (push_PX ext x el el' h2 hp)

theorem pushTupleElems_PX (ext : Ext) : ∀ (xs : SVals) (s s' : SS), pushTupleElems ext s xs = .ok s' →
    PXL s.fields → PXL s'.fields
  | .nil, s, s', h, hp => by rw [pushTupleElems] at h; cases h; exact hp
  | .cons x rest, s, s', h, hp => by
    rw [pushTupleElems] at h
    split at h
    · obtain ⟨s1, h1, h⟩ := (bind_ok _ _ _).1 h
      exact pushTupleElems_PX ext rest s1 s' h
        (SS.element_PX (fun c c' hc hpc => push_PX ext x c c' hc hpc) h1 hp)
    · exact pushTupleElems_PX ext rest s s' h hp

theorem pushFields_PX (ext : Ext) : ∀ (fs : SFields) (s s' : SS), pushFields ext s fs = .ok s' →
    PXL s.fields → PXL s'.fields
  | .nil, s, s', h, hp => by rw [pushFields] at h; cases h; exact hp
  | .cons key al x rest, s, s', h, hp => by
    rw [pushFields] at h
    split at h
    · exact pushFields_PX ext rest _ s' h hp
    · obtain ⟨s1, h1, h⟩ := (bind_ok _ _ _).1 h
      exact pushFields_PX ext rest s1 s' h
        (SS.element_PX (fun c c' hc hpc => push_PX ext x c c' hc hpc) h1 hp)

theorem pushStructEntries_PX (ext : Ext) : ∀ (es : SEntries) (s s' : SS),
    pushStructEntries ext s es = .ok s' → PXL s.fields → PXL s'.fields
  | .nil, s, s', h, hp => by rw [pushStructEntries] at h; cases h; exact hp
  | .cons k x rest, s, s', h, hp => by
    rw [pushStructEntries] at h
    obtain ⟨key, _, h⟩ := (bind_ok _ _ _).1 h
    split at h
    · exact pushStructEntries_PX ext rest _ s' h hp
    · obtain ⟨s1, h1, h⟩ := (bind_ok _ _ _).1 h
      have hp1 : PXL s1.fields := SS.element_PX (fun c c' hc hpc => push_PX ext x c c' hc hpc) h1 hp
      exact pushStructEntries_PX ext rest _ s' h hp1

theorem pushStructOps_PX (ext : Ext) : ∀ (ops : SMapOps) (s s' : SS),
    pushStructOps ext s ops = .ok s' → PXL s.fields → PXL s'.fields
  | .nil, s, s', h, hp => by rw [pushStructOps] at h; cases h; exact hp
  | .key k rest, s, s', h, hp => by
    rw [pushStructOps] at h
    obtain ⟨key, _, h⟩ := (bind_ok _ _ _).1 h
    exact pushStructOps_PX ext rest _ s' h hp
  | .value x rest, s, s', h, hp => by
    rw [pushStructOps] at h
    split at h
    · obtain ⟨s1, h1, h⟩ := (bind_ok _ _ _).1 h
      have hp1 : PXL s1.fields := SS.element_PX (fun c c' hc hpc => push_PX ext x c c' hc hpc) h1 hp
      exact pushStructOps_PX ext rest _ s' h hp1
    · exact pushStructOps_PX ext rest _ s' h hp

theorem pushMapEntries_PX (ext : Ext) : ∀ (es : SEntries) (offs : List Int) (ks vs : B) (r : List Int × B × B),
    pushMapEntries ext offs ks vs es = .ok r → OffsLe offs (offMax false) → PX ks → PX vs →
    OffsLe r.1 (offMax false) ∧ PX r.2.1 ∧ PX r.2.2
  | .nil, offs, ks, vs, r, h, ho, hk, hv => by rw [pushMapEntries] at h; cases h; exact ⟨ho, hk, hv⟩
  | .cons k x rest, offs, ks, vs, r, h, ho, hk, hv => by
    rw [pushMapEntries] at h
    obtain ⟨o', h1, h⟩ := (bind_ok _ _ _).1 h
    obtain ⟨ks', h2, h⟩ := (bind_ok _ _ _).1 h
    obtain ⟨vs', h3, h⟩ := (bind_ok _ _ _).1 h
    exact pushMapEntries_PX ext rest o' ks' vs' r h (OffsLe_incrementLast ho h1)
      (push_PX ext k ks ks' h2 hk) (push_PX ext x vs vs' h3 hv)

theorem pushMapOps_PX (ext : Ext) : ∀ (ops : SMapOps) (pd : Bool) (offs : List Int) (ks vs : B) (r : List Int × B × B),
    pushMapOps ext pd offs ks vs ops = .ok r → OffsLe offs (offMax false) → PX ks → PX vs →
    OffsLe r.1 (offMax false) ∧ PX r.2.1 ∧ PX r.2.2
  | .nil, pd, offs, ks, vs, r, h, ho, hk, hv => by
    obtain ⟨_, rfl⟩ := pushMapOps_nil_ok h; exact ⟨ho, hk, hv⟩
  | .key k rest, pd, offs, ks, vs, r, h, ho, hk, hv => by
    obtain ⟨_, o', ks', h1, h2, h⟩ := pushMapOps_key_ok h
    exact pushMapOps_PX ext rest true o' ks' vs r h (OffsLe_incrementLast ho h1) (push_PX ext k ks ks' h2 hk) hv
  | .value x rest, pd, offs, ks, vs, r, h, ho, hk, hv => by
    obtain ⟨_, vs', h3, h⟩ := pushMapOps_value_ok h
    exact pushMapOps_PX ext rest false offs ks vs' r h ho hk (push_PX ext x vs vs' h3 hv)
end

end SaModel.Lemmas.C03
