import SaModel.Lemmas.C03PX
/-
`PX` is preserved by placeholders (`serialize_default`), nulls (`serialize_none`) and scalar pushes.
-/
namespace SaModel.Lemmas.C03
open SaModel SaModel.Build SaModel.Spec

theorem iter_dup_OffsLe (k : Nat) (v v' : Validity) (offs offs' : List Int) (m : Int)
    (h : iter k (fun (s : Validity × List Int) => do
      let o ← duplicateLast s.2
      pure (setValidityDefault s.1 (s.2.length - 1), o)) (v, offs) = .ok (v', offs'))
    (hp : OffsLe offs m) : OffsLe offs' m := by
  refine iter_inv (fun s => OffsLe s.2 m) _ ?_ k (v, offs) (v', offs') h hp
  intro a a' ha hpa
  obtain ⟨o, ho, hr⟩ := (bind_ok _ _ _).1 ha
  cases hr
  exact OffsLe_duplicateLast hpa ho

theorem iter_dup_BytesPX (k : Nat) (v v' : Validity) (offs offs' : List Int) (ty : BytesTy) (data : Bytes)
    (h : iter k (fun (s : Validity × List Int) => do
      let o ← duplicateLast s.2
      pure (setValidityDefault s.1 (s.2.length - 1), o)) (v, offs) = .ok (v', offs'))
    (hp : BytesPX ty offs data) : BytesPX ty offs' data := by
  refine iter_inv (fun s => BytesPX ty s.2 data) _ ?_ k (v, offs) (v', offs') h hp
  intro a a' ha hpa
  obtain ⟨o, ho, hr⟩ := (bind_ok _ _ _).1 ha
  cases hr
  exact BytesPX_dup hpa ho

mutual
theorem pushDefaultK_PX : ∀ (b : B) (k : Nat) (b' : B), pushDefaultK b k = .ok b' → PX b → PX b'
  | .null p len, k, b', h, _ => by simp only [pushDefaultK] at h; cases h; simp only [PX]
  | .unknownVariant p, k, b', h, _ => by
    simp only [pushDefaultK] at h
    split at h
    · cases h; simp only [PX]
    · simp [ctx_ok, fail] at h
  | .leaf p kind v vals, k, b', h, _ => by
    simp only [pushDefaultK] at h
    obtain ⟨⟨v', vals'⟩, _, h2⟩ := (bind_ok _ _ _).1 h
    cases h2; simp only [PX]
  | .bytes p ty v offs data, k, b', h, hp => by
    simp only [pushDefaultK, ctx_ok] at h
    obtain ⟨⟨v', offs'⟩, h1, h2⟩ := (bind_ok _ _ _).1 h
    cases h2
    simp only [PX] at hp ⊢
    exact iter_dup_BytesPX k v v' offs offs' ty data h1 hp
  | .bytesView p ty v views buf, k, b', h, hp => by
    simp only [pushDefaultK] at h
    obtain ⟨⟨v', views'⟩, h1, h2⟩ := (bind_ok _ _ _).1 h
    cases h2
    simp only [PX] at hp ⊢
    refine iter_inv (fun (s : Validity × List Nat) => ViewPX ty s.2 buf) _ ?_ k (v, views) (v', views') h1 hp
    intro a a' ha hpa
    cases ha
    exact ViewPX_default hpa
  | .fixedSizeBinary p n len v buf cur, k, b', h, _ => by
    simp only [pushDefaultK] at h
    obtain ⟨⟨len', v', buf'⟩, _, h2⟩ := (bind_ok _ _ _).1 h
    cases h2; simp only [PX]
  | .list p large fm v offs el, k, b', h, hp => by
    simp only [pushDefaultK, ctx_ok] at h
    obtain ⟨⟨v', offs'⟩, h1, h2⟩ := (bind_ok _ _ _).1 h
    cases h2
    simp only [PX] at hp ⊢
    exact ⟨iter_dup_OffsLe k v v' offs offs' _ h1 hp.1, hp.2⟩
  | .fixedSizeList p fm n len v cur el, k, b', h, hp => by
    simp only [pushDefaultK, ctx_ok] at h
    obtain ⟨⟨len', v'⟩, _, h2⟩ := (bind_ok _ _ _).1 h
    obtain ⟨el', h3, h4⟩ := (bind_ok _ _ _).1 h2
    cases h4
    simp only [PX] at hp ⊢
    exact pushDefaultK_PX el (k * n) el' h3 hp
  | .map p mm v offs ks vs, k, b', h, hp => by
    simp only [pushDefaultK, ctx_ok] at h
    obtain ⟨⟨v', offs'⟩, h1, h2⟩ := (bind_ok _ _ _).1 h
    cases h2
    simp only [PX] at hp ⊢
    exact ⟨iter_dup_OffsLe k v v' offs offs' _ h1 hp.1, hp.2⟩
  | .struct p len v fs cached next seen, k, b', h, hp => by
    simp only [pushDefaultK, ctx_ok] at h
    obtain ⟨⟨len', v'⟩, _, h2⟩ := (bind_ok _ _ _).1 h
    obtain ⟨fs', h3, h4⟩ := (bind_ok _ _ _).1 h2
    cases h4
    simp only [PX] at hp ⊢
    exact pushDefaultKAll_PX fs k fs' h3 hp
  | .dictionary p idx vals index, k, b', h, hp => by
    simp only [pushDefaultK, ctx_ok] at h
    obtain ⟨idx', h1, h2⟩ := (bind_ok _ _ _).1 h
    cases h2
    simp only [PX] at hp ⊢
    exact ⟨pushDefaultK_PX idx k idx' h1 hp.1, hp.2⟩
  | .union p .nil types offs cur, k, b', h, hp => by
    simp only [pushDefaultK, ctx_ok] at h
    split at h
    · cases h; exact hp
    · simp [fail] at h
  | .union p (.cons c m rest) types offs cur, k, b', h, hp => by
    simp only [pushDefaultK, ctx_ok] at h
    split at h
    · simp [fail] at h
    split at h
    · simp [fail] at h
    · obtain ⟨fs', h1, h2⟩ := (bind_ok _ _ _).1 h
      split at h2
      · simp [fail] at h2
      cases h2
      simp only [PX] at hp ⊢
      exact pushDefaultKAt_PX _ _ k fs' h1 hp
theorem pushDefaultKAll_PX : ∀ (fs : BL) (k : Nat) (fs' : BL), pushDefaultKAll fs k = .ok fs' → PXL fs → PXL fs'
  | .nil, k, fs', h, _ => by simp only [pushDefaultKAll] at h; cases h; trivial
  | .cons b m rest, k, fs', h, hp => by
    simp only [pushDefaultKAll] at h
    obtain ⟨b', h1, h2⟩ := (bind_ok _ _ _).1 h
    obtain ⟨r', h3, h4⟩ := (bind_ok _ _ _).1 h2
    cases h4
    simp only [PXL] at hp ⊢
    exact ⟨pushDefaultK_PX b k b' h1 hp.1, pushDefaultKAll_PX rest k r' h3 hp.2⟩
theorem pushDefaultKAt_PX : ∀ (fs : BL) (j k : Nat) (fs' : BL), pushDefaultKAt fs j k = .ok fs' → PXL fs → PXL fs'
  | .nil, _, _, fs', h, _ => by simp only [pushDefaultKAt] at h; cases h; trivial
  | .cons b m rest, 0, k, fs', h, hp => by
    simp only [pushDefaultKAt] at h
    obtain ⟨b', h1, h2⟩ := (bind_ok _ _ _).1 h
    cases h2
    simp only [PXL] at hp ⊢
    exact ⟨pushDefaultK_PX b k b' h1 hp.1, hp.2⟩
  | .cons b m rest, j + 1, k, fs', h, hp => by
    simp only [pushDefaultKAt] at h
    obtain ⟨r', h1, h2⟩ := (bind_ok _ _ _).1 h
    cases h2
    simp only [PXL] at hp ⊢
    exact ⟨hp.1, pushDefaultKAt_PX rest j k r' h1 hp.2⟩
end

theorem pushNone_PX : ∀ (b : B) (b' : B), pushNone b = .ok b' → PX b → PX b'
  | .null p len, b', h, _ => by simp only [pushNone] at h; cases h; simp only [PX]
  | .unknownVariant p, b', h, _ => by simp [pushNone, ctx_ok, fail] at h
  | .leaf p k v vals, b', h, _ => by
    simp only [pushNone, ctx_ok] at h
    obtain ⟨v', _, h2⟩ := (bind_ok _ _ _).1 h
    cases h2; simp only [PX]
  | .bytes p ty v offs data, b', h, hp => by
    simp only [pushNone, ctx_ok] at h
    obtain ⟨v', _, h2⟩ := (bind_ok _ _ _).1 h
    obtain ⟨o', h3, h4⟩ := (bind_ok _ _ _).1 h2
    cases h4
    simp only [PX] at hp ⊢
    exact BytesPX_dup hp h3
  | .bytesView p ty v views buf, b', h, hp => by
    simp only [pushNone, ctx_ok] at h
    obtain ⟨v', _, h2⟩ := (bind_ok _ _ _).1 h
    cases h2
    simp only [PX] at hp ⊢
    exact ViewPX_default hp
  | .fixedSizeBinary p n len v buf cur, b', h, _ => by
    simp only [pushNone, ctx_ok] at h
    obtain ⟨v', _, h2⟩ := (bind_ok _ _ _).1 h
    cases h2; simp only [PX]
  | .list p large fm v offs el, b', h, hp => by
    simp only [pushNone, ctx_ok] at h
    obtain ⟨v', _, h2⟩ := (bind_ok _ _ _).1 h
    obtain ⟨o', h3, h4⟩ := (bind_ok _ _ _).1 h2
    cases h4
    simp only [PX] at hp ⊢
    exact ⟨OffsLe_duplicateLast hp.1 h3, hp.2⟩
  | .fixedSizeList p fm n len v cur el, b', h, hp => by
    simp only [pushNone, ctx_ok] at h
    obtain ⟨v', _, h2⟩ := (bind_ok _ _ _).1 h
    obtain ⟨el', h3, h4⟩ := (bind_ok _ _ _).1 h2
    cases h4
    simp only [PX] at hp ⊢
    exact pushDefaultK_PX el n el' h3 hp
  | .map p mm v offs ks vs, b', h, hp => by
    simp only [pushNone, ctx_ok] at h
    obtain ⟨v', _, h2⟩ := (bind_ok _ _ _).1 h
    obtain ⟨o', h3, h4⟩ := (bind_ok _ _ _).1 h2
    cases h4
    simp only [PX] at hp ⊢
    exact ⟨OffsLe_duplicateLast hp.1 h3, hp.2⟩
  | .struct p len v fs cached next seen, b', h, hp => by
    simp only [pushNone, ctx_ok] at h
    obtain ⟨v', _, h2⟩ := (bind_ok _ _ _).1 h
    obtain ⟨fs', h3, h4⟩ := (bind_ok _ _ _).1 h2
    cases h4
    simp only [PX] at hp ⊢
    exact pushDefaultKAll_PX fs 1 fs' h3 hp
  | .dictionary p idx vals index, b', h, hp => by
    simp only [pushNone, ctx_ok] at h
    split at h
    · simp [fail] at h
    obtain ⟨idx', h1, h2⟩ := (bind_ok _ _ _).1 h
    cases h2
    simp only [PX] at hp ⊢
    exact ⟨pushNone_PX idx idx' ((ctx_ok _ _ _).1 h1) hp.1, hp.2⟩
  | .union p fs types offs cur, b', h, _ => by simp [pushNone, ctx_ok, fail] at h

/-- `duplicate_last` followed by `increment_last(n)`: the new last offset is `old last + n` -/
theorem dup_inc {c large : Bool} {offs o1 o2 : List Int} {n : Nat} (h1 : duplicateLast offs = .ok o1)
    (h2 : incrementLast c large o1 n = .ok o2) :
    ∃ l, offs.getLast? = some l ∧ o2 = offs ++ [l + (n : Int)] ∧ l + (n : Int) ≤ offMax large := by
  obtain ⟨l, hl, rfl⟩ := duplicateLast_ok h1
  obtain ⟨l', hl', rfl, hle⟩ := incrementLast_ok h2
  simp only [List.getLast?_append, List.getLast?_singleton, Option.some_or, Option.some.injEq] at hl'
  subst hl'
  exact ⟨l, hl, by rw [dropLast_snoc], hle⟩

theorem BytesPX_last {ty : BytesTy} {offs : List Int} {data : Bytes} {l : Int} (h : BytesPX ty offs data)
    (hl : offs.getLast? = some l) : l = (data.length : Int) := by
  have := h.1.2.1; rw [hl] at this; exact Option.some.inj this

theorem pushScalar_PX (ext : Ext) : ∀ (b : B) (x : SVal) (b' : B), pushScalar ext b x = .ok b' → PX b → PX b'
  | .null p len, x, b', h, _ => by
    unfold pushScalar at h
    split at h
    · cases h; simp only [PX]
    · simp [notSupported, fail] at h
  | .unknownVariant p, x, b', h, _ => by simp [pushScalar, fail] at h
  | .leaf p k v vals, x, b', h, _ => by
    simp only [pushScalar] at h
    obtain ⟨val, _, h2⟩ := (bind_ok _ _ _).1 h
    obtain ⟨v', _, h4⟩ := (bind_ok _ _ _).1 h2
    cases h4; simp only [PX]
  | .bytes p ty v offs data, x, b', h, hp => by
    simp only [pushScalar] at h
    obtain ⟨bs, hbs, h2⟩ := (bind_ok _ _ _).1 h
    obtain ⟨v', _, h4⟩ := (bind_ok _ _ _).1 h2
    obtain ⟨o1, h5, h6⟩ := (bind_ok _ _ _).1 h4
    obtain ⟨o2, h7, h8⟩ := (bind_ok _ _ _).1 h6
    cases h8
    simp only [PX] at hp ⊢
    obtain ⟨l, hl, rfl, hle⟩ := dup_inc h5 h7
    have hld := BytesPX_last hp hl
    subst hld
    refine BytesPX_chunk hp (by omega) hle ?_
    intro hty
    simp only [hty, if_true] at hbs
    split at hbs
    · cases hbs; exact Lemmas.Utf8.validUtf8_strBytes _
    · simp [notSupported, fail] at hbs
  | .bytesView p ty v views buf, x, b', h, hp => by
    simp only [pushScalar] at h
    obtain ⟨bs, hbs, h2⟩ := (bind_ok _ _ _).1 h
    obtain ⟨vp, hvp, h2⟩ := (bind_ok _ _ _).1 h2
    obtain ⟨v', _, h4⟩ := (bind_ok _ _ _).1 h2
    cases h4
    simp only [PX] at hp ⊢
    refine ViewPX_push (value := bs) hp ?_ (viewPushValue_cases hvp)
    intro hty
    subst hty
    simp only [show (ViewTy.utf8View == ViewTy.utf8View) = true from rfl, if_true] at hbs
    split at hbs
    · cases hbs; exact Lemmas.Utf8.validUtf8_strBytes _
    · simp [notSupported, fail] at hbs
  | .fixedSizeBinary p n len v buf cur, x, b', h, _ => by
    unfold pushScalar at h
    split at h
    · split at h
      · simp [fail] at h
      · obtain ⟨v', _, h4⟩ := (bind_ok _ _ _).1 h
        cases h4; simp only [PX]
    · simp [notSupported, fail] at h
  | .dictionary p idx vals index, x, b', h, hp => by
    unfold pushScalar at h
    simp only at h
    simp only [PX] at hp
    split at h
    · split at h
      · obtain ⟨idx', h1, h2⟩ := (bind_ok _ _ _).1 h
        cases h2
        rw [ctx_eq_ok] at h1
        simp only [PX]
        exact ⟨pushScalar_PX ext idx _ idx' h1 hp.1, hp.2⟩
      · obtain ⟨vals', h1, h2⟩ := (bind_ok _ _ _).1 h
        obtain ⟨idx', h3, h4⟩ := (bind_ok _ _ _).1 h2
        cases h4
        rw [ctx_eq_ok] at h1 h3
        simp only [PX]
        exact ⟨pushScalar_PX ext idx _ idx' h3 hp.1, pushScalar_PX ext vals _ vals' h1 hp.2⟩
    · simp [notSupported, fail] at h
  | .list _ _ _ _ _ _, x, b', h, _ => by simp [pushScalar, notSupported, fail] at h
  | .fixedSizeList _ _ _ _ _ _ _, x, b', h, _ => by simp [pushScalar, notSupported, fail] at h
  | .map _ _ _ _ _ _, x, b', h, _ => by simp [pushScalar, notSupported, fail] at h
  | .struct _ _ _ _ _ _ _, x, b', h, _ => by simp [pushScalar, notSupported, fail] at h
  | .union _ _ _ _ _, x, b', h, _ => by simp [pushScalar, notSupported, fail] at h

end SaModel.Lemmas.C03
